"""C16 — crash safety of TrainingStateController.update_for_epoch.

Correspondence between /repo's controller (run with os.replace / os.remove / torch.save /
tempfile.NamedTemporaryFile / the CSV append patched to count file-system calls and to kill
the "process" after k of them) and PV.C16.Model.run; every implementation observation is
also judged by PV.C16.Spec.spec_parts (the property read on observations alone).
"""
import builtins
import itertools
import json
import os
import re
import shutil
import tempfile
import warnings
from unittest import mock

import torch

torch.set_num_threads(1)

from vlib import CoqError, cb, cl, cn, co, cp, cz, coq_eval_bools, coq_eval_print, exc_kind, load_corpus, shrink

IMPORTS = "From PV Require Import C16.Model C16.Spec.\n"

# name -> (saved_model_fmt, saved_optimizer_fmt, model has {epoch}, optimizer has {epoch})
FMTS = {
    "ep": ("model_{epoch:03d}.pt", "optim_{epoch:03d}.pt", True, True),   # the defaults
    "e2": ("m-{epoch}.pt", "o-{epoch}.pt", True, True),
    "no": ("model.pt", "optim.pt", False, False),
    "mo": ("model_{epoch}.pt", "optim.pt", True, False),
    "om": ("model.pt", "optim_{epoch:02d}.pt", False, True),
    "sd": ("m/{epoch}.pt", "o/{epoch:02d}.pt", True, True),           # sub-directories of state_dir, one per kind
}
PARTS = ["hist_prefix", "load_last", "load_best", "final_hist", "dir_has", "dir_only", "load_all"]
SCALE = 4.0  # metrics are k/4: exact under the "{:.4e}" formatting of get_best_epoch


class Crash(BaseException):
    """the process dies here (BaseException: not swallowed by `except OSError`)"""


# ----------------------------------------------------------------------------------------
# implementation side
# ----------------------------------------------------------------------------------------


def _name_re(fmt):
    pat = re.escape(fmt)
    pat = re.sub(r"\\\{epoch[^}]*\\\}", r"(\\d+)", pat)
    return re.compile("^" + pat + "$")


class Names:
    def __init__(self, fmt, root=None):
        fm, fo, self.em, self.eo = FMTS[fmt]
        self.rm, self.ro = _name_re(fm), _name_re(fo)
        self.root = os.path.abspath(root) if root else None

    def key(self, path):
        """path handed to a file-system call -> ("M"|"O", epoch|None) or None; names are relative to state_dir"""
        a = os.path.abspath(os.fspath(path))
        if self.root and a.startswith(self.root + os.sep):
            return self.parse(os.path.relpath(a, self.root).replace(os.sep, "/"))
        return self.parse(os.path.basename(a))

    def parse(self, name):
        """file name -> ("M"|"O", epoch|None) or None for anything else (temporary files)"""
        for k, r, he in (("M", self.rm, self.em), ("O", self.ro, self.eo)):
            m = r.match(name)
            if m:
                return [k, int(m.group(1)) if he else None]
        return None

    def listing(self, d):
        names = []
        for top, _, files in (os.walk(d) if d is not None and os.path.isdir(d) else []):
            names += [os.path.relpath(os.path.join(top, f), d).replace(os.sep, "/") for f in files]
        ck = [self.parse(n) for n in sorted(names)]
        return [c for c in ck if c is not None], sum(1 for c in ck if c is None)


class Injector:
    """counts file-system mutating calls, logs them, raises Crash instead of the k-th"""

    def __init__(self, names, csv_path, crash_at, fault_rems=(), soft=False):
        self.names, self.csv, self.crash_at = names, os.path.abspath(csv_path or "/nonexistent/none.csv"), crash_at
        # soft: the process dies through an exception raised at that call (KeyboardInterrupt / SystemExit style): the
        # library's handlers RUN while it unwinds, so whatever they do to the files happens (and is logged); a hard crash
        # (the default) fails every later file-system call too.  The unchanged library makes no file-system call while
        # unwinding, so both deaths leave the same files and the model's prediction for a crash at call k covers both.
        self.soft, self.fired = bool(soft), False
        self.n = 0
        self.cur = None  # log of the current update call
        self.fault_rems, self.nrem, self.stuck = set(fault_rems), 0, []   # os.remove calls that fail (EACCES)

    def tick(self, what):
        if self.cur is None:  # not inside update_for_epoch (lazy imports of torch, ...)
            return
        if self.crash_at is not None and self.n == self.crash_at:
            if not self.soft:
                raise Crash()
            if not self.fired:
                self.fired = True
                raise Crash()
            self.cur.append(["while-unwinding"] + list(what))   # a handler touches the files: logged, then it happens
            return
        self.n += 1
        self.cur.append(what)

    def __enter__(self):
        inj = self
        r_replace, r_remove, r_save, r_open, r_ntf = os.replace, os.remove, torch.save, builtins.open, tempfile.NamedTemporaryFile

        def replace(src, dst, *a, **k):
            inj.tick(["rep", inj.names.key(dst)])
            return r_replace(src, dst, *a, **k)

        def remove(p, *a, **k):
            inj.tick(["rem", inj.names.key(p)])
            if inj.cur is not None:
                inj.nrem += 1
                if inj.nrem - 1 in inj.fault_rems:   # a file the process may not delete (read-only / foreign owner)
                    inj.stuck.append(inj.names.key(p))
                    raise PermissionError(13, "Permission denied", os.fspath(p))
            return r_remove(p, *a, **k)

        def save(obj, f, *a, **k):
            inj.tick(["fill"])
            return r_save(obj, f, *a, **k)

        def ntf(*a, **k):
            inj.tick(["mk"])
            return r_ntf(*a, **k)

        def open_(file, mode="r", *a, **k):
            if isinstance(file, (str, bytes, os.PathLike)) and any(c in mode for c in "wax+"):
                try:
                    same = os.path.abspath(os.fspath(file)) == inj.csv
                except Exception:
                    same = False
                if same:
                    inj.tick(["app"])
                elif not str(file).startswith("/dev/"):
                    inj.tick(["open-write", os.path.basename(str(file))])
            return r_open(file, mode, *a, **k)

        self.ps = [mock.patch.object(os, "replace", replace), mock.patch.object(os, "remove", remove),
                   mock.patch.object(os, "unlink", remove), mock.patch.object(os, "rename", replace),
                   mock.patch.object(torch, "save", save), mock.patch.object(builtins, "open", open_),
                   mock.patch.object(tempfile, "NamedTemporaryFile", ntf)]
        for p in self.ps:
            p.start()
        return self

    def __exit__(self, *a):
        for p in self.ps:
            p.stop()


_WARM = []


def _warm_up(workdir):
    """make torch do its lazy imports before anything is patched"""
    if _WARM:
        return
    m, o = _mk(0)
    m(torch.zeros(1, 1)).sum().backward()
    o.step()
    f = os.path.join(str(workdir), "warm%d.pt" % os.getpid())
    torch.save(o.state_dict(), f)
    o.load_state_dict(torch.load(f, map_location="cpu"))
    os.remove(f)
    _WARM.append(1)


def _mk(tag):
    m = torch.nn.Linear(1, 1, bias=False)
    with torch.no_grad():
        m.weight.fill_(float(tag))
    o = torch.optim.SGD(m.parameters(), lr=1.0)
    o.param_groups[0]["vtag"] = int(tag)
    return m, o


class _Toy(torch.nn.Linear):
    """the tiny deterministic model of the 'resume' stream (float64): `weight` and `aux` are trained by a REAL optimizer
    (two parameter groups); `bias` is not handed to the optimizer and carries the number of the update call, as the
    weight of `_mk`'s model does.  reset_parameters() - what load_*_for_epoch(..., 0) calls - is deterministic."""

    def __init__(self):
        super().__init__(1, 1, bias=True, dtype=torch.float64)
        self.aux = torch.nn.Parameter(torch.zeros(1, dtype=torch.float64))

    def reset_parameters(self):
        with torch.no_grad():
            self.weight.fill_(0.0)
            self.bias.fill_(0.0)
            if hasattr(self, "aux"):
                self.aux.fill_(0.0)


def _mk_real(case, tag):
    """model + real optimizer (SGD with momentum / Adam) as a training script builds them at start-up, before
    load_model_and_optimizer_for_epoch: construction-time learning rate case["real"]["lr0"] in both groups"""
    R = case["real"]
    m = _Toy()
    with torch.no_grad():
        m.bias.fill_(float(tag))
    if R["opt"] == "adam":
        o = torch.optim.Adam([{"params": [m.weight]}, {"params": [m.aux], "betas": (0.5, 0.75)}], lr=R["lr0"])
    else:
        o = torch.optim.SGD([{"params": [m.weight]}, {"params": [m.aux], "momentum": 0.0}], lr=R["lr0"],
                            momentum=R["mom"], nesterov=bool(R.get("nest")) and R["mom"] > 0)
    o.param_groups[0]["vtag"] = int(tag)
    return m, o


def _mval(m):
    """the number of the update call a model carries (see _mk / _Toy)"""
    return float((m.bias if m.bias is not None else m.weight).item())


def _train(case, m, o, e):
    """one epoch of real training (quadratic losses, a few optimizer steps) -> (train_met, val_met): the case's grid
    value moved by 0..2 / 0..4 grid steps that are read off the trained parameters, so every later metric - and with
    it every later decision of the controller and every later history row - depends on the model AND optimizer state
    (learning rate, momentum buffers / moments, step counts) the process carries"""
    import math
    R = case["real"]
    t = float(R["g"][(e - 1) % len(R["g"])])
    for s in range(R["steps"]):
        o.zero_grad()
        loss = 0.5 * ((m.weight - t) ** 2).sum() + 0.5 * ((m.aux + t - s) ** 2).sum()
        loss.backward()
        o.step()
    x = float(m.weight.item()) - 2.0 * float(m.aux.item())
    if not math.isfinite(x) or abs(x) > 1e9:
        raise RuntimeError("the toy training diverged: %r" % x)
    q = int(math.floor(x * 4096.0))
    btr, bva = case["mets"][e - 1]
    return (btr + q % 3) / SCALE, (bva + (q // 3) % 5) / SCALE


def _cv(v):
    if torch.is_tensor(v):
        return v.detach().reshape(-1).to(torch.float64).tolist()
    if v is None or isinstance(v, (bool, int, float, str)):
        return v
    if isinstance(v, (list, tuple)):
        return [_cv(x) for x in v]
    return repr(v)


def _canon(m, o):
    """the state a process trains on: trained parameters, every optimizer option of every group (learning rate,
    momentum, ...) and the per-parameter optimizer state; the call number (bias / 'vtag') is left out"""
    sd = o.state_dict()
    return {"params": {k: _cv(v) for k, v in sorted(m.state_dict().items()) if k != "bias"},
            "groups": [{k: _cv(v) for k, v in sorted(g.items()) if k != "vtag"} for g in sd["param_groups"]],
            "state": {str(k): {kk: _cv(vv) for kk, vv in sorted(v.items())} for k, v in sorted(sd["state"].items())}}


def _sdiff(a, b, where=""):
    """first difference between two canonical states, as text"""
    if isinstance(a, dict) and isinstance(b, dict):
        for k in sorted(set(a) | set(b), key=str):
            if k not in a or k not in b:
                return "%s/%s only on one side" % (where, k)
            d = _sdiff(a[k], b[k], "%s/%s" % (where, k))
            if d:
                return d
        return ""
    if isinstance(a, list) and isinstance(b, list) and len(a) == len(b):
        for i, (x, y) in enumerate(zip(a, b)):
            d = _sdiff(x, y, "%s/%d" % (where, i))
            if d:
                return d
        return ""
    return "" if a == b else "%s: %r != %r" % (where, a, b)


def _params(case):
    from pydrobert.torch.training import TrainingStateParams
    fm, fo, _, _ = FMTS[case["fmt"]]
    return TrainingStateParams(keep_last_and_best_only=bool(case["klb"]), saved_model_fmt=fm,
                               saved_optimizer_fmt=fo, **case.get("ctl", {}))


def _controller(params, csvp, sd, entry=True):
    from pydrobert.torch.training import TrainingStateController
    c = TrainingStateController(params, csvp, sd, warn=False)
    if entry:
        c.add_entry("tag", int)
    return c


def _load_all(c, last, notes, mk=None, lrs=None):
    """[epoch, value the model file gives | None, value the optimizer file gives | None] for 1..last, through both load
    functions (epoch positional / keyword).  mk: factory of the (model, optimizer) pair to load into (default _mk);
    lrs: dict that receives, per epoch, the learning rates of the loaded optimizer's groups"""
    mk = mk or _mk
    loads = []
    for e in range(1, last + 1):
        vm = vo = None
        both = False
        if e in c.cache_hist:
            m, o = mk(-7)
            try:
                c.load_model_for_epoch(m, e)
                vm = int(_mval(m))
            except Exception:
                vm = None
            m2, o2 = mk(-7)
            try:
                if e % 2:
                    c.load_model_and_optimizer_for_epoch(m2, o2, e)
                else:
                    c.load_model_and_optimizer_for_epoch(m2, o2, epoch=e)
                both = True
                vo = int(o2.param_groups[0].get("vtag"))
                if lrs is not None:
                    lrs[e] = [float(g["lr"]) for g in o2.param_groups]
                if int(_mval(m2)) != vm:
                    notes.append("load_model_for_epoch and load_model_and_optimizer_for_epoch disagree at epoch %d" % e)
            except Exception:
                # which of the two files is the unusable one?
                try:
                    sdict = torch.load(c.get_optimizer_path_with_info(c.get_info(e)), map_location="cpu")
                    vo = int(sdict["param_groups"][0].get("vtag"))
                    if lrs is not None:
                        lrs[e] = [float(g["lr"]) for g in sdict["param_groups"]]
                except Exception:
                    vo = None
            if both != (vm is not None and vo is not None):
                notes.append("combined load success %r inconsistent with separate loads at epoch %d" % (both, e))
        loads.append([e, vm, vo])
    return loads


def _observe(case, params, names, csvp, sd, outcome, log, notes, c=None, entry=True):
    """what a controller started now on the files sees (c given: a controller that was created earlier, kept alive
    while other controllers wrote, and refreshed with update_cache(); entry False: one that never called add_entry)"""
    if c is None:
        c = _controller(params, csvp, sd, entry)
    else:
        c.update_cache()
    rows = []
    real = case.get("real")
    mk = (lambda tag: _mk_real(case, tag)) if real else _mk
    lr_of_tag, csvx, lrs = {}, [], ({} if real else None)
    if os.path.exists(csvp):
        with open(csvp) as f:
            rd = list(__import__("csv").DictReader(f))
        for r in rd:
            rows.append([int(r["epoch"]), float(r["train_met"]) * SCALE, float(r["val_met"]) * SCALE, int(r["tag"])])
            if real:    # the learning rate the call with this number recorded; the row without the call number
                lr_of_tag[int(r["tag"])] = float(r["lr"])
                csvx.append([r[k] for k in r if k != "tag"])
    for r in rows:
        if r[1] != int(r[1]) or r[2] != int(r[2]):
            notes.append("metric off the grid in the CSV: %r" % (r,))
        r[1], r[2] = int(r[1]), int(r[2])
    last, best = int(c.get_last_epoch()), int(c.get_best_epoch(bool(case["bt"])))
    # the cache of the fresh controller is the CSV
    cached = sorted(e for e in c.cache_hist if e)
    if cached != sorted(set(r[0] for r in rows)):
        notes.append("cache epochs %r differ from CSV epochs" % (cached,))
    tag_of = {r[0]: r[3] for r in rows}
    if entry:   # add_entry after epochs exist: the user entry of every recorded epoch is read back
        for e in cached:
            if c.get_info(e).get("tag") != tag_of.get(e):
                notes.append("get_info(%d)['tag'] = %r, the CSV row says %r" % (e, c.get_info(e).get("tag"), tag_of.get(e)))
    loads = _load_all(c, last, notes, mk, lrs)
    # default arguments: last epoch / best epoch (validation metric)
    if last and loads[last - 1][1] is not None and loads[last - 1][2] is not None:
        m, o = mk(-7)
        c.load_model_and_optimizer_for_epoch(m, o)
        if [int(_mval(m)), int(o.param_groups[0].get("vtag"))] != loads[last - 1][1:]:
            notes.append("load_model_and_optimizer_for_epoch() without epoch did not give the last epoch")
    bestv = best if not case["bt"] else int(c.get_best_epoch())
    if bestv and loads[bestv - 1][1] is not None:
        m, o = mk(-7)
        c.load_model_for_epoch(m)
        if int(_mval(m)) != loads[bestv - 1][1]:
            notes.append("load_model_for_epoch() without epoch did not give the best epoch (validation metric)")
    if last and sd is not None:
        # epoch 0 given explicitly is "the beginning of the experiment", not "unset": no checkpoint is loaded
        vals = set(v for l in loads for v in l[1:] if v is not None)
        m, o = mk(-7)
        c.load_model_for_epoch(m, 0)
        m2, o2 = mk(-7)
        c.load_model_and_optimizer_for_epoch(m2, o2, 0)
        if _mval(m) in vals or _mval(m2) in vals or int(o2.param_groups[0].get("vtag")) != -7:
            notes.append("loading epoch 0 explicitly loaded a checkpoint")
    ck, nt = names.listing(sd)
    res = {"outcome": outcome, "hist": rows, "last": last, "best": best, "loads": loads,
           "ckpts": ck, "ntmp": nt, "log": log}
    if real:
        # "the parameters that were saved" include what the controller itself wrote into the optimizer during the
        # update (class documentation: "stored values represent the state *after* updates due to epoch results, such as
        # the learning rate"): an optimizer file written by the call that recorded a row must carry that row's learning
        # rate in every group.  If it does not, the file does not hold the parameters of that call: its value is
        # replaced by -(1000 + call number), which neither PV.C16.Model.run nor PV.C16.Spec.loads_ok accept.
        for l in loads:
            e, vo = l[0], l[2]
            if vo is not None and vo in lr_of_tag and e in lrs and any(x != lr_of_tag[vo] for x in lrs[e]):
                if e in (last, best):
                    notes.append("the optimizer checkpoint of the %s recorded epoch %d was written by update call %d, whose history row "
                                 "records the learning rate %r, but the checkpoint holds %r: a restart does not get the state the "
                                 "update left behind" % ("last" if e == last else "best", e, vo, lr_of_tag[vo], lrs[e]))
                l[2] = -(1000 + vo)
        res["csvx"] = csvx
    return res


def _met(case, e, j):
    """metric handed to update_for_epoch: the grid value, optionally moved by a few 1e-8 (case["jit"]) - a raw value
    that prints, under the history file's '{:.4e}', as the grid value itself.  The live process then holds a raw
    metric that differs from what a restarted process reads back, while both must rank the epochs alike."""
    base = case["mets"][e - 1][j] / SCALE
    jit = case.get("jit")
    if not jit:
        return base
    x = base + jit[e - 1][j] * 1e-8
    assert float("{:.4e}".format(x)) == base, (x, base)
    return x


def _watch(case, w, e, tag, notes):
    """a second controller on the same files, alive since the process started: after a completed update (keep last and
    best) it refreshes its cache and must load the last epoch (default arguments) and the best one"""
    w.update_cache()
    if int(w.get_last_epoch()) != e:
        notes.append("a controller kept alive sees last epoch %r after update_cache(), epoch %d was just recorded" % (w.get_last_epoch(), e))
        return
    try:
        m, o = _mk(-7)
        w.load_model_and_optimizer_for_epoch(m, o)
        got = [int(m.weight.item()), int(o.param_groups[0].get("vtag"))]
        if got != [tag, tag]:
            notes.append("after the completed update of epoch %d a second controller loads %r for the last epoch, saved was %d" % (e, got, tag))
        b = int(w.get_best_epoch(bool(case["bt"])))
        m, o = _mk(-7)
        w.load_model_and_optimizer_for_epoch(m, o, b)
        got, want = [int(m.weight.item()), int(o.param_groups[0].get("vtag"))], w.get_info(b)["tag"]
        if got != [want, want]:
            notes.append("after the completed update of epoch %d a second controller loads %r for the best epoch %d, saved was %d" % (e, got, b, want))
    except Exception as ex:
        notes.append("after the completed update of epoch %d a second controller cannot load last/best: %s" % (e, exc_kind(ex)))


def _process(case, params, names, csvp, sd, ctr, crash_at, calls, notes, fault_rems=(), live=None, rinfo=None):
    """one process: new controller, continue after the last recorded epoch.  case["drv"] varies HOW the process drives
    the controller (all variants are the same logical run): "ep" = epoch passed explicitly (kw / pos / mix), "refresh" =
    update_cache() ("uc") or add_entry again ("ae") before every update, "two" = two controllers take turns,
    "watch" = a further controller stays alive and loads after every completed update.
    case["real"]: the process is a real training script (class docstring of the controller): ONE model and ONE real
    optimizer for its whole life, load_model_and_optimizer_for_epoch(model, optimizer) at start-up (initialise / resume
    from the last recorded epoch), then per epoch: train (_train: the metrics depend on the state carried), update.
    rinfo receives the state resumed with, the state carried on with after every completed update, the metrics."""
    mets = case["mets"]
    real = case.get("real")
    drv = case.get("drv") or {}
    bt = bool(case["bt"])
    log = []
    inj = Injector(names, csvp, crash_at, fault_rems, soft=bool(case.get("soft")))
    outcome = "Done"
    ctls = [_controller(params, csvp, sd)]
    if drv.get("two"):
        ctls.append(_controller(params, csvp, sd))
    watcher = _controller(params, csvp, sd) if drv.get("watch") and case["klb"] else None
    if live is not None:
        live.append(ctls[0])
    n = 0
    if real:
        m, o = _mk_real(case, 0)
        ctls[0].load_model_and_optimizer_for_epoch(m, o)
        if rinfo is not None:
            rinfo.update(resume=[int(ctls[0].get_last_epoch()), _canon(m, o)], carried=[], mets=[])
    try:
        with inj:
            while True:
                c = ctls[n % len(ctls)]
                if len(ctls) > 1 and n:
                    c.update_cache()
                if drv.get("refresh") == "uc":
                    c.update_cache()
                elif drv.get("refresh") == "ae":
                    c.add_entry("tag", int)
                if not c.continue_training():
                    break
                e = c.get_last_epoch() + 1
                if e > len(mets):
                    break
                if n > len(mets):
                    raise RuntimeError("the training loop makes no progress: epoch %d again after %d updates" % (e, n))
                n += 1
                ctr[0] += 1
                if real:
                    tr, va = _train(case, m, o, e)
                    with torch.no_grad():
                        m.bias.fill_(float(ctr[0]))
                    o.param_groups[0]["vtag"] = ctr[0]
                    if rinfo is not None:
                        rinfo["mets"].append([e, tr * SCALE, va * SCALE])
                else:
                    m, o = _mk(ctr[0])
                    tr, va = _met(case, e, 0), _met(case, e, 1)
                inj.cur = []
                calls.append(inj.cur)
                entry = [inj.cur, None]
                log.append(entry)
                how = drv.get("ep")
                if how == "mix":
                    how = "kw" if n % 2 else None
                if how == "kw":
                    cont = c.update_for_epoch(m, o, tr, va, epoch=e, best_is_train=bt, tag=ctr[0])
                elif how == "pos":
                    cont = c.update_for_epoch(m, o, tr, va, e, bt, tag=ctr[0])
                else:
                    cont = c.update_for_epoch(m, o, tr, va, best_is_train=bt, tag=ctr[0])
                entry[1] = list(names.listing(sd))
                inj.cur = None
                if real and rinfo is not None:
                    rinfo["carried"].append([e, _canon(m, o)])
                if watcher is not None:
                    _watch(case, watcher, e, ctr[0], notes)
                if not cont:
                    break
    except Crash:
        outcome = "Crashed"
    except ValueError:
        outcome = "Raised"
        log.pop()  # the raising call made no file-system call (checked below)
        if calls and calls[-1]:
            log.append([calls[-1], None])
            outcome = "Raised-after-calls"
    return outcome, log, inj


def _janitor(case, params, names, csvp, sd, jcrash, notes):
    """at a (re)start: a fresh controller calls delete_model_and_optimizer_for_epoch for every recorded epoch that is
    neither the last nor the best one, and for epochs that were never recorded (must do nothing); with jcrash = k it
    dies instead of its (k+1)-th os.remove and another fresh controller does the same again.  Returns the epochs."""
    before, nt0 = names.listing(sd)
    vs = []
    for budget in ([jcrash, None] if jcrash is not None else [None]):
        c = _controller(params, csvp, sd, entry=budget is None)
        last, best = int(c.get_last_epoch()), int(c.get_best_epoch(bool(case["bt"])))
        vs = [e for e in sorted(c.cache_hist) if e and e not in (last, best)]
        todo = [last + 1] + vs + [0, last + 7]
        if case["jan"].get("rev"):
            todo.reverse()
        inj = Injector(names, csvp, budget)
        inj.cur = []
        try:
            with inj:
                for e in todo:
                    if c.delete_model_and_optimizer_for_epoch(e) is not None:
                        notes.append("delete_model_and_optimizer_for_epoch returned a value")
            break
        except Crash:
            continue
    after, nt1 = names.listing(sd)
    want = [p for p in before if p[1] not in vs]
    if sorted(map(tuple, after)) != sorted(map(tuple, want)) or nt0 != nt1:
        notes.append("delete_model_and_optimizer_for_epoch for the epochs %r (+ never recorded %r) turned the directory %r into %r, "
                     "expected %r; other files %d -> %d" % (vs, [last + 1, 0, last + 7], before, after, want, nt0, nt1))
    return vs


def run_schedule_impl(case, workdir, crashes):
    """-> (list of observations, removal orders per update call, notes)"""
    d = tempfile.mkdtemp(dir=str(workdir), prefix="run")
    try:
        csvp, sd = os.path.join(d, "hist.csv"), os.path.join(d, "states")
        params, names = _params(case), Names(case["fmt"], sd)
        drv, jan = case.get("drv") or {}, case.get("jan")
        keeper = _controller(params, csvp, sd) if drv.get("obs") == "kept" else None
        ctr, calls, notes, obs = [0], [], [], []
        deleted = set()
        for pi, k in enumerate(list(crashes) + [None]):
            rinfo = {} if case.get("real") else None
            outcome, log, _ = _process(case, params, names, csvp, sd, ctr, k, calls, notes, rinfo=rinfo)
            if jan is not None:
                jc = jan.get("crash", [])
                deleted |= set(_janitor(case, params, names, csvp, sd, jc[pi] if pi < len(jc) else None, notes))
            obs.append(_observe(case, params, names, csvp, sd, outcome, log, notes, c=keeper, entry=drv.get("obs") != "noentry"))
            if rinfo is not None:
                obs[-1]["real"] = rinfo
            if jan is not None:
                obs[-1]["deleted"] = sorted(deleted)
            if outcome != "Crashed":
                break
        ros = [[op[1] for op in call if op[0] == "rem"] for call in calls]
        return obs, ros, notes, ctr[0]
    finally:
        shutil.rmtree(d, ignore_errors=True)


_UNINT = {}
BASE_KEYS = ("klb", "fmt", "bt", "ctl", "mets", "jit", "real")


def _base(case, **kw):
    """the plain logical run of a case: parameters and metric history only"""
    b = {k: case[k] for k in BASE_KEYS if k in case}
    b.setdefault("ctl", {})
    b.update(kw)
    b["crashes"] = []
    return b


def _base_key(case):
    return json.dumps([case["klb"], case["fmt"], case["bt"], case.get("ctl", {}), case["mets"], case.get("jit"),
                       case.get("real")], sort_keys=True)


def _unint(case, workdir):
    k = _base_key(case)
    if k not in _UNINT:
        if len(_UNINT) > 2000:
            _UNINT.clear()
        _UNINT[k] = run_schedule_impl(_base(case), workdir, [])
    return _UNINT[k]


def _split_trace(ops):
    """calls of one update: everything but the removals in order, the removed paths as a sorted list (set iteration
    order differs between two runs in different directories)"""
    return [op for op in ops if op[0] != "rem"], sorted(json.dumps(op[1]) for op in ops if op[0] == "rem")


def _hrows(rows):
    return [r[:3] for r in rows]


def _py_best(rows, bt):
    col = 1 if bt else 2
    return min(rows, key=lambda r: (r[col], r[0]))[0] if rows else 0


def run_nofiles(case, workdir):
    """controller without a state directory (nf = "sd"), without a history file ("csv") or without both ("both"):
    judged against the plain run of the same parameters and metrics.  "sd": the history after every death is a prefix
    of, and at the end equal to, the plain history; the only file-system call of an update is the append; loading and
    deleting do nothing.  "csv": same calls as the plain run minus the append, same directory after every update, the
    live controller loads what the plain run's files hold.  "both": no file-system call at all."""
    nf = case["nf"]
    notes = []
    ref = _unint(_base(case, fmt="ep", klb=False), workdir)     # the history these metrics and C15 settings give
    H = ref[0][0]["hist"]
    d = tempfile.mkdtemp(dir=str(workdir), prefix="run")
    try:
        csvp = None if nf in ("csv", "both") else os.path.join(d, "hist.csv")
        sd = None if nf in ("sd", "both") else os.path.join(d, "states")
        params, names = _params(case), Names(case["fmt"], sd)
        ctr, calls, obs = [0], [], []
        crashes = list(case["crashes"]) if nf == "sd" else []
        for k in crashes + [None]:
            live = []
            outcome, log, _ = _process(case, params, names, csvp, sd, ctr, k, calls, notes, live=live)
            if nf == "sd":
                o = _observe(case, params, names, csvp, None, outcome, log, notes)
                # _observe's loads went through both load functions: without a state directory they leave the model alone
                if any(l[1] != -7 or l[2] != -7 for l in o["loads"]):
                    notes.append("loading without a state directory changed the model / optimizer: %r" % (o["loads"],))
                c = _controller(params, csvp, None)
                for e in range(0, o["last"] + 2):
                    if c.delete_model_and_optimizer_for_epoch(e) is not None:
                        notes.append("delete_model_and_optimizer_for_epoch returned a value")
                if _hrows(o["hist"]) != _hrows(H)[:len(o["hist"])]:
                    notes.append("history %r without a state directory is not a prefix of %r" % (o["hist"], H))
                if o["last"] != max([r[0] for r in o["hist"]] + [0]) or o["best"] != _py_best(o["hist"], case["bt"]):
                    notes.append("last/best %r/%r do not fit the history %r" % (o["last"], o["best"], o["hist"]))
                if any(ops != [["app"]] for ops, lst in log if lst is not None) or outcome not in ("Done", "Crashed"):
                    notes.append("update without a state directory: outcome %s, calls %r" % (outcome, [ops for ops, _ in log]))
                o["loads"] = [[l[0], None, None] for l in o["loads"]]
            else:
                c = live[0]
                last, best = int(c.get_last_epoch()), int(c.get_best_epoch(bool(case["bt"])))
                loads = _load_all(c, last, notes)
                ck, nt = names.listing(sd)
                o = {"outcome": outcome, "hist": [], "last": last, "best": best, "loads": loads, "ckpts": ck, "ntmp": nt, "log": log}
            obs.append(o)
            if outcome != "Crashed":
                break
        fin = obs[-1]
        left = sorted(os.listdir(d))
        if nf == "sd":
            if fin["outcome"] != "Done" or _hrows(fin["hist"]) != _hrows(H):
                notes.append("final history %r (%s) without a state directory differs from %r" % (fin["hist"], fin["outcome"], H))
            if [x for x in left if x != "hist.csv"]:
                notes.append("files appeared although state_dir is None: %r" % (left,))
        else:
            plain = _unint(_base(case), workdir) if nf == "csv" else ref
            p = plain[0][0]
            if nf == "both":
                if left or any(ops for ops, _ in fin["log"]):
                    notes.append("file-system calls / files without state_dir and state_csv_path: %r %r" % (fin["log"], left))
                if fin["outcome"] != "Done" or [fin["last"], fin["best"]] != [p["last"], p["best"]]:
                    notes.append("controller without files: %s, last/best %r, the plain run has %r" % (fin["outcome"], [fin["last"], fin["best"]], [p["last"], p["best"]]))
                if any(l[1] != -7 or l[2] != -7 for l in fin["loads"]):
                    notes.append("loading without a state directory changed the model / optimizer: %r" % (fin["loads"],))
            else:
                if [x for x in left if x != "states"]:
                    notes.append("files appeared although state_csv_path is None: %r" % (left,))
                if fin["outcome"] != p["outcome"]:
                    notes.append("outcome %s without a history file, %s with one" % (fin["outcome"], p["outcome"]))
                mine = [(_split_trace(ops), None if lst is None else [sorted(map(tuple, lst[0])), lst[1]]) for ops, lst in fin["log"]]
                theirs = [(_split_trace([op for op in ops if op[0] != "app"]), None if lst is None else [sorted(map(tuple, lst[0])), lst[1]])
                          for ops, lst in p["log"]]
                if mine != theirs:
                    notes.append("calls / directory per update without a history file %r differ from the plain run's (append removed) %r" % (mine, theirs))
                if fin["outcome"] == "Done" and ([fin["last"], fin["best"]] != [p["last"], p["best"]] or fin["loads"] != p["loads"]):
                    notes.append("live controller without a history file: last/best/loads %r, the plain run has %r" %
                                 ([fin["last"], fin["best"], fin["loads"]], [p["last"], p["best"], p["loads"]]))
        return {"unint": ref[0][0], "n_calls": ctr[0], "obs": obs, "ros": [], "notes": sorted(set(notes))}
    finally:
        shutil.rmtree(d, ignore_errors=True)


def run_remfault(case, workdir):
    """keep last and best, no crash, but the os.remove calls number case["fault"] fail with PermissionError (a file the
    process may not delete): _clean_up_files warns and goes on.  Judged against the plain run: same history, same calls,
    same loads, and the directory after every update = the plain run's + exactly the files that could not be deleted."""
    notes = []
    plain = _unint(_base(case), workdir)
    p = plain[0][0]
    d = tempfile.mkdtemp(dir=str(workdir), prefix="run")
    try:
        csvp, sd = os.path.join(d, "hist.csv"), os.path.join(d, "states")
        params, names = _params(case), Names(case["fmt"], sd)
        ctr, calls = [0], []
        outcome, log, inj = _process(case, params, names, csvp, sd, ctr, None, calls, notes, fault_rems=case["fault"])
        o = _observe(case, params, names, csvp, sd, outcome, log, notes)
        stuck_all = [tuple(x) for x in inj.stuck if x is not None]
        if len(stuck_all) != len(inj.stuck):
            notes.append("os.remove of a file that is no checkpoint: %r" % (inj.stuck,))
        if [o["outcome"], o["hist"], o["last"], o["best"]] != [p["outcome"], p["hist"], p["last"], p["best"]]:
            notes.append("a failing os.remove changed outcome/history/last/best: %r, plain run %r" %
                         ([o["outcome"], o["hist"], o["last"], o["best"]], [p["outcome"], p["hist"], p["last"], p["best"]]))
        if len(log) != len(p["log"]):
            notes.append("a failing os.remove changed the number of update calls")
        nrem, stuck = 0, set()
        for (ops, lst), (pops, plst) in zip(log, p["log"]):
            if _split_trace(ops) != _split_trace(pops):
                notes.append("a failing os.remove changed the calls of an update: %r, plain run %r" % (ops, pops))
            for op in ops:
                if op[0] == "rem":
                    if nrem in case["fault"] and op[1] is not None:
                        stuck.add(tuple(op[1]))
                    nrem += 1
            if lst is not None and plst is not None:
                want = sorted(set(map(tuple, plst[0])) | stuck)
                if sorted(map(tuple, lst[0])) != want or lst[1] != plst[1]:
                    notes.append("directory after an update %r (+%d other files), expected the plain run's plus the undeletable files: %r (+%d)" %
                                 (lst[0], lst[1], want, plst[1]))
        if sorted(stuck) != sorted(set(stuck_all)):
            notes.append("undeletable files %r, removals that failed %r" % (sorted(stuck), stuck_all))
        for l, pl in zip(o["loads"], p["loads"]):
            for j, kind in ((1, "M"), (2, "O")):
                if pl[j] is not None and l[j] != pl[j]:
                    notes.append("a failing os.remove changed what epoch %d loads: %r, plain run %r" % (l[0], l, pl))
        return {"unint": p, "n_calls": ctr[0], "obs": [o], "ros": [], "notes": sorted(set(notes + plain[2])),
                "stuck": sorted(stuck)}
    finally:
        shutil.rmtree(d, ignore_errors=True)


def _jan_notes(case, out):
    """janitor runs: python-side relations (the rest is judged by PV.C16.Spec)"""
    notes = []
    nt = 0
    for o in out["obs"]:
        for ops, lst in o["log"]:
            if lst is not None and lst[1] != nt:
                notes.append("a completed update changed the number of non-checkpoint files: %d -> %d" % (nt, lst[1]))
        nt = o["ntmp"]
        if not case["klb"]:
            rec = set(r[0] for r in o["hist"])
            for e, vm, vo in o["loads"]:
                if e in rec and e not in o["deleted"] and (vm is None or vo is None):
                    notes.append("keep-all: epoch %d is recorded, was never deleted, and does not load (%r, %r)" % (e, vm, vo))
                if e in o["deleted"] and (vm is not None or vo is not None):
                    notes.append("epoch %d still loads (%r, %r) after delete_model_and_optimizer_for_epoch" % (e, vm, vo))
    return notes


def _real_notes(u, obs):
    """'resume' stream, judged by the UNINTERRUPTED run of the same script (u = its only observation): a process
    started on the files must resume with exactly the model / optimizer state the uninterrupted process carried on
    with after that epoch's update (that is what "gets exactly the parameters that were saved" means once the
    controller itself writes into the optimizer during the update), every later update must leave the state the
    uninterrupted run had, and the history - every column but the number of the call - must be a prefix of, and at
    the end equal to, the uninterrupted one."""
    notes = []
    ref = {0: u["real"]["resume"][1]}
    ref.update({e: s for e, s in u["real"]["carried"]})
    said = set()
    for j, o in enumerate(obs):
        r = o.get("real")
        if not r or "resume" not in r:
            continue
        e0, st = r["resume"]
        if e0 not in ref:
            notes.append("process %d resumes from epoch %d, which the uninterrupted run never recorded" % (j + 1, e0))
        elif st != ref[e0] and "resume" not in said:
            said.add("resume")
            notes.append("process %d, started on the files left behind, resumed from epoch %d with a model/optimizer state that is not the "
                         "one the uninterrupted process carried on with after that epoch's update (%s)" % (j + 1, e0, _sdiff(st, ref[e0])))
        for e, s in r["carried"]:
            if e in ref and s != ref[e] and "carried" not in said:
                said.add("carried")
                notes.append("after the update of epoch %d, process %d carries on with a model/optimizer state that differs from the "
                             "uninterrupted run's (%s)" % (e, j + 1, _sdiff(s, ref[e])))
        if o["csvx"] != u["csvx"][:len(o["csvx"])] and "prefix" not in said:
            said.add("prefix")
            i = min(i for i, x in enumerate(o["csvx"]) if i >= len(u["csvx"]) or x != u["csvx"][i])
            notes.append("the history (every column but the call number) after process %d is not a prefix of the uninterrupted one: row %d is "
                         "%r, uninterrupted %r" % (j + 1, i + 1, o["csvx"][i], u["csvx"][i] if i < len(u["csvx"]) else None))
    if obs and obs[-1]["outcome"] != "Crashed" and obs[-1].get("csvx") != u["csvx"]:
        notes.append("after continuing to the end the history (every column but the call number) has %d rows and differs from the "
                     "uninterrupted one (%d rows): %r" % (len(obs[-1].get("csvx") or []), len(u["csvx"]),
                                                         [x for x in (obs[-1].get("csvx") or []) if x not in u["csvx"]][:2]))
    return notes


def run_impl(case, workdir):
    _warm_up(workdir)
    with warnings.catch_warnings():
        warnings.simplefilter("ignore")
        try:
            if case.get("kind") == "nofiles":
                return run_nofiles(case, workdir)
            if case.get("kind") == "remfault":
                return run_remfault(case, workdir)
            u_obs, u_ros, u_notes, u_calls = _unint(case, workdir)
            if case["crashes"] or case.get("drv") or case.get("jan"):
                obs, ros, notes, _ = run_schedule_impl(case, workdir, case["crashes"])
            else:
                obs, ros, notes = u_obs, u_ros, list(u_notes)
            out = {"unint": u_obs[0], "n_calls": u_calls, "obs": obs, "ros": ros, "notes": sorted(set(notes + u_notes))}
            if case.get("jan"):
                out["notes"] = sorted(set(out["notes"] + _jan_notes(case, out)))
            if case.get("real"):
                # the metrics PV.C16.Model.run is given: those the uninterrupted run realised, epoch by epoch
                out["mets"] = [[int(a), int(b)] for _, a, b in u_obs[0]["real"]["mets"]]
                if any([a, b] != [x, y] for (_, x, y), (a, b) in zip(u_obs[0]["real"]["mets"], out["mets"])):
                    out["notes"].append("metric off the grid handed to the controller")
                out["notes"] = sorted(set(out["notes"] + _real_notes(u_obs[0], obs)))
            return out
        except Exception as e:  # not a legal outcome of any run
            return {"error": exc_kind(e) + ": " + str(e)[:200]}


# ----------------------------------------------------------------------------------------
# Coq terms
# ----------------------------------------------------------------------------------------


def t_path(p):
    if p is None:
        return "(Tmp 0 KM)"
    k, e = p
    return "(Ckpt %s %s)" % ("KM" if k == "M" else "KO", co(cn(e)) if e is not None else "None")


def t_params(case):
    _, _, em, eo = FMTS[case["fmt"]]
    return "(mkParams %s %s %s %s)" % (cb(case["klb"]), cb(em), cb(eo), cb(case["bt"]))


def t_row(r):
    return "(mkRow %s %s %s %s)" % (cn(r[0]), cz(r[1]), cz(r[2]), cz(r[3]))


def t_code(op):
    if op[0] == "mk":
        return "TMk"
    if op[0] == "fill":
        return "TFill"
    if op[0] == "app":
        return "TApp"
    if op[0] == "rep":
        return "(TRep %s)" % t_path(op[1])
    if op[0] == "rem":
        return "(TRem %s)" % t_path(op[1])
    return "(TRem (Tmp 1 KM))"  # a call the model never makes


def t_obs(o):
    oc = o["outcome"] if o["outcome"] in ("Done", "Crashed", "Raised") else "Crashed"
    loads = cl([cp(cn(e), cp(co(cz(vm)) if vm is not None else "None", co(cz(vo)) if vo is not None else "None"))
                for e, vm, vo in o["loads"]])
    log = cl([cp(cl([t_code(op) for op in ops]),
                 "None" if lst is None else co(cp(cl([t_path(p) for p in lst[0]]), cn(lst[1]))))
              for ops, lst in o["log"]])
    return "(mkObs %s %s %s %s %s %s %s %s)" % (oc, cl([t_row(r) for r in o["hist"]]), cn(o["last"]), cn(o["best"]),
                                                 loads, cl([t_path(p) for p in o["ckpts"]]), cn(o["ntmp"]), log)


def t_mets(case, out):
    ms = out["mets"] if out.get("mets") is not None else case["mets"]      # 'resume' stream: the metrics the training produced
    return cl([cp(cz(a), cz(b)) for a, b in ms[:out["n_calls"]]])


def model_args(case, out):
    return "%s %s %s %s" % (t_params(case), t_mets(case, out),
                            cl([cl([t_path(p) for p in r]) for r in out["ros"]]),
                            cl([cn(k) for k in case["crashes"]]))


def relation_only(case):
    """cases judged by relations / by the Spec alone: PV.C16.Model.run does not describe them (no state directory or
    history file, an os.remove that fails, files deleted between the processes)"""
    return bool(case.get("kind") or case.get("jan"))


def model_term(case, out):
    if "error" in out or any(o["outcome"] == "Raised-after-calls" for o in out["obs"]):
        return "false"
    if relation_only(case):
        return "true"
    return "check %s %s" % (model_args(case, out), cl([t_obs(o) for o in out["obs"]]))


IMPORTS_SRC = "From PV Require Import C16.Model C16.SrcRun.\n"

# Model.check without the per-call traces: the observable state (outcome, history, last/best, what every epoch loads,
# directory now and after each completed update) of the implementation is the one PV.C16.Model.run predicts
IMPORTS_STATE = IMPORTS + """
Definition vstate_log_eqb (a b : logent) : bool :=
  match snd a, snd b with
  | None, None => true
  | Some (l1, n1), Some (l2, n2) => andb (set_eqb l1 l2) (Nat.eqb n1 n2)
  | _, _ => false
  end.
Definition vstate_eqb (a b : obs) : bool :=
  andb (outcome_eqb (o_outcome a) (o_outcome b)) (andb (list_eqb row_eqb (o_hist a) (o_hist b))
  (andb (Nat.eqb (o_last a) (o_last b)) (andb (Nat.eqb (o_best a) (o_best b)) (andb (list_eqb load_eqb (o_loads a) (o_loads b))
  (andb (set_eqb (o_ckpts a) (o_ckpts b)) (andb (Nat.eqb (o_ntmp a) (o_ntmp b)) (list_eqb vstate_log_eqb (o_log a) (o_log b)))))))).
Definition vstate_check (P : params) (metrics : list (Z * Z)) (ros : list (list path)) (crashes : list nat) (impl : list obs) : bool :=
  list_eqb vstate_eqb (run P metrics ros crashes) impl.
"""


def state_term(case, out):
    if "error" in out or relation_only(case) or any(o["outcome"] == "Raised-after-calls" for o in out["obs"]):
        return "false"
    return "vstate_check %s %s" % (model_args(case, out), cl([t_obs(o) for o in out["obs"]]))


def src_term(case, out):
    """bool: the regenerated source terms (PV.Gen.C16Src: get_last_epoch, get_best_epoch and the two file-logic blocks of
    update_for_epoch), run by PV.MiniPy.Interp under ext16 inside Coq in place of Model.update_ops, give the
    observations the implementation gave (same traces of file-system calls per update, same ValueError, same files)."""
    if "error" in out or any(o["outcome"] == "Raised-after-calls" for o in out["obs"]):
        return "false"
    return "src_check %s %s" % (model_args(case, out), cl([t_obs(o) for o in out["obs"]]))


def source_tie(chk, cases, outs, model_ok):
    """run the translated source inside Coq on (a sample of) the runs of this check: validates translator + MiniPy
    semantics + ext16 against CPython's recorded traces; independent of whether the tie lemmas still compile.
    Only runs the model reproduces are used (a run the model misses is reported by the correspondence itself)."""
    idx = [i for i, ok in enumerate(model_ok) if ok and "error" not in outs[i] and not relation_only(cases[i])]
    cap = 4000 if chk.tier == "thorough" else 1500
    if len(idx) > cap:       # deterministic slice: every k-th run, all streams and both modes stay represented
        step = len(idx) / float(cap)
        idx = sorted(set(idx[int(j * step)] for j in range(cap)))
    try:
        res = coq_eval_bools(chk.workdir, IMPORTS_SRC, [src_term(cases[i], outs[i]) for i in idx], shard=100, tag="src")
    except CoqError as e:
        chk.extra["source_tie_run"] = "not evaluated: " + str(e)[-400:]
        return
    bad = [idx[j] for j, ok in enumerate(res) if not ok]
    calls = sum(sum(len(o["log"]) for o in outs[i]["obs"]) for i in idx)
    chk.extra["source_tie_run"] = {"runs": len(idx), "update_calls": calls, "disagreements": len(bad)}
    # diagnosis only: runs the model misses - does the interpreted source reproduce them?  (yes = the source text itself
    # changed behaviour and the translation tracks it; the correspondence reports those runs)
    miss = [i for i, ok in enumerate(model_ok) if not ok and "error" not in outs[i] and not relation_only(cases[i])][:200]
    if miss:
        try:
            mres = coq_eval_bools(chk.workdir, IMPORTS_SRC, [src_term(cases[i], outs[i]) for i in miss], shard=100, tag="srcm")
            chk.extra["source_tie_run"]["model_misses"] = len(miss)
            chk.extra["source_tie_run"]["model_misses_reproduced_by_source"] = sum(1 for ok in mres if ok)
        except CoqError:
            pass
    chk.count("source_tie_runs", len(idx))
    if bad:
        i = bad[0]
        chk.report({"case": cases[i], "impl": outs[i],
                    "what": "the Python source as translated to MiniPy and interpreted in Coq (PV.C16.SrcRun.src_run: get_last_epoch, "
                            "get_best_epoch and the file-operation blocks of update_for_epoch under ext16) does not reproduce the "
                            "implementation's traces of file-system calls, although PV.C16.Model.run does: translator / interpreter / "
                            "ext16 no longer describe the code",
                    "correspondence": "tie:C16:py2coq+MiniPy.Interp:TrainingStateController.{update_for_epoch,get_best_epoch,get_last_epoch}",
                    "theorems_at_stake": ["c16_source_update_is_model", "c16_source_best_epoch_is_model",
                                          "c16_source_last_epoch_is_model"]}, no_failing_input=True)


def spec_term(case, out, part=None):
    if "error" in out:
        return "false"
    if case.get("kind"):        # judged in python against the plain run (notes)
        return "true"
    H = cl([t_row(r) for r in out["unint"]["hist"]])
    os_ = cl([t_obs(o) for o in out["obs"]])
    if case.get("jan"):
        # files of recorded epochs other than last and best are deleted at every (re)start: every clause must hold,
        # "nothing else" with the temporary files of interrupted saves (K6, which nothing collects) left out of the
        # count - they are pinned by _jan_notes; keep-all: "every recorded epoch loads" is judged there as well
        os0 = cl([t_obs(dict(o, log=[[ops, None if lst is None else [lst[0], 0]] for ops, lst in o["log"]])) for o in out["obs"]])
        js = [j for j in range(len(PARTS)) if not (j == 6 and not case["klb"])]
        if part is not None:
            return "spec_part %s %s %s %s" % (cn(part), t_params(case), H, os0 if part == 5 else os_) if part in js else "true"
        return ("(let P := %s in let H := %s in let os := %s in let os0 := %s in forallb (fun j => spec_part j P H (if Nat.eqb j 5 then os0 else os)) %s)"
                % (t_params(case), H, os_, os0, cl([cn(j) for j in js])))
    if part is None:
        return "spec_okb %s %s %s" % (t_params(case), H, os_)
    return "spec_part %s %s %s %s" % (cn(part), t_params(case), H, os_)


# ----------------------------------------------------------------------------------------
# known findings
# ----------------------------------------------------------------------------------------


def crash_windows(out):
    """for each crashed update call: did the process die after the history append and before
    the last os.replace of that call (the row is recorded, the checkpoint is not in place)?"""
    res = []
    for o in out.get("obs", []):
        for ops, lst in o["log"]:
            if lst is None and o["outcome"] == "Crashed":
                kinds = [op[0] for op in ops]
                res.append("app" in kinds and kinds[kinds.index("app"):].count("rep") < 2)
    return res


def needed_files(case, hist, e):
    """the files of the last (e) and the best epoch among the first e rows of the history"""
    col = 1 if case["bt"] else 2
    rows = [r for r in hist if r[0] <= e]
    best = min(rows, key=lambda r: (r[col], r[0]))[0] if rows else 0
    _, _, em, eo = FMTS[case["fmt"]]
    need = set()
    for x in (e, best):
        if x:
            need.add(("M", x if em else None))
            need.add(("O", x if eo else None))
    return need


def extras_are_crash_leftovers(case, out):
    """every file found after a completed update that is not one of the two epochs' files was
    already there when an earlier process died, and no completed update adds a temporary file"""
    H = out["unint"]["hist"]
    seen, tmp_at_crash, e = set(), 0, 0
    some_extra = False
    for o in out["obs"]:
        for ops, lst in o["log"]:
            if lst is None:
                continue
            e += 1
            extra = set(tuple(p) for p in lst[0]) - needed_files(case, H, e)
            if extra or lst[1]:
                some_extra = True
            if not extra <= seen or lst[1] != tmp_at_crash:
                return False
        if o["outcome"] == "Crashed":
            seen |= set(tuple(p) for p in o["ckpts"])
            tmp_at_crash = o["ntmp"]
        e = max([r[0] for r in o["hist"]] + [0])
    return some_extra


def best_overwritten_by_last(case, out):
    """wherever the best epoch does not load with its own parameters, it is older than the last
    recorded epoch, whose parameters are what the shared file holds"""
    _, _, em, eo = FMTS[case["fmt"]]
    hit = False
    for o in out["obs"]:
        if not o["best"] or not o["last"]:
            continue
        tag = {r[0]: r[3] for r in o["hist"]}
        lb, ll = o["loads"][o["best"] - 1], o["loads"][o["last"] - 1]
        if lb[1] == tag[o["best"]] and lb[2] == tag[o["best"]]:
            continue
        hit = True
        if o["best"] >= o["last"]:
            return False
        if (not em and lb[1] != ll[1]) or (not eo and lb[2] != ll[2]):
            return False
        if (em and lb[1] != tag[o["best"]]) or (eo and lb[2] != tag[o["best"]]):
            return False
    return hit


LOAD_PARTS = {"load_last", "load_best", "load_all"}


def part_groups(parts):
    """a case can show several findings at once: judge the load clauses, the 'nothing else'
    clause and the remaining clauses separately"""
    gs = [[p for p in parts if p in LOAD_PARTS], [p for p in parts if p == "dir_only"],
          [p for p in parts if p not in LOAD_PARTS and p != "dir_only"]]
    return [g for g in gs if g]


def signature_fn(entry, rec):
    sig, case, out = entry["signature"], rec["case"], rec["impl"]
    if relation_only(case):
        return False    # those streams are built so that no known finding shows
    if rec.get("state_agrees") is not True:
        # every known finding is a behaviour of the unchanged code that PV.C16.Model reproduces observation by
        # observation (and proves: Witness.v).  A state (history, last/best, loads, directory listings) the model does
        # not predict is something else, whatever clauses it fails and whatever the crash points look like.  (The
        # traces of calls are left out: a change of the calls alone is the model-mismatch report's business.)
        return False
    failing = set(rec["failing_parts"])
    if not failing or not failing <= set(sig["failing_parts_subset_of"]):
        return False
    if out.get("notes") or "error" in out:
        return False
    _, _, em, eo = FMTS[case["fmt"]]
    if "all_formats_have_epoch" in sig and sig["all_formats_have_epoch"] != (em and eo):
        return False
    if "keep_last_and_best_only" in sig and sig["keep_last_and_best_only"] != bool(case["klb"]):
        return False
    if sum(1 for o in out["obs"] if o["outcome"] == "Crashed") < sig.get("min_crashes", 0):
        return False
    if sig.get("crash_after_append_before_last_replace") and not any(crash_windows(out)):
        return False
    if sig.get("extras_existed_at_an_earlier_crash") and not extras_are_crash_leftovers(case, out):
        return False
    if sig.get("best_is_not_last_wherever_best_fails") and not best_overwritten_by_last(case, out):
        return False
    return True


# ----------------------------------------------------------------------------------------
# generators
# ----------------------------------------------------------------------------------------

CTLS = [
    {},
    {"early_stopping_threshold": 0.5, "early_stopping_patience": 2, "early_stopping_burnin": 1},
    {"reduce_lr_threshold": 0.5, "reduce_lr_patience": 1, "reduce_lr_cooldown": 1, "reduce_lr_factor": 0.5,
     "log10_learning_rate": 0},
    {"early_stopping_threshold": 0.25, "early_stopping_patience": 3, "reduce_lr_threshold": 0.25,
     "reduce_lr_patience": 2, "reduce_lr_factor": 0.5, "log10_learning_rate": 0, "reduce_lr_burnin": 1},
]


def total_calls(case, workdir):
    """number of file-system calls of the uninterrupted run"""
    c = dict(case, crashes=[])
    _warm_up(workdir)
    with warnings.catch_warnings():
        warnings.simplefilter("ignore")
        obs, _, _, _ = _unint(c, workdir)
    return sum(len(ops) for ops, _ in obs[0]["log"])


def _work(args):
    """pool worker: a chunk of cases that share their uninterrupted run"""
    cases, workdir = args
    torch.set_num_threads(1)
    return [run_impl(c, workdir) for c in cases]


def run_impl_many(cases, workdir):
    """implementation runs, grouped by (parameters, history), over a process pool"""
    import multiprocessing as mp
    jobs = max(1, min(int(os.environ.get("VERIF_JOBS", "16")) // 2, os.cpu_count() or 1, 8))
    groups = {}
    for i, c in enumerate(cases):
        groups.setdefault(_base_key(c), []).append(i)
    chunks, cur = [], []
    for idx in groups.values():
        cur += idx
        if len(cur) >= 24:
            chunks.append(cur)
            cur = []
    if cur:
        chunks.append(cur)
    outs = [None] * len(cases)
    if jobs == 1 or len(cases) < 40:
        for ch in chunks:
            for i, o in zip(ch, _work(([cases[i] for i in ch], str(workdir)))):
                outs[i] = o
        return outs
    with mp.get_context("spawn").Pool(jobs) as pool:
        for ch, res in zip(chunks, pool.imap(_work, [([cases[i] for i in ch], str(workdir)) for ch in chunks])):
            for i, o in zip(ch, res):
                outs[i] = o
    return outs


def gen_cases(chk):
    rng, cases = chk.rng, []
    thorough = chk.tier == "thorough"

    def add(stream, klb, fmt, mets, crashes, bt=False, ctl=None, num_epochs=False, jit=None, **more):
        ctl = dict(ctl or {})
        if num_epochs:
            ctl["num_epochs"] = len(mets) if num_epochs is True else int(num_epochs)
        cases.append({"klb": klb, "fmt": fmt, "bt": bt, "mets": [list(m) for m in mets], "ctl": ctl,
                      "crashes": list(crashes), "stream": stream})
        if jit is not None:
            cases[-1]["jit"] = [list(j) for j in jit]
        cases[-1].update(more)
        return cases[-1]

    def history(n, style):
        """validation (or, with best_is_train, training) metrics of n epochs"""
        vals, lo = [], None
        for i in range(n):
            if style == "improving":
                v = 60 - 3 * i - rng.randint(0, 2)
            elif style == "worsening":
                v = 4 + 3 * i + rng.randint(0, 2)
            elif style == "ties":
                v = rng.choice([8, 8, 12])
            elif style == "dethrone":
                # stretches of epochs that are not the best (ties with the best included), then a new best: the epoch
                # that loses the title is then not the one before
                v = rng.randint(40, 60) if lo is None else (lo - rng.randint(1, 3) if rng.random() < 0.35 else lo + rng.randint(0, 8))
            else:
                v = rng.randint(-6, 40) or 1      # negative metrics are legal; 0 is left out (no relative 1e-8 jitter around it)
            lo = v if lo is None else min(lo, v)
            vals.append(v)
        return vals

    def mets_of(vals, bt):
        if bt:
            return [(v, rng.randint(1, 40)) for v in vals]
        return [(rng.randint(1, 40) if rng.random() < 0.5 else v, v) for v in vals]

    def removals(klb, fmt, bt, mets):
        """generator's forecast (only used to place crash points / failing removals): per update of a crash-free
        keep-last-and-best run, (number of calls before its first os.remove, number of os.remove calls)"""
        _, _, em, eo = FMTS[fmt]
        res, col = [], 0 if bt else 1
        for e in range(1, len(mets) + 1):
            def best(k):
                return min(range(1, k + 1), key=lambda x: (mets[x - 1][col], x)) if k else 0
            lb, cb = best(e - 1), best(e)
            if cb != e and not (em and eo):
                break                                   # ValueError: would overwrite the best checkpoint
            if cb == e - 1 or not klb:
                res.append((7, 0))
                continue
            old = set(x for x in ([e - 1] + ([lb] if lb != cb else [])) if x)
            res.append((7, len(old) * (int(em) + int(eo))))
        return res

    # (a) every single crash point of every update of every small history
    L = 4 if thorough else 3
    grid = [4, 8, 12]
    seqs = [s for n in range(1, L + 1) for s in itertools.product(grid, repeat=n)]
    if not thorough:
        seqs = [s for i, s in enumerate(seqs) if len(s) <= 2 or i % 5 == chk.seed % 5]
    for klb, fmt in itertools.product([True, False], ["ep", "no", "mo"]):
        for s in seqs:
            mets = [(20 - v, v) for v in s]
            base = {"klb": klb, "fmt": fmt, "bt": False, "mets": mets, "ctl": {}, "crashes": []}
            tot = total_calls(base, chk.workdir)
            add("exhaustive-single", klb, fmt, mets, [])
            for k in range(tot):
                add("exhaustive-single", klb, fmt, mets, [k])
    chk.extra["exhaustive"] = thorough
    chk.extra["exhaustive_scope"] = ("validation metrics over a 3-point grid, histories of length <= %d%s, both retention modes, "
                                     "formats ep/no/mo, every file-system call of every update as the single crash point; "
                                     "plus every pair of crash points of 2-epoch histories in keep-all mode" % (L, "" if thorough else " (slice of the length-3 ones)"))
    # (b) every pair of crash points, two-epoch histories
    for klb, fmt in ([(False, "ep"), (True, "ep"), (False, "no")] if thorough else [(False, "ep")]):
        for s in ([(8, 4), (4, 8)] if thorough else [(8, 4)]):
            mets = [(v, v) for v in s]
            tot = total_calls({"klb": klb, "fmt": fmt, "bt": False, "mets": mets, "ctl": {}, "crashes": []}, chk.workdir)
            for k1 in range(tot):
                for k2 in range(tot - k1 + 7):
                    add("exhaustive-double", klb, fmt, mets, [k1, k2])
    # (b') raw metrics a few 1e-8 off the grid (they print as the grid value): ties and near-ties between what a live
    #      process holds and what a restarted one reads back; every single crash point
    jseqs = [((8, 8), (0, -2)), ((8, 8), (0, 3)), ((8, 8, 8), (0, -1, -3)), ((8, 4, 4), (2, 0, -4)), ((4, 8, 4), (0, 0, -2)),
             ((8, 8, 12), (-3, -4, 0)), ((12, 8, 8, 8), (0, 1, -1, -2))]
    if not thorough:
        jseqs = jseqs[chk.seed % 2::2] + jseqs[:1]
    for klb, fmt in ([(True, "ep"), (False, "ep"), (True, "e2")] if thorough else [(True, "ep")]):
        for s, js in jseqs:
            for bt in ([False, True] if thorough else [False]):
                mets = [(v, v) for v in s]
                jit = [(j, j) for j in js]
                base = {"klb": klb, "fmt": fmt, "bt": bt, "mets": mets, "ctl": {}, "crashes": [], "jit": jit}
                tot = total_calls(base, chk.workdir)
                for k in [None] + list(range(tot)):
                    add("jitter-single", klb, fmt, mets, [] if k is None else [k], bt=bt, jit=jit)
    # (c) random: longer histories, C15 parameter settings, several crashes
    nrand = 4000 if thorough else 400
    for _ in range(nrand):
        n = rng.choice([1, 2, 3, 3, 4, 4, 5, 6, 7])
        style = rng.choice(["any", "any", "improving", "ties", "worsening", "dethrone"])
        vals = history(n, style)
        bt = rng.random() < 0.25
        mets = mets_of(vals, bt)
        klb = rng.random() < 0.55
        fmt = rng.choice(["ep", "ep", "e2", "no", "mo", "om", "sd"])
        ctl = rng.choice(CTLS)
        ncr = rng.choice([0, 1, 1, 2, 2, 3, 4])
        per = 9
        crashes = []
        for j in range(ncr):
            if rng.random() < 0.5:
                crashes.append(rng.randint(0, per))          # early in the next update
            else:
                crashes.append(rng.randint(0, per * n))
        jit = None
        if not ctl and rng.random() < 0.4:   # decisions of C15 (thresholds) stay on the grid: no jitter with a ctl
            jit = [(rng.choice([0, 0, -4, -2, -1, 1, 3]), rng.choice([0, 0, -4, -2, -1, 1, 3])) for _ in range(n)]
        add("random", klb, fmt, mets, crashes, bt=bt, ctl=ctl, num_epochs=rng.random() < 0.3, jit=jit)

    def crash_list(n, ncr, per=9):
        return [rng.randint(0, per) if rng.random() < 0.5 else rng.randint(0, per * n) for _ in range(ncr)]

    # (d) the same logical runs, driven differently (all judged by PV.C16.Model.check like the plain ones): epoch given
    #     explicitly (keyword / positional / every other call), update_cache() or add_entry again before each update,
    #     two controllers taking turns, a controller kept alive as the observer over all restarts / one that never
    #     called add_entry, a watching controller that loads after each completed update; num_epochs 1 / len / len-1;
    #     every format incl. sub-directories; two-digit epochs
    fmts = sorted(FMTS)
    for i in range(1200 if thorough else 150):
        n = 11 if i % 43 == 7 else rng.choice([1, 2, 3, 3, 4, 4, 5, 6])
        bt = rng.random() < 0.4
        mets = mets_of(history(n, rng.choice(["any", "dethrone", "dethrone", "ties", "improving", "worsening"])), bt)
        ctl = rng.choice(CTLS) if rng.random() < 0.4 else {}
        drv = {}
        for key, val in (("ep", rng.choice([None, "kw", "pos", "mix"])), ("refresh", rng.choice([None, None, "uc", "ae"])),
                         ("two", rng.random() < 0.3), ("obs", rng.choice([None, "kept", "noentry"])), ("watch", rng.random() < 0.3)):
            if val:
                drv[key] = val
        if not drv:
            drv["ep"] = "kw"
        jit = None
        if not ctl and rng.random() < 0.3:
            jit = [(rng.choice([0, 0, -4, -2, -1, 1, 3]), rng.choice([0, 0, -4, -2, -1, 1, 3])) for _ in range(n)]
        ne = rng.choice([False, False, True, 1, max(1, n - 1)])
        add("driven", rng.random() < 0.6, fmts[i % len(fmts)], mets, crash_list(n, rng.choice([0, 1, 1, 2, 3])), bt=bt, ctl=ctl,
            num_epochs=ne, jit=jit, drv=drv)

    # (e) constructor without a state directory / without a history file / without both (judged against the plain run)
    for i in range(400 if thorough else 48):
        n = rng.choice([1, 2, 3, 4, 5])
        bt = rng.random() < 0.4
        mets = mets_of(history(n, rng.choice(["any", "dethrone", "ties", "worsening"])), bt)
        nf = ["sd", "csv", "sd", "csv", "both", "sd"][i % 6]
        c = add("no-files", rng.random() < 0.5, fmts[(i // 6) % len(fmts)], mets, [rng.randint(0, n) for _ in range(rng.choice([0, 1, 2]))] if nf == "sd" else [],
                bt=bt, ctl=rng.choice(CTLS) if rng.random() < 0.4 else {}, num_epochs=rng.choice([False, True, 1]), kind="nofiles", nf=nf)
        if rng.random() < 0.5:
            c["drv"] = {"ep": rng.choice(["kw", "pos"])}

    # (f) files the process may not delete: os.remove fails (PermissionError) for some calls of the clean-up
    k = 0
    for i in range(4000 if thorough else 400):
        if k >= (300 if thorough else 30):
            break
        n = rng.choice([3, 4, 5, 6])
        bt = rng.random() < 0.3
        base = {"klb": True, "fmt": ["ep", "e2", "mo", "om", "sd"][i % 5], "bt": bt, "ctl": {},
                "mets": mets_of(history(n, rng.choice(["any", "dethrone", "worsening"] if i % 5 in (0, 1, 4) else ["improving", "improving", "dethrone"])), bt)}
        nrem = sum(r for _, r in removals(True, base["fmt"], bt, base["mets"]))
        if not nrem:
            continue
        k += 1
        add("remove-fails", True, base["fmt"], base["mets"], [], bt=bt, kind="remfault",
            fault=sorted(set(rng.randrange(nrem) for _ in range(rng.choice([1, 1, 2, 3])))))

    # (g) crash inside the clean-up (or anywhere), then - at every restart - delete_model_and_optimizer_for_epoch for all
    #     recorded epochs but the last and the best one (possibly dying between its removals and done again), then go on:
    #     judged by PV.C16.Spec with no known finding admitted (formats with {epoch})
    for i in range(600 if thorough else 75):
        klb = i % 5 != 4
        n = rng.choice([3, 4, 5, 6])
        bt = rng.random() < 0.3
        base = {"klb": klb, "fmt": ["ep", "e2", "sd"][i % 3], "bt": bt, "ctl": {},
                "mets": mets_of(history(n, rng.choice(["any", "dethrone", "dethrone", "worsening"])), bt)}
        crashes = []
        if klb:
            off, spots = 0, []
            for pre, r in removals(True, base["fmt"], bt, base["mets"]):
                if r:
                    spots.append((off + pre, off + pre + r - 1))
                off += pre + r
            if spots and rng.random() < 0.7:
                crashes.append(rng.randint(*rng.choice(spots)))
            else:
                crashes.append(rng.randint(0, max(off - 1, 0)))
            crashes += crash_list(n, rng.choice([0, 0, 1, 2]))
        else:
            crashes = crash_list(n, rng.choice([0, 1]))   # keep-all: two crashes in one epoch are K3
        add("delete-between-restarts", klb, base["fmt"], base["mets"], crashes, bt=bt,
            jan={"rev": rng.random() < 0.5, "crash": [rng.choice([None, None, 0, 1, 2]) for _ in range(len(crashes) + 1)]})

    # (h) 'resume': state that the controller ITSELF modifies during the update it saves.  A real training script - one
    #     model, one real optimizer (SGD with momentum / Adam, two groups) per process, resumed from the files at every
    #     start, metrics that depend on the state carried - under learning-rate annealing (threshold / patience / cooldown /
    #     factor / burn-in varied so that the rate is reduced at early epochs; initial rate from the optimizer or written by
    #     the controller at epoch 0).  Stop points: every file-system call of every update as the single crash point and
    #     every orderly stop (= crash before the first call of the next update), restarts after every epoch, several
    #     crashes.  Judged by Model.check / Spec on the canonical observation (an optimizer file whose learning rate is not
    #     the one its own history row records does not hold "the parameters that were saved") AND by the uninterrupted run
    #     of the same script (_real_notes).  Left out, exactly: crash points after the history append and before the last
    #     os.replace of the same update (K2), a second crash before a keep-all process has completed one update (K3).
    def unint_of(base):
        _warm_up(chk.workdir)
        with warnings.catch_warnings():
            warnings.simplefilter("ignore")
            try:
                return _unint(dict(base, crashes=[]), chk.workdir)[0][0]
            except Exception:
                return None

    RFM = [(True, "ep"), (False, "ep"), (True, "no"), (True, "e2"), (False, "mo"), (True, "sd"), (False, "no"), (True, "mo"),
           (False, "e2"), (True, "om"), (False, "sd"), (False, "om")]
    nrec, made = (48 if thorough else 6), 0
    for i in range(nrec * 5):
        if made >= nrec:
            break
        klb, fmt = RFM[(i + 5 * chk.seed) % len(RFM)]
        epf = FMTS[fmt][2] and FMTS[fmt][3]
        n = rng.choice([4, 5, 5, 6, 7, 8] if thorough else [4, 5, 5, 6])
        bt = epf and rng.random() < 0.2
        if klb and not epf:     # every epoch a new best, whatever the training adds (0..4): anything else is a ValueError
            vals = [70 - 6 * x - rng.randint(0, 1) for x in range(n)]
        else:
            vals = history(n, rng.choice(["worsening", "ties", "any", "dethrone"]))
        mets = mets_of(vals, bt)
        ctl = {"reduce_lr_threshold": rng.choice([1e6, 1e6, 0.5, 1.0, 2.0]), "reduce_lr_patience": rng.choice([1, 1, 2, 2, 3]),
               "reduce_lr_cooldown": rng.choice([0, 1, 1, 2]), "reduce_lr_factor": rng.choice([0.5, 0.5, 0.25]),
               "reduce_lr_burnin": rng.choice([0, 0, 0, 1])}
        if rng.random() < 0.35:
            ctl["log10_learning_rate"] = 0      # the controller writes the initial rate into the optimizer (epoch 0)
        if rng.random() < 0.25:
            ctl.update(early_stopping_threshold=0.5, early_stopping_patience=rng.choice([3, 4]))
        real = {"opt": "adam" if i % 3 == 2 else "sgd", "lr0": rng.choice([1.0, 0.5, 0.25]), "mom": rng.choice([0.5, 0.5, 0.75, 0.0]),
                "nest": rng.random() < 0.3, "steps": rng.choice([1, 2, 3]), "g": [rng.randint(-4, 6) for _ in range(n)]}
        base = {"klb": klb, "fmt": fmt, "bt": bt, "mets": [list(m) for m in mets], "ctl": dict(ctl), "real": real}
        if rng.random() < 0.3:
            base["ctl"]["num_epochs"] = n
        u = unint_of(base)
        if u is None or not u.get("csvx"):
            continue
        # learning rates of the history: representable under '{:.4e}' (C15's K4 otherwise), reduced at least once
        # before the last recorded epoch (so that training goes on after a reduction epoch)
        init = 1.0 if "log10_learning_rate" in ctl else real["lr0"]
        lrs, v, ok = [float(r[5]) for r in u["csvx"]], init, True
        red = _red_epochs(base, u)
        for _ in red:
            v = v * ctl["reduce_lr_factor"]
            ok = ok and float("{:.4e}".format(v)) == v
        if not ok or not red or red[0] >= len(lrs):
            continue
        made += 1
        ctl = base["ctl"]
        lens = [len(ops) for ops, lst in u["log"] if lst is not None]
        pts, off = [], 0
        for e, (ops, lst) in enumerate(u["log"], 1):
            if lst is None:
                break
            kinds = [op[0] for op in ops]
            for j in range(len(ops)):
                done = kinds[:j]
                if "app" in done and done[done.index("app"):].count("rep") < 2:
                    continue            # K2's window: the row is recorded, the checkpoint not yet in place
                pts.append((off + j, e, j))
            off += len(ops)
        near = set(x for e in red for x in (e, e + 1))
        if not thorough and len(pts) > 40:
            pts = [p for p in pts if p[1] in near or p[2] == 0 or (p[0] + chk.seed) % 3 == 0]
        add("resume", klb, fmt, mets, [], bt=bt, ctl=ctl, real=real)
        for k, e, j in pts:
            add("resume", klb, fmt, mets, [k], bt=bt, ctl=ctl, real=real)
        # a new process after every epoch / after every second epoch (orderly stops only)
        add("resume", klb, fmt, mets, lens, bt=bt, ctl=ctl, real=real)
        add("resume", klb, fmt, mets, [a + b for a, b in zip(lens[0::2], lens[1::2])], bt=bt, ctl=ctl, real=real)
        # several crashes anywhere (formats with {epoch}; keep-all: at most one crash per epoch)
        if epf:
            for _ in range(12 if thorough else 4):
                ks = [rng.randint(0, off)]
                for _ in range(rng.choice([1, 1, 2])):
                    ks.append(rng.randint(0, 12) if rng.random() < 0.5 else rng.randint(0, off))
                if not klb:
                    ks = ks[:1] + [7 + x for x in ks[1:]]
                add("resume", klb, fmt, mets, ks, bt=bt, ctl=ctl, real=real)
    # (i) 'interrupt': the same crash schedules with the process dying through an EXCEPTION at the crash point (Ctrl-C,
    #     SystemExit, an error the training script does not catch) - the library's own `except:` / `finally:` / context
    #     managers run while it unwinds.  Same model term (Model.check knows crash points, not how the process died):
    #     anything a handler does to the files shows up as a state the model does not predict.
    plain = [c for c in cases if c["crashes"] and not relation_only(c) and not c.get("kind") and not c.get("real")
             and not c.get("drv") and not c.get("jan") and not c.get("jit")]
    rng.shuffle(plain)
    for c in plain[: (1200 if thorough else 140)]:
        cases.append(dict(c, soft=True, stream="interrupt"))

    return cases


def _red_epochs(case, u):
    """'resume' stream: the epochs whose update reduced the learning rate, read off the uninterrupted history"""
    init = 1.0 if "log10_learning_rate" in case.get("ctl", {}) else case["real"]["lr0"]
    lrs = [init] + [float(r[5]) for r in u.get("csvx", [])]
    return [e for e in range(1, len(lrs)) if lrs[e] != lrs[e - 1]]


def _dethrones(case):
    """some epoch e becomes the best one while the best so far is neither missing nor epoch e-1"""
    col, best = (0 if case["bt"] else 1), None
    for e, m in enumerate(case["mets"], 1):
        if best is None or m[col] < best[0]:
            if best is not None and best[1] != e - 1:
                return True
            best = (m[col], e)
    return False


def nontrivial(case, out):
    """at least one crash point strictly inside an update (some but not all of its calls made)"""
    if "error" in out:
        return False
    return any(o["outcome"] == "Crashed" and o["log"] and o["log"][-1][1] is None and len(o["log"][-1][0]) >= 1
               for o in out["obs"])


# ----------------------------------------------------------------------------------------
# judging
# ----------------------------------------------------------------------------------------


def _cands(case):
    if case["crashes"]:
        for i in range(len(case["crashes"])):
            c = dict(case)
            c["crashes"] = case["crashes"][:i] + case["crashes"][i + 1:]
            yield c
    if len(case["mets"]) > 1:
        c = dict(case)
        c["mets"] = case["mets"][:-1]
        if case.get("jit"):
            c["jit"] = case["jit"][:-1]
        yield c
        c = dict(case)
        c["mets"] = case["mets"][1:]
        if case.get("jit"):
            c["jit"] = case["jit"][1:]
        yield c
    if case.get("jit"):
        c = dict(case)
        c.pop("jit")
        yield c
    if case.get("ctl"):
        c = dict(case)
        c["ctl"] = {}
        yield c
    for key in sorted(case.get("drv") or {}):
        c = dict(case)
        c["drv"] = {k: v for k, v in case["drv"].items() if k != key}
        if c["drv"] or not c.get("kind"):
            yield c
    if case.get("jan") and (case["jan"].get("rev") or any(x is not None for x in case["jan"].get("crash", []))):
        c = dict(case)
        c["jan"] = {"rev": False, "crash": []}
        yield c
    if len(case.get("fault") or []) > 1:
        for x in case["fault"]:
            c = dict(case)
            c["fault"] = [y for y in case["fault"] if y != x]
            yield c
    if case["bt"]:
        c = dict(case)
        c["bt"] = False
        yield c
    for i, k in enumerate(case["crashes"]):
        if k > 0:
            c = dict(case)
            c["crashes"] = case["crashes"][:i] + [k - 1] + case["crashes"][i + 1:]
            yield c


def failing_parts(chk, case, out):
    res = coq_eval_bools(chk.workdir, IMPORTS, [spec_term(case, out, i) for i in range(len(PARTS))], tag="parts")
    return [PARTS[i] for i, ok in enumerate(res) if not ok]


def make_record(chk, case, out, model_ok, parts, with_model=True, state_ok=None):
    rec = {"case": case, "impl": out, "failing_parts": parts, "model_agrees": model_ok,
           "state_agrees": True if model_ok is True else state_ok,
           "spec_accepts_impl": not parts and not out.get("notes"),
           "correspondence": "corr:C16:TrainingStateController.update_for_epoch/load_model_and_optimizer_for_epoch",
           "theorems_at_stake": ["c16_crash_history_is_prefix", "c16_crash_then_continue_same_history",
                                 "c16_crash_last_and_best_loadable", "c16_keep_all_every_epoch_loadable",
                                 "c16_completed_update_dir_exact"]}
    if with_model and "error" not in out:
        rec["model"] = coq_eval_print(chk.workdir, IMPORTS, "run " + model_args(case, out))
    if parts or out.get("notes") or "error" in out:
        rec["what"] = ("crash-consistency violated: " + ", ".join(parts + out.get("notes", []) + ([out["error"]] if "error" in out else [])))
    else:
        rec["what"] = "implementation's file-system calls / observations differ from the model, but satisfy the property's boolean reading"
    return rec


def run(chk, cases=None):
    chk.rule = ("case = (retention mode, file-name formats, best_is_train, C15 parameters, metric history, list of crash points); "
                "the real controller is run in a scratch directory with os.replace/os.remove/torch.save/NamedTemporaryFile/CSV append "
                "counted and the process killed (BaseException) instead of the k-th call, then restarted, for every crash point of the "
                "list; after each death and at the end a fresh controller's history, last/best epoch, the result of loading every "
                "recorded epoch, the directory listing, the trace of calls of every update and the listing after every completed update "
                "are compared with PV.C16.Model.run, and judged by PV.C16.Spec.spec_parts. non-trivial = some crash strictly inside an update. "
                "Stream 'driven': the same logical runs with the epoch passed explicitly (keyword/positional), update_cache()/add_entry "
                "again before each update, two controllers taking turns, an observer kept alive over all restarts or without add_entry, "
                "a watching controller loading after each completed update - all compared with the same Model.check. Judged by relations "
                "with the plain run instead of the model: 'no-files' (state_dir and/or state_csv_path None), 'remove-fails' (os.remove "
                "raising PermissionError inside the clean-up); judged by Spec.spec_part alone, no known finding admitted: "
                "'delete-between-restarts' (delete_model_and_optimizer_for_epoch of every recorded epoch but last and best at each "
                "restart, itself crash-injected). A known finding is accepted only for observations the model reproduces exactly. "
                "Stream 'resume': a real training script (one tiny float64 model and one real optimizer - SGD with momentum or Adam, "
                "two groups - per process, load_model_and_optimizer_for_epoch at every start, metrics computed from the trained state) "
                "under learning-rate annealing with reductions at early epochs; every crash point of every update and every orderly "
                "stop, restarts after every epoch, several crashes; compared with the same Model.check / Spec (metrics = those the "
                "uninterrupted run realised; an optimizer file whose learning rate differs from the one its own history row records "
                "counts as NOT holding the saved parameters) and, in python, with the uninterrupted run of the same script: state "
                "resumed with = state the uninterrupted process carried on with after that epoch's update, same state after every "
                "later update, history (all columns but the call number) a prefix / equal at the end")
    chk.assumptions += ["os.replace and the CSV append (open 'a' + writerow, flushed at close) are atomic; no torn writes",
                        "metrics lie on a grid where '{:.4e}' is exact; learning rates stay representable (C15's K4 is not re-tested here)",
                        "parameter values are one integer per update call, written to the model weight, the optimizer param group and the user entry 'tag'",
                        "the iteration order of the Python set clean_up is read back from the trace and handed to the model as an oracle",
                        "stopping decisions (early stopping, num_epochs) are C15's: the model gets the metric list cut where the uninterrupted implementation stopped",
                        "'resume' stream: PV.C16.Model treats a checkpoint's content as the value supplied for the update call; that the content is the state AFTER "
                        "the update's own writes (learning rate) is judged by the row-vs-checkpoint learning-rate relation of the class documentation and by the "
                        "uninterrupted-run oracle, not by a theorem; learning rates are dyadic (exact under '{:.4e}'); stop points inside K2's / K3's windows are not generated"]
    import time
    t0 = time.time()
    timing = chk.extra.setdefault("timing_s", {})
    explicit = cases is not None
    if cases is None:
        cases = gen_cases(chk)
        for c in load_corpus("C16"):
            c = dict(c.get("case", c))
            c["stream"] = "corpus"
            cases.append(c)
    terms, sterms = [], []
    streams = [c.pop("stream", "random") for c in cases]
    timing["generate"] = round(time.time() - t0, 1)
    t0 = time.time()
    outs = run_impl_many(cases, chk.workdir)
    timing["implementation"] = round(time.time() - t0, 1)
    t0 = time.time()
    for c, stream, out in zip(cases, streams, outs):
        terms.append(model_term(c, out))
        sterms.append(spec_term(c, out))
        chk.note_case(c, nontrivial(c, out), stream)
        chk.count("mode=" + ("last+best" if c["klb"] else "keep-all"))
        chk.count("fmt=" + c["fmt"])
        chk.count("crashes=%d" % len(c["crashes"]))
        chk.count("epochs=%d" % len(c["mets"]))
        chk.count("raw_metrics=" + ("off-grid(1e-8)" if c.get("jit") else "grid"))
        chk.count("best_is_train=%s" % bool(c["bt"]))
        chk.count("num_epochs=" + ("unset" if not c.get("ctl", {}).get("num_epochs") else "1" if c["ctl"]["num_epochs"] == 1 else
                                   "len" if c["ctl"]["num_epochs"] >= len(c["mets"]) else "<len"))
        if c["klb"] and FMTS[c["fmt"]][3] and _dethrones(c):
            chk.count("last+best: new best while the old best is older than the previous epoch (optimizer format with {epoch})")
        for key, val in sorted((c.get("drv") or {}).items()):
            chk.count("driven:%s=%s" % (key, val))
        if c.get("real"):
            chk.count("resume:optimizer=%s" % c["real"]["opt"])
            chk.count("resume:initial rate " + ("written by the controller (log10_learning_rate)" if "log10_learning_rate" in c["ctl"] else "from the optimizer"))
            chk.count("resume:patience=%s cooldown=%s factor=%s" % tuple(c["ctl"].get("reduce_lr_" + x) for x in ("patience", "cooldown", "factor")))
            if "error" not in out:
                red = _red_epochs(c, out["unint"])
                chk.count("resume:first reduction at epoch %s" % (red[0] if red else "-"))
                for o in out["obs"][1:]:
                    e0 = o.get("real", {}).get("resume", [0])[0]
                    chk.count("resume:restart from " + ("epoch 0" if not e0 else "an epoch whose update reduced the rate" if e0 in red else "another epoch"))
        if c.get("kind") == "nofiles":
            chk.count("constructor=" + {"sd": "csv only", "csv": "state_dir only", "both": "neither"}[c["nf"]])
        if c.get("kind") == "remfault" and "error" not in out:
            chk.count("undeletable files=%d" % len(out.get("stuck", [])))
        if c.get("jan") and "error" not in out:
            chk.count("deleted between restarts=%d epochs" % len(out["obs"][-1].get("deleted", [])))
            if any(o["outcome"] == "Crashed" and o["log"] and o["log"][-1][0] and o["log"][-1][0][-1][0] in ("app", "rem")
                   and len([op for op in o["log"][-1][0] if op[0] == "rep"]) == 2 for o in out["obs"]):
                chk.count("crash inside a clean-up, then delete")
        if "error" in out:
            chk.count("outcome=harness-error")
        else:
            chk.count("final=" + out["obs"][-1]["outcome"])
            for o in out["obs"]:
                if o["outcome"] == "Crashed" and o["log"]:
                    ops = o["log"][-1][0]
                    chk.count("crash-after=" + (ops[-1][0] if ops else "nothing"))
    res = coq_eval_bools(chk.workdir, IMPORTS, terms)
    sres = coq_eval_bools(chk.workdir, IMPORTS, sterms, tag="spec")
    timing["coq_model_and_spec"] = round(time.time() - t0, 1)
    t0 = time.time()
    source_tie(chk, cases, outs, res)
    timing["coq_source_tie"] = round(time.time() - t0, 1)
    bad = [i for i, ok in enumerate(res) if not ok]
    sbad = [i for i, ok in enumerate(sres) if not ok or outs[i].get("notes") or "error" in outs[i]]
    chk.extra["model_disagreements"] = len(bad)
    chk.extra["spec_rejections"] = len(sbad)
    reported = 0
    concrete = False
    # (1) every implementation output the spec rejects: known finding or violation
    todo = [i for i in sbad if "error" not in outs[i] and not outs[i].get("notes")]
    pres = coq_eval_bools(chk.workdir, IMPORTS, [spec_term(cases[i], outs[i], j) for i in todo for j in range(len(PARTS))],
                          shard=700, tag="parts")
    parts_of = {i: [PARTS[j] for j in range(len(PARTS)) if not pres[n * len(PARTS) + j]] for n, i in enumerate(todo)}
    sq = [i for i in todo if not res[i]]      # the model misses them: at least the observable state?
    state_of = dict(zip(sq, coq_eval_bools(chk.workdir, IMPORTS_STATE, [state_term(cases[i], outs[i]) for i in sq], tag="state")))
    for i in sbad:
        case, out = cases[i], outs[i]
        if out.get("notes") or "error" in out:
            if reported < 8:
                parts = failing_parts(chk, case, out) if "error" not in out else ["harness-error"]
                chk.report(make_record(chk, case, out, res[i], parts, with_model=False))
            concrete = True
            reported += 1
            continue
        parts = parts_of[i]
        for g in part_groups(parts):
            rec = make_record(chk, case, out, res[i], g, with_model=False, state_ok=state_of.get(i))
            e = chk.known_match(signature_fn, rec)
            if e is not None:
                chk.report(rec, signature_fn)
                chk.count("known=" + e["id"])
                continue
            concrete = True
            reported += 1
            if reported > 8:
                continue
            small = case if explicit else shrink(case, lambda c: _still_rejected(chk, c, g), _cands, budget=30)
            sout = run_impl(small, chk.workdir)
            sparts = [q for q in failing_parts(chk, small, sout) if q in g] if "error" not in sout else ["harness-error"]
            if not sparts:
                small, sout, sparts = case, out, g
            chk.report(make_record(chk, small, sout, None, sparts))
    # (2) the model no longer describes the code
    unexplained = [i for i in bad if i not in set(sbad)]
    if unexplained and not concrete:
        i = unexplained[0]
        small = cases[i] if explicit else shrink(cases[i], lambda c: _disagrees(chk, c), _cands, budget=30)
        sout = run_impl(small, chk.workdir)
        chk.report(make_record(chk, small, sout, False, []), no_failing_input=True)
    elif bad and not concrete:
        # disagreements only on cases that show known findings: the model must contain those too
        i = bad[0]
        chk.report(make_record(chk, cases[i], outs[i], False, []), no_failing_input=True)


def _still_rejected(chk, case, group):
    """the same clauses still fail and are still not a known finding"""
    out = run_impl(case, chk.workdir)
    if "error" in out or out.get("notes"):
        return False
    sp, st = coq_eval_bools(chk.workdir, IMPORTS_STATE, [spec_term(case, out), state_term(case, out)], tag="shr")
    if sp:
        return False
    g = [q for q in failing_parts(chk, case, out) if q in group]
    if not g:
        return False
    return chk.known_match(signature_fn, {"case": case, "impl": out, "failing_parts": g, "state_agrees": st}) is None


def _disagrees(chk, case):
    out = run_impl(case, chk.workdir)
    return not coq_eval_bools(chk.workdir, IMPORTS, [model_term(case, out)], tag="shr")[0]


def replay(chk, path):
    rec = json.loads(open(path).read())
    case = dict(rec["case"])
    case.pop("stream", None)
    run(chk, [case])
