(* C02 - the in-place sequential deletion loop of the `return_mistakes` branch of `_string_matching`,
     for ref_idx in range(1, max_ref_steps + 1):
         del_ = row[ref_idx - 1] + del_cost ; pick_sub = del_ >= row[ref_idx]
         row[ref_idx] = torch.where(pick_sub, row[ref_idx], del_)
         mistakes[ref_idx] = torch.where(pick_sub, mistakes[ref_idx], mistakes[ref_idx - 1] + 1.0)
   (the term is cut out of PV.Gen.C02Src.er_loop, regenerated from /repo on every run) interpreted on the two
   (R+1 x N) tables: after the iterations 1..j, in every column, the positions <= j hold TieMath.sw (deletion only
   when strictly cheaper, counted as one more mistake), the others are untouched ([swp]); nothing but ref_idx, del_,
   pick_sub, row, mistakes is written ([frame]).  Proof: induction over MiniPy.Lemmas.for_loop. *)
From Coq Require Import ZArith QArith List String Bool Arith Lia ZifyBool ZifyNat.
From PV Require Import MiniPy.Syntax MiniPy.Interp MiniPy.Lemmas MiniTorch.Ops MiniTorch.Lemmas MiniTorch.OpsC07 MiniTorch.LemmasC07
  MiniTorch.OpsC01 MiniTorch.LemmasC01 MiniTorch.OpsC02 MiniTorch.LemmasC02.
From PV Require Import Gen.C02Src C01.SrcRun C01.TieLib C01.TieMath C02.SrcRun C02.TieLib C02.TieMath.
From PV Require C01.Model C01.Proofs C02.Model.
Import ListNotations.
Local Open Scope string_scope.

#[local] Arguments dec01 : simpl never.
#[local] Arguments enc_b : simpl never.
#[local] Arguments enc_i : simpl never.
#[local] Arguments enc_x : simpl never.
#[local] Arguments tab2 : simpl never.
#[local] Arguments tab3 : simpl never.
#[local] Arguments qz : simpl never.
#[local] Arguments Z.add : simpl never.
#[local] Arguments Z.sub : simpl never.
#[local] Arguments Z.of_nat : simpl never.
#[local] Arguments select0 : simpl never.
#[local] Arguments set_select0 : simpl never.
#[local] Arguments slice0 : simpl never.
#[local] Arguments set_slice0 : simpl never.
#[local] Arguments broadcast : simpl never.
#[local] Arguments where_f : simpl never.
#[local] Arguments min_dim : simpl never.
#[local] Arguments gather0 : simpl never.
#[local] Arguments unsqueeze : simpl never.
#[local] Arguments squeeze_dim : simpl never.
#[local] Arguments expand2 : simpl never.
#[local] Arguments triu_f : simpl never.
#[local] Arguments transpose2 : simpl never.
#[local] Arguments arange_f : simpl never.
#[local] Arguments full : simpl never.
#[local] Arguments fadd : simpl never.
#[local] Arguments fsub : simpl never.
#[local] Arguments fmul : simpl never.
#[local] Arguments fdiv : simpl never.
#[local] Arguments fmin : simpl never.
#[local] Arguments fge : simpl never.
#[local] Arguments b2f : simpl never.
#[local] Arguments z2f : simpl never.
#[local] Arguments ext01 : simpl never.
#[local] Arguments ext02 : simpl never.
#[local] Arguments zf : simpl never.
#[local] Arguments ofx : simpl never.
#[local] Arguments argmin_3 : simpl never.
#[local] Arguments seq : simpl never.
#[local] Arguments fmin_list : simpl never.
#[local] Arguments zrange : simpl never.
#[local] Arguments sw : simpl never.
#[local] Arguments swp : simpl never.

Definition loop_body : stmt := match er_loop with SFor _ _ b => b | _ => SPass end.
Definition loop_iter : expr := match er_loop with SFor _ e _ => e | _ => EConst VNone end.
Lemma er_loop_eq : er_loop = SFor "hyp_idx" loop_iter loop_body. Proof. reflexivity. Qed.

Definition body_if : stmt := match seq_drop 6 loop_body with SSeq a _ => a | _ => SPass end.
Definition mist_branch : stmt := match body_if with SIf _ t _ => t | _ => SPass end.
Definition inner_loop : stmt := match seq_drop 6 mist_branch with SSeq a _ => a | _ => SPass end.
Definition inner_body : stmt := match inner_loop with SFor _ _ b => b | _ => SPass end.
Definition inner_iter : expr := match inner_loop with SFor _ e _ => e | _ => EConst VNone end.
Lemma inner_loop_eq : inner_loop = SFor "ref_idx" inner_iter inner_body. Proof. reflexivity. Qed.

Definition inner_ws : list string := ["ref_idx"; "del_"; "pick_sub"; "row"; "mistakes"].

Definition inner_pre (s : positive) (cd : Z) (R N : nat) (x m : nat -> nat -> Z) (j : nat) (st : state) : Prop :=
  lookup "del_cost" (vars st) = Some (VQ (qz s cd)) /\
  lookup "row" (vars st) =
    Some (enc_x (mkTn [S R; N] (tab2 (S R) N (fun i n => zf s (fst (swp cd (fun a => x a n) (fun a => m a n) j i)))))) /\
  lookup "mistakes" (vars st) =
    Some (enc_x (mkTn [S R; N] (tab2 (S R) N (fun i n => zf 1 (snd (swp cd (fun a => x a n) (fun a => m a n) j i)))))).

Lemma zrange_1 : forall n, zrange 1 (Z.of_nat n + 1) = map (fun i => VInt (1 + Z.of_nat i)) (seq 0 n).
Proof. intros n. unfold zrange. replace (Z.to_nat (Z.of_nat n + 1 - 1)) with n by lia. reflexivity. Qed.

Section Inner.
  Variables (s : positive) (cd : Z) (R N : nat) (x m : nat -> nat -> Z).
  Notation pre := (inner_pre s cd R N x m).

  Lemma inner_step : forall st j, (j < R)%nat -> pre j st ->
    runs_to (fun st' => pre (S j) st' /\ frame inner_ws st st')
            (exec ext02 inner_body (set_var "ref_idx" (VInt (Z.of_nat (S j))) st)).
  Proof.
    intros st j Hj (Hdc & Hrow & Hmist).
    pose proof (frame_refl inner_ws st) as F.
    unfold inner_body, inner_loop, mist_branch, body_if, loop_body, er_loop. cbn [seq_drop]. cbv iota.
    push_state.
    assert (Hidx : (Z.of_nat (S j) - 1)%Z = Z.of_nat j) by lia.
    assign ltac:(repeat (progress (evn; rewrite ?Hidx, ?select0_mat by lia)); reflexivity).
    assign ltac:(repeat (progress (evn; rewrite ?select0_mat by lia)); reflexivity).
    setitem_t ltac:(repeat (progress (evn; rewrite ?select0_mat by lia)); reflexivity)
              ltac:(repeat (progress (evn; rewrite ?set_select0_mat by lia)); reflexivity).
    setitem_t ltac:(repeat (progress (evn; rewrite ?Hidx, ?select0_mat by lia)); reflexivity)
              ltac:(repeat (progress (evn; rewrite ?set_select0_mat by lia)); reflexivity).
    apply runs_to_ok. split; [|match goal with F0 : frame _ _ _ |- _ => exact F0 end]. unfold inner_pre. split; [assumption|]. split.
    - match goal with L : lookup "row" _ = _ |- _ => rewrite L end. do 3 f_equal. apply tab2_ext. intros i n Hi Hn.
      rewrite fadd_zf_q, fge_zf. rewrite <- (swp_step_fst cd (fun a => x a n) (fun a => m a n) j i).
      destruct (i =? S j)%nat; [|reflexivity].
      match goal with |- context [if ?b then _ else _] => destruct b end; reflexivity.
    - match goal with L : lookup "mistakes" _ = _ |- _ => rewrite L end. do 3 f_equal. apply tab2_ext. intros i n Hi Hn.
      rewrite one_qz, !fadd_zf_q, fge_zf. rewrite <- (swp_step_snd cd (fun a => x a n) (fun a => m a n) j i).
      destruct (i =? S j)%nat; [|reflexivity].
      match goal with |- context [if ?b then _ else _] => destruct b end; reflexivity.
  Qed.

  Lemma inner_run : forall k a st, (a + k <= R)%nat -> pre a st ->
    runs_to (fun st' => pre (a + k) st' /\ frame inner_ws st st')
            (for_loop ext02 "ref_idx" inner_body (map (fun i => VInt (1 + Z.of_nat i)) (seq a k)) st).
  Proof.
    induction k as [|k IH]; intros a st Hak P.
    - apply runs_to_ok. rewrite Nat.add_0_r. split; [exact P|apply frame_refl].
    - rewrite <- cons_seq. cbn [map for_loop].
      replace (1 + Z.of_nat a)%Z with (Z.of_nat (S a)) by lia.
      destruct (inner_step st a ltac:(lia) P) as [st1 [He [P1 F1]]]. rewrite He. cbn [bind].
      destruct (IH (S a) st1 ltac:(lia) P1) as [st2 [He2 [P2 F2]]]. exists st2. split; [exact He2|].
      split; [|exact (frame_trans _ _ _ _ F1 F2)].
      replace (a + S k)%nat with (S a + k)%nat by lia. exact P2.
  Qed.

  (* the `for ref_idx in range(1, max_ref_steps + 1)` statement: the whole sweep, in every column *)
  Theorem inner_tie : forall st, pre 0 st -> lookup "max_ref_steps" (vars st) = Some (VInt (Z.of_nat R)) ->
    runs_to (fun st' => pre R st' /\ frame inner_ws st st') (exec ext02 inner_loop st).
  Proof.
    intros st P Hmax. rewrite inner_loop_eq, exec_for.
    assert (Hit : eval ext02 inner_iter st = Ok (VList (zrange 1 (Z.of_nat R + 1))) st).
    { unfold inner_iter, inner_loop, mist_branch, body_if, loop_body, er_loop. cbn [seq_drop]. cbv iota. ev. reflexivity. }
    rewrite Hit. cbn [bind iter_items container_items]. rewrite zrange_1.
    apply (inner_run R 0 st); [lia|exact P].
  Qed.
End Inner.

