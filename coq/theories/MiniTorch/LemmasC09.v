(* MiniTorch, unit C09Src — algebra of the operations of OpsC09 on tabulated tensors (no axioms). *)
From Coq Require Import List ZArith Bool Arith Lia String ZifyBool ZifyNat.
From PV Require Import MiniPy.Syntax MiniTorch.Ops MiniTorch.OpsC09.
Import ListNotations.
Local Open Scope nat_scope.

(* ---- tabulation ------------------------------------------------------------------------------- *)
Section Tab.
  Context {X : Type}.

  Lemma tab1_length n (f : nat -> X) : List.length (tab1 n f) = n.
  Proof. unfold tab1. now rewrite map_length, seq_length. Qed.

  Lemma nth_tab1 n (f : nat -> X) d i : i < n -> nth i (tab1 n f) d = f i.
  Proof.
    intros H. unfold tab1. rewrite (nth_indep _ d (f 0)) by now rewrite map_length, seq_length.
    rewrite map_nth, seq_nth by assumption. reflexivity.
  Qed.

  Lemma tab1_ext n (f g : nat -> X) : (forall i, i < n -> f i = g i) -> tab1 n f = tab1 n g.
  Proof. intros H. unfold tab1. apply map_ext_in. intros i Hi. apply in_seq in Hi. apply H. lia. Qed.

  Lemma flat_map_ext_seq {Y} (g h : nat -> list Y) s n :
    (forall i, s <= i < s + n -> g i = h i) -> flat_map g (seq s n) = flat_map h (seq s n).
  Proof.
    revert s. induction n as [|n IH]; intros s H; [reflexivity|]. cbn [seq flat_map].
    rewrite H by lia. f_equal. apply IH. intros i Hi. apply H. lia.
  Qed.

  Lemma tab2_ext n m (f g : nat -> nat -> X) :
    (forall i j, i < n -> j < m -> f i j = g i j) -> tab2 n m f = tab2 n m g.
  Proof. intros H. unfold tab2. apply flat_map_ext_seq. intros i Hi. apply tab1_ext. intros j Hj. apply H; lia. Qed.

  Lemma tab3_ext n m k (f g : nat -> nat -> nat -> X) :
    (forall i j l, i < n -> j < m -> l < k -> f i j l = g i j l) -> tab3 n m k f = tab3 n m k g.
  Proof. intros H. unfold tab3. apply flat_map_ext_seq. intros i Hi. apply tab2_ext. intros j l Hj Hl. apply H; lia. Qed.

  Lemma flat_map_length_seq {Y} (g : nat -> list Y) m s n :
    (forall i, List.length (g i) = m) -> List.length (flat_map g (seq s n)) = n * m.
  Proof.
    intros H. revert s. induction n as [|n IH]; intros s; [reflexivity|]. cbn [seq flat_map].
    rewrite app_length, H, IH. reflexivity.
  Qed.

  Lemma tab2_length n m (f : nat -> nat -> X) : List.length (tab2 n m f) = n * m.
  Proof. unfold tab2. apply flat_map_length_seq. intros. apply tab1_length. Qed.

  Lemma tab3_length n m k (f : nat -> nat -> nat -> X) : List.length (tab3 n m k f) = n * (m * k).
  Proof. unfold tab3. apply flat_map_length_seq. intros. apply tab2_length. Qed.

  (* the (i*m + j)-th element of n consecutive blocks of length m *)
  Lemma nth_flat_map_seq (g : nat -> list X) m d :
    (forall i, List.length (g i) = m) ->
    forall n s i j, i < n -> j < m -> nth (i * m + j) (flat_map g (seq s n)) d = nth j (g (s + i)) d.
  Proof.
    intros Hg. induction n as [|n IH]; intros s i j Hi Hj; [lia|]. cbn [seq flat_map].
    destruct i as [|i].
    - rewrite app_nth1 by (rewrite Hg; lia). now rewrite Nat.add_0_r.
    - rewrite app_nth2 by (rewrite Hg; lia). rewrite Hg.
      replace (S i * m + j - m) with (i * m + j) by lia. rewrite IH by lia. f_equal. f_equal. lia.
  Qed.

  Lemma at2_tab2 n m (f : nat -> nat -> X) d i j : i < n -> j < m -> at2 d m (tab2 n m f) i j = f i j.
  Proof.
    intros Hi Hj. unfold at2, tab2.
    rewrite (nth_flat_map_seq (fun i => tab1 m (f i)) m d) by (intros; apply tab1_length) || assumption.
    now rewrite nth_tab1.
  Qed.

  Lemma at3_tab3 n m k (f : nat -> nat -> nat -> X) d i j l :
    i < n -> j < m -> l < k -> at3 d m k (tab3 n m k f) i j l = f i j l.
  Proof.
    intros Hi Hj Hl. unfold at3, tab3.
    replace ((i * m + j) * k + l) with (i * (m * k) + (j * k + l)) by lia.
    assert (j * k + l < m * k) by nia.
    rewrite (nth_flat_map_seq (fun i => tab2 m k (f i)) (m * k) d) by (intros; apply tab2_length) || assumption.
    cbn [Nat.add]. apply (at2_tab2 m k (f i) d j l Hj Hl).
  Qed.

  (* a (n, m, 1) block read as (n, m) *)
  Lemma at3_tab2_last n m (f : nat -> nat -> X) d i j : i < n -> j < m -> at3 d m 1 (tab2 n m f) i j 0 = f i j.
  Proof. intros Hi Hj. unfold at3. rewrite Nat.mul_1_r, Nat.add_0_r. now apply at2_tab2. Qed.

  (* a (n, 1, 1) block read as (n) *)
  Lemma at3_tab1_n11 n (f : nat -> X) d i : i < n -> at3 d 1 1 (tab1 n f) i 0 0 = f i.
  Proof. intros Hi. unfold at3. rewrite !Nat.mul_1_r, !Nat.add_0_r. now apply nth_tab1. Qed.

  Lemma map_tab1 {Y} (g : X -> Y) n f : map g (tab1 n f) = tab1 n (fun i => g (f i)).
  Proof. unfold tab1. now rewrite map_map. Qed.

  Lemma map_flat_map {Y Z0} (g : Y -> Z0) (h : nat -> list Y) l : map g (flat_map h l) = flat_map (fun i => map g (h i)) l.
  Proof. induction l as [|a l IH]; [reflexivity|]. cbn. now rewrite map_app, IH. Qed.

  Lemma map_tab2 {Y} (g : X -> Y) n m f : map g (tab2 n m f) = tab2 n m (fun i j => g (f i j)).
  Proof. unfold tab2. rewrite map_flat_map. apply flat_map_ext. intros i. apply map_tab1. Qed.

  Lemma map_tab3 {Y} (g : X -> Y) n m k f : map g (tab3 n m k f) = tab3 n m k (fun i j l => g (f i j l)).
  Proof. unfold tab3. rewrite map_flat_map. apply flat_map_ext. intros i. apply map_tab2. Qed.

  Lemma firstn_tab1 k n (f : nat -> X) : firstn k (tab1 n f) = tab1 (Nat.min k n) f.
  Proof.
    unfold tab1. rewrite firstn_map. f_equal. revert k. generalize 0. induction n as [|n IH]; intros s k.
    - now rewrite Nat.min_0_r, firstn_nil.
    - destruct k; [reflexivity|]. cbn [seq firstn Nat.min]. now rewrite IH.
  Qed.

  Lemma repeat_tab1 (v : X) n : repeat v n = tab1 n (fun _ => v).
  Proof. unfold tab1. generalize 0. induction n as [|n IH]; intros s; [reflexivity|]. cbn. now rewrite (IH (S s)). Qed.

  Lemma repeat_mul (v : X) n m : repeat v (n * m) = flat_map (fun _ => repeat v m) (seq 0 n).
  Proof.
    generalize 0. induction n as [|n IH]; intros s; [reflexivity|]. cbn [Nat.mul seq flat_map].
    now rewrite repeat_app, (IH (S s)).
  Qed.

  Lemma full_3 n m k (v : X) : full [n; m; k] v = mkTn [n; m; k] (tab3 n m k (fun _ _ _ => v)).
  Proof.
    unfold full. f_equal. cbn [numel]. rewrite Nat.mul_1_r. unfold tab3, tab2. rewrite repeat_mul.
    apply flat_map_ext. intros _. rewrite repeat_mul. apply flat_map_ext. intros _. apply repeat_tab1.
  Qed.
End Tab.

Lemma zipw_map {X Y W A} (f : X -> Y -> W) (g : A -> X) (h : A -> Y) l :
  zipw f (map g l) (map h l) = map (fun a => f (g a) (h a)) l.
Proof. induction l as [|a l IH]; [reflexivity|]. cbn. now rewrite IH. Qed.

Lemma zipw_app {X Y W} (f : X -> Y -> W) a1 a2 b1 b2 :
  List.length a1 = List.length b1 -> zipw f (a1 ++ a2) (b1 ++ b2) = zipw f a1 b1 ++ zipw f a2 b2.
Proof.
  revert b1. induction a1 as [|x a1 IH]; intros [|y b1] H; try discriminate; [reflexivity|].
  cbn. rewrite IH by (cbn in H; lia). reflexivity.
Qed.

Lemma zipw_tab1 {X Y W} (f : X -> Y -> W) n a b : zipw f (tab1 n a) (tab1 n b) = tab1 n (fun i => f (a i) (b i)).
Proof. apply zipw_map. Qed.

Lemma zipw_flat_map {X Y W} (f : X -> Y -> W) (g : nat -> list X) (h : nat -> list Y) l :
  (forall i, List.length (g i) = List.length (h i)) ->
  zipw f (flat_map g l) (flat_map h l) = flat_map (fun i => zipw f (g i) (h i)) l.
Proof. intros H. induction l as [|a l IH]; [reflexivity|]. cbn. now rewrite zipw_app, IH. Qed.

Lemma zipw_tab2 {X Y W} (f : X -> Y -> W) n m a b :
  zipw f (tab2 n m a) (tab2 n m b) = tab2 n m (fun i j => f (a i j) (b i j)).
Proof.
  unfold tab2. rewrite zipw_flat_map by (intros; now rewrite !tab1_length).
  apply flat_map_ext. intros i. apply zipw_tab1.
Qed.

Lemma zipw_tab3 {X Y W} (f : X -> Y -> W) n m k a b :
  zipw f (tab3 n m k a) (tab3 n m k b) = tab3 n m k (fun i j l => f (a i j l) (b i j l)).
Proof.
  unfold tab3. rewrite zipw_flat_map by (intros; now rewrite !tab2_length).
  apply flat_map_ext. intros i. apply zipw_tab2.
Qed.

Lemma nats_eqb_refl s : nats_eqb s s = true.
Proof. induction s as [|a s IH]; [reflexivity|]. cbn. now rewrite Nat.eqb_refl, IH. Qed.

Lemma forallb_tab3 {X} (p : X -> bool) n m k f :
  (forall i j l, i < n -> j < m -> l < k -> p (f i j l) = true) -> forallb p (tab3 n m k f) = true.
Proof.
  intros H. apply forallb_forall. intros x Hx. unfold tab3 in Hx. apply in_flat_map in Hx as (i & Hi & Hx).
  unfold tab2 in Hx. apply in_flat_map in Hx as (j & Hj & Hx). unfold tab1 in Hx. apply in_map_iff in Hx as (l & <- & Hl).
  apply in_seq in Hi, Hj, Hl. apply H; lia.
Qed.

(* ---- shape-only operations ------------------------------------------------------------------------ *)
Lemma unsqueeze_1_1 {X} n (d : list X) : unsqueeze (mkTn [n] d) 1 = Some (mkTn [n; 1] d).
Proof. reflexivity. Qed.
Lemma unsqueeze_2_2 {X} n m (d : list X) : unsqueeze (mkTn [n; m] d) 2 = Some (mkTn [n; m; 1] d).
Proof. reflexivity. Qed.
Lemma unsqueeze_3_m1 {X} n m k (d : list X) : unsqueeze (mkTn [n; m; k] d) (-1) = Some (mkTn [n; m; k; 1] d).
Proof. reflexivity. Qed.
Lemma flatten_4_2 {X} n m k (d : list X) : flatten_from (mkTn [n; m; k; 1] d) 2 = Some (mkTn [n; m; k] d).
Proof. unfold flatten_from. cbn. change (Pos.to_nat 2) with 2. cbn. repeat f_equal. lia. Qed.

Lemma view_n11 {X} n (d : list X) : view (mkTn [n] d) [n; 1; 1] = Some (mkTn [n; 1; 1] d).
Proof. unfold view. cbn [shp numel]. replace (n * (1 * (1 * 1))) with (n * 1) by lia. now rewrite Nat.eqb_refl. Qed.
Lemma view_same {X} s (d : list X) : view (mkTn s d) s = Some (mkTn s d).
Proof. unfold view. cbn [shp]. now rewrite Nat.eqb_refl. Qed.

Lemma xidx_lt a i : i < a -> xidx a i = i.
Proof. intros H. unfold xidx. destruct (a =? 1) eqn:E; [|reflexivity]. apply Nat.eqb_eq in E. lia. Qed.

Lemma xdim_ok_refl a : xdim_ok a a = true.
Proof. unfold xdim_ok. now rewrite Nat.eqb_refl. Qed.
Lemma xdim_ok_1 n : xdim_ok 1 n = true.
Proof. unfold xdim_ok. cbn. apply orb_true_r. Qed.

(* (n, m, 1) -> (n, m, k) *)
Lemma expand3_last {X} (d : X) n m k f :
  expand3 d (mkTn [n; m; 1] (tab2 n m f)) [n; m; k] = Some (mkTn [n; m; k] (tab3 n m k (fun i j _ => f i j))).
Proof.
  unfold expand3. cbn [shp dat]. rewrite !xdim_ok_refl, xdim_ok_1. cbn [andb]. f_equal. f_equal.
  apply tab3_ext. intros i j l Hi Hj Hl. rewrite (xidx_lt n i), (xidx_lt m j) by assumption. change (xidx 1 l) with 0. now apply at3_tab2_last.
Qed.

(* (n, 1, k) -> (n, m, k) *)
Lemma expand3_mid {X} (d : X) n m k f :
  expand3 d (mkTn [n; 1; k] (tab3 n 1 k f)) [n; m; k] = Some (mkTn [n; m; k] (tab3 n m k (fun i _ l => f i 0 l))).
Proof.
  unfold expand3. cbn [shp dat]. rewrite !xdim_ok_refl, xdim_ok_1. cbn [andb]. f_equal. f_equal.
  apply tab3_ext. intros i j l Hi Hj Hl. rewrite (xidx_lt n i), (xidx_lt k l) by assumption. change (xidx 1 j) with 0. apply at3_tab3; lia.
Qed.

(* (n, 1, 1) -> (n, m, k) *)
Lemma expand3_n11 {X} (d : X) n m k f :
  expand3 d (mkTn [n; 1; 1] (tab1 n f)) [n; m; k] = Some (mkTn [n; m; k] (tab3 n m k (fun i _ _ => f i))).
Proof.
  unfold expand3. cbn [shp dat]. rewrite !xdim_ok_refl, !xdim_ok_1. cbn [andb]. f_equal. f_equal.
  apply tab3_ext. intros i j l Hi Hj Hl. rewrite (xidx_lt n i) by assumption. change (xidx 1 j) with 0. change (xidx 1 l) with 0. now apply at3_tab1_n11.
Qed.

(* nothing to expand *)
Lemma expand3_id {X} (d : X) n m k f :
  expand3 d (mkTn [n; m; k] (tab3 n m k f)) [n; m; k] = Some (mkTn [n; m; k] (tab3 n m k f)).
Proof.
  unfold expand3. cbn [shp dat]. rewrite !xdim_ok_refl. cbn [andb]. f_equal. f_equal.
  apply tab3_ext. intros i j l Hi Hj Hl. rewrite !xidx_lt by assumption. now apply at3_tab3.
Qed.

Lemma slice1_tab1 {X} n (f : nat -> X) k : slice1 (mkTn [n] (tab1 n f)) k = Some (mkTn [Nat.min k n] (tab1 (Nat.min k n) f)).
Proof. unfold slice1. cbn [shp dat]. now rewrite firstn_tab1. Qed.

Lemma slice3_1_tab3 {X} (d : X) n m c f k :
  slice3_1 d (mkTn [n; m; c] (tab3 n m c f)) k = Some (mkTn [n; Nat.min k m; c] (tab3 n (Nat.min k m) c f)).
Proof.
  unfold slice3_1. cbn [shp dat]. f_equal. f_equal. apply tab3_ext. intros i j l Hi Hj Hl. apply at3_tab3; lia.
Qed.

Lemma tab2_2 {X} m (f : nat -> nat -> X) : tab2 2 m f = tab1 m (f 0) ++ tab1 m (f 1).
Proof. unfold tab2. cbn. now rewrite app_nil_r. Qed.

Lemma select0_tab2_0 {X} m (f : nat -> nat -> X) : select0 (mkTn [2; m] (tab2 2 m f)) 0 = Some (mkTn [m] (tab1 m (f 0))).
Proof.
  unfold select0. cbn [shp dat Nat.ltb Nat.leb Nat.mul skipn]. rewrite tab2_2.
  rewrite firstn_app, tab1_length, Nat.sub_diag, firstn_all2 by (rewrite tab1_length; lia). cbn. now rewrite app_nil_r.
Qed.

Lemma select0_tab2_1 {X} m (f : nat -> nat -> X) : select0 (mkTn [2; m] (tab2 2 m f)) 1 = Some (mkTn [m] (tab1 m (f 1))).
Proof.
  unfold select0. cbn [shp dat Nat.ltb Nat.leb Nat.mul]. rewrite Nat.add_0_r, tab2_2.
  rewrite skipn_app, tab1_length, Nat.sub_diag, skipn_all2 by (rewrite tab1_length; lia). cbn [skipn app].
  now rewrite firstn_all2 by (rewrite tab1_length; lia).
Qed.

(* ---- integer tensors ---------------------------------------------------------------------------------- *)
Lemma arange_nat n : arange (Z.of_nat n) = Some (mkTn [n] (tab1 n Z.of_nat)).
Proof. unfold arange. replace (Z.of_nat n <? 0)%Z with false by lia. now rewrite Nat2Z.id. Qed.

Lemma ew2_same1 {X Y W} (f : X -> Y -> W) dx dy n a b :
  ew2 f dx dy (mkTn [n] (tab1 n a)) (mkTn [n] (tab1 n b)) = Some (mkTn [n] (tab1 n (fun i => f (a i) (b i)))).
Proof. unfold ew2. cbn [shp dat nats_eqb]. rewrite Nat.eqb_refl. cbn [andb]. now rewrite zipw_tab1. Qed.

Lemma ew2_outer {X Y W} (f : X -> Y -> W) dx dy n w a b :
  ew2 f dx dy (mkTn [n; 1] (tab1 n a)) (mkTn [w] (tab1 w b)) = Some (mkTn [n; w] (tab2 n w (fun i j => f (a i) (b j)))).
Proof.
  unfold ew2. cbn [shp dat]. f_equal. f_equal. apply tab2_ext. intros i j Hi Hj. now rewrite !nth_tab1.
Qed.

Lemma ew_s_tab1 {X Y W} (f : X -> Y -> W) s n a c : ew_s f (mkTn s (tab1 n a)) c = mkTn s (tab1 n (fun i => f (a i) c)).
Proof. unfold ew_s. cbn [shp dat]. now rewrite map_tab1. Qed.

Lemma ew_s_tab2 {X Y W} (f : X -> Y -> W) s n m a c :
  ew_s f (mkTn s (tab2 n m a)) c = mkTn s (tab2 n m (fun i j => f (a i j) c)).
Proof. unfold ew_s. cbn [shp dat]. now rewrite map_tab2. Qed.

Lemma clamp_min_tab2 s n m a c : clamp_min (mkTn s (tab2 n m a)) c = mkTn s (tab2 n m (fun i j => Z.max c (a i j))).
Proof. unfold clamp_min. cbn [shp dat]. now rewrite map_tab2. Qed.

Lemma fold_left_zmax_of_nat l a :
  fold_left Z.max (map Z.of_nat l) (Z.of_nat a) = Z.of_nat (fold_left Nat.max l a).
Proof. revert a. induction l as [|b l IH]; intros a; [reflexivity|]. cbn. rewrite <- Nat2Z.inj_max. apply IH. Qed.

Lemma fold_left_max_list_max l a : fold_left Nat.max l a = Nat.max a (list_max l).
Proof.
  revert a. induction l as [|b l IH]; intros a; cbn [fold_left list_max fold_right]; [lia|].
  rewrite IH. fold (list_max l). lia.
Qed.

Lemma max_all_nat n (a : nat -> Z) (g : nat -> nat) :
  (forall i, i < n -> a i = Z.of_nat (g i)) ->
  max_all (mkTn [n] (tab1 n a)) =
  match n with 0 => None | _ => Some (mkTn [] [Z.of_nat (list_max (map g (seq 0 n)))]) end.
Proof.
  intros H. rewrite (tab1_ext n a (fun i => Z.of_nat (g i)) H). destruct n as [|n]; [reflexivity|].
  unfold max_all, tab1. cbn [dat seq map]. rewrite <- map_map, fold_left_zmax_of_nat, fold_left_max_list_max.
  cbn [list_max fold_right]. reflexivity.
Qed.

Lemma sum0_tab2_2 m (f : nat -> nat -> Z) :
  sum0 (mkTn [2; m] (tab2 2 m f)) = Some (mkTn [m] (tab1 m (fun j => (f 0%nat j + (f 1%nat j + 0))%Z))).
Proof.
  unfold sum0. cbn [shp dat seq map fold_right]. f_equal. f_equal. apply tab1_ext. intros j Hj.
  rewrite !at2_tab2 by lia. reflexivity.
Qed.

(* ---- boolean tensors ------------------------------------------------------------------------------------ *)
Lemma bnot_tab3 s n m k f : bnot (mkTn s (tab3 n m k f)) = mkTn s (tab3 n m k (fun i j l => negb (f i j l))).
Proof. unfold bnot. cbn [shp dat]. now rewrite map_tab3. Qed.

Lemma band_tab3 s n m k f g :
  band (mkTn s (tab3 n m k f)) (mkTn s (tab3 n m k g)) = Some (mkTn s (tab3 n m k (fun i j l => f i j l && g i j l))).
Proof. unfold band. cbn [shp dat]. now rewrite nats_eqb_refl, zipw_tab3. Qed.

Lemma any_true_tab1 s n f : any_true (mkTn s (tab1 n f)) = existsb f (seq 0 n).
Proof. unfold any_true, tab1. cbn [dat]. induction (seq 0 n) as [|a l IH]; [reflexivity|]. cbn. now rewrite IH. Qed.

(* ---- gather / masked_select / masked_scatter --------------------------------------------------------------- *)
Lemma gather1_tab {X} (d : X) n t f w xf (g : nat -> nat -> nat -> Z) :
  (forall i j l, i < n -> j < w -> l < f -> (0 <= g i j l < Z.of_nat t)%Z) ->
  gather1 d (mkTn [n; t; f] (tab3 n t f xf)) (mkTn [n; w; f] (tab3 n w f g))
  = Some (mkTn [n; w; f] (tab3 n w f (fun i j l => xf i (Z.to_nat (g i j l)) l))).
Proof.
  intros H. unfold gather1. cbn [shp dat]. rewrite !Nat.eqb_refl. cbn [andb].
  rewrite forallb_tab3 by (intros i j l Hi Hj Hl; specialize (H i j l Hi Hj Hl); lia).
  f_equal. f_equal. apply tab3_ext. intros i j l Hi Hj Hl. rewrite (at3_tab3 n w f g) by assumption.
  apply at3_tab3; try assumption. specialize (H i j l Hi Hj Hl). lia.
Qed.

Lemma masked_select_same {X} s (x : list X) m :
  masked_select (mkTn s x) (mkTn s m) = Some (mkTn [List.length (mselect m x)] (mselect m x)).
Proof. unfold masked_select. cbn [shp dat]. now rewrite nats_eqb_refl. Qed.

Lemma masked_scatter_same {X} s (x : list X) m src :
  masked_scatter (mkTn s x) (mkTn s m) src = Some (option_map (mkTn s) (mscatter m x (dat src))).
Proof. unfold masked_scatter. cbn [shp dat]. now rewrite nats_eqb_refl. Qed.

(* ---- encodings -------------------------------------------------------------------------------------------- *)
Lemma dec_nats_enc s : dec_nats (enc_shape s) = Some s.
Proof.
  induction s as [|n s IH]; [reflexivity|]. cbn [enc_shape map dec_nats]. fold (enc_shape s).
  replace (0 <=? Z.of_nat n)%Z with true by lia. now rewrite IH, Nat2Z.id.
Qed.

Lemma dec_bools_enc l : dec_bools (map VBool l) = Some l.
Proof. induction l as [|b l IH]; [reflexivity|]. cbn. now rewrite IH. Qed.

Lemma dec_ints_enc l : dec_ints (map VInt l) = Some l.
Proof. induction l as [|b l IH]; [reflexivity|]. cbn. now rewrite IH. Qed.

Lemma dec_any_enc_b t : dec_any (enc_b t) = Some (TB t).
Proof. destruct t as [s d]. unfold dec_any, enc_b. cbn [shp dat]. now rewrite dec_nats_enc, dec_bools_enc. Qed.

Lemma dec_any_enc_i t : dec_any (enc_i t) = Some (TI t).
Proof. destruct t as [s d]. unfold dec_any, enc_i. cbn [shp dat]. now rewrite dec_nats_enc, dec_ints_enc. Qed.

Lemma dec_any_enc_p t : dec_any (enc_p t) = Some (TP t).
Proof. destruct t as [s d]. unfold dec_any, enc_p. cbn [shp dat]. now rewrite dec_nats_enc. Qed.

Lemma dec_any_ints z l : dec_any (VTuple (VInt z :: l)) = None.
Proof. reflexivity. Qed.
