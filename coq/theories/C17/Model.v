(* C17 - command-line conversions (src/pydrobert/torch/command_line.py).

   Executable model of what the commands do between the file formats (C11: read_trn_iter, read_ctm,
   read_textgrid, write_trn, write_ctm, write_textgrid, transcript_to_token, token_to_transcript) and
   the directories of tensors: file selection by prefix / suffix (_DirectoryDataset and the
   os.listdir filters), output names, the *_do_work functions, the unordered pool
   (_multiprocessor_pattern_generator), the batched error-rate accumulation, sub-setting and the
   pooled statistics.  No proofs in this file.

   A directory is an association list  file name |-> content  in os.listdir order (which is
   arbitrary: every theorem is stated for any listing order).  A stored tensor is a vector or a
   matrix of integers (dtype is not modelled; features are integer valued in the correspondence).
   Not modelled: argparse, the text of messages, warnings, return codes other than success /
   the exception class raised, the TextGrid writer below its call (C11, known finding K5). *)
From Coq Require Import List ZArith Bool QArith Qround Qabs Arith.
From PV Require Import C11.Model C01.Spec.
Import ListNotations.
Local Open Scope Z_scope.

(* ---- outcomes --------------------------------------------------------------------------------- *)
(* ERc: the command prints a message and returns 1 *)
Inductive err := EValue | EZeroDiv | EType | EKey | EIndex | ERuntime | EOS | EAttr | ERc.
Inductive out (A : Type) := Done (a : A) | Fail (e : err).
Arguments Done {A} a.
Arguments Fail {A} e.

Definition of_exn (e : exn) : err :=
  match e with
  | IOError => EOS | ValueError => EValue | KeyError => EKey
  | IndexError => EIndex | TypeError => EType
  end.

Definition of_res {A} (r : res A) : out A :=
  match r with Ok a => Done a | Raise e => Fail (of_exn e) end.

Fixpoint map_out {A B} (f : A -> out B) (l : list A) : out (list B) :=
  match l with
  | [] => Done []
  | x :: t => match f x with
              | Fail e => Fail e
              | Done y => match map_out f t with Fail e => Fail e | Done ys => Done (y :: ys) end
              end
  end.

(* ---- strings: str.startswith / str.endswith / slicing ------------------------------------------ *)
Fixpoint starts_with (p x : str) : bool :=
  match p, x with
  | [], _ => true
  | a :: p', b :: x' => (a =? b) && starts_with p' x'
  | _ :: _, [] => false
  end.

Definition ends_with (s x : str) : bool := starts_with (rev s) (rev x).

(* "x.startswith(file_prefix) and x.endswith(file_suffix)" *)
Definition selected (pre suf x : str) : bool := starts_with pre x && ends_with suf x.

(* x[len(prefix) : len(x) - len(suffix)]  (empty when the bounds cross) *)
Definition utt_of (pre suf x : str) : str :=
  firstn (length x - length suf - length pre) (skipn (length pre) x).

(* file_prefix + utt_id + file_suffix *)
Definition fname (pre suf u : str) : str := pre ++ u ++ suf.

Definition str_leb : str -> str -> bool := leb_of str_cmp.

(* ---- directories ------------------------------------------------------------------------------- *)
Definition gdir (A : Type) := list (str * A).

Definition dir_get {A} (d : gdir A) (n : str) : option A := assoc str_eqb n d.

(* torch.save / shutil.copy onto a path: overwrite in place, or a new entry *)
Fixpoint dir_put {A} (n : str) (v : A) (d : gdir A) : gdir A :=
  match d with
  | [] => [(n, v)]
  | (m, w) :: t => if str_eqb n m then (m, v) :: t else (m, w) :: dir_put n v t
  end.

Definition listdir {A} (d : gdir A) : list str := map fst d.

(* _DirectoryDataset.utt_ids *)
Definition utt_ids {A} (pre suf : str) (d : gdir A) : list str :=
  sort_by str_leb (map (utt_of pre suf) (filter (selected pre suf) (listdir d))).

Inductive tensor := Vec (v : list Z) | Mat (w : nat) (rows : list (list Z)).
Definition dir := gdir tensor.

(* Tensor.size(0) *)
Definition tlen (t : tensor) : Z :=
  match t with Vec v => Z.of_nat (length v) | Mat _ rows => Z.of_nat (length rows) end.

(* ---- the pool ------------------------------------------------------------------------------------ *)
(* _multiprocessor_pattern_generator: num_workers = 0 runs do_work over the items in order.
   Otherwise Pool.imap_unordered: the items are cut into chunks, the chunks are taken by the workers
   and complete in some order; [order] lists the item indices in the order in which their do_work
   calls take effect (any permutation: every interleaving of chunks is one). *)
Definition reorder {I} (order : list nat) (items : list I) : list I :=
  flat_map (fun i => match nth_error items i with Some x => [x] | None => [] end) order.

Definition pool_items {I} (workers : nat) (order : list nat) (items : list I) : list I :=
  match workers with O => items | S _ => reorder order items end.

(* do_work with a side effect on the output directory; the first exception ends the command *)
Fixpoint run_effects {I A} (f : I -> gdir A -> out (gdir A)) (items : list I) (d : gdir A)
  : out (gdir A) :=
  match items with
  | [] => Done d
  | x :: t => match f x d with Done d' => run_effects f t d' | Fail e => Fail e end
  end.

(* do_work returning a value; the results in completion order *)
Definition run_values {I R} (f : I -> out R) (items : list I) : out (list R) := map_out f items.

(* ====================================================================================== *)
(* transcripts -> token directory  (_save_transcripts_to_dir_do_work)                      *)
(* ====================================================================================== *)

Definition row3 := (Z * Z * Z)%type.

(* skip_frame_times -> shape (R,); feat_sizing -> (R, 1) via unsqueeze(-1); else (R, 3) *)
Definition tok_tensor (skip featsz : bool) (rows : list row3) : tensor :=
  if featsz then Mat 1 (map (fun r : row3 => [fst (fst r)]) rows)
  else if skip then Vec (map (fun r : row3 => fst (fst r)) rows)
  else Mat 3 (map (fun r : row3 => let '(i, s, e) := r in [i; s; e]) rows).

(* an item of the iterator handed to the pool: a (basename, transcript) pair, or the exception the
   generator raises when it gets there *)
Definition save_transcript (t2i : list (tk * Z)) (fs : option Q) (unk : option tk)
  (skip featsz : bool) (it : out (str * list item)) (d : dir) : out dir :=
  match it with
  | Fail e => Fail e
  | Done (base, tr) =>
      match transcript_to_token tr (Some t2i) fs unk (skip || featsz) with
      | Raise e => Fail (of_exn e)
      | Ok rows => Done (dir_put base (tok_tensor skip featsz rows) d)
      end
  end.

(* trn_to_torch_token_data_dir.error_handling_iter.  "first": an alternate is replaced by its first
   branch, pushed back in front of the rest (so alternates nested in it are flattened as well). *)
Inductive alt_handler := AltError | AltFirst.

Fixpoint first_branch (x : elem) : list str :=
  match x with
  | Tok t => [t]
  | Alt brs =>
      match brs with
      | [] => []
      | b :: _ => (fix go (l : list elem) : list str :=
                     match l with [] => [] | y :: t => first_branch y ++ go t end) b
      end
  end.

Definition is_tok (x : elem) : bool := match x with Tok _ => true | Alt _ => false end.

Definition trn_item (h : alt_handler) (pre suf : str) (ut : str * list elem)
  : out (str * list item) :=
  match h with
  | AltError =>
      if forallb is_tok (snd ut)
      then Done (fname pre suf (fst ut), map (fun t => Plain (TStr t)) (flat_map first_branch (snd ut)))
      else Fail EValue
  | AltFirst =>
      Done (fname pre suf (fst ut), map (fun t => Plain (TStr t)) (flat_map first_branch (snd ut)))
  end.

(* a generator dies with its first exception: nothing after it is ever produced *)
Fixpoint upto_fail {A} (l : list (out A)) : list (out A) :=
  match l with
  | [] => []
  | Done x :: t => Done x :: upto_fail t
  | Fail e :: _ => [Fail e]
  end.

Definition trn_to_dir (h : alt_handler) (pre suf : str) (t2i : list (tk * Z)) (unk : option tk)
  (skip featsz : bool) (workers : nat) (order : list nat) (ts : list (str * list elem)) (d : dir)
  : out dir :=
  run_effects (save_transcript t2i None unk skip featsz)
              (pool_items workers order (upto_fail (map (trn_item h pre suf) ts))) d.

(* ctm_to_torch_token_data_dir: read_ctm's (utt, [(token, start, end)]) in its order *)
Definition timed_item (x : str * Q * Q) : item := let '(t, s, e) := x in Timed (TStr t) s e.

Definition ctm_to_dir (pre suf : str) (t2i : list (tk * Z)) (fs : option Q) (unk : option tk)
  (skip featsz : bool) (workers : nat) (order : list nat) (ts : list (str * list (str * Q * Q)))
  (d : dir) : out dir :=
  run_effects (save_transcript t2i fs unk skip featsz)
    (pool_items workers order
       (map (fun ut => Done (fname pre suf (fst ut), map timed_item (snd ut))) ts)) d.

(* textgrids_to_torch_token_data_dir.textgrid_iter: the TextGrid files are those that start with the
   file prefix and end with the TextGrid suffix; the output name keeps the prefix and swaps the
   suffix.  [tgs] = file name |-> what read_textgrid returned for it (or the exception). *)
Definition tg_basename (tgsuf suf x : str) : str := firstn (length x - length tgsuf) x ++ suf.

Definition tg_to_dir (pre suf tgsuf : str) (t2i : list (tk * Z)) (fs : option Q) (unk : option tk)
  (skip featsz : bool) (workers : nat) (order : list nat)
  (tgs : gdir (out (list (str * Q * Q)))) (d : dir) : out dir :=
  run_effects (save_transcript t2i fs unk skip featsz)
    (pool_items workers order
       (upto_fail
          (map (fun nt : str * out (list (str * Q * Q)) =>
                  match snd nt with
                  | Fail e => Fail e
                  | Done tr => Done (tg_basename tgsuf suf (fst nt), map timed_item tr)
                  end)
               (filter (fun nt => selected pre tgsuf (fst nt)) tgs)))) d.

(* ====================================================================================== *)
(* token directory -> transcripts  (_TranscriptDataSet, _load_transcripts_from_data_dir)    *)
(* ====================================================================================== *)

(* what token_to_transcript sees in each row: a 0-dim element, or a row whose first entry is the id
   and, when it has exactly three entries, the boundaries *)
Definition rows_of (t : tensor) : out (list row3) :=
  match t with
  | Vec v => Done (map (fun i => (i, -1, -1)) v)
  | Mat _ rows =>
      map_out (fun r => match r with
                        | [] => Fail EIndex
                        | [i; s; e] => Done (i, s, e)
                        | i :: _ => Done (i, -1, -1)
                        end) rows
  end.

Definition item_tk (a : item) : tk := match a with Plain t => t | Timed t _ _ => t end.
Definition is_int (t : tk) : bool := match t with TInt _ => true | TStr _ => false end.

(* _TranscriptDataSet.__getitem__: strip the times on request; an id left as an int although an
   id2token map was given is an error *)
Definition load_transcript (i2t : option (list (Z * tk))) (fs : option Q) (strip : bool)
  (t : tensor) : out (list item) :=
  match rows_of t with
  | Fail e => Fail e
  | Done rows =>
      let tr := token_to_transcript rows i2t fs in
      match i2t with
      | Some _ => if existsb (fun a => is_int (item_tk a)) tr then Fail EValue
                  else Done (if strip then map (fun a => Plain (item_tk a)) tr else tr)
      | None => Done (if strip then map (fun a => Plain (item_tk a)) tr else tr)
      end
  end.

(* the data loader yields the utterances in sorted order whatever num_workers is *)
Definition load_dir (i2t : option (list (Z * tk))) (pre suf : str) (fs : option Q) (strip : bool)
  (d : dir) : out (list (str * list item)) :=
  map_out (fun u => match dir_get d (fname pre suf u) with
                    | None => Fail EOS
                    | Some t => match load_transcript i2t fs strip t with
                                | Fail e => Fail e
                                | Done tr => Done (u, tr)
                                end
                    end) (utt_ids pre suf d).

(* torch_token_data_dir_to_trn: what is handed to write_trn *)
Definition dir_to_trn (i2t : list (Z * tk)) (pre suf : str) (d : dir) : out (list (str * list item)) :=
  load_dir (Some i2t) pre suf None true d.

(* torch_token_data_dir_to_ctm: what is handed to write_ctm (with utt2wc / the channel) *)
Definition dir_to_ctm (i2t : list (Z * tk)) (pre suf : str) (fs : option Q) (d : dir)
  : out (list (str * list item)) :=
  load_dir (Some i2t) pre suf fs false d.

(* ====================================================================================== *)
(* alignments <-> token segments                                                           *)
(* ====================================================================================== *)

(* Tensor.unique_consecutive(return_counts=True) *)
Fixpoint rle (l : list Z) : list (Z * Z) :=
  match l with
  | [] => []
  | x :: t => match rle t with
              | (y, c) :: r => if x =? y then (y, c + 1) :: r else (x, 1) :: (y, c) :: r
              | [] => [(x, 1)]
              end
  end.

(* cat([0], c).cumsum(0); start = c[:-1]; end = c[1:]; stack([tok, start, end], -1) *)
Fixpoint segs (start : Z) (runs : list (Z * Z)) : list (list Z) :=
  match runs with
  | [] => []
  | (v, c) :: t => [v; start; start + c] :: segs (start + c) t
  end.

(* _torch_ali_dir_to_torch_token_dir_do_work *)
Definition ref_of_ali (t : tensor) : out tensor :=
  match t with
  | Vec v => Done (Mat 3 (segs 0 (rle v)))
  | Mat _ _ => Fail ERuntime       (* not a per-frame alignment; not exercised *)
  end.

Definition row_tok (r : list Z) : Z := nth 0 r 0.
Definition row_start (r : list Z) : Z := nth 1 r 0.
Definition row_end (r : list Z) : Z := nth 2 r 0.

Fixpoint contiguous_rows (rows : list (list Z)) : bool :=
  match rows with
  | a :: ((b :: _) as t) => (row_end a =? row_start b) && contiguous_rows t
  | _ => true
  end.

(* torch.repeat_interleave(ref[:, 0], ref[:, 2] - ref[:, 1]) *)
Definition expand_rows (rows : list (list Z)) : list Z :=
  flat_map (fun r => repeat (row_tok r) (Z.to_nat (row_end r - row_start r))) rows.

(* _torch_token_data_dir_to_torch_ali_dir_do_work; [T] = feat.size(0) when --feat-dir is given *)
Definition ali_of_ref (T : option Z) (t : tensor) : out tensor :=
  match t with
  | Vec _ => Fail EValue
  | Mat w rows =>
      if negb (Nat.eqb w 3) || match rows with [] => true | _ => false end then Fail EValue
      else if existsb (fun r => (row_start r <? 0) || (row_end r <? 0)) rows then Fail EValue
      else if negb (row_start (hd [] rows) =? 0) then Fail EValue
      else if negb (contiguous_rows rows) then Fail EValue
      else if match T with Some n => negb (row_end (last rows []) =? n) | None => false end
      then Fail EValue
      else if existsb (fun r => row_end r <? row_start r) rows then Fail ERuntime
      else Done (Vec (expand_rows rows))
  end.

Definition ali_to_ref_dir (pre suf : str) (workers : nat) (order : list nat) (src dst : dir)
  : out dir :=
  run_effects (fun n d => match dir_get src n with
                          | None => Fail EOS
                          | Some t => match ref_of_ali t with
                                      | Done r => Done (dir_put n r d)
                                      | Fail e => Fail e
                                      end
                          end)
              (pool_items workers order (filter (selected pre suf) (listdir src))) dst.

(* the feature file is loaded after the four shape / boundary checks and before the length check *)
Definition ali_of_ref_feat (feats : option dir) (n : str) (t : tensor) : out tensor :=
  match feats with
  | None => ali_of_ref None t
  | Some fd =>
      match ali_of_ref None t with
      | Fail EValue => Fail EValue
      | _ => match dir_get fd n with
             | None => Fail EOS
             | Some f => ali_of_ref (Some (tlen f)) t
             end
      end
  end.

Definition ref_to_ali_dir (pre suf : str) (feats : option dir) (workers : nat) (order : list nat)
  (src dst : dir) : out dir :=
  run_effects (fun n d =>
                 match dir_get src n with
                 | None => Fail EOS
                 | Some t => match ali_of_ref_feat feats n t with
                             | Done a => Done (dir_put n a d)
                             | Fail e => Fail e
                             end
                 end)
              (pool_items workers order (filter (selected pre suf) (listdir src))) dst.

(* ====================================================================================== *)
(* error rates                                                                             *)
(* ====================================================================================== *)

Definition utts := list (str * list tk).

(* the loop that pairs references and hypotheses (both sorted by utterance id) *)
Fixpoint pair_up (fuel : nat) (warn_missing : bool) (refs hyps : utts) : out (utts * utts) :=
  match fuel with
  | O => Done ([], [])
  | S f =>
      let skip (r h : utts) := if warn_missing then pair_up f warn_missing r h else Fail EValue in
      match refs, hyps with
      | [], [] => Done ([], [])
      | [], _ :: hs => skip [] hs
      | _ :: rs, [] => skip rs []
      | r :: rs, h :: hs =>
          if str_ltb (fst r) (fst h) then skip rs hyps
          else if str_ltb (fst h) (fst r) then skip refs hs
          else match pair_up f warn_missing rs hs with
               | Fail e => Fail e
               | Done (a, b) => Done (r :: a, h :: b)
               end
      end
  end.

(* replace.get(t, t) *)
Definition apply_replace (rep : list (tk * tk)) (t : tk) : tk :=
  match assoc tk_eqb t rep with Some r => r | None => t end.

Definition ignored (ign : list tk) (t : tk) : bool := existsb (tk_eqb t) ign.

(* token2id = defaultdict(get_idee): the table of tokens seen so far, a token's id is its position *)
Fixpoint index_of (t : tk) (tbl : list tk) : option nat :=
  match tbl with
  | [] => None
  | x :: r => if tk_eqb t x then Some O else option_map S (index_of t r)
  end.

Definition get_id (tbl : list tk) (t : tk) : list tk * Z :=
  match index_of t tbl with
  | Some i => (tbl, Z.of_nat i)
  | None => (tbl ++ [t], Z.of_nat (length tbl))
  end.

(* [token2id[replace.get(t, t)] for t in transcript if replace.get(t, t) not in ignore] *)
Fixpoint ids_of (rep : list (tk * tk)) (ign : list tk) (tbl : list tk) (tr : list tk)
  : list tk * list Z :=
  match tr with
  | [] => (tbl, [])
  | t :: rest =>
      let t' := apply_replace rep t in
      if ignored ign t' then ids_of rep ign tbl rest
      else let '(tbl1, i) := get_id tbl t' in
           let '(tbl2, r) := ids_of rep ign tbl1 rest in (tbl2, i :: r)
  end.

Fixpoint ids_of_list (rep : list (tk * tk)) (ign : list tk) (tbl : list tk) (trs : list (list tk))
  : list tk * list (list Z) :=
  match trs with
  | [] => (tbl, [])
  | tr :: rest =>
      let '(tbl1, i) := ids_of rep ign tbl tr in
      let '(tbl2, r) := ids_of_list rep ign tbl1 rest in (tbl2, i :: r)
  end.

(* one utterance's line of the accumulation: (utt, edits, denominator) *)
Definition er_row := (str * Z * Z)%type.

(* [edits k r h] = what error_rate(norm=False) returns for the k-th pair (k counts pairs over the
   whole run): the number of edits of an optimal alignment under the chosen costs.  The padded batch
   (eos = -1 after each sequence, -2 padding, ids >= 0) denotes exactly the id sequences. *)
Section ErrorRates.
  Variable edits : nat -> list Z -> list Z -> Z.
  Variables (rep : list (tk * tk)) (ign : list tk).
  Variable distances : bool.

  (* denom = 1 if distances else len(transcript); a zero denominator is kept as 0 here: the printed
     per-utterance figure is then "0 if no edits else 1" (error_rate's norm convention) *)
  Fixpoint er_rows (pos : nat) (us : list str) (rs hs : list (list Z)) : list er_row :=
    match us, rs, hs with
    | u :: us', r :: rs', h :: hs' =>
        (u, edits pos r h, if distances then 1 else Z.of_nat (length r))
          :: er_rows (S pos) us' rs' hs'
    | _, _, _ => []
    end.

  Fixpoint er_batches (fuel : nat) (bs : nat) (pos : nat) (tbl : list tk) (refs hyps : utts)
    : list er_row :=
    match fuel with
    | O => []
    | S f =>
        match refs with
        | [] => []
        | _ :: _ =>
            let br := firstn bs refs in
            let bh := firstn bs hyps in
            let '(tbl1, rids) := ids_of_list rep ign tbl (map snd br) in
            let '(tbl2, hids) := ids_of_list rep ign tbl1 (map snd bh) in
            er_rows pos (map fst br) rids hids
              ++ er_batches f bs (pos + length br) tbl2 (skipn bs refs) (skipn bs hyps)
        end
    end.
End ErrorRates.

Inductive er_result := PerUtt (rows : list er_row) | Total (num den : Z).

Definition sumZ (l : list Z) : Z := fold_right Z.add 0 l.

Record er_opts := mkEr
  { eo_warn_missing : bool; eo_distances : bool; eo_per_utt : bool; eo_batch : nat;
    eo_rep : list (tk * tk); eo_ign : list tk }.

Definition tokens_of (l : list (str * list item)) : utts :=
  map (fun ut => (fst ut, map item_tk (snd ut))) l.

(* compute_torch_token_data_dir_error_rates after argument parsing *)
Definition error_rates (edits : nat -> list Z -> list Z -> Z) (o : er_opts)
  (i2t : option (list (Z * tk))) (pre suf : str) (ref_dir hyp_dir : dir) : out er_result :=
  match load_dir i2t pre suf None true ref_dir with
  | Fail e => Fail e
  | Done refs0 =>
      match load_dir i2t pre suf None true hyp_dir with
      | Fail e => Fail e
      | Done hyps0 =>
          match pair_up (S (length refs0 + length hyps0)) (eo_warn_missing o)
                        (tokens_of refs0) (tokens_of hyps0) with
          | Fail e => Fail e
          | Done (refs, hyps) =>
              let rows := er_batches edits (eo_rep o) (eo_ign o) (eo_distances o)
                                     (S (length refs)) (eo_batch o) 0 [] refs hyps in
              if eo_per_utt o then Done (PerUtt rows)
              else
                let num := sumZ (map (fun r : er_row => snd (fst r)) rows) in
                let den := if eo_distances o then Z.of_nat (length rows)
                           else sumZ (map (fun r : er_row => snd r) rows) in
                if den =? 0 then Fail EZeroDiv else Done (Total num den)
          end
      end
  end.

(* ====================================================================================== *)
(* subset_torch_spect_data_dir                                                             *)
(* ====================================================================================== *)

Inductive crit :=
| UttList (l : list str)          (* --utt-list / --utt-list-file *)
| FirstN (n : nat) | FirstR (r : Q)
| LastN (n : nat) | LastR (r : Q)
| ShortN (n : nat) | ShortR (r : Q)
| LongN (n : nat) | LongR (r : Q)
| RandN (n : nat) (perm : list nat)     (* perm: what random.shuffle does to positions under --seed *)
| RandR (r : Q) (perm : list nat).

(* int(len(all_utt_ids) * ratio) for a ratio in [0, 1] (exact for the dyadic ratios used) *)
Definition ratio_n (len : nat) (r : Q) : nat := Z.to_nat (Qfloor (inject_Z (Z.of_nat len) * r)).

Definition len_utt_leb (a b : Z * str) : bool :=
  match Z.compare (fst a) (fst b) with
  | Lt => true | Gt => false | Eq => str_leb (snd a) (snd b)
  end.

Section Subset.
  Context {A : Type}.
  Variable size0 : A -> Z.      (* Tensor.size(0) of a stored file *)

  Record sds := mkSds { s_feat : gdir A; s_ali : option (gdir A); s_ref : option (gdir A) }.

  (* the (length, utt) pairs the data loader collects, in utt order *)
  Definition len_pairs (pre suf : str) (d : gdir A) : list (Z * str) :=
    flat_map (fun u => match dir_get d (fname pre suf u) with
                       | Some x => [(size0 x, u)]
                       | None => []
                       end) (utt_ids pre suf d).

  Definition choose (c : crit) (pre suf : str) (d : gdir A) : list str :=
    let ids := utt_ids pre suf d in
    let n := length ids in
    match c with
    | UttList l => filter (fun x => existsb (str_eqb x) ids) l
    | FirstN k => firstn k ids
    | FirstR r => firstn (ratio_n n r) ids
    | LastN k => firstn k (rev ids)                     (* all_utt_ids.sort(reverse=True) *)
    | LastR r => firstn (ratio_n n r) (rev ids)
    | ShortN k => firstn k (map snd (sort_by len_utt_leb (len_pairs pre suf d)))
    | ShortR r => firstn (ratio_n n r) (map snd (sort_by len_utt_leb (len_pairs pre suf d)))
    | LongN k =>
        firstn k (map snd (sort_by len_utt_leb
                             (map (fun p : Z * str => (- fst p, snd p)) (len_pairs pre suf d))))
    | LongR r =>
        firstn (ratio_n n r)
               (map snd (sort_by len_utt_leb
                           (map (fun p : Z * str => (- fst p, snd p)) (len_pairs pre suf d))))
    | RandN k perm => firstn k (reorder perm ids)
    | RandR r perm => firstn (ratio_n n r) (reorder perm ids)
    end.

  (* _copy_spect_data_dir_do_work on one sub-directory *)
  Definition copy_into (src : gdir A) (base : str) (dst : gdir A) : gdir A :=
    match dir_get src base with Some x => dir_put base x dst | None => dst end.

  Definition copy_opt (src : option (gdir A)) (base : str) (dst : option (gdir A))
    : option (gdir A) :=
    match src, dst with Some s, Some d => Some (copy_into s base d) | _, _ => dst end.

  Definition copy_work (src : sds) (base : str) (dst : sds) : sds :=
    mkSds (copy_into (s_feat src) base (s_feat dst))
          (copy_opt (s_ali src) base (s_ali dst))
          (copy_opt (s_ref src) base (s_ref dst)).

  (* os.makedirs of the destination and of the sub-directories the source has; existing
     destination content is given *)
  Definition subset (c : crit) (pre suf : str) (workers : nat) (order : list nat)
    (src dst0 : sds) : sds :=
    fold_left (fun d base => copy_work src base d)
              (pool_items workers order (map (fname pre suf) (choose c pre suf (s_feat src)))) dst0.
End Subset.

Arguments sds A : clear implicits.
Arguments mkSds {A} _ _ _.

(* ====================================================================================== *)
(* length moments                                                                          *)
(* ====================================================================================== *)

Definition mom := (Z * Z * Z)%type.      (* sum, sum of squares, count *)

Definition mom_of (lens : list Z) : mom :=
  (sumZ lens, sumZ (map (fun x => x * x) lens), Z.of_nat (length lens)).

Definition mom_add (a b : mom) : mom :=
  let '(s, ss, c) := a in let '(s', ss', c') := b in (s + s', ss + ss', c + c').

Definition excluded (excl : option (list Z)) (v : Z) : bool :=
  match excl with None => false | Some l => existsb (Z.eqb v) l end.

(* _print_torch_ali_data_dir_length_moments *)
Definition ali_moments (excl : option (list Z)) (t : tensor) : mom :=
  match t with
  | Vec v => mom_of (map snd (filter (fun vc : Z * Z => negb (excluded excl (fst vc))) (rle v)))
  | Mat _ _ => (0, 0, 0)
  end.

(* _print_torch_ref_data_dir_length_moments: (moments, is there an error message) *)
Definition ref_moments (excl : option (list Z)) (t : tensor) : mom * bool :=
  match t with
  | Mat 3 rows =>
      let valid r := (0 <=? row_start r) && (row_start r <=? row_end r) in
      let keep r := negb (excluded excl (row_tok r)) in
      (mom_of (map (fun r => row_end r - row_start r) (filter (fun r => valid r && keep r) rows)),
       existsb (fun r => negb (valid r) && keep r) rows)
  | _ => ((0, 0, 0), true)
  end.

Definition ali_dir_moments (pre suf : str) (excl : option (list Z)) (workers : nat)
  (order : list nat) (d : dir) : out mom :=
  match run_values (fun n => match dir_get d n with
                             | Some t => Done (ali_moments excl t)
                             | None => Fail EOS
                             end)
                   (pool_items workers order (filter (selected pre suf) (listdir d))) with
  | Fail e => Fail e
  | Done ms => Done (fold_left mom_add ms (0, 0, 0))
  end.

(* utt ids are cut out of the names and the names rebuilt; --strict raises at the first message *)
Definition ref_dir_moments (pre suf : str) (excl : option (list Z)) (strict : bool) (workers : nat)
  (order : list nat) (d : dir) : out mom :=
  match run_values (fun u => match dir_get d (fname pre suf u) with
                             | Some t => let '(m, bad) := ref_moments excl t in
                                         if bad && strict then Fail EValue else Done m
                             | None => Fail EOS
                             end)
                   (pool_items workers order
                      (map (utt_of pre suf) (filter (selected pre suf) (listdir d)))) with
  | Fail e => Fail e
  | Done ms => Done (fold_left mom_add ms (0, 0, 0))
  end.

(* ====================================================================================== *)
(* compute_mvn_stats_for_torch_feat_data_dir  (feature axis = last axis of a (T, F) matrix)  *)
(* ====================================================================================== *)

Fixpoint vadd (a b : list Z) : list Z :=
  match a, b with x :: a', y :: b' => (x + y) :: vadd a' b' | _, _ => [] end.

Definition stats := (Z * list Z * list Z)%type.    (* count, sum, sumsq per coefficient *)

(* MeanVarianceNormalization.accumulate on one matrix *)
Definition accumulate (w : nat) (rows : list (list Z)) (st : option stats) : stats :=
  let '(c, s, q) := match st with Some x => x | None => (0, repeat 0 w, repeat 0 w) end in
  (c + Z.of_nat (length rows),
   fold_left vadd rows s,
   fold_left (fun acc r => vadd acc (map (fun x => x * x) r)) rows q).

(* gid2mvn: the groups in the order of their first listing in --id2gid (one anonymous group
   without); each utterance of the (sorted) data set is accumulated into its group *)
Fixpoint upd {V} (k : option str) (f : option V -> V) (d : list (option str * option V))
  : list (option str * option V) :=
  match d with
  | [] => []
  | (k', v) :: t =>
      if match k, k' with
         | None, None => true | Some a, Some b => str_eqb a b | _, _ => false end
      then (k', Some (f v)) :: t else (k', v) :: upd k f t
  end.

Definition mvn_groups (id2gid : option (list (str * str))) : list (option str * option stats) :=
  match id2gid with
  | None => [(None, None)]
  | Some m => fold_left (fun acc g => if existsb (fun kv => match fst kv with
                                                           | Some g' => str_eqb g g'
                                                           | None => false end) acc
                                      then acc else acc ++ [(Some g, None)])
                        (map snd m) []
  end.

Definition mvn_stats (pre suf : str) (id2gid : option (list (str * str))) (d : dir)
  : out (list (option str * option stats)) :=
  fold_left (fun acc u =>
               match acc with
               | Fail e => Fail e
               | Done gs =>
                   match (match id2gid with
                          | None => Done None
                          | Some m => match assoc str_eqb u m with
                                      | Some g => Done (Some g)
                                      | None => Fail ERc       (* "was not listed": return 1 *)
                                      end
                          end) with
                   | Fail e => Fail e
                   | Done g =>
                       match dir_get d (fname pre suf u) with
                       | Some (Mat w rows) => Done (upd g (accumulate w rows) gs)
                       | _ => Fail EOS
                       end
                   end
               end) (utt_ids pre suf d) (Done (mvn_groups id2gid)).

(* "for gid, mvn in gid2mvn.items()": a group without data is skipped (the anonymous one: return 1);
   MeanVarianceNormalization.store raises RuntimeError below two accumulated vectors *)
Fixpoint mvn_finish (gs : list (option str * option stats)) : out (list (option str * stats)) :=
  match gs with
  | [] => Done []
  | (g, None) :: t => match g with None => Fail ERc | Some _ => mvn_finish t end
  | (g, Some st) :: t =>
      if fst (fst st) <? 2 then Fail ERuntime
      else match mvn_finish t with Fail e => Fail e | Done r => Done ((g, st) :: r) end
  end.

Definition mvn_command (pre suf : str) (id2gid : option (list (str * str))) (d : dir)
  : out (list (option str * stats)) :=
  match mvn_stats pre suf id2gid d with Fail e => Fail e | Done gs => mvn_finish gs end.

(* ====================================================================================== *)
(* correspondence entry points (bool)                                                      *)
(* ====================================================================================== *)

Definition err_eqb (a b : err) : bool :=
  match a, b with
  | EValue, EValue | EZeroDiv, EZeroDiv | EType, EType | EKey, EKey | EIndex, EIndex
  | ERuntime, ERuntime | EOS, EOS | EAttr, EAttr | ERc, ERc => true
  | _, _ => false
  end.

Definition out_eqb {A} (eqb : A -> A -> bool) (a b : out A) : bool :=
  match a, b with
  | Done x, Done y => eqb x y
  | Fail e, Fail f => err_eqb e f
  | _, _ => false
  end.

Definition lz_eqb : list Z -> list Z -> bool := list_eqb Z.eqb.

Definition tensor_eqb (a b : tensor) : bool :=
  match a, b with
  | Vec x, Vec y => lz_eqb x y
  | Mat w x, Mat w' y => Nat.eqb w w' && list_eqb lz_eqb x y
  | _, _ => false
  end.

Definition name_leb {A} (a b : str * A) : bool := str_leb (fst a) (fst b).

(* directories are compared as maps: sorted by name *)
Definition gdir_eqb {A} (eqb : A -> A -> bool) (a b : gdir A) : bool :=
  list_eqb (fun x y => str_eqb (fst x) (fst y) && eqb (snd x) (snd y))
           (sort_by name_leb a) (sort_by name_leb b).

Definition dir_eqb : dir -> dir -> bool := gdir_eqb tensor_eqb.

Definition check_dir (model impl : out dir) : bool := out_eqb dir_eqb model impl.

Definition transcripts_eqb (a b : list (str * list item)) : bool :=
  list_eqb (fun x y => str_eqb (fst x) (fst y) && list_eqb item_eqb (snd x) (snd y)) a b.

Definition check_transcripts (model impl : out (list (str * list item))) : bool :=
  out_eqb transcripts_eqb model impl.

(* printed floats come back as exact rationals: q must be the double nearest to num/den, checked as
   |q * den - num| <= 2^-52 * num  (num, den >= 0) *)
Definition ratio_ok (num den : Z) (q : Q) : bool :=
  if den =? 0 then Qeq_bool q (if 0 <? num then 1 else 0)
  else Qle_bool (Qabs (q * inject_Z den - inject_Z num)) (inject_Z num * (1 # 4503599627370496))%Q.

Fixpoint forall2b {A B} (f : A -> B -> bool) (a : list A) (b : list B) : bool :=
  match a, b with
  | [], [] => true
  | x :: a', y :: b' => f x y && forall2b f a' b'
  | _, _ => false
  end.

Inductive er_obs := ObsPerUtt (rows : list (str * Q)) | ObsTotal (q : Q).

Definition er_result_ok (m : er_result) (o : er_obs) : bool :=
  match m, o with
  | PerUtt rows, ObsPerUtt qs =>
      forall2b (fun (r : er_row) (uq : str * Q) =>
                  str_eqb (fst (fst r)) (fst uq) && ratio_ok (snd (fst r)) (snd r) (snd uq)) rows qs
  | Total n d, ObsTotal q => ratio_ok n d q
  | _, _ => false
  end.

Definition check_er (model : out er_result) (impl : out er_obs) : bool :=
  match model, impl with
  | Done m, Done o => er_result_ok m o
  | Fail e, Fail f => err_eqb e f
  | _, _ => false
  end.

Definition unit_edits (_ : nat) (r h : list Z) : Z := lev 1 1 1 r h.
Definition table_edits (tbl : list Z) (k : nat) (_ _ : list Z) : Z := nth k tbl 0.

Definition mom_eqb (a b : mom) : bool :=
  let '(s, ss, c) := a in let '(s', ss', c') := b in (s =? s') && (ss =? ss') && (c =? c').

Definition check_mom (model impl : out mom) : bool := out_eqb mom_eqb model impl.

Definition sds_eqb {A} (eqb : A -> A -> bool) (a b : sds A) : bool :=
  let oeq x y := match x, y with
                 | Some p, Some q => gdir_eqb eqb p q
                 | None, None => true
                 | _, _ => false
                 end in
  gdir_eqb eqb (s_feat a) (s_feat b) && oeq (s_ali a) (s_ali b) && oeq (s_ref a) (s_ref b).

(* a stored file in the subset check: (size(0), content id) *)
Definition check_subset (c : crit) (pre suf : str) (workers : nat) (order : list nat)
  (src dst0 impl : sds (Z * Z)) : bool :=
  sds_eqb (fun x y => (fst x =? fst y) && (snd x =? snd y))
          (subset fst c pre suf workers order src dst0) impl.

(* mean and std as computed in float64 from exact integer sums: tolerance 1e-9 relative *)
Definition close (a b : Q) : bool :=
  Qle_bool (Qabs (a - b)) ((1 # 1000000000) * (1 + Qabs b))%Q.

Definition qmean (c s : Z) : Q := (inject_Z s / inject_Z c)%Q.
Definition qvar (bessel : bool) (c s q : Z) : Q :=
  let v := (inject_Z q / inject_Z c - qmean c s * qmean c s)%Q in
  let v := if Qle_bool v 0 then 0%Q else v in
  if bessel then (v * (inject_Z c / inject_Z (c - 1)))%Q else v.

Fixpoint forall3b {A B C} (f : A -> B -> C -> bool) (a : list A) (b : list B) (c : list C) : bool :=
  match a, b, c with
  | [], [], [] => true
  | x :: a', y :: b', z :: c' => f x y z && forall3b f a' b' c'
  | _, _, _ => false
  end.

Definition stats_ok (bessel : bool) (st : stats) (mean std : list Q) : bool :=
  let '(c, s, q) := st in
  forall3b (fun si qi (ms : Q * Q) =>
              close (fst ms) (qmean c si) && close (snd ms * snd ms)%Q (qvar bessel c si qi))
           s q (combine mean std) && Nat.eqb (length mean) (length std).

Definition ostr_eqb (a b : option str) : bool :=
  match a, b with Some x, Some y => str_eqb x y | None, None => true | _, _ => false end.

Definition check_mvn (bessel : bool) (model : out (list (option str * stats)))
  (impl : out (list (option str * (list Q * list Q)))) : bool :=
  match model, impl with
  | Done m, Done o =>
      forall2b (fun (a : option str * stats) (b : option str * (list Q * list Q)) =>
                  ostr_eqb (fst a) (fst b) && stats_ok bessel (snd a) (fst (snd b)) (snd (snd b))) m o
  | Fail e, Fail f => err_eqb e f
  | _, _ => false
  end.

(* times compared with a tolerance (seconds = frames * shift / 1000 is formed in floating point) *)
Definition item_close (a b : item) : bool :=
  match a, b with
  | Plain x, Plain y => tk_eqb x y
  | Timed x s e, Timed y s' e' => tk_eqb x y && close s s' && close e e'
  | _, _ => false
  end.

Definition check_transcripts_tol (model impl : out (list (str * list item))) : bool :=
  out_eqb (fun a b => forall2b (fun x y => str_eqb (fst x) (fst y) && forall2b item_close (snd x) (snd y)) a b)
          model impl.

(* both sides failed (real pools: which exception comes first is not observable) *)
Definition both_fail {A B} (model : out A) (impl : out B) : bool :=
  match model, impl with Fail _, Fail _ => true | _, _ => false end.
