#!/bin/sh
# developer tool: verify seeded changes with THIS tree's harness (usable from a vp run snapshot)
# usage: verify_batch.sh "Cnn:seed-id:srcdir:tests" ...
H=$(cd "$(dirname "$0")" && pwd)
mkdir -p $H/../.work
for spec in "$@"; do
  p=$(echo "$spec" | cut -d: -f1); s=$(echo "$spec" | cut -d: -f2); d=$(echo "$spec" | cut -d: -f3); t=$(echo "$spec" | cut -d: -f4)
  /venv/bin/python $H/verify_seed.py $p $d $s --tests "$t" > $H/../.work/vs_$s.log 2>&1
  python3 - "$H/../seeded/$s/meta.json" $s <<'PY'
import json,sys
try:
    m=json.load(open(sys.argv[1]))
    print(sys.argv[2],'valid',m['valid_seed'],'caught',m.get('caught'),'concrete',m.get('caught_with_concrete_input'),'exit',m.get('check_exit'),[l[:100] for l in m.get('check_lines',[])][-2:])
except Exception as e:
    print(sys.argv[2],'NO META',e)
PY
done
