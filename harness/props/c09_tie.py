"""C09 — second source tie, harness side (notes/C09_tie_report.md, section "Second tie"): runs the TRANSLATED SOURCE of
`chunk_by_slices` and `pad_masked_sequence` (PV.Gen.C09BSrc, interpreted by PV.MiniPy.Interp with the torch calls given the
meaning of PV.MiniTorch.OpsC09 / OpsC09B through PV.C09.SrcRunB.ext09b) inside Coq on (a sample of) this run's chunk and masked
cases and compares with what the implementation did.  This validates translator + interpreter + ext09b + op semantics against
CPython/torch on every run and still works when the TieB*.v lemmas no longer compile."""
import json
import time

from vlib import CoqError, cb, cl, coq_eval_bools

SRC_TIE_B_THEOREMS = ["c09_source_masked_is_model_bf", "c09_source_masked_is_model_nbf", "c09_source_masked_rows_bf",
                      "c09_source_masked_rows_nbf", "c09_source_masked_refines_model", "c09_source_chunk_empty_batch",
                      "c09_source_chunk_bad_lens_raises", "c09_source_b_nonvacuous"]
# chunk_by_slices: translated whole and executed here on every run; its tie lemma is not proved (notes/C09_tie_report.md)
CAP = {"chunk": 700, "masked": 500}      # cases per api (evenly spaced sample beyond)
CELLS_CAP = 400                          # N*T*F above which a case is left to the differential check (vm_compute time)


def _imports(P):
    return P.IMPORTS + "From PV Require C09.SrcRunB.\n"


def chunk_term(P, case, out):
    a = P._args(case)
    code, impl = P._impl_term(case, out, True)
    return (f"SrcRunB.src_chunk_check {a['T']} {a['F']} {a['v']} {a['md']} {a['x']} {a['slices']} {a['lens']} "
            f"{code} {impl}")


def masked_term(P, case, out):
    # the same tensors, in the layout the implementation saw, as Model.check_masked is given them (c09.model_term)
    a = P._args(case)
    bf = case["batch_first"]
    x, m, o = case["x"], case["mask"], out
    if not bf:
        T, N = case["T"], case["N"]
        x = P._transpose(x) if N else [[] for _ in range(T)]
        m = P._transpose(m) if N else [[] for _ in range(T)]
        if out[0] == "ok":
            oc = P._transpose(out[1][0]) if N else [[] for _ in range(T)]
            o = ("ok", [oc, out[1][1]])
    code, impl = P._impl_term(case, o, True)
    mt = cl([cl([cb(b) for b in row]) for row in m])
    return f"SrcRunB.src_masked_check {a['N']} {a['T']} {a['F']} {a['v']} {cb(bf)} {P._tensor(x)} {mt} {code} {impl}"


def _eligible(P, c, o):
    if c.get("api") not in CAP or not (o[0] == "ok" or o[1] in (1, 2, 3)):
        return False
    if c["N"] * c["T"] * P._F(c) > CELLS_CAP:
        return False
    if c["api"] == "chunk":
        # the (N, 2) slices tensor and, when given, lens <= T (the encodings / the model's own domain)
        if len(c["slices"]) != c["N"] or any(len(s) != 2 for s in c["slices"]):
            return False
        if c["lens"] is not None and any(v < 0 for v in c["lens"]):
            return False
        # pads far beyond T make the output (and the interpreted run) large
        if any(max(abs(s), abs(e)) > 4 * c["T"] + 16 for s, e in c["slices"]):
            return False
    if c["api"] == "masked":
        if len(c["mask"]) != c["N"] or any(len(r) != c["T"] for r in c["mask"]):
            return False
    return True


def source_tieB(P, chk, cases, outs):
    """P: the props.c09 module (case -> Coq term helpers)"""
    info = {}
    for api, mk in (("chunk", chunk_term), ("masked", masked_term)):
        idx = [i for i, (c, o) in enumerate(zip(cases, outs)) if c.get("api") == api and _eligible(P, c, o)]
        total = len(idx)
        if total > CAP[api]:
            idx = sorted({idx[(k * (total - 1)) // (CAP[api] - 1)] for k in range(CAP[api])})
        if not idx:
            info[api] = {"cases": 0, "disagreements": 0}
            continue
        t0 = time.time()
        try:
            res = coq_eval_bools(chk.workdir, _imports(P), [mk(P, cases[i], outs[i]) for i in idx], shard=60, tag="srcb_" + api)
        except CoqError as e:
            info[api] = "not evaluated: " + str(e)[-400:]
            continue
        bad = [i for i, ok in zip(idx, res) if not ok]
        d = {"cases": len(idx), "of_cases": total, "disagreements": len(bad), "wall_s": round(time.time() - t0, 1),
             "N=0": sum(1 for i in idx if cases[i]["N"] == 0), "max_N": max(cases[i]["N"] for i in idx),
             "max_T": max(cases[i]["T"] for i in idx), "max_F": max(P._F(cases[i]) for i in idx)}
        if api == "chunk":
            for m in P.MODES:
                d["mode=" + m] = sum(1 for i in idx if cases[i]["mode"] == m)
            d["lens=None"] = sum(1 for i in idx if cases[i]["lens"] is None)
        else:
            d["batch_first"] = sum(1 for i in idx if cases[i]["batch_first"])
        for k, name in ((0, "ok"), (1, "ValueError"), (2, "RuntimeError"), (3, "NotImplementedError")):
            d["outcome=" + name] = sum(1 for i in idx if (0 if outs[i][0] == "ok" else outs[i][1]) == k)
        info[api] = d
        chk.count("source_tieB_cases:" + api, len(idx))
        if bad:
            i = min(bad, key=lambda k: len(json.dumps(cases[k])))
            fn = "chunk_by_slices" if api == "chunk" else "pad_masked_sequence"
            chk.report({"what": "the Python source of %s as translated to MiniPy and interpreted in Coq (PV.C09.SrcRunB, torch calls = "
                                "PV.MiniTorch.OpsC09 / OpsC09B) does not reproduce the implementation's outcome: translator / interpreter / "
                                "ext09b / MiniTorch no longer describe the code" % fn,
                        "disagreeing_cases": len(bad), "case": P._strip(cases[i]), "impl": outs[i],
                        "correspondence": "tie:C09:py2coq+MiniPy.Interp+MiniTorch:" + fn,
                        "theorems_at_stake": SRC_TIE_B_THEOREMS}, no_failing_input=True)
    chk.extra["source_tieB_run"] = info
    chk.extra["source_tieB"] = {"unit": "C09BSrc", "functions": ["chunk_by_slices", "pad_masked_sequence"],
                                "theorems": SRC_TIE_B_THEOREMS}
