(* MiniTorch, unit C20 - the meaning given to the torch operations that occur in the translated
   `GlobalSoftAttention.forward`, `GlobalSoftAttention.check_input`, `DotProductSoftAttention.score`
   and `GeneralizedDotProductSoftAttention.score` (_attn.py), and the encoding of their tensors as
   MiniPy values.  DEFINITIONS ONLY; the algebra is in LemmasC20.v.

   Tensors are OpsC07's (shape, row-major flat data) of ANY number of dimensions ([tn], shape in
   torch's order, outermost dimension first), over three element types:
     bool   (torch.bool)                                   tagged "$tensor.bool"   ([enc_b])
     Q      (a floating point tensor all of whose entries are finite; exact rationals)
     xq     (floating point: an exact rational or -inf)    both tagged "$tensor"   ([enc_q], [enc_f])
   +inf and NaN are NOT representable; IEEE rounding, dtypes, devices, strides and the aliasing of
   views are not modelled (DESIGN.md section 3).

   HOW THE N-D OPERATIONS ARE WRITTEN.  A flat tensor is read through torch's documented indexing
   semantics by [rd]: the element at multi-index (i_0, ..., i_(D-1)) of a tensor of shape
   (n_0, ..., n_(D-1)) is the entry (..(i_0 * n_1 + i_1) * n_2 ..) + i_(D-1) of the row-major data.
   Multi-indices and shapes are handled INNERMOST AXIS FIRST ("r-coordinates": the reverse of torch's
   order), because right-aligned broadcasting is then alignment at the heads of the lists.  The
   index vocabulary - [rfi] (row-major position), [renum] (all indices of a shape in row-major
   order), [clamp]/[bget] (reading under broadcasting: an axis of size 1 is read at 0, extra leading
   axes are dropped), [bshape] (torch.broadcast_shapes), [ins]/[del]/[setp] (insert / delete /
   replace one coordinate) - is the one of PV.C20.Model and is SHARED with it: the tie proves that
   the source composes these primitives (which axis is unsqueezed, summed, normalised; what is
   masked and when; how a negative dim is resolved) the way the model does, it does not validate the
   primitives themselves.  Those are validated against torch on every run, twice: by the
   correspondence check of the model and by [SrcRun.src_attend_check] (interpreted source vs torch).
   A result is always materialised ([mat]: row-major data of an index function), as torch does.

   Every operation returns [None] outside the domain stated with it; the unit's [ext] turns [None]
   into [Stuck] (fail-closed) unless the comment says that torch raises there and the ext raises too.
   Each definition quotes the sentence of the torch documentation (2.x) it models.  This file is
   TRUSTED by the C20 tie. *)
From Coq Require Import List ZArith QArith Bool Arith String.
From PV Require Import MiniPy.Syntax MiniTorch.Ops MiniTorch.OpsC07.
From PV Require C20.Model.
Import ListNotations.
Local Open Scope nat_scope.

(* ---- flat tensors <-> index functions ----------------------------------------------------------- *)
(* the tensor as an index function in r-coordinates; a position outside the buffer (impossible for
   a well-formed tensor: length data = product of the sizes) reads [d] *)
Definition rd {X} (d : X) (t : tn X) : Model.tensor X := Model.of_flat (rev (shp t)) (dat t) d.

(* materialise an index function: its elements in row-major order *)
Definition mat {X} (T : Model.tensor X) : tn X := mkTn (rev (Model.tshape T)) (Model.to_flat T).

(* a Python dimension argument of a D-dimensional tensor ("dim value within the range [-D, D)", a
   negative one counts from the end) as the r-position of that axis (0 = the last dimension) *)
Definition rpos (D : nat) (d : Z) : option nat := option_map (fun k => D - 1 - k) (wrap_dim D d).

(* ---- element-wise operations ---------------------------------------------------------------------- *)

(* `a * b` on two tensors = torch.mul(input, other): "Multiplies input by other", out_i = input_i x
   other_i, "Supports broadcasting to a common shape": "Two tensors are broadcastable if ... when
   iterating over the dimension sizes, starting at the trailing dimension, the dimension sizes must
   either be equal, one of them is 1, or one of them does not exist"; the result has the broadcast
   shape and each operand is read with its size-1 axes repeated.  Any number of dimensions.
   None: the shapes do not broadcast (torch raises RuntimeError) *)
Definition bzip {X Y W} (f : X -> Y -> W) (dx : X) (dy : Y) (a : tn X) (b : tn Y) : option (tn W) :=
  match Model.bshape (rev (shp a)) (rev (shp b)) with
  | Some s => Some (mat (Model.mkT s (fun i => f (Model.bget (rd dx a) i) (Model.bget (rd dy b) i))))
  | None => None
  end.

Definition mul (a b : tn Q) : option (tn Q) := bzip Qmult 0%Q 0%Q a b.

(* `x * c` with a tensor and a Python float: torch.mul, "other (Tensor or Number)": out_i = c x input_i,
   written input_i * c as the source writes it *)
Definition mul_s (x : tn Q) (c : Q) : tn Q := mkTn (shp x) (map (fun v => (v * c)%Q) (dat x)).

(* `~m` on a boolean tensor = torch.bitwise_not: "Computes the bitwise NOT of the given input tensor.
   ... For bool tensors, it computes the logical NOT." *)
Definition invert (m : tn bool) : tn bool := mkTn (shp m) (map negb (dat m)).

(* Tensor.masked_fill(mask, value) with value = -inf on a finite float tensor: "Fills elements of self
   tensor with value where mask is True.  The shape of mask must be broadcastable with the shape of
   the underlying tensor."  Modelled for a mask that EXPANDS TO THE SHAPE OF SELF (sizes equal or 1,
   possibly fewer dimensions): the result has self's shape.  (torch also accepts a mask that makes the
   result larger than self; that is outside the modelled domain: None.)  A position outside the mask's
   buffer - impossible for a well-formed tensor - reads True. *)
Definition masked_fill_ninf (x : tn Q) (m : tn bool) : option (tn xq) :=
  if Model.intob (rev (shp m)) (rev (shp x))
  then Some (mat (Model.mkT (rev (shp x))
                    (fun i => if Model.bget (rd true m) i then NInf else Fin (Model.tat (rd 0%Q x) i))))
  else None.

(* torch.ones(size, dtype=torch.bool): "Returns a tensor filled with the scalar value 1, with the shape
   defined by the variable argument size" (True for a boolean tensor); device= is ignored *)
Definition ones_bool (sh : list nat) : tn bool := mkTn sh (repeat true (numel sh)).

(* ---- operations along one dimension --------------------------------------------------------------- *)

(* Tensor.sum(dim) on a finite float tensor: "Returns the sum of each row of the input tensor in the
   given dimension dim. ... dim is squeezed ..., resulting in the output tensor having 1 fewer
   dimension".  The row is summed in index order with PV.C20.Model.qsum (exact; intermediate sums are
   kept free of common factors of two - the same rational value); an empty row sums to 0.
   None: dim outside [-rank, rank) (0-d tensors: not modelled) *)
Definition sum_dim (x : tn Q) (d : Z) : option (tn Q) :=
  match rpos (rank x) d with
  | Some p =>
      let s := rev (shp x) in
      Some (mat (Model.mkT (Model.del p s)
                   (fun j => Model.qsum (map (fun t => Model.tat (rd 0%Q x) (Model.ins p t j))
                                             (seq 0 (nth p s 0))))))
  | None => None
  end.

(* torch.nn.functional.softmax(input, dim): "Softmax is defined as Softmax(x_i) = exp(x_i) / sum_j
   exp(x_j).  It is applied to all slices along dim, and will re-scale them so that the elements lie
   in the range [0, 1] and sum to 1."  The exponential is the ORACLE [expf] (PV.C20.Model does the
   same: the theorems hold for every positive function; the correspondence supplies torch's float64
   values); exp(-inf) = 0.  torch subtracts the row maximum first - the same quotient in exact
   arithmetic.
   NOT modelled faithfully: a row ALL of whose entries are -inf is NaN in torch; here (as in
   PV.C20.Model) the quotient 0 / 0 is Coq's 0.  Such cells are outside the property ("at least one
   position kept") and are never compared ([Model.defined_at]).
   None: dim outside [-rank, rank) *)
Definition softmax (expf : Q -> Q) (x : tn xq) (d : Z) : option (tn Q) :=
  match rpos (rank x) d with
  | Some p =>
      let s := rev (shp x) in
      let w := fun i => match Model.tat (rd NInf x) i with Fin e => expf e | NInf => 0%Q end in
      let den := fun i => Model.qsum (map (fun t => w (Model.setp p t i)) (seq 0 (nth p s 0))) in
      Some (mat (Model.mkT s (fun i => (w i / den i)%Q)))
  | None => None
  end.

(* torch.nn.functional.linear(input, weight, bias): "Applies a linear transformation to the incoming
   data: y = x A^T + b.  Input: (*, in_features); Weight: (out_features, in_features); Bias:
   (out_features) or None; Output: (*, out_features)".  Each output entry is the dot product
   (PV.C20.Model.dotq: products summed in index order) of an input row with a weight row, plus the
   bias entry.  None: weight not 2-D, input 0-d, in_features or bias size mismatch (torch raises) *)
Definition linear (x w : tn Q) (b : option (tn Q)) : option (tn Q) :=
  match shp w, rev (shp x) with
  | [o; n], n' :: rest =>
      if (n =? n') && match b with None => true | Some bt => nats_eqb (shp bt) [o] end
      then Some (mat (Model.mkT (o :: rest)
                        (fun ci => match ci with
                                   | c :: i =>
                                       let y := Model.dotq (map (fun j => Model.tat (rd 0%Q x) (j :: i)) (seq 0 n))
                                                           (map (fun j => Model.tat (rd 0%Q w) [j; c]) (seq 0 n)) in
                                       match b with None => y | Some bt => (y + Model.tat (rd 0%Q bt) [c])%Q end
                                   | [] => 0%Q
                                   end)))
      else None
  | _, _ => None
  end.

(* ---- shapes ---------------------------------------------------------------------------------------- *)

(* torch.broadcast_shapes( *shapes) on two shapes: "Similar to broadcast_tensors() but for shapes ...
   Raises RuntimeError: If shapes are incompatible."  None = that RuntimeError *)
Definition broadcast_shapes (a b : list nat) : option (list nat) :=
  option_map (@rev nat) (Model.bshape (rev a) (rev b)).

(* ---- tensors as MiniPy values ----------------------------------------------------------------------- *)
(* a finite float tensor: the float tag, every entry a [VQ] *)
Definition enc_q (t : tn Q) : val := enc_f (mkTn (shp t) (map Fin (dat t))).

Definition val_q (v : val) : option Q := match v with VQ q => Some q | _ => None end.

Definition dec_with {X} (tag : string) (f : val -> option X) (v : val) : option (tn X) :=
  match v with
  | VTuple [VStr tg; VList sh; VList d] =>
      if String.eqb tg tag
      then match dec_nats sh, dec_list f d with
           | Some s, Some l => Some (mkTn s l)
           | _, _ => None
           end
      else None
  | _ => None
  end.

Definition dec_b : val -> option (tn bool) := dec_with tag_bool val_bool.
Definition dec_q : val -> option (tn Q) := dec_with tag_float val_q.        (* all entries finite *)
Definition dec_x : val -> option (tn xq) := dec_with tag_float val_xq.      (* finite or -inf *)

(* a shape as Python sees it: torch.Size, a tuple of ints *)
Definition shape_val (sh : list nat) : val := VTuple (map (fun n => VInt (Z.of_nat n)) sh).
