(* C12 — tie (part 2: `_write_hyp`) between the Python text of `_load_ref` / `_write_hyp` (src/pydrobert/torch/_datasets.py) and
   PV.C12.Model.load_ref / write_hyp, checked by the kernel.  PV.Gen.C12Src.load_ref_body / write_hyp_body are the
   MiniPy terms harness/py2coq/translate.py regenerates from /repo on every run; PV.MiniPy.Interp is their
   semantics; the torch calls mean what PV.MiniTorch.OpsC12 says (through SrcRun.ext12).  If the source is edited
   so that the statements below stop being true, this file stops compiling and the C12 check reports the broken
   obligation. *)
From Coq Require Import ZArith List String Bool Arith Lia ZifyBool.
From PV Require Import MiniPy.Syntax MiniPy.Interp MiniTorch.OpsC12 MiniTorch.LemmasC12 Gen.C12Src.
From PV Require Import C12.SrcRun C12.TieLib C12.TieModel.
From PV Require C12.Model.
Import ListNotations.
Local Open Scope string_scope.

#[local] Arguments enc12 : simpl never.
#[local] Arguments dec12 !v /.
#[local] Arguments T1 : simpl never.
#[local] Arguments T2 : simpl never.
#[local] Arguments NZ : simpl never.
#[local] Arguments new_full : simpl never.
#[local] Arguments cat : simpl never.
#[local] Arguments ndim : simpl never.
#[local] Arguments size : simpl never.
#[local] Arguments numel : simpl never.
#[local] Arguments select_col : simpl never.
#[local] Arguments set_item : simpl never.
#[local] Arguments get_item : simpl never.
#[local] Arguments item : simpl never.
#[local] Arguments unsqueeze : simpl never.
#[local] Arguments slice0 : simpl never.
#[local] Arguments nonzero : simpl never.
#[local] Arguments eq_scalar : simpl never.
#[local] Arguments cpu : simpl never.
#[local] Arguments long : simpl never.
#[local] Arguments then_ : simpl never.
#[local] Arguments Z.of_nat : simpl never.
#[local] Arguments torch_module : simpl never.
#[local] Arguments store : simpl never.
#[local] Arguments ext12 env f !args kw st /.
#[local] Arguments bind {A B} !o f /.
#[local] Arguments Z.add : simpl never.
#[local] Arguments hits : simpl never.
#[local] Arguments last : simpl never.
#[local] Arguments skipn : simpl never.
#[local] Arguments firstn : simpl never.

Lemma t_cuda_T1 : forall cu dt l, t_cuda (T1 cu dt l) = cu. Proof. reflexivity. Qed.
Lemma t_dtype_T1 : forall cu dt l, t_dtype (T1 cu dt l) = dt. Proof. reflexivity. Qed.
Lemma t_cuda_T2 : forall cu dt w r, t_cuda (T2 cu dt w r) = cu. Proof. reflexivity. Qed.
Lemma t_dtype_T2 : forall cu dt w r, t_dtype (T2 cu dt w r) = dt. Proof. reflexivity. Qed.
Lemma leb_0_of_nat : forall n, (0 <=? Z.of_nat n)%Z = true. Proof. intros. lia. Qed.

Ltac tstep :=
  cbn;
  change (Z.of_nat 3) with 3%Z; change (Z.of_nat 2) with 2%Z; change (Z.of_nat 1) with 1%Z; change (Z.of_nat 0) with 0%Z;
  change (Pos.to_nat 1) with 1%nat; change (Pos.to_nat 2) with 2%nat; change (Pos.to_nat 3) with 3%nat;
  rewrite ?method_enc12, ?attribute_enc12, ?foreign_enc12, ?subscript_enc12_int, ?subscript_enc12_tuple, ?isnot_none_enc12,
    ?is_none_enc12, ?dec12_enc12, ?on1_enc, ?ndim_T1, ?ndim_T2, ?size_T2_1, ?cat0_T1, ?cat0_T2,
    ?t_cuda_T1, ?t_dtype_T1, ?t_cuda_T2, ?t_dtype_T2, ?leb_0_of_nat, ?Nat2Z.id, ?select_col_T2_w0, ?set_item_T1_nil,
    ?cpu_T1, ?cpu_T2, ?long_T1, ?long_T2, ?eq_scalar_T1, ?nonzero_T1, ?numel_NZ, ?item_T1_1,
    ?get_item_NZ_first, ?get_item_NZ_last, ?of_nat_S_eqb_0, ?store_name.

Ltac open_seq := rewrite exec_seq'; match goal with |- context [then_ _ ?b] => let r := fresh "rest" in remember b as r end.
Ltac norm_state := unfold set_var; cbn [update vars events String.eqb Ascii.eqb Bool.eqb].
Ltac close_stmt := norm_state; rewrite then_normal; match goal with H : ?r = _ |- context [exec _ ?r _] => subst r end.
Ltac stmt := open_seq; repeat (progress tstep).

(* ================================================ _write_hyp ==================================================== *)
Lemma slice0_T1_from_z : forall cu dt l z, (0 <= z)%Z ->
  slice0 (T1 cu dt l) (Some z) None = Some (T1 cu dt (skipn (Z.to_nat z) l)).
Proof. intros cu dt l z Hz. rewrite <- (Z2Nat.id z Hz) at 1. apply slice0_T1_from. Qed.
Lemma slice0_T1_to_z : forall cu dt l z, (0 <= z)%Z ->
  slice0 (T1 cu dt l) None (Some z) = Some (T1 cu dt (firstn (Z.to_nat z) l)).
Proof. intros cu dt l z Hz. rewrite <- (Z2Nat.id z Hz) at 1. apply slice0_T1_to. Qed.
Lemma slice0_T2_from_z : forall cu dt w rows z, Forall (fun r => List.length r = w) rows -> (0 <= z)%Z ->
  slice0 (T2 cu dt w rows) (Some z) None = Some (T2 cu dt w (skipn (Z.to_nat z) rows)).
Proof. intros cu dt w rows z HF Hz. rewrite <- (Z2Nat.id z Hz) at 1. now apply slice0_T2_from. Qed.
Lemma slice0_T2_to_z : forall cu dt w rows z, Forall (fun r => List.length r = w) rows -> (0 <= z)%Z ->
  slice0 (T2 cu dt w rows) None (Some z) = Some (T2 cu dt w (firstn (Z.to_nat z) rows)).
Proof. intros cu dt w rows z HF Hz. rewrite <- (Z2Nat.id z Hz) at 1. now apply slice0_T2_to. Qed.

Definition saved (t : tens) : list event := [("torch.save", [enc12 t; hyp_path])].

Ltac fold_hits s l := change (nonzero_idx 0 (map (fun x : Z => if (x =? s)%Z then 1%Z else 0%Z) l)) with (hits s l).

Lemma Forall_skipn_len : forall (w : nat) (rows : list (list Z)) k,
  Forall (fun r => List.length r = w) rows -> Forall (fun r => List.length r = w) (List.skipn k rows).
Proof.
  intros w rows k H. revert k. induction H as [|r rows Hr H IH]; intros [|k]; try constructor; try assumption.
  apply IH.
Qed.
Lemma Forall_firstn_len : forall (w : nat) (rows : list (list Z)) k,
  Forall (fun r => List.length r = w) rows -> Forall (fun r => List.length r = w) (List.firstn k rows).
Proof.
  intros w rows k H. revert k. induction H as [|r rows Hr H IH]; intros [|k]; constructor; try assumption.
  apply IH.
Qed.

Ltac fold_hits_any s := match goal with |- context [nonzero_idx 0 (map _ ?l1)] => fold_hits s l1 end.

(* the `if sos is not None:` / `if eos is not None:` statement, in whichever of its three situations *)
Ltac sym_stage s E slice_lem :=
  stmt;
  try (fold_hits_any s; rewrite E; repeat (progress tstep);
       try (rewrite slice_lem by (lia || assumption); repeat (progress tstep)));
  close_stmt.

Lemma hyp_T1 : forall cu dt l sos eos,
  let l1 := cut_sos sos l l in
  exists st, run_write_hyp sos eos (T1 cu dt l) = Ok VNone st
             /\ events st = saved (T1 false Model.DI64 (cut_eos eos l1 l1)).
Proof.
  intros cu dt l sos eos. cbv zeta. unfold cut_sos.
  destruct sos as [s|]; [destruct (hits s l) as [|i idx] eqn:E1; [|pose proof (hits_nonneg_last _ _ _ _ E1) as H1]|];
  unfold cut_eos;
  (destruct eos as [e|]; [destruct (hits e _) as [|j jdx] eqn:E2; [|pose proof (hits_nonneg_first _ _ _ _ E2) as H2]|]);
  unfold run_write_hyp; eexists; (split; [apply run_of_exec_normal|]);
  try (unfold write_hyp_body, hyp_vars; cbn [oz];
       (stmt; close_stmt);
       first [sym_stage s E1 slice0_T1_from_z | (stmt; close_stmt)];
       first [sym_stage e E2 slice0_T1_to_z | (stmt; close_stmt)];
       repeat (progress tstep); reflexivity);
  reflexivity.
Qed.

Ltac solveF := first [assumption | apply Forall_skipn_len; assumption].
Ltac sym_stage2 s E slice_lem :=
  stmt; rewrite select_col_T2_0 by solveF; repeat (progress tstep);
  try (fold_hits_any s; rewrite E; repeat (progress tstep);
       try (rewrite slice_lem by (solveF || lia); repeat (progress tstep)));
  close_stmt.

Lemma hyp_T2 : forall cu dt w rows sos eos, Forall (fun r => List.length r = S w) rows ->
  let key := fun r : list Z => hd 0%Z r in
  let l1 := cut_sos sos (map key rows) rows in
  exists st, run_write_hyp sos eos (T2 cu dt (S w) rows) = Ok VNone st
             /\ events st = saved (T2 false Model.DI64 (S w) (cut_eos eos (map key l1) l1)).
Proof.
  intros cu dt w rows sos eos HF. cbv zeta. unfold cut_sos.
  destruct sos as [s|]; [destruct (hits s _) as [|i idx] eqn:E1; [|pose proof (hits_nonneg_last _ _ _ _ E1) as H1]|];
  unfold cut_eos;
  (destruct eos as [e|]; [destruct (hits e _) as [|j jdx] eqn:E2; [|pose proof (hits_nonneg_first _ _ _ _ E2) as H2]|]);
  unfold run_write_hyp; eexists; (split; [apply run_of_exec_normal|]);
  try (unfold write_hyp_body, hyp_vars; cbn [oz];
       (stmt; close_stmt);
       first [sym_stage2 s E1 slice0_T2_from_z | (stmt; close_stmt)];
       first [sym_stage2 e E2 slice0_T2_to_z | (stmt; close_stmt)];
       repeat (progress tstep); reflexivity);
  reflexivity.
Qed.

(* ---- the whole function against the model ------------------------------------------------------------------------ *)
Lemma hd_row3' : forall rows, map (fun r => hd 0%Z r) (map row3 rows) = map Model.tok_of rows.
Proof. intros. rewrite map_map. apply map_ext. now intros [[a b] c]. Qed.

Lemma Forall_row3' : forall rows, Forall (fun r => List.length r = 3%nat) (map row3 rows).
Proof. induction rows as [|[[a b] c] rows IH]; constructor; [reflexivity|exact IH]. Qed.

Lemma cut_sos_map : forall {A B} (f : A -> B) sos keys (l : list A), cut_sos sos keys (map f l) = map f (cut_sos sos keys l).
Proof. intros. unfold cut_sos. destruct sos as [s|]; [|reflexivity]. destruct (hits s keys); [reflexivity|]. apply skipn_map. Qed.
Lemma cut_eos_map : forall {A B} (f : A -> B) eos keys (l : list A), cut_eos eos keys (map f l) = map f (cut_eos eos keys l).
Proof. intros. unfold cut_eos. destruct eos as [e|]; [|reflexivity]. destruct (hits e keys); [reflexivity|]. apply firstn_map. Qed.

(* for every 1-D hypothesis and every (R, 3) hypothesis, on any device, of any dtype: the run's one effect is
   torch.save(<the model's stripped hypothesis as a CPU long tensor>, pth), and it returns None *)
Theorem write_hyp_run : forall sos eos cu dt h,
  (match h with Model.R1 _ | Model.R2 _ => True | _ => False end) ->
  exists st, run_write_hyp sos eos (tens_of_rdata cu dt h) = Ok VNone st
             /\ events st = saved (tens_of_rdata false Model.DI64 (Model.write_hyp sos eos h)).
Proof.
  intros sos eos cu dt h Hh. destruct h as [t|rows| |]; try contradiction; cbn [tens_of_rdata Model.write_hyp].
  - destruct (hyp_T1 cu dt t sos eos) as [st [E1 E2]]. exists st. split; [exact E1|]. rewrite E2. do 3 f_equal.
    pose proof (cuts_are_strip (fun x : Z => x) sos eos t) as C. rewrite !map_id in C. now rewrite C.
  - destruct (hyp_T2 cu dt 2 (map row3 rows) sos eos (Forall_row3' rows)) as [st [E1 E2]]. exists st. split; [exact E1|].
    rewrite E2. do 3 f_equal. cbv zeta.
    rewrite hd_row3', cut_sos_map, hd_row3', cut_eos_map. f_equal. apply (cuts_are_strip Model.tok_of).
Qed.

Theorem src_write_hyp_tie : forall sos eos cu dt h,
  (match h with Model.R1 _ | Model.R2 _ => True | _ => False end) ->
  src_write_hyp sos eos (tens_of_rdata cu dt h) = Some (tens_of_rdata false Model.DI64 (Model.write_hyp sos eos h)).
Proof.
  intros sos eos cu dt h Hh. destruct (write_hyp_run sos eos cu dt h Hh) as [st [E1 E2]].
  unfold src_write_hyp. rewrite E1, E2. unfold saved. cbn [andb]. 
  replace (String.eqb "torch.save" "torch.save" && val_eqb hyp_path hyp_path)%bool with true by reflexivity.
  apply dec12_enc12.
Qed.
