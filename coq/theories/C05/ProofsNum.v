(* C05 - small toolkit: canonical rationals, sums, boolean list equality. *)
From Coq Require Import List Arith Bool QArith Qcanon Lia Lra Psatz.
From PV Require Import C05.Model.
Import ListNotations.
Local Open Scope Qc_scope.
Local Open Scope nat_scope.

(* move a goal about Qc order/arithmetic to Q, where lra / nra work *)
Ltac qc2q :=
  unfold Qcle, Qclt, Qcplus, Qcmult, Qcminus, Qcopp, Q2Qc in *; cbn [this] in *;
  repeat rewrite Qred_correct in *.

Lemma q0 : this 0%Qc = 0%Q. Proof. reflexivity. Qed.
Lemma q1 : this 1%Qc = 1%Q. Proof. reflexivity. Qed.

Lemma qle_refl : forall a : Qc, (a <= a)%Qc. Proof. intros; apply Qcle_refl. Qed.
Lemma qle_trans : forall a b c : Qc, (a <= b -> b <= c -> a <= c)%Qc.
Proof. intros; eapply Qcle_trans; eauto. Qed.
Lemma qle_00 : (0 <= 0)%Qc. Proof. apply Qcle_refl. Qed.
Lemma qle_01 : (0 <= 1)%Qc. Proof. unfold Qcle; cbn; lra. Qed.
Lemma qadd_nonneg : forall a b : Qc, (0 <= a -> 0 <= b -> 0 <= a + b)%Qc.
Proof. intros. qc2q. lra. Qed.
Lemma qmul_nonneg : forall a b : Qc, (0 <= a -> 0 <= b -> 0 <= a * b)%Qc.
Proof. intros. qc2q. nra. Qed.
Lemma qadd_le : forall a b c d : Qc, (a <= b -> c <= d -> a + c <= b + d)%Qc.
Proof. intros. qc2q. lra. Qed.
Lemma qmul_le : forall a b c d : Qc, (0 <= a -> a <= b -> 0 <= c -> c <= d -> a * c <= b * d)%Qc.
Proof. intros. qc2q. nra. Qed.
Lemma qle_antisym : forall a b : Qc, (a <= b -> b <= a -> a = b)%Qc.
Proof. intros; apply Qcle_antisym; auto. Qed.

Lemma qleb_true : forall a b : Qc, qleb a b = true <-> (a <= b)%Qc.
Proof. intros. unfold qleb, Qcle. apply Qle_bool_iff. Qed.
Lemma qleb_false : forall a b : Qc, qleb a b = false <-> (b < a)%Qc.
Proof.
  intros. unfold qleb, Qclt. split; intro H.
  - destruct (Qlt_le_dec b a) as [L|L]; auto.
    apply Qle_bool_iff in L. congruence.
  - destruct (Qle_bool a b) eqn:E; auto. apply Qle_bool_iff in E. lra.
Qed.

(* ---- sums ---------------------------------------------------------------------- *)
Lemma qsum_cons : forall x l, qsum (x :: l) = (x + qsum l)%Qc.
Proof. reflexivity. Qed.
Lemma qsum_nil : qsum [] = 0%Qc.
Proof. reflexivity. Qed.

Lemma qsum_app : forall l m, qsum (l ++ m) = (qsum l + qsum m)%Qc.
Proof.
  induction l; intros; cbn [app]; rewrite ?qsum_cons, ?qsum_nil; [ring|]. rewrite IHl. ring.
Qed.

Lemma qsum_map_plus : forall {A} (f g : A -> Qc) l,
  qsum (map (fun x => f x + g x)%Qc l) = (qsum (map f l) + qsum (map g l))%Qc.
Proof. induction l; cbn [map]; rewrite ?qsum_cons, ?qsum_nil; [ring|]. rewrite IHl. ring. Qed.

Lemma qsum_map_scale : forall {A} (f : A -> Qc) c l,
  qsum (map (fun x => f x * c)%Qc l) = (qsum (map f l) * c)%Qc.
Proof. induction l; cbn [map]; rewrite ?qsum_cons, ?qsum_nil; [ring|]. rewrite IHl. ring. Qed.

Lemma qsum_map_ext : forall {A} (f g : A -> Qc) l,
  (forall x, In x l -> f x = g x) -> qsum (map f l) = qsum (map g l).
Proof.
  induction l; intros H; cbn [map]; auto. rewrite !qsum_cons, H, IHl; auto with datatypes.
Qed.

Lemma qsum_flat_map : forall {A B} (f : B -> Qc) (g : A -> list B) l,
  qsum (map f (flat_map g l)) = qsum (map (fun a => qsum (map f (g a))) l).
Proof.
  induction l; cbn [flat_map map]; auto. rewrite map_app, qsum_app, qsum_cons, IHl. reflexivity.
Qed.

Lemma qsum_nonneg : forall l, (forall x, In x l -> (0 <= x)%Qc) -> (0 <= qsum l)%Qc.
Proof.
  induction l; intros H; [apply qle_00|]. rewrite qsum_cons. apply qadd_nonneg.
  - apply H; auto with datatypes.
  - apply IHl; intros; apply H; auto with datatypes.
Qed.

Lemma qsum_map_zero : forall {A} (f : A -> Qc) l,
  (forall x, In x l -> f x = 0%Qc) -> qsum (map f l) = 0%Qc.
Proof.
  induction l; intros H; auto. cbn [map]. rewrite qsum_cons.
  rewrite H by auto with datatypes. rewrite IHl by auto with datatypes. ring.
Qed.

Lemma qsum_map_le : forall {A} (f g : A -> Qc) l,
  (forall x, In x l -> (f x <= g x)%Qc) -> (qsum (map f l) <= qsum (map g l))%Qc.
Proof.
  induction l; intros H; [apply qle_refl|]. cbn [map]. rewrite !qsum_cons. apply qadd_le.
  - apply H; auto with datatypes.
  - apply IHl; intros; apply H; auto with datatypes.
Qed.

(* a sum in which only the term of one index can be non-zero *)
Lemma qsum_single : forall {A} (f : A -> Qc) l v,
  NoDup l -> In v l -> (forall c, In c l -> c <> v -> f c = 0%Qc) -> qsum (map f l) = f v.
Proof.
  induction l; intros v ND I Z; [destruct I|].
  cbn [map]. rewrite qsum_cons. inversion ND; subst. destruct I as [->|I].
  - rewrite qsum_map_zero; [ring|]. intros x Hx. apply Z; auto with datatypes. congruence.
  - rewrite (IHl v); auto with datatypes.
    rewrite Z; auto with datatypes; [ring | congruence].
Qed.

(* ---- boolean list equality -------------------------------------------------------- *)
Lemma list_nat_eqb_true : forall a b, list_nat_eqb a b = true <-> a = b.
Proof. intros. unfold list_nat_eqb. destruct (list_eq_dec Nat.eq_dec a b); split; congruence. Qed.
Lemma list_nat_eqb_false : forall a b, list_nat_eqb a b = false <-> a <> b.
Proof. intros. unfold list_nat_eqb. destruct (list_eq_dec Nat.eq_dec a b); split; congruence. Qed.
Lemma list_nat_eqb_refl : forall a, list_nat_eqb a a = true.
Proof. intros; apply list_nat_eqb_true; auto. Qed.

(* ---- last / removelast ---------------------------------------------------------------- *)
Lemma snoc_inj : forall {A} (a b : list A) x y, a ++ [x] = b ++ [y] -> a = b /\ x = y.
Proof. intros. apply app_inj_tail in H. auto. Qed.

Lemma removelast_snoc : forall {A} (a : list A) x, removelast (a ++ [x]) = a.
Proof. intros. rewrite removelast_app by discriminate. cbn. apply app_nil_r. Qed.

Lemma last_snoc : forall {A} (a : list A) x d, last (a ++ [x]) d = x.
Proof. intros. apply last_last. Qed.

Lemma snoc_decomp : forall {A} (p : list A) d, p <> [] -> p = removelast p ++ [last p d].
Proof. intros. apply app_removelast_last; auto. Qed.

(* a sum of non-negative terms of which at most one is non-zero is bounded by any bound
   of the single terms *)
Lemma qsum_at_most_one : forall {A} (f : A -> Qc) (l : list A) (B : Qc),
  (0 <= B)%Qc ->
  (forall a, In a l -> (0 <= f a)%Qc /\ (f a <= B)%Qc) ->
  (forall a b, In a l -> In b l -> f a <> 0%Qc -> f b <> 0%Qc -> a = b) ->
  NoDup l ->
  (0 <= qsum (map f l))%Qc /\ (qsum (map f l) <= B)%Qc.
Proof.
  induction l as [|a l]; intros B B0 Bd U ND.
  - cbn [map]. rewrite qsum_nil. split; auto using qle_00.
  - cbn [map]. rewrite qsum_cons. inversion ND; subst.
    destruct (Qc_eq_dec (f a) 0%Qc) as [Z|NZ].
    + rewrite Z. replace (0 + qsum (map f l))%Qc with (qsum (map f l)) by ring.
      apply IHl; auto with datatypes.
    + assert (ZR : qsum (map f l) = 0%Qc).
      { apply qsum_map_zero. intros x Hx. destruct (Qc_eq_dec (f x) 0%Qc) as [Zx|NZx]; auto.
        exfalso. assert (a = x) by (apply U; auto with datatypes). subst. auto. }
      rewrite ZR. replace (f a + 0)%Qc with (f a) by ring. apply Bd. auto with datatypes.
Qed.
