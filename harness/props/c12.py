"""C12 — data-directory validation / repair / statistics / sos-eos: correspondence between
/repo (pydrobert.torch.data.validate_spect_data_set, get-torch-spect-data-dir-info,
SpectDataSet.__getitem__/write_hyp, LangDataSet) and PV.C12.Model, judged by PV.C12.Spec."""
import hashlib
import itertools
import json
import os
import re
import shutil
import warnings
from concurrent.futures import ProcessPoolExecutor, ThreadPoolExecutor
from pathlib import Path

import vlib
from vlib import cb, cl, cn, co, cp, cz, clz, exc_kind, shrink

IMPORTS = "From PV Require Import C12.Model C12.Spec.\n"

# ----------------------------------------------------------------------------------------
# findings the as-coded model contains (see notes/C12_report.md).  in_q = inside the property's
# quantifier by our reading; the others are recorded as observations only.
# ----------------------------------------------------------------------------------------
FINDINGS = {
    "F9": dict(in_q=True, what="validate_spect_data_set(ds, fix) with sos/eos configured on ds writes the "
               "repaired reference back WITH the symbols (they land on disk and are doubled on the next load)"),
    "F10": dict(in_q=False, what="a data set built with suppress_alis=True makes validate_spect_data_set raise "
                "ValueError (2-tuple unpacked into 3) on every non-empty directory"),
    "F11": dict(in_q=False, what="a data set built with tokens_only=True hides the boundaries from the validator "
                "(invalid/mixed 2-D references pass) and a fix writes the 1-D token column over the (R,3) file"),
}

DT = {"float16": "DF16", "float32": "DF32", "float64": "DF64", "int64": "DI64", "int32": "DI32",
      "int16": "DI16", "int8": "DI8", "uint8": "DU8", "bool": "DBool"}
EXN = {"ValueError": "ValueErr", "RuntimeError": "RuntimeErr", "IndexError": "IndexErr"}
INT_NARROW = ["int32", "int16", "int8", "uint8"]


# ----------------------------------------------------------------------------------------
# tensors <-> JSON <-> Coq
# ----------------------------------------------------------------------------------------

def T(dtype, shape, vals=None):
    n = 1
    for s in shape:
        n *= s
    if vals is None:
        vals = [(i * 7 + 3) % 5 for i in range(n)]
    assert len(vals) == n, (shape, vals)
    return {"dtype": dtype, "shape": list(shape), "vals": list(vals)}


def to_torch(t):
    """the tensor a JSON record denotes; record key 'layout' (robustness audit, class 'memory layout') stores the same
    logical tensor as a non-contiguous view: 't' transposed-contiguous-transposed, 'off' slice of a larger buffer with a
    storage offset, 'step' every second cell of a larger buffer.  torch.save keeps the view, torch.load gives it back."""
    import torch
    x = torch.tensor(t["vals"], dtype=torch.int64).reshape(t["shape"]).to(getattr(torch, t["dtype"]))
    how = t.get("layout")
    if how == "t" and x.ndim == 2:
        return x.t().contiguous().t()
    if how == "step" and x.ndim >= 1:
        big = torch.full([2 * n for n in x.shape], 3, dtype=x.dtype)
        v = big[tuple(slice(None, None, 2) for _ in x.shape)]
        v.copy_(x)
        return v
    if how in ("off", "t", "step"):
        big = torch.full((x.numel() + 7,), 3, dtype=x.dtype)
        v = big[4:4 + x.numel()].view(x.shape)
        v.copy_(x)
        return v
    return x


def canon(x):
    import torch
    if not isinstance(x, torch.Tensor):
        return {"dtype": "nontensor:" + type(x).__name__, "shape": [], "vals": []}
    vals = x.detach().cpu().flatten().to(torch.float64).tolist()
    return {"dtype": str(x.dtype).replace("torch.", ""), "shape": list(x.shape),
            "vals": [int(v) for v in vals], "cuda": x.device.type == "cuda"}


def c_dtype(t):
    return DT.get(t["dtype"], "DOther")


def c_cuda(t):
    return cb(t.get("cuda", False))


def c_nats(xs):
    return cl([cn(x) for x in xs])


def c_feat(t):
    return f"(mkFeat {c_cuda(t)} {c_dtype(t)} {c_nats(t['shape'])})"


def c_ali(t):
    if len(t["shape"]) == 1:
        data = f"(A1 {clz(t['vals'])})"
    else:
        data = f"(AN {c_nats(t['shape'])} {clz(t['vals'])})"
    return f"(mkAli {c_cuda(t)} {c_dtype(t)} {data})"


def c_rdata(t):
    sh, v = t["shape"], t["vals"]
    if len(sh) == 1:
        return f"(R1 {clz(v)})"
    if len(sh) == 2 and sh[1] == 3:
        return "(R2 " + cl([cp(cz(v[3 * i]), cz(v[3 * i + 1]), cz(v[3 * i + 2])) for i in range(sh[0])]) + ")"
    if len(sh) == 2:
        w = sh[1]
        return f"(R2w {cn(w)} " + cl([clz(v[w * i:w * i + w]) for i in range(sh[0])]) + ")"
    return f"(RN {cn(len(sh))})"


def c_ref(t):
    return f"(mkRef {c_cuda(t)} {c_dtype(t)} {c_rdata(t)})"


def c_utt(u):
    return (f"(mkUtt {c_feat(u['feat'])} {co(c_ali(u['ali'])) if u.get('ali') else 'None'} "
            f"{co(c_ref(u['ref'])) if u.get('ref') else 'None'})")


def c_dir(utts):
    return cl([c_utt(u) for u in utts])


def c_oz(x):
    return "None" if x is None else f"(Some {cz(x)})"


def c_cfg(c):
    return f"(mkCfg {c_oz(c.get('sos'))} {c_oz(c.get('eos'))} {cb(c.get('tokens_only', False))} {cb(c.get('suppress_alis', False))})"


def c_op(op):
    if op["api"] == "validate":
        f = op["fix"]
        fa = "FNone" if f is None else (f"(FBool {cb(f)})" if isinstance(f, bool) else f"(FInt {cz(f)})")
        return f"(OpValidate {fa})"
    return f"(OpCli {cb(op['strict'])} {c_oz(op['fix'])})"


def c_report(p):
    return (f"(mkReport {cz(p['num_utterances'])} {cz(p['total_frames'])} {c_oz(p.get('num_filts'))} "
            f"{cz(p['max_ali_class'])} {cz(p['max_ref_class'])} {cz(p['total_tokens'])} "
            f"{cl([cp(cz(a), cz(b)) for a, b in p['ali_tab']])} {cl([cp(cz(a), cz(b)) for a, b in p['ref_tab']])})")


def c_outcome(out):
    if out["exc"] is not None:
        return f"(inl {EXN.get(out['exc'], 'OtherErr')})"
    if out.get("report") is None:
        return "(inr None)"
    return f"(inr (Some {c_report(out['report'])}))"


# ----------------------------------------------------------------------------------------
# evaluating list-of-bool terms (vlib only has single bools)
# ----------------------------------------------------------------------------------------

def coq_eval_bitlists(workdir, terms, shard=150, tag="bits", timeout=900):
    if not terms:
        return []
    workdir = Path(workdir)
    files = []
    for k in range(0, len(terms), shard):
        f = workdir / f"{tag}_{k // shard}.v"
        body = ";\n  ".join(terms[k:k + shard])
        f.write_text(vlib._HEADER + IMPORTS + f"\nDefinition vcases : list (list bool) := [\n  {body}\n].\n"
                     "Definition vres := Eval vm_compute in vcases.\nPrint vres.\n")
        files.append(f)

    def one(f):
        out = vlib._coqc_file(f, timeout)
        m = re.search(r"vres\s*=\s*(.*?)\s*:\s*list \(list bool\)", out, flags=re.S)
        if not m:
            raise vlib.CoqError(f"cannot parse coqc output for {f}: {out[-500:]}")
        txt = m.group(1).replace("true", "1").replace("false", "0").replace(";", ",")
        return [[bool(b) for b in row] for row in json.loads(txt)]

    with ThreadPoolExecutor(max_workers=min(int(os.environ.get("VERIF_JOBS", "16")), 8)) as ex:
        parts = list(ex.map(one, files))
    return [r for p in parts for r in p]


# ----------------------------------------------------------------------------------------
# the implementation side
# ----------------------------------------------------------------------------------------

SUBS = ("feat", "ali", "ref")


def _sub(case, s):
    """name of the sub-directory holding kind s (non-default names: robustness audit, class 'optional state')"""
    return (case.get("subdirs") or {}).get(s, s)


def _fname(case, uid):
    return case.get("prefix", "") + uid + case.get("suffix", ".pt")


def _files(case):
    """sub -> {filename: tensor json}; includes decoys."""
    out = {s: {} for s in SUBS}
    for u in case["utts"]:
        for s in SUBS:
            if u.get(s) is not None:
                out[s][_fname(case, u["id"])] = u[s]
    for dcy in case.get("decoys", []):
        out[dcy["sub"]][dcy["name"]] = dcy["tensor"]
    return out


def _listing(case, use_subset, suppress_alis):
    """Independent oracle for SpectDataSet.utt_ids: ids whose prefixed/suffixed file exists in feat/ and in
    every present, non-empty (in matching files) ali/ and ref/; intersected with the subset if one is given."""
    pre, suf = case.get("prefix", ""), case.get("suffix", ".pt")
    files = _files(case)

    def ids(sub):
        res = set()
        for name in files[sub]:
            if name.startswith(pre) and name.endswith(suf) and len(name) >= len(pre) + len(suf):
                res.add(name[len(pre):len(name) - len(suf)])
        return res
    has = {s: bool(files[s]) and bool(ids(s)) for s in ("ali", "ref")}
    if suppress_alis:
        has["ali"] = False
    if not case.get("mk_ali", True):
        has["ali"] = False
    if not case.get("mk_ref", True):
        has["ref"] = False
    lst = ids("feat")
    if use_subset and case.get("subset"):
        lst &= set(case["subset"])
    for s in ("ali", "ref"):
        if has[s]:
            lst &= ids(s)
    return sorted(lst), has


def _snapshot(root, files, case=None):
    import torch
    snap = {}
    for s in SUBS:
        d = os.path.join(root, _sub(case or {}, s))
        if not os.path.isdir(d):
            continue
        snap[s] = {}
        for name in sorted(os.listdir(d)):
            pth = os.path.join(d, name)
            snap[s][name] = canon(torch.load(pth))
    return snap


def _project(case, snap, ids, has):
    utts = []
    for uid in ids:
        fn = _fname(case, uid)
        utts.append({"id": uid, "feat": snap["feat"][fn],
                     "ali": snap["ali"][fn] if has["ali"] else None,
                     "ref": snap["ref"][fn] if has["ref"] else None})
    return utts


def _parse_report(text):
    kv, order = {}, []
    for line in text.splitlines():
        k, v = line.split(" ")
        kv[k] = int(v)
        order.append(k)
    rep = {k: kv[k] for k in ("num_utterances", "total_frames", "max_ali_class", "max_ref_class", "total_tokens")}
    rep["num_filts"] = kv.get("num_filts")
    fmt_ok = order == sorted(order)
    for pre1, pre2, mx, key in (("count_", "segs_", rep["max_ali_class"], "ali_tab"),
                                ("rcount_", "rsegs_", rep["max_ref_class"], "ref_tab")):
        tab = []
        digits = len(str(max(mx, 1)))
        for i in range(mx + 1):
            k1, k2 = f"{pre1}{i:0{digits}d}", f"{pre2}{i:0{digits}d}"
            if k1 not in kv or k2 not in kv:
                fmt_ok = False
                tab.append((kv.get(k1, -999), kv.get(k2, -999)))
            else:
                tab.append((kv[k1], kv[k2]))
        rep[key] = tab
        n_expected = 2 * (mx + 1)
        if sum(1 for k in kv if k.startswith(pre1) or k.startswith(pre2)) != n_expected:
            fmt_ok = False
    rep["format_ok"] = fmt_ok
    return rep


def run_dir_case(case, root):
    """Returns {'steps': [{'ids','has','pre','post','out'}], 'side': [...python-level failures...]}"""
    import torch
    from pydrobert.torch import data, command_line
    warnings.simplefilter("ignore")
    d = os.path.join(root, "d")
    shutil.rmtree(d, ignore_errors=True)
    files = _files(case)
    os.makedirs(os.path.join(d, _sub(case, "feat")))
    if case.get("mk_ali", True) and (files["ali"] or case.get("empty_ali_dir")):
        os.makedirs(os.path.join(d, _sub(case, "ali")))
    if case.get("mk_ref", True) and (files["ref"] or case.get("empty_ref_dir")):
        os.makedirs(os.path.join(d, _sub(case, "ref")))
    for s in SUBS:
        if os.path.isdir(os.path.join(d, _sub(case, s))):
            for name, t in files[s].items():
                torch.save(to_torch(t), os.path.join(d, _sub(case, s), name))
    cfg = case.get("cfg", {})
    side = []
    steps = []
    snap = _snapshot(d, files, case)
    ds = None
    sub_kw = {k + "_subdir": v for k, v in (case.get("subdirs") or {}).items()}
    try:
        params = data.SpectDataParams(sos=cfg.get("sos"), eos=cfg.get("eos"),
                                      subset_ids=list(case.get("subset") or []))
        ds = data.SpectDataSet(d, file_prefix=case.get("prefix", ""), file_suffix=case.get("suffix", ".pt"),
                               warn_on_missing=bool(case.get("warn_missing", False)), params=params,
                               suppress_alis=bool(cfg.get("suppress_alis", False)),
                               tokens_only=bool(cfg.get("tokens_only", False)), **sub_kw)
    except Exception as e:  # construction is not expected to fail
        return {"steps": [], "side": ["constructor raised " + exc_kind(e) + ": " + str(e)[:200]]}
    ids, has = _listing(case, True, bool(cfg.get("suppress_alis", False)))
    if list(ds.utt_ids) != ids:
        side.append(f"utt_ids {list(ds.utt_ids)} != oracle {ids}")
    if (ds.has_ali, ds.has_ref) != (has["ali"], has["ref"]):
        side.append(f"has_ali/has_ref {(ds.has_ali, ds.has_ref)} != oracle {(has['ali'], has['ref'])}")
    for op in case["ops"]:
        out = {"exc": None, "report": None}
        if op["api"] == "validate":
            oids, ohas = ids, has
            try:
                # entry-point styles: positional, by keyword, documented default (fix=None) left out
                if op.get("style") == "kw":
                    r = data.validate_spect_data_set(data_set=ds, fix=op["fix"])
                elif op.get("style") == "omit" and op["fix"] is None:
                    r = data.validate_spect_data_set(ds)
                else:
                    r = data.validate_spect_data_set(ds, op["fix"])
                if r is not None:
                    side.append("validate_spect_data_set returned " + repr(r)[:50])
            except Exception as e:
                out["exc"] = exc_kind(e)
                out["msg"] = str(e)[:160]
        else:
            oids, ohas = _listing(case, False, False)
            table = os.path.join(root, "info.txt")
            if os.path.exists(table):
                os.remove(table)
            to_stdout = bool(op.get("stdout"))
            args = [d] + ([] if to_stdout else [table])
            if case.get("prefix", "") != "" or not op.get("omit_defaults"):
                args += ["--file-prefix", case.get("prefix", "")]
            if case.get("suffix", ".pt") != ".pt" or not op.get("omit_defaults"):
                args += ["--file-suffix", case.get("suffix", ".pt")]
            for k, v in (case.get("subdirs") or {}).items():
                args += ["--" + k + "-subdir", v]
            if op["strict"]:
                args.append("--strict")
            if op["fix"] is not None:
                if op.get("bare_fix"):
                    args += ["--fix"]
                elif op.get("eq_fix"):
                    args += ["--fix=" + str(op["fix"])]
                else:
                    args += ["--fix", str(op["fix"])]
            try:
                import contextlib
                import io
                buf = io.StringIO()
                with contextlib.redirect_stdout(buf):
                    rc = command_line.get_torch_spect_data_dir_info(args)
                if rc != 0:
                    side.append(f"get_torch_spect_data_dir_info returned {rc}")
                    out["exc"] = "other:rc"
                else:
                    if not to_stdout and buf.getvalue():
                        side.append("report file given, yet something was printed on stdout")
                    out["report"] = _parse_report(buf.getvalue() if to_stdout else open(table).read())
                    if not out["report"].pop("format_ok"):
                        side.append("report keys are not the documented zero-padded, sorted set")
            except Exception as e:
                out["exc"] = exc_kind(e)
                out["msg"] = str(e)[:160]
        post = _snapshot(d, files, case)
        # files that no listed utterance owns, and every feature payload, must be untouched
        owned = {(s, _fname(case, u)) for u in oids for s in SUBS}
        for s in post:
            for name in post[s]:
                if (s, name) not in owned and post[s][name] != snap[s].get(name):
                    side.append(f"unlisted file {s}/{name} changed")
                if s == "feat" and post[s][name] != snap[s].get(name):
                    side.append(f"feature file {name} changed")
            if set(post[s]) != set(snap.get(s, {})):
                side.append(f"files appeared/disappeared in {s}/")
        steps.append({"op": op, "ids": oids, "has": ohas, "pre": _project(case, snap, oids, ohas),
                      "post": _project(case, post, oids, ohas), "out": out})
        snap = post
    return {"steps": steps, "side": side}


def run_rw_case(case, root):
    """_load_ref through __getitem__, _write_hyp through write_hyp (SpectDataSet or LangDataSet)."""
    import torch
    from pydrobert.torch import data
    warnings.simplefilter("ignore")
    d = os.path.join(root, "rw")
    shutil.rmtree(d, ignore_errors=True)
    os.makedirs(os.path.join(d, "feat"))
    os.makedirs(os.path.join(d, "ref"))
    torch.save(torch.zeros(3, 2), os.path.join(d, "feat", "u.pt"))
    torch.save(to_torch(case["ref"]), os.path.join(d, "ref", "u.pt"))
    cfg = case["cfg"]
    res = {"side": []}
    if case.get("lang"):
        ds = data.LangDataSet(os.path.join(d, "ref"), params=data.LangDataParams(sos=cfg.get("sos"), eos=cfg.get("eos")),
                              tokens_only=bool(cfg.get("tokens_only", False)))
        get = lambda: ds[0]
        hyp_dir = os.path.join(d, "hyp")
        wr = lambda h: ds.write_hyp("u", h, hyp_dir)
    else:
        ds = data.SpectDataSet(d, params=data.SpectDataParams(sos=cfg.get("sos"), eos=cfg.get("eos")),
                               suppress_alis=False, tokens_only=bool(cfg.get("tokens_only", False)))
        get = lambda: ds[0][2]
        hyp_dir = os.path.join(d, "hyp")
        wr = lambda h: ds.write_hyp(0, h) if case.get("default_dir") else ds.write_hyp("u", h, hyp_dir)
    try:
        loaded = get()
        res["loaded"] = canon(loaded)
    except Exception as e:
        loaded = None
        res["loaded"] = {"exc": exc_kind(e)}
    written = []
    hyps = [to_torch(h) for h in case.get("hyps", [])]
    if loaded is not None and loaded.dim() in (1, 2) and (loaded.dim() == 1 or loaded.size(1) == 3):
        hyps.append(loaded)  # the round trip: write what was read
        res["roundtrip_index"] = len(hyps) - 1
    for h in hyps:
        try:
            wr(h)
            w = torch.load(os.path.join(hyp_dir, "u.pt"))
            cw = canon(w)
            if cw["dtype"] != "int64" or cw.get("cuda"):
                res["side"].append("written hypothesis is not a CPU long tensor")
            written.append({"hyp": canon(h), "out": cw})
        except Exception as e:
            written.append({"hyp": canon(h), "exc": exc_kind(e)})
    res["written"] = written
    return res


def _worker(args):
    idx, case, base = args
    warnings.filterwarnings("ignore")
    vlib.setup_impl_path()
    import torch
    torch.set_num_threads(1)
    root = os.path.join(base, f"w{os.getpid()}")
    os.makedirs(root, exist_ok=True)
    try:
        if case["kind"] == "dir":
            return idx, run_dir_case(case, root)
        return idx, run_rw_case(case, root)
    except Exception as e:  # harness-level problem: surface it
        import traceback
        return idx, {"harness_error": traceback.format_exc()[-1500:]}


def run_impl_all(chk, cases):
    base = str(chk.workdir / "dirs")
    os.makedirs(base, exist_ok=True)
    jobs = [(i, c, base) for i, c in enumerate(cases)]
    res = [None] * len(cases)
    nproc = min(int(os.environ.get("VERIF_JOBS", "16")), 8)
    if len(cases) < 40:
        for j in jobs:
            i, r = _worker(j)
            res[i] = r
    else:
        with ProcessPoolExecutor(max_workers=nproc) as ex:
            for i, r in ex.map(_worker, jobs, chunksize=16):
                res[i] = r
    shutil.rmtree(base, ignore_errors=True)
    return res


# ----------------------------------------------------------------------------------------
# Coq terms
# ----------------------------------------------------------------------------------------

def step_term(case, st):
    return (f"step_bits {c_cfg(case.get('cfg', {}))} {c_op(st['op'])} {c_dir(st['pre'])} {c_dir(st['post'])} "
            f"{c_outcome(st['out'])}")


def rw_terms(case, res):
    """list-of-bool terms: [load agrees] and one [write agrees] per written hypothesis."""
    cfg = case["cfg"]
    ld = res["loaded"]
    out = f"(inl {EXN.get(ld['exc'], 'OtherErr')})" if "exc" in ld else f"(inr {c_ref(ld)})"
    bits = [f"check_load {c_cfg(cfg)} {c_ref(case['ref'])} {out}"]
    for w in res["written"]:
        h = w["hyp"]
        ok_shape = len(h["shape"]) == 1 or (len(h["shape"]) == 2 and h["shape"][1] == 3)
        if "exc" in w or not ok_shape:
            bits.append("false" if ok_shape else "true")  # odd shapes are outside the model
            continue
        bits.append(f"check_write_hyp {c_oz(cfg.get('sos'))} {c_oz(cfg.get('eos'))} {c_rdata(h)} {c_rdata(w['out'])}")
    return "[" + "; ".join(bits) + "]"


# ----------------------------------------------------------------------------------------
# generators
# ----------------------------------------------------------------------------------------

def feat(Tn, F, dtype="float32"):
    return T(dtype, [Tn, F])


def utt(uid, Tn, F=2, ali=True, ref=None, fdtype="float32"):
    u = {"id": uid, "feat": feat(Tn, F, fdtype), "ali": None, "ref": None}
    if ali is True:
        u["ali"] = T("int64", [Tn], [(i // 2) % 3 for i in range(Tn)])
    elif ali:
        u["ali"] = ali
    u["ref"] = ref
    return u


def ref2(rows, dtype="int64"):
    return T(dtype, [len(rows), 3], [x for r in rows for x in r])


def ref1(toks, dtype="int64"):
    return T(dtype, [len(toks)], list(toks))


def V(fix):
    return {"api": "validate", "fix": fix}


def CLI(strict=False, fix=None, bare=False):
    op = {"api": "cli", "strict": strict, "fix": fix}
    if bare:
        op["bare_fix"] = True
    return op


def mkcase(utts, ops, cfg=None, stream="exhaustive", **kw):
    c = {"kind": "dir", "utts": utts, "ops": ops, "cfg": cfg or {}, "stream": stream}
    c.update(kw)
    return c


FIXES = [None, 0, 1, 2, 3, -1, True, False]


def exhaustive_cases(full):
    """Unit directories: one kind of defect at a time, against every tolerance, each followed by a strict
    re-validation (the 'fix sticks' history)."""
    cases = []
    good = utt("a", 3, ref=ref2([[1, 0, 2], [2, -1, -1]]))
    # (1) alignment length T' against T, every tolerance
    for Tn, Tp, fx in itertools.product(range(0, 4), range(0, 7), FIXES):
        a = T("int64", [Tp], [(i % 3) for i in range(Tp)])
        cases.append(mkcase([good, utt("b", Tn, ali=a, ref=ref2([]))], [V(fx), V(None)]))
    # (2) one reference row (s, e) against T, every tolerance; second row valid
    rng_b = range(-2, 6) if full else range(-2, 5)
    for Tn, s, e, fx in itertools.product(range(0, 3), rng_b, rng_b, [None, 0, 1, 2, 3]):
        r = ref2([[1, s, e], [0, 0, Tn]])
        cases.append(mkcase([utt("b", Tn, ref=r)], [V(fx), V(None)]))
    # (2b) transcripts in which NO token has a start (every start is negative) but some end is given: the boundary
    # loop must still see the unpaired ends (robustness audit; quick and thorough alike)
    for Tn, e, e2, fx in itertools.product((0, 2), range(-2, 4), (-1, 1), (None, 1)):
        for rows in ([[1, -1, e]], [[1, -1, e], [0, -2, e2]]):
            cases.append(mkcase([utt("b", Tn, ref=ref2(rows))], [V(fx), V(None)], stream="audit-nostart"))
    # (3) dtypes of each tensor kind, strict and fixing
    dts = list(DT)
    for dt, fx, which in itertools.product(dts, [None, 0], ["feat", "ali", "ref1", "ref2"]):
        u = utt("b", 2, ref=ref2([[1, 0, 1]]))
        if which == "feat":
            u["feat"] = feat(2, 2, dt)
        elif which == "ali":
            u["ali"] = T(dt, [2], [1, 0])
        elif which == "ref1":
            u["ref"] = ref1([1, 0], dt)
        else:
            u["ref"] = ref2([[1, 0, 1]], dt)
        first = utt("a", 3, ref=(ref1([2]) if which == "ref1" else ref2([[1, 0, 2]])))
        for order in ((first, u), (u, first)) if which == "feat" else ((first, u),):
            cases.append(mkcase([dict(order[0], id="a"), dict(order[1], id="b")], [V(fx), V(None)]))
    # (4) reference dimensionalities in sequence
    kinds = {"1d": ref1([1, 2]), "2d": ref2([[1, 0, 1]]), "e1": ref1([]), "e2": ref2([]),
             "w2": T("int64", [1, 2], [1, 0]), "w0": T("int64", [2, 0], []), "w4": T("int64", [0, 4], []),
             "0d": T("int64", [], [3]), "3d": T("int64", [1, 3, 1], [1, 0, 1])}
    for k1, k2, k3 in itertools.product(kinds, kinds, ["1d", "2d", None]):
        us = [utt("a", 2, ref=kinds[k1]), utt("b", 2, ref=kinds[k2])]
        if k3:
            us.append(utt("c", 2, ref=kinds[k3]))
        cases.append(mkcase(us, [V(None), V(1)]))
    # (5) feature shapes / widths / dtypes in sequence
    shapes = [[2, 2], [2, 3], [0, 2], [2], [2, 2, 1], [], [2, 0]]
    for s1, s2, fx in itertools.product(shapes, shapes, [None, 1]):
        us = [utt("a", 0, ali=False), utt("b", 0, ali=False)]
        us[0]["feat"], us[1]["feat"] = T("float32", s1), T("float32", s2)
        cases.append(mkcase(us, [V(fx)]))
        cases.append(mkcase(us, [CLI(False, None)]))
    # (6) alignment shapes
    for sh, fx in itertools.product([[2], [2, 1], [1, 2], [], [0], [3]], [None, 2]):
        cases.append(mkcase([utt("a", 2, ali=T("int64", sh))], [V(fx), CLI(False, None)]))
    # (7) the command line: every flag combination on a valid, a repairable and a broken directory
    okd = [utt("a", 3, ref=ref2([[1, 0, 2], [0, 2, 3], [1, -1, -1]])), utt("b", 2, ref=ref2([[3, 1, 2]]))]
    fixable = [utt("a", 3, ref=ref2([[1, 0, 4], [0, -1, 3]])), utt("b", 2, ali=T("int32", [3], [0, 0, 1]), ref=ref2([[3, 1, 2]]))]
    broken = [utt("a", 3, ref=ref2([[1, 2, 1]])), utt("b", 2)]
    for dset, (strict, fx, bare) in itertools.product(
            [okd, fixable, broken],
            [(False, None, False), (True, None, False), (False, 1, True), (False, 0, False), (False, 1, False),
             (False, 2, False), (False, 5, False)]):
        cases.append(mkcase(dset, [CLI(strict, fx, bare), V(None)]))
    # (8) statistics corner cases: empty transcripts only, empty segments, 1-D refs, many classes
    stats = [
        [utt("a", 2, ref=ref1([]))], [utt("a", 2, ref=ref2([]))], [utt("a", 2, ref=ref2([])), utt("b", 1, ref=ref2([[0, 0, 1]]))],
        [utt("a", 4, ref=ref2([[1, 0, 2], [1, 3, 3]]))], [utt("a", 4, ref=ref2([[1, 2, 2]]))],
        [utt("a", 4, ref=ref2([[1, 0, 2], [1, -1, -1], [0, 1, 4]]))], [utt("a", 4, ref=ref1([2, 2, 0]))],
        [utt("a", 12, ali=T("int64", [12], [0, 0, 11, 11, 10, 0, 0, 3, 3, 3, 0, 11]), ref=ref1([10, 0, 12]))],
        [utt("a", 3, ali=False)], [], [utt("a", 0, ref=ref2([[0, 0, 0]]))],
        [utt("a", 3, ali=T("int64", [3], [1, 1, 1])), utt("b", 2, ali=T("int64", [2], [1, 0]))],
        [utt("a", 2, ali=T("int64", [2], [100, 9]), ref=ref1([100]))],
        [utt("a", 2, ali=T("int64", [2], [9, 0]), ref=ref1([9, 9]))],
        [utt("a", 2, ali=T("int64", [2], [10, 10]), ref=ref1([10]))],
        [utt("a", 2, ali=T("int64", [2], [99, 9]), ref=ref2([[99, 0, 1]]))],
        [utt("a", 1, ali=T("int64", [1], [1]), ref=ref1([1]))],
        [utt("a", 1, ali=T("int64", [1], [0]), ref=ref1([0]))],
    ]
    for dset, (strict, fx) in itertools.product(stats, [(False, None), (True, None), (False, 1)]):
        cases.append(mkcase(dset, [CLI(strict, fx)]))
    # (9) data-set options: sos/eos, tokens_only, suppress_alis against strict / fixing validation
    refs = [ref2([[1, 0, 2], [2, -1, -1]]), ref2([[1, 0, 4]]), ref2([[1, -1, 2]]), ref2([[1, 0, 2]], "int32"),
            ref2([[1, 0, 2]], "uint8"), ref1([1, 2]), ref1([1, 2], "int16"), ref1([]), ref2([]), ref2([[1, 3, 1]])]
    cfgs = [{"sos": 7}, {"eos": 8}, {"sos": 7, "eos": 8}, {"sos": 5, "eos": 5}, {"tokens_only": True},
            {"suppress_alis": True}, {"sos": 7, "tokens_only": True}]
    for r, cf, fx in itertools.product(refs, cfgs, [None, 0, 1]):
        cases.append(mkcase([utt("a", 3, ref=r)], [V(fx), V(None)], cfg=cf))
    cases.append(mkcase([], [V(None)], cfg={"suppress_alis": True}))
    # (10) discovery: prefixes, suffixes, decoys, missing companions, subsets
    bad_ali = T("int32", [5], [0, 1, 2, 3, 4])
    for pre, suf in itertools.product(["", "p_"], [".pt", "", ".x"]):
        us = [utt("a", 2, ref=ref1([1])), utt("b", 2, ref=ref1([2]))]
        decoys = [{"sub": "feat", "name": pre + "zz" + suf, "tensor": feat(2, 5)},      # no ali/ref companion
                  {"sub": "ali", "name": pre + "yy" + suf, "tensor": bad_ali},           # no feat
                  {"sub": "ref", "name": pre + "a" + suf + ".bak", "tensor": ref2([[1, 5, 2]])}]
        if pre:
            decoys.append({"sub": "feat", "name": "a" + suf, "tensor": feat(2, 7)})
        if suf == "":
            decoys = decoys[:2] + ([decoys[3]] if pre else [])
        cases.append(mkcase(us, [V(None), V(1), CLI(True, None)], prefix=pre, suffix=suf, decoys=decoys))
        cases.append(mkcase(us + [utt("c", 3, ali=bad_ali, ref=ref1([0]))], [V(None), CLI(False, None)], prefix=pre,
                            suffix=suf, subset=["a", "b", "nope"]))
        for ops in ([CLI(True, None)], [V(None)], [CLI(False, 1)], [CLI(False, 2), V(None)], [V(2), CLI(True, None)]):
            cases.append(mkcase(us + [utt("c", 3, ali=bad_ali, ref=ref1([0]))], ops, prefix=pre, suffix=suf,
                                decoys=decoys[:1]))
    if not full:
        # the quick tier keeps half of the two big sweeps, everything else whole
        n1 = 4 * 7 * len(FIXES)
        n2 = 3 * len(rng_b) ** 2 * 5
        keep = [c for i, c in enumerate(cases[:n1]) if i % 2 == 0]
        keep += [c for i, c in enumerate(cases[n1:n1 + n2]) if i % 2 == 1]
        cases = keep + cases[n1 + n2:]
    return cases


def rand_tensor_ref(rng, Tn, two_d, defects):
    R = rng.choice([0, 1, 1, 2, 3])
    if not two_d:
        return ref1([rng.randint(0, 4) for _ in range(R)])
    rows = []
    if defects and R and rng.random() < 0.15:
        # no token has a start; ends are a mixture of unknown and given (unpaired) ones
        return ref2([[rng.randint(0, 4), rng.choice([-1, -1, -2]), rng.choice([-1, 0, rng.randint(0, Tn + 1)])] for _ in range(R)])
    for _ in range(R):
        kind = rng.choice(["none", "ok", "ok", "ok"] + defects)
        tok = rng.randint(0, 4)
        if kind == "none":
            rows.append([tok, rng.choice([-1, -1, -3]), rng.choice([-1, -2])])
        elif kind == "ok":
            s = rng.randint(0, Tn)
            rows.append([tok, s, rng.randint(s, Tn)])
        elif kind == "half":
            rows.append([tok, -1, rng.randint(0, Tn + 2)] if rng.random() < .5 else [tok, rng.randint(0, Tn + 2), -1])
        elif kind == "over":
            s = rng.randint(0, Tn + 1)
            rows.append([tok, s, max(s, Tn + (rng.randint(1, 3) if rng.random() < 0.9 else rng.choice([1000, 10 ** 6, 2 ** 40])))])
        elif kind == "rev":
            e = rng.randint(0, Tn)
            rows.append([tok, e + rng.randint(1, 2), e])
    return ref2(rows)


INT_DTYPES = ("int64", "int32", "int16", "int8", "uint8")


def _sane_op(utts, op):
    """Statistics WITHOUT validation are modelled (and documented) only for integer-typed alignments/references:
    on other dtypes the report code fails with TypeError or prints non-integers.  Such a step is validated."""
    if op["api"] == "cli" and not op["strict"] and op["fix"] is None:
        for u in utts:
            for s in ("ali", "ref"):
                if u.get(s) is not None and u[s]["dtype"] not in INT_DTYPES:
                    return CLI(True, None)
    return op


def random_dir_case(rng, flavour):
    n = rng.choice([1, 2, 2, 3, 3, 4])
    F = rng.choice([1, 2, 3])
    two_d = rng.random() < .6
    has_ali = rng.random() < .7
    has_ref = rng.random() < .8
    p_def = {"valid": 0.0, "light": 0.25, "heavy": 0.6}[flavour]
    utts = []
    # utterance ids: the usual u0..u3, or ids one of which extends another by a character that sorts before '.'
    # (order by id differs from order by file name), contains the suffix, or starts like the prefix
    names = ["u%d" % i for i in range(n)]
    if rng.random() < 0.3:
        names = rng.sample(["a", "a-1", "a+", "a.pt", "p_a", "ab", "b", "a.", "A"], n)
    for i in range(n):
        Tn = rng.choice([0, 1, 2, 3, 4, 5])
        u = utt(names[i], Tn, F, ali=False)
        if has_ali:
            Tp = Tn
            if rng.random() < p_def:
                Tp = max(0, Tn + rng.choice([1, 1, 2, 3, -1]))
            u["ali"] = T("int64", [Tp], [rng.randint(0, 3) for _ in range(Tp)])
            if rng.random() < p_def / 2:
                u["ali"]["dtype"] = rng.choice(INT_NARROW + ["float32", "bool"])
                if u["ali"]["dtype"] == "bool":
                    u["ali"]["vals"] = [v % 2 for v in u["ali"]["vals"]]
            if rng.random() < p_def / 6:
                u["ali"] = T("int64", [Tn, 1], [1] * Tn)
        if has_ref:
            defects = ["half", "over", "over", "rev"] if rng.random() < 2 * p_def else []
            u["ref"] = rand_tensor_ref(rng, Tn, two_d if rng.random() >= p_def / 4 else not two_d, defects)
            if rng.random() < p_def / 2:
                u["ref"]["dtype"] = rng.choice(INT_NARROW + ["float32"])
        if rng.random() < p_def / 5:
            u["feat"] = T("float32", [Tn, F + 1])
        if rng.random() < p_def / 6:
            u["feat"]["dtype"] = "float64"
        if rng.random() < p_def / 10:
            u["feat"] = T("float32", [Tn])
        for s_ in ("feat", "ali", "ref"):
            # the same logical tensor stored as a non-contiguous view
            if u.get(s_) is not None and rng.random() < 0.2:
                u[s_]["layout"] = rng.choice(["t", "off", "step"])
        utts.append(u)
    fixes = [None, 0, 1, 1, 2, 3, 5, -1, True, False, 1000]
    ops = []
    for _ in range(rng.choice([1, 2, 2, 3])):
        if rng.random() < .3:
            strict, fx = rng.choice([(False, None), (True, None), (False, 0), (False, 1), (False, 2), (False, 4), (False, 1000)])
            op = CLI(strict, fx, bare=(fx == 1 and rng.random() < .3))
            if fx is not None and not op.get("bare_fix") and rng.random() < .3:
                op["eq_fix"] = True          # --fix=N
            if rng.random() < .25:
                op["stdout"] = True          # report printed instead of written to the named file
            if rng.random() < .25:
                op["omit_defaults"] = True   # --file-prefix / --file-suffix left out when they have their defaults
            ops.append(op)
        else:
            op = V(rng.choice(fixes))
            r_ = rng.random()
            if r_ < .15:
                op["style"] = "kw"
            elif r_ < .3:
                op["style"] = "omit"
            ops.append(op)
    ops = [_sane_op(utts, op) for op in ops]
    extra = {}
    if rng.random() < .2:
        # non-default sub-directory names, handed to the data set and to the command line alike
        extra["subdirs"] = rng.choice([{"feat": "f", "ali": "a", "ref": "r"}, {"ali": "feats"}, {"ref": "ali2", "feat": "ref2"}])
    if rng.random() < .15:
        extra["warn_missing"] = True
    if rng.random() < .25:
        pre, suf = rng.choice(["", "p_", "ab"]), rng.choice([".pt", ".pt", ".x", ""])
        extra.update({"prefix": pre, "suffix": suf})
        if rng.random() < .5:
            extra["decoys"] = [{"sub": rng.choice(["feat", "ali", "ref"]) if (has_ali and has_ref) else "feat",
                                "name": pre + "zz" + str(rng.randint(0, 9)) + suf, "tensor": T("int32", [7], [1] * 7)}]
        if rng.random() < .3 and not any(op["api"] == "cli" for op in ops):
            extra["subset"] = [u["id"] for u in utts if rng.random() < .7] or ["nope"]
    cfg = {}
    r = rng.random()
    if r < .15:
        cfg = rng.choice([{"sos": 6}, {"eos": 7}, {"sos": 6, "eos": 7}, {"sos": 0}, {"eos": 0}, {"sos": 0, "eos": 7}])
    elif r < .2:
        cfg = {"tokens_only": True}
    elif r < .23:
        cfg = {"suppress_alis": True}
    return mkcase(utts, ops, cfg=cfg, stream="random-" + flavour, **extra)


def malformed_case(rng):
    """outside the quantifier: negative tokens / classes; judged against the model only."""
    c = random_dir_case(rng, "light")
    c["stream"] = "malformed"
    for u in c["utts"]:
        if u.get("ref") and u["ref"]["vals"] and rng.random() < .6:
            w = 3 if len(u["ref"]["shape"]) == 2 else 1
            k = rng.randrange(0, len(u["ref"]["vals"]), w)
            u["ref"]["vals"][k] = -rng.randint(1, 3)
        if u.get("ali") and u["ali"]["vals"] and u["ali"]["dtype"] in ("int64", "int32") and rng.random() < .4:
            u["ali"]["vals"][rng.randrange(len(u["ali"]["vals"]))] = -1
    return c


def rw_cases(rng, n):
    cases = []
    syms = [(None, None), (7, None), (None, 8), (7, 8), (5, 5), (0, 1)]
    refs = [ref1([]), ref1([1]), ref1([1, 2, 3]), ref2([]), ref2([[1, 0, 2]]), ref2([[1, -1, -1], [2, 0, 1]]),
            ref1([7, 1, 8, 2]), ref1([8, 7]), ref2([[7, 0, 1], [1, 1, 2], [8, 2, 2], [3, 0, 0]]),
            ref1([1, 2], "int32"), ref2([[1, 0, 2]], "uint8"), ref1([1, 0], "uint8"), ref1([5, 5, 5]),
            T("int64", [2, 2], [1, 0, 2, 0]), T("int64", [1, 0], []), T("int64", [], [3]), T("int64", [1, 1, 1], [2]),
            T("int64", [0, 4], [])]
    hyps = [ref1([7, 1, 7, 2, 8, 3, 8]), ref1([8]), ref1([7]), ref1([1, 7]), ref1([8, 1]), ref1([0, 1, 2], "float32"),
            ref2([[7, -1, -1], [1, 0, 1], [8, -1, -1], [2, 1, 1]]), ref2([[1, 7, 8]]), ref2([]), ref1([])]
    for (sos, eos), r, to, lang in itertools.product(syms, refs, [False, True], [False, True]):
        if lang and len(r["shape"]) not in (1, 2):
            continue
        cases.append({"kind": "rw", "ref": r, "cfg": {"sos": sos, "eos": eos, "tokens_only": to},
                      "hyps": hyps if (r is refs[2] or r is refs[5]) and not to else [], "lang": lang,
                      "default_dir": (not lang) and sos == 7, "stream": "rw-exhaustive"})
    for _ in range(n):
        sos, eos = rng.choice(syms + [(2, 3), (3, 2)])
        two = rng.random() < .5
        R = rng.randint(0, 5)
        if two:
            r = ref2([[rng.randint(0, 4), rng.randint(-1, 2), rng.randint(-1, 3)] for _ in range(R)])
        else:
            r = ref1([rng.randint(0, 4) for _ in range(R)])
        hs = []
        for _ in range(2):
            L = rng.randint(0, 6)
            pool = [0, 1, 2, 3, 4] + [x for x in (sos, eos) if x is not None] * 2
            if rng.random() < .5:
                hs.append(ref1([rng.choice(pool) for _ in range(L)], rng.choice(["int64", "int32", "float32"])))
            else:
                hs.append(ref2([[rng.choice(pool), rng.randint(-1, 8), rng.randint(-1, 8)] for _ in range(L)]))
        for t_ in [r] + hs:
            # stored reference / handed hypothesis as a non-contiguous view of the same logical tensor
            if rng.random() < .3:
                t_["layout"] = rng.choice(["t", "off", "step"])
        cases.append({"kind": "rw", "ref": r, "cfg": {"sos": sos, "eos": eos, "tokens_only": rng.random() < .25},
                      "hyps": hs, "lang": rng.random() < .3, "default_dir": False, "stream": "rw-random"})
    return cases


def gen_cases(chk):
    full = chk.tier == "thorough"
    cases = exhaustive_cases(full)
    chk.extra["exhaustive"] = full
    chk.extra["exhaustive_scope"] = (
        "unit directories: alignment length T'<=6 vs T<=3 x 8 tolerances; one reference row (s,e) in [-2,5]^2 vs T<=2 x "
        "5 tolerances; 9 dtypes x {feat,ali,ref 1-D,ref 2-D} x {strict,fix}; all sequences of 2-3 reference shapes out of 9; "
        "7x7 feature shapes; 6 alignment shapes; 7 command-line flag settings x 3 directories; 13 statistics corner "
        "cases; 10 references x 7 data-set option sets x 3 tolerances; 6 prefix/suffix settings with decoy files and "
        "subsets; each followed by a strict re-validation" + ("" if full else " [quick tier: half of the two big sweeps]"))
    for c in vlib.load_corpus("C12"):
        c = dict(c.get("case", c))
        c["stream"] = "corpus"
        cases.append(c)
    rng = chk.rng
    nrand = 12000 if full else 1200
    for i in range(nrand):
        fl = ("valid", "light", "light", "heavy")[i % 4]
        cases.append(random_dir_case(rng, fl))
    for _ in range(1500 if full else 200):
        cases.append(malformed_case(rng))
    cases += rw_cases(rng, 3000 if full else 400)
    return cases


# ----------------------------------------------------------------------------------------
# judging
# ----------------------------------------------------------------------------------------

def nontrivial(case, r=None):
    """a directory case counts when some call found a defect (raised, or changed a file) or when the data set has a
    non-default option or the call produced a report with tokens or classes; an rw case when a symbol is configured."""
    if case["kind"] == "rw":
        return case["cfg"].get("sos") is not None or case["cfg"].get("eos") is not None
    if not case["utts"] or not case["ops"]:
        return False
    if any(v not in (None, False) for v in case.get("cfg", {}).values()):
        return True
    for st in (r or {}).get("steps", []):
        if st["out"]["exc"] or st["pre"] != st["post"]:
            return True
        rep = st["out"].get("report")
        if rep and (rep["max_ali_class"] >= 0 or rep["max_ref_class"] >= 0):
            return True
    return False


def classify(case, op, comp):
    cfg = case.get("cfg", {})
    # F12 (--fix 0), F13 (total_tokens) and F14 (rcount of empty segments) are repaired in /repo; the model follows
    if comp == 0:
        if op["api"] == "cli":
            return None  # F12 (--fix 0 skipped validation) is repaired in /repo (0bbdd7f); the model validates
        if cfg.get("suppress_alis"):
            return "F10"
        if cfg.get("tokens_only"):
            return "F11"
        fx = op["fix"]
        if (cfg.get("sos") is not None or cfg.get("eos") is not None) and fx is not None and fx is not False:
            return "F9"
    return None


def signature_fn(entry, record):
    """a listed 'known' entry suppresses a record only if it is the same finding, the implementation output
    equals the as-coded model's, and the case has the finding's trigger."""
    if entry.get("id") != record.get("finding"):
        return False
    if record.get("relation") != "impl == as-coded model, model fails the spec on this component":
        return False
    case, op = record["case"], record["op"]
    return classify(case, op, record["component"]) == entry["id"]


COMPONENTS = ["validation (raise/return and directory afterwards)", "report (all keys but total_tokens, rcount_*)",
              "report total_tokens", "report rcount_<i>"]
THEOREMS = ["c12_strict_accepts_iff_wellformed", "c12_strict_never_writes", "c12_fix_accepts_iff_repairable",
            "c12_fix_result_is_repair", "c12_fix_error_partial", "c12_fix_then_strict_passes", "c12_valid_never_touched",
            "c12_tolerance_exact_ali", "c12_tolerance_exact_ref", "c12_cli_like_validate",
            "c12_cli_unvalidated_never_writes", "c12_info_is_recount", "c12_info_after_fix_is_recount"]


class Judge:
    def __init__(self, chk):
        self.chk = chk
        self.hits = {}       # finding -> count (impl == as-coded model where the model fails the spec)
        self.repaired = {}   # finding -> count (impl meets the spec where the as-coded model does not)
        self.examples = {}
        self.concrete = []   # (case index, step index, record)
        self.nfi = []
        self.outside = []  # model mismatches outside the quantifier: recorded only

    def step(self, ci, si, case, st, bits):
        m, simp, smod, inq = bits[0], bits[1:5], bits[5:9], bits[9]
        rec0 = {"case": {k: v for k, v in case.items() if k != "stream"}, "step": si, "op": st["op"],
                "pre": st["pre"], "impl": {"post": st["post"], "out": st["out"]},
                "correspondence": "corr:C12:" + ("validate_spect_data_set" if st["op"]["api"] == "validate"
                                                 else "get-torch-spect-data-dir-info"),
                "theorems_at_stake": THEOREMS}
        if not inq:
            # negative token ids / alignment classes / symbols: the property says nothing here and the spec judge does
            # not apply, so a difference from the model is recorded in the evidence but is never a verdict by itself
            # (a real drift of the model shows up on the in-quantifier cases, which are the large majority)
            if not m:
                self.outside.append((ci, si, dict(rec0, what="outside the quantifier (negative ids): implementation "
                                                            "differs from the model (recorded, not a violation)")))
            return
        for comp in range(4):
            if not smod[comp]:
                fid = classify(case, st["op"], comp)
                if m:
                    if fid is None:
                        self.concrete.append((ci, si, dict(rec0, component=comp, what="as-coded model and implementation "
                                              "agree but fail the spec outside every listed finding: " + COMPONENTS[comp])))
                    else:
                        self.hits[fid] = self.hits.get(fid, 0) + 1
                        self.examples.setdefault(fid, dict(rec0, component=comp, finding=fid,
                                                           relation="impl == as-coded model, model fails the spec on this component",
                                                           what=FINDINGS[fid]["what"]))
                elif simp[comp]:
                    if fid is not None:
                        self.repaired[fid] = self.repaired.get(fid, 0) + 1
                else:
                    self.concrete.append((ci, si, dict(rec0, component=comp, what="implementation differs from the as-coded "
                                          "model and fails the spec: " + COMPONENTS[comp])))
            elif not simp[comp]:
                self.concrete.append((ci, si, dict(rec0, component=comp,
                                      what="implementation output violates the property: " + COMPONENTS[comp])))
        if not m and all(simp) and all(smod):
            self.nfi.append((ci, si, dict(rec0, what="implementation differs from the model but its output satisfies the "
                                                    "property's boolean reading")))


def _eval_cases(chk, cases, tag="bits"):
    """run implementation + Coq on a list of cases; returns (impl results, per-case list of bit lists)."""
    res = run_impl_all(chk, cases)
    terms, owner = [], []
    for i, (c, r) in enumerate(zip(cases, res)):
        if "harness_error" in r:
            raise RuntimeError("harness error on case %d: %s" % (i, r["harness_error"]))
        if c["kind"] == "dir":
            for j, st in enumerate(r["steps"]):
                terms.append(step_term(c, st))
                owner.append((i, j))
        else:
            terms.append(rw_terms(c, r))
            owner.append((i, 0))
    vals = coq_eval_bitlists(chk.workdir, terms, tag=tag)
    per = [dict() for _ in cases]
    for (i, j), v in zip(owner, vals):
        per[i][j] = v
    return res, per


def _violates(chk, case):
    """used while shrinking: does this case still produce a concrete violation?"""
    res, per = _eval_cases(chk, [case], tag="shr")
    j = Judge(chk)
    _judge_case(j, 0, case, res[0], per[0])
    return bool(j.concrete)


def _judge_case(j, ci, case, r, bits):
    for s in r.get("side", []):
        j.concrete.append((ci, -1, {"case": {k: v for k, v in case.items() if k != "stream"}, "what": "python-level check: " + s}))
    if case["kind"] == "dir":
        for si, st in enumerate(r["steps"]):
            j.step(ci, si, case, st, bits[si])
    else:
        b = bits[0]
        if not all(b):
            j.concrete.append((ci, 0, {"case": {k: v for k, v in case.items() if k != "stream"}, "impl": r,
                                        "bits": b, "theorems_at_stake": ["c12_sos_eos_wrap_1d", "c12_sos_eos_wrap_2d",
                                                                         "c12_sos_eos_wrap_tokens_only",
                                                                         "c12_strip_wrap_roundtrip_1d",
                                                                         "c12_strip_wrap_roundtrip_2d",
                                                                         "c12_write_hyp_strips"],
                                        "what": "_load_ref/_write_hyp output differs from the model, which is proved equal "
                                                "to the spec (wrap / strip)"}))
        # the property's round trip, judged directly on the implementation
        cfg = case["cfg"]
        k = r.get("roundtrip_index")
        if k is not None and "out" in r["written"][k] and not cfg.get("tokens_only"):
            sos, eos = cfg.get("sos"), cfg.get("eos")
            toks = case["ref"]["vals"][::3] if len(case["ref"]["shape"]) == 2 else case["ref"]["vals"]
            free = all(t != sos and t != eos for t in toks) and (sos is None or sos != eos)
            same_dtype = case["ref"]["dtype"] != "uint8"
            if free and same_dtype and (r["written"][k]["out"]["vals"] != case["ref"]["vals"]
                                        or r["written"][k]["out"]["shape"] != case["ref"]["shape"]):
                j.concrete.append((ci, 0, {"case": {k2: v for k2, v in case.items() if k2 != "stream"}, "impl": r,
                                            "what": "write_hyp(read reference) does not give back the bare tokens"}))


def _cands(case):
    if case["kind"] != "dir":
        if case.get("hyps"):
            yield dict(case, hyps=case["hyps"][:-1])
        return
    if len(case["ops"]) > 1:
        yield dict(case, ops=case["ops"][1:])
        yield dict(case, ops=case["ops"][:-1])
    for i in range(len(case["utts"])):
        yield dict(case, utts=case["utts"][:i] + case["utts"][i + 1:])
    if case.get("decoys"):
        yield dict(case, decoys=[])
    if case.get("subset"):
        yield dict(case, subset=None)
    if case.get("cfg"):
        yield dict(case, cfg={})
    for i, u in enumerate(case["utts"]):
        for s in ("ali", "ref"):
            if u.get(s) is not None and not any(v.get(s) is None for v in case["utts"]):
                pass
        if u.get("ref") is not None and len(u["ref"]["shape"]) == 2 and u["ref"]["shape"][0] > 1 and u["ref"]["shape"][1] == 3:
            rows = [u["ref"]["vals"][3 * k:3 * k + 3] for k in range(u["ref"]["shape"][0])]
            for k in range(len(rows)):
                nu = dict(u, ref=ref2(rows[:k] + rows[k + 1:], u["ref"]["dtype"]))
                yield dict(case, utts=case["utts"][:i] + [nu] + case["utts"][i + 1:])
    if all(u.get("ali") is not None for u in case["utts"]) and case["utts"]:
        yield dict(case, utts=[dict(u, ali=None) for u in case["utts"]])
    if all(u.get("ref") is not None for u in case["utts"]) and case["utts"]:
        yield dict(case, utts=[dict(u, ref=None) for u in case["utts"]])


def run(chk, cases=None):
    chk.rule = (
        "directory case = (listed utterances with stored (dtype, shape, integer payload) per feat/ali/ref file, decoy files, "
        "prefix/suffix/subset, data-set options sos/eos/tokens_only/suppress_alis, a history of validate_spect_data_set(ds, fix) "
        "and get-torch-spect-data-dir-info [--strict|--fix N] calls on the same real directory); after every call the "
        "exception kind / parsed report and the re-read files are compared with PV.C12.Model.run_op (vm_compute) started from "
        "the observed previous state, and judged by PV.C12.Spec.spec_bits; rw case = a stored reference read through "
        "__getitem__ and hypotheses written through write_hyp of SpectDataSet/LangDataSet vs load_ref/write_hyp. "
        "non-trivial = distinct digests of directory cases in which some call raised, changed a file, produced a report with classes/tokens, or ran through a data set with a non-default option; rw cases with a configured symbol")
    chk.assumptions += [
        "CUDA tensors cannot be produced on this machine: the cuda branches of the model (repair 1) are proved about but "
        "never exercised by the correspondence",
        "utterance discovery (find_utt_ids/_utts_in_dir) is compared with an independent Python oracle, not with a Gallina model",
        "sos/eos are small (< 100) so that they fit every integer dtype; the model does not describe new_full overflow",
        "statistics without validation are modelled only for directories whose tensors have the documented ranks "
        "(the documentation promises nothing there)",
        "non-tensor objects in the directory are not generated",
    ]
    replaying = cases is not None
    cases = cases if replaying else gen_cases(chk)
    streams = [c.get("stream", "random") for c in cases]
    res, per = _eval_cases(chk, cases)
    j = Judge(chk)
    for ci, (case, r, bits) in enumerate(zip(cases, res, per)):
        chk.note_case({k: v for k, v in case.items() if k != "stream"}, nontrivial(case, r), streams[ci])
        chk.count("kind=" + case["kind"])
        if case["kind"] == "dir":
            chk.count("n_utts=%d" % len(case["utts"]))
            cfg = case.get("cfg", {})
            chk.count("cfg=" + (",".join(sorted(k for k, v in cfg.items() if v not in (None, False))) or "plain"))
            for st in r["steps"]:
                op = st["op"]
                key = ("validate fix=%r" % (op["fix"],)) if op["api"] == "validate" else \
                      ("cli strict=%s fix=%r" % (op["strict"], op["fix"]))
                chk.count("op=" + key)
                chk.count("outcome=" + (st["out"]["exc"] or "returned"))
                if st["pre"] != st["post"]:
                    chk.count("outcome: directory changed" + (" then raised" if st["out"]["exc"] else ""))
        else:
            chk.count("rw loaded=" + ("exc" if "exc" in r["loaded"] else "ok"))
        _judge_case(j, ci, case, r, bits)
    chk.extra["model_disagreements"] = sum(1 for ci in range(len(cases)) for b in per[ci].values() if not b[0])
    chk.extra["findings_exhibited"] = {k: {"cases": v, "inside_quantifier": FINDINGS[k]["in_q"], "what": FINDINGS[k]["what"]}
                                       for k, v in sorted(j.hits.items())}
    chk.extra["findings_repaired_cases"] = dict(sorted(j.repaired.items()))
    # findings the as-coded model shares with the implementation
    for fid, n in sorted(j.hits.items()):
        if not FINDINGS[fid]["in_q"]:
            continue
        rec = dict(j.examples[fid], cases_this_run=n)
        chk.report(rec, signature_fn)
        if fid in chk.known_hits:
            chk.known_hits[fid][1] = n
        if j.repaired.get(fid):
            chk.report(dict(rec, what="mixture: the implementation shows finding %s on %d cases and meets the spec on %d "
                                      "others of the same kind" % (fid, n, j.repaired[fid])))
    # concrete violations: shrink the first few, report
    seen = 0
    for ci, si, rec in j.concrete:
        if seen >= 4:
            break
        seen += 1
        if not replaying and "case" in rec and si >= 0:
            try:
                small = shrink(dict(rec["case"]), lambda c: _violates(chk, c), _cands, budget=30)
                r2, p2 = _eval_cases(chk, [small], tag="shr")
                j2 = Judge(chk)
                _judge_case(j2, 0, small, r2[0], p2[0])
                if j2.concrete:
                    rec = dict(j2.concrete[0][2], shrunk_from=digest_of(rec["case"]))
            except Exception as e:  # keep the unshrunk record
                rec = dict(rec, shrink_error=repr(e)[:200])
        chk.report(rec)
    if not j.concrete and j.nfi:
        chk.report(j.nfi[0][2], no_failing_input=True)
    chk.extra["concrete_violations"] = len(j.concrete)
    chk.extra["model_only_disagreements"] = len(j.nfi)
    chk.extra["outside_quantifier_model_mismatches"] = len(j.outside)
    if j.outside:
        chk.extra["outside_quantifier_example"] = {k: j.outside[0][2][k] for k in ("case", "step", "op", "impl")}
    from props import c12_tie   # source tie: the translated _datasets.py functions, interpreted in Coq, on this run's cases
    c12_tie.source_tie(chk, cases, res)


def digest_of(obj):
    return hashlib.sha1(json.dumps(obj, sort_keys=True, default=str).encode()).hexdigest()[:12]


def replay(chk, path):
    rec = json.loads(open(path).read())
    case = dict(rec["case"])
    case.pop("stream", None)
    case.setdefault("kind", "dir")
    run(chk, [case])
