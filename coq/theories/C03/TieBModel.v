(* C03, second tie - the closed forms of TieB.v (what the statements of `hard_optimal_completion_distillation_loss` leave) are
   PV.C03.Model.hard_ocd_loss: per cell Model.step_loss of the oracle's log-probabilities and the targets, then the reductions.
   A float of the interpreted source is the REDUCED rational [Fq (Qred q)] of the model's value q (the model adds and divides
   without reducing; Qred q == q).  No interpreter in this file. *)
From Coq Require Import ZArith QArith List String Bool Arith Lia ZifyBool ZifyNat.
From PV Require Import MiniPy.Syntax MiniTorch.Ops MiniTorch.Lemmas MiniTorch.OpsC07 MiniTorch.LemmasC07
  MiniTorch.OpsC01 MiniTorch.LemmasC01 MiniTorch.OpsC03 MiniTorch.LemmasC03 MiniTorch.OpsC03B MiniTorch.LemmasC03B.
From PV Require Import C03.TieB.
From PV Require C01.Obs C01.Model C01.Proofs C03.Model C03.ProofsLoss.
Import ListNotations.

#[local] Arguments seq : simpl never.
#[local] Arguments Z.of_nat : simpl never.
#[local] Arguments Z.max : simpl never.

Notation qsum := C03.Model.qsum.
Notation step_loss := C03.Model.step_loss.

(* ---- lists -------------------------------------------------------------------------------------------------------------- *)
Definition nest2 {X} (A B : nat) (f : nat -> nat -> X) : list (list X) := map (fun a => map (f a) (seq 0 B)) (seq 0 A).

Lemma concat_nest2 : forall {X} A B (f : nat -> nat -> X), List.concat (nest2 A B f) = tab2 A B f.
Proof. intros. unfold nest2, tab2. now rewrite <- flat_map_concat_map. Qed.

Lemma nest2_ext : forall {X} A B (f g : nat -> nat -> X), (forall a b, (a < A)%nat -> (b < B)%nat -> f a b = g a b) -> nest2 A B f = nest2 A B g.
Proof. intros. unfold nest2. apply map_ext_seq. intros a Ha. apply map_ext_seq. intros b Hb. now apply H. Qed.

Lemma map2_nest2 : forall {X Y W} (F : X -> Y -> W) A B (f : nat -> nat -> X) (g : nat -> nat -> Y),
  C01.Model.map2 (fun r1 r2 => C01.Model.map2 F r1 r2) (nest2 A B f) (nest2 A B g) = nest2 A B (fun a b => F (f a b) (g a b)).
Proof.
  intros. unfold nest2. rewrite C01.Proofs.map2_map_seq. apply map_ext. intros a. apply C01.Proofs.map2_map_seq.
Qed.

Lemma transpose_nest2 : forall {X} (d : X) A B (f : nat -> nat -> X),
  C01.Model.transpose d B (nest2 A B f) = nest2 B A (fun b a => f a b).
Proof.
  intros. unfold C01.Model.transpose, C01.Model.col, nest2. apply map_ext_seq. intros b Hb.
  rewrite map_map. apply map_ext. intros a. now apply nth_map_seq.
Qed.

Lemma rect_nest2 : forall {X} (l : list (list X)) A B (d : X), List.length l = A -> (forall r, List.In r l -> List.length r = B) ->
  l = nest2 A B (fun a b => nth b (nth a l []) d).
Proof.
  intros X l A B d HA HB. unfold nest2. rewrite (list_as_map_nth l A [] HA) at 1. apply map_ext_seq. intros a Ha.
  apply list_as_map_nth. apply HB. apply nth_In. lia.
Qed.

Lemma existsb_map : forall {X Y} (p : Y -> bool) (h : X -> Y) l, existsb p (map h l) = existsb (fun x => p (h x)) l.
Proof. intros. induction l as [|x l IH]; [reflexivity|]. cbn [map existsb]. now rewrite IH. Qed.

Lemma filter_map_length : forall {X} (p : X -> bool) l, List.length (filter (fun b : bool => b) (map p l)) = List.length (filter p l).
Proof. intros. induction l as [|x l IH]; [reflexivity|]. cbn [map filter]. destruct (p x); cbn [List.length]; now rewrite IH. Qed.

Lemma qsum_app : forall l1 l2, (qsum (l1 ++ l2) == qsum l1 + qsum l2)%Q.
Proof. exact C03.ProofsLoss.qsum_app. Qed.

Lemma qsum_concat : forall ll, (qsum (List.concat ll) == qsum (map qsum ll))%Q.
Proof.
  induction ll as [|l ll IH]; [reflexivity|]. cbn [List.concat map]. rewrite qsum_app, IH. reflexivity.
Qed.

Lemma fsum_red_id : forall l, fsum (map (fun q => Fq (Qred q)) l) = Fq (Qred (qsum l)).
Proof. intros. rewrite (fsum_red (fun q : Q => q) l). now rewrite map_id. Qed.

Lemma mean_vec_model : forall n (f : nat -> fx) (q : nat -> Q), (0 < n)%nat -> (forall i, (i < n)%nat -> f i = Fq (Qred (q i))) ->
  mean_all_f (mkTn [n] (map f (seq 0 n))) = mkTn [] [Fq (Qred (qsum (map q (seq 0 n)) / inject_Z (Z.of_nat (List.length (map q (seq 0 n))))))].
Proof.
  intros n f q Hn Hf. unfold mean_all_f. cbn [dat]. do 2 f_equal.
  rewrite (map_ext_seq f (fun i => Fq (Qred (q i))) n Hf), (fsum_red q), !map_length, seq_length.
  apply fdiv_red_z. lia.
Qed.

(* ---- one cell --------------------------------------------------------------------------------------------------------------- *)
Section Cell.
  Variable lsm : list fx -> list Q.
  Variables (A B C V : nat) (lgv : nat -> nat -> list fx) (tf : nat -> nat -> nat -> Z) (w : option (list Q)) (ign : Z).
  Hypothesis Hlg : forall a b, (a < A)%nat -> (b < B)%nat -> List.length (lgv a b) = V.
  Hypothesis Hw : match w with Some wv => List.length wv = V | None => True end.
  Hypothesis Hok : forall a b c, (a < A)%nat -> (b < B)%nat -> (c < C)%nat -> class_ok ign V (tf a b c) = true.

  Definition lfn (a b v : nat) : fx := nth v (lgv a b) FNaN.
  Definition orow (a b : nat) : list Z := map (tf a b) (seq 0 C).
  Definition sl (a b : nat) : Q := step_loss ign w (lsm (lgv a b)) (orow a b).
  Definition pmf (a b c : nat) : bool := (tf a b c =? ign)%Z.

  Lemma lfn_row a b : (a < A)%nat -> (b < B)%nat -> map (lfn a b) (seq 0 V) = lgv a b.
  Proof. intros Ha Hb. unfold lfn. symmetry. apply list_as_map_nth. now apply Hlg. Qed.

  Lemma cell_entry a b c : (a < A)%nat -> (b < B)%nat -> (c < C)%nat ->
    (if (tf a b c =? ign)%Z then Fq 0 else cef lsm V lfn tf w ign a b c)
    = Fq (Qred (if (tf a b c =? ign)%Z then 0%Q else C03.Model.ce ign w (lsm (lgv a b)) (tf a b c))).
  Proof.
    intros Ha Hb Hc. destruct (tf a b c =? ign)%Z eqn:E; [reflexivity|].
    unfold cef, ce_entry, C03.Model.ce. rewrite E, lfn_row by assumption. cbv zeta.
    destruct w as [wv|]; cbn [option_map].
    - rewrite fneg_q.
      assert (Hr : (Z.to_nat (tf a b c) < List.length wv)%nat).
      { pose proof (Hok a b c Ha Hb Hc) as Hk. unfold class_ok in Hk. rewrite E in Hk. cbn [orb] in Hk. rewrite Hw. lia. }
      rewrite (C01.Proofs.nth_map_lt Fq wv _ 0%Q FNaN Hr). apply fmul_red_l.
    - rewrite fneg_q. f_equal. apply Qred_complete. ring.
  Qed.

  Lemma lossf_model a b : (a < A)%nat -> (b < B)%nat -> lossf lsm C V lfn tf w ign a b = Fq (Qred (sl a b)).
  Proof.
    intros Ha Hb. unfold lossf, sl, step_loss, orow.
    rewrite (map_ext_seq _ (fun c => Fq (Qred (if (tf a b c =? ign)%Z then 0%Q else C03.Model.ce ign w (lsm (lgv a b)) (tf a b c)))) C)
      by (intros c Hc; now apply cell_entry).
    rewrite (fsum_red (fun c => if (tf a b c =? ign)%Z then 0%Q else C03.Model.ce ign w (lsm (lgv a b)) (tf a b c))).
    unfold count_row. rewrite filter_map_length.
    rewrite fdiv_red_z by lia.
    rewrite !map_map. f_equal. f_equal. f_equal. f_equal. f_equal. f_equal.
    clear. induction (seq 0 C) as [|c l IH]; [reflexivity|]. cbn [map filter]. destruct (negb (tf a b c =? ign)%Z); cbn [List.length]; now rewrite IH.
  Qed.

  (* the un-reduced grid of the model *)
  Definition model_grid : list (list Q) := nest2 A B sl.
  Definition model_has : list (list bool) := nest2 A B (fun a b => C03.Model.has_target ign (orow a b)).

  Lemma hasf_model a b : hasf C pmf a b = C03.Model.has_target ign (orow a b).
  Proof. unfold hasf, C03.Model.has_target, orow, pmf. now rewrite !existsb_map. Qed.

  Lemma none_model : mkTn [A; B] (tab2 A B (lossf lsm C V lfn tf w ign)) = mkTn [A; B] (map (fun q => Fq (Qred q)) (List.concat model_grid)).
  Proof.
    f_equal. unfold model_grid. rewrite concat_nest2, map_tab2. apply tab2_ext. intros a b Ha Hb. now apply lossf_model.
  Qed.

  Lemma sum_model : sum_all_f (mkTn [A; B] (tab2 A B (lossf lsm C V lfn tf w ign))) = mkTn [] [Fq (Qred (qsum (map qsum model_grid)))].
  Proof.
    unfold sum_all_f. cbn [dat]. do 2 f_equal.
    rewrite (tab2_ext A B _ (fun a b => Fq (Qred (sl a b)))) by (intros; now apply lossf_model).
    rewrite <- (map_tab2 (fun q => Fq (Qred q))), fsum_red_id. f_equal. apply Qred_complete.
    unfold model_grid. rewrite <- concat_nest2. apply qsum_concat.
  Qed.

  Definition seq_val (gs : list Q) (bs : list bool) : Q :=
    (qsum gs / inject_Z (Z.max (Z.of_nat (C03.Model.count_true bs)) 1))%Q.

  Lemma seq_bf_model a : (a < A)%nat ->
    seq_bf B C (lossf lsm C V lfn tf w ign) pmf a = Fq (Qred (seq_val (map (sl a) (seq 0 B)) (map (fun b => C03.Model.has_target ign (orow a b)) (seq 0 B)))).
  Proof.
    intros Ha. unfold seq_bf, seq_val.
    rewrite (map_ext_seq _ (fun b => Fq (Qred (sl a b))) B) by (intros b Hb; now apply lossf_model).
    rewrite (fsum_red (sl a)). rewrite (map_ext _ _ (hasf_model a)).
    unfold count_row. rewrite fdiv_red_z by lia. reflexivity.
  Qed.

  Lemma seq_tf_model b : (b < B)%nat ->
    seq_tf A C (lossf lsm C V lfn tf w ign) pmf b = Fq (Qred (seq_val (map (fun a => sl a b) (seq 0 A)) (map (fun a => C03.Model.has_target ign (orow a b)) (seq 0 A)))).
  Proof.
    intros Hb. unfold seq_tf, seq_val.
    rewrite (map_ext_seq _ (fun a => Fq (Qred (sl a b))) A) by (intros a Ha; now apply lossf_model).
    rewrite (fsum_red (fun a => sl a b)). rewrite (map_ext _ _ (fun a => hasf_model a b)).
    unfold count_row. rewrite fdiv_red_z by lia. reflexivity.
  Qed.

End Cell.

(* ---- Model.hard_ocd_loss as a function of the targets ------------------------------------------------------------------------ *)
Definition loss_of (ign : Z) (w : option (list Q)) (red : C03.Model.reduction) (bf : bool) (N : nat)
  (logp : list (list (list Q))) (optimals : list (list (list Z))) : C03.Model.loss_out :=
  let grid := C01.Model.map2 (fun lrow orow => C01.Model.map2 (step_loss ign w) lrow orow) logp optimals in
  match red with
  | C03.Model.RNone => C03.Model.LossGrid grid
  | C03.Model.RSum => C03.Model.LossScalar (qsum (map qsum grid))
  | C03.Model.RMean =>
      let has := map (map (C03.Model.has_target ign)) optimals in
      let per_seq (g : list (list Q)) (hs : list (list bool)) :=
        C01.Model.map2 (fun gs bs => (qsum gs / inject_Z (Z.max (Z.of_nat (C03.Model.count_true bs)) 1))%Q) g hs in
      let seqs := if bf then per_seq grid has
                  else per_seq (C01.Model.transpose 0%Q N grid) (C01.Model.transpose false N has) in
      C03.Model.LossScalar (qsum seqs / inject_Z (Z.of_nat (List.length seqs)))%Q
  end.

Lemma hard_ocd_loss_of : forall c w red N ref hyp logp,
  C03.Model.hard_ocd_loss c w red N ref hyp logp =
  loss_of (C01.Model.c_pad c) w red (C01.Model.c_bf c) N logp (C03.Model.optimal_completion (C03.ProofsLoss.with_excl c) N ref hyp).
Proof. reflexivity. Qed.

(* the float tensor of a model result: reduced rationals; [sh] is the shape of the un-reduced grid *)
Definition loss_tensor (sh : list nat) (o : C03.Model.loss_out) : tn fx :=
  match o with
  | C03.Model.LossGrid g => mkTn sh (map (fun q => Fq (Qred q)) (List.concat g))
  | C03.Model.LossScalar q => mkTn [] [Fq (Qred q)]
  end.

Section Whole.
  Variable lsm : list fx -> list Q.
  Variables (A B C V : nat) (lgv : nat -> nat -> list fx) (tf : nat -> nat -> nat -> Z) (w : option (list Q)) (ign : Z).
  Hypothesis Hlg : forall a b, (a < A)%nat -> (b < B)%nat -> List.length (lgv a b) = V.
  Hypothesis Hw : match w with Some wv => List.length wv = V | None => True end.
  Hypothesis Hok : forall a b c, (a < A)%nat -> (b < B)%nat -> (c < C)%nat -> class_ok ign V (tf a b c) = true.

  Notation logp := (nest2 A B (fun a b => lsm (lgv a b))).
  Notation optimals := (nest2 A B (orow C tf)).
  Notation lossF := (lossf lsm C V (lfn lgv) tf w ign).

  Lemma grid_model : C01.Model.map2 (fun lrow orow => C01.Model.map2 (step_loss ign w) lrow orow) logp optimals = model_grid lsm A B C lgv tf w ign.
  Proof. rewrite map2_nest2. reflexivity. Qed.

  Lemma has_model : map (map (C03.Model.has_target ign)) optimals = model_has A B C tf ign.
  Proof. unfold nest2, model_has, nest2. rewrite map_map. apply map_ext. intros a. now rewrite map_map. Qed.

  Lemma result_none : forall bf N,
    mkTn [A; B] (tab2 A B lossF) = loss_tensor [A; B] (loss_of ign w C03.Model.RNone bf N logp optimals).
  Proof. intros. unfold loss_of, loss_tensor. rewrite grid_model. now apply none_model. Qed.

  Lemma result_sum : forall bf N,
    sum_all_f (mkTn [A; B] (tab2 A B lossF)) = loss_tensor [A; B] (loss_of ign w C03.Model.RSum bf N logp optimals).
  Proof. intros. unfold loss_of, loss_tensor. rewrite grid_model. now apply sum_model. Qed.

  (* batch_first: A = N sequences, B time steps *)
  Lemma result_mean_bf : forall N, (0 < A)%nat ->
    mean_all_f (mkTn [A] (map (seq_bf B C lossF (pmf tf ign)) (seq 0 A))) = loss_tensor [A; B] (loss_of ign w C03.Model.RMean true N logp optimals).
  Proof.
    intros N HA. unfold loss_of, loss_tensor. cbv zeta. rewrite grid_model, has_model.
    unfold model_grid, model_has, nest2. rewrite C01.Proofs.map2_map_seq.
    apply mean_vec_model with (q := fun a => seq_val (map (sl lsm C lgv tf w ign a) (seq 0 B)) (map (fun b => C03.Model.has_target ign (orow C tf a b)) (seq 0 B))); [exact HA|].
    intros a Ha. exact (seq_bf_model lsm A B C V lgv tf w ign Hlg Hw Hok a Ha).
  Qed.

  (* time first: A time steps, B = N sequences *)
  Lemma result_mean_tf : (0 < B)%nat ->
    mean_all_f (mkTn [B] (map (seq_tf A C lossF (pmf tf ign)) (seq 0 B))) = loss_tensor [A; B] (loss_of ign w C03.Model.RMean false B logp optimals).
  Proof.
    intros HB. unfold loss_of, loss_tensor. cbv zeta. rewrite grid_model, has_model.
    unfold model_grid, model_has. rewrite !transpose_nest2. unfold nest2. rewrite C01.Proofs.map2_map_seq.
    apply mean_vec_model with (q := fun b => seq_val (map (fun a => sl lsm C lgv tf w ign a b) (seq 0 A)) (map (fun a => C03.Model.has_target ign (orow C tf a b)) (seq 0 A))); [exact HB|].
    intros b Hb. exact (seq_tf_model lsm A B C V lgv tf w ign Hlg Hw Hok b Hb).
  Qed.
End Whole.
