(* C18 — Normalisation statistics, deltas and returns equal their defining formulas.
   Property theorems only: each is closed by [exact <lemma of the Proofs files>] and followed
   by [Print Assumptions].  The harness re-checks this file on every run.

   Numbers are exact rationals (IEEE rounding is not modelled); [==] is equality of rationals.
   [sqrt] is an oracle: the model's store() returns variances, and wherever a standard
   deviation is needed the theorems quantify over any [std] whose square is that variance. *)
From Coq Require Import List ZArith QArith Permutation.
From PV Require Import C18.Model C18.Spec C18.Proofs.
Import ListNotations.
Local Open Scope Q_scope.

(* ---- statistics ----------------------------------------------------------------------- *)

(* the running count / sum / sum of squares after accumulating ANY non-empty list of tensors
   (any shapes, any number of dimensions, as long as dim is legal and they agree on the number
   X of coefficients) are the frame count and the per-coefficient sums of the pooled data *)
Theorem c18_accumulate_pooled_sums : forall dim X xs,
  xs <> [] -> uniform dim X xs ->
  exists s, accumulate_all dim None xs = Ok (Some s) /\
    length (ssum s) = X /\ length (ssq s) = X /\
    cnt s == qofnat (frames dim xs) /\
    forall i, (i < X)%nat ->
      nth i (ssum s) 0 == Qsum (pooled dim xs i) /\
      nth i (ssq s) 0 == Qsum (map qsq (pooled dim xs i)).
Proof. exact accumulate_pooled_sums. Qed.
Print Assumptions c18_accumulate_pooled_sums.

(* "Mean-variance statistics accumulated over any partition of the data ... equal the pooled
   population mean and (biased or Bessel-corrected) standard deviation of all frames"
   (var = std^2; the clamp at 0 that store() applies never bites in exact arithmetic) *)
Theorem c18_store_is_pooled_mean_var : forall dim X xs b,
  xs <> [] -> uniform dim X xs -> (2 <= frames dim xs)%nat ->
  exists mean var,
    bind (accumulate_all dim None xs) (fun s => store s b) = Ok (mean, var) /\
    length mean = X /\ length var = X /\
    forall i, (i < X)%nat ->
      nth i mean 0 == pop_mean (pooled dim xs i) /\ nth i var 0 == pop_var b (pooled dim xs i).
Proof. exact store_is_pooled_mean_var. Qed.
Print Assumptions c18_store_is_pooled_mean_var.

(* with fewer than two frames store() raises (for either setting of bessel: as coded) *)
Theorem c18_store_needs_two_frames : forall dim X xs b,
  xs <> [] -> uniform dim X xs -> (frames dim xs < 2)%nat ->
  bind (accumulate_all dim None xs) (fun s => store s b) = Err ERuntime.
Proof. exact store_too_few_frames. Qed.
Print Assumptions c18_store_needs_two_frames.

(* "over any partition of the data, in any order": two histories whose pooled coefficient
   values are permutations of each other - different chunking, order, tensor shapes, numbers
   of dimensions, even a different dim argument - store the same mean and variance *)
Theorem c18_stats_partition_order_invariant : forall dim dim' X xs xs' b,
  (0 < X)%nat -> xs <> [] -> xs' <> [] -> uniform dim X xs -> uniform dim' X xs' ->
  (forall i, (i < X)%nat -> Permutation (pooled dim xs i) (pooled dim' xs' i)) ->
  same_result (bind (accumulate_all dim None xs) (fun s => store s b))
              (bind (accumulate_all dim' None xs') (fun s => store s b)).
Proof. exact stats_partition_order_invariant. Qed.
Print Assumptions c18_stats_partition_order_invariant.

(* histories of one module (accumulate / store(delete_stats, bessel) in any sequence): every
   store() returns what a fresh module would return after accumulating exactly the tensors seen
   since the last store that deleted the statistics - so the three theorems above apply to
   every store of every history; the buffers left at the end are those of that same list *)
Theorem c18_histories : forall dim ops,
  run_ops dim None ops [] = history_ref dim [] ops [].
Proof. exact run_ops_history0. Qed.
Print Assumptions c18_histories.

(* "normalising with them gives each coefficient zero mean and unit variance over the pooled
   data": accumulate, store, take std with std^2 = var (positive and not below eps), normalise
   every accumulated tensor; the pooled result has mean 0 and (biased resp. Bessel) variance 1 *)
Theorem c18_normalised_zero_mean_unit_var : forall dim X xs ys b mean var std eps i,
  xs <> [] -> uniform dim X xs -> (2 <= frames dim xs)%nat ->
  bind (accumulate_all dim None xs) (fun s => store s b) = Ok (mean, var) ->
  length std = X -> (i < X)%nat ->
  nth i std 0 * nth i std 0 == nth i var 0 ->
  0 < nth i std 0 -> eps <= nth i std 0 ->
  Forall2 (fun x y => exists sg ov, mean_var_norm x dim (Some mean) (Some std) eps sg = Ok (y, ov)) xs ys ->
  pop_mean (pooled dim ys i) == 0 /\ pop_var b (pooled dim ys i) == 1.
Proof. exact accumulate_store_normalise. Qed.
Print Assumptions c18_normalised_zero_mean_unit_var.

(* the same for statistics handed to the module directly, whatever their origin *)
Theorem c18_normalised_given_stats : forall dim X mean std eps b xs ys i,
  uniform dim X xs -> length mean = X -> length std = X -> (i < X)%nat ->
  Forall2 (fun x y => exists sg ov, mean_var_norm x dim (Some mean) (Some std) eps sg = Ok (y, ov)) xs ys ->
  (0 < frames dim xs)%nat ->
  nth i mean 0 == pop_mean (pooled dim xs i) ->
  nth i std 0 * nth i std 0 == pop_var b (pooled dim xs i) ->
  0 < nth i std 0 -> eps <= nth i std 0 ->
  pop_mean (pooled dim ys i) == 0 /\ pop_var b (pooled dim ys i) == 1.
Proof. exact normalised_zero_mean_unit_var. Qed.
Print Assumptions c18_normalised_given_stats.

(* what the normalisation does to every coefficient: y = (x - mean_i) / max(std_i, eps) *)
Theorem c18_normalisation_formula : forall x dim d mean std eps sigma y ov i,
  norm_dim (length (shape x)) dim = Some d ->
  length mean = nth d (shape x) 0%nat -> length std = nth d (shape x) 0%nat ->
  mean_var_norm x dim (Some mean) (Some std) eps sigma = Ok (y, ov) ->
  (i < nth d (shape x) 0)%nat ->
  shape y = shape x /\
  coeff_vals y d i = map (fun q => (q - nth i mean 0) / qmax (nth i std 0) eps) (coeff_vals x d i).
Proof. exact coeff_vals_norm_given. Qed.
Print Assumptions c18_normalisation_formula.

(* "without stored statistics the input's own statistics are used": the subtracted mean is
   the population mean of the coefficient, the variance whose root is taken is its biased
   population variance, and the division is by max(sigma_i, eps) *)
Theorem c18_own_stats_when_none : forall x dim d eps sigma y ov i,
  norm_dim (length (shape x)) dim = Some d ->
  mean_var_norm x dim None None eps sigma = Ok (y, ov) ->
  (i < nth d (shape x) 0)%nat -> (0 < rows_width x d)%nat ->
  exists mu,
    mu == pop_mean (coeff_vals x d i) /\
    nth i ov 0 == pop_var false (coeff_vals x d i) /\
    shape y = shape x /\
    coeff_vals y d i = map (fun q => (q - mu) / qmax (nth i sigma 0) eps) (coeff_vals x d i).
Proof. exact own_stats_when_none. Qed.
Print Assumptions c18_own_stats_when_none.

Theorem c18_own_stats_normalised : forall x dim d eps sigma y ov i,
  norm_dim (length (shape x)) dim = Some d ->
  mean_var_norm x dim None None eps sigma = Ok (y, ov) ->
  (i < nth d (shape x) 0)%nat -> (0 < rows_width x d)%nat ->
  nth i sigma 0 * nth i sigma 0 == nth i ov 0 -> 0 < nth i sigma 0 -> eps <= nth i sigma 0 ->
  pop_mean (coeff_vals y d i) == 0 /\ pop_var false (coeff_vals y d i) == 1.
Proof. exact own_stats_normalised. Qed.
Print Assumptions c18_own_stats_normalised.

(* "directory-level accumulation" (compute-mvn-stats-for-torch-feat-data-dir without --id2gid):
   the saved statistics are the pooled statistics of the frames of all files, whatever the
   number, order and shapes of the files *)
Theorem c18_cmd_directory_stats : forall files dim X bessel,
  files <> [] -> uniform dim X (map snd files) -> (2 <= frames dim (map snd files))%nat ->
  exists mean var,
    compute_mvn_stats files None dim bessel = CmdOk [(0%nat, (mean, var))] /\
    length mean = X /\ length var = X /\
    forall i, (i < X)%nat ->
      nth i mean 0 == pop_mean (pooled dim (map snd files) i) /\
      nth i var 0 == pop_var bessel (pooled dim (map snd files) i).
Proof. exact cmd_directory_stats. Qed.
Print Assumptions c18_cmd_directory_stats.

(* non-vacuity: a concrete two-tensor history (shapes (2,2) and (1,2,1), dim = -1 resp. its
   position) meets the hypotheses; three frames (1,2), (3,6), (5,1) *)
Example c18_stats_nonvacuous :
  let xs := [mkT [2; 2]%nat [1; 2; 3; 6]; mkT [1; 2]%nat [5; 1]] in
  xs <> [] /\ uniform (-1) 2 xs /\ frames (-1) xs = 3%nat /\
  pooled (-1) xs 1 = [2; 6; 1] /\
  exists mean var, bind (accumulate_all (-1) None xs) (fun s => store s true) = Ok (mean, var) /\
                   Forall2 Qeq mean [3; 3] /\ Forall2 Qeq var [4; 7].
Proof.
  cbv zeta. split; [discriminate|]. split.
  - repeat constructor; exists 1%nat; split; reflexivity.
  - split; [reflexivity|]. split; [reflexivity|].
    eexists. eexists. split; [vm_compute; reflexivity|].
    split; repeat constructor; reflexivity.
Qed.

(* ---- deltas --------------------------------------------------------------------------- *)

(* the model's list-building padding is the position-wise extension of the specification *)
Theorem c18_padding_is_extension : forall m v p x j,
  (1 <= length x)%nat -> pad_ok m p (length x) = true -> (j < length x + 2 * p)%nat ->
  nth j (pad m v p x) 0 = ext m v x (Z.of_nat j - Z.of_nat p).
Proof. exact pad_spec. Qed.
Print Assumptions c18_padding_is_extension.

(* "Delta features of every order equal the recursive regression formula applied to the input
   extended by the chosen edge padding": one convolution with the composite FIR filters, for
   every order o, width w, padding mode, line length T >= 1 the padding accepts *)
Theorem c18_delta_line_eq_regression : forall m v o w x u t,
  (1 <= length x)%nat -> pad_ok m (w * o) (length x) = true -> (u <= o)%nat -> (t < length x)%nat ->
  nth t (nth u (delta_line m v o w x) []) 0 == regress w u (ext m v x) (Z.of_nat t).
Proof. exact delta_line_eq_regression. Qed.
Print Assumptions c18_delta_line_eq_regression.

(* "laid out along the requested dimension by stacking or concatenation": for EVERY number of
   dimensions, time_dim, dim (negative values included) and both settings of concatenate, the
   output has the documented shape and every entry is the regression formula of the order
   and source position that [delta_src] reads off its index: stacking puts the order on a new
   axis at dim; concatenation stores order u of coefficient i at u * X + i *)
Theorem c18_feat_deltas_layout : forall x dim time_dim (conc : bool) order width m v out,
  feat_deltas x dim time_dim conc order width m v = Ok out ->
  exists td dm,
    norm_dim (length (shape x)) time_dim = Some td /\
    norm_dim (if conc then length (shape x) else S (length (shape x))) dim = Some dm /\
    shape out = delta_shape (shape x) dm conc (Z.to_nat order) /\
    forall idx, valid (shape out) idx ->
      get out idx == delta_at x td dm conc (Z.to_nat width) m v idx.
Proof. exact feat_deltas_layout. Qed.
Print Assumptions c18_feat_deltas_layout.

(* the call succeeds for all legal arguments (so the theorem above is not vacuous), and every
   failure is a RuntimeError *)
Theorem c18_feat_deltas_defined : forall x dim time_dim (conc : bool) order width m v td dm,
  (0 <= order)%Z -> (1 <= width)%Z ->
  norm_dim (length (shape x)) time_dim = Some td ->
  norm_dim (if conc then length (shape x) else S (length (shape x))) dim = Some dm ->
  (m = Constant \/ Qeq_bool v 0 = true) ->
  (1 <= nth td (shape x) 0)%nat ->
  pad_ok m (Z.to_nat width * Z.to_nat order) (nth td (shape x) 0%nat) = true ->
  exists out, feat_deltas x dim time_dim conc order width m v = Ok out.
Proof. exact feat_deltas_defined. Qed.
Print Assumptions c18_feat_deltas_defined.

Theorem c18_feat_deltas_errors : forall x dim time_dim conc order width m v e,
  feat_deltas x dim time_dim conc order width m v = Err e -> e = ERuntime.
Proof. exact feat_deltas_errors. Qed.
Print Assumptions c18_feat_deltas_errors.

Example c18_deltas_nonvacuous :
  let x := mkT [3; 2]%nat [1; 2; 3; 4; 5; 7] in
  feat_deltas x (-1) (-2) true 2 1 Reflect 0 =
    Ok (mkT [3; 6]%nat [1; 2; 0; 0; 2; 5 # 2;   3; 4; 2; 5 # 2; 0; 0;   5; 7; 0; 0; -2; -5 # 2]) /\
  delta_src [3; 2]%nat 1 true [0; 5]%nat = (2%nat, [0; 1]%nat) /\
  regress 1 2 (ext Reflect 0 [2; 4; 7]) 0 == 5 # 2.
Proof. cbv zeta. split; [vm_compute; reflexivity|]. split; [reflexivity|]. vm_compute. reflexivity. Qed.

(* ---- returns -------------------------------------------------------------------------- *)

(* "Discounted returns satisfy R_t = r_t + gamma * R_(t+1) with R beyond the horizon equal to
   zero, for either layout": every gamma (0, negative, above 1 included) *)
Theorem c18_return_recursion : forall r g (bf : bool) T N out,
  shape r = (if bf then [N; T] else [T; N]) ->
  time_distributed_return r g bf = Ok out ->
  shape out = shape r /\
  forall t n, (t < T)%nat -> (n < N)%nat ->
    at2 bf out t n == at2 bf r t n + g * (if (S t <? T)%nat then at2 bf out (S t) n else 0).
Proof. exact return_recursion. Qed.
Print Assumptions c18_return_recursion.

(* ... hence it is THE return: the fold of the declarative recursion over each reward column *)
Theorem c18_return_eq_spec : forall r g (bf : bool) T N out,
  shape r = (if bf then [N; T] else [T; N]) ->
  time_distributed_return r g bf = Ok out ->
  forall t n, (t < T)%nat -> (n < N)%nat ->
    at2 bf out t n == nth t (ret_rec g (map (fun k => at2 bf r k n) (seq 0 T))) 0.
Proof. exact return_eq_spec. Qed.
Print Assumptions c18_return_eq_spec.

(* the only error: an input that is not two-dimensional *)
Theorem c18_return_error_iff : forall r g bf,
  time_distributed_return r g bf = Err ERuntime <-> length (shape r) <> 2%nat.
Proof. exact return_error_iff. Qed.
Print Assumptions c18_return_error_iff.

Example c18_return_nonvacuous :
  time_distributed_return (mkT [3; 2]%nat [1; 2; 3; 4; 5; 6]) (1 # 2) false =
    Ok (mkT [3; 2]%nat [15 # 4; 11 # 2; 11 # 2; 7; 5; 6]) /\
  time_distributed_return (mkT [2; 3]%nat [1; 3; 5; 2; 4; 6]) 3 true =
    Ok (mkT [2; 3]%nat [55; 18; 5; 68; 22; 6]) /\
  ret_rec 3 [1; 3; 5] = [1 + 3 * (3 + 3 * (5 + 3 * 0)); 3 + 3 * (5 + 3 * 0); 5 + 3 * 0].
Proof. split; [vm_compute; reflexivity|]. split; [vm_compute; reflexivity|]. reflexivity. Qed.

(* ---- the tie to the source text (returns) --------------------------------------------------
   PV.Gen.C18Src.tdr_body is regenerated from /repo/src/pydrobert/torch/_rl.py on every run
   (harness/py2coq/translate.py: the body of `time_distributed_return`, node for node);
   PV.MiniPy.Interp is the semantics of the translated subset; SrcRun.ext18 gives the torch calls
   (dim, size, arange, unsqueeze, broadcasting -, clamp_min, pow, tril/triu, matmul) the
   exact-rational meaning defined in PV.MiniTorch.Ops.  The theorems below are about that
   regenerated term, for EVERY reward tensor (any shape, any rationals), discount and layout. *)
From PV Require MiniPy.Syntax MiniPy.Interp MiniTorch.Ops MiniTorch.Value Gen.C18Src C18.SrcRun C18.Tie.

(* whenever the model returns a tensor, running the source text returns exactly that tensor
   (same shape, every entry the same rational) *)
Theorem c18_source_return_is_model : forall r g bf out,
  time_distributed_return r g bf = Ok out ->
  exists st,
    Interp.run SrcRun.ext18 C18Src.tdr_body (SrcRun.return_vars r g bf)
    = Interp.Ok (SrcRun.enc_tensor out) st.
Proof. exact Tie.return_tie_ok. Qed.
Print Assumptions c18_source_return_is_model.

(* an input that is not two-dimensional: the source raises RuntimeError, before anything else *)
Theorem c18_source_return_raises : forall r g bf,
  length (shape r) <> 2%nat ->
  Interp.run SrcRun.ext18 C18Src.tdr_body (SrcRun.return_vars r g bf)
  = Interp.Exc SrcRun.runtime_error (Interp.mkState (SrcRun.return_vars r g bf) []).
Proof. exact Tie.run_not_matrix. Qed.
Print Assumptions c18_source_return_raises.

(* both at once, in the executable form the harness evaluates on the cases of every run:
   the interpreted source IS the model, outcome for outcome *)
Theorem c18_source_return_refines_model : forall r g bf,
  SrcRun.src_return r g bf = Some (time_distributed_return r g bf).
Proof. exact Tie.src_return_tie. Qed.
Print Assumptions c18_source_return_refines_model.

Theorem c18_source_return_check_is_check : forall r g bf tol impl,
  SrcRun.src_return_check r g bf tol impl = check_return r g bf tol impl.
Proof. exact Tie.src_return_check_is_check. Qed.
Print Assumptions c18_source_return_check_is_check.

(* composed with c18_return_recursion: a statement purely about the interpreted source -
   on a T x N (or N x T, batch_first) reward matrix the source returns a tensor of the same shape
   whose entries satisfy R_t = r_t + gamma * R_(t+1), R_T = 0, for every gamma *)
Theorem c18_source_return_recursion : forall r g (bf : bool) T N,
  shape r = (if bf then [N; T] else [T; N]) ->
  exists out st,
    Interp.run SrcRun.ext18 C18Src.tdr_body (SrcRun.return_vars r g bf)
      = Interp.Ok (SrcRun.enc_tensor out) st /\
    shape out = shape r /\
    forall t n, (t < T)%nat -> (n < N)%nat ->
      at2 bf out t n == at2 bf r t n + g * (if (S t <? T)%nat then at2 bf out (S t) n else 0).
Proof. exact Tie.source_return_recursion. Qed.
Print Assumptions c18_source_return_recursion.

(* ... hence what the source returns is THE discounted return of every reward column *)
Theorem c18_source_return_eq_spec : forall r g (bf : bool) T N,
  shape r = (if bf then [N; T] else [T; N]) ->
  exists out st,
    Interp.run SrcRun.ext18 C18Src.tdr_body (SrcRun.return_vars r g bf)
      = Interp.Ok (SrcRun.enc_tensor out) st /\
    forall t n, (t < T)%nat -> (n < N)%nat ->
      at2 bf out t n == nth t (ret_rec g (map (fun k => at2 bf r k n) (seq 0 T))) 0.
Proof. exact Tie.source_return_eq_spec. Qed.
Print Assumptions c18_source_return_eq_spec.

(* non-vacuity: the interpreted source on the two concrete matrices of c18_return_nonvacuous *)
Example c18_source_return_nonvacuous :
  SrcRun.src_return (mkT [3; 2]%nat [1; 2; 3; 4; 5; 6]) (1 # 2) false =
    Some (Ok (mkT [3; 2]%nat [15 # 4; 11 # 2; 11 # 2; 7; 5; 6])) /\
  SrcRun.src_return (mkT [2; 3]%nat [1; 3; 5; 2; 4; 6]) 3 true =
    Some (Ok (mkT [2; 3]%nat [55; 18; 5; 68; 22; 6])) /\
  SrcRun.src_return (mkT [2; 3; 1]%nat [1; 3; 5; 2; 4; 6]) 3 true = Some (Err ERuntime).
Proof. split; [vm_compute; reflexivity|]. split; vm_compute; reflexivity. Qed.

(* ---- the tie to the source text, second part (MeanVarianceNormalization.accumulate / store) --------------------
   PV.Gen.C18BSrc.acc_body / store_body are regenerated from /repo/src/pydrobert/torch/_feats.py on every run;
   SrcRunB.ext_t gives the torch calls the exact-rational meaning of PV.MiniTorch.OpsC18B; sqrt is an oracle [sq]
   (any function).  `self` is a dictionary of attributes and buffers in the variable store (SrcRunB.self_val).
   Theorems named `_partial` rest on the hand-written glue of SrcRunB.src_accumulate: the in-place `+=` on the local
   names that alias the buffers is not rendered by MiniPy's value semantics, the new statistics are read from those
   locals.  Hypothesis [stats_wf] (sum and sumsq of one length) is what accumulate produces (c18_source_accumulate_wf). *)
From Coq Require Import String.
From PV Require MiniTorch.OpsC18B Gen.C18BSrc C18.SrcRunB C18.TieB C18.TieBStore C18.TieBHist.

(* accumulate on a module that already holds statistics: the interpreted body ends normally and its locals
   count, sum_, sumsq (= the buffer objects, updated in place) hold exactly Model.accumulate's statistics *)
Theorem c18_source_accumulate_run : forall sq dim eps mean std s0 x s',
  accumulate dim (Some s0) x = Ok s' ->
  exists fin,
    Interp.run (SrcRunB.ext_t sq) C18BSrc.acc_body (SrcRunB.acc_vars (SrcRunB.mkM dim eps mean std (Some s0)) x)
      = Interp.Ok Syntax.VNone fin /\
    Interp.lookup "count"%string (Interp.vars fin) = Some (SrcRun.enc_tensor (mkT [1%nat] [cnt s'])) /\
    Interp.lookup "sum_"%string (Interp.vars fin) = Some (SrcRun.enc_tensor (SrcRunB.vec (ssum s'))) /\
    Interp.lookup "sumsq"%string (Interp.vars fin) = Some (SrcRun.enc_tensor (SrcRunB.vec (ssq s'))).
Proof. exact TieB.acc_some. Qed.
Print Assumptions c18_source_accumulate_run.

(* the first accumulate (count is None): the buffers are created with torch.zeros and then updated *)
Theorem c18_source_accumulate_first_run : forall sq dim eps mean std x s',
  accumulate dim None x = Ok s' ->
  exists fin,
    Interp.run (SrcRunB.ext_t sq) C18BSrc.acc_body (SrcRunB.acc_vars (SrcRunB.mkM dim eps mean std None) x)
      = Interp.Ok Syntax.VNone fin /\
    Interp.lookup "count"%string (Interp.vars fin) = Some (SrcRun.enc_tensor (mkT [1%nat] [cnt s'])) /\
    Interp.lookup "sum_"%string (Interp.vars fin) = Some (SrcRun.enc_tensor (SrcRunB.vec (ssum s'))) /\
    Interp.lookup "sumsq"%string (Interp.vars fin) = Some (SrcRun.enc_tensor (SrcRunB.vec (ssq s'))).
Proof. exact TieB.acc_none. Qed.
Print Assumptions c18_source_accumulate_first_run.

Theorem c18_source_accumulate_is_model_partial : forall sq m x s',
  accumulate (SrcRunB.m_dim m) (SrcRunB.m_stats m) x = Ok s' -> SrcRunB.src_accumulate sq m x = Some (Ok s').
Proof. exact TieB.src_accumulate_ok_partial. Qed.
Print Assumptions c18_source_accumulate_is_model_partial.

Theorem c18_source_accumulate_wf : forall dim st x s',
  TieBHist.ostats_wf st -> accumulate dim st x = Ok s' -> TieBStore.stats_wf s'.
Proof. exact TieBHist.accumulate_wf. Qed.
Print Assumptions c18_source_accumulate_wf.

(* store, whole function, no glue: whenever Model.store returns (mean, variance) the interpreted body leaves the
   module with self.mean = mean, self.std = map sq variance, and the accumulators deleted or kept as asked *)
Theorem c18_source_store_is_model : forall sq dim eps mean0 std0 s (del bessel : bool) mean var,
  TieBStore.stats_wf s -> store (Some s) bessel = Ok (mean, var) ->
  exists fin,
    Interp.run (SrcRunB.ext_t sq) C18BSrc.store_body
      (SrcRunB.store_vars (SrcRunB.mkM dim eps mean0 std0 (Some s)) del bessel) = Interp.Ok Syntax.VNone fin /\
    Interp.lookup "self"%string (Interp.vars fin) =
      Some (SrcRunB.self_val (SrcRunB.mkM dim eps (Some mean) (Some (map sq var)) (if del then None else Some s))).
Proof. exact TieBStore.store_ok. Qed.
Print Assumptions c18_source_store_is_model.

(* no statistics: RuntimeError before anything else; fewer than two frames: RuntimeError, the module as it was *)
Theorem c18_source_store_raises_none : forall sq dim eps mean0 std0 (del bessel : bool),
  Interp.run (SrcRunB.ext_t sq) C18BSrc.store_body (SrcRunB.store_vars (SrcRunB.mkM dim eps mean0 std0 None) del bessel)
  = Interp.Exc "RuntimeError"%string (Interp.mkState (SrcRunB.store_vars (SrcRunB.mkM dim eps mean0 std0 None) del bessel) []).
Proof. exact TieBStore.store_none. Qed.
Print Assumptions c18_source_store_raises_none.

Theorem c18_source_store_raises_few : forall sq dim eps mean0 std0 s (del bessel : bool),
  Qle_bool 2 (cnt s) = false ->
  exists fin,
    Interp.run (SrcRunB.ext_t sq) C18BSrc.store_body
      (SrcRunB.store_vars (SrcRunB.mkM dim eps mean0 std0 (Some s)) del bessel) = Interp.Exc "RuntimeError"%string fin /\
    Interp.lookup "self"%string (Interp.vars fin) = Some (SrcRunB.self_val (SrcRunB.mkM dim eps mean0 std0 (Some s))).
Proof. exact TieBStore.store_few. Qed.
Print Assumptions c18_source_store_raises_few.

(* all three at once, in the executable form the harness evaluates: the interpreted store IS Model.store *)
Theorem c18_source_store_refines_model : forall sq m del bessel,
  TieBHist.ostats_wf (SrcRunB.m_stats m) ->
  SrcRunB.src_store sq m del bessel = Some (TieBHist.store_model sq m del bessel).
Proof. exact TieBHist.src_store_is_model. Qed.
Print Assumptions c18_source_store_refines_model.

(* histories of the module run through the interpreted source (accumulate / store in any sequence; sqrt oracle =
   identity so that self.std shows the variance): whenever no accumulate of the history raises, the store results
   and the final accumulators are exactly those of Model.run_ops - so c18_histories and the statistics theorems
   apply to the source *)
Theorem c18_source_histories_partial : forall ops m outs stores final,
  TieBHist.ostats_wf (SrcRunB.m_stats m) ->
  run_ops (SrcRunB.m_dim m) (SrcRunB.m_stats m) ops outs = (stores, Ok final) ->
  SrcRunB.src_run_ops (fun v => v) m ops outs = Some (stores, Ok final).
Proof. exact TieBHist.src_run_ops_is_model_partial. Qed.
Print Assumptions c18_source_histories_partial.

Theorem c18_source_ops_check_is_check_partial : forall dim ops tol tola impl_stores impl_final stores final,
  run_ops dim None ops [] = (stores, Ok final) ->
  SrcRunB.src_ops_check dim ops tol tola impl_stores impl_final = check_ops dim ops tol tola impl_stores impl_final.
Proof. exact TieBHist.src_ops_check_is_check_partial. Qed.
Print Assumptions c18_source_ops_check_is_check_partial.

(* composed with c18_store_is_pooled_mean_var - a statement purely about the interpreted source: accumulate ANY
   non-empty list of tensors (any shapes and numbers of dimensions that agree on the X coefficients along dim, at
   least two frames) with the interpreted accumulate, then run the interpreted store: self.mean is the pooled
   population mean of every coefficient, self.std the oracle's root of its pooled (biased or Bessel) variance *)
Theorem c18_source_acc_store_pooled_partial : forall sq dim X xs (del b : bool),
  xs <> [] -> uniform dim X xs -> (2 <= frames dim xs)%nat ->
  exists s mean var,
    SrcRunB.src_run_ops (fun v => v) (SrcRunB.fresh_module dim) (map OpAcc xs) [] = Some ([], Ok (Some s)) /\
    SrcRunB.src_store sq (SrcRunB.mkM dim 0 None None (Some s)) del b
      = Some (Ok (mean, map sq var),
              SrcRunB.mkM dim 0 (Some mean) (Some (map sq var)) (if del then None else Some s)) /\
    List.length mean = X /\ List.length var = X /\
    forall i, (i < X)%nat ->
      nth i mean 0 == pop_mean (pooled dim xs i) /\ nth i var 0 == pop_var b (pooled dim xs i).
Proof. exact TieBHist.source_acc_store_pooled_partial. Qed.
Print Assumptions c18_source_acc_store_pooled_partial.

(* non-vacuity: the interpreted source on the history of c18_stats_nonvacuous, on a forward call and on the delta
   example of c18_deltas_nonvacuous (forward / mean_var_norm / feat_deltas are translated and run - SrcRunB - but
   not yet tied by a theorem) *)
Example c18_source_mvn_nonvacuous :
  let xs := [mkT [2; 2]%nat [1; 2; 3; 6]; mkT [1; 2]%nat [5; 1]] in
  (exists mean var,
     SrcRunB.src_run_ops (fun v => v) (SrcRunB.fresh_module (-1)) (map OpAcc xs ++ [OpStore true true]) []
       = Some ([Ok (mean, var)], Ok None) /\ Forall2 Qeq mean [3; 3] /\ Forall2 Qeq var [4; 7]) /\
  SrcRunB.src_forward (fun v => v) (SrcRunB.mkM (-1) (1 # 100) (Some [1; 2]) (Some [2; 4]) None) (mkT [2; 2]%nat [1; 2; 3; 6])
    = Some (Ok (mkT [2; 2]%nat [0 # 2; 0 # 4; 2 # 2; 4 # 4])) /\
  SrcRunB.src_deltas (mkT [3; 2]%nat [1; 2; 3; 4; 5; 7]) (-1) (-2) true 2 1 Reflect 0 =
    Some (Ok (mkT [3; 6]%nat [1; 2; 0; 0; 2; 5 # 2;   3; 4; 2; 5 # 2; 0; 0;   5; 7; 0; 0; -2; -5 # 2])).
Proof.
  cbv zeta. split; [|split; vm_compute; reflexivity].
  eexists. eexists. split; [vm_compute; reflexivity|]. split; repeat constructor; reflexivity.
Qed.
