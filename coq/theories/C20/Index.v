(* C20 — lemmas about shapes, indices, broadcasting and materialised tensors. *)
From Coq Require Import List Arith Bool ZArith QArith Lia.
From PV Require Import C20.Model C20.Spec.
Import ListNotations.
Local Open Scope nat_scope.

(* ---------- valid ------------------------------------------------------------------- *)
Lemma valid_length s i : valid s i -> length i = length s.
Proof. induction 1; cbn; congruence. Qed.

Lemma valid_cons_inv n s x i : valid (n :: s) (x :: i) -> x < n /\ valid s i.
Proof. intros H; inversion H; subst; split; assumption. Qed.

Lemma valid_cons n s x i : x < n -> valid s i -> valid (n :: s) (x :: i).
Proof. intros; constructor; assumption. Qed.

(* ---------- ins / setp / del --------------------------------------------------------- *)
Lemma ins_0 t i : ins 0 t i = t :: i.
Proof. reflexivity. Qed.
Lemma ins_S p t x i : ins (S p) t (x :: i) = x :: ins p t i.
Proof. reflexivity. Qed.
Lemma setp_0 t x i : setp 0 t (x :: i) = t :: i.
Proof. reflexivity. Qed.
Lemma setp_S p t x i : setp (S p) t (x :: i) = x :: setp p t i.
Proof. reflexivity. Qed.
Lemma del_0 x s : del 0 (x :: s) = s.
Proof. reflexivity. Qed.
Lemma del_S p x s : del (S p) (x :: s) = x :: del p s.
Proof. reflexivity. Qed.

Lemma del_length p (s : list nat) : p < length s -> length (del p s) = length s - 1.
Proof.
  intros H. unfold del. rewrite app_length, firstn_length, skipn_length. lia.
Qed.

Lemma del_ins p t i : p <= length i -> del p (ins p t i) = i.
Proof.
  revert i; induction p as [|p IH]; intros i H; [reflexivity|].
  destruct i as [|x i]; [cbn in H; lia|].
  rewrite ins_S, del_S, IH by (cbn in H; lia). reflexivity.
Qed.

Lemma nth_ins p t i : p <= length i -> nth p (ins p t i) 0 = t.
Proof.
  revert i; induction p as [|p IH]; intros i H; [reflexivity|].
  destruct i as [|x i]; [cbn in H; lia|]. rewrite ins_S. cbn [nth]. apply IH. cbn in H; lia.
Qed.

Lemma valid_ins p : forall s i t,
  p < length s -> valid (del p s) i -> t < nth p s 0 -> valid s (ins p t i).
Proof.
  induction p as [|p IH]; intros s i t Hp Hv Ht.
  - destruct s as [|n s]; [cbn in Hp; lia|]. rewrite del_0 in Hv. rewrite ins_0.
    apply valid_cons; assumption.
  - destruct s as [|n s]; [cbn in Hp; lia|]. rewrite del_S in Hv.
    destruct i as [|x i]; [inversion Hv|].
    apply valid_cons_inv in Hv. destruct Hv as [Hx Hv].
    rewrite ins_S. apply valid_cons; [exact Hx|].
    apply IH; [cbn in Hp; lia|exact Hv|exact Ht].
Qed.

Lemma valid_setp p : forall s i t,
  valid s i -> t < nth p s 0 -> valid s (setp p t i).
Proof.
  induction p as [|p IH]; intros s i t Hv Ht.
  - destruct Hv as [|x n i s Hx Hv]; [cbn in Ht; lia|]. rewrite setp_0. apply valid_cons; assumption.
  - destruct Hv as [|x n i s Hx Hv]; [cbn in Ht; lia|]. rewrite setp_S.
    apply valid_cons; [exact Hx|]. apply IH; assumption.
Qed.

Lemma valid_del p : forall s i, valid s i -> valid (del p s) (del p i).
Proof.
  induction p as [|p IH]; intros s i Hv.
  - destruct Hv; [constructor|]. rewrite !del_0. assumption.
  - destruct Hv as [|x n i s Hx Hv]; [constructor|]. rewrite !del_S.
    apply valid_cons; [exact Hx|apply IH; exact Hv].
Qed.

Lemma ins_del p : forall i, p < length i -> ins p (nth p i 0) (del p i) = i.
Proof.
  induction p as [|p IH]; intros i H.
  - destruct i; [cbn in H; lia|]. reflexivity.
  - destruct i as [|x i]; [cbn in H; lia|]. rewrite del_S, ins_S. cbn [nth].
    rewrite IH by (cbn in H; lia). reflexivity.
Qed.

(* ---------- clamp / into ------------------------------------------------------------- *)
Lemma intob_refl s : intob s s = true.
Proof. induction s as [|x s IH]; cbn; [reflexivity|]. rewrite Nat.eqb_refl, IH. reflexivity. Qed.

Lemma intob_nil s : intob [] s = true.
Proof. destruct s; reflexivity. Qed.

Lemma intob_length s' s : intob s' s = true -> length s' <= length s.
Proof.
  revert s; induction s' as [|x a IH]; intros s H; cbn; [lia|].
  destruct s as [|y b]; [discriminate|]. cbn in H.
  apply andb_true_iff in H. destruct H as [_ H]. apply IH in H. cbn. lia.
Qed.

Lemma clamp_into s' : forall s i, intob s' s = true -> clamp s' (clamp s i) = clamp s' i.
Proof.
  induction s' as [|x a IH]; intros s i H; [reflexivity|].
  destruct s as [|y b]; [discriminate|].
  destruct i as [|z i]; [reflexivity|].
  cbn in H. apply andb_true_iff in H. destruct H as [Hxy Hab].
  cbn [clamp]. rewrite (IH b i Hab). f_equal.
  destruct (Nat.eqb x 1) eqn:E1; [reflexivity|].
  rewrite orb_false_r in Hxy. apply Nat.eqb_eq in Hxy. subst y. rewrite E1. reflexivity.
Qed.

Lemma clamp_valid s' : forall s i, intob s' s = true -> valid s i -> valid s' (clamp s' i).
Proof.
  induction s' as [|x a IH]; intros s i H Hv; [constructor|].
  destruct s as [|y b]; [discriminate|].
  destruct i as [|z i]; [inversion Hv|].
  apply valid_cons_inv in Hv. destruct Hv as [Hz Hv].
  cbn in H. apply andb_true_iff in H. destruct H as [Hxy Hab].
  cbn [clamp]. apply valid_cons; [|apply (IH b); assumption].
  destruct (Nat.eqb x 1) eqn:E1.
  - apply Nat.eqb_eq in E1. lia.
  - rewrite orb_false_r in Hxy. apply Nat.eqb_eq in Hxy. lia.
Qed.

Lemma clamp_self_valid s i : valid s i -> valid s (clamp s i).
Proof. apply clamp_valid, intob_refl. Qed.

Lemma clamp_id s : forall i, valid s i -> (forall n, In n s -> n <> 1) -> clamp s i = i.
Proof.
  induction s as [|n s IH]; intros i Hv Hn; destruct i as [|x i]; try reflexivity; try (inversion Hv; fail).
  apply valid_cons_inv in Hv. destruct Hv as [_ Hv]. cbn [clamp].
  destruct (Nat.eqb n 1) eqn:E; [apply Nat.eqb_eq in E; exfalso; apply (Hn n); [left; reflexivity|exact E]|].
  rewrite IH; [reflexivity|exact Hv|]. intros; apply Hn; right; assumption.
Qed.

(* setting the sequence position after clamping = clamping after inserting it *)
Lemma setp_clamp_ins pe : forall es j t t',
  pe < length es -> pe <= length j -> t' < nth pe es 0 ->
  setp pe t' (clamp es (ins pe t j)) = clamp es (ins pe t' j).
Proof.
  induction pe as [|pe IH]; intros es j t t' He Hj Ht.
  - destruct es as [|n es]; [cbn in He; lia|]. rewrite !ins_0. cbn [clamp]. rewrite setp_0.
    cbn [nth] in Ht. destruct (Nat.eqb n 1) eqn:E; [|reflexivity].
    apply Nat.eqb_eq in E. f_equal. lia.
  - destruct es as [|n es]; [cbn in He; lia|].
    destruct j as [|x j]; [cbn in Hj; lia|].
    rewrite !ins_S. cbn [clamp]. rewrite setp_S. f_equal.
    apply IH; cbn in He, Hj, Ht; lia || assumption.
Qed.

(* the inserted position does not matter where the shape has size 1 *)
Lemma clamp_ins_one pe : forall s j t t',
  nth pe s 0 = 1 -> pe <= length j -> clamp s (ins pe t j) = clamp s (ins pe t' j).
Proof.
  induction pe as [|pe IH]; intros s j t t' H1 Hj.
  - destruct s as [|n s]; [reflexivity|]. rewrite !ins_0. cbn [clamp]. cbn in H1. subst n. reflexivity.
  - destruct s as [|n s]; [reflexivity|].
    destruct j as [|x j]; [cbn in Hj; lia|].
    rewrite !ins_S. cbn [clamp]. f_equal. apply IH; [exact H1|cbn in Hj; lia].
Qed.

(* ---------- bshape ------------------------------------------------------------------- *)
Lemma bshape_into a : forall b r, bshape a b = Some r -> intob a r = true /\ intob b r = true.
Proof.
  induction a as [|x a IH]; intros b r H.
  - cbn in H. injection H as <-. split; [apply intob_nil|apply intob_refl].
  - destruct b as [|y b].
    + cbn in H. injection H as <-. split; [apply intob_refl|reflexivity].
    + cbn in H. destruct (bshape a b) as [r'|] eqn:E; [|discriminate].
      destruct (IH b r' E) as [Ha Hb].
      destruct (Nat.eqb x y) eqn:Exy.
      * injection H as <-. apply Nat.eqb_eq in Exy. subst y. cbn.
        rewrite Nat.eqb_refl, Ha, Hb. split; reflexivity.
      * destruct (Nat.eqb x 1) eqn:Ex1.
        -- injection H as <-. cbn. rewrite Ex1, Nat.eqb_refl, Ha, Hb, orb_true_r. split; reflexivity.
        -- destruct (Nat.eqb y 1) eqn:Ey1; [|discriminate].
           injection H as <-. cbn. rewrite Ey1, Nat.eqb_refl, Ha, Hb, orb_true_r. split; reflexivity.
Qed.

Lemma bshape_length a : forall b r, bshape a b = Some r -> length r = Nat.max (length a) (length b).
Proof.
  induction a as [|x a IH]; intros b r H.
  - cbn in H. injection H as <-. reflexivity.
  - destruct b as [|y b].
    + cbn in H. injection H as <-. cbn. reflexivity.
    + cbn in H. destruct (bshape a b) as [r'|] eqn:E; [|discriminate].
      specialize (IH b r' E).
      destruct (Nat.eqb x y); [|destruct (Nat.eqb x 1); [|destruct (Nat.eqb y 1); [|discriminate]]];
        injection H as <-; cbn; lia.
Qed.

Lemma bshape_nth_one a : forall b r i,
  bshape a b = Some r -> nth i a 0 = 1 -> i < length b -> nth i r 0 = nth i b 0.
Proof.
  induction a as [|x a IH]; intros b r i H H1 Hi.
  - destruct i; discriminate.
  - destruct b as [|y b]; [cbn in Hi; lia|].
    cbn in H. destruct (bshape a b) as [r'|] eqn:E; [|discriminate].
    destruct i as [|i].
    + cbn in H1. subst x. cbn.
      destruct (Nat.eqb 1 y) eqn:E1; [apply Nat.eqb_eq in E1; subst y; injection H as <-; reflexivity|].
      cbn in H. injection H as <-. reflexivity.
    + cbn in H1, Hi. assert (Hr : nth i r' 0 = nth i b 0) by (apply (IH b r' i E H1); lia).
      destruct (Nat.eqb x y); [|destruct (Nat.eqb x 1); [|destruct (Nat.eqb y 1); [|discriminate]]];
        injection H as <-; exact Hr.
Qed.

Lemma bshape_nth_same a : forall b r i,
  bshape a b = Some r -> nth i a 0 = nth i b 0 -> i < length a -> i < length b -> nth i r 0 = nth i b 0.
Proof.
  induction a as [|x a IH]; intros b r i H H1 Ha Hb.
  - cbn in Ha; lia.
  - destruct b as [|y b]; [cbn in Hb; lia|].
    cbn in H. destruct (bshape a b) as [r'|] eqn:E; [|discriminate].
    destruct i as [|i].
    + cbn in H1. subst y. rewrite Nat.eqb_refl in H. injection H as <-. reflexivity.
    + cbn in H1, Ha, Hb. assert (Hr : nth i r' 0 = nth i b 0) by (apply (IH b r' i E H1); lia).
      destruct (Nat.eqb x y); [|destruct (Nat.eqb x 1); [|destruct (Nat.eqb y 1); [|discriminate]]];
        injection H as <-; exact Hr.
Qed.

(* ---------- unsq ---------------------------------------------------------------------- *)
Lemma ins_length {A} p (x : A) (l : list A) : length (firstn p l ++ x :: skipn p l) = S (length l).
Proof. rewrite app_length, firstn_length. cbn. rewrite skipn_length. lia. Qed.

Lemma unsq_shape {A} p (t : tensor A) : tshape (unsq p t) = ins p 1 (tshape t).
Proof. reflexivity. Qed.

Lemma ins_shape_length p t (s : list nat) : length (ins p t s) = S (length s).
Proof. apply ins_length. Qed.

(* ---------- renum / rfi / memo -------------------------------------------------------- *)
Lemma flat_map_const_length {B C} (g : B -> list C) n l :
  (forall b, length (g b) = n) -> length (flat_map g l) = length l * n.
Proof.
  intros Hg. induction l as [|b l IH]; [reflexivity|].
  cbn. rewrite app_length, Hg, IH. lia.
Qed.

Lemma nth_flat_map_const {B C} (g : B -> list C) n (b0 : B) (d : C) :
  (forall b, length (g b) = n) ->
  forall l a x, x < n -> a < length l ->
  nth (a * n + x) (flat_map g l) d = nth x (g (nth a l b0)) d.
Proof.
  intros Hg. induction l as [|b l IH]; intros a x Hx Ha; [cbn in Ha; lia|].
  cbn [flat_map]. destruct a as [|a].
  - cbn [nth Nat.mul Nat.add]. apply app_nth1. rewrite Hg. exact Hx.
  - rewrite app_nth2 by (rewrite Hg; lia). rewrite Hg.
    replace (S a * n + x - n) with (a * n + x) by lia.
    cbn [nth]. apply IH; [exact Hx|cbn in Ha; lia].
Qed.

Lemma renum_length s : length (renum s) = fold_right Nat.mul 1 s.
Proof.
  induction s as [|n s IH]; [reflexivity|].
  cbn [renum fold_right].
  assert (Hg : forall b : index, length (map (fun x => x :: b) (seq 0 n)) = n)
    by (intros; rewrite map_length, seq_length; reflexivity).
  rewrite (flat_map_const_length _ n _ Hg), IH. lia.
Qed.

Lemma renum_nth s : forall i, valid s i ->
  rfi s i < length (renum s) /\ nth (rfi s i) (renum s) [] = i.
Proof.
  induction s as [|n s IH]; intros i Hv.
  - inversion Hv; subst. cbn. split; [lia|reflexivity].
  - destruct i as [|x i]; [inversion Hv|].
    apply valid_cons_inv in Hv. destruct Hv as [Hx Hv].
    destruct (IH i Hv) as [Hlt Hnth].
    cbn [rfi renum].
    assert (Hg : forall b : index, length (map (fun x => x :: b) (seq 0 n)) = n)
      by (intros; rewrite map_length, seq_length; reflexivity).
    split.
    + rewrite (flat_map_const_length _ n _ Hg). nia.
    + etransitivity; [exact (nth_flat_map_const _ n [] [] Hg _ _ _ Hx Hlt)|]. cbn beta.
      unfold index in *.
      set (R := nth (rfi s i) (renum s) []) in *.
      rewrite (nth_indep _ [] ((fun x0 => x0 :: R) 0)) by (rewrite map_length, seq_length; exact Hx).
      rewrite (map_nth (fun x0 => x0 :: R)). rewrite seq_nth by exact Hx. cbn [Nat.add]. f_equal. exact Hnth.
Qed.

Lemma renum_valid s : forall i, In i (renum s) -> valid s i.
Proof.
  induction s as [|n s IH]; intros i Hin.
  - cbn in Hin. destruct Hin as [<-|[]]. constructor.
  - cbn [renum] in Hin. apply in_flat_map in Hin. destruct Hin as [r [Hr Hin]].
    apply in_map_iff in Hin. destruct Hin as [x [<- Hx]].
    apply in_seq in Hx. apply valid_cons; [lia|apply IH; exact Hr].
Qed.

Lemma memo_shape {A} (d : A) t : tshape (memo d t) = tshape t.
Proof. reflexivity. Qed.

Lemma memo_at {A} (d : A) t i : valid (tshape t) i -> tat (memo d t) i = tat t i.
Proof.
  intros Hv. unfold memo, of_flat, to_flat. cbn [tat].
  destruct (renum_nth _ _ Hv) as [Hlt Hnth].
  rewrite (nth_indep _ d (tat t [])) by (rewrite map_length; exact Hlt).
  rewrite map_nth, Hnth. reflexivity.
Qed.

(* two materialised tensors with the same elements in range are the same tensor *)
Lemma memo_ext {A} (d : A) s f g :
  (forall i, valid s i -> f i = g i) -> memo d (mkT s f) = memo d (mkT s g).
Proof.
  intros H. unfold memo, to_flat. cbn [tshape tat]. f_equal.
  apply map_ext_in. intros i Hi. apply H, renum_valid, Hi.
Qed.

(* ---------- broadcast reads ------------------------------------------------------------ *)
Lemma bget_clamp {A} (t : tensor A) es i :
  intob (tshape t) es = true -> bget t (clamp es i) = bget t i.
Proof. intros H. unfold bget. rewrite clamp_into by exact H. reflexivity. Qed.

Lemma brow_clamp (t : tensor Q) es i :
  intob (tl (tshape t)) es = true -> brow t (clamp es i) = brow t i.
Proof.
  intros H. unfold brow. apply map_ext. intros c. unfold bget.
  destruct (tshape t) as [|f s]; [reflexivity|]. cbn [tl] in H. cbn [clamp].
  rewrite clamp_into by exact H. reflexivity.
Qed.

Lemma kept_at_clamp m es i :
  match m with None => true | Some mt => intob (tshape mt) es end = true ->
  kept_at m (clamp es i) = kept_at m i.
Proof.
  intros H. destruct m as [mt|]; [|reflexivity]. cbn [kept_at]. apply bget_clamp, H.
Qed.
