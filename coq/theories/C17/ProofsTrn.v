(* C17 - lemmas: transcripts -> token directory -> transcripts, for every prefix, suffix, tensor
   shape and pool schedule. *)
From Coq Require Import List ZArith Bool Arith Lia Permutation Sorted QArith.
From PV Require Import C11.Model C11.ProofsSort C17.Model C17.Spec C17.ProofsSel C17.ProofsPool C17.ProofsDir
  C17.ProofsEr.
Import ListNotations.
Local Open Scope Z_scope.

(* ---------- the save side as a write ------------------------------------------------------------------ *)

Definition save_w (t2i : list (tk * Z)) (fs : option Q) (unk : option tk) (skip featsz : bool)
  (it : out (str * list item)) : out (str * tensor) :=
  match it with
  | Fail e => Fail e
  | Done (base, tr) =>
      match transcript_to_token tr (Some t2i) fs unk (skip || featsz) with
      | Raise e => Fail (of_exn e)
      | Ok rows => Done (base, tok_tensor skip featsz rows)
      end
  end.

Lemma save_transcript_eff t2i fs unk skip featsz items : forall d,
  run_effects (save_transcript t2i fs unk skip featsz) items d
  = run_effects (eff (save_w t2i fs unk skip featsz)) items d.
Proof.
  induction items as [|it t IH]; intros d; cbn [run_effects]; [reflexivity|].
  unfold save_transcript at 1, eff at 1, save_w at 1. destruct it as [[base tr]|e]; [|reflexivity].
  destruct (transcript_to_token tr (Some t2i) fs unk (skip || featsz)) as [rows|e]; [|reflexivity].
  cbn [fst snd]. apply IH.
Qed.

Lemma filter_all {A} (f : A -> bool) l : (forall x, In x l -> f x = true) -> filter f l = l.
Proof.
  induction l as [|x t IH]; intros H; cbn [filter]; [reflexivity|].
  rewrite (H x (or_introl eq_refl)). f_equal. apply IH. intros y Hy. apply H. right. exact Hy.
Qed.

Lemma sort_by_perm_eq (l l' : list str) : Permutation l l' -> sort_by str_leb l = sort_by str_leb l'.
Proof.
  intros P. pose proof good_str as G.
  apply (sort_by_unique str_leb (le_total str_cmp G) (le_trans str_cmp G) (le_antisym str_cmp G)).
  - eapply Permutation_trans; [exact P|apply sort_by_perm].
  - apply (sort_by_is_sorted str_leb (le_total str_cmp G) (le_trans str_cmp G)).
Qed.

Definition lookup_utt {B} (its : list (str * B)) (u : str) : option (str * B) :=
  find (fun ut => str_eqb (fst ut) u) its.

Lemma lookup_utt_in {B} (its : list (str * B)) ut : NoDup (map fst its) -> In ut its ->
  lookup_utt its (fst ut) = Some ut.
Proof.
  unfold lookup_utt. induction its as [|x t IH]; intros N H; [contradiction|].
  cbn [map] in N. inversion N as [|? ? Hn Nt]; subst. cbn [find].
  destruct H as [->|H]; [rewrite str_eqb_refl; reflexivity|].
  destruct (str_eqb (fst x) (fst ut)) eqn:E.
  - apply str_eqb_iff in E. exfalso. apply Hn. rewrite E. apply in_map. exact H.
  - apply IH; assumption.
Qed.

Section Generic.
  Variables (pre suf : str) (t2i : list (tk * Z)) (fs : option Q) (unk : option tk) (skip featsz : bool).
  Variables (i2t : option (list (Z * tk))) (fs' : option Q) (strip : bool).
  Variable its : list (str * list item).
  Variable rows : str * list item -> list row3.
  Variable back : str * list item -> list item.
  Hypothesis Hnd : NoDup (map fst its).
  Hypothesis Henc : forall ut, In ut its ->
    transcript_to_token (snd ut) (Some t2i) fs unk (skip || featsz) = Ok (rows ut).
  Hypothesis Hdec : forall ut, In ut its ->
    load_transcript i2t fs' strip (tok_tensor skip featsz (rows ut)) = Done (back ut).

  Let mk (ut : str * list item) : out (str * list item) := Done (fname pre suf (fst ut), snd ut).

  Lemma dir_roundtrip_generic workers order :
    Permutation order (seq 0 (length its)) ->
    exists d, run_effects (save_transcript t2i fs unk skip featsz) (pool_items workers order (map mk its)) [] = Done d
      /\ exists res, load_dir i2t pre suf fs' strip d = Done res
           /\ map fst res = sort_by str_leb (map fst its)
           /\ forall ut, In ut its -> In (fst ut, back ut) res.
  Proof.
    intros P.
    assert (P' : Permutation order (seq 0 (length (map mk its)))) by (rewrite map_length; exact P).
    pose proof (pool_items_perm workers order (map mk its) P') as Pp.
    set (items := pool_items workers order (map mk its)) in *.
    set (name := fun it : out (str * list item) => match it with Done (b, _) => b | Fail _ => [] end).
    set (val := fun it : out (str * list item) =>
                  match it with
                  | Done (b, tr) => match transcript_to_token tr (Some t2i) fs unk (skip || featsz) with
                                    | Ok r => tok_tensor skip featsz r | Raise _ => Vec [] end
                  | Fail _ => Vec [] end).
    assert (Hitems : forall it, In it items -> exists ut, In ut its /\ it = mk ut).
    { intros it Hi. apply (Permutation_in _ Pp) in Hi. apply in_map_iff in Hi. destruct Hi as [ut [E Hi]]. eauto. }
    assert (Nn : NoDup (map name items)).
    { eapply Permutation_NoDup; [apply Permutation_map, Permutation_sym; exact Pp|].
      rewrite map_map. unfold mk, name. cbn.
      clear -Hnd. induction its as [|x t IH]; cbn [map]; [constructor|].
      cbn [map] in Hnd. inversion Hnd as [|? ? Hn Nt]; subst. constructor; [|apply IH; exact Nt].
      intros Hi. apply in_map_iff in Hi. destruct Hi as [y [Ey Hy]]. apply fname_inj in Ey.
      apply Hn. rewrite <- Ey. apply in_map. exact Hy. }
    destruct (effects_total (save_w t2i fs unk skip featsz) name val items) as (d & Hd & Nd & Ld & Gd).
    { intros it Hi. destruct (Hitems it Hi) as [ut [Hu ->]]. unfold mk, save_w, name, val.
      rewrite (Henc ut Hu). reflexivity. }
    { exact Nn. }
    exists d. split; [rewrite save_transcript_eff; exact Hd|].
    (* the names in d are exactly the written ones *)
    assert (Pl : Permutation (listdir d) (map (fun ut => fname pre suf (fst ut)) its)).
    { apply NoDup_Permutation; [exact Nd| |].
      - eapply Permutation_NoDup; [|exact Nn].
        eapply Permutation_trans; [apply Permutation_map; exact Pp|]. rewrite map_map. reflexivity.
      - intros m. rewrite Ld. split; intros H.
        + apply (Permutation_in _ (Permutation_map name Pp)) in H. rewrite map_map in H. exact H.
        + apply (Permutation_in _ (Permutation_map name (Permutation_sym Pp))). rewrite map_map. exact H. }
    assert (Hsel : filter (selected pre suf) (listdir d) = listdir d).
    { apply filter_all. intros x Hx. apply (Permutation_in _ Pl) in Hx. apply in_map_iff in Hx.
      destruct Hx as [ut [<- _]]. apply select_written. }
    assert (Hids : utt_ids pre suf d = sort_by str_leb (map fst its)).
    { unfold utt_ids. rewrite Hsel. apply sort_by_perm_eq.
      eapply Permutation_trans; [apply Permutation_map; exact Pl|]. rewrite map_map.
      rewrite (map_ext _ fst); [reflexivity|]. intros ut. apply select_written. }
    set (backu := fun u => match lookup_utt its u with Some ut => back ut | None => [] end).
    exists (map (fun u => (u, backu u)) (sort_by str_leb (map fst its))). split; [|split].
    - unfold load_dir. rewrite Hids.
      rewrite (map_out_ext_in _ (fun u => Done (u, backu u))); [apply map_out_total|].
      intros u Hu. apply (Permutation_in _ (Permutation_sym (sort_by_perm str_leb (map fst its)))) in Hu.
      apply in_map_iff in Hu. destruct Hu as [ut [<- Hut]].
      assert (Hi : In (mk ut) items) by (apply (Permutation_in _ (Permutation_sym Pp)); apply in_map; exact Hut).
      pose proof (Gd (mk ut) Hi) as G. unfold name, val, mk in G. rewrite (Henc ut Hut) in G.
      rewrite G. rewrite (Hdec ut Hut). unfold backu. rewrite (lookup_utt_in its ut Hnd Hut). reflexivity.
    - rewrite map_map. cbn [fst]. apply map_id.
    - intros ut Hut. apply in_map_iff. exists (fst ut). split.
      + unfold backu. rewrite (lookup_utt_in its ut Hnd Hut). reflexivity.
      + apply (Permutation_in _ (sort_by_perm str_leb (map fst its))). apply in_map. exact Hut.
  Qed.
End Generic.

(* ---------- trn: plain tokens --------------------------------------------------------------------------- *)

Definition inv_pairs {A B} (l : list (A * B)) : list (B * A) := map (fun p => (snd p, fst p)) l.

Lemma assoc_in_snd {K} (eqb : K -> K -> bool) k (l : list (K * Z)) i : assoc eqb k l = Some i -> In i (map snd l).
Proof.
  induction l as [|[k0 i0] l IH]; cbn [assoc map snd]; [discriminate|].
  destruct (eqb k k0); [intros H; inversion H; left; reflexivity|intros H; right; apply IH; exact H].
Qed.

Lemma assoc_inv (t2i : list (tk * Z)) t i :
  NoDup (map snd t2i) -> assoc tk_eqb t t2i = Some i -> assoc Z.eqb i (inv_pairs t2i) = Some t.
Proof.
  induction t2i as [|[t0 i0] l IH]; intros Hn H; [discriminate|].
  cbn [map snd] in Hn. inversion Hn as [|? ? Hna Hnl]; subst.
  cbn [assoc] in H. unfold inv_pairs. cbn [map fst snd assoc].
  destruct (tk_eqb t t0) eqn:E.
  - apply tk_eqb_iff in E. inversion H. subst. rewrite Z.eqb_refl. reflexivity.
  - destruct (i =? i0) eqn:Ei.
    + apply Z.eqb_eq in Ei. subst. exfalso. apply Hna. exact (assoc_in_snd _ _ _ _ H).
    + apply IH; assumption.
Qed.

Definition plain (toks : list str) : list item := map (fun t => Plain (TStr t)) toks.

Definition in_vocab (t2i : list (tk * Z)) (toks : list str) : Prop :=
  forall t, In t toks -> exists i, assoc tk_eqb (TStr t) t2i = Some i.

Definition id_rows (t2i : list (tk * Z)) (toks : list str) : list row3 :=
  map (fun t => (match assoc tk_eqb (TStr t) t2i with Some i => i | None => 0 end, -1, -1)) toks.

Lemma plain_to_token t2i unk sk toks : in_vocab t2i toks ->
  transcript_to_token (plain toks) (Some t2i) None unk sk = Ok (id_rows t2i toks).
Proof.
  unfold transcript_to_token, plain, id_rows. induction toks as [|t rest IH]; intros V; [reflexivity|].
  cbn [map map_res]. destruct (V t (or_introl eq_refl)) as [i Hi]. rewrite Hi.
  rewrite IH by (intros x Hx; apply V; right; exact Hx).
  destruct sk; reflexivity.
Qed.

Lemma rows_of_tok_tensor skip featsz (rs : list row3) :
  (forall r, In r rs -> snd (fst r) = -1 /\ snd r = -1) -> rows_of (tok_tensor skip featsz rs) = Done rs.
Proof.
  intros H. unfold tok_tensor. destruct featsz; [|destruct skip].
  - cbn [rows_of]. induction rs as [|[[i s] e] t IH]; [reflexivity|]. cbn [map map_out fst].
    rewrite IH by (intros r Hr; apply H; right; exact Hr).
    destruct (H (i, s, e) (or_introl eq_refl)) as [Hs He]. cbn [fst snd] in *. subst. reflexivity.
  - cbn [rows_of]. f_equal. induction rs as [|[[i s] e] t IH]; [reflexivity|]. cbn [map fst].
    rewrite IH by (intros r Hr; apply H; right; exact Hr).
    destruct (H (i, s, e) (or_introl eq_refl)) as [Hs He]. cbn [fst snd] in *. subst. reflexivity.
  - cbn [rows_of]. induction rs as [|[[i s] e] t IH]; [reflexivity|]. cbn [map map_out].
    rewrite IH by (intros r Hr; apply H; right; exact Hr). reflexivity.
Qed.

Lemma plain_no_int toks : existsb (fun a => is_int (item_tk a)) (plain toks) = false.
Proof. unfold plain. induction toks as [|t r IH]; [reflexivity|]. cbn [map existsb item_tk is_int orb]. exact IH. Qed.

Lemma plain_back t2i skip featsz toks : NoDup (map snd t2i) -> in_vocab t2i toks ->
  load_transcript (Some (inv_pairs t2i)) None true (tok_tensor skip featsz (id_rows t2i toks)) = Done (plain toks).
Proof.
  intros N V. unfold load_transcript. rewrite rows_of_tok_tensor.
  2:{ intros r Hr. unfold id_rows in Hr. apply in_map_iff in Hr. destruct Hr as [t [<- _]]. split; reflexivity. }
  assert (E : token_to_transcript (id_rows t2i toks) (Some (inv_pairs t2i)) None = plain toks).
  { unfold token_to_transcript, id_rows, plain. rewrite map_map. apply map_ext_in. intros t Ht.
    destruct (V t Ht) as [i Hi]. rewrite Hi. rewrite (assoc_inv t2i (TStr t) i N Hi). reflexivity. }
  rewrite E.
  rewrite plain_no_int. f_equal. unfold plain. rewrite map_map. reflexivity.
Qed.

Lemma upto_fail_done {A} (l : list A) : upto_fail (map Done l) = map Done l.
Proof. induction l as [|x t IH]; cbn [map upto_fail]; [reflexivity|]. rewrite IH. reflexivity. Qed.

Lemma first_branch_toks toks : flat_map first_branch (map Tok toks) = toks.
Proof. induction toks as [|t r IH]; cbn [map flat_map first_branch app]; [reflexivity|]. rewrite IH. reflexivity. Qed.

(* "Converting a transcript file (trn ...) to a token directory and back yields the original
   transcripts ... for every file prefix and suffix ... zero, one or many worker processes":
   the transcripts handed to write_trn are the original ones, in utterance order *)
Lemma trn_dir_roundtrip pre suf t2i unk skip featsz workers order (ts : list (str * list str)) :
  NoDup (map fst ts) -> NoDup (map snd t2i) ->
  (forall ut, In ut ts -> in_vocab t2i (snd ut)) ->
  Permutation order (seq 0 (length ts)) ->
  exists d, trn_to_dir AltError pre suf t2i unk skip featsz workers order
                       (map (fun ut => (fst ut, map Tok (snd ut))) ts) [] = Done d
    /\ exists res, dir_to_trn (inv_pairs t2i) pre suf d = Done res
         /\ map fst res = sort_by str_leb (map fst ts)
         /\ forall ut, In ut ts -> In (fst ut, plain (snd ut)) res.
Proof.
  intros N Ni V P.
  set (its := map (fun ut : str * list str => (fst ut, plain (snd ut))) ts).
  assert (Eits : map fst its = map fst ts) by (unfold its; rewrite map_map; reflexivity).
  assert (Hmatch : upto_fail (map (trn_item AltError pre suf) (map (fun ut : str * list str => (fst ut, map Tok (snd ut))) ts))
                   = map (fun ut => Done (fname pre suf (fst ut), snd ut)) its).
  { unfold its. rewrite !map_map.
    rewrite (map_ext _ (fun ut : str * list str => Done (fname pre suf (fst ut), plain (snd ut)))).
    - rewrite <- (map_map (fun ut : str * list str => (fname pre suf (fst ut), plain (snd ut))) Done).
      rewrite upto_fail_done, map_map. reflexivity.
    - intros [u toks]. unfold trn_item. cbn [fst snd].
      assert (F : forallb is_tok (map Tok toks) = true) by (induction toks; [reflexivity|exact IHtoks]).
      rewrite F, first_branch_toks. reflexivity. }
  destruct (dir_roundtrip_generic pre suf t2i None unk skip featsz (Some (inv_pairs t2i)) None true its
              (fun ut => id_rows t2i (match lookup_utt ts (fst ut) with Some x => snd x | None => [] end))
              (fun ut => snd ut)) with (workers := workers) (order := order) as (d & Hd & res & Hres & Hfst & Hin).
  - rewrite Eits. exact N.
  - intros ut Hut. unfold its in Hut. apply in_map_iff in Hut. destruct Hut as [x [<- Hx]]. cbn [fst snd].
    rewrite (lookup_utt_in ts x N Hx). apply plain_to_token. apply V. exact Hx.
  - intros ut Hut. unfold its in Hut. apply in_map_iff in Hut. destruct Hut as [x [<- Hx]]. cbn [fst snd].
    rewrite (lookup_utt_in ts x N Hx). apply plain_back; [exact Ni|apply V; exact Hx].
  - unfold its. rewrite map_length. exact P.
  - exists d. split.
    + unfold trn_to_dir. rewrite Hmatch. exact Hd.
    + exists res. split; [exact Hres|]. split; [rewrite Hfst, Eits; reflexivity|].
      intros ut Hut. apply (Hin (fst ut, plain (snd ut))). unfold its. apply in_map_iff. exists ut. split; [reflexivity|exact Hut].
Qed.
