(* C07 - Sequence scores, random walks and greedy CTC decoding match their definitions.
   Property theorems only: each is closed by [exact <lemma of Proofs*.v>] and followed by
   [Print Assumptions].  The harness re-checks this file on every run.

   Scores live in any carrier [A] with an operation [op] and unit [unit] satisfying the stated
   monoid laws for Leibniz equality: (Z, +, 0) - log-probabilities on a fixed-point grid, the
   instance the correspondence runs - and (Q, *, 1) - probabilities - are both instances, and
   [c07_spec_slp_hom] transports the declarative sum along any homomorphism between them (the
   role exp plays between the two on the reals). *)
From Coq Require Import List ZArith Bool Arith QArith Lia.
From PV Require Import C07.Model C07.Spec C07.Proofs.
Import ListNotations.
Local Close Scope Q_scope.
Local Open Scope nat_scope.

(* ---- "the sequence log-probability is the sum of the log-softmax values of the chosen tokens up
        to and including the first end-of-sequence, ignoring out-of-vocabulary positions" -------- *)

(* one sequence: the mask arithmetic of _sequence_log_probs_tensor (out-of-vocabulary mask,
   _lens_from_eos by cumsum / first maximum, length mask, masked gather, sum) *)
Theorem c07_slp_col_correct : forall (A : Type) (op : A -> A -> A) (unit : A),
  (forall x, op unit x = x) ->
  forall V eos (lp : list (list A)) (col : list Z), length lp = length col ->
  slp_col op unit V eos lp col = spec_slp op unit V eos lp col.
Proof. exact @slp_col_correct. Qed.
Print Assumptions c07_slp_col_correct.

(* the whole tensor in the (outer, time, inner) normal form *)
Theorem c07_slp_tensor_correct : forall (A : Type) (op : A -> A -> A) (unit : A),
  (forall x, op unit x = x) ->
  forall V eos T B (lp : list (list (list (list A)))) (hyp : list (list (list Z))),
  eos = None \/ 0 < T -> length lp = length hyp ->
  (forall a, a < length hyp -> length (nth a lp []) = T /\ length (nth a hyp []) = T) ->
  slp_tensor op unit V eos T B lp hyp =
  Some (map2 (fun lp_a hyp_a =>
                map (fun b => spec_slp op unit V eos (column [] b lp_a) (column 0%Z b hyp_a))
                    (seq 0 B)) lp hyp).
Proof. exact @slp_tensor_correct. Qed.
Print Assumptions c07_slp_tensor_correct.

(* the only error of the tensor path: eos set and a zero-length time dimension (modelled
   limitation: the code raises RuntimeError there instead of returning the empty sum) *)
Theorem c07_slp_tensor_error : forall (A : Type) (op : A -> A -> A) (unit : A) V eos T B lp hyp,
  slp_tensor op unit V eos T B lp hyp = None <-> (eos <> None /\ T = 0).
Proof. exact @slp_tensor_error. Qed.
Print Assumptions c07_slp_tensor_error.

(* _lens_from_eos is the position of the first eos (the sequence length when there is none) *)
Theorem c07_lens_from_eos : forall e col,
  lens_from_eos e col = match first_eos e col with Some i => i | None => length col end.
Proof. exact lens_from_eos_spec. Qed.
Print Assumptions c07_lens_from_eos.

Theorem c07_spec_slp_hom : forall (A B : Type) (op : A -> A -> A) (unit : A)
  (op' : B -> B -> B) (unit' : B) (h : A -> B),
  h unit = unit' -> (forall x y, h (op x y) = op' (h x) (h y)) ->
  forall V eos lp toks,
  h (spec_slp op unit V eos lp toks) = spec_slp op' unit' V eos (map (map h) lp) toks.
Proof. exact @spec_slp_hom. Qed.
Print Assumptions c07_spec_slp_hom.

(* ---- "identically for padded and packed input" ------------------------------------------------------

   A PackedSequence of the padded scores lp (time x batch x classes) with lengths lens0 is:
   sorted_indices sidx (a permutation putting the lengths in non-increasing order), its
   inverse uidx, batch_sizes[t] = cnt t ls, data = pack_data of the re-ordered scores.  The
   correspondence checks on every packed case that torch's pack_padded_sequence produces
   exactly this (Model.check_pack). *)

(* every sequence gets the declarative sum over its own length (eos is ignored, as documented) *)
Theorem c07_slp_packed_correct : forall (A : Type) (op : A -> A -> A) (unit : A),
  (forall x, op unit x = x) ->
  forall V (lens0 sidx uidx : list nat) (lp : list (list (list A))) (hyp : list (list Z)),
  let N := length lens0 in
  let ls := map (fun j => nth j lens0 0) sidx in
  length sidx = N -> length uidx = N ->
  (forall n, n < N -> nth n uidx 0 < N /\ nth (nth n uidx 0) sidx 0 = n) ->
  desc ls -> (forall l, In l lens0 -> 1 <= l) -> (forall j, In j sidx -> j < N) ->
  length lp = list_max ls -> list_max ls <= length hyp ->
  slp_ps op unit V (pack_data (index_select_cols [] sidx lp) ls)
         (map (fun t => cnt t ls) (seq 0 (list_max ls))) (Some sidx) (Some uidx) N hyp
  = map (fun n => spec_slp op unit V None (firstn (nth n lens0 0) (column [] n lp))
                                          (firstn (nth n lens0 0) (column 0%Z n hyp)))
        (seq 0 N).
Proof. exact @slp_ps_correct. Qed.
Print Assumptions c07_slp_packed_correct.

(* the same without index tensors (enforce_sorted=True) *)
Theorem c07_slp_packed_sorted : forall (A : Type) (op : A -> A -> A) (unit : A),
  (forall x, op unit x = x) ->
  forall V (ls : list nat) (lp_s : list (list (list A))) (hyp_s : list (list Z)),
  desc ls -> (forall l, In l ls -> 1 <= l) ->
  length lp_s = list_max ls -> list_max ls <= length hyp_s ->
  (forall r, In r lp_s -> length r = length ls) -> (forall r, In r hyp_s -> length r = length ls) ->
  slp_ps op unit V (pack_data lp_s ls) (map (fun t => cnt t ls) (seq 0 (list_max ls)))
         None None (length ls) hyp_s
  = map (fun j => spec_slp op unit V None (firstn (nth j ls 0) (column [] j lp_s))
                                          (firstn (nth j ls 0) (column 0%Z j hyp_s)))
        (seq 0 (length ls)).
Proof. exact @slp_ps_sorted. Qed.
Print Assumptions c07_slp_packed_sorted.

(* packed = padded, when the padded token tensor marks the end of each sequence either by
   out-of-vocabulary padding (eos unset) or by its first eos at the last valid position *)
Theorem c07_slp_packed_eq_padded : forall (A : Type) (op : A -> A -> A) (unit : A),
  (forall x, op unit x = x) ->
  forall V (eos : option Z) (lens0 sidx uidx : list nat)
         (lp : list (list (list A))) (hyp : list (list Z)),
  let N := length lens0 in
  let ls := map (fun j => nth j lens0 0) sidx in
  length sidx = N -> length uidx = N ->
  (forall n, n < N -> nth n uidx 0 < N /\ nth (nth n uidx 0) sidx 0 = n) ->
  desc ls -> (forall l, In l lens0 -> 1 <= l) -> (forall j, In j sidx -> j < N) ->
  length lp = list_max ls -> length hyp = length lp ->
  (forall n, n < N ->
     match eos with
     | Some e => first_eos e (column 0%Z n hyp) = Some (nth n lens0 0 - 1)
     | None => forall t, nth n lens0 0 <= t -> t < length hyp ->
                         oov V (nth t (column 0%Z n hyp) 0%Z) = true
     end) ->
  slp_ps op unit V (pack_data (index_select_cols [] sidx lp) ls)
         (map (fun t => cnt t ls) (seq 0 (list_max ls))) (Some sidx) (Some uidx) N hyp
  = map (fun n => slp_col op unit V eos (column [] n lp) (column 0%Z n hyp)) (seq 0 N).
Proof. exact @slp_packed_eq_padded. Qed.
Print Assumptions c07_slp_packed_eq_padded.

(* ---- "Every path produced by the random walk ends at its first end-of-sequence or at the step
        limit, and its reported log-probability ... and that definition applied to the model's
        outputs ... agree" ---------------------------------------------------------------------------

   The walk is driven by the list of multinomial draws (one row of N tokens per executed
   iteration); [walk ... = Some st] says those draws are a complete run of RandomWalk.forward
   (the loop stops exactly after them and no draw has probability zero).  Then: the returned
   paths are the draws; the number of steps is within the limit and the walk stopped because
   the limit was reached or every path has ended; each reported length is the position of the
   first eos (inclusive) or the number of steps; each reported log-probability is the
   declarative sum over the model's outputs along the path; beyond its first eos a path holds
   only eos; a path counts as ended exactly when it contains eos. *)
Theorem c07_walk_correct : forall (A : Type) (op : A -> A -> A) (unit : A),
  (forall x, op unit x = x) -> (forall x, op x unit = x) ->
  (forall x y z, op x (op y z) = op (op x y) z) ->
  forall (lm : nat -> list Z -> list A) V eos N mi (draws : list (list Z)) (st : wstate),
  (forall d, In d draws -> draw_ok V N d) ->
  walk op unit lm eos N mi draws = Some st ->
  wy st = draws /\ length (wlens st) = N /\ length (wlp st) = N /\
  (forall m, mi = Some m -> length draws <= m) /\
  ((exists m, mi = Some m /\ length draws = m) \/ all_true (wfin st) = true) /\
  forall n, n < N ->
    let col := column 0%Z n draws in
    nth n (wlens st) 0 = path_len eos col /\
    nth n (wlp st) unit = spec_slp op unit V eos (lm_rows lm n col) col /\
    (forall e, eos = Some e -> canonical e col = true) /\
    (nth n (wfin st) false = true <-> exists e i, eos = Some e /\ first_eos e col = Some i).
Proof. exact @walk_correct. Qed.
Print Assumptions c07_walk_correct.

(* "the distribution wrapper's log-probability of it": log_prob is the declarative sum over the
   model's outputs, for any value ... *)
Theorem c07_dist_log_prob_spec : forall (A : Type) (op : A -> A -> A) (unit : A),
  (forall x, op unit x = x) ->
  forall (lm : nat -> list Z -> list A) V eos (value : list (list Z)),
  (forall s, In s value -> s <> []) ->
  dist_log_prob op unit lm V eos value =
  map2 (fun n s => spec_slp op unit V eos (lm_rows lm n s) s) (seq 0 (length value)) value.
Proof. exact @dist_log_prob_spec. Qed.
Print Assumptions c07_dist_log_prob_spec.

(* ... so on the walk's own paths it returns the walk's reported log-probabilities: three code
   paths (walk bookkeeping, log_prob, sequence_log_probs), one definition *)
Theorem c07_dist_logprob_eq_walk_logp : forall (A : Type) (op : A -> A -> A) (unit : A),
  (forall x, op unit x = x) -> (forall x, op x unit = x) ->
  (forall x y z, op x (op y z) = op (op x y) z) ->
  forall (lm : nat -> list Z -> list A) V eos N mi (draws : list (list Z)) (st : wstate),
  (forall d, In d draws -> draw_ok V N d) -> draws <> [] ->
  walk op unit lm eos N mi draws = Some st ->
  dist_log_prob op unit lm V eos (paths_of N (wy st)) = wlp st.
Proof. exact @dist_logprob_eq_walk. Qed.
Print Assumptions c07_dist_logprob_eq_walk_logp.

(* padding an ended path with eos (sample stacking over walks of different lengths) does not
   change its score *)
Theorem c07_padding_keeps_score : forall (A : Type) (op : A -> A -> A) (unit : A)
  (lm : nat -> list Z -> list A) V eos e n (s pad : list Z) i,
  eos = Some e -> first_eos e s = Some i ->
  spec_slp op unit V eos (lm_rows lm n (s ++ pad)) (s ++ pad) =
  spec_slp op unit V eos (lm_rows lm n s) s.
Proof. exact @spec_slp_padded. Qed.
Print Assumptions c07_padding_keeps_score.

(* sample stacking and re-scoring: a walk that ended early (every path has its eos) is padded
   with rows of eos up to the longest walk among the samples; log_prob of the padded paths is
   still the walk's reported log-probability *)
Theorem c07_stacked_logprob_eq_walk_logp : forall (A : Type) (op : A -> A -> A) (unit : A),
  (forall x, op unit x = x) -> (forall x, op x unit = x) ->
  (forall x y z, op x (op y z) = op (op x y) z) ->
  forall (lm : nat -> list Z -> list A) V eos N mi (draws : list (list Z)) (st : wstate) e k,
  eos = Some e ->
  (forall d, In d draws -> draw_ok V N d) -> draws <> [] ->
  walk op unit lm eos N mi draws = Some st ->
  (k = 0 \/ all_true (wfin st) = true) ->
  dist_log_prob op unit lm V eos (paths_of N (wy st ++ repeat (repeat e N) k)) = wlp st.
Proof. exact @stacked_logprob_eq_walk. Qed.
Print Assumptions c07_stacked_logprob_eq_walk_logp.

(* ---- "the wrapper's probabilities over its enumerated support sum to one and its samples lie in
        that support" -------------------------------------------------------------------------------- *)

(* what enumerate_support (enumerate_vocab_sequences, fill_after_eos, unique) contains: exactly
   the length-T in-vocabulary sequences holding only eos after their first eos ... *)
Theorem c07_support_characterised : forall eos T V s,
  In s (enumerate_support eos T V) <-> in_support eos T (Z.of_nat V) s = true.
Proof. exact support_characterised. Qed.
Print Assumptions c07_support_characterised.

(* ... each exactly once *)
Theorem c07_support_nodup : forall e T V, NoDup (enumerate_support (Some e) T V).
Proof. exact support_nodup_eos. Qed.
Print Assumptions c07_support_nodup.

(* for every language model given by conditional probabilities p(. | prefix) that sum to one,
   the wrapper's probabilities (log_prob in the (Q, *, 1) instance) over the support sum to one *)
Theorem c07_support_mass_one : forall (p : list Z -> list Q) (V : nat),
  (forall pre, length (p pre) = V) -> (forall pre, (sumQ (p pre) == 1)%Q) ->
  forall eos T, 1 <= T ->
  (sumQ (dist_log_prob Qmult 1%Q (fun _ => p) (Z.of_nat V) eos (enumerate_support eos T V)) == 1)%Q.
Proof. exact support_mass_one. Qed.
Print Assumptions c07_support_mass_one.

(* every path of a walk with step limit T, padded with eos to T, is in the support *)
Theorem c07_samples_in_support : forall (A : Type) (op : A -> A -> A) (unit : A),
  (forall x, op unit x = x) -> (forall x, op x unit = x) ->
  (forall x y z, op x (op y z) = op (op x y) z) ->
  forall (lm : nat -> list Z -> list A) (V : nat) eos N T (draws : list (list Z)) (st : wstate),
  (forall d, In d draws -> draw_ok (Z.of_nat V) N d) ->
  walk op unit lm eos N (Some T) draws = Some st ->
  forall n, n < N -> In (pad_path eos T (column 0%Z n draws)) (enumerate_support eos T V).
Proof. exact @samples_in_support. Qed.
Print Assumptions c07_samples_in_support.

(* ---- "Greedy CTC decoding returns, per element, the frame-wise best labels within the valid
        length with repeats and blanks removed, together with their summed (or multiplied) frame
        scores" -------------------------------------------------------------------------------------------- *)

(* the label of a frame is its first maximal class and the frame score is that maximum *)
Theorem c07_greedy_argmax : forall row : list Z, row <> [] ->
  is_best row (fst (argmax_first row)) (snd (argmax_first row)).
Proof. exact argmax_first_spec. Qed.
Print Assumptions c07_greedy_argmax.

(* keep mask, in_lens mask, masked_select / masked_scatter_ compaction and the reduction, for the
   whole batch at once *)
Theorem c07_greedy_correct : forall (is_probs : bool) (one V blank : Z) T in_lens
  (lp : list (list (list Z))),
  (- V <= blank <= V - 1)%Z ->
  (forall fr, In fr lp -> length fr = T) ->
  (forall ls, in_lens = Some ls -> length ls = length lp) ->
  let b := norm_blank V blank in
  let ll := eff_lens T in_lens (length lp) in
  exists g, ctc_greedy is_probs one V blank T in_lens lp = Some g /\
    g_lens g = map2 (fun l fr => length (row_path b T l fr)) ll lp /\
    map2 (fun l p => firstn l p) (g_lens g) (g_paths g) = map2 (row_path b T) ll lp /\
    g_score g = map2 (row_score is_probs one T) ll lp.
Proof. exact greedy_correct. Qed.
Print Assumptions c07_greedy_correct.

Theorem c07_greedy_error : forall is_probs one V blank T in_lens lp,
  ctc_greedy is_probs one V blank T in_lens lp = None <-> (blank < - V \/ V - 1 < blank)%Z.
Proof. exact greedy_error. Qed.
Print Assumptions c07_greedy_error.

(* ---- non-vacuity: concrete inputs meeting the hypotheses --------------------------------------------- *)

(* a sequence with an out-of-vocabulary token, an eos in the middle and garbage after it *)
Example c07_slp_nonvacuous :
  length [[-3;-5];[-7;-11];[-13;-17];[-19;-23]]%Z = length [1;5;0;1]%Z /\
  slp_col Z.add 0%Z 2 (Some 0%Z) [[-3;-5];[-7;-11];[-13;-17];[-19;-23]]%Z [1;5;0;1]%Z = (-18)%Z.
Proof. split; reflexivity. Qed.

(* a 2-path walk over V=2 with eos=1 and limit 3: path 0 draws 0,1 (ends at step 2), path 1
   draws 1 (ends at step 1, then is fed eos); all hypotheses of c07_walk_correct hold *)
Example c07_walk_nonvacuous :
  let lm := fun (n : nat) (pre : list Z) => [(-1 - Z.of_nat (length pre))%Z; (-2 - Z.of_nat n)%Z] in
  let draws := [[0;1];[1;1]]%Z in
  (forall d, In d draws -> draw_ok 2 2 d) /\
  exists st, walk Z.add 0%Z lm (Some 1%Z) 2 (Some 3) draws = Some st /\
             wlens st = [2;1] /\ wlp st = [-3;-3]%Z /\ wfin st = [true;true] /\
             dist_log_prob Z.add 0%Z lm 2 (Some 1%Z) (paths_of 2 (wy st)) = [-3;-3]%Z.
Proof.
  cbn zeta. split.
  - intros d [<-|[<-|[]]]; split; reflexivity.
  - eexists. split; [vm_compute; reflexivity|]. repeat split; reflexivity.
Qed.

(* the support for V=2, eos=1, T=2 and the mass under a non-uniform model *)
Example c07_support_nonvacuous :
  enumerate_support (Some 1%Z) 2 2 = [[0;0];[0;1];[1;1]]%Z /\
  let p := fun pre : list Z => match pre with [] => [1#3; 2#3]%Q | _ => [3#4; 1#4]%Q end in
  (forall pre, length (p pre) = 2) /\ (forall pre, (sumQ (p pre) == 1)%Q) /\
  dist_log_prob Qmult 1%Q (fun _ => p) 2 (Some 1%Z) (enumerate_support (Some 1%Z) 2 2)
  = [(1#3) * ((3#4) * 1); (1#3) * ((1#4) * 1); (2#3) * 1]%Q.
Proof.
  split; [reflexivity|]. cbn zeta. split; [intros [|? ?]; reflexivity|].
  split; [intros [|? ?]; reflexivity|reflexivity].
Qed.

(* greedy: labels 1,1,0,2,2 with blank 0 and valid length 4 -> [1;2]; tie in frame 0 resolved to
   the first maximum *)
Example c07_greedy_nonvacuous :
  exists g, ctc_greedy false 0%Z 3 (-3) 5 (Some [4%Z])
              [[[0;5;5];[1;7;2];[9;1;1];[0;0;4];[0;1;6]]]%Z = Some g /\
            g_lens g = [2] /\ map2 (fun l p => firstn l p) (g_lens g) (g_paths g) = [[1;2]] /\
            g_score g = [25]%Z.
Proof. eexists. split; [vm_compute; reflexivity|]. repeat split; reflexivity. Qed.

(* packing three sequences of lengths 1,3,2: sorted order 1,2,0 *)
Example c07_packed_nonvacuous :
  let lens0 := [1;3;2] in let sidx := [1;2;0] in let uidx := [2;0;1] in
  let ls := map (fun j => nth j lens0 0) sidx in
  ls = [3;2;1] /\ map (fun t => cnt t ls) (seq 0 (list_max ls)) = [3;2;1] /\
  (forall n, n < 3 -> nth n uidx 0 < 3 /\ nth (nth n uidx 0) sidx 0 = n).
Proof.
  cbn zeta. split; [reflexivity|]. split; [reflexivity|].
  intros [|[|[|n]]] H; try (split; [repeat constructor|reflexivity]).
  exfalso. lia.
Qed.

(* ---- the tie to the source text (sequence_log_probs, tensor path) ---------------------------------------
   PV.Gen.C07Src.slp_tensor_body and PV.Gen.C07LensSrc.lens_from_eos_body are regenerated on every run from
   /repo/src/pydrobert/torch/_decoding.py (`_sequence_log_probs_tensor`, whole body) and _string.py
   (`_lens_from_eos`, whole body) by harness/py2coq/translate.py, node for node; PV.MiniPy.Interp is the
   semantics of the translated subset; SrcRun.ext07 gives the torch calls (dim, shape, lt/ge/eq, |, &, +,
   cumsum, max, masked_fill, unsqueeze, flatten, view, view_as, arange, broadcasting >=, gather, squeeze,
   sum) the meaning defined in PV.MiniTorch.OpsC07 (N-d tensors over bool / Z / rationals-or-minus-infinity),
   interprets the call `_lens_from_eos(...)` by running the other translated body, and treats
   torch.nn.functional.log_softmax as an ORACLE [lsm] (any function; the model receives its values as
   data, exactly as everywhere in C07).  The theorems below are about those regenerated terms, for EVERY
   input on the (outer, time, inner) normal form the model uses: hyp (A x T x B), logits (A x T x B x V),
   dim = 1 (or -2). *)
From PV Require MiniPy.Syntax MiniPy.Interp MiniTorch.OpsC07 Gen.C07Src Gen.C07LensSrc C07.SrcRun C07.Tie.

(* interpreting the source of _sequence_log_probs_tensor returns exactly the tensor Model.slp_tensor
   computes (same shape, every entry the same value) - or raises where the model has its error *)
Theorem c07_source_slp_is_model : forall (lsm : OpsC07.tn OpsC07.xq -> OpsC07.tn OpsC07.xq) logits A T B V eos lp hyp dim,
  dim = 1%Z \/ dim = (-2)%Z ->
  0 < V -> OpsC07.shp logits = [A; T; B; V] -> lsm logits = SrcRun.lp_tensor A T B V lp -> Tie.wf_slp A T lp hyp ->
  match slp_tensor OpsC07.xadd OpsC07.xzero (Z.of_nat V) eos T B lp hyp with
  | Some out => exists st,
      Interp.run (SrcRun.ext07 lsm) C07Src.slp_tensor_body (SrcRun.slp_vars logits (SrcRun.hyp_tensor A T B hyp) dim eos)
      = Interp.Ok (OpsC07.enc_f (SrcRun.out_tensor A B out)) st
  | None => exists st,
      Interp.run (SrcRun.ext07 lsm) C07Src.slp_tensor_body (SrcRun.slp_vars logits (SrcRun.hyp_tensor A T B hyp) dim eos)
      = Interp.Exc SrcRun.index_error st
  end.
Proof. exact Tie.slp_tensor_tie_dims. Qed.
Print Assumptions c07_source_slp_is_model.

(* eos set and a zero-length time dimension: the source raises (torch's `max` over an empty dimension:
   IndexError in eager mode - TorchScript, which the tie does not model, reports it as RuntimeError) *)
Theorem c07_source_slp_raises : forall (lsm : OpsC07.tn OpsC07.xq -> OpsC07.tn OpsC07.xq) logits A B V e lp hyp,
  OpsC07.shp logits = [A; 0; B; V] -> lsm logits = SrcRun.lp_tensor A 0 B V lp ->
  exists st,
    Interp.run (SrcRun.ext07 lsm) C07Src.slp_tensor_body (SrcRun.slp_vars logits (SrcRun.hyp_tensor A 0 B hyp) 1%Z (Some e))
    = Interp.Exc SrcRun.index_error st.
Proof. exact Tie.slp_tie_raises. Qed.
Print Assumptions c07_source_slp_raises.

(* the source of _lens_from_eos alone: every (outer, inner) entry of what it returns is Model.lens_from_eos
   of that fibre - by c07_lens_from_eos the position of the first eos, T when there is none *)
Theorem c07_source_lens_is_model : forall (lsm : OpsC07.tn OpsC07.xq -> OpsC07.tn OpsC07.xq) A T B hyp e, T <> 0 ->
  exists st,
    Interp.run (SrcRun.ext07_ops lsm) C07LensSrc.lens_from_eos_body (SrcRun.lens_vars (SrcRun.hyp_tensor A T B hyp) e 1%Z)
    = Interp.Ok (OpsC07.enc_i (OpsC07.mkTn [A; B] (OpsC07.tab2 A B (fun a b =>
        Z.of_nat (lens_from_eos e (map (fun t => SrcRun.hyp_at hyp a t b) (seq 0 T))))))) st.
Proof. exact Tie.lens_tie. Qed.
Print Assumptions c07_source_lens_is_model.

(* composed with c07_slp_tensor_correct: a statement purely about the interpreted source - at every
   (outer, inner) position the returned tensor holds the sum of the log-softmax values of the chosen tokens
   up to and including the first end-of-sequence, out-of-vocabulary positions skipped *)
Theorem c07_source_slp_eq_spec : forall (lsm : OpsC07.tn OpsC07.xq -> OpsC07.tn OpsC07.xq) logits A T B V eos lp hyp dim,
  dim = 1%Z \/ dim = (-2)%Z ->
  0 < V -> OpsC07.shp logits = [A; T; B; V] -> lsm logits = SrcRun.lp_tensor A T B V lp -> Tie.wf_slp A T lp hyp ->
  eos = None \/ 0 < T ->
  exists st,
    Interp.run (SrcRun.ext07 lsm) C07Src.slp_tensor_body (SrcRun.slp_vars logits (SrcRun.hyp_tensor A T B hyp) dim eos)
    = Interp.Ok (OpsC07.enc_f (SrcRun.out_tensor A B
        (map2 (fun lp_a hyp_a =>
                 map (fun b => spec_slp OpsC07.xadd OpsC07.xzero (Z.of_nat V) eos (column [] b lp_a) (column 0%Z b hyp_a))
                     (seq 0 B)) lp hyp))) st.
Proof. exact Tie.source_slp_eq_spec. Qed.
Print Assumptions c07_source_slp_eq_spec.

(* non-vacuity: the interpreted source on a concrete 1 x 3 x 2 case (V = 2, eos = 0: an out-of-vocabulary
   token, an eos in the middle), with and without eos, and the zero-length error; values are the model's *)
Example c07_source_slp_nonvacuous :
  let lp := [[[[-3;-5];[-1;-2]];[[-7;-11];[-4;-6]];[[-13;-17];[-8;-9]]]]%Z in
  let hyp := [[[1;0];[5;1];[0;1]]]%Z in
  SrcRun.src_slp 2 (Some 0%Z) 3 2 lp hyp = Some (slp_tensor Z.add 0%Z 2 (Some 0%Z) 3 2 lp hyp) /\
  SrcRun.src_slp 2 (Some 0%Z) 3 2 lp hyp = Some (Some [[-18; -1]]%Z) /\
  SrcRun.src_slp 2 None 3 2 lp hyp = Some (Some [[-18; -16]]%Z) /\
  SrcRun.src_slp 2 (Some 1%Z) 0 2 [[]] [[]] = Some None.
Proof. cbv zeta. repeat split; vm_compute; reflexivity. Qed.

(* ---- second tie to the source text: ctc_greedy_search ---------------------------------------------------------------------
   PV.Gen.C07BSrc.greedy_body is regenerated on every run from /repo/src/pydrobert/torch/_decoding.py (`ctc_greedy_search`,
   whole body; the decorators are outside it: TorchScript is not modelled) by harness/py2coq/translate.py; PV.MiniPy.Interp is
   its semantics; SrcRunB.ext07B gives the torch calls (dim, size, transpose, max over the last dimension with the FIRST maximal
   index, != , x[:, a:b], cat, arange, unsqueeze, broadcasting <, &, ~, masked_fill, long, sum, prod, masked_select,
   masked_scatter_, t) the meaning defined in PV.MiniTorch.OpsC07 / OpsC07B (floats = exact rationals or -inf); Tensor.log_softmax
   is an ORACLE [lsm] (any shape-preserving function; the model receives its values as data, as everywhere in C07).  The theorems
   are about that regenerated term, for EVERY batch size, length, vocabulary, blank index, in_lens, both layouts (batch_first) and
   both score kinds (is_probs).  Hypotheses: the logits tensor is 3-dimensional with the layout's shape and the scores it (or the
   oracle applied to it) holds are the well-formed nested list [lp]; in_lens, when given, has one entry per batch element; for
   is_probs the scores are finite (a product with -inf is outside the modelled floats). *)
From PV Require MiniTorch.OpsC07B Gen.C07BSrc C07.SrcRunB C07.ModelB C07.TieB.

(* interpreting the source of ctc_greedy_search returns exactly (scores, paths, lengths) of the as-coded model over the float
   carrier (ModelB.ctc_greedy_g = Model.ctc_greedy with the carrier as a parameter) - or raises RuntimeError where the model has
   its error (blank index out of range) *)
Theorem c07_source_greedy_is_model : forall (lsm : OpsC07.tn OpsC07.xq -> OpsC07.tn OpsC07.xq) (mn : OpsC07.tn OpsC07.xq -> OpsC07.tn Z)
  (L0 : OpsC07.tn OpsC07.xq) N T V (lp : list (list (list OpsC07.xq))) in_lens blank (bf ip : bool),
  OpsC07.shp L0 = (if bf then [N; T; V] else [T; N; V]) ->
  (if ip then L0 else lsm L0) = SrcRunB.logits3 bf N T V (SrcRunB.lp3 OpsC07.xzero lp) ->
  TieB.wf_lp N T V lp ->
  (forall ls, in_lens = Some ls -> length ls = N) ->
  (ip = true -> TieB.all_fin3 lp = true) ->
  match ModelB.ctc_greedy_g OpsC07B.xltb OpsC07.xadd OpsC07B.xmul OpsC07.xzero OpsC07B.xone OpsC07B.xone ip (Z.of_nat V) blank T in_lens lp with
  | Some g => exists st, SrcRunB.run_greedy lsm mn L0 (SrcRunB.in_lens_tensor in_lens) blank bf ip = Interp.Ok (TieB.greedy_result bf N T g) st
  | None => exists st, SrcRunB.run_greedy lsm mn L0 (SrcRunB.in_lens_tensor in_lens) blank bf ip = Interp.Exc SrcRun.runtime_error st
  end.
Proof. exact TieB.greedy_tie. Qed.
Print Assumptions c07_source_greedy_is_model.

(* the blank-index check alone: any 3-dimensional logits, any other arguments *)
Theorem c07_source_greedy_raises : forall (lsm : OpsC07.tn OpsC07.xq -> OpsC07.tn OpsC07.xq) (mn : OpsC07.tn OpsC07.xq -> OpsC07.tn Z)
  (L0 : OpsC07.tn OpsC07.xq) il blank (bf ip : bool),
  length (OpsC07.shp L0) = 3 ->
  (blank < - Z.of_nat (nth 2 (OpsC07.shp L0) 0%nat) \/ Z.of_nat (nth 2 (OpsC07.shp L0) 0%nat) - 1 < blank)%Z ->
  exists st, SrcRunB.run_greedy lsm mn L0 il blank bf ip = Interp.Exc SrcRun.runtime_error st.
Proof. exact TieB.greedy_run_raises. Qed.
Print Assumptions c07_source_greedy_raises.

(* on floats that are integers (the carrier of Model.ctc_greedy; the fill value 1.0 is one = 1) the interpreted source returns
   Model.ctc_greedy's scores, paths and lengths *)
Theorem c07_source_greedy_is_model_Z : forall (lsm : OpsC07.tn OpsC07.xq -> OpsC07.tn OpsC07.xq) (mn : OpsC07.tn OpsC07.xq -> OpsC07.tn Z)
  (L0 : OpsC07.tn OpsC07.xq) N T V (lp : list (list (list Z))) in_lens blank (bf ip : bool),
  OpsC07.shp L0 = (if bf then [N; T; V] else [T; N; V]) ->
  (if ip then L0 else lsm L0) = SrcRunB.logits3 bf N T V (SrcRunB.lp3 OpsC07.xzero (TieB.zq3 lp)) ->
  TieB.wf_lp N T V lp ->
  (forall ls, in_lens = Some ls -> length ls = N) ->
  match ctc_greedy ip 1%Z (Z.of_nat V) blank T in_lens lp with
  | Some g => exists st, SrcRunB.run_greedy lsm mn L0 (SrcRunB.in_lens_tensor in_lens) blank bf ip = Interp.Ok (TieB.greedy_result_Z bf N T g) st
  | None => exists st, SrcRunB.run_greedy lsm mn L0 (SrcRunB.in_lens_tensor in_lens) blank bf ip = Interp.Exc SrcRun.runtime_error st
  end.
Proof. exact TieB.greedy_tie_Z. Qed.
Print Assumptions c07_source_greedy_is_model_Z.

(* COMPOSED with c07_greedy_correct, purely about the interpreted source: what it returns holds, per batch element, the
   frame-wise best labels within the valid length with repeats and blanks removed (in the first out_lens entries of the path),
   their number, and the summed (is_probs: multiplied) frame maxima *)
Theorem c07_source_greedy_correct : forall (lsm : OpsC07.tn OpsC07.xq -> OpsC07.tn OpsC07.xq) (mn : OpsC07.tn OpsC07.xq -> OpsC07.tn Z)
  (L0 : OpsC07.tn OpsC07.xq) N T V (lp : list (list (list Z))) in_lens blank (bf ip : bool),
  OpsC07.shp L0 = (if bf then [N; T; V] else [T; N; V]) ->
  (if ip then L0 else lsm L0) = SrcRunB.logits3 bf N T V (SrcRunB.lp3 OpsC07.xzero (TieB.zq3 lp)) ->
  TieB.wf_lp N T V lp ->
  (forall ls, in_lens = Some ls -> length ls = N) ->
  (- Z.of_nat V <= blank <= Z.of_nat V - 1)%Z ->
  let b := norm_blank (Z.of_nat V) blank in
  let ll := eff_lens T in_lens N in
  exists g st, SrcRunB.run_greedy lsm mn L0 (SrcRunB.in_lens_tensor in_lens) blank bf ip = Interp.Ok (TieB.greedy_result_Z bf N T g) st /\
    g_lens g = map2 (fun l fr => length (row_path b T l fr)) ll lp /\
    map2 (fun l p => firstn l p) (g_lens g) (g_paths g) = map2 (row_path b T) ll lp /\
    g_score g = map2 (row_score ip 1%Z T) ll lp.
Proof. exact TieB.source_greedy_correct. Qed.
Print Assumptions c07_source_greedy_correct.

(* non-vacuity: the interpreted source on the case of c07_greedy_nonvacuous (labels 1,1,0,2,2, blank 0 given as -3, valid length
   4), in both layouts, the out-of-range blank, and is_probs with dyadic probabilities k/8 *)
Example c07_source_greedy_nonvacuous :
  let lp := [[[0;5;5];[1;7;2];[9;1;1];[0;0;4];[0;1;6]]]%Z in
  SrcRunB.src_greedy true false 0 (-3) 1 5 3 (Some [4%Z]) lp = Some (Some ([25%Z], [[1;2;0;2;2]], [2])) /\
  SrcRunB.src_greedy false false 0 (-3) 1 5 3 (Some [4%Z]) lp = Some (Some ([25%Z], [[1;2;0;2;2]], [2])) /\
  SrcRunB.src_greedy false false 0 3 1 5 3 (Some [4%Z]) lp = Some None /\
  SrcRunB.src_greedy_check 0 true 8 3 1 5 (Some [4%Z]) lp (Some ([10080%Z], [[0;2;0;2;2]], [2])) = true.
Proof. cbv zeta. repeat split; vm_compute; reflexivity. Qed.
