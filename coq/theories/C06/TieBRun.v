(* C06, second tie, part 2 — the MiniPy term of `LookupLanguageModel.calc_full_log_probs_chunked`
   (PV.Gen.C06BSrc.chunked_body, regenerated from /repo on every run) interpreted with [SrcRunB.ext06B] on the encoding of
   the model's buffers and a (T, B) history.  WHOLE body: the preamble, `for idx_ in torch.arange(Nm1)` (one
   `calc_idx_log_probs(hist[:idx_], prev, idx_)` per short position), `for t in range(Nm1, T + 1, chunk_size)` (one call
   on the `as_strided` windows of up to chunk_size positions, `view(T_rest, B, V)`), `torch.cat(log_probs, 0)`, the
   assertion.  Every inner call is the first tie's theorem about the interpreted `calc_idx_log_probs`
   (Tie.source_method_scalar_is_model); both loops by induction with the invariant [Inv]: the pieces collected so far
   concatenate to the rows of positions 0 .. k-1.  Result: the (T+1, B, V) tensor of the rows [Proofs.all_rows] of EVERY
   position, whatever the chunk size >= 1; RuntimeError for a chunk size < 1. *)
From Coq Require Import ZArith QArith List String Bool Arith Lia ZifyBool ZifyNat.
From PV Require Import MiniPy.Syntax MiniPy.Interp MiniPy.Lemmas MiniTorch.OpsC06 MiniTorch.LemmasC06 MiniTorch.OpsC06B
  MiniTorch.LemmasC06B Gen.C06Src Gen.C06BSrc.
From PV Require Import C06.SrcRun C06.SrcRunB C06.TieRun.
From PV Require C06.Model C06.Spec C06.Proofs C06.TieSafe C06.TieSafeProofs C06.TieTop C06.Tie.
Import ListNotations.
Local Open Scope string_scope.

(* ---- sub-terms of the generated term ---------------------------------------------------------------------------- *)
Fixpoint nth_tail (k : nat) (s : stmt) : stmt :=
  match k, s with
  | O, _ => s
  | S k', SSeq _ b => nth_tail k' b
  | S _, _ => SPass
  end.
Definition first_stmt (s : stmt) : stmt := match s with SSeq a _ => a | _ => s end.
Definition for_body (s : stmt) : stmt := match s with SFor _ _ b => b | _ => SPass end.
Definition if_then (s : stmt) : stmt := match s with SIf _ t _ => t | _ => SPass end.

(* `for idx_ in torch.arange(Nm1, ..)`: its body *)
Definition body1 : stmt := Eval cbv in for_body (first_stmt (nth_tail 7 chunked_body)).
(* `for t in range(Nm1, T + 1, chunk_size)`: its body *)
Definition body2 : stmt := Eval cbv in for_body (nth_tail 1 (if_then (first_stmt (nth_tail 8 chunked_body)))).
(* the statements after the two loops *)
Definition tail_stmts : stmt := Eval cbv in nth_tail 9 chunked_body.

(* ---- the calls that reach ext06B ------------------------------------------------------------------------------------ *)
Definition own (f : string) : bool :=
  is f "self.calc_idx_log_probs" || is f "iter" || is f "range" || is f "torch.empty" || is f "torch.tensor"
  || is f "$method.contiguous" || is f "$method.storage_offset" || is f "$method.as_strided" || is f "torch.cat"
  || is f "$getitem".

Lemma extB_ops f args kw st : own f = false -> ext06B f args kw st = ext06_ops f args kw st.
Proof.
  unfold own, ext06B. intros H. repeat (apply orb_false_elim in H as [H ?]).
  repeat match goal with E : is f ?s = false |- _ => rewrite E; clear E end. reflexivity.
Qed.

Lemma extB_shape h B st : ext06B "$attr.shape" [enc6 (hist_tensor h B)] [] st
  = Ok (VTuple [VInt (Z.of_nat (List.length h)); VInt (Z.of_nat B)]) st.
Proof. rewrite extB_ops by reflexivity. rewrite ext_shape. reflexivity. Qed.
Lemma extB_device t st : ext06B "$attr.device" [enc6 t] [] st = Ok device_token st.
Proof. rewrite extB_ops by reflexivity. apply ext_device. Qed.
Lemma extB_contiguous t st : ext06B "$method.contiguous" [enc6 t] [] st = Ok (enc6 t) st.
Proof. unfold ext06B, on1. cbn - [dec6 enc6]. rewrite dec6_enc6. reflexivity. Qed.
Lemma extB_empty a c d st : ext06B "torch.empty" [VInt a; VInt c; VInt d] [("device", device_token)] st
  = ret6 "empty" (empty0 [a; c; d]) st.
Proof. reflexivity. Qed.
Lemma extB_arange n st : ext06B "torch.arange" [VInt n] [("device", device_token)] st = ret6 "arange" (arange n) st.
Proof. reflexivity. Qed.
Lemma extB_iter t st : ext06B "iter" [enc6 t] [] st
  = match iter0 t with Some l => Ok (VList (map enc6 l)) st | None => stuck6 "iter" end.
Proof. unfold ext06B. cbn - [dec6 enc6]. rewrite dec6_enc6. reflexivity. Qed.
Lemma bound_val_idx z : bound_val (enc6 (T6 [] [CI z])) = VInt z.
Proof. unfold bound_val. rewrite dec6_enc6. reflexivity. Qed.
Lemma extB_slice_t t z st : ext06B "$getitem" [enc6 t; VTuple [VStr "$slice"; VNone; enc6 (T6 [] [CI z]); VNone]] [] st
  = ret6 "x[a:b]" (slice0 t None (Some z)) st.
Proof.
  unfold ext06B. cbn [is String.eqb Ascii.eqb Bool.eqb]. rewrite bound_val_idx.
  change (bound_val VNone) with VNone. apply ext_slice_ni.
Qed.
Lemma extB_unsqueeze t d st : ext06B "$method.unsqueeze" [enc6 t; VInt d] [] st = ret6 "unsqueeze" (unsqueeze t d) st.
Proof. rewrite extB_ops by reflexivity. apply ext_unsqueeze. Qed.
Lemma extB_tensor z st : ext06B "torch.tensor" [VInt z] [("dtype", long_token); ("device", device_token)] st
  = Ok (enc6 (tensor_int z)) st.
Proof. reflexivity. Qed.
Lemma extB_range a c d st : ext06B "range" [VInt a; VInt c; VInt d] [] st
  = if (0 <? d)%Z then Ok (VList (map VInt (range_step (Z.to_nat (c - a)) a c d))) st else stuck6 "range with a step <= 0".
Proof. reflexivity. Qed.
Lemma extB_storage_offset t st : ext06B "$method.storage_offset" [enc6 t] [] st = Ok (VInt 0) st.
Proof. unfold ext06B. cbn - [dec6 enc6]. rewrite dec6_enc6. reflexivity. Qed.
Lemma extB_as_strided t n m s0 s1 off st :
  ext06B "$method.as_strided" [enc6 t; VTuple [VInt n; VInt m]; VTuple [VInt s0; VInt s1]; VInt off] [] st
  = ret6 "as_strided" (as_strided2 t n m s0 s1 off) st.
Proof. unfold ext06B, on1. cbn - [dec6 enc6]. rewrite dec6_enc6. reflexivity. Qed.
Lemma extB_view3 t a c d st : ext06B "$method.view" [enc6 t; VInt a; VInt c; VInt d] [] st = ret6 "view" (view t [a; c; d]) st.
Proof. rewrite extB_ops by reflexivity. unfold ext06_ops, on1. cbn - [dec6 enc6]. rewrite dec6_enc6. reflexivity. Qed.
Lemma tensors_of_enc l : tensors_of (map enc6 l) = Some l.
Proof. induction l as [|t l IH]; [reflexivity|]. cbn [map tensors_of]. rewrite dec6_enc6, IH. reflexivity. Qed.
Lemma extB_cat l st : ext06B "torch.cat" [VList (map enc6 l); VInt 0] [] st = ret6 "cat" (cat0 l) st.
Proof. unfold ext06B. cbn - [tensors_of enc6 cat0]. rewrite tensors_of_enc. reflexivity. Qed.
Lemma extB_cat_cons e l st : ext06B "torch.cat" [VList (enc6 e :: map enc6 l); VInt 0] [] st = ret6 "cat" (cat0 (e :: l)) st.
Proof. exact (extB_cat (e :: l) st). Qed.
Lemma extB_size t d st : ext06B "$method.size" [enc6 t; VInt d] [] st = retn "size" (size t d) st.
Proof. rewrite extB_ops by reflexivity. apply ext_size. Qed.

(* the call of the other translated method: whatever the first tie proves about its interpretation *)
Lemma extB_call self_v h p i r st0 st :
  lookup "self" (vars st) = Some self_v ->
  Interp.run ext06 calc_idx_body [("self", self_v); ("hist", h); ("prev", p); ("idx", i)] = Ok r st0 ->
  ext06B "self.calc_idx_log_probs" [h; p; i] [] st = Ok r st.
Proof. intros Hs R. unfold ext06B. cbn [is String.eqb Ascii.eqb Bool.eqb]. rewrite Hs. unfold call_in. rewrite R. reflexivity. Qed.

(* ---- builtins, container methods, attributes (kept folded during symbolic execution) ---- *)
Definition not_builtin (f : string) : bool :=
  negb (is f "len" || is f "max" || is f "min" || is f "bool" || is f "dict" || is f "list" || is f "tuple" || is f "set"
        || is f "iter" || is f "range" || is f "slice" || is f "$ellipsis" || is f "islice").
Lemma builtin_other f vs st : not_builtin f = true -> builtin f vs st = None.
Proof.
  unfold not_builtin, builtin. intros H. apply negb_true_iff in H. repeat (apply orb_false_elim in H as [H ?]).
  repeat match goal with E : is f ?s = false |- _ => rewrite E; clear E end. reflexivity.
Qed.
Lemma builtin_min2 a c st : builtin "min" [VInt a; VInt c] st = Some (Ok (VInt (Z.min a c)) st).
Proof. cbn [builtin is String.eqb Ascii.eqb Bool.eqb]. rewrite min_int. reflexivity. Qed.
Lemma builtin_slice a c d st : builtin "slice" [a; c; d] st = Some (Ok (VTuple [VStr "$slice"; a; c; d]) st).
Proof. reflexivity. Qed.
Lemma builtin_iter_t t st : builtin "iter" [enc6 t] st = None.
Proof. reflexivity. Qed.
Lemma builtin_range3 a c d st : builtin "range" [VInt a; VInt c; VInt d] st = None.
Proof. reflexivity. Qed.

Lemma method_append l v : method (VList l) "append" [v] = Some (VNone, Some (VList (l ++ [v]))).
Proof. reflexivity. Qed.

Lemma attributeB_enc6 t a st : attribute ext06B (enc6 t) a st = ext06B ("$attr." ++ a) [enc6 t] [] st.
Proof. reflexivity. Qed.
Lemma attr_torch_longB st : attribute ext06B torch_module "long" st = Ok long_token st. Proof. reflexivity. Qed.
Lemma attr_self_N b sh st : attribute ext06B (self_value b sh) "max_ngram" st = Ok (VInt (Z.of_nat (Model.order sh))) st.
Proof. reflexivity. Qed.
Lemma attr_self_V b sh st : attribute ext06B (self_value b sh) "vocab_size" st = Ok (VInt (Model.vocab sh)) st.
Proof. reflexivity. Qed.

(* a statement `x.m(a)` (one argument) *)
Lemma exec_meth1 ext o m a st :
  exec ext (SExpr (EMeth o m [a] [])) st =
  bind (eval ext o st) (fun ov st1 => bind (eval ext a st1) (fun v st2 =>
    match method ov m [v] with
    | Some (_, None) => Ok CNormal st2
    | Some (_, Some nv) => bind (store ext o nv st2) (fun _ st3 => Ok CNormal st3)
    | None => bind (ext ("$method!." ++ m) [ov; v] [] st2) (fun nv st3 => bind (store ext o nv st3) (fun _ st4 => Ok CNormal st4))
    end)).
Proof.
  cbn [exec]. destruct (eval ext o st) as [ov st1|n1 st1|w]; cbn [bind]; try reflexivity.
  destruct (eval ext a st1) as [v st2|n2 st2|w]; cbn [bind]; reflexivity.
Qed.

Lemma exec_assign3 ext x y z e st :
  exec ext (SAssign [TName x; TName y; TName z] e) st =
  bind (eval ext e st) (fun v st1 => Ok CNormal (set_var z v (set_var y v (set_var x v st1)))).
Proof. cbn [exec]. destruct (eval ext e st); reflexivity. Qed.
Lemma lookup_consB x y v l : lookup x ((y, v) :: l) = if String.eqb x y then Some v else lookup x l.
Proof. reflexivity. Qed.
Lemma sub_pair_0 a c st : subscript (VTuple [a; c]) (VInt 0) st = Ok a st. Proof. reflexivity. Qed.
Lemma sub_pair_1 a c st : subscript (VTuple [a; c]) (VInt 1) st = Ok c st. Proof. reflexivity. Qed.
Lemma foreign_pair_int a l : foreign (VTuple (VInt a :: l)) = false. Proof. reflexivity. Qed.

#[local] Arguments exec : simpl never.
#[local] Arguments ext06B : simpl never.
#[local] Arguments ext06_ops : simpl never.
#[local] Arguments enc6 : simpl never.
#[local] Arguments enc_shape : simpl never.
#[local] Arguments cmp_eval : simpl never.
#[local] Arguments foreign : simpl never.
#[local] Arguments extreme_of : simpl never.
#[local] Arguments val_eqb : simpl never.
#[local] Arguments method : simpl never.
#[local] Arguments builtin : simpl never.
#[local] Arguments subscript : simpl never.
#[local] Arguments binop_eval : simpl never.
#[local] Arguments attribute : simpl never.
#[local] Arguments lookup : simpl never.
#[local] Arguments update : simpl never.
#[local] Arguments self_value : simpl never.
#[local] Arguments hist_tensor : simpl never.
#[local] Arguments rows_tensor : simpl never.
#[local] Arguments size : simpl never.
#[local] Arguments arange : simpl never.
#[local] Arguments unsqueeze : simpl never.
#[local] Arguments view : simpl never.
#[local] Arguments cat0 : simpl never.
#[local] Arguments slice0 : simpl never.
#[local] Arguments iter0 : simpl never.
#[local] Arguments empty0 : simpl never.
#[local] Arguments tensor_int : simpl never.
#[local] Arguments as_strided2 : simpl never.
#[local] Arguments range_step : simpl never.
#[local] Arguments ret6 _ !_ _ /.
#[local] Arguments retn _ !_ _ /.
#[local] Arguments Z.add : simpl never.
#[local] Arguments Z.sub : simpl never.
#[local] Arguments Z.mul : simpl never.
#[local] Arguments Z.min : simpl never.
#[local] Arguments Z.opp : simpl never.
#[local] Arguments Z.eqb : simpl never.
#[local] Arguments Z.ltb : simpl never.
#[local] Arguments Z.leb : simpl never.
#[local] Arguments Z.of_nat : simpl never.
#[local] Arguments Nat.min : simpl never.
#[local] Arguments Nat.mul : simpl never.
#[local] Arguments Nat.sub : simpl never.
#[local] Arguments Nat.add : simpl never.

Ltac stepB :=
  match goal with
  | |- context [exec ext06B ?r ?st] => is_var r; subst r
  | |- context [exec ext06B (SAssign [TName _] _) _] => rewrite exec_assign1
  | |- context [exec ext06B (SAssign [TName _; TName _; TName _] _) _] => rewrite exec_assign3
  | |- context [exec ext06B (SExpr (EMeth _ _ [_] [])) _] => rewrite exec_meth1
  | |- context [exec ext06B (SIf ?c ?a ?b) ?st] =>
      rewrite (exec_if ext06B c a b st);
      let ra := fresh "thn" in let rb := fresh "els" in remember a as ra; remember b as rb
  | |- context [exec ext06B (SRaise _) _] => rewrite exec_raise
  | |- context [exec ext06B (SReturn _) _] => rewrite exec_return
  | |- context [exec ext06B (SAssert _) _] => rewrite exec_assert
  | |- context [exec ext06B SPass _] => rewrite exec_pass
  | |- context [exec ext06B (SSeq ?a ?b) ?st] =>
      rewrite (exec_seq ext06B a b st); let r := fresh "rest" in remember b as r
  end.

Ltac extB_rw f :=
  lazymatch f with
  | "$attr.shape" => rewrite extB_shape
  | "$attr.device" => rewrite extB_device
  | "$method.contiguous" => rewrite extB_contiguous
  | "torch.empty" => rewrite extB_empty
  | "torch.arange" => rewrite extB_arange
  | "iter" => rewrite extB_iter
  | "$getitem" => rewrite extB_slice_t
  | "$method.unsqueeze" => rewrite extB_unsqueeze
  | "torch.tensor" => rewrite extB_tensor
  | "range" => rewrite extB_range
  | "$method.storage_offset" => rewrite extB_storage_offset
  | "$method.as_strided" => rewrite extB_as_strided
  | "$method.view" => rewrite extB_view3
  | "torch.cat" => first [rewrite extB_cat_cons | rewrite extB_cat]
  | "$method.size" => rewrite extB_size
  end.

Ltac rwB :=
  repeat match goal with
  | |- context [lookup _ (update _ _ _)] => rewrite lookup_update
  | |- context [lookup _ (_ :: _)] => rewrite lookup_consB
  | H : lookup ?x ?l = Some _ |- context [lookup ?x ?l] => rewrite H
  | |- context [method (enc6 _) _ _] => rewrite method_enc6
  | |- context [method (VList _) "append" [_]] => rewrite method_append
  | |- context [attribute ext06B (enc6 _) _ _] => rewrite attributeB_enc6
  | |- context [attribute ext06B torch_module "long" _] => rewrite attr_torch_longB
  | |- context [attribute ext06B (self_value _ _) "max_ngram" _] => rewrite attr_self_N
  | |- context [attribute ext06B (self_value _ _) "vocab_size" _] => rewrite attr_self_V
  | |- context [foreign (enc6 _)] => rewrite foreign_enc6
  | |- context [foreign (VInt _)] => rewrite foreign_int
  | |- context [foreign (VTuple (VInt _ :: _))] => rewrite foreign_pair_int
  | |- context [match subscript (enc6 _) _ _ with _ => _ end] => rewrite sub_enc6
  | |- context [subscript (VTuple [_; _]) (VInt 0) _] => rewrite sub_pair_0
  | |- context [subscript (VTuple [_; _]) (VInt 1) _] => rewrite sub_pair_1
  | |- context [match binop_eval _ (enc6 _) _ _ with _ => _ end] => rewrite bin_enc6
  | |- context [binop_eval Add (VInt _) (VInt _) _] => rewrite bin_add_int
  | |- context [binop_eval Sub (VInt _) (VInt _) _] => rewrite bin_sub_int
  | |- context [binop_eval Mul (VInt _) (VInt _) _] => rewrite bin_mul_int
  | |- context [cmp_eval Eq (VInt _) (VInt _)] => rewrite cmp_eq_int
  | |- context [cmp_eval Lt (VInt _) (VInt _)] => rewrite cmp_lt_int
  | |- context [builtin "min" [VInt _; VInt _] _] => rewrite builtin_min2
  | |- context [builtin "slice" [_; _; _] _] => rewrite builtin_slice
  | |- context [builtin "iter" [enc6 _] _] => rewrite builtin_iter_t
  | |- context [builtin "range" [VInt _; VInt _; VInt _] _] => rewrite builtin_range3
  | |- context [builtin ?f ?vs ?st] => rewrite (builtin_other f vs st eq_refl)
  | |- context [ext06B ?f _ _ _] => extB_rw f
  end.

Ltac goB := repeat (progress (unfold set_var; cbn; rwB)).

Ltac rwEB :=
  match goal with
  | E : ?o = Some _ |- context [ret6 _ ?o _] => rewrite E; cbn [ret6]
  | E : ?o = Some _ |- context [retn _ ?o _] => rewrite E; cbn [retn]
  | E : ?o = Some _ |- context [match ?o with Some _ => _ | None => _ end] => rewrite E
  | C : ?c = _ |- context [if ?c then _ else _] => rewrite C
  end.
Ltac runB := first [ stepB; goB | rwEB; goB ].

(* ---- tensors of the model's values ---------------------------------------------------------------------------------- *)
Local Open Scope Z_scope.
Local Open Scope list_scope.

(* x[:i] of a (T, B) history *)
Lemma slice_front (rows : list (list Z)) B (i : nat) : Proofs.rect rows B -> (i <= List.length rows)%nat ->
  slice0 (hist_tensor rows B) None (Some (Z.of_nat i)) = Some (hist_tensor (firstn i rows) B).
Proof.
  intros Hr Hi.
  replace (slice0 (hist_tensor rows B) None (Some (Z.of_nat i))) with (slice0 (hist_tensor rows B) (Some 0) (Some (Z.of_nat i))).
  - rewrite TieTop.slice0_hist by (try assumption; unfold Model.zlen; lia).
    rewrite Z.sub_0_r, Nat2Z.id. reflexivity.
  - unfold slice0, hist_tensor. cbn [sh6 dt6 clip]. replace (0 <? 0) with false by lia.
    rewrite (Z.min_r _ 0) by lia. rewrite (Z.max_l 0 0) by lia. reflexivity.
Qed.

(* the strided windows of `as_strided((Nm1, T_rest * B), (B, 1), storage_offset + B * (t - Nm1))` *)
Lemma as_strided_hist (rows : list (list Z)) B (Nm1 Trest t : nat) : Proofs.rect rows B ->
  (Nm1 <= t)%nat -> (t + Trest <= List.length rows + 1)%nat -> (Nm1 <= List.length rows)%nat ->
  as_strided2 (hist_tensor rows B) (Z.of_nat Nm1) (Z.of_nat Trest * Z.of_nat B) (Z.of_nat B) 1
    (0 + Z.of_nat B * (Z.of_nat t - Z.of_nat Nm1))
  = Some (hist_tensor (Model.strided (List.concat rows) B Nm1 Trest t) (Trest * B)).
Proof.
  intros Hr Ht HT HN. unfold as_strided2.
  replace ((0 <=? Z.of_nat Nm1) && (0 <=? Z.of_nat Trest * Z.of_nat B) && (0 <=? Z.of_nat B) && (0 <=? 1)
           && (0 <=? 0 + Z.of_nat B * (Z.of_nat t - Z.of_nat Nm1)))%bool with true by nia.
  unfold hist_tensor. cbn [dt6]. rewrite Proofs.strided_length.
  replace (Z.to_nat (Z.of_nat Trest * Z.of_nat B)) with (Trest * B)%nat by nia. rewrite Nat2Z.id.
  pose proof (TieTop.concat_rect_length rows B Hr) as Hlen.
  rewrite (sequence_flat_map _ (fun i => map (fun j => CI (nth (B * (t - Nm1) + i * B + j) (List.concat rows) 0)) (seq 0 (Trest * B)))).
  - cbn [option_map]. f_equal. f_equal. unfold Model.strided.
    rewrite <- flat_map_concat_map, map_flat_map. reflexivity.
  - intros i Hi. apply in_seq in Hi. apply sequence_map_ext. intros j Hj. apply in_seq in Hj.
    replace (Z.to_nat (0 + Z.of_nat B * (Z.of_nat t - Z.of_nat Nm1) + Z.of_nat i * Z.of_nat B + Z.of_nat j * 1))
      with (B * (t - Nm1) + i * B + j)%nat by nia.
    rewrite nth_error_map.
    assert (Hin : (B * (t - Nm1) + i * B + j < List.length (List.concat rows))%nat) by (rewrite Hlen; nia).
    rewrite (nth_error_nth' _ 0 Hin). reflexivity.
Qed.

Lemma hist_ok_firstn sh hist B i : Proofs.hist_ok sh hist B -> Proofs.hist_ok sh (firstn i hist) B.
Proof.
  intros [Hr Ht]. split; [apply TieTop.rect_firstn; exact Hr|].
  apply Forall_forall. intros r Hr'. apply (proj1 (Forall_forall _ _) Ht). apply (Proofs.In_firstn_in _ _ _ Hr').
Qed.

Lemma hist_ok_strided sh hist B Nm1 Trest t : Proofs.hist_ok sh hist B ->
  (Nm1 <= t)%nat -> (t + Trest <= List.length hist + 1)%nat -> (Nm1 <= List.length hist)%nat ->
  Proofs.hist_ok sh (Model.strided (List.concat hist) B Nm1 Trest t) (Trest * B).
Proof.
  intros [Hr Ht] H1 H2 H3. pose proof (TieTop.concat_rect_length hist B Hr) as Hlen. split.
  - apply Forall_forall. intros r Hin. unfold Model.strided in Hin. apply in_map_iff in Hin as (i & <- & _).
    rewrite map_length, seq_length. reflexivity.
  - apply Forall_forall. intros r Hin. unfold Model.strided in Hin. apply in_map_iff in Hin as (i & <- & Hi).
    apply in_seq in Hi. apply Forall_forall. intros x Hx. apply in_map_iff in Hx as (j & <- & Hj). apply in_seq in Hj.
    assert (Hin : List.In (nth (B * (t - Nm1) + i * B + j) (List.concat hist) 0) (List.concat hist)) by (apply nth_In; rewrite Hlen; nia).
    apply in_concat in Hin as (row & Hrow & Hx). rewrite Forall_forall in Ht. specialize (Ht row Hrow).
    rewrite Forall_forall in Ht. apply Ht. exact Hx.
Qed.

Lemma map_seq_blocks {A} (F : nat -> A) (B : nat) : forall k,
  map F (seq 0 (k * B)) = List.concat (map (fun r => map (fun bi => F (r * B + bi)%nat) (seq 0 B)) (seq 0 k)).
Proof.
  induction k as [|k IH]; [reflexivity|].
  replace (S k * B)%nat with (k * B + B)%nat by lia. rewrite seq_app, map_app, IH.
  replace (S k) with (k + 1)%nat by lia. rewrite seq_app, map_app, concat_app. f_equal.
  cbn [seq map List.concat]. rewrite app_nil_r, !Nat.add_0_l. symmetry.
  rewrite (Proofs.map_seq_add F (k * B) B 0), Nat.add_0_r. reflexivity.
Qed.

Lemma range_step_S fuel a c d : range_step (S fuel) a c d = if a <? c then a :: range_step fuel (a + d) c d else [].
Proof. reflexivity. Qed.

Lemma vocab_le_logps' b sh : TieSafe.safe_okb b sh = true -> Model.vocab sh <= Model.zlen (Model.logps b).
Proof. intros H. apply (Tie.vocab_le_logps b sh [] 0 H). apply le_n. Qed.

Section Chunked.
  Variable b : Model.bufs.
  Variable sh : Model.shape.
  Variable hist : list (list Z).
  Variable B : nat.
  Variable chunk : nat.

  Hypothesis Hsafe : TieSafe.safe_okb b sh = true.
  Hypothesis HV : 1 <= Model.vocab sh.
  Hypothesis Hhist : Proofs.hist_ok sh hist B.

  Local Notation T := (List.length hist).
  Local Notation n := (Model.order sh).
  Local Notation Nm1 := (Nat.min (List.length hist) (Model.order sh - 1)).
  Local Notation Vn := (Z.to_nat (Model.vocab sh)).

  Definition rows_at (i : nat) : list (list Model.val) := Proofs.all_rows b sh hist B i.
  Definition cells_of (rows : list (list Model.val)) : list cell := map (fun v => CF (fl_of v)) (List.concat rows).
  Definition D (k : nat) : list cell := cells_of (List.concat (map rows_at (seq 0 k))).
  Definition Epiece : tens6 := T6 [0%nat; B; Vn] [].

  Lemma cells_of_app x y : cells_of (x ++ y) = cells_of x ++ cells_of y.
  Proof. unfold cells_of. rewrite concat_app, map_app. reflexivity. Qed.

  Lemma D_add k j : D (k + j) = D k ++ cells_of (List.concat (map rows_at (seq k j))).
  Proof. unfold D. rewrite seq_app, map_app, concat_app, cells_of_app. reflexivity. Qed.

  Lemma order_pos : (1 <= n)%nat.
  Proof. destruct (TieSafeProofs.safe_okb_sound b sh Hsafe) as (_ & Ho & _). exact Ho. Qed.

  Lemma rows_at_shape i : List.length (rows_at i) = B /\ Forall (fun r => List.length r = Vn) (rows_at i).
  Proof.
    pose proof (vocab_le_logps' b sh Hsafe) as Hvl. unfold Model.zlen in Hvl.
    apply (Tie.batch_rows_shape b sh hist B i). lia.
  Qed.

  Lemma cells_of_length i : List.length (cells_of (rows_at i)) = (B * Vn)%nat.
  Proof.
    destruct (rows_at_shape i) as [H1 H2]. unfold cells_of. rewrite map_length.
    rewrite (Proofs.concat_length_const Vn _ H2), H1. reflexivity.
  Qed.

  Record Inv (k : nat) (tl : list tens6) (st : state) : Prop := mkInv
    { v_self : lookup "self" (vars st) = Some (self_value b sh);
      v_hist : lookup "hist" (vars st) = Some (enc6 (hist_tensor hist B));
      v_prev : lookup "prev" (vars st) = Some (VDict []);
      v_chunk : lookup "chunk_size" (vars st) = Some (VInt (Z.of_nat chunk));
      v_T : lookup "T" (vars st) = Some (VInt (Z.of_nat T));
      v_B : lookup "B" (vars st) = Some (VInt (Z.of_nat B));
      v_V : lookup "V" (vars st) = Some (VInt (Model.vocab sh));
      v_Nm1 : lookup "Nm1" (vars st) = Some (VInt (Z.of_nat Nm1));
      v_device : lookup "device" (vars st) = Some device_token;
      v_torch : lookup "torch" (vars st) = Some torch_module;
      v_lp : lookup "log_probs" (vars st) = Some (VList (map enc6 (Epiece :: tl)));
      v_cat : cat_rows [B; Vn] (Epiece :: tl) = Some (k, D k) }.

  Lemma cat_E : cat_rows [B; Vn] [Epiece] = Some (0%nat, D 0).
  Proof. unfold Epiece. cbn [cat_rows sh6 dt6]. rewrite shape_eqb_refl. reflexivity. Qed.

  (* ---- `for idx_ in torch.arange(Nm1)`: one short position per iteration ---- *)
  Lemma body1_run i tl st : (i < Nm1)%nat -> Inv i tl st ->
    exists st' tl', exec ext06B body1 (set_var "idx_" (enc6 (T6 [] [CI (Z.of_nat i)])) st) = Ok CNormal st' /\ Inv (S i) tl' st'.
  Proof.
    intros Hi [Hself Hh Hprev Hch HTv HBv HVv HNm Hdev Htor Hlp Hcat]. pose proof Hhist as [Hrect Htoks].
    assert (Hslice : slice0 (hist_tensor hist B) None (Some (Z.of_nat i)) = Some (hist_tensor (firstn i hist) B))
      by (apply slice_front; [exact Hrect|lia]).
    destruct (Tie.source_method_scalar_is_model b sh (firstn i hist) B i Hsafe HV (hist_ok_firstn sh hist B i Hhist)
                ltac:(rewrite firstn_length; lia)) as [st0 R].
    unfold method_vars, idx_tensor in R.
    assert (Erows : Proofs.batch_rows b sh (firstn i hist) B (repeat i B) = rows_at i).
    { unfold rows_at, Proofs.all_rows. rewrite !Proofs.batch_rows_repeat. apply map_ext. intros bi.
      rewrite Proofs.column_firstn. apply Proofs.elem_row_firstn. lia. }
    rewrite Erows in R.
    set (R1 := rows_tensor B Vn (rows_at i)) in *.
    assert (Hunsq : unsqueeze R1 0 = Some (T6 [1%nat; B; Vn] (dt6 R1))) by reflexivity.
    unfold body1. repeat runB.
    erewrite extB_call; [ | cbn [vars]; rwB; reflexivity | exact R ]. goB.
    repeat runB.
    eexists. exists (tl ++ [T6 [1%nat; B; Vn] (dt6 R1)]). split; [reflexivity|].
    constructor; cbn [vars]; rwB; try reflexivity.
    - cbn [String.eqb Ascii.eqb Bool.eqb map]. rewrite map_app. reflexivity.
    - change (Epiece :: tl ++ [T6 [1%nat; B; Vn] (dt6 R1)]) with ((Epiece :: tl) ++ [T6 [1%nat; B; Vn] (dt6 R1)]).
      rewrite (cat_rows_snoc [B; Vn] (Epiece :: tl) (T6 [1%nat; B; Vn] (dt6 R1)) i (D i) 1%nat Hcat eq_refl).
      replace (S i) with (i + 1)%nat by lia. rewrite D_add. cbn [seq map List.concat]. rewrite app_nil_r. reflexivity.
  Qed.

  Lemma loop1_run : forall cnt i tl st, (i + cnt = Nm1)%nat -> Inv i tl st ->
    exists st' tl', for_loop ext06B "idx_" body1 (map enc6 (map (fun j => T6 [] [CI (Z.of_nat j)]) (seq i cnt))) st = Ok CNormal st'
                    /\ Inv Nm1 tl' st'.
  Proof.
    induction cnt as [|cnt IH]; intros i tl st Hc HI.
    - exists st, tl. split; [reflexivity|]. replace Nm1 with i by lia. exact HI.
    - cbn [seq map for_loop].
      destruct (body1_run i tl st ltac:(lia) HI) as (st1 & tl1 & R1 & HI1). rewrite R1. cbn [bind].
      apply (IH (S i) tl1 st1); [lia|exact HI1].
  Qed.

  (* ---- `for t in range(Nm1, T + 1, chunk_size)`: up to chunk_size positions per iteration ---- *)
  Hypothesis Hchunk : (1 <= chunk)%nat.

  Record Inv2 (k : nat) (tl : list tens6) (st : state) : Prop := mkInv2
    { w_inv : Inv k tl st;
      w_idx : lookup "idx_" (vars st) = Some (enc6 (T6 [] [CI (Z.of_nat Nm1)])) }.

  Lemma strided_rows (t trest : nat) : (Nm1 <= t)%nat -> (t + trest <= T + 1)%nat ->
    Proofs.batch_rows b sh (Model.strided (List.concat hist) B Nm1 trest t) (trest * B) (repeat Nm1 (trest * B))
    = List.concat (map rows_at (seq t trest)).
  Proof.
    intros Ht HT. pose proof Hhist as [Hrect _].
    rewrite Proofs.batch_rows_repeat.
    rewrite (map_seq_blocks (fun j => Proofs.elem_row b sh (Model.column (Model.strided (List.concat hist) B Nm1 trest t) j) Nm1) B trest).
    f_equal. replace (seq t trest) with (seq (t + 0) trest) by (rewrite Nat.add_0_r; reflexivity).
    rewrite <- (Proofs.map_seq_add rows_at t trest 0).
    apply map_ext_in. intros r Hr. apply in_seq in Hr. unfold rows_at, Proofs.all_rows. rewrite Proofs.batch_rows_repeat.
    apply map_ext_in. intros bi Hbi. apply in_seq in Hbi.
    apply (Proofs.strided_elem b sh hist B trest t r bi); try assumption; lia.
  Qed.

  Lemma body2_run t tl st : (Nm1 <= t)%nat -> (t <= T)%nat -> Inv2 t tl st ->
    exists st' tl', exec ext06B body2 (set_var "t" (VInt (Z.of_nat t)) st) = Ok CNormal st'
                    /\ Inv2 (t + Nat.min chunk (T + 1 - t)) tl' st'.
  Proof.
    intros Ht HT [[Hself Hh Hprev Hch HTv HBv HVv HNm Hdev Htor Hlp Hcat] Hidx]. pose proof Hhist as [Hrect Htoks].
    set (trest := Nat.min chunk (T + 1 - t)).
    assert (Hmin : Z.min (Z.of_nat chunk) (Z.of_nat T + 1 - Z.of_nat t) = Z.of_nat trest) by (unfold trest; lia).
    assert (Hstr : as_strided2 (hist_tensor hist B) (Z.of_nat Nm1) (Z.of_nat trest * Z.of_nat B) (Z.of_nat B) 1
                     (0 + Z.of_nat B * (Z.of_nat t - Z.of_nat Nm1))
                   = Some (hist_tensor (Model.strided (List.concat hist) B Nm1 trest t) (trest * B)))
      by (apply as_strided_hist; [exact Hrect| | |]; unfold trest; lia).
    assert (Hok : Proofs.hist_ok sh (Model.strided (List.concat hist) B Nm1 trest t) (trest * B))
      by (apply hist_ok_strided; [exact Hhist| | |]; unfold trest; lia).
    destruct (Tie.source_method_scalar_is_model b sh _ (trest * B) Nm1 Hsafe HV Hok
                ltac:(rewrite Proofs.strided_length; lia)) as [st0 R].
    unfold method_vars, idx_tensor in R.
    rewrite (strided_rows t trest Ht ltac:(unfold trest; lia)) in R.
    set (rows := List.concat (map rows_at (seq t trest))) in *.
    set (R2 := rows_tensor (trest * B) Vn rows) in *.
    assert (Hview : view R2 [Z.of_nat trest; Z.of_nat B; Model.vocab sh] = Some (T6 [trest; B; Vn] (dt6 R2))).
    { unfold view. cbn [nats_of]. replace (0 <=? Z.of_nat trest) with true by lia. replace (0 <=? Z.of_nat B) with true by lia.
      replace (0 <=? Model.vocab sh) with true by lia. cbn [option_map]. rewrite !Nat2Z.id.
      unfold numel, R2, rows_tensor. cbn [sh6 dt6 prodn fold_right].
      replace (trest * (B * (Vn * 1)) =? trest * B * (Vn * 1))%nat with true by lia. reflexivity. }
    unfold body2. repeat runB. rewrite Hmin. goB. repeat runB.
    erewrite extB_call; [ | cbn [vars]; rwB; reflexivity | exact R ]. goB.
    repeat runB.
    eexists. exists (tl ++ [T6 [trest; B; Vn] (dt6 R2)]). split; [reflexivity|].
    constructor; [constructor|]; cbn [vars]; rwB; try reflexivity.
    - cbn [String.eqb Ascii.eqb Bool.eqb map]. rewrite map_app. reflexivity.
    - change (Epiece :: tl ++ [T6 [trest; B; Vn] (dt6 R2)]) with ((Epiece :: tl) ++ [T6 [trest; B; Vn] (dt6 R2)]).
      rewrite (cat_rows_snoc [B; Vn] (Epiece :: tl) (T6 [trest; B; Vn] (dt6 R2)) t (D t) trest Hcat eq_refl).
      rewrite D_add. reflexivity.
  Qed.

  Lemma loop2_run : forall fuel t tl st, (Nm1 <= t)%nat -> (T + 1 - t <= fuel)%nat -> Inv2 (Nat.min t (T + 1)) tl st ->
    exists st' tl', for_loop ext06B "t" body2 (map VInt (range_step fuel (Z.of_nat t) (Z.of_nat T + 1) (Z.of_nat chunk))) st
                    = Ok CNormal st' /\ Inv2 (T + 1) tl' st'.
  Proof.
    induction fuel as [|fuel IH]; intros t tl st Ht Hf HI.
    - exists st, tl. split; [reflexivity|]. replace (T + 1)%nat with (Nat.min t (T + 1)) by lia. exact HI.
    - rewrite range_step_S. destruct (Z.of_nat t <? Z.of_nat T + 1) eqn:E.
      + cbn [map for_loop]. replace (Nat.min t (T + 1)) with t in HI by lia.
        destruct (body2_run t tl st Ht ltac:(lia) HI) as (st1 & tl1 & R1 & HI1). rewrite R1. cbn [bind].
        replace (Z.of_nat t + Z.of_nat chunk) with (Z.of_nat (t + chunk)) by lia.
        apply (IH (t + chunk)%nat tl1 st1); [lia|lia|].
        replace (Nat.min (t + chunk) (T + 1)) with (t + Nat.min chunk (T + 1 - t))%nat by lia. exact HI1.
      + exists st, tl. split; [reflexivity|]. replace (T + 1)%nat with (Nat.min t (T + 1)) by lia. exact HI.
  Qed.

  (* ---- the whole body ---- *)
  Theorem chunked_run :
    exists st, Interp.run ext06B chunked_body (chunked_vars b sh hist B (Z.of_nat chunk))
               = Ok (enc6 (mats_tensor (T + 1) B Vn (map rows_at (seq 0 (S T))))) st.
  Proof.
    pose proof order_pos as Ho. pose proof Hhist as [Hrect Htoks].
    assert (Hnm : Z.min (Z.of_nat T) (Z.of_nat n - 1) = Z.of_nat Nm1) by lia.
    assert (C1 : (Z.of_nat chunk <? 1) = false) by lia.
    assert (C2 : (0 <? Z.of_nat chunk) = true) by lia.
    assert (C3 : (Z.of_nat Nm1 <? Z.of_nat T + 1) = true) by lia.
    assert (Hempty : empty0 [0; Z.of_nat B; Model.vocab sh] = Some Epiece).
    { unfold empty0. cbn [nats_of Z.leb Z.compare]. replace (0 <=? Z.of_nat B) with true by lia.
      replace (0 <=? Model.vocab sh) with true by lia. cbn [option_map Z.to_nat prodn fold_right Nat.mul Nat.eqb].
      rewrite Nat2Z.id. reflexivity. }
    assert (Harange : arange (Z.of_nat Nm1) = Some (T1 (seq 0 Nm1) (fun i => CI (Z.of_nat i)))).
    { unfold arange, T1. replace (0 <=? Z.of_nat Nm1) with true by lia. rewrite Nat2Z.id, seq_length. reflexivity. }
    pose proof (iter0_T1 (seq 0 Nm1) (fun i => CI (Z.of_nat i))) as Hiter.
    remember (enc6 (mats_tensor (T + 1) B Vn (map rows_at (seq 0 (S T))))) as RES eqn:HRES.
    unfold Interp.run, chunked_vars, globals06. cbn [app]. unfold chunked_body.
    repeat first [ runB | progress (rewrite Hnm; goB) ].
    (* first loop *)
    match goal with |- context [exec ext06B (SFor ?x ?e ?bd) ?st] => rewrite (exec_for ext06B x e bd st) end.
    goB. repeat first [ rwEB; goB | progress (rewrite Hnm; goB) ]. cbn [iter_items container_items].
    match goal with |- context [for_loop ext06B "idx_" ?bd ?items ?st1] =>
      let HI := fresh "HI" in
      assert (HI : Inv 0 [] st1) by (constructor; cbn [vars]; rwB; try reflexivity; apply cat_E);
      destruct (loop1_run Nm1 0 [] st1 ltac:(lia) HI) as (st2 & tl2 & R1 & HI1); clear HI
    end.
    unfold body1 in R1. rewrite R1. cbn [bind].
    destruct HI1 as [Hself Hh Hprev Hch HTv HBv HVv HNm Hdev Htor Hlp Hcat].
    repeat first [ runB ].
    (* second loop *)
    match goal with |- context [exec ext06B (SFor ?x ?e ?bd) ?st] => rewrite (exec_for ext06B x e bd st) end.
    goB. repeat first [ rwEB; goB ]. cbn [iter_items container_items].
    replace (Z.to_nat (Z.of_nat T + 1 - Z.of_nat Nm1)) with (T + 1 - Nm1)%nat by lia.
    match goal with |- context [for_loop ext06B "t" ?bd ?items ?st1] =>
      let HI := fresh "HI" in
      assert (HI : Inv2 (Nat.min Nm1 (T + 1)) tl2 st1)
        by (replace (Nat.min Nm1 (T + 1)) with Nm1 by lia; constructor; [constructor|]; cbn [vars]; rwB; try reflexivity;
            assumption);
      destruct (loop2_run (T + 1 - Nm1) Nm1 tl2 st1 ltac:(lia) ltac:(lia) HI) as (st3 & tl3 & R2 & HI2); clear HI
    end.
    unfold body2 in R2. rewrite R2. cbn [bind].
    destruct HI2 as [[Hself3 Hh3 Hprev3 Hch3 HTv3 HBv3 HVv3 HNm3 Hdev3 Htor3 Hlp3 Hcat3] Hidx3].
    clear Hself Hh Hprev Hch HTv HBv HVv HNm Hdev Htor Hlp Hcat.
    pose proof (cat0_head Epiece tl3 0%nat [B; Vn] (T + 1) (D (T + 1)) eq_refl Hcat3) as Hcat0.
    assert (Hsize : size (T6 [(T + 1)%nat; B; Vn] (D (T + 1))) 0 = Some (T + 1)%nat) by reflexivity.
    assert (C4 : (Z.of_nat (T + 1) =? Z.of_nat T + 1) = true) by lia.
    repeat first [ runB ].
    eexists. subst RES. f_equal. f_equal. unfold mats_tensor, D, cells_of. replace (S T) with (T + 1)%nat by lia. reflexivity.
  Qed.
End Chunked.

(* a chunk size < 1 is rejected before anything is computed (any buffers, any history) *)
Theorem chunked_run_raises b sh hist B z : z < 1 ->
  exists st, Interp.run ext06B chunked_body (chunked_vars b sh hist B z) = Exc "RuntimeError" st.
Proof.
  intros Hz. assert (C1 : (z <? 1) = true) by lia.
  unfold Interp.run, chunked_vars, globals06. cbn [app]. unfold chunked_body.
  repeat runB. eexists. reflexivity.
Qed.
