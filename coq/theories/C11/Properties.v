(* C11 - Transcript files read back exactly what was written.
   Property theorems only: each is closed by [exact <lemma>] and followed by [Print Assumptions].
   The harness re-checks this file on every run.  Models: C11/Model.v; vocabulary: C11/Spec.v. *)
From Coq Require Import List ZArith Bool QArith Qabs Sorted Permutation Lia.
From PV Require Import C11.Model C11.Spec C11.ProofsSort C11.ProofsTrn C11.ProofsCtm C11.ProofsNum
  C11.ProofsTg C11.ProofsTok C11.Proofs.
Import ListNotations.
Local Open Scope Z_scope.

(* ============================== trn ================================================== *)

(* "trn files including nested alternates": one written line parses back to the utterance id and
   the same elements, alternates nested to ANY depth.  [elem_okb false]: top-level tokens are
   non-empty and free of white space and "{" (they MAY contain "/", "}", "(" and ")", which
   sclite and the reader treat as ordinary characters there); tokens inside alternates are also
   free of "/" and "}"; every alternate has a branch and its last branch is not empty.
   [utt_okb]: the id contains no "(" and no line break (spaces, ")" and braces are fine). *)
Theorem c11_trn_line_roundtrip : forall u xs,
  utt_okb u = true -> forallb (elem_okb false) xs = true ->
  trn_line (write_elems xs ++ [c_lpar] ++ u ++ [c_rpar]) = Some (Ok (u, xs)).
Proof. exact trn_line_written. Qed.
Print Assumptions c11_trn_line_roundtrip.

(* "writing and then reading returns the same utterances, tokens": whole files *)
Theorem c11_trn_roundtrip : forall ts,
  trn_okb ts = true -> read_trn_serial (write_trn_file ts) = Ok ts.
Proof. exact trn_roundtrip. Qed.
Print Assumptions c11_trn_roundtrip.

(* the reader state machine on a written element sequence, from any state (any open
   alternates): the elements are appended where the reader is filling - the induction behind
   the two theorems above, for any nesting depth *)
Theorem c11_trn_reader_consumes_written : forall xs s rest,
  p_tok s = [] -> forallb (elem_okb (nonempty_stack s)) xs = true ->
  run s (write_elems xs ++ rest) = run (push s xs) rest.
Proof. exact run_elems. Qed.
Print Assumptions c11_trn_reader_consumes_written.

(* "Giving a path or an already open file produces byte-identical output" (write_trn has no options) *)
Theorem c11_trn_path_eq_file : forall ts, write_trn_path ts = write_trn_file ts.
Proof. exact trn_path_eq_file. Qed.
Print Assumptions c11_trn_path_eq_file.

(* "reading with one worker or many yields the same list": Pool.imap over chunks of any size,
   the chunks completed in ANY order [sched] (every chunk index occurs in it) *)
Theorem c11_chunked_read_eq_serial : forall sched chunk_size file,
  (forall i, (i < length (lines file))%nat -> In i sched) ->
  read_trn_pool sched chunk_size file = read_trn_serial file.
Proof. exact pool_eq_serial. Qed.
Print Assumptions c11_chunked_read_eq_serial.

(* ... through both entry points (the path entry point forgets chunk_size - harmless) *)
Theorem c11_read_trn_workers_irrelevant : forall processes sched chunk_size file,
  (forall i, (i < length (lines file))%nat -> In i sched) ->
  read_trn_file processes sched chunk_size file = read_trn_serial file
  /\ read_trn_path processes sched chunk_size file = read_trn_serial file.
Proof. exact workers_irrelevant. Qed.
Print Assumptions c11_read_trn_workers_irrelevant.

(* the two clauses together: written through a path, read through either entry point by any
   number of workers *)
Theorem c11_trn_roundtrip_any_workers : forall ts processes sched chunk_size,
  trn_okb ts = true ->
  (forall i, (i < length (lines (write_trn_path ts)))%nat -> In i sched) ->
  read_trn_file processes sched chunk_size (write_trn_path ts) = Ok ts
  /\ read_trn_path processes sched chunk_size (write_trn_path ts) = Ok ts.
Proof. exact trn_roundtrip_workers. Qed.
Print Assumptions c11_trn_roundtrip_any_workers.

(* imap itself: any function, any chunk size, any completion order *)
Theorem c11_imap_eq_map : forall (A B : Type) (f : A -> B) sched k (l : list A),
  (forall i, (i < length l)%nat -> In i sched) -> imap f sched k l = map f l.
Proof. exact @imap_eq_map. Qed.
Print Assumptions c11_imap_eq_map.

(* ============================== ctm ================================================== *)

(* "ctm files up to their mandated ordering and with any waveform/channel mapping".
   [ctm_ok]: distinct utterance ids, utt2wc (dict or channel string) covers them, wc2utt (or
   None) maps each (wfn, chan) back, transcripts non-empty, 0 <= start <= end.
   Result: utterances ordered by (wfn, chan), tokens ordered by (start, duration, token). *)
Theorem c11_ctm_roundtrip_up_to_order : forall m wc2utt key ts,
  ctm_ok m wc2utt key ts ->
  exists segs, write_ctm_file (with_times ts) m = Ok segs
               /\ segs = written key ts
               /\ read_ctm_file segs wc2utt = Ok (expected key ts).
Proof. exact ctm_roundtrip. Qed.
Print Assumptions c11_ctm_roundtrip_up_to_order.

(* what [expected] is, in the property's words: the same utterances ... *)
Theorem c11_ctm_same_utterances : forall key ts,
  Permutation (map fst ts) (map fst (expected key ts)).
Proof. exact expected_perm. Qed.
Print Assumptions c11_ctm_same_utterances.

(* ... each with the same tokens and times, in start order ... *)
Theorem c11_ctm_same_tokens : forall key ts u tr, In (u, tr) ts ->
  exists tr', In (u, tr') (expected key ts) /\ Permutation tr tr'
              /\ StronglySorted (fun a b => t_start a <= t_start b) tr'.
Proof. exact expected_tokens. Qed.
Print Assumptions c11_ctm_same_tokens.

(* ... filed in (wfn, chan) order *)
Theorem c11_ctm_utterance_order : forall key ts,
  StronglySorted (fun a b => leb_of wc_cmp (key (fst a)) (key (fst b)) = true) (expected key ts).
Proof. exact expected_order. Qed.
Print Assumptions c11_ctm_utterance_order.

(* the file itself is in sclite's order *)
Theorem c11_ctm_file_sorted : forall key ts,
  NoDup (map fst ts) ->
  (forall u u', In u (map fst ts) -> In u' (map fst ts) -> key u = key u' -> u = u') ->
  StronglySorted (fun a b => seg_leb a b = true) (written key ts).
Proof. exact written_sorted. Qed.
Print Assumptions c11_ctm_file_sorted.

(* "any waveform/channel mapping": the inverse of an injective utt2wc dict is a valid wc2utt *)
Theorem c11_ctm_wc2utt_bijective : forall (d : list (str * (str * str))),
  NoDup (map snd d) ->
  forall u wc, In (u, wc) d -> assoc wc_eqb wc (map (fun p => (snd p, fst p)) d) = Some u.
Proof. exact inverse_mapping_works. Qed.
Print Assumptions c11_ctm_wc2utt_bijective.

Theorem c11_ctm_path_eq_file : write_ctm_path = write_ctm_file /\ read_ctm_path = read_ctm_file.
Proof. exact (conj eq_refl eq_refl). Qed.
Print Assumptions c11_ctm_path_eq_file.

(* ============================== TextGrid ============================================= *)

(* float(f"{x:.pf}") is the printed decimal [rq p x] = round_half_even(x * 10^p) / 10^p ... *)
Theorem c11_parse_printed_time : forall p x, (0 <= x)%Q -> parse_time (fmt_time p x) = Some (rq p x).
Proof. exact parse_fmt_time. Qed.
Print Assumptions c11_parse_printed_time.

(* ... which is "within the print precision": half a unit of the last printed digit *)
Theorem c11_print_precision : forall p x, (0 <= x)%Q -> (Qabs (rq p x - x) <= half_unit p)%Q.
Proof. exact rq_close. Qed.
Print Assumptions c11_print_precision.

(* "TextGrid interval and point tiers to within the print precision with unlabelled gaps filled on
   request": for EVERY option setting under which the open-file writer succeeds (start/end time,
   tier name, point_tier forced or inferred, any precision), reading the file back through the tier's
   index or name returns the same tokens in the same order with every time replaced by its printed
   decimal (a point tier keeps the start only), then gap-filled.  Hypotheses: times non-negative,
   entries in start order, no line break in tokens / tier name (and no double quote: the model's
   line-level reader, unlike the regexes, would survive one - see the report). *)
Theorem c11_textgrid_roundtrip_to_precision : forall tr st en name pt p file tid fill,
  write_textgrid_file tr st en name pt p = Ok file ->
  Forall entry_nonneg tr -> Forall (fun x => no_nl (e_tok x)) tr -> no_nl name ->
  StronglySorted (fun a b => (e_start a <= e_start b)%Q) tr ->
  tier_id_ok tid name ->
  read_textgrid_file NumericSort file tid fill
  = Ok (fill_gaps fill (rq p (tier_min tr)) (rq p (tier_max tr)) (map (rt p (is_point tr pt p)) tr),
        rq p (tier_min tr), rq p (tier_max tr)).
Proof. exact tg_roundtrip. Qed.
Print Assumptions c11_textgrid_roundtrip_to_precision.

(* without a fill token nothing is inserted *)
Theorem c11_textgrid_no_fill : forall st xmax tr, fill_gaps None st xmax tr = tr.
Proof. exact fill_none. Qed.
Print Assumptions c11_textgrid_no_fill.

(* with one, the result tiles [xmin, xmax] and differs from the entries only by inserted
   fill-token intervals of positive length *)
Theorem c11_textgrid_fill_tiles : forall ft l t xmax, chain_ok t xmax l ->
  contiguous t xmax (fill_gaps (Some ft) t xmax l)
  /\ filled_from ft l (fill_gaps (Some ft) t xmax l).
Proof. exact (fun ft l t xmax H => conj (fill_contiguous ft l t xmax H) (fill_filled_from ft l t xmax)). Qed.
Print Assumptions c11_textgrid_fill_tiles.

(* rounding to the print precision keeps entries ordered and non-overlapping (interval tiers) *)
Theorem c11_textgrid_rounding_keeps_order : forall p l t xmax, (0 <= t)%Q -> chain_ok t xmax l ->
  chain_ok (rq p t) (rq p xmax) (map (rt p false) l).
Proof. exact chain_rounded. Qed.
Print Assumptions c11_textgrid_rounding_keeps_order.

(* the defect repaired in /repo (fix: read_textgrid sorted the captured STRINGS): with that
   ordering the round trip above fails as soon as times differ in their number of digits *)
Theorem c11_textgrid_string_sort_refuted :
  exists file,
    write_textgrid_file [([97], 8 # 1, 9 # 1); ([98], 9 # 1, 10 # 1); ([99], 10 # 1, 23 # 2)]
                        None None [116] None 3 = Ok file
    /\ read_textgrid_file StringSort file (inr 0) None <> read_textgrid_file NumericSort file (inr 0) None.
Proof. exact string_sort_refuted. Qed.
Print Assumptions c11_textgrid_string_sort_refuted.

(* "Giving a path or an already open file produces byte-identical output under every option":
   FALSE for write_textgrid as coded (known finding K5) ... *)
Theorem c11_path_eq_file_refuted :
  exists tr st en name pt p,
    write_textgrid_path tr st en name pt p <> write_textgrid_file tr st en name pt p.
Proof. exact path_eq_file_refuted. Qed.
Print Assumptions c11_path_eq_file_refuted.

(* ... the deviation, for all inputs: the two options are replaced by their defaults ... *)
Theorem c11_path_is_file_with_defaults : forall tr st en name pt p,
  write_textgrid_path tr st en name pt p = write_textgrid_file tr st en name None 3.
Proof. exact path_is_file_with_defaults. Qed.
Print Assumptions c11_path_is_file_with_defaults.

(* ... so the entry points agree when the options are left alone; reading has no such gap *)
Theorem c11_path_eq_file_when_defaults : forall tr st en name,
  write_textgrid_path tr st en name None 3 = write_textgrid_file tr st en name None 3.
Proof. exact path_eq_file_when_defaults. Qed.
Print Assumptions c11_path_eq_file_when_defaults.

Theorem c11_read_textgrid_path_eq_file : read_textgrid_path = read_textgrid_file.
Proof. exact eq_refl. Qed.
Print Assumptions c11_read_textgrid_path_eq_file.

(* ============================== token tensors ======================================== *)

(* "times recovered to within one frame shift" (d ms per frame, times in seconds), and frames are
   ordered, distinct for a non-empty segment, and never the "unknown" marker -1 *)
Theorem c11_frames_within_one_shift : forall d s e, (0 < d)%Q -> (s <= e)%Q ->
  within_shift d s (back d (fst (frames_of (Some d) s e)))
  /\ within_shift d e (back d (snd (frames_of (Some d) s e)))
  /\ fst (frames_of (Some d) s e) <= snd (frames_of (Some d) s e)
  /\ ((s < e)%Q -> fst (frames_of (Some d) s e) < snd (frames_of (Some d) s e))
  /\ ((0 <= s)%Q -> 0 <= fst (frames_of (Some d) s e)).
Proof. exact frames_within. Qed.
Print Assumptions c11_frames_within_one_shift.

(* id2token = inverse of an injective token2id gives the token back *)
Theorem c11_token_ids_roundtrip : forall (t2i : list (tk * Z)) t i,
  NoDup (map snd t2i) -> assoc tk_eqb t t2i = Some i -> assoc Z.eqb i (swap_pairs t2i) = Some t.
Proof. exact assoc_inverse. Qed.
Print Assumptions c11_token_ids_roundtrip.

(* "Converting a transcript to a token tensor and back returns the same tokens, with times
   recovered to within one frame shift": with a vocabulary (any unk setting; tokens in it) ... *)
Theorem c11_tokens_roundtrip : forall t2i d unk tr,
  (0 < d)%Q -> NoDup (map snd t2i) ->
  Forall (fun a => (exists i, assoc tk_eqb (item_tok a) t2i = Some i) /\ item_times_ok a) tr ->
  exists rows, transcript_to_token tr (Some t2i) (Some d) unk false = Ok rows
               /\ Forall2 (item_close d) tr (token_to_transcript rows (Some (swap_pairs t2i)) (Some d)).
Proof. exact tokens_roundtrip_vocab. Qed.
Print Assumptions c11_tokens_roundtrip.

(* ... and without one (integer tokens are their own ids) *)
Theorem c11_tokens_roundtrip_no_vocab : forall d unk tr,
  (0 < d)%Q ->
  Forall (fun a => (exists i, item_tok a = TInt i) /\ item_times_ok a) tr ->
  exists rows, transcript_to_token tr None (Some d) unk false = Ok rows
               /\ Forall2 (item_close d) tr (token_to_transcript rows None (Some d)).
Proof. exact tokens_roundtrip_plain. Qed.
Print Assumptions c11_tokens_roundtrip_no_vocab.

(* ============================== non-vacuity ========================================== *)

(* a transcript with an alternate nested three deep, an empty first branch, "/" and "}" as
   top-level tokens and an id with a space and ")" meets the hypotheses; so does an empty one *)
Example c11_trn_nonvacuous :
  trn_okb [([117; 32; 41], [Tok [97; 47]; Alt [[]; [Tok [98]; Alt [[Tok [99]]; [Alt [[Tok [100]]]]]]]; Tok [125]]);
           ([], [])] = true.
Proof. reflexivity. Qed.

(* two utterances that the writer has to re-order, tokens with tied start times *)
Example c11_ctm_nonvacuous :
  ctm_ok (inr [65]) None (fun u => (u, [65]))
         [([98], [([120], 5, 7); ([121], 5, 6)]); ([97], [([122], 0, 0)])]
  /\ expected (fun u => (u, [65])) [([98], [([120], 5, 7); ([121], 5, 6)]); ([97], [([122], 0, 0)])]
     = [([97], [([122], 0, 0)]); ([98], [([121], 5, 6); ([120], 5, 7)])].
Proof.
  split; [|reflexivity]. split.
  - cbn. repeat constructor; cbn; intuition discriminate.
  - intros u tr H. reflexivity.
  - intros u tr H. reflexivity.
  - intros u tr [H|[H|[]]]; inversion H; discriminate.
  - intros u tr [H|[H|[]]]; inversion H; subst; repeat constructor; unfold valid_tok; cbn; lia.
Qed.

(* an interval tier with a gap, times that need rounding, read back with a fill token *)
Example c11_textgrid_nonvacuous :
  let tr := [([97], 1 # 8, 1 # 3); ([98], 1 # 2, 21 # 2)] in
  (exists file, write_textgrid_file tr None (Some (11 # 1)) [116] None 2 = Ok file)
  /\ Forall entry_nonneg tr /\ StronglySorted (fun a b => (e_start a <= e_start b)%Q) tr
  /\ chain_ok (tier_min tr) (tier_max tr) tr
  /\ map (rt 2 (is_point tr None 2)) tr = [([97], 12 # 100, 33 # 100); ([98], 50 # 100, 1050 # 100)].
Proof.
  cbv zeta. split; [eexists; vm_compute; reflexivity|].
  split; [repeat constructor; cbn; discriminate|].
  split; [repeat constructor; cbn; discriminate|].
  split; [vm_compute; intuition discriminate|reflexivity].
Qed.

Example c11_tokens_nonvacuous :
  transcript_to_token [Timed (TStr [97]) (1 # 2) (81 # 100); Plain (TStr [98])]
                      (Some [(TStr [97], 12); (TStr [98], 7)]) (Some (10 # 1)) None false
  = Ok [(12, 50, 81); (7, -1, -1)].
Proof. reflexivity. Qed.

(* ============================== source ties ========================================== *)
(* The Python text of read_ctm / write_ctm (their open-file branches), token_to_transcript and transcript_to_token
   are translated on every run (harness/py2coq -> PV.Gen.C11Src) and interpreted by PV.MiniPy.Interp with the
   external calls of PV.C11.SrcRun.ext11; the theorems below say that this interpreted source computes exactly what
   C11.Model computes, for all inputs (notes/C11_tie_report.md; encodings and what ext11 assumes: C11/SrcRun.v). *)
From PV Require MiniPy.Syntax MiniPy.Interp C11.SrcRun C11.Tie.

(* read_ctm on an open file = Model.read_ctm_file: every file (field level), wc2utt None or any dict; the result is the
   encoding of the model's list, ValueError / KeyError are raised exactly when the model raises them *)
Theorem c11_source_read_ctm_is_model : forall ls wc2utt,
  match read_ctm_file ls wc2utt with
  | Ok out => exists st, SrcRun.run_read_ctm (map SrcRun.enc_seg_line ls) (SrcRun.enc_wc2utt wc2utt)
                         = Interp.Ok (Syntax.VList (map SrcRun.enc_utt out)) st
  | Raise e => exists st, SrcRun.run_read_ctm (map SrcRun.enc_seg_line ls) (SrcRun.enc_wc2utt wc2utt)
                          = Interp.Exc (SrcRun.exn_name e) st
  end.
Proof. exact Tie.read_ctm_tie. Qed.
Print Assumptions c11_source_read_ctm_is_model.

(* write_ctm on an open file = Model.write_ctm_file: every list of transcripts (tokens with or without times), utt2wc a
   dict or a channel string; the lines left in the file variable are the model's segments in the model's order *)
Theorem c11_source_write_ctm_is_model : forall ts m,
  match write_ctm_file ts m with
  | Ok segs => exists st, SrcRun.run_write_ctm (Syntax.VList (map SrcRun.enc_wutt ts)) (SrcRun.enc_utt2wc m)
                          = Interp.Ok Syntax.VNone st
                          /\ Interp.lookup Tie.file_var (Interp.vars st)
                             = Some (Syntax.VList (map SrcRun.enc_seg_line segs))
  | Raise e => exists st, SrcRun.run_write_ctm (Syntax.VList (map SrcRun.enc_wutt ts)) (SrcRun.enc_utt2wc m)
                          = Interp.Exc (SrcRun.exn_name e) st
  end.
Proof. exact Tie.write_ctm_tie. Qed.
Print Assumptions c11_source_write_ctm_is_model.

(* composed with c11_ctm_roundtrip_up_to_order - a statement purely about the interpreted source: what the interpreted
   write_ctm writes, the interpreted read_ctm reads back as the expected transcripts (same utterances and tokens, filed by
   (wfn, chan) / start time), for every valid collection of transcripts and every waveform/channel mapping *)
Theorem c11_source_ctm_roundtrip : forall m wc2utt key ts,
  ctm_ok m wc2utt key ts ->
  exists stw lines,
    SrcRun.run_write_ctm (Syntax.VList (map SrcRun.enc_wutt (with_times ts))) (SrcRun.enc_utt2wc m)
      = Interp.Ok Syntax.VNone stw
    /\ Interp.lookup Tie.file_var (Interp.vars stw) = Some (Syntax.VList lines)
    /\ exists str, SrcRun.run_read_ctm lines (SrcRun.enc_wc2utt wc2utt)
                   = Interp.Ok (Syntax.VList (map SrcRun.enc_utt (expected key ts))) str.
Proof. exact Tie.source_ctm_roundtrip. Qed.
Print Assumptions c11_source_ctm_roundtrip.

(* token_to_transcript = Model.token_to_transcript, item by item, for a long tensor of shape (R, 3) [cols = 3], (R, 1)
   [cols = 1: the model's rows carry -1, -1] or (R,) [cols = 0], id2token None or any dict, frame_shift_ms None or a
   rational that is not 0 (C11.Model: "frame_shift_ms falsy (None or 0) is None here") *)
Theorem c11_source_to_transcript_is_model : forall cols rows i2t fs,
  TieTokBack.fs_ok fs -> (cols = 0 \/ cols = 1 \/ cols = 3)%nat ->
  exists ws st, SrcRun.run_to_transcript (SrcRun.enc_ref cols rows) (SrcRun.enc_i2t i2t) (SrcRun.enc_fs fs)
                = Interp.Ok (Syntax.VList ws) st
                /\ Forall2 TieTokBack.item_rel (token_to_transcript (map (TieTokBack.norm_row cols) rows) i2t fs) ws.
Proof. exact Tie.to_transcript_tie. Qed.
Print Assumptions c11_source_to_transcript_is_model.

(* transcript_to_token = Model.transcript_to_token: every transcript (plain tokens and (token, start, end) triples, int or
   str tokens), token2id None or any dict, any unk, both settings of skip_frame_times, frame_shift_ms None or a rational
   that is not 0; the tensor returned holds the model's rows ((R, 3), or (R,) ids with skip_frame_times), TypeError is
   raised exactly when the model raises it (a str id) *)
Theorem c11_source_to_token_is_model : forall tr t2i fs unk skip,
  TieTokTry.fs_ok fs ->
  match transcript_to_token tr t2i fs unk skip with
  | Ok rows => exists st, SrcRun.run_to_token (Syntax.VList (map SrcRun.enc_item tr)) (SrcRun.enc_t2i t2i)
                            (SrcRun.enc_fs fs) (SrcRun.enc_unk unk) skip
                          = Interp.Ok (TieTok.enc_rows skip rows) st
  | Raise e => exists st, SrcRun.run_to_token (Syntax.VList (map SrcRun.enc_item tr)) (SrcRun.enc_t2i t2i)
                            (SrcRun.enc_fs fs) (SrcRun.enc_unk unk) skip
                          = Interp.Exc (SrcRun.exn_name e) st
  end.
Proof. exact Tie.to_token_tie. Qed.
Print Assumptions c11_source_to_token_is_model.

(* composed with c11_tokens_roundtrip - a statement purely about the interpreted source: transcript -> tensor -> transcript
   returns the same tokens with times within one frame shift (vocabulary token2id injective, id2token its inverse, d > 0) *)
Theorem c11_source_tokens_roundtrip : forall t2i d unk tr,
  (0 < d)%Q -> NoDup (map snd t2i) ->
  Forall (fun a => (exists i, assoc tk_eqb (item_tok a) t2i = Some i) /\ item_times_ok a) tr ->
  exists rows stt,
    SrcRun.run_to_token (Syntax.VList (map SrcRun.enc_item tr)) (SrcRun.enc_t2i (Some t2i)) (SrcRun.enc_fs (Some d))
      (SrcRun.enc_unk unk) false = Interp.Ok (SrcRun.enc_ref 3 rows) stt /\
    exists ws stb,
      SrcRun.run_to_transcript (SrcRun.enc_ref 3 rows) (SrcRun.enc_i2t (Some (swap_pairs t2i))) (SrcRun.enc_fs (Some d))
        = Interp.Ok (Syntax.VList ws) stb /\
      Forall2 (fun a v => exists b, item_close d a b /\ TieTokBack.item_rel b v) tr ws.
Proof. exact Tie.source_tokens_roundtrip. Qed.
Print Assumptions c11_source_tokens_roundtrip.

(* the hypotheses are met and the conclusion is not empty: the two utterances of c11_ctm_nonvacuous, written and read
   back by the interpreted source; the transcript of c11_tokens_nonvacuous converted to a tensor and back *)
Example c11_source_nonvacuous :
  SrcRun.src_write_ctm_file (with_times [([98], [([120], 5, 7); ([121], 5, 6)]); ([97], [([122], 0, 0)])]) (inr [65])
  = Some (Ok [([97], [65], 0, 0, [122]); ([98], [65], 5, 1, [121]); ([98], [65], 5, 2, [120])])
  /\ SrcRun.src_read_ctm_file [([97], [65], 0, 0, [122]); ([98], [65], 5, 1, [121]); ([98], [65], 5, 2, [120])] None
     = Some (Ok [([97], [([122], 0, 0)]); ([98], [([121], 5, 6); ([120], 5, 7)])])
  /\ SrcRun.src_to_token_rows [Timed (TStr [97]) (1 # 2) (81 # 100); Plain (TStr [98])]
       (Some [(TStr [97], 12); (TStr [98], 7)]) (Some (10 # 1)) None false
     = Some (Ok [(12, 50, 81); (7, -1, -1)])
  /\ SrcRun.src_to_transcript_items 3 [(12, 50, 81); (7, -1, -1)] (Some [(12, TStr [97]); (7, TStr [98])]) (Some (10 # 1))
     = Some [Timed (TStr [97]) (1 # 2) (81 # 100); Plain (TStr [98])].
Proof. repeat split; vm_compute; reflexivity. Qed.

(* ============================== source ties, second unit ================================ *)
(* Unit C11BSrc (harness/py2coq/units/C11BSrc.json): write_trn as a WHOLE function (its path branch `with open(..) as trn:
   return write_trn(transcripts, trn)`, its local helper _handle_x, the loop over the transcripts), translated on every
   run with string literals byte for byte, interpreted by PV.MiniPy.Interp with the external calls of
   PV.C11.SrcRunB.extB (encodings and what extB assumes: C11/SrcRunB.v; notes/C11_tie_report.md, "Second tie").
   [n] is the fuel of extB = the depth of calls of the unit's own functions that is interpreted: any n above the nesting
   depth of the alternates (+1 for the re-call of the path branch) will do. *)
From PV Require C11.ModelB C11.SrcRunB C11.TieB.

(* write_trn._handle_x = Model.handle_x: every element, alternates nested to any depth *)
Theorem c11_source_handle_x_is_model : forall x n, (ModelB.edepth x <= n)%nat ->
  exists st, SrcRunB.run_handle_x n (SrcRunB.enc_elem x) = Interp.Ok (SrcRun.enc_str (handle_x x)) st.
Proof. exact TieB.handle_x_is_model. Qed.
Print Assumptions c11_source_handle_x_is_model.

(* write_trn on an open (empty) file = Model.write_trn_file on the elements without their times: every list of
   transcripts, elements bare tokens or (token | alternates, start, end) triples with int / float times *)
Theorem c11_source_write_trn_is_model : forall ts n, (S (ModelB.tdepth ts) <= n)%nat ->
  exists st, SrcRunB.run_write_trn n (SrcRunB.enc_trn_ts ts) (SrcRunB.mk_file Syntax.VNone []) = Interp.Ok Syntax.VNone st
             /\ SrcRunB.file_text TieB.trn_var st = Some (write_trn_file (map ModelB.untimed_utt ts)).
Proof. exact TieB.write_trn_is_model. Qed.
Print Assumptions c11_source_write_trn_is_model.

(* write_trn given a path: the file the `with` block leaves behind holds Model.write_trn_path's text
   ("Giving a path or an already open file produces byte-identical output", for the interpreted source) *)
Theorem c11_source_write_trn_path_is_model : forall ts n path, (S (S (ModelB.tdepth ts)) <= n)%nat ->
  exists st, SrcRunB.run_write_trn n (SrcRunB.enc_trn_ts ts) (SrcRun.enc_str path) = Interp.Ok Syntax.VNone st
             /\ SrcRunB.last_written st = Some (SrcRun.enc_str path, write_trn_path (map ModelB.untimed_utt ts)).
Proof. exact TieB.write_trn_path_is_model. Qed.
Print Assumptions c11_source_write_trn_path_is_model.

(* composed with c11_trn_roundtrip: the file written by the interpreted write_trn is read back as the same utterances
   and elements (times dropped) - by the MODEL reader read_trn_serial (the character-level trn reader is tied to /repo
   by the differential runs only, not by a source tie) *)
Theorem c11_source_trn_roundtrip : forall ts n, (S (ModelB.tdepth ts) <= n)%nat ->
  trn_okb (map ModelB.untimed_utt ts) = true ->
  exists st text, SrcRunB.run_write_trn n (SrcRunB.enc_trn_ts ts) (SrcRunB.mk_file Syntax.VNone []) = Interp.Ok Syntax.VNone st
                  /\ SrcRunB.file_text TieB.trn_var st = Some text
                  /\ read_trn_serial text = Ok (map ModelB.untimed_utt ts).
Proof. exact TieB.source_trn_roundtrip. Qed.
Print Assumptions c11_source_trn_roundtrip.

(* the hypotheses are met and the conclusion is not empty: a three-character token, a timed token, a nested alternate
   with an empty branch and an empty transcript, written by the interpreted source through an open file and a path *)
Example c11_source_trn_nonvacuous :
  let ts := [([117], [ModelB.TBare [97; 98; 99]; ModelB.TTimed (Tok [120]) (ModelB.NQ (1 # 2)) (ModelB.NQ (5 # 4));
                      ModelB.TTimed (Alt [[Tok [97]]; [Tok [98]; Alt [[]; [Tok [99]]]]]) (ModelB.NInt (-1)) (ModelB.NInt (-1))]);
             ([118], [])] in
  SrcRunB.src_write_trn_res false ts = Some (Ok (write_trn_file (map ModelB.untimed_utt ts)))
  /\ SrcRunB.src_write_trn_res true ts = Some (Ok (write_trn_path (map ModelB.untimed_utt ts)))
  /\ trn_okb (map ModelB.untimed_utt ts) = true.
Proof. cbv zeta. repeat split; vm_compute; reflexivity. Qed.
