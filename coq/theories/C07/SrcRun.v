(* C07 — the translated sources of `_sequence_log_probs_tensor` (_decoding.py) and `_lens_from_eos`
   (_string.py) as executables: the environment [ext07], the encoding of the model's nested lists
   as MiniPy tensor values, and the correspondence entry point [src_slp_check].  Definitions only;
   the lemmas are in Tie.v.

   PV.Gen.C07Src.slp_tensor_body and PV.Gen.C07LensSrc.lens_from_eos_body are regenerated from
   /repo/src/pydrobert/torch/{_decoding,_string}.py on every run by harness/py2coq/translate.py (the
   whole bodies; the decorators `@script` / `@torch.jit.script` are outside them: TorchScript
   compilation is NOT modelled, the tie is about the Python text as eager CPython runs it).

   [ext07 lsm] gives the calls of those bodies the meaning defined in PV.MiniTorch.OpsC07.  What
   arrives here (see MiniPy.Interp):
     x.dim() x.lt(c) x.ge(c) x.eq(c) x.max(d) x.masked_fill(m, v) x.unsqueeze(d) x.squeeze(d)
     x.flatten(s) x.view(..) x.view_as(y) x.gather(-1, i) x.sum(d)
                                      "$method.<name>", the tensor first
     x.shape, x.device                "$attr.<name>" (shape: a tuple of ints; device: an opaque token that is only
                                      ever passed back to torch.arange)
     a | b, a & b, a + 1              "operator" ["or" | "and" | "add"; a; b]
     a >= b  (two tensors)            "compare" ["ge"; a; b]
     torch.arange(n, device=..), torch.cumsum(m, d, dtype=torch.long)
     torch.nn.functional.log_softmax(x, -1)
                                      the ORACLE [lsm]: the result is [lsm x] provided it has the shape of x
                                      (C07.Model does the same: torch's log-softmax values are data)
     _lens_from_eos(tok, eos, dim)    the call of the OTHER translated function: its body is interpreted
                                      (with the same environment minus this entry) on fresh variables
                                      tok, eos, dim + the module global `torch`
   `torch.long` is the attribute `long` of the module object bound to the global name `torch`
   ([globals07]); dtypes and devices do not affect values in this model.  Everything else is Stuck. *)
From Coq Require Import ZArith QArith List String Bool.
From PV Require Import MiniPy.Syntax MiniPy.Interp MiniTorch.Ops MiniTorch.OpsC07 Gen.C07Src Gen.C07LensSrc.
From PV Require C07.Model.
Import ListNotations.
Local Open Scope string_scope.

Definition index_error : string := "IndexError".
Definition runtime_error : string := "RuntimeError".
Definition device_token : val := VStr "$device".
Definition long_token : val := VStr "$torch.long".

(* the module globals the bodies read: `torch` (only torch.long is used as a value) *)
Definition globals07 : list (string * val) := [("torch", VDict [(VStr "long", long_token)])].

Definition no_kw (kw : list (string * val)) : bool := match kw with [] => true | _ => false end.

Definition kw_is (name : string) (tok : val) (kw : list (string * val)) : bool :=
  match kw with [(n, v)] => (is n name && val_eqb v tok)%bool | _ => false end.

Definition oob (why : string) : outcome val := Stuck ("MiniTorch: outside the modelled domain: " ++ why).

Definition ret_any (why : string) (o : option anyt) (st : state) : outcome val :=
  match o with Some t => Ok (enc_any t) st | None => oob why end.

Fixpoint ints (l : list val) : option (list Z) :=
  match l with
  | [] => Some []
  | VInt z :: r => option_map (cons z) (ints r)
  | _ => None
  end.

Section Ext.
  (* torch.nn.functional.log_softmax(., -1) as an oracle *)
  Variable lsm : tn xq -> tn xq.

  (* everything but the call of _lens_from_eos *)
  Definition ext07_ops (f : string) (args : list val) (kw : list (string * val)) (st : state) : outcome val :=
    if is f "torch.arange" then
      match args with
      | [VInt n] => if kw_is "device" device_token kw
                    then ret_any "arange" (option_map TI (arange n)) st else Stuck "arange: keyword"
      | _ => Stuck "arange"
      end
    else if is f "torch.cumsum" then
      match args with
      | [m; VInt d] =>
          if kw_is "dtype" long_token kw then
            match dec_any m with
            | Some (TB x) => ret_any "cumsum" (option_map TI (cumsum_bool x d)) st
            | _ => Stuck "cumsum: not a boolean tensor"
            end
          else Stuck "cumsum: keyword"
      | _ => Stuck "cumsum"
      end
    else if negb (no_kw kw) then Stuck ("ext07: keyword arguments of " ++ f)
    else if is f "$method.dim" then
      match args with
      | [t] => match dec_any t with Some x => Ok (VInt (Z.of_nat (List.length (any_shape x)))) st | None => Stuck "dim" end
      | _ => Stuck "dim"
      end
    else if is f "$attr.shape" then
      match args with
      | [t] => match dec_any t with
               | Some x => Ok (VTuple (map (fun n => VInt (Z.of_nat n)) (any_shape x))) st
               | None => Stuck "shape"
               end
      | _ => Stuck "shape"
      end
    else if is f "$attr.device" then
      match args with
      | [t] => match dec_any t with Some _ => Ok device_token st | None => Stuck "device" end
      | _ => Stuck "device"
      end
    else if is f "torch.nn.functional.log_softmax" then
      match args with
      | [t; VInt d] =>
          match dec_any t with
          | Some (TF x) =>
              if ((d =? -1)%Z && negb (Nat.eqb (rank x) 0) && nats_eqb (shp (lsm x)) (shp x))%bool
              then Ok (enc_f (lsm x)) st else oob "log_softmax"
          | _ => Stuck "log_softmax: not a float tensor"
          end
      | _ => Stuck "log_softmax"
      end
    else if is f "$method.lt" then
      match args with
      | [t; VInt c] => match dec_any t with Some (TI x) => Ok (enc_b (lt_s x c)) st | _ => Stuck "lt" end
      | _ => Stuck "lt"
      end
    else if is f "$method.ge" then
      match args with
      | [t; VInt c] => match dec_any t with Some (TI x) => Ok (enc_b (ge_s x c)) st | _ => Stuck "ge" end
      | _ => Stuck "ge"
      end
    else if is f "$method.eq" then
      match args with
      | [t; VInt c] => match dec_any t with
                       | Some (TI x) => Ok (enc_b (eq_s x c)) st
                       | Some (TB x) => Ok (enc_b (eq_sb x c)) st
                       | _ => Stuck "eq"
                       end
      | _ => Stuck "eq"
      end
    else if is f "operator" then
      match args with
      | [VStr o; a; b] =>
          if is o "or" then
            match dec_any a, dec_any b with
            | Some (TB x), Some (TB y) => ret_any "or" (option_map TB (bor x y)) st
            | _, _ => Stuck "or"
            end
          else if is o "and" then
            match dec_any a, dec_any b with
            | Some (TB x), Some (TB y) => ret_any "and" (option_map TB (band x y)) st
            | _, _ => Stuck "and"
            end
          else if is o "add" then
            match dec_any a, b with
            | Some (TI x), VInt c => Ok (enc_i (add_s x c)) st
            | _, _ => Stuck "add"
            end
          else Stuck ("operator " ++ o)
      | _ => Stuck "operator"
      end
    else if is f "compare" then
      match args with
      | [VStr o; a; b] =>
          if is o "ge" then
            match dec_any a, dec_any b with
            | Some (TI x), Some (TI y) => ret_any "ge" (option_map TB (ge_t x y)) st
            | _, _ => Stuck "compare ge"
            end
          else Stuck ("compare " ++ o)
      | _ => Stuck "compare"
      end
    else if is f "$method.max" then
      match args with
      | [t; VInt d] =>
          match dec_any t with
          | Some (TB x) =>
              match max_bool x d with
              | Some (Some (v, i)) => Ok (VTuple [enc_b v; enc_i i]) st
              | Some None => Exc index_error st
              | None => oob "max"
              end
          | _ => Stuck "max: not a boolean tensor"
          end
      | _ => Stuck "max"
      end
    else if is f "$method.masked_fill" then
      match args with
      | [t; m; v] =>
          match dec_any t, dec_any m, v with
          | Some (TI x), Some (TB y), VInt c => ret_any "masked_fill" (option_map TI (masked_fill x y c)) st
          | Some (TF x), Some (TB y), VQ q => ret_any "masked_fill" (option_map TF (masked_fill x y (Fin q))) st
          | _, _, _ => Stuck "masked_fill"
          end
      | _ => Stuck "masked_fill"
      end
    else if is f "$method.unsqueeze" then
      match args with
      | [t; VInt d] => match dec_any t with
                       | Some x => ret_any "unsqueeze" (any_map (fun X y => unsqueeze y d) x) st
                       | None => Stuck "unsqueeze"
                       end
      | _ => Stuck "unsqueeze"
      end
    else if is f "$method.squeeze" then
      match args with
      | [t; VInt d] => match dec_any t with
                       | Some x => ret_any "squeeze" (any_map (fun X y => squeeze_dim y d) x) st
                       | None => Stuck "squeeze"
                       end
      | _ => Stuck "squeeze"
      end
    else if is f "$method.flatten" then
      match args with
      | [t; VInt d] => match dec_any t with
                       | Some x => ret_any "flatten" (any_map (fun X y => flatten_from y d) x) st
                       | None => Stuck "flatten"
                       end
      | _ => Stuck "flatten"
      end
    else if is f "$method.view" then
      match args with
      | t :: spec => match dec_any t, ints spec with
                     | Some x, Some zs => ret_any "view" (any_map (fun X y => view y zs) x) st
                     | _, _ => Stuck "view"
                     end
      | _ => Stuck "view"
      end
    else if is f "$method.view_as" then
      match args with
      | [t; u] => match dec_any t, dec_any u with
                  | Some x, Some y =>
                      ret_any "view_as" (any_map (fun X z => view_as z (any_shape y)) x) st
                  | _, _ => Stuck "view_as"
                  end
      | _ => Stuck "view_as"
      end
    else if is f "$method.gather" then
      match args with
      | [t; VInt d; i] =>
          match dec_any t, dec_any i with
          | Some (TF x), Some (TI y) =>
              if (d =? -1)%Z then ret_any "gather" (option_map TF (gather_last x y)) st
              else oob "gather: only dim = -1"
          | _, _ => Stuck "gather"
          end
      | _ => Stuck "gather"
      end
    else if is f "$method.sum" then
      match args with
      | [t; VInt d] => match dec_any t with
                       | Some (TF x) => ret_any "sum" (option_map TF (sum_dim x d)) st
                       | _ => Stuck "sum: not a float tensor"
                       end
      | _ => Stuck "sum"
      end
    else Stuck ("ext07: " ++ f).

  (* the call of another Python function: fresh variables, the caller's state is untouched *)
  Definition call_body (body : stmt) (vars0 : list (string * val)) (st : state) : outcome val :=
    match Interp.run ext07_ops body vars0 with
    | Ok v _ => Ok v st
    | Exc n _ => Exc n st
    | Stuck w => Stuck w
    end.

  Definition ext07 (f : string) (args : list val) (kw : list (string * val)) (st : state) : outcome val :=
    if is f "_lens_from_eos" then
      match args, kw with
      | [tok; eos; dim], [] => call_body lens_from_eos_body (("tok", tok) :: ("eos", eos) :: ("dim", dim) :: globals07) st
      | _, _ => Stuck "_lens_from_eos: arguments"
      end
    else ext07_ops f args kw st.
End Ext.

(* ---- encodings: the model's (outer, time, inner) nested lists as tensors ------------------------ *)
Definition hyp_at (hyp : list (list (list Z))) (a t b : nat) : Z := nth b (nth t (nth a hyp []) []) 0%Z.
Definition lp_row {X} (lp : list (list (list (list X)))) (a t b : nat) : list X := nth b (nth t (nth a lp []) []) [].

Definition hyp_tensor (A T B : nat) (hyp : list (list (list Z))) : tn Z :=
  mkTn [A; T; B] (tab3 A T B (hyp_at hyp)).

Definition lp_tensor (A T B V : nat) (lp : list (list (list (list xq)))) : tn xq :=
  mkTn [A; T; B; V] (tab4 A T B V (fun a t b v => nth v (lp_row lp a t b) xzero)).

Definition out_tensor (A B : nat) (out : list (list xq)) : tn xq := mkTn [A; B] (List.concat out).

Definition opt_int (e : option Z) : val := match e with Some z => VInt z | None => VNone end.

(* the arguments of _sequence_log_probs_tensor(logits, hyp, dim, eos) *)
Definition slp_vars (logits : tn xq) (hyp : tn Z) (dim : Z) (eos : option Z) : list (string * val) :=
  [("logits", enc_f logits); ("hyp", enc_i hyp); ("dim", VInt dim); ("eos", opt_int eos)].

Definition run_slp (lsm : tn xq -> tn xq) (logits : tn xq) (hyp : tn Z) (dim : Z) (eos : option Z) : outcome val :=
  Interp.run (ext07 lsm) slp_tensor_body (slp_vars logits hyp dim eos).

(* the arguments of _lens_from_eos(tok, eos, dim) *)
Definition lens_vars (tok : tn Z) (eos dim : Z) : list (string * val) :=
  ("tok", enc_i tok) :: ("eos", VInt eos) :: ("dim", VInt dim) :: globals07.

Definition run_lens (lsm : tn xq -> tn xq) (tok : tn Z) (eos dim : Z) : outcome val :=
  Interp.run (ext07_ops lsm) lens_from_eos_body (lens_vars tok eos dim).

(* ---- executable entry points for the correspondence -----------------------------------------------
   The harness feeds torch's float64 log-softmax values on the 2^-40 grid as integers (C07.Model's
   carrier Z); here they are the float tensor of those integers, `logits` IS that tensor and the
   oracle is the identity.  outer None: the interpreter got stuck / returned something that is not
   a float tensor; Some None: the source raised. *)
Definition zq (z : Z) : xq := Fin (inject_Z z).

Definition xq_z (x : xq) : option Z :=
  match x with
  | Fin q => if (Zpos (Qden q) =? 1)%Z then Some (Qnum q) else None
  | NInf => None
  end.

Fixpoint chunks {X} (n : nat) (B : nat) (l : list X) : list (list X) :=
  match n with
  | O => []
  | S n' => firstn B l :: chunks n' B (skipn B l)
  end.

Fixpoint all_some {X} (l : list (option X)) : option (list X) :=
  match l with
  | [] => Some []
  | None :: _ => None
  | Some x :: t => match all_some t with Some r => Some (x :: r) | None => None end
  end.

(* a float tensor of integers -> its rows (the last dimension), as Z *)
Definition rows_z (t : tn xq) : option (list (list Z)) :=
  match all_some (map xq_z (dat t)) with
  | Some zs => let B := last (shp t) 1%nat in Some (chunks (numel (removelast (shp t))) B zs)
  | None => None
  end.

Definition src_slp (V : Z) (eos : option Z) (T B : nat) (lp : list (list (list (list Z))))
  (hyp : list (list (list Z))) : option (option (list (list Z))) :=
  let A := List.length hyp in
  let L := lp_tensor A T B (Z.to_nat V) (map (map (map (map zq))) lp) in
  match run_slp (fun x => x) L (hyp_tensor A T B hyp) 1 eos with
  | Ok v _ => match dec_any v with
              | Some (TF t) => if nats_eqb (shp t) [A; B] then option_map Some (rows_z t) else None
              | _ => None
              end
  | Exc _ _ => Some None
  | Stuck _ => None
  end.

(* same interface as Model.check_slp_tensor *)
Definition src_slp_check (tol V : Z) (eos : option Z) (T B : nat) (lp : list (list (list (list Z))))
  (hyp : list (list (list Z))) (impl : option (list (list Z))) : bool :=
  match src_slp V eos T B lp hyp, impl with
  | Some None, None => true
  | Some (Some m), Some i => C07.Model.mat_closeb tol m i
  | _, _ => false
  end.

(* the source on the ORIGINAL layout of a case: any shape, any dim (also out of range), flat row-major data;
   the result flat *)
Definition src_slp_nd (shape : list nat) (V : nat) (dim : Z) (eos : option Z) (lp hyp : list Z)
  : option (option (list nat * list Z)) :=
  match run_slp (fun x => x) (mkTn (shape ++ [V]) (map zq lp)) (mkTn shape hyp) dim eos with
  | Ok v _ => match dec_any v with
              | Some (TF t) => option_map (fun zs => Some (shp t, zs)) (all_some (map xq_z (dat t)))
              | _ => None
              end
  | Exc _ _ => Some None
  | Stuck _ => None
  end.

(* impl: None = the implementation raised; Some (shape, flat values) *)
Definition src_slp_nd_check (tol : Z) (shape : list nat) (V : nat) (dim : Z) (eos : option Z) (lp hyp : list Z)
  (impl : option (list nat * list Z)) : bool :=
  match src_slp_nd shape V dim eos lp hyp, impl with
  | Some None, None => true
  | Some (Some (sh, m)), Some (sh', i) => (nats_eqb sh sh' && C07.Model.list_closeb tol m i)%bool
  | _, _ => false
  end.
