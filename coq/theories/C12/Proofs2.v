(* C12 — lemmas, part 2: the boolean judge, exact tolerance, data-set options, sos/eos. *)
From Coq Require Import List ZArith Bool Lia.
From Coq Require Import ZifyBool ZifyNat.
From PV Require Import C12.Model C12.Spec C12.Proofs.
Import ListNotations.
Local Open Scope Z_scope.

(* ---------------------------------------------------------------- wellformedb = WellFormed *)

Lemma feat_okb_iff F dt f : feat_okb F dt f = true <-> feat_ok F dt f.
Proof.
  destruct f as [cu d sh]. unfold feat_okb, feat_ok. cbn. split.
  - intro H. apply andb_true_iff in H. destruct H as [H H3]. apply andb_true_iff in H. destruct H as [H1 H2].
    apply dtype_beq_eq in H2. destruct cu; [discriminate|].
    destruct sh as [|T [|F' [|? ?]]]; try discriminate. apply Nat.eqb_eq in H3. subst.
    repeat split. eexists; reflexivity.
  - intros (-> & -> & T & ->). rewrite dtype_beq_refl, Nat.eqb_refl. reflexivity.
Qed.

Lemma ali_okb_iff T a : ali_okb T a = true <-> ali_ok T a.
Proof.
  destruct a as [cu d da]. unfold ali_okb, ali_ok. cbn. split.
  - intro H. apply andb_true_iff in H. destruct H as [H H3]. apply andb_true_iff in H. destruct H as [H1 H2].
    apply dtype_beq_eq in H2. destruct cu; [discriminate|]. destruct da as [v|? ?]; [|discriminate].
    apply Nat.eqb_eq in H3. repeat split; try assumption. exists v. split; [reflexivity|assumption].
  - intros (-> & -> & v & -> & <-). cbn. rewrite Nat.eqb_refl. reflexivity.
Qed.

Lemma bounds_okb_iff T r : bounds_okb T r = true <-> bounds_ok T r.
Proof. destruct r as [[tok s] e]. unfold bounds_okb, bounds_ok. lia. Qed.

Lemma ref_okb_iff d2 T r : ref_okb d2 T r = true <-> ref_ok d2 T r.
Proof.
  destruct r as [cu d da]. unfold ref_okb, ref_ok. cbn. split.
  - intro H. apply andb_true_iff in H. destruct H as [H H3]. apply andb_true_iff in H. destruct H as [H1 H2].
    apply dtype_beq_eq in H2. destruct cu; [discriminate|]. repeat split; try assumption.
    destruct da as [t|rows|? ?|?]; try discriminate.
    + left. destruct d2; [discriminate|]. split; [reflexivity|]. eexists; reflexivity.
    + right. apply andb_true_iff in H3. destruct H3 as [-> H3]. split; [reflexivity|].
      exists rows. split; [reflexivity|]. apply Forall_forall. intros x Hx.
      apply bounds_okb_iff. rewrite forallb_forall in H3. apply H3. assumption.
  - intros (-> & -> & [(-> & t & ->)|(-> & rows & -> & HF)]); cbn; [reflexivity|].
    apply forallb_forall. intros x Hx. apply bounds_okb_iff. rewrite Forall_forall in HF. apply HF. assumption.
Qed.

Lemma utt_okb_iff F dt d2 u : utt_okb F dt d2 u = true <-> utt_ok F dt d2 u.
Proof.
  unfold utt_okb, utt_ok. rewrite !andb_true_iff, feat_okb_iff. split.
  - intros [[Hf Ha] Hr]. split; [assumption|]. split.
    + intros a Ea. rewrite Ea in Ha. apply ali_okb_iff. assumption.
    + intros r Er. rewrite Er in Hr. apply ref_okb_iff. assumption.
  - intros (Hf & Ha & Hr). split; [split; [assumption|]|].
    + destruct (u_ali u) as [a|]; [|reflexivity]. apply ali_okb_iff. apply Ha. reflexivity.
    + destruct (u_ref u) as [r|]; [|reflexivity]. apply ref_okb_iff. apply Hr. reflexivity.
Qed.

Lemma utt_ok_noref F dt d2 d2' u : u_ref u = None -> utt_ok F dt d2 u -> utt_ok F dt d2' u.
Proof. intros Hn (Hf & Ha & Hr). split; [assumption|split; [assumption|]]. intros r Er. congruence. Qed.

Lemma forall_first_2d F dt d2 d : Forall (utt_ok F dt d2) d -> Forall (utt_ok F dt (first_ref_2d d)) d.
Proof.
  induction 1 as [|u t Hu Ht IH]; [constructor|]. cbn [first_ref_2d].
  destruct (u_ref u) as [r|] eqn:Er.
  - assert (d2 = match r_data r with R2 _ => true | _ => false end) as <-; [|constructor; assumption].
    destruct Hu as (_ & _ & Hr). symmetry. apply (ref_ok_dim _ _ _ (Hr _ Er)).
  - constructor; [eapply utt_ok_noref; eassumption|].
    clear -Ht IH. revert IH. generalize (first_ref_2d t). intros b IH. assumption.
Qed.

Lemma wellformedb_iff d : wellformedb d = true <-> WellFormed d.
Proof.
  unfold wellformedb, WellFormed. destruct d as [|u t].
  - split; [intros _; exists 0%nat, DF32, false; constructor|reflexivity].
  - split.
    + intro H. rewrite forallb_forall in H. eexists _, _, _. apply Forall_forall. intros x Hx.
      apply utt_okb_iff. apply H. assumption.
    + intros (F & dt & d2 & H). apply forall_first_2d in H.
      assert (HF : F = nth 1 (f_shape (u_feat u)) 0%nat /\ dt = f_dtype (u_feat u)).
      { inversion H as [|? ? Hu _]; subst. destruct Hu as ((_ & Hd & T & Hs) & _). rewrite Hs. cbn. split; congruence. }
      destruct HF as [<- <-]. apply forallb_forall. intros x Hx. apply utt_okb_iff.
      rewrite Forall_forall in H. apply H. assumption.
Qed.

(* ---------------------------------------------------------------- tolerance k is exact *)

Lemma wellformed_single u : WellFormed [u] <-> exists F dt d2, utt_ok F dt d2 u.
Proof.
  unfold WellFormed. split; intros (F & dt & d2 & H); exists F, dt, d2.
  - inversion H; assumption.
  - constructor; [assumption|constructor].
Qed.

(* one alignment of T' entries against T frames: accepted iff T' = T or T < T' <= T + k, and then cropped *)
Lemma tolerance_exact_ali c k T F dt v :
  plain_yield c -> no_syms c ->
  let d := [mkUtt (mkFeat false dt [T; F]) (Some (mkAli false DI64 (A1 v))) None] in
  ((exists d', validate c (FInt k) d = (d', None))
   <-> (length v = T \/ (Z.of_nat T < Z.of_nat (length v) <= Z.of_nat T + k)))
  /\ (forall d', validate c (FInt k) d = (d', None) ->
      d' = [mkUtt (mkFeat false dt [T; F]) (Some (mkAli false DI64 (A1 (firstn T v)))) None]).
Proof.
  intros Hp Hn d.
  assert (Hs : syms_nonneg c) by (destruct Hn as [H1 H2]; split; intros s Hs; congruence).
  assert (Ht : tokens_nonneg d) by (constructor; [intros r Hr; discriminate|constructor]).
  assert (Hc : clean_writes c (tolerance (FInt k))) by (right; assumption).
  assert (Hrep : repair (Some k) d
                 = [mkUtt (mkFeat false dt [T; F])
                      (Some (mkAli false DI64
                         (if (Z.of_nat T <? Z.of_nat (length v)) && (Z.of_nat (length v) <=? Z.of_nat T + k)
                          then A1 (firstn T v) else A1 v))) None]) by reflexivity.
  split.
  - rewrite (validate_accepts_iff c (FInt k) d Hp Hc Hs Ht). cbn [tolerance]. rewrite Hrep, wellformed_single.
    split.
    + intros (F0 & dt0 & d2 & (_ & Ha & _)). specialize (Ha _ eq_refl). cbn in Ha.
      destruct Ha as (_ & _ & v' & Hv & Hl).
      destruct (Z.ltb_spec (Z.of_nat T) (Z.of_nat (length v))); cbn [andb] in Hv.
      * destruct (Z.leb_spec (Z.of_nat (length v)) (Z.of_nat T + k)); [right; lia|].
        injection Hv as <-. lia.
      * injection Hv as <-. left. assumption.
    + intro H. exists F, dt, false. split; [repeat split; eexists; reflexivity|]. split; [|intros r Hr; discriminate].
      intros a Ha. injection Ha as <-. cbn. repeat split.
      destruct (Z.ltb_spec (Z.of_nat T) (Z.of_nat (length v))); cbn [andb].
      * destruct (Z.leb_spec (Z.of_nat (length v)) (Z.of_nat T + k)); [|lia].
        eexists; split; [reflexivity|]. rewrite firstn_length. lia.
      * eexists; split; [reflexivity|]. lia.
  - intros d' H. destruct (validate_result c (FInt k) d d' Hp Hc H) as [-> Hw]. cbn [tolerance]. rewrite Hrep in *.
    f_equal. f_equal. f_equal. f_equal.
    destruct (Z.ltb_spec (Z.of_nat T) (Z.of_nat (length v))); cbn [andb].
    + destruct (Z.leb_spec (Z.of_nat (length v)) (Z.of_nat T + k)); [reflexivity|].
      apply wellformed_single in Hw. destruct Hw as (F0 & dt0 & d2 & (_ & Ha & _)). specialize (Ha _ eq_refl).
      cbn in Ha. destruct Ha as (_ & _ & v' & Hv & Hl). unfold repair_ali in Hv. cbn [a_data] in Hv.
      destruct (Z.ltb_spec (Z.of_nat T) (Z.of_nat (length v))); [|lia]. cbn [andb] in Hv.
      destruct (Z.leb_spec (Z.of_nat (length v)) (Z.of_nat T + k)); [lia|]. injection Hv as <-. lia.
    + rewrite firstn_all2 by lia. reflexivity.
Qed.

(* one segment [s, e) of a valid shape against T frames: accepted iff e <= T, or s <= T < e <= T + k
   (then the end becomes T) *)
Lemma tolerance_exact_ref c k T F dt tok s e :
  plain_yield c -> no_syms c -> 0 <= tok -> 0 <= s <= e ->
  let d := [mkUtt (mkFeat false dt [T; F]) None (Some (mkRef false DI64 (R2 [(tok, s, e)])))] in
  ((exists d', validate c (FInt k) d = (d', None))
   <-> (e <= Z.of_nat T \/ (s <= Z.of_nat T /\ e <= Z.of_nat T + k)))
  /\ (forall d', validate c (FInt k) d = (d', None) ->
      d' = [mkUtt (mkFeat false dt [T; F]) None (Some (mkRef false DI64 (R2 [(tok, s, Z.min e (Z.of_nat T))])))]).
Proof.
  intros Hp Hn Htok Hse d.
  assert (Hs : syms_nonneg c) by (destruct Hn as [H1 H2]; split; intros x Hx; congruence).
  assert (Ht : tokens_nonneg d).
  { constructor; [|constructor]. intros r Hr. injection Hr as <-. cbn. constructor; [assumption|constructor]. }
  assert (Hc : clean_writes c (tolerance (FInt k))) by (right; assumption).
  assert (Hrep : repair (Some k) d
                 = [mkUtt (mkFeat false dt [T; F]) None
                      (Some (mkRef false DI64 (R2 [repair_row k (Z.of_nat T) (tok, s, e)])))]) by reflexivity.
  assert (Hrow : repair_row k (Z.of_nat T) (tok, s, e)
                 = if (Z.of_nat T <? e) && (e <=? Z.of_nat T + k) && (s <=? Z.of_nat T) then (tok, s, Z.of_nat T) else (tok, s, e)).
  { unfold repair_row. destruct (Z.ltb_spec s 0), (Z.ltb_spec e 0); try lia. cbn [xorb].
    destruct (Z.leb_spec 0 s); [|lia]. destruct (Z.leb_spec s e); [|lia]. reflexivity. }
  split.
  - rewrite (validate_accepts_iff c (FInt k) d Hp Hc Hs Ht). cbn [tolerance]. rewrite Hrep, wellformed_single, Hrow.
    split.
    + intros (F0 & dt0 & d2 & (_ & _ & Hr)). specialize (Hr _ eq_refl). cbn in Hr.
      destruct Hr as (_ & _ & [(_ & t & Hx)|(_ & rows & Hx & HF)]); [discriminate|].
      injection Hx as <-. inversion HF as [|? ? Hb _]; subst. revert Hb.
      destruct (Z.ltb_spec (Z.of_nat T) e), (Z.leb_spec e (Z.of_nat T + k)), (Z.leb_spec s (Z.of_nat T));
        cbn [andb]; unfold bounds_ok; lia.
    + intro H. exists F, dt, true. split; [repeat split; eexists; reflexivity|]. split; [intros a Ha; discriminate|].
      intros r Hr. injection Hr as <-. cbn. repeat split. right. split; [reflexivity|]. eexists. split; [reflexivity|].
      constructor; [|constructor].
      destruct (Z.ltb_spec (Z.of_nat T) e), (Z.leb_spec e (Z.of_nat T + k)), (Z.leb_spec s (Z.of_nat T));
        cbn [andb]; unfold bounds_ok; lia.
  - intros d' H. destruct (validate_result c (FInt k) d d' Hp Hc H) as [-> Hw]. cbn [tolerance]. rewrite Hrep, Hrow in *.
    apply wellformed_single in Hw. destruct Hw as (F0 & dt0 & d2 & (_ & _ & Hr)). specialize (Hr _ eq_refl). cbn in Hr.
    destruct Hr as (_ & _ & [(_ & t & Hx)|(_ & rows & Hx & HF)]); [discriminate|].
    injection Hx as <-. inversion HF as [|? ? Hb _]; subst. revert Hb. clear HF.
    zcmp; unfold bounds_ok; intro Hb; repeat f_equal; lia.
Qed.

(* ---------------------------------------------------------------- a valid directory is never touched,
   whatever the tolerance and whatever symbols the data set adds on loading *)

Lemma row_part_ok fx T r : bounds_ok T r -> row_part fx T r = inr (r, false).
Proof.
  destruct r as [[tok s] e]. unfold bounds_ok, row_part. intro H.
  destruct (Z.ltb_spec s 0), (Z.ltb_spec e 0); cbn [andb orb]; try lia; [reflexivity|].
  destruct (Z.ltb_spec e s); [lia|]. destruct (Z.gtb_spec e T); [lia|]. reflexivity.
Qed.

Lemma rows_part_ok fx T rows : Forall (bounds_ok T) rows -> rows_part fx T rows = inr (rows, false).
Proof.
  induction 1 as [|r rest Hr _ IH]; cbn [rows_part]; [reflexivity|].
  rewrite (row_part_ok fx T r Hr), IH. reflexivity.
Qed.

Lemma ref_part_ok fx T st r :
  ref_pass st T r -> ref_part fx T st r = inr (r, false, mkSt (s_nf st) (Some (ref_dim r)) (s_dt st)).
Proof.
  destruct r as [cu dt da]. unfold ref_pass, ref_part, ref_dim. cbn [r_cuda r_dtype r_data].
  intros (-> & -> & [(t & -> & Hs)|(rows & -> & Hs & HF)]); cbn [andb negb dtype_beq orb].
  - destruct (s_2d st) as [[|]|]; try easy.
  - rewrite (rows_part_ok fx _ _ HF). destruct (s_2d st) as [[|]|]; try easy.
Qed.

Lemma step_valid_unchanged c fx st acc u st' :
  plain_yield c -> syms_nonneg c -> utt_tokens_nonneg u -> utt_pass st u st' ->
  step_utt false true c fx st acc u = (u, inr (st', acc)).
Proof.
  intros [Hto Hsa] Hsy Htok (T & F & Hfc & Hsh & Hdt & Hnf & Hali & Href & Hst').
  unfold step_utt. rewrite Hsa.
  assert (Hf : repair_feat' fx (u_feat u) = u_feat u).
  { destruct fx; [|reflexivity]. destruct (u_feat u) as [cu d sh]. cbn in *. subst. reflexivity. }
  assert (Hfc' : f_cuda (repair_feat' fx (u_feat u)) = false) by (rewrite Hf; assumption).
  pose proof (feat_part_complete fx st (u_feat u) T F Hfc' Hsh Hdt Hnf) as Ef. rewrite Hf in Ef.
  destruct (u_ref u) as [r|] eqn:Er.
  - specialize (Href _ eq_refl). specialize (Htok _ Er).
    destruct (load_ref c r) as [e|lr] eqn:El; [exfalso; exact (load_ref_err_nopass _ _ _ _ _ Hto El Href)|].
    rewrite Ef. cbn [andb].
    destruct (load_ref_pass c r lr st T Hto El) as [Hiff Hdim].
    destruct Href as (Hc & Hd & Hk) eqn:Eh. clear Eh.
    assert (Hpl : ref_pass st T lr) by (apply Hiff; repeat split; assumption).
    assert (Htl : ref_tokens_nonneg lr).
    { apply (load_ref_tokens c r); try assumption.
      destruct Hk as [(t & Ht & _)|(rows & Hr & _)]; [left|right]; eexists; eassumption. }
    set (st1 := mkSt (Some F) (s_2d st) (Some (f_dtype (u_feat u)))).
    assert (Hp1 : ref_pass st1 T lr) by (apply (ref_pass_2d st); [reflexivity|assumption]).
    destruct (u_ali u) as [a|] eqn:Ea.
    + assert (Ha : repair_ali' fx T a = a) by (destruct fx; [apply repair_ali_ok; apply Hali; reflexivity|reflexivity]).
      pose proof (ali_part_complete fx T a) as Hac. rewrite Ha in Hac. rewrite (Hac (Hali _ eq_refl)).
      rewrite (ref_part_ok fx T st1 lr Hp1).
      destruct (token_loop_pass st1 T lr acc Hp1 Htl) as (rows & -> & ->).
      rewrite Hst', (Hdim Hd). rewrite <- Ea, <- Er. rewrite utt_eta. reflexivity.
    + rewrite (ref_part_ok fx T st1 lr Hp1).
      destruct (token_loop_pass st1 T lr acc Hp1 Htl) as (rows & -> & ->).
      rewrite Hst', (Hdim Hd). rewrite <- Ea, <- Er. rewrite utt_eta. reflexivity.
  - rewrite Ef. cbn [andb].
    destruct (u_ali u) as [a|] eqn:Ea.
    + assert (Ha : repair_ali' fx T a = a) by (destruct fx; [apply repair_ali_ok; apply Hali; reflexivity|reflexivity]).
      pose proof (ali_part_complete fx T a) as Hac. rewrite Ha in Hac. rewrite (Hac (Hali _ eq_refl)).
      rewrite Hst'. rewrite <- Ea, <- Er. rewrite utt_eta. reflexivity.
    + rewrite Hst'. rewrite <- Ea, <- Er. rewrite utt_eta. reflexivity.
Qed.

Lemma run_valid_unchanged c fx : plain_yield c -> syms_nonneg c ->
  forall d st acc, Forall utt_tokens_nonneg d -> seq_pass st d ->
  run_pass false true c fx st acc d = (d, inr acc).
Proof.
  intros Hp Hs. induction d as [|u t IH]; intros st acc Htok; cbn [run_pass seq_pass]; [reflexivity|].
  intros (st' & Hpass & Hseq). inversion Htok; subst.
  rewrite (step_valid_unchanged c fx st acc u st' Hp Hs H1 Hpass), (IH st' acc H2 Hseq). reflexivity.
Qed.

Lemma valid_never_touched c fa d :
  plain_yield c -> syms_nonneg c -> tokens_nonneg d -> WellFormed d -> validate c fa d = (d, None).
Proof.
  intros Hp Hs Ht Hw. unfold validate. apply seq_pass_wellformed in Hw.
  rewrite (run_valid_unchanged c _ Hp Hs d st0 acc0 Ht Hw). reflexivity.
Qed.

(* ---------------------------------------------------------------- data-set options *)

(* suppress_alis=True: the validator cannot even unpack the utterance tuple (F10) *)
Lemma suppress_alis_rejects c fa u d :
  c_suppress_alis c = true -> exists e, validate c fa (u :: d) = (u :: d, Some e).
Proof.
  intro Hs. unfold validate. cbn [run_pass]. unfold step_utt. rewrite Hs.
  destruct (u_ref u) as [r|]; [destruct (load_ref c r)|]; eexists; reflexivity.
Qed.

(* ---------------------------------------------------------------- sos / eos: reading *)

Lemma load_ref_1d c cu dt t : c_tokens_only c = false ->
  load_ref c (mkRef cu dt (R1 t)) = inr (mkRef cu dt (R1 (wrap (c_sos c) (c_eos c) t))).
Proof. intro H. unfold load_ref. cbn. rewrite load_rdata_R1 by assumption. reflexivity. Qed.

Lemma load_ref_2d c cu dt rows : c_tokens_only c = false -> dt <> DU8 ->
  load_ref c (mkRef cu dt (R2 rows))
  = inr (mkRef cu dt (R2 (wrap (option_map sym_of (c_sos c)) (option_map sym_of (c_eos c)) rows))).
Proof. intros H Hd. unfold load_ref. cbn. rewrite load_rdata_R2 by assumption. reflexivity. Qed.

(* tokens_only=True: segment columns dropped first, then the symbols *)
Lemma load_ref_tokens_only c cu dt rows : c_tokens_only c = true ->
  load_ref c (mkRef cu dt (R2 rows))
  = inr (mkRef cu dt (R1 (wrap (c_sos c) (c_eos c) (map tok_of rows)))).
Proof.
  destruct c as [sos eos to sa]. cbn. intros ->. unfold load_ref, load_rdata, wrap. cbn.
  destruct sos, eos; cbn; rewrite ?app_nil_r; reflexivity.
Qed.

(* ---------------------------------------------------------------- sos / eos: writing *)

Section Strip.
  Context {A : Type} (key : A -> Z).

  Lemma after_last_none s l : Forall (fun x => key x <> s) l -> after_last key s l = None.
  Proof.
    induction 1 as [|x t Hx _ IH]; cbn; [reflexivity|]. rewrite IH.
    destruct (Z.eqb_spec (key x) s); [contradiction|reflexivity].
  Qed.

  Lemma before_first_none s l : Forall (fun x => key x <> s) l -> before_first key s l = l.
  Proof.
    induction 1 as [|x t Hx _ IH]; cbn; [reflexivity|]. rewrite IH.
    destruct (Z.eqb_spec (key x) s); [contradiction|reflexivity].
  Qed.

  Lemma before_first_app s l x r : Forall (fun y => key y <> s) l -> key x = s ->
    before_first key s (l ++ x :: r) = l.
  Proof.
    intros H Hx. induction H as [|y t Hy _ IH]; cbn.
    - rewrite Hx, Z.eqb_refl. reflexivity.
    - rewrite IH. destruct (Z.eqb_spec (key y) s); [contradiction|reflexivity].
  Qed.

  (* what is stored contains neither symbol *)
  Lemma before_first_free s l : Forall (fun x => key x <> s) (before_first key s l).
  Proof.
    induction l as [|x t IH]; cbn; [constructor|].
    destruct (Z.eqb_spec (key x) s); constructor; assumption.
  Qed.

  Lemma before_first_incl (P : A -> Prop) s l : Forall P l -> Forall P (before_first key s l).
  Proof.
    induction 1 as [|x t Hx _ IH]; cbn; [constructor|].
    destruct (key x =? s); constructor; assumption.
  Qed.

  Lemma after_last_none_free s l : after_last key s l = None -> Forall (fun x => key x <> s) l.
  Proof.
    induction l as [|y r IH]; [constructor|]. cbn.
    destruct (after_last key s r) eqn:E'; [discriminate|].
    destruct (Z.eqb_spec (key y) s); [discriminate|]. intros _. constructor; [assumption|]. apply IH. reflexivity.
  Qed.

  Lemma after_last_free s l r : after_last key s l = Some r -> Forall (fun x => key x <> s) r.
  Proof.
    revert r. induction l as [|x t IH]; cbn; intros r; [easy|].
    destruct (after_last key s t) as [r'|] eqn:E.
    - intro H; inversion H; subst. apply IH. reflexivity.
    - destruct (key x =? s); [|easy]. intro H. injection H as <-. apply after_last_none_free. assumption.
  Qed.

  (* the stored hypothesis is a contiguous piece of what was passed *)
  Lemma after_last_suffix s l r : after_last key s l = Some r -> exists pre x, key x = s /\ l = pre ++ x :: r.
  Proof.
    revert r. induction l as [|y t IH]; cbn; intros r; [easy|].
    destruct (after_last key s t) as [r'|] eqn:E.
    - intro H; inversion H; subst. destruct (IH _ eq_refl) as (pre & x & Hx & ->).
      exists (y :: pre), x. split; [assumption|reflexivity].
    - destruct (Z.eqb_spec (key y) s); [|easy]. intro H; inversion H; subst.
      exists [], y. split; reflexivity.
  Qed.

  Lemma before_first_prefix s l : exists post, l = before_first key s l ++ post /\
    (post = [] \/ exists x t, post = x :: t /\ key x = s).
  Proof.
    induction l as [|y t IH]; cbn.
    - exists []. split; [reflexivity|left; reflexivity].
    - destruct (Z.eqb_spec (key y) s).
      + exists (y :: t). split; [reflexivity|]. right. eauto.
      + destruct IH as (post & H1 & H2). exists post. split; [cbn; f_equal; assumption|assumption].
  Qed.

  Variable mk : Z -> A.
  Hypothesis key_mk : forall s, key (mk s) = s.

  Lemma strip_wrap sos eos l :
    (forall s, sos = Some s -> Forall (fun x => key x <> s) l) ->
    (forall e, eos = Some e -> Forall (fun x => key x <> e) l) ->
    (forall s e, sos = Some s -> eos = Some e -> s <> e) ->
    strip_hyp key sos eos (wrap (option_map mk sos) (option_map mk eos) l) = l.
  Proof.
    intros Hs He Hne. unfold strip_hyp, wrap.
    destruct sos as [s|], eos as [e|]; cbn [option_map app].
    - assert (after_last key s (mk s :: l ++ [mk e]) = Some (l ++ [mk e])) as ->.
      { cbn [after_last]. rewrite after_last_none.
        - rewrite key_mk, Z.eqb_refl. reflexivity.
        - apply Forall_app. split; [apply Hs; reflexivity|]. constructor; [|constructor].
          rewrite key_mk. intro E. apply (Hne s e); congruence. }
      apply before_first_app; [apply He; reflexivity|apply key_mk].
    - cbn [after_last]. rewrite app_nil_r. rewrite after_last_none by (apply Hs; reflexivity).
      rewrite key_mk, Z.eqb_refl. reflexivity.
    - apply before_first_app; [apply He; reflexivity|apply key_mk].
    - rewrite app_nil_r. reflexivity.
  Qed.

  Lemma strip_free sos eos l :
    (forall s, sos = Some s -> Forall (fun x => key x <> s) (strip_hyp key sos eos l)) /\
    (forall e, eos = Some e -> Forall (fun x => key x <> e) (strip_hyp key sos eos l)).
  Proof.
    unfold strip_hyp. split.
    - intros s ->. set (l1 := match after_last key s l with Some r => r | None => l end).
      assert (H1 : Forall (fun x => key x <> s) l1).
      { subst l1. destruct (after_last key s l) eqn:E; [eapply after_last_free; eassumption|apply after_last_none_free; assumption]. }
      destruct eos; [apply before_first_incl|]; assumption.
    - intros e ->. apply before_first_free.
  Qed.

  Lemma strip_infix sos eos l : exists pre post, l = pre ++ strip_hyp key sos eos l ++ post.
  Proof.
    unfold strip_hyp.
    set (l1 := match sos with Some s => match after_last key s l with Some r => r | None => l end | None => l end).
    assert (exists pre, l = pre ++ l1) as (pre & Hpre).
    { subst l1. destruct sos as [s|]; [|exists []; reflexivity].
      destruct (after_last key s l) eqn:E; [|exists []; reflexivity].
      destruct (after_last_suffix _ _ _ E) as (pre & x & _ & ->). exists (pre ++ [x]). rewrite <- app_assoc. reflexivity. }
    destruct eos as [e|].
    - destruct (before_first_prefix e l1) as (post & H1 & _). exists pre, post. rewrite <- H1. assumption.
    - exists pre, []. rewrite app_nil_r. assumption.
  Qed.
End Strip.

Definition free_of (s : option Z) (l : list Z) : Prop := forall x, s = Some x -> Forall (fun t => t <> x) l.

Lemma roundtrip_1d sos eos t :
  free_of sos t -> free_of eos t -> (forall s e, sos = Some s -> eos = Some e -> s <> e) ->
  write_hyp sos eos (R1 (wrap sos eos t)) = R1 t.
Proof.
  intros Hs He Hne. cbn [write_hyp]. f_equal.
  pose proof (strip_wrap (fun x : Z => x) (fun x => x) (fun s => eq_refl) sos eos t Hs He Hne) as H.
  assert (E : forall o : option Z, option_map (fun x => x) o = o) by (intros [x|]; reflexivity).
  rewrite !E in H. assumption.
Qed.

Lemma roundtrip_2d sos eos rows :
  free_of sos (map tok_of rows) -> free_of eos (map tok_of rows) ->
  (forall s e, sos = Some s -> eos = Some e -> s <> e) ->
  write_hyp sos eos (R2 (wrap (option_map sym_of sos) (option_map sym_of eos) rows)) = R2 rows.
Proof.
  intros Hs He Hne. cbn [write_hyp]. f_equal.
  apply (strip_wrap tok_of sym_of (fun s => eq_refl)); try assumption.
  - intros s E. specialize (Hs s E). rewrite Forall_map in Hs. assumption.
  - intros e E. specialize (He e E). rewrite Forall_map in He. assumption.
Qed.

(* the same symbol for both ends: what is stored is empty, not the bare tokens *)
Lemma roundtrip_same_symbol_fails : write_hyp (Some 5) (Some 5) (R1 (wrap (Some 5) (Some 5) [1; 2])) = R1 [].
Proof. reflexivity. Qed.
