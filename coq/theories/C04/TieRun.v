(* C04 — tie, part 1: the MiniPy term of `beam_search_advance` (PV.Gen.C04Src.bsa_body, regenerated from
   /repo on every run), interpreted with [SrcRun.ext04], IS the tensor program [adv_tensor] below - a
   straight-line composition of the operations of PV.MiniTorch.OpsC04 - for EVERY 3-D log_probs_t and
   y_prev, every log_probs_prev / y_prev_lens tensor (any shape, any data) and every integer width:
   the same four tensors, RuntimeError at the same places, outside the modelled domain together
   ([sim]).  Nothing here knows the model; part 2 (Tie.v) evaluates [adv_tensor] on the encoding of the
   model's beams.  If the source is edited, the regenerated term changes and this file is re-checked
   against it. *)
From Coq Require Import ZArith QArith List String Bool Arith Lia ZifyBool ZifyNat.
From PV Require Import MiniPy.Syntax MiniPy.Interp MiniPy.Lemmas MiniTorch.Ops MiniTorch.Value MiniTorch.Lemmas
  MiniTorch.OpsC04 Gen.C04Src.
From PV Require Import C04.Model C04.SrcRun.
Import ListNotations.
Local Open Scope string_scope.

(* ---- the tensor program -------------------------------------------------------------------------- *)
Inductive res := ROk (y lens lp src : vt) | RRaise | RUndef.

Definition bo {A} (o : option A) (k : A -> res) : res := match o with Some a => k a | None => RUndef end.
Definition bc (c : cres) (k : vt -> res) : res :=
  match c with COk t => k t | CRaise => RRaise | CUndef => RUndef end.

Notation "'do' x <- o ; k" := (bo o (fun x => k)) (at level 200, x pattern, right associativity).
Notation "'docat' x <- o ; k" := (bc o (fun x => k)) (at level 200, x name, right associativity).

Local Open Scope Z_scope.

(* `if K < width:` ... `return y_next, y_next_lens, log_probs_next, next_src` *)
Definition adv_pad (tm1 N : nat) (w K : Z) (yn ynl lpn src : vt) : res :=
  if K <? w then
    do ne <- new_empty yn [Z.of_nat tm1 + 1; Z.of_nat N; w - K];
    docat yn' <- cat yn ne 2;
    do nf <- new_full lpn [Z.of_nat N; w - K] (VInf false);
    docat lpn' <- cat lpn nf 1;
    do zeros <- new_zeros ynl [Z.of_nat N; w - K];
    docat ynl' <- cat ynl zeros 1;
    docat src' <- cat src zeros 1;
    ROk yn' ynl' lpn' src'
  else ROk yn ynl lpn src.

Definition shape_is (sh want : list nat) : bool := list_eqb Nat.eqb sh want.

Definition adv_tensor (lpt : vt) (w : Z) (lpp y : vt) (lens : option vt) : res :=
  match vshape lpt, vshape y with
  | [N; Kp; V], [tm1; Ny; Ky] =>
      if w <? 1 then RRaise
      else if negb (shape_is (vshape lpp) [N; Kp]) then RRaise
      else if negb (shape_is [Ny; Ky] [N; Kp]) then RRaise
      else if match lens with Some l => negb (shape_is (vshape l) [N; Kp]) | None => false end then RRaise
      else
        let K := Z.min w (Z.of_nat Kp * Z.of_nat V) in
        do u <- unsqueeze lpp 2;
        do c <- add u lpt;
        do cand <- flatten c 1;
        do (lpn, ind) <- topk cand K 1;
        do src <- trunc_div ind (Z.of_nat V);
        do m <- remainder ind (Z.of_nat V);
        do yt <- unsqueeze m 0;
        if negb (Z.of_nat tm1 =? 0) then
          do e0 <- unsqueeze src 0;
          do e <- expand e0 [Z.of_nat tm1; Z.of_nat N; K];
          do yn <- gather y 2 e;
          match lens with
          | None =>
              docat yn1 <- cat yn yt 0;
              do ynl <- new_full yt [Z.of_nat N; K] (VInt (Z.of_nat tm1 + 1));
              adv_pad tm1 N w K yn1 ynl lpn src
          | Some l =>
              do mx <- tmax l;
              do it <- item mx;
              match it with
              | VInt z =>
                  let cont yn' :=
                    do pre <- gather l 1 src;
                    do pu <- unsqueeze pre 0;
                    do yn2 <- scatter yn' 0 pu yt;
                    do ynl <- add_scalar pre (VInt 1);
                    adv_pad tm1 N w K yn2 ynl lpn src in
                  if Z.of_nat tm1 <=? z then docat yn1 <- cat yn yt 0; cont yn1 else cont yn
              | _ => RUndef
              end
          end
        else
          let s0 :=
            if all_int yt then
              do ones <- ones_int [Z.of_nat N; K];
              adv_pad tm1 N w K yt ones lpn src
            else RUndef in
          match lens with
          | Some l =>
              do ne <- ne_scalar l 0;
              do b <- any ne;
              if (b : bool) then RRaise else s0
          | None => s0
          end
  | _, _ => RUndef
  end.

Local Close Scope Z_scope.

(* the interpreter's outcome and the tensor program's agree *)
Definition sim (o : outcome val) (r : res) : Prop :=
  match o, r with
  | Ok v _, ROk y l p s => v = VTuple [encv y; encv l; encv p; encv s]
  | Exc n _, RRaise => n = runtime_error
  | Stuck _, RUndef => True
  | _, _ => False
  end.

(* ---- values -------------------------------------------------------------------------------------------- *)
Lemma decv_encv : forall t, decv (encv t) = Some t.
Proof.
  intros [sh d]. unfold decv, encv, enc_shape. cbn [vshape vdata]. rewrite String.eqb_refl.
  rewrite dec_nats_enc. reflexivity.
Qed.

Lemma decv_int : forall z, decv (VInt z) = None. Proof. reflexivity. Qed.

Lemma cmp_lt_int : forall a b, cmp_eval Lt (VInt a) (VInt b) = Some (a <? b)%Z.
Proof.
  intros. cbn. unfold Qcompare. cbn. rewrite !Z.mul_1_r. unfold Z.ltb. destruct (a ?= b)%Z; reflexivity.
Qed.

Lemma cmp_ge_int : forall a b, cmp_eval GtE (VInt a) (VInt b) = Some (b <=? a)%Z.
Proof.
  intros. cbn. unfold Qcompare. cbn. rewrite !Z.mul_1_r. unfold Z.leb. rewrite (Z.compare_antisym a b).
  destruct (a ?= b)%Z; reflexivity.
Qed.

Lemma cmp_ne : forall a b, cmp_eval NotEq a b = Some (negb (val_eqb a b)). Proof. reflexivity. Qed.
Lemma cmp_isnot_encv : forall t, cmp_eval IsNot (encv t) VNone = Some true. Proof. reflexivity. Qed.
Lemma cmp_isnot_none : cmp_eval IsNot VNone VNone = Some false. Proof. reflexivity. Qed.
Lemma cmp_is_encv : forall t, cmp_eval Is (encv t) VNone = Some false. Proof. reflexivity. Qed.
Lemma cmp_is_none : cmp_eval Is VNone VNone = Some true. Proof. reflexivity. Qed.

Lemma min_int : forall a b st, extreme_of false [VInt a; VInt b] st = Ok (VInt (Z.min a b)) st.
Proof.
  intros. unfold extreme_of, q_extreme. rewrite cmp_lt_int. unfold Z.min, Z.ltb.
  rewrite (Z.compare_antisym b a). destruct (b ?= a)%Z; reflexivity.
Qed.

Lemma val_eqb_int : forall a b, val_eqb (VInt a) (VInt b) = (a =? b)%Z. Proof. reflexivity. Qed.

Lemma val_eqb_shape : forall a b, val_eqb (VTuple (enc_shape a)) (VTuple (enc_shape b)) = list_eqb Nat.eqb a b.
Proof.
  induction a as [|x a IH]; intros [|y b]; try reflexivity.
  change (val_eqb (VTuple (enc_shape (x :: a))) (VTuple (enc_shape (y :: b))))
    with ((Z.of_nat x =? Z.of_nat y)%Z && val_eqb (VTuple (enc_shape a)) (VTuple (enc_shape b)))%bool.
  rewrite IH. cbn [list_eqb]. f_equal. destruct (Nat.eqb_spec x y); lia.
Qed.

Lemma enc_shape2 : forall a b, [VInt (Z.of_nat a); VInt (Z.of_nat b)] = enc_shape [a; b]. Proof. reflexivity. Qed.
Lemma enc_shape3 : forall a b c, enc_shape [a; b; c] = [VInt (Z.of_nat a); VInt (Z.of_nat b); VInt (Z.of_nat c)].
Proof. reflexivity. Qed.

Lemma method_encv : forall t m args, method (encv t) m args = None. Proof. reflexivity. Qed.
Lemma method_bool : forall b m args, method (VBool b) m args = None. Proof. reflexivity. Qed.
Lemma foreign_encv : forall t, foreign (encv t) = true. Proof. reflexivity. Qed.
Lemma foreign_int : forall z, foreign (VInt z) = false. Proof. reflexivity. Qed.
Lemma foreign_none : foreign VNone = false. Proof. reflexivity. Qed.
Lemma foreign_shape : forall sh, foreign (VTuple (enc_shape sh)) = false. Proof. intros [|? ?]; reflexivity. Qed.

(* ---- statements ------------------------------------------------------------------------------------------ *)
Lemma exec_assign1 ext x e st :
  exec ext (SAssign [TName x] e) st = bind (eval ext e st) (fun v st1 => Ok CNormal (set_var x v st1)).
Proof. cbn [exec]. destruct (eval ext e st); reflexivity. Qed.
Lemma exec_raise ext n st : exec ext (SRaise n) st = Exc n st. Proof. reflexivity. Qed.
Lemma exec_return ext e st : exec ext (SReturn e) st = bind (eval ext e st) (fun v st1 => Ok (CReturn v) st1).
Proof. reflexivity. Qed.
Lemma exec_pass ext st : exec ext SPass st = Ok CNormal st. Proof. reflexivity. Qed.

(* ---- what each call of the body reaches in ext04 ---------------------------------------------------------- *)
Ltac ext_tac := intros; unfold ext04; cbn - [decv encv]; rewrite ?decv_encv, ?decv_int; reflexivity.

Lemma ext_dim t st : ext04 "$method.dim" [encv t] [] st = Ok (vnat (dim t)) st. Proof. ext_tac. Qed.
Lemma ext_shape t st : ext04 "$attr.shape" [encv t] [] st = Ok (VTuple (enc_shape (vshape t))) st. Proof. ext_tac. Qed.
Lemma ext_size t d st : ext04 "$method.size" [encv t; VInt d] [] st = ret_v "size" (option_map vnat (size t d)) st.
Proof. ext_tac. Qed.
Lemma ext_unsqueeze t d st : ext04 "$method.unsqueeze" [encv t; VInt d] [] st = ret_t "unsqueeze" (unsqueeze t d) st.
Proof. ext_tac. Qed.
Lemma ext_flatten t d st : ext04 "$method.flatten" [encv t; VInt d] [] st = ret_t "flatten" (flatten t d) st.
Proof. ext_tac. Qed.
Lemma ext_add t u st : ext04 "operator" [VStr "add"; encv t; encv u] [] st = ret_t "add" (add t u) st.
Proof. ext_tac. Qed.
Lemma ext_add_int t c st : ext04 "operator" [VStr "add"; encv t; VInt c] [] st = ret_t "add scalar" (add_scalar t (VInt c)) st.
Proof. ext_tac. Qed.
Lemma ext_mod t c st : ext04 "operator" [VStr "mod"; encv t; VInt c] [] st = ret_t "remainder" (remainder t c) st.
Proof. ext_tac. Qed.
Lemma ext_ne t c st : ext04 "compare" [VStr "ne"; encv t; VInt c] [] st = ret_t "ne" (ne_scalar t c) st.
Proof. ext_tac. Qed.
Lemma ext_topk t k d st : ext04 "$method.topk" [encv t; VInt k; VInt d] [] st =
  match topk t k d with
  | Some (vals, idx) => Ok (VTuple [encv vals; encv idx]) st
  | None => Stuck "MiniTorch(C04): outside the modelled domain: topk"
  end.
Proof. ext_tac. Qed.
Lemma ext_trunc t c st : ext04 "trunc_divide" [encv t; VInt c] [] st = ret_t "trunc_divide" (trunc_div t c) st.
Proof. ext_tac. Qed.
Lemma ext_gather t d i st : ext04 "$method.gather" [encv t; VInt d; encv i] [] st = ret_t "gather" (gather t d i) st.
Proof. ext_tac. Qed.
Lemma ext_scatter t d i s st :
  ext04 "$method.scatter" [encv t; VInt d; encv i; encv s] [] st = ret_t "scatter" (scatter t d i s) st.
Proof. ext_tac. Qed.
Lemma ext_expand t a b c st :
  ext04 "$method.expand" [encv t; VInt a; VInt b; VInt c] [] st = ret_t "expand" (expand t [a; b; c]) st.
Proof. ext_tac. Qed.
Lemma ext_cat t u d st : ext04 "torch.cat" [VList [encv t; encv u]; VInt d] [] st = ret_c "cat" (cat t u d) st.
Proof. ext_tac. Qed.
Lemma ext_new_full t a b v st :
  ext04 "$method.new_full" [encv t; VTuple [VInt a; VInt b]; v] [] st = ret_t "new_full" (new_full t [a; b] v) st.
Proof. ext_tac. Qed.
Lemma ext_new_zeros t a b st :
  ext04 "$method.new_zeros" [encv t; VInt a; VInt b] [] st = ret_t "new_zeros" (new_zeros t [a; b]) st.
Proof. ext_tac. Qed.
Lemma ext_new_empty t a b c st :
  ext04 "$method.new_empty" [encv t; VInt a; VInt b; VInt c] [] st = ret_t "new_empty" (new_empty t [a; b; c]) st.
Proof. ext_tac. Qed.
Lemma ext_max t st : ext04 "$method.max" [encv t] [] st = ret_t "max" (tmax t) st. Proof. ext_tac. Qed.
Lemma ext_item t st : ext04 "$method.item" [encv t] [] st = ret_v "item" (item t) st. Proof. ext_tac. Qed.
Lemma ext_any t st : ext04 "$method.any" [encv t] [] st = ret_v "any" (option_map VBool (any t)) st. Proof. ext_tac. Qed.
Lemma ext_int v st : ext04 "int" [v] [] st = match v with VInt z => Ok (VInt z) st | _ => Stuck "int" end.
Proof. intros. unfold ext04. cbn. destruct v; reflexivity. Qed.
Lemma ext_float_inf st : ext04 "float" [VStr "inf"] [] st = Ok (VInf true) st. Proof. reflexivity. Qed.
Lemma ext_device t st : ext04 "$attr.device" [encv t] [] st = Ok device_token st. Proof. ext_tac. Qed.
Lemma ext_dtype t st : ext04 "$attr.dtype" [encv t] [] st =
  if all_int t then Ok int_dtype_token st else Stuck "dtype of a non-integer tensor".
Proof. ext_tac. Qed.
Lemma ext_ones a b st :
  ext04 "torch.ones" [VTuple [VInt a; VInt b]] [("dtype", int_dtype_token); ("device", device_token)] st
  = ret_t "ones" (ones_int [a; b]) st.
Proof. reflexivity. Qed.
Lemma ext_getitem_tail l st :
  ext04 "$getitem" [VTuple l; VTuple [VStr "$slice"; VInt 1; VNone; VNone]] [] st
  = Ok (VTuple (firstn (List.length l - 1) (skipn 1 l))) st.
Proof. reflexivity. Qed.

Lemma ret_t_some why t st : ret_t why (Some t) st = Ok (encv t) st. Proof. reflexivity. Qed.
Lemma ret_t_none why st : exists m, ret_t why None st = Stuck m. Proof. eexists. reflexivity. Qed.

Definition vars0 (lpt : vt) (w : Z) (lpp y : vt) (lens : option vt) : list (string * val) :=
  [("log_probs_t", encv lpt); ("width", VInt w); ("log_probs_prev", encv lpp); ("y_prev", encv y);
   ("y_prev_lens", match lens with Some l => encv l | None => VNone end)].

(* ---- the symbolic run ------------------------------------------------------------------------------------ *)
(* [exec] is kept folded and unfolded one statement at a time ([step]; the rest of the program is hidden behind
   a variable meanwhile); [go] evaluates up to the next torch call, [rw] names what that call reaches in ext04;
   the result of an operation ([dopt]) and a test both sides make ([dcond]) are case-split in step *)
#[local] Arguments exec : simpl never.
#[local] Arguments ext04 : simpl never.
#[local] Arguments encv : simpl never.
#[local] Arguments enc_shape : simpl never.
#[local] Arguments cmp_eval : simpl never.
#[local] Arguments foreign : simpl never.
#[local] Arguments extreme_of : simpl never.
#[local] Arguments val_eqb : simpl never.
#[local] Arguments method : simpl never.
#[local] Arguments Z.of_nat !_.
#[local] Arguments Z.eqb !_ !_.
#[local] Arguments Z.ltb !_ !_.
#[local] Arguments Z.leb !_ !_.
#[local] Arguments Z.add !_ !_.
#[local] Arguments Z.sub !_ !_.
#[local] Arguments Z.mul !_ !_.
#[local] Arguments Z.min !_ !_.
#[local] Arguments unsqueeze : simpl never.
#[local] Arguments flatten : simpl never.
#[local] Arguments add : simpl never.
#[local] Arguments add_scalar : simpl never.
#[local] Arguments topk : simpl never.
#[local] Arguments trunc_div : simpl never.
#[local] Arguments remainder : simpl never.
#[local] Arguments ne_scalar : simpl never.
#[local] Arguments any : simpl never.
#[local] Arguments tmax : simpl never.
#[local] Arguments item : simpl never.
#[local] Arguments gather : simpl never.
#[local] Arguments scatter : simpl never.
#[local] Arguments expand : simpl never.
#[local] Arguments cat : simpl never.
#[local] Arguments new_full : simpl never.
#[local] Arguments new_zeros : simpl never.
#[local] Arguments new_empty : simpl never.
#[local] Arguments ones_int : simpl never.
#[local] Arguments all_int : simpl never.
#[local] Arguments size : simpl never.
#[local] Arguments dim : simpl never.
#[local] Arguments shape_is : simpl never.
#[local] Arguments ret_t _ !_ _ /.
#[local] Arguments ret_v _ !_ _ /.
#[local] Arguments ret_c _ !_ _ /.
Lemma attribute_encv : forall t a st, attribute ext04 (encv t) a st = ext04 ("$attr." ++ a) [encv t] [] st.
Proof. reflexivity. Qed.
Lemma val_eqb_shape2 : forall sh a b,
  val_eqb (VTuple (enc_shape sh)) (VTuple [VInt (Z.of_nat a); VInt (Z.of_nat b)]) = list_eqb Nat.eqb sh [a; b].
Proof. intros. rewrite enc_shape2. apply val_eqb_shape. Qed.
Lemma val_eqb_shape22 : forall c d a b,
  val_eqb (VTuple [VInt (Z.of_nat c); VInt (Z.of_nat d)]) (VTuple [VInt (Z.of_nat a); VInt (Z.of_nat b)]) = list_eqb Nat.eqb [c; d] [a; b].
Proof. intros. rewrite !enc_shape2. apply val_eqb_shape. Qed.
Lemma foreign_cons_int : forall z l, foreign (VTuple (VInt z :: l)) = false. Proof. reflexivity. Qed.
Lemma p2n1 : Pos.to_nat 1 = 1%nat. Proof. reflexivity. Qed.
Lemma p2n2 : Pos.to_nat 2 = 2%nat. Proof. reflexivity. Qed.
Lemma of_nat_3 : (Z.of_nat 3 =? 3)%Z = true. Proof. reflexivity. Qed.


Ltac step :=
  match goal with
  | |- context [exec ext04 ?r ?st] => is_var r; subst r
  | |- context [exec ext04 (SAssign [TName _] _) _] => rewrite exec_assign1
  | |- context [exec ext04 (SIf ?c ?a ?b) ?st] =>
      rewrite (exec_if ext04 c a b st);
      let ra := fresh "thn" in let rb := fresh "els" in remember a as ra; remember b as rb
  | |- context [exec ext04 (SRaise _) _] => rewrite exec_raise
  | |- context [exec ext04 (SReturn _) _] => rewrite exec_return
  | |- context [exec ext04 SPass _] => rewrite exec_pass
  | |- context [exec ext04 (SSeq ?a ?b) ?st] =>
      rewrite (exec_seq ext04 a b st); let r := fresh "rest" in remember b as r
  end.

Ltac ext_rw f :=
  lazymatch f with
  | "$method.dim" => rewrite ext_dim
  | "$attr.shape" => rewrite ext_shape
  | "$method.size" => rewrite ext_size
  | "$method.unsqueeze" => rewrite ext_unsqueeze
  | "$method.flatten" => rewrite ext_flatten
  | "operator" => first [rewrite ext_add | rewrite ext_add_int | rewrite ext_mod]
  | "compare" => rewrite ext_ne
  | "$method.topk" => rewrite ext_topk
  | "trunc_divide" => rewrite ext_trunc
  | "$method.gather" => rewrite ext_gather
  | "$method.scatter" => rewrite ext_scatter
  | "$method.expand" => rewrite ext_expand
  | "torch.cat" => rewrite ext_cat
  | "$method.new_full" => rewrite ext_new_full
  | "$method.new_zeros" => rewrite ext_new_zeros
  | "$method.new_empty" => rewrite ext_new_empty
  | "$method.max" => rewrite ext_max
  | "$method.item" => rewrite ext_item
  | "$method.any" => rewrite ext_any
  | "int" => try (match goal with |- context [ext04 "int" [?v] _ _] => is_var v; destruct v end); rewrite ext_int
  | "float" => rewrite ext_float_inf
  | "$attr.device" => rewrite ext_device
  | "$attr.dtype" => rewrite ext_dtype
  | "torch.ones" => rewrite ext_ones
  | "$getitem" => rewrite ext_getitem_tail
  end.

Lemma binop_add_tt : forall t u st, binop_eval Add (encv t) (encv u) st = Stuck "add". Proof. reflexivity. Qed.
Lemma binop_add_ti : forall t c st, binop_eval Add (encv t) (VInt c) st = Stuck "add". Proof. reflexivity. Qed.
Lemma binop_mod_ti : forall t c st, binop_eval Mod (encv t) (VInt c) st = Stuck "mod". Proof. reflexivity. Qed.
Lemma size_0 : forall y a b c, vshape y = [a; b; c] -> size y 0 = Some a.
Proof. intros y a b c H. unfold size, dim. rewrite H. reflexivity. Qed.

Ltac rw :=
  repeat match goal with
  | |- context [method (encv _) _ _] => rewrite method_encv
  | |- context [method (VBool _) _ _] => rewrite method_bool
  | |- context [attribute ext04 (encv _) _ _] => rewrite attribute_encv
  | |- context [foreign (encv _)] => rewrite foreign_encv
  | |- context [foreign (VInt _)] => rewrite foreign_int
  | |- context [foreign VNone] => rewrite foreign_none
  | |- context [foreign (VTuple (enc_shape _))] => rewrite foreign_shape
  | |- context [foreign (VTuple (VInt _ :: _))] => rewrite foreign_cons_int
  | |- context [cmp_eval ?op ?a ?b] =>
      first [rewrite cmp_lt_int | rewrite cmp_ge_int | rewrite cmp_ne | rewrite cmp_isnot_encv | rewrite cmp_isnot_none
            | rewrite cmp_is_encv | rewrite cmp_is_none]
  | |- context [extreme_of false _ _] => rewrite min_int
  | |- context [binop_eval _ (encv _) _ _] => first [rewrite binop_add_tt | rewrite binop_add_ti | rewrite binop_mod_ti]
  | |- context [val_eqb ?a ?b] => first [rewrite val_eqb_int | rewrite val_eqb_shape2 | rewrite val_eqb_shape22]
  | |- context [ext04 ?f _ _ _] => ext_rw f
  | |- context [enc_shape [_; _; _]] => rewrite enc_shape3
  | |- context [Pos.to_nat 1] => rewrite p2n1
  | |- context [Pos.to_nat 2] => rewrite p2n2
  | |- context [(Z.of_nat 3 =? 3)%Z] => rewrite of_nat_3
  | H : vshape ?y = [_; _; _] |- context [size ?y 0] => rewrite (size_0 _ _ _ _ H)
  end.

Ltac rwh := repeat match goal with H : vshape _ = _ |- _ => rewrite H end.
Ltac go := repeat (progress (unfold set_var; cbn; unfold vnat, dim; rwh; rw)).
Ltac steps := repeat (step; go).


Ltac dcond := match goal with |- sim ?L ?R => match L with context [if ?c then _ else _] => match R with context [c] => destruct c eqn:? end end end.
Ltac dopt := match goal with |- sim ?L ?R => match L with
   | context [ret_v _ (option_map _ ?o) _] => destruct o eqn:?
   | context [ret_t _ ?o _] => destruct o eqn:?
   | context [ret_v _ ?o _] => destruct o eqn:?
   | context [ret_c _ ?o _] => destruct o eqn:?
   | context [topk ?a ?b ?c] => destruct (topk a b c) as [[? ?]|] eqn:?
   end end.
Ltac auto1 := first [ step; go | dcond; go | dopt; go ].
Ltac fin := try (cbn; first [exact I | reflexivity]).
Ltac auto2 := auto1; try lazymatch goal with |- True => exact I | |- @eq string _ _ => reflexivity | |- @eq val _ _ => reflexivity end.


(* the arguments of beam_search_advance(log_probs_t, width, log_probs_prev, y_prev, y_prev_lens) *)
Theorem run_is_adv : forall lpt w lpp y lens N Kp V tm1 Ny Ky,
  vshape lpt = [N; Kp; V] -> vshape y = [tm1; Ny; Ky] ->
  sim (Interp.run ext04 bsa_body (vars0 lpt w lpp y lens)) (adv_tensor lpt w lpp y lens).
Proof.
  intros lpt w lpp y lens N Kp V tm1 Ny Ky Hl Hy.
  unfold Interp.run, bsa_body, vars0, adv_tensor, adv_pad, shape_is. rewrite Hl, Hy. destruct lens as [l|].
  all: repeat auto2.
Qed.

(* `if log_probs_t.dim() != 3: raise RuntimeError(...)` *)
Theorem run_lpt_not_3d : forall lpt w lpp y lens, List.length (vshape lpt) <> 3%nat ->
  Interp.run ext04 bsa_body (vars0 lpt w lpp y lens)
  = Exc runtime_error (mkState (vars0 lpt w lpp y lens) []).
Proof.
  intros lpt w lpp y lens H. unfold Interp.run, bsa_body, vars0.
  step; go. step; go.
  replace (Z.of_nat (Datatypes.length (vshape lpt)) =? 3)%Z with false by lia. cbn.
  step; go. step; go. reflexivity.
Qed.
