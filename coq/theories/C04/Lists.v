(* C04 — generic list lemmas (flat indexing of uniform rows, set_nth / firstn). *)
From Coq Require Import List Arith Lia ZArith Bool.
From PV Require Import C04.Model.
Import ListNotations.
Local Open Scope nat_scope.

Lemma div_mod_unique (V k v : nat) : v < V -> (k * V + v) / V = k /\ (k * V + v) mod V = v.
Proof.
  intros Hv. split.
  - rewrite Nat.add_comm, Nat.div_add by lia. rewrite Nat.div_small by lia. lia.
  - rewrite Nat.add_comm, Nat.mod_add by lia. apply Nat.mod_small; lia.
Qed.

Lemma div_lt_rows (V n i : nat) : 0 < V -> i < n * V -> i / V < n.
Proof. intros HV Hi. apply Nat.div_lt_upper_bound; lia. Qed.

Lemma concat_uniform_length {A} (rows : list (list A)) (V : nat) :
  (forall r, In r rows -> length r = V) -> length (concat rows) = length rows * V.
Proof.
  induction rows as [|r rows IH]; intros H; cbn [concat length]; [reflexivity|].
  rewrite app_length, IH by (intros; apply H; now right).
  rewrite (H r) by now left. lia.
Qed.

(* (k, v) |-> k*V + v on a list of rows of width V *)
Lemma nth_concat_uniform {A} (d : A) (V : nat) : forall (rows : list (list A)) (i : nat),
  (forall r, In r rows -> length r = V) -> i < length rows * V ->
  nth i (concat rows) d = nth (i mod V) (nth (i / V) rows []) d.
Proof.
  induction rows as [|r rows IH]; intros i H Hi; [cbn in Hi; lia|].
  assert (HV : 0 < V) by (destruct V; [lia|lia]).
  assert (Hr : length r = V) by (apply H; now left).
  cbn [concat]. destruct (Nat.lt_ge_cases i V) as [Hlt|Hge].
  - rewrite app_nth1 by lia. rewrite Nat.div_small, Nat.mod_small by lia. reflexivity.
  - rewrite app_nth2 by lia. rewrite Hr.
    rewrite IH; [|intros; apply H; now right|cbn [length] in Hi; lia].
    replace i with ((i - V) + 1 * V) at 3 4 by lia.
    rewrite Nat.div_add, Nat.mod_add by lia.
    replace (( i - V) / V + 1) with (S ((i - V) / V)) by lia. reflexivity.
Qed.

Lemma nth_concat_rc {A} (d : A) (V : nat) (rows : list (list A)) (k v : nat) :
  (forall r, In r rows -> length r = V) -> k < length rows -> v < V ->
  nth (k * V + v) (concat rows) d = nth v (nth k rows []) d.
Proof.
  intros H Hk Hv. rewrite (nth_concat_uniform d V) by (auto; nia).
  destruct (div_mod_unique V k v Hv) as [-> ->]. reflexivity.
Qed.

Lemma flat_map_concat_map {A B} (f : A -> list B) (l : list A) : flat_map f l = concat (map f l).
Proof. induction l; cbn; [reflexivity|]. now rewrite IHl. Qed.

Lemma nth_map_seq {A} (f : nat -> A) (d : A) (n i : nat) : i < n -> nth i (map f (seq 0 n)) d = f i.
Proof.
  intros Hi. rewrite (nth_indep _ d (f 0)) by (rewrite map_length, seq_length; lia).
  change (f 0) with (f 0) . rewrite (map_nth f (seq 0 n) 0 i) || idtac.
  rewrite seq_nth by lia. reflexivity.
Qed.

(* flat list of N rows of width W built row by row: entry n*W + k *)
Lemma nth_flat_rows {A} (d : A) (W N : nat) (f : nat -> list A) (n k : nat) :
  (forall m, m < N -> length (f m) = W) -> n < N -> k < W ->
  nth (n * W + k) (flat_map f (seq 0 N)) d = nth k (f n) d.
Proof.
  intros Hl Hn Hk. rewrite flat_map_concat_map.
  rewrite (nth_concat_rc d W); [| |rewrite map_length, seq_length; lia|lia].
  - rewrite (nth_map_seq f [] N n Hn). reflexivity.
  - intros r Hr. apply in_map_iff in Hr. destruct Hr as (m & <- & Hm).
    apply in_seq in Hm. apply Hl. lia.
Qed.

Lemma flat_rows_length {A} (W N : nat) (f : nat -> list A) :
  (forall m, m < N -> length (f m) = W) -> length (flat_map f (seq 0 N)) = N * W.
Proof.
  intros Hl. rewrite flat_map_concat_map, (concat_uniform_length _ W).
  - now rewrite map_length, seq_length.
  - intros r Hr. apply in_map_iff in Hr. destruct Hr as (m & <- & Hm).
    apply in_seq in Hm. apply Hl. lia.
Qed.

(* ---- set_nth ----------------------------------------------------------------- *)
Lemma set_nth_length {A} (x : A) : forall l n, length (set_nth n x l) = length l.
Proof. induction l as [|y t IH]; intros [|n]; cbn; auto. Qed.

Lemma firstn_set_nth_same {A} (x : A) : forall l n, firstn n (set_nth n x l) = firstn n l.
Proof.
  induction l as [|y t IH]; intros [|n]; cbn; auto. now rewrite IH.
Qed.

Lemma firstn_set_nth_S {A} (x : A) : forall l n, n < length l ->
  firstn (S n) (set_nth n x l) = firstn n l ++ [x].
Proof.
  induction l as [|y t IH]; intros [|n] Hn; cbn in *; try lia; auto.
  rewrite <- IH by lia. reflexivity.
Qed.

Lemma firstn_app_le {A} (l l' : list A) n : n <= length l -> firstn n (l ++ l') = firstn n l.
Proof. intros H. rewrite firstn_app. replace (n - length l) with 0 by lia. cbn. apply app_nil_r. Qed.

Lemma firstn_firstn_le {A} (l l' : list A) m i :
  firstn m l = firstn m l' -> i <= m -> firstn i l = firstn i l'.
Proof.
  intros H Hi. rewrite <- (Nat.min_l i m Hi), <- !firstn_firstn, H. reflexivity.
Qed.

Lemma firstn_map_id {A} (f : A -> A) (l : list A) n :
  Forall (fun x => f x = x) (firstn n l) -> firstn n (map f l) = firstn n l.
Proof.
  revert n. induction l as [|y t IH]; intros [|n] H; cbn in *; auto.
  inversion H; subst. rewrite IH by assumption. congruence.
Qed.

Lemma nth_firstn_lt {A} (d : A) : forall l n i, i < n -> nth i (firstn n l) d = nth i l d.
Proof.
  induction l as [|y t IH]; intros [|n] [|i] H; cbn; try lia; auto. apply IH. lia.
Qed.

Lemma last_nth {A} (d : A) (l : list A) : last l d = nth (length l - 1) l d.
Proof.
  induction l as [|y t IH]; [reflexivity|]. destruct t as [|z t']; [reflexivity|].
  change (last (y :: z :: t') d) with (last (z :: t') d). rewrite IH. cbn [length].
  replace (S (S (length t')) - 1) with (S (S (length t') - 1)) by lia. reflexivity.
Qed.

Lemma removelast_snoc {A} (l : list A) x : removelast (l ++ [x]) = l.
Proof. rewrite removelast_app by discriminate. cbn. apply app_nil_r. Qed.

Lemma last_snoc {A} (l : list A) x d : last (l ++ [x]) d = x.
Proof. apply last_last. Qed.

Lemma nth_map_lt {A B} (f : A -> B) (l : list A) (d : B) (d' : A) i :
  i < length l -> nth i (map f l) d = f (nth i l d').
Proof.
  revert i. induction l as [|x l IH]; intros [|i] H; cbn in *; try lia; auto. apply IH. lia.
Qed.

Lemma repeat_nth {A} (x d : A) n i : i < n -> nth i (repeat x n) d = x.
Proof. revert i; induction n; intros [|i] H; cbn; try lia; auto. apply IHn; lia. Qed.

Lemma Forall_firstn {A} (P : A -> Prop) (l : list A) n : Forall P l -> Forall P (firstn n l).
Proof.
  intros H. apply Forall_forall. intros x Hx. eapply Forall_forall; [exact H|].
  rewrite <- (firstn_skipn n l). apply in_or_app. now left.
Qed.
