"""C18 second source tie, harness side: the translated Python text of `mean_var_norm`, `MeanVarianceNormalization.forward /
accumulate / store`, `_feat_delta_filters` and `feat_deltas` (unit C18BSrc, src/pydrobert/torch/_feats.py), interpreted
inside Coq (PV.C18.SrcRunB.src_ops_check / src_norm_check / src_deltas_check: the interfaces of Model.check_ops / check_norm /
check_deltas) on the ops / norm / deltas cases of the run, against the implementation's output - same exact-rational inputs,
same comparison and tolerances as the model terms (the terms are the model terms with the check function replaced).
Validates the translator, MiniPy's semantics, SrcRunB.ext_t / ext18b, the accumulate glue and PV.MiniTorch.OpsC18B against
CPython + torch on every run; independent of whether the tie lemmas (coq/theories/C18/TieB*.v) still compile."""
import time

from vlib import coq_eval_bools

IMPORTS_SRCB = "From PV Require Import C18.Model C18.Spec.\nFrom PV Require C18.SrcRunB.\n"
SRCB_THEOREMS = ["c18_source_accumulate_run", "c18_source_accumulate_first_run", "c18_source_accumulate_is_model_partial",
                 "c18_source_accumulate_wf", "c18_source_store_is_model", "c18_source_store_raises_none",
                 "c18_source_store_raises_few", "c18_source_store_refines_model", "c18_source_histories_partial",
                 "c18_source_ops_check_is_check_partial", "c18_source_acc_store_pooled_partial"]
# the interpreter walks every tensor through `nth`-based multi-index reads (quadratic in the number of elements):
# caps on the work of one case
MAX_NUMEL = {"ops": 260, "norm": 260, "deltas": 200}
MAX_ORDER = 6
SAMPLE = {"ops": 260, "norm": 220, "deltas": 260}

_SWAP = (("check_ops ", "SrcRunB.src_ops_check "), ("check_norm ", "SrcRunB.src_norm_check "),
         ("check_deltas ", "SrcRunB.src_deltas_check "))


def _numel(shape):
    n = 1
    for s in shape:
        n *= s
    return n


def _work(case):
    k = case["kind"]
    if k == "ops":
        return sum(_numel(o["x"]["shape"]) for o in case["ops"] if o["op"] == "acc")
    if k == "norm":
        return _numel(case["x"]["shape"])
    if k == "deltas":
        return _numel(case["x"]["shape"]) * (max(case["order"], 0) + 1)
    return None


def _eligible(c18, case, out):
    k = case.get("kind")
    if k not in MAX_NUMEL or c18.nonfinite(case, out):
        return False
    if k == "ops" and case.get("offset") and c18.ops_offset_relation(case, out):
        return False
    if k == "deltas" and case["order"] > MAX_ORDER:
        return False
    return _work(case) <= MAX_NUMEL[k]


def src_term(c18, case, out):
    t = c18.model_term(case, out)
    if not any(t.lstrip("(").startswith(a) for a, _ in _SWAP):
        return None      # "false" / "true": the outcome is not an observation the model speaks about
    for a, b in _SWAP:
        t = t.replace(a, b)
    return t


def source_tieB(chk, cases, outs):
    from vlib import CoqError
    from props import c18
    chk.extra["source_tie_B"] = {
        "unit": "C18BSrc (harness/py2coq/units/C18BSrc.json)", "coq": "PV.C18.SrcRunB / PV.C18.TieB*",
        "what": "mean_var_norm, MeanVarianceNormalization.forward / accumulate (+ glue: the in-place += on the aliased buffers) / "
                "store, _feat_delta_filters, feat_deltas; sqrt is an oracle (identity for store: std^2 is compared; torch's own "
                "std vector for mean_var_norm)",
        "theorems": SRCB_THEOREMS}
    by_kind = {}
    for i, (c, o) in enumerate(zip(cases, outs)):
        if _eligible(c18, c, o):
            by_kind.setdefault(c["kind"], []).append(i)
    idx, terms = [], []
    for k, ids in sorted(by_kind.items()):
        if len(ids) > SAMPLE[k]:      # evenly spaced over the streams
            step = len(ids) / SAMPLE[k]
            ids = [ids[int(j * step)] for j in range(SAMPLE[k])]
        for i in ids:
            t = src_term(c18, cases[i], outs[i])
            if t is not None:
                idx.append(i)
                terms.append(t)
    if not idx:
        chk.extra["source_tie_B_run"] = {"cases": 0, "disagreements": 0}
        return
    t0 = time.time()
    try:
        res = coq_eval_bools(chk.workdir, IMPORTS_SRCB, terms, shard=40, tag="srcB")
    except CoqError as e:
        chk.extra["source_tie_B_run"] = "not evaluated: " + str(e)[-400:]
        return
    bad = [idx[j] for j, ok in enumerate(res) if not ok]
    kinds = {k: sum(1 for i in idx if cases[i]["kind"] == k) for k in ("ops", "norm", "deltas")}
    ops = [cases[i] for i in idx if cases[i]["kind"] == "ops"]
    nrm = [(cases[i], outs[i]) for i in idx if cases[i]["kind"] == "norm"]
    dl = [(cases[i], outs[i]) for i in idx if cases[i]["kind"] == "deltas"]
    chk.extra["source_tie_B_run"] = {
        "cases": len(idx), "disagreements": len(bad), "wall_s": round(time.time() - t0, 1), **kinds,
        "ops.accumulates": sum(1 for c in ops for o in c["ops"] if o["op"] == "acc"),
        "ops.stores": sum(1 for c in ops for o in c["ops"] if o["op"] == "store"),
        "ops.forward_checked": sum(1 for i in idx if cases[i]["kind"] == "ops" and outs[i].get("fwd")),
        "ops.raising": sum(1 for i in idx if cases[i]["kind"] == "ops" and
                           (outs[i]["final"][0] == "err" or any(s[0] == "err" for s in outs[i]["stores"]))),
        "norm.own_mean": sum(1 for c, _ in nrm if c["mean"] is None), "norm.own_std": sum(1 for c, _ in nrm if c["std"] is None),
        "norm.raising": sum(1 for _, o in nrm if o[0] == "err"),
        "deltas.stacked": sum(1 for c, _ in dl if not c["concatenate"]), "deltas.raising": sum(1 for _, o in dl if o[0] == "err"),
        "deltas.modes": {m: sum(1 for c, _ in dl if c["mode"] == m) for m in c18.MODES},
        "deltas.max_order": max([c["order"] for c, _ in dl] + [0]),
        "max_work": max(_work(cases[i]) for i in idx)}
    chk.count("source_tie_B_cases", len(idx))
    if bad:
        i = bad[0]
        k = cases[i]["kind"]
        chk.report({"case": cases[i], "impl": outs[i],
                    "what": "the Python source of " +
                            {"ops": "MeanVarianceNormalization.accumulate / store / forward",
                             "norm": "MeanVarianceNormalization.forward / mean_var_norm",
                             "deltas": "feat_deltas / _feat_delta_filters"}[k] +
                            " as translated to MiniPy and interpreted in Coq (PV.C18.SrcRunB, torch calls = PV.MiniTorch.OpsC18B) "
                            "does not reproduce the implementation's output: translator / interpreter / ext / glue / MiniTorch no "
                            "longer describe the code",
                    "disagreeing_cases": len(bad),
                    "disagreeing_kinds": {kk: sum(1 for b in bad if cases[b]["kind"] == kk) for kk in ("ops", "norm", "deltas")},
                    "correspondence": "tie:C18:py2coq+MiniPy.Interp+MiniTorch:_feats." + k,
                    "theorems_at_stake": SRCB_THEOREMS}, no_failing_input=True)
