(* C12 — data-directory validation, repairs, statistics, sos/eos
   (src/pydrobert/torch/_datasets.py: _load_ref, _write_hyp, SpectDataSet.get_utterance_tuple,
    _info_and_validate, validate_spect_data_set;
    src/pydrobert/torch/command_line.py: get_torch_spect_data_dir_info).

   Executable model of what the code does NOW.  No proofs in this file.

   A directory is the list of the utterances the data set lists (sorted ids; discovery itself,
   find_utt_ids/_utts_in_dir, is checked by the harness against an independent oracle).  A stored
   tensor is (device, dtype, shape, integer payload where the code looks at it).  The single pass
   of _info_and_validate is [step_utt] folded over the list: it loads the three tensors (the
   reference through _load_ref, i.e. with the data set's sos/eos/tokens_only applied), validates,
   repairs in memory, writes back, and counts - in the code's order, so that the state of the
   directory when an exception escapes is the model's too. *)
From Coq Require Import List ZArith Bool.
Import ListNotations.
Local Open Scope Z_scope.

(* ---------------------------------------------------------------- tensors *)

Inductive dtype := DF16 | DF32 | DF64 | DI64 | DI32 | DI16 | DI8 | DU8 | DBool | DOther.

Definition dtype_beq (a b : dtype) : bool :=
  match a, b with
  | DF16, DF16 | DF32, DF32 | DF64, DF64 | DI64, DI64 | DI32, DI32 | DI16, DI16
  | DI8, DI8 | DU8, DU8 | DBool, DBool | DOther, DOther => true
  | _, _ => false
  end.

(* isinstance(x, (ByteTensor, CharTensor, ShortTensor, IntTensor)) *)
Definition upcastable (d : dtype) : bool :=
  match d with DI32 | DI16 | DI8 | DU8 => true | _ => false end.

Inductive exn := ValueErr | RuntimeErr | IndexErr | OtherErr.

Record feat := mkFeat { f_cuda : bool; f_dtype : dtype; f_shape : list nat }.

(* alignment payload: 1-D values, or any other number of dimensions (shape, flattened values) *)
Inductive adata := A1 (v : list Z) | AN (dims : list nat) (flat : list Z).
Record ali := mkAli { a_cuda : bool; a_dtype : dtype; a_data : adata }.

Definition row := (Z * Z * Z)%type.
Inductive rdata :=
| R1 (toks : list Z)                      (* shape (R,) *)
| R2 (rows : list row)                    (* shape (R, 3): token, start, end *)
| R2w (w : nat) (rows : list (list Z))    (* shape (R, w), w <> 3 *)
| RN (nd : nat).                          (* 0 or >= 3 dimensions *)
Record ref := mkRef { r_cuda : bool; r_dtype : dtype; r_data : rdata }.

Record utt := mkUtt { u_feat : feat; u_ali : option ali; u_ref : option ref }.
Definition dir := list utt.

(* the data set through which the directory is read *)
Record cfg := mkCfg
  { c_sos : option Z; c_eos : option Z; c_tokens_only : bool; c_suppress_alis : bool }.
Definition cfg_plain := mkCfg None None false false.

Definition is_some {A} (o : option A) : bool := match o with Some _ => true | None => false end.

(* ---------------------------------------------------------------- _load_ref *)

(* ref.new_full((w,), -1): -1 wraps to 255 in a uint8 tensor *)
Definition minus1 (dt : dtype) : Z := match dt with DU8 => 255 | _ => -1 end.

Definition sym_row (dt : dtype) (w : nat) (s : Z) : list Z :=
  match w with O => [] | S w' => s :: repeat (minus1 dt) w' end.

Definition tok_of (r : row) : Z := fst (fst r).

(* "if tokens_only and D == 2: ref = ref[..., 0]" *)
Definition drop_segments (d : rdata) : exn + rdata :=
  match d with
  | R2 rows => inr (R1 (map tok_of rows))
  | R2w O _ => inl IndexErr
  | R2w (S _) rows => inr (R1 (map (fun r => hd 0 r) rows))
  | _ => inr d
  end.

Definition add_sos (dt : dtype) (s : Z) (d : rdata) : exn + rdata :=
  match d with
  | R1 t => inr (R1 (s :: t))
  | R2 rows => inr (R2 ((s, minus1 dt, minus1 dt) :: rows))
  | R2w O _ => inl IndexErr                       (* sos_sym[0] = sos on a zero-width row *)
  | R2w w rows => inr (R2w w (sym_row dt w s :: rows))
  | RN _ => inl RuntimeErr                        (* torch.cat of a 1-D and a 0-/3-D tensor *)
  end.

Definition add_eos (dt : dtype) (s : Z) (d : rdata) : exn + rdata :=
  match d with
  | R1 t => inr (R1 (t ++ [s]))
  | R2 rows => inr (R2 (rows ++ [(s, minus1 dt, minus1 dt)]))
  | R2w O _ => inl IndexErr
  | R2w w rows => inr (R2w w (rows ++ [sym_row dt w s]))
  | RN _ => inl RuntimeErr
  end.

Definition load_rdata (c : cfg) (dt : dtype) (d : rdata) : exn + rdata :=
  match (if c_tokens_only c then drop_segments d else inr d) with
  | inl e => inl e
  | inr d1 =>
      match (match c_sos c with Some s => add_sos dt s d1 | None => inr d1 end) with
      | inl e => inl e
      | inr d2 => match c_eos c with Some s => add_eos dt s d2 | None => inr d2 end
      end
  end.

Definition load_ref (c : cfg) (r : ref) : exn + ref :=
  match load_rdata c (r_dtype r) (r_data r) with
  | inl e => inl e
  | inr d => inr (mkRef (r_cuda r) (r_dtype r) d)
  end.

(* ---------------------------------------------------------------- _write_hyp *)

(* hyp[sos_idx + 1:] with sos_idx the LAST position whose key equals sos (unchanged if none) *)
Fixpoint after_last {A} (key : A -> Z) (s : Z) (l : list A) : option (list A) :=
  match l with
  | [] => None
  | x :: t => match after_last key s t with
              | Some r => Some r
              | None => if key x =? s then Some t else None
              end
  end.

(* hyp[:eos_idx] with eos_idx the FIRST position whose key equals eos (unchanged if none) *)
Fixpoint before_first {A} (key : A -> Z) (s : Z) (l : list A) : list A :=
  match l with
  | [] => []
  | x :: t => if key x =? s then [] else x :: before_first key s t
  end.

Definition strip_hyp {A} (key : A -> Z) (sos eos : option Z) (l : list A) : list A :=
  let l1 := match sos with
            | Some s => match after_last key s l with Some r => r | None => l end
            | None => l end in
  match eos with Some s => before_first key s l1 | None => l1 end.

(* the stored hypothesis (hyp.cpu().long(), so dtype and device are fixed); 1-D or (R, 3) *)
Definition write_hyp (sos eos : option Z) (h : rdata) : rdata :=
  match h with
  | R1 t => R1 (strip_hyp (fun x => x) sos eos t)
  | R2 rows => R2 (strip_hyp tok_of sos eos rows)
  | other => other
  end.

(* ---------------------------------------------------------------- the pass *)

Record vstate := mkSt { s_nf : option nat; s_2d : option bool; s_dt : option dtype }.
Definition st0 := mkSt None None None.

(* dict with integer keys: get with default, set *)
Fixpoint aget (d : list (Z * Z)) (k : Z) (dflt : Z) : Z :=
  match d with [] => dflt | (k', v) :: t => if k' =? k then v else aget t k dflt end.
Fixpoint aset (d : list (Z * Z)) (k : Z) (v : Z) : list (Z * Z) :=
  match d with
  | [] => [(k, v)]
  | (k', v') :: t => if k' =? k then (k, v) :: t else (k', v') :: aset t k v
  end.

(* i_ntok = info_dict["total_tokens"], -1 while the key is absent (the counts are never negative) *)
Record iacc := mkAcc
  { i_frames : Z; i_nf : option nat; i_maxali : Z; i_maxref : Z; i_ntok : Z;
    i_counts : list (Z * Z); i_segs : list (Z * Z);
    i_rcounts : list (Z * Z); i_rsegs : list (Z * Z) }.
Definition acc0 := mkAcc 0 None (-1) (-1) (-1) [] [] [] [].

(* ---- features *)
Definition feat_part (validate : bool) (fx : option Z) (st : vstate) (f : feat)
  : exn + (feat * nat * nat * vstate) :=
  if validate && negb (match s_dt st with None => true | Some d => dtype_beq d (f_dtype f) end)
  then inl ValueErr
  else if validate && f_cuda f && negb (is_some fx) then inl ValueErr
  else
    let f' := if validate && f_cuda f then mkFeat false (f_dtype f) (f_shape f) else f in
    let sdt := if validate then Some (f_dtype f) else s_dt st in
    match f_shape f with
    | [T; F] =>
        match s_nf st with
        | None => inr (f', T, F, mkSt (Some F) (s_2d st) sdt)
        | Some nf =>
            if validate && negb (Nat.eqb F nf) then inl ValueErr
            else inr (f', T, F, mkSt (Some nf) (s_2d st) sdt)
        end
    | _ => inl ValueErr
    end.

(* ---- alignments: the tensor as it is in memory (and on disk) after the validate block *)
Definition ali_part (validate : bool) (fx : option Z) (T : nat) (a : ali) : exn + ali :=
  if negb validate then inr a
  else if a_cuda a && negb (is_some fx) then inl ValueErr
  else if negb (dtype_beq (a_dtype a) DI64) && negb (is_some fx && upcastable (a_dtype a))
  then inl ValueErr
  else match a_data a with
       | AN _ _ => inl ValueErr
       | A1 v =>
           let Tp := Z.of_nat (length v) in
           let Tz := Z.of_nat T in
           if Tp =? Tz then inr (mkAli false DI64 (A1 v))
           else match fx with
                | Some k => if (Tz + k >=? Tp) && (Tp >? Tz)
                            then inr (mkAli false DI64 (A1 (firstn T v)))
                            else inl ValueErr
                | None => inl ValueErr
                end
       end.

(* torch.unique_consecutive(return_counts=True) *)
Fixpoint rle (l : list Z) : list (Z * Z) :=
  match l with
  | [] => []
  | x :: t => match rle t with
              | (y, n) :: r => if x =? y then (y, n + 1) :: r else (x, 1) :: (y, n) :: r
              | [] => [(x, 1)]
              end
  end.

Fixpoint ali_info_runs (acc : iacc) (runs : list (Z * Z)) : exn + iacc :=
  match runs with
  | [] => inr acc
  | (cls, cnt) :: t =>
      if cls <? 0 then inl ValueErr
      else ali_info_runs
             (mkAcc (i_frames acc) (i_nf acc) (Z.max cls (i_maxali acc)) (i_maxref acc) (i_ntok acc)
                    (aset (i_counts acc) cls (aget (i_counts acc) cls 0 + cnt))
                    (aset (i_segs acc) cls (aget (i_segs acc) cls 0 + 1))
                    (i_rcounts acc) (i_rsegs acc)) t
  end.

Definition ali_values (a : ali) : list Z :=
  match a_data a with A1 v => v | AN _ flat => flat end.

(* ---- references *)
Definition row_part (fx : option Z) (Tz : Z) (r : row) : exn + (row * bool) :=
  let '(tok, s, e) := r in
  if (s <? 0) && (e <? 0) then inr (r, false)
  else if (s <? 0) || (e <? 0) then
    (if is_some fx then inr ((tok, -1, -1), true) else inl ValueErr)
  else if e <? s then inl ValueErr
  else if e >? Tz then
    match fx with
    | Some k => if (s <=? Tz) && (Tz >=? e - k) then inr ((tok, s, Tz), true) else inl ValueErr
    | None => inl ValueErr
    end
  else inr (r, false).

Fixpoint rows_part (fx : option Z) (Tz : Z) (rows : list row) : exn + (list row * bool) :=
  match rows with
  | [] => inr ([], false)
  | r :: rest =>
      match row_part fx Tz r with
      | inl x => inl x
      | inr (r', w1) =>
          match rows_part fx Tz rest with
          | inl x => inl x
          | inr (rest', w2) => inr (r' :: rest', w1 || w2)
          end
      end
  end.

(* the validate block for a loaded reference: (tensor in memory, write_back, state) *)
Definition ref_part (fx : option Z) (T : nat) (st : vstate) (r : ref)
  : exn + (ref * bool * vstate) :=
  if r_cuda r && negb (is_some fx) then inl ValueErr
  else if negb (dtype_beq (r_dtype r) DI64) && negb (is_some fx && upcastable (r_dtype r))
  then inl ValueErr
  else
    let wb0 := r_cuda r || negb (dtype_beq (r_dtype r) DI64) in
    match r_data r with
    | R2 rows =>
        match s_2d st with
        | Some false => inl ValueErr
        | _ => match rows_part fx (Z.of_nat T) rows with
               | inl x => inl x
               | inr (rows', wb) =>
                   inr (mkRef false DI64 (R2 rows'), wb0 || wb, mkSt (s_nf st) (Some true) (s_dt st))
               end
        end
    | R2w _ _ => inl ValueErr
    | R1 t =>
        match s_2d st with
        | Some true => inl ValueErr
        | _ => inr (mkRef false DI64 (R1 t), wb0, mkSt (s_nf st) (Some false) (s_dt st))
        end
    | RN _ => inl ValueErr
    end.

(* "for tok, start, end in ref.tolist()" after a 1-D reference got two columns of -1.
   None = the unpacking itself fails (a non-empty (R, w) tensor, w <> 3; only reachable without
   validation).  RN without validation is outside the model (reported as an error). *)
Definition ref_rows (d : rdata) : option (list row) :=
  match d with
  | R1 t => Some (map (fun tok => (tok, -1, -1)) t)
  | R2 rows => Some rows
  | R2w _ [] => Some []
  | R2w _ _ => None
  | RN _ => None
  end.

Fixpoint ref_info_rows (info : bool) (acc : iacc) (rows : list row) : exn + iacc :=
  match rows with
  | [] => inr acc
  | (tok, s, e) :: t =>
      if tok <? 0 then inl ValueErr
      else if info then
        let rc := aget (i_rcounts acc) tok 0 in
        let rc' := if (rc >=? 0) && (e >=? s) && (s >=? 0) then rc + e - s else -1 in   (* /repo 518042e *)
        ref_info_rows info
          (mkAcc (i_frames acc) (i_nf acc) (i_maxali acc) (Z.max (i_maxref acc) tok) (Z.max 0 (i_ntok acc) + 1)
                 (i_counts acc) (i_segs acc)
                 (aset (i_rcounts acc) tok rc')
                 (aset (i_rsegs acc) tok (aget (i_rsegs acc) tok 0 + 1))) t
      else ref_info_rows info acc t
  end.

(* ---- one iteration of "for idx in range(len(data_set))" *)
Definition step_utt (info validate : bool) (c : cfg) (fx : option Z)
  (st : vstate) (acc : iacc) (u : utt) : utt * (exn + (vstate * iacc)) :=
  (* feat, ali, ref = data_set.get_utterance_tuple(idx) *)
  match (match u_ref u with
         | None => inr None
         | Some r => match load_ref c r with inl e => inl e | inr lr => inr (Some lr) end
         end) with
  | inl e => (u, inl e)
  | inr lref =>
      if c_suppress_alis c then (u, inl ValueErr)       (* a 2-tuple cannot be unpacked into 3 *)
      else
        match feat_part validate fx st (u_feat u) with
        | inl e => (u, inl e)
        | inr (f', T, F, st1) =>
            let u1 := mkUtt f' (u_ali u) (u_ref u) in
            (* info_dict["num_filts"] = F; total_frames += T; and, for a stored reference,
               info_dict.setdefault("total_tokens", 0) (/repo 9974b4d).  The code does the latter at the top of
               the reference block; it is done here, in the same "if info", because nothing reads the key in
               between and the accumulators are dropped when anything raises. *)
            let acc1 := if info
                        then mkAcc (i_frames acc + Z.of_nat T) (Some F) (i_maxali acc) (i_maxref acc)
                                   (if is_some (u_ref u) then Z.max 0 (i_ntok acc) else i_ntok acc)
                                   (i_counts acc) (i_segs acc) (i_rcounts acc) (i_rsegs acc)
                        else acc in
            match (match u_ali u with
                   | None => inr (None, acc1)
                   | Some a =>
                       match ali_part validate fx T a with
                       | inl e => inl (u1, e)
                       | inr a' =>
                           if info then
                             match ali_info_runs acc1 (rle (ali_values a')) with
                             | inl e => inl (mkUtt f' (Some a') (u_ref u), e)
                             | inr acc2 => inr (Some a', acc2)
                             end
                           else inr (Some a', acc1)
                       end
                   end) with
            | inl (ud, e) => (ud, inl e)
            | inr (a', acc2) =>
                let u2 := mkUtt f' a' (u_ref u) in
                match lref with
                | None => (u2, inr (st1, acc2))
                | Some lr =>
                    match (if validate then ref_part fx T st1 lr else inr (lr, false, st1)) with
                    | inl e => (u2, inl e)
                    | inr (r', wb, st2) =>
                        (* torch.save(ref, ...): the tensor as loaded (sos/eos included) and repaired *)
                        let u3 := mkUtt f' a' (if wb then Some r' else u_ref u) in
                        match ref_rows (r_data r') with
                        | None => (u3, inl ValueErr)
                        | Some rows =>
                            match ref_info_rows info acc2 rows with
                            | inl e => (u3, inl e)
                            | inr acc3 => (u3, inr (st2, acc3))
                            end
                        end
                    end
                end
            end
        end
  end.

Fixpoint run_pass (info validate : bool) (c : cfg) (fx : option Z)
  (st : vstate) (acc : iacc) (d : dir) : dir * (exn + iacc) :=
  match d with
  | [] => ([], inr acc)
  | u :: rest =>
      match step_utt info validate c fx st acc u with
      | (u', inl e) => (u' :: rest, inl e)
      | (u', inr (st', acc')) =>
          let '(rest', r) := run_pass info validate c fx st' acc' rest in (u' :: rest', r)
      end
  end.

(* ---------------------------------------------------------------- entry points *)

Inductive fixarg := FNone | FInt (k : Z) | FBool (b : bool).

(* validate_spect_data_set: "fix = 1 if fix else None" for the deprecated booleans *)
Definition norm_fix (fa : fixarg) : option Z :=
  match fa with FNone => None | FInt k => Some k | FBool true => Some 1 | FBool false => None end.

(* result: the directory afterwards and None (returned) or the exception *)
Definition validate (c : cfg) (fa : fixarg) (d : dir) : dir * option exn :=
  let '(d', r) := run_pass false true c (norm_fix fa) st0 acc0 d in
  (d', match r with inl e => Some e | inr _ => None end).

Record report := mkReport
  { p_num_utts : Z; p_total_frames : Z; p_num_filts : option Z; p_max_ali : Z; p_max_ref : Z;
    p_total_tokens : Z; p_ali_tab : list (Z * Z); p_ref_tab : list (Z * Z) }.

Definition zrange (n : Z) : list Z := map Z.of_nat (seq 0 (Z.to_nat n)).

Definition finish (n : nat) (acc : iacc) : report :=
  mkReport (Z.of_nat n) (i_frames acc)
    (match i_nf acc with Some F => Some (Z.of_nat F) | None => None end)
    (i_maxali acc) (i_maxref acc)
    (i_ntok acc)                                          (* setdefault("total_tokens", -1) *)
    (map (fun i => (aget (i_counts acc) i 0, aget (i_segs acc) i 0)) (zrange (i_maxali acc + 1)))
    (map (fun i => (aget (i_rcounts acc) i (-1), aget (i_rsegs acc) i 0)) (zrange (i_maxref acc + 1))).

(* get-torch-spect-data-dir-info [--strict | --fix [N]]: the data set is built without sos/eos,
   suppress_alis=False, tokens_only=False; validate = "options.strict or options.fix is not None"
   (since /repo commit 0bbdd7f; before it "--fix 0" was falsy and skipped validation, finding F12) *)
Definition cli_validates (strict : bool) (fx : option Z) : bool := strict || is_some fx.

Definition cli_info (strict : bool) (fx : option Z) (d : dir) : dir * (exn + report) :=
  let '(d', r) := run_pass true (cli_validates strict fx) cfg_plain fx st0 acc0 d in
  (d', match r with inl e => inl e | inr acc => inr (finish (length d) acc) end).

(* ---------------------------------------------------------------- correspondence entry points *)

Inductive op := OpValidate (fa : fixarg) | OpCli (strict : bool) (fx : option Z).

Definition outcome := (exn + option report)%type.

Definition run_op (c : cfg) (o : op) (d : dir) : dir * outcome :=
  match o with
  | OpValidate fa =>
      let '(d', r) := validate c fa d in
      (d', match r with Some e => inl e | None => inr None end)
  | OpCli strict fx =>
      let '(d', r) := cli_info strict fx d in
      (d', match r with inl e => inl e | inr p => inr (Some p) end)
  end.

(* boolean equalities for the comparison *)
Fixpoint list_beq {A} (eq : A -> A -> bool) (a b : list A) : bool :=
  match a, b with
  | [], [] => true
  | x :: s, y :: t => eq x y && list_beq eq s t
  | _, _ => false
  end.
Definition opt_beq {A} (eq : A -> A -> bool) (a b : option A) : bool :=
  match a, b with None, None => true | Some x, Some y => eq x y | _, _ => false end.
Definition row_beq (a b : row) : bool :=
  let '(t1, s1, e1) := a in let '(t2, s2, e2) := b in (t1 =? t2) && (s1 =? s2) && (e1 =? e2).
Definition pair_beq (a b : Z * Z) : bool := (fst a =? fst b) && (snd a =? snd b).
Definition exn_beq (a b : exn) : bool :=
  match a, b with
  | ValueErr, ValueErr | RuntimeErr, RuntimeErr | IndexErr, IndexErr | OtherErr, OtherErr => true
  | _, _ => false
  end.
Definition feat_beq (a b : feat) : bool :=
  Bool.eqb (f_cuda a) (f_cuda b) && dtype_beq (f_dtype a) (f_dtype b)
  && list_beq Nat.eqb (f_shape a) (f_shape b).
Definition adata_beq (a b : adata) : bool :=
  match a, b with
  | A1 v, A1 w => list_beq Z.eqb v w
  | AN d1 v, AN d2 w => list_beq Nat.eqb d1 d2 && list_beq Z.eqb v w
  | _, _ => false
  end.
Definition ali_beq (a b : ali) : bool :=
  Bool.eqb (a_cuda a) (a_cuda b) && dtype_beq (a_dtype a) (a_dtype b) && adata_beq (a_data a) (a_data b).
Definition rdata_beq (a b : rdata) : bool :=
  match a, b with
  | R1 s, R1 t => list_beq Z.eqb s t
  | R2 s, R2 t => list_beq row_beq s t
  | R2w w1 s, R2w w2 t => Nat.eqb w1 w2 && list_beq (list_beq Z.eqb) s t
  | RN n, RN m => Nat.eqb n m
  | _, _ => false
  end.
Definition ref_beq (a b : ref) : bool :=
  Bool.eqb (r_cuda a) (r_cuda b) && dtype_beq (r_dtype a) (r_dtype b) && rdata_beq (r_data a) (r_data b).
Definition utt_beq (a b : utt) : bool :=
  feat_beq (u_feat a) (u_feat b) && opt_beq ali_beq (u_ali a) (u_ali b) && opt_beq ref_beq (u_ref a) (u_ref b).
Definition dir_beq (a b : dir) : bool := list_beq utt_beq a b.
Definition report_beq (a b : report) : bool :=
  (p_num_utts a =? p_num_utts b) && (p_total_frames a =? p_total_frames b)
  && opt_beq Z.eqb (p_num_filts a) (p_num_filts b)
  && (p_max_ali a =? p_max_ali b) && (p_max_ref a =? p_max_ref b)
  && (p_total_tokens a =? p_total_tokens b)
  && list_beq pair_beq (p_ali_tab a) (p_ali_tab b) && list_beq pair_beq (p_ref_tab a) (p_ref_tab b).
Definition outcome_beq (a b : outcome) : bool :=
  match a, b with
  | inl x, inl y => exn_beq x y
  | inr x, inr y => opt_beq report_beq x y
  | _, _ => false
  end.

(* one step of a history: the implementation went from [pre] to [post] with [out] *)
Definition check_op (c : cfg) (o : op) (pre post : dir) (out : outcome) : bool :=
  let '(d', r) := run_op c o pre in dir_beq d' post && outcome_beq r out.

(* _load_ref / _write_hyp observed through SpectDataSet.__getitem__ / write_hyp *)
Definition check_load (c : cfg) (r : ref) (out : exn + ref) : bool :=
  match load_ref c r, out with
  | inl a, inl b => exn_beq a b
  | inr a, inr b => ref_beq a b
  | _, _ => false
  end.
Definition check_write_hyp (sos eos : option Z) (h out : rdata) : bool :=
  rdata_beq (write_hyp sos eos h) out.
