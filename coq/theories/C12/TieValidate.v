(* C12 — tie (part 3: blocks of `_info_and_validate`) between the Python text of `_load_ref` / `_write_hyp` (src/pydrobert/torch/_datasets.py) and
   PV.C12.Model.load_ref / write_hyp, checked by the kernel.  PV.Gen.C12ValSrc.load_ref_body / write_hyp_body are the
   MiniPy terms harness/py2coq/translate.py regenerates from /repo on every run; PV.MiniPy.Interp is their
   semantics; the torch calls mean what PV.MiniTorch.OpsC12 says (through SrcRun.ext12).  If the source is edited
   so that the statements below stop being true, this file stops compiling and the C12 check reports the broken
   obligation. *)
From Coq Require Import ZArith QArith List String Bool Arith Lia ZifyBool.
From PV Require Import MiniPy.Syntax MiniPy.Interp MiniTorch.OpsC12 MiniTorch.LemmasC12 MiniTorch.LemmasC12V Gen.C12ValSrc.
From PV Require Import MiniPy.Lemmas C12.SrcRun C12.SrcRunV C12.TieLib C12.TieLibV.
From PV Require C12.Model.
Import ListNotations.
Local Open Scope string_scope.

#[local] Arguments enc12 : simpl never.
#[local] Arguments dec12 !v /.
#[local] Arguments T1 : simpl never.
#[local] Arguments T2 : simpl never.
#[local] Arguments NZ : simpl never.
#[local] Arguments new_full : simpl never.
#[local] Arguments cat : simpl never.
#[local] Arguments ndim : simpl never.
#[local] Arguments size : simpl never.
#[local] Arguments numel : simpl never.
#[local] Arguments select_col : simpl never.
#[local] Arguments set_item : simpl never.
#[local] Arguments get_item : simpl never.
#[local] Arguments item : simpl never.
#[local] Arguments unsqueeze : simpl never.
#[local] Arguments slice0 : simpl never.
#[local] Arguments nonzero : simpl never.
#[local] Arguments eq_scalar : simpl never.
#[local] Arguments cpu : simpl never.
#[local] Arguments long : simpl never.
#[local] Arguments then_ ext b !c st /.
#[local] Arguments exec : simpl never.
#[local] Arguments for_loop : simpl never.
#[local] Arguments q_cmp : simpl never.
#[local] Arguments inject_Z : simpl never.
#[local] Arguments firstn : simpl never.
#[local] Arguments skipn : simpl never.
#[local] Arguments cmp_eval op !a !b /.
#[local] Arguments Z.of_nat : simpl never.
#[local] Arguments torch_module : simpl never.
#[local] Arguments store : simpl never.
#[local] Arguments ext12 env f !args kw st /.
#[local] Arguments bind {A B} !o f /.
#[local] Arguments Z.add : simpl never.
#[local] Arguments Z.sub : simpl never.
#[local] Arguments ds_obj : simpl never.
#[local] Arguments isinstance12 : simpl never.
#[local] Arguments instance_of : simpl never.
#[local] Arguments feat_tens : simpl never.

Lemma t_cuda_T1 : forall cu dt l, t_cuda (T1 cu dt l) = cu. Proof. reflexivity. Qed.
Lemma t_dtype_T1 : forall cu dt l, t_dtype (T1 cu dt l) = dt. Proof. reflexivity. Qed.
Lemma t_cuda_T2 : forall cu dt w r, t_cuda (T2 cu dt w r) = cu. Proof. reflexivity. Qed.
Lemma t_dtype_T2 : forall cu dt w r, t_dtype (T2 cu dt w r) = dt. Proof. reflexivity. Qed.
Lemma t_shape_T1 : forall cu dt l, t_shape (T1 cu dt l) = [List.length l]. Proof. reflexivity. Qed.
Lemma t_shape_T2 : forall cu dt w r, t_shape (T2 cu dt w r) = [List.length r; w]. Proof. reflexivity. Qed.
Lemma leb_0_of_nat : forall n, (0 <=? Z.of_nat n)%Z = true. Proof. intros. lia. Qed.

Section Attr.
  Variable ext : string -> list val -> list (string * val) -> state -> outcome val.
  Lemma attr_ds_data_dir : forall ids st, attribute ext (ds_obj ids) "data_dir" st = Ok (VStr "d") st. Proof. reflexivity. Qed.
  Lemma attr_ds_feat : forall ids st, attribute ext (ds_obj ids) "feat_subdir" st = Ok (VStr "feat") st. Proof. reflexivity. Qed.
  Lemma attr_ds_ali : forall ids st, attribute ext (ds_obj ids) "ali_subdir" st = Ok (VStr "ali") st. Proof. reflexivity. Qed.
  Lemma attr_ds_ref : forall ids st, attribute ext (ds_obj ids) "ref_subdir" st = Ok (VStr "ref") st. Proof. reflexivity. Qed.
  Lemma attr_ds_prefix : forall ids st, attribute ext (ds_obj ids) "file_prefix" st = Ok (VStr "") st. Proof. reflexivity. Qed.
  Lemma attr_ds_suffix : forall ids st, attribute ext (ds_obj ids) "file_suffix" st = Ok (VStr ".pt") st. Proof. reflexivity. Qed.
  Lemma attr_ds_ids : forall ids st, attribute ext (ds_obj ids) "utt_ids" st = Ok (VList (map VStr ids)) st. Proof. reflexivity. Qed.
  Lemma attr_torch_Tensor : forall st, attribute ext torch_module "Tensor" st = Ok (class_token "Tensor") st. Proof. reflexivity. Qed.
  Lemma attr_torch_Long : forall st, attribute ext torch_module "LongTensor" st = Ok (class_token "LongTensor") st. Proof. reflexivity. Qed.
  Lemma attr_torch_Byte : forall st, attribute ext torch_module "ByteTensor" st = Ok (class_token "ByteTensor") st. Proof. reflexivity. Qed.
  Lemma attr_torch_Char : forall st, attribute ext torch_module "CharTensor" st = Ok (class_token "CharTensor") st. Proof. reflexivity. Qed.
  Lemma attr_torch_Short : forall st, attribute ext torch_module "ShortTensor" st = Ok (class_token "ShortTensor") st. Proof. reflexivity. Qed.
  Lemma attr_torch_Int : forall st, attribute ext torch_module "IntTensor" st = Ok (class_token "IntTensor") st. Proof. reflexivity. Qed.
  Lemma attr_torch_long : forall st, attribute ext torch_module "long" st = Ok long_token st. Proof. reflexivity. Qed.
End Attr.
#[local] Arguments class_token : simpl never.

Lemma isinstance_Tensor : forall t, isinstance12 t (class_token "Tensor") = Some true.
Proof. reflexivity. Qed.
Lemma isinstance_Long : forall t, isinstance12 t (class_token "LongTensor") = Some (negb (t_cuda t) && Model.dtype_beq (t_dtype t) Model.DI64)%bool.
Proof. reflexivity. Qed.
Lemma isinstance_small : forall t,
  isinstance12 t (VTuple [class_token "ByteTensor"; class_token "CharTensor"; class_token "ShortTensor"; class_token "IntTensor"])
  = Some (negb (t_cuda t) && Model.upcastable (t_dtype t))%bool.
Proof. intros [cu dt sh d]. destruct cu, dt; reflexivity. Qed.

Ltac tstep :=
  cbn;
  change (Z.of_nat 3) with 3%Z; change (Z.of_nat 2) with 2%Z; change (Z.of_nat 1) with 1%Z; change (Z.of_nat 0) with 0%Z;
  change (Pos.to_nat 1) with 1%nat; change (Pos.to_nat 2) with 2%nat; change (Pos.to_nat 3) with 3%nat;
  rewrite ?method_enc12, ?attribute_enc12, ?foreign_enc12, ?subscript_enc12_int, ?subscript_enc12_tuple, ?isnot_none_enc12,
    ?is_none_enc12, ?dec12_enc12, ?on1_enc, ?ndim_T1, ?ndim_T2, ?size_T2_1, ?cat0_T1, ?cat0_T2,
    ?t_cuda_T1, ?t_dtype_T1, ?t_cuda_T2, ?t_dtype_T2, ?leb_0_of_nat, ?Nat2Z.id, ?select_col_T2_w0, ?set_item_T1_nil,
    ?cpu_T1, ?cpu_T2, ?long_T1, ?long_T2, ?eq_scalar_T1, ?nonzero_T1, ?numel_NZ, ?item_T1_1,
    ?get_item_NZ_first, ?get_item_NZ_last, ?of_nat_S_eqb_0, ?store_name,
    ?attr_ds_data_dir, ?attr_ds_feat, ?attr_ds_ali, ?attr_ds_ref, ?attr_ds_prefix, ?attr_ds_suffix, ?attr_ds_ids,
    ?attr_torch_Tensor, ?attr_torch_Long, ?attr_torch_Byte, ?attr_torch_Char, ?attr_torch_Short, ?attr_torch_Int, ?attr_torch_long,
    ?isinstance_Tensor, ?isinstance_Long, ?isinstance_small.

Ltac open_seq := rewrite exec_seq'; match goal with |- context [then_ _ ?b] => let r := fresh "rest" in remember b as r end.
Ltac norm_state := try unfold set_var; cbn [update vars events String.eqb Ascii.eqb Bool.eqb].
Ltac close_stmt := norm_state; rewrite then_normal; match goal with H : ?r = _ |- context [exec _ ?r _] => subst r end.
Ltac stmt := open_seq; repeat (progress tstep).



(* the redex in evaluation position: the head of the nested binds *)
Ltac head_redex t k := lazymatch t with bind ?o _ => head_redex o k | _ => k t end.

Ltac fix_head X :=
  first
  [ lazymatch X with context [dec12 (enc12 _)] => rewrite !dec12_enc12 end
  | lazymatch X with context [method (enc12 _) _ _] => rewrite method_enc12 end
  | lazymatch X with context [on1 _ (enc12 _) _ _] => rewrite on1_enc end
  | lazymatch X with context [attribute _ (enc12 _) _ _] => rewrite attribute_enc12 end
  | lazymatch X with context [attribute _ (ds_obj _) "data_dir" _] => rewrite attr_ds_data_dir end
  | lazymatch X with context [attribute _ (ds_obj _) "feat_subdir" _] => rewrite attr_ds_feat end
  | lazymatch X with context [attribute _ (ds_obj _) "ali_subdir" _] => rewrite attr_ds_ali end
  | lazymatch X with context [attribute _ (ds_obj _) "ref_subdir" _] => rewrite attr_ds_ref end
  | lazymatch X with context [attribute _ (ds_obj _) "file_prefix" _] => rewrite attr_ds_prefix end
  | lazymatch X with context [attribute _ (ds_obj _) "file_suffix" _] => rewrite attr_ds_suffix end
  | lazymatch X with context [attribute _ (ds_obj _) "utt_ids" _] => rewrite attr_ds_ids end
  | lazymatch X with context [attribute _ torch_module "Tensor" _] => rewrite attr_torch_Tensor end
  | lazymatch X with context [attribute _ torch_module "LongTensor" _] => rewrite attr_torch_Long end
  | lazymatch X with context [attribute _ torch_module "ByteTensor" _] => rewrite attr_torch_Byte end
  | lazymatch X with context [attribute _ torch_module "CharTensor" _] => rewrite attr_torch_Char end
  | lazymatch X with context [attribute _ torch_module "ShortTensor" _] => rewrite attr_torch_Short end
  | lazymatch X with context [attribute _ torch_module "IntTensor" _] => rewrite attr_torch_Int end
  | lazymatch X with context [attribute _ torch_module "long" _] => rewrite attr_torch_long end
  | lazymatch X with context [foreign (enc12 _)] => rewrite !foreign_enc12 end
  | lazymatch X with context [subscript (enc12 _) (VInt _) _] => rewrite subscript_enc12_int end
  | lazymatch X with context [subscript (enc12 _) (VTuple _) _] => rewrite subscript_enc12_tuple end
  | lazymatch X with context [cmp_eval IsNot (enc12 _) VNone] => rewrite isnot_none_enc12 end
  | lazymatch X with context [cmp_eval Is (enc12 _) VNone] => rewrite is_none_enc12 end
  | lazymatch X with context [isinstance12 _ (class_token "Tensor")] => rewrite isinstance_Tensor end
  | lazymatch X with context [isinstance12 _ (class_token "LongTensor")] => rewrite isinstance_Long end
  | lazymatch X with context [isinstance12 _ (VTuple _)] => rewrite isinstance_small end
  | lazymatch X with context [store _ (EName _) _ _] => rewrite store_name end
  | lazymatch X with context [ndim (T1 _ _ _)] => rewrite !ndim_T1 end
  | lazymatch X with context [ndim (T2 _ _ _ _)] => rewrite !ndim_T2 end
  | lazymatch X with context [size (T2 _ _ _ _) 1] => rewrite size_T2_1 end
  | lazymatch X with context [size (T2 _ _ _ _) 0] => rewrite size_T2_0 end
  | lazymatch X with context [size (T1 _ _ _) 0] => rewrite size_T1_0 end
  | lazymatch X with context [t_shape (T1 _ _ _)] => rewrite !t_shape_T1 end
  | lazymatch X with context [t_shape (T2 _ _ _ _)] => rewrite !t_shape_T2 end
  | lazymatch X with context [t_cuda (T1 _ _ _)] => rewrite !t_cuda_T1 end
  | lazymatch X with context [t_dtype (T1 _ _ _)] => rewrite !t_dtype_T1 end
  | lazymatch X with context [t_cuda (T2 _ _ _ _)] => rewrite !t_cuda_T2 end
  | lazymatch X with context [t_dtype (T2 _ _ _ _)] => rewrite !t_dtype_T2 end
  | lazymatch X with context [cpu (T1 _ _ _)] => rewrite !cpu_T1 end
  | lazymatch X with context [cpu (T2 _ _ _ _)] => rewrite !cpu_T2 end
  | lazymatch X with context [long (T1 _ _ _)] => rewrite !long_T1 end
  | lazymatch X with context [long (T2 _ _ _ _)] => rewrite !long_T2 end
  | lazymatch X with context [q_cmp Lt (inject_Z _) (inject_Z _)] => rewrite !q_cmp_lt end
  | lazymatch X with context [q_cmp LtE (inject_Z _) (inject_Z _)] => rewrite !q_cmp_le end
  | lazymatch X with context [q_cmp Gt (inject_Z _) (inject_Z _)] => rewrite !q_cmp_gt end
  | lazymatch X with context [q_cmp GtE (inject_Z _) (inject_Z _)] => rewrite !q_cmp_ge end
  | lazymatch X with context [(Z.of_nat _ =? Z.of_nat _)%Z] => rewrite !of_nat_eqb end
  | lazymatch X with context [(0 <=? Z.of_nat _)%Z] => rewrite !leb_0_of_nat end
  | lazymatch X with context [Z.to_nat (Z.of_nat _)] => rewrite !Nat2Z.id end
  | lazymatch X with context [(Z.of_nat (S _) =? 0)%Z] => rewrite !of_nat_S_eqb_0 end ].

Ltac zconsts :=
  change (Z.of_nat 3) with 3%Z; change (Z.of_nat 2) with 2%Z; change (Z.of_nat 1) with 1%Z; change (Z.of_nat 0) with 0%Z;
  change (Pos.to_nat 1) with 1%nat; change (Pos.to_nat 2) with 2%nat; change (Pos.to_nat 3) with 3%nat.

(* one round: compute, then repair the redex in evaluation position *)
Ltac hstep := progress (cbn; zconsts; try (match goal with |- ?L = _ => head_redex L ltac:(fun X => fix_head X) end)).
Ltac hrun := repeat hstep.

Ltac name_stmt t k :=
  let x := fresh "s" in let H := fresh "Hs" in
  assert (H : {x : stmt | x = t}) by (exists t; reflexivity); destruct H as [x H]; k x H.

Ltac exec1 :=
  match goal with
  | |- context [exec ?ext (SSeq ?a ?b) ?st] =>
      name_stmt b ltac:(fun r Hr => rewrite (exec_seq_named ext a b st r Hr))
  | |- context [exec ?ext (SIf ?c ?t ?f) ?st] =>
      name_stmt t ltac:(fun bt Ht => name_stmt f ltac:(fun bf Hf => rewrite (exec_if_named ext c t f st bt bf Ht Hf)))
  | |- context [exec ?ext (SAssign ?ts ?e) ?st] => rewrite (exec_assign ext ts e st)
  | |- context [exec ?ext (SRaise ?x) ?st] => rewrite (exec_raise ext x st)
  | |- context [exec ?ext SPass ?st] => rewrite (exec_pass ext st)
  | |- context [exec ?ext (SExpr (ECall ?f ?a ?k)) ?st] => rewrite (exec_expr_call ext f a k st)
  end.
(* a folded statement in evaluation position: unfold its name *)
Ltac unfold_stmt :=
  match goal with
  | H : ?r = _ |- context [exec _ ?r _] => is_var r; subst r
  end.
(* after a test is decided: expose the chosen branch *)
Ltac pick := cbn [truthy negb andb orb]; unfold_stmt.
Ltac xs := first [exec1 | unfold_stmt; exec1]; hrun; norm_state.

(* the variable store of the glue: parameters, torch, idx, the three state variables, the slots - in this order *)
Definition mkvars (ids : list string) (fx : option Z) (idx nf r2d fdt fn t1 feat ali ref wb prefix dir_ prefix_ msg t2 T F Tp
                   idx2 r tok start end_ : val) : list (string * val) :=
  [("data_set", ds_obj ids); ("info", VBool false); ("validate", VBool true); ("fix", oz fx);
   ("torch", torch_module); ("idx", idx);
   ("num_filts", nf); ("ref_is_2d", r2d); ("feat_dtype", fdt);
   ("fn", fn); ("$t1", t1); ("feat", feat); ("ali", ali); ("ref", ref); ("write_back", wb); ("prefix", prefix);
   ("dir_", dir_); ("prefix_", prefix_); ("msg", msg); ("$t2", t2); ("T", T); ("F", F); ("Tp", Tp);
   ("idx2", idx2); ("r", r); ("tok", tok); ("start", start); ("end", end_)].


(* ---- sub-statements of the generated terms, by position ---- *)
Fixpoint seq_nth (k : nat) (s : stmt) : stmt :=
  match k, s with
  | O, SSeq a _ => a
  | O, _ => s
  | S k', SSeq _ b => seq_nth k' b
  | S _, _ => SPass
  end.
Fixpoint seq_drop (k : nat) (s : stmt) : stmt :=
  match k, s with S k', SSeq _ b => seq_drop k' b | _, _ => s end.
Definition if_then (s : stmt) : stmt := match s with SIf _ t _ => t | _ => SPass end.
Definition if_else (s : stmt) : stmt := match s with SIf _ _ f => f | _ => SPass end.
Definition for_body (s : stmt) : stmt := match s with SFor _ _ b => b | _ => SPass end.

Definition ali_vbody : stmt := Eval cbv in if_then (seq_nth 2 (if_then iv_ali)).
Definition ali_cuda : stmt := Eval cbv in seq_nth 0 ali_vbody.
Definition ali_long : stmt := Eval cbv in seq_nth 1 ali_vbody.
Definition ali_ndim : stmt := Eval cbv in seq_nth 2 ali_vbody.
Definition ali_size : stmt := Eval cbv in seq_nth 3 ali_vbody.
Definition ali_crop : stmt := Eval cbv in seq_nth 4 ali_vbody.
Definition ali_save : stmt := Eval cbv in seq_drop 5 ali_vbody.
Ltac use L :=
  match goal with |- context [exec ?e ?s ?st] =>
    let H := fresh in eassert (H : exec e s st = _) by (apply L); rewrite H; clear H end.
Ltac usex L :=
  match goal with |- context [exec ?e ?s ?st] =>
    let H := fresh in let m := fresh "m" in
    (eassert (H : exists m, exec e s st = _) by (apply L)); destruct H as [m H]; rewrite H; clear H end.
Ltac done_exc := cbn; eexists; split; reflexivity.
Ltac nxt := cbn [bind then_]; unfold_stmt; exec1.

Definition is_long (t : tens) : bool := (negb (t_cuda t) && Model.dtype_beq (t_dtype t) Model.DI64)%bool.
Definition is_small (t : tens) : bool := (negb (t_cuda t) && Model.upcastable (t_dtype t))%bool.

Lemma long_id : forall t, is_long t = true -> long t = t.
Proof. intros [cu dt sh da]. unfold is_long. cbn. destruct cu, dt; cbn; try discriminate; reflexivity. Qed.

Section Ali.
  Variables (c : Model.cfg) (d : Model.dir) (ids : list string) (fx : option Z).
  Variables (idx nf r2d fdt t1 feat ref prefix t2 F idx2 r tok start end_ : val) (fnv : string) (T : nat).
  Local Notation ext := (ext12 (env_ds c d)).
  Definition stA (dir_ prefix_ msg ali wb Tp : val) (evs : list event) : state :=
    mkState (mkvars ids fx idx nf r2d fdt (VStr fnv) t1 feat ali ref wb prefix dir_ prefix_ msg t2 (VInt (Z.of_nat T)) F Tp
                    idx2 r tok start end_) evs.

  (* -- `if isinstance(ali, torch.Tensor) and ali.device.type == "cuda":` -- *)
  Lemma ali_cuda_run : forall dir_ prefix_ msg t (wb : bool) Tp evs,
    exists msg',
    exec ext ali_cuda (stA dir_ prefix_ msg (enc12 t) (VBool wb) Tp evs)
    = if (t_cuda t && negb (Model.is_some fx))%bool
      then Exc "ValueError" (stA dir_ prefix_ msg' (enc12 t) (VBool wb) Tp evs)
      else Ok CNormal (stA dir_ prefix_ msg' (enc12 (cpu t)) (VBool (wb || t_cuda t)) Tp evs).
  Proof.
    intros. unfold ali_cuda, stA, mkvars.
    destruct t as [cu dt sh da]; cbn [t_cuda]. destruct cu; cbn [andb orb negb]; eexists.
    - xs. pick. xs. xs. xs. destruct fx as [k|]; hrun.
      + pick. xs. xs. xs. rewrite orb_true_r. reflexivity.
      + pick. xs. reflexivity.
    - xs. pick. xs. rewrite orb_false_r. reflexivity.
  Qed.

  (* -- `if not isinstance(ali, torch.LongTensor):` -- *)
  Lemma ali_long_run : forall dir_ prefix_ msg t (wb : bool) Tp evs,
    exists msg',
    exec ext ali_long (stA dir_ prefix_ msg (enc12 t) (VBool wb) Tp evs)
    = if (negb (is_long t) && negb (Model.is_some fx && is_small t))%bool
      then Exc "ValueError" (stA dir_ prefix_ msg' (enc12 t) (VBool wb) Tp evs)
      else Ok CNormal (stA dir_ prefix_ msg' (enc12 (long t)) (VBool (wb || negb (is_long t))) Tp evs).
  Proof.
    intros. unfold ali_long, stA, mkvars.
    destruct (is_long t) eqn:EL; cbn [negb andb orb]; eexists.
    - xs. unfold is_long in EL. rewrite EL. pick. xs. rewrite orb_false_r, (long_id t EL). reflexivity.
    - xs. unfold is_long in EL. rewrite EL. pick. xs. xs. xs. unfold is_small. destruct fx as [k|]; hrun.
      + destruct (negb (t_cuda t) && Model.upcastable (t_dtype t))%bool; cbn [negb andb Model.is_some].
        * pick. xs. xs. xs. rewrite orb_true_r. reflexivity.
        * pick. xs. reflexivity.
      + pick. xs. reflexivity.
  Qed.

  (* -- `if ali.ndim != 1:` -- *)
  Lemma ali_ndim_run : forall dir_ prefix_ msg t wb Tp evs,
    exec ext ali_ndim (stA dir_ prefix_ msg (enc12 t) wb Tp evs)
    = if (ndim t =? 1)%nat then Ok CNormal (stA dir_ prefix_ msg (enc12 t) wb Tp evs)
      else Exc "ValueError" (stA dir_ prefix_ msg (enc12 t) wb Tp evs).
  Proof.
    intros. unfold ali_ndim, stA, mkvars.
    xs. change 1%Z with (Z.of_nat 1). rewrite of_nat_eqb. destruct (ndim t =? 1)%nat.
    - pick. xs. reflexivity.
    - pick. xs. reflexivity.
  Qed.

  (* -- `Tp = ali.size(0)` -- *)
  Lemma ali_size_run : forall dir_ prefix_ msg cu dt v wb Tp evs,
    exec ext ali_size (stA dir_ prefix_ msg (enc12 (T1 cu dt v)) wb Tp evs)
    = Ok CNormal (stA dir_ prefix_ msg (enc12 (T1 cu dt v)) wb (VInt (Z.of_nat (List.length v))) evs).
  Proof.
    intros. unfold ali_size, stA, mkvars. xs. reflexivity.
  Qed.

  (* -- `if Tp != T:` -- *)
  Definition crop_ok (n : nat) : bool :=
    ((n =? T)%nat
     || match fx with
        | Some k => (Z.of_nat T + k >=? Z.of_nat n)%Z && (Z.of_nat n >? Z.of_nat T)%Z
        | None => false
        end)%bool.

  Lemma ali_crop_run : forall dir_ prefix_ msg cu dt v (wb : bool) evs,
    exists msg',
    exec ext ali_crop (stA dir_ prefix_ msg (enc12 (T1 cu dt v)) (VBool wb) (VInt (Z.of_nat (List.length v))) evs)
    = if crop_ok (List.length v)
      then Ok CNormal (stA dir_ prefix_ msg' (enc12 (T1 cu dt (if (List.length v =? T)%nat then v else List.firstn T v)))
                           (VBool (wb || negb (List.length v =? T)%nat)) (VInt (Z.of_nat (List.length v))) evs)
      else Exc "ValueError" (stA dir_ prefix_ msg' (enc12 (T1 cu dt v)) (VBool wb) (VInt (Z.of_nat (List.length v))) evs).
  Proof.
    intros. unfold ali_crop, stA, mkvars, crop_ok.
    destruct (List.length v =? T)%nat eqn:EL; cbn [orb negb]; eexists.
    - xs. rewrite EL. pick. xs. rewrite orb_false_r. reflexivity.
    - xs. rewrite EL. pick. xs. xs. xs. destruct fx as [k|]; hrun.
      + destruct (Z.of_nat T + k >=? Z.of_nat (List.length v))%Z; hrun; [destruct (Z.of_nat (List.length v) >? Z.of_nat T)%Z; cbn [andb]|].
        * pick. xs. xs. rewrite slice0_T1_to. hrun. norm_state. xs. rewrite orb_true_r. reflexivity.
        * pick. xs. reflexivity.
        * pick. xs. reflexivity.
      + pick. xs. reflexivity.
  Qed.

  Definition save_ev (t : tens) (dir_ : string) : event := ("torch.save", [enc12 t; VStr (dir_ ++ "/" ++ fnv)]).

  (* -- `if write_back: torch.save(ali, os.path.join(dir_, fn)); write_back = False` -- *)
  Lemma ali_save_run : forall dir_ prefix_ msg t (wb : bool) Tp evs,
    exec ext ali_save (stA (VStr dir_) prefix_ msg (enc12 t) (VBool wb) Tp evs)
    = Ok CNormal (stA (VStr dir_) prefix_ msg (enc12 t) (VBool false) Tp (if wb then evs ++ [save_ev t dir_] else evs)).
  Proof.
    intros. unfold ali_save, stA, mkvars, save_ev.
    xs. destruct wb.
    - pick. xs. xs. xs. reflexivity.
    - pick. xs. reflexivity.
  Qed.


  Definition ali_wb (a : Model.ali) : bool :=
    match Model.a_data a with
    | Model.A1 v => (Model.a_cuda a || negb (Model.dtype_beq (Model.a_dtype a) Model.DI64) || negb (List.length v =? T)%nat)%bool
    | _ => false
    end.
  Definition ali_shape_ok (a : Model.ali) : Prop :=
    match Model.a_data a with Model.AN dims _ => List.length dims <> 1%nat | _ => True end.

  Lemma ali_block_some : forall dir_ prefix_ msg a Tp evs, ali_shape_ok a ->
    match Model.ali_part true fx T a with
    | inl _ => exists st', exec ext iv_ali (stA dir_ prefix_ msg (enc12 (ali_tens a)) (VBool false) Tp evs) = Exc "ValueError" st'
                           /\ events st' = evs
    | inr a' => exists msg' Tp',
        exec ext iv_ali (stA dir_ prefix_ msg (enc12 (ali_tens a)) (VBool false) Tp evs)
        = Ok CNormal (stA (VStr "d/ali") (VStr "") msg' (enc12 (ali_tens a')) (VBool false) Tp'
                          (if ali_wb a then evs ++ [save_ev (ali_tens a') "d/ali"] else evs))
    end.
  Proof.
    intros dir_ prefix_ msg [cu dt data] Tp evs Hok. unfold ali_shape_ok in Hok. cbn [Model.a_data] in Hok.
    (* the run up to the validate body, as an equation *)
    assert (P : forall t, exec ext iv_ali (stA dir_ prefix_ msg (enc12 t) (VBool false) Tp evs)
                = bind (exec ext ali_vbody (stA (VStr "d/ali") (VStr "") msg (enc12 t) (VBool false) Tp evs))
                       (then_ ext (seq_drop 3 (if_then iv_ali)))).
    { intros t. unfold iv_ali, stA, mkvars. xs. pick. xs. xs. xs. xs. xs. xs. pick. subst. reflexivity. }
    unfold Model.ali_part, ali_wb. cbn [Model.a_cuda Model.a_dtype Model.a_data negb].
    rewrite !P. clear P. unfold ali_vbody. unfold ali_tens. cbn [Model.a_cuda Model.a_dtype Model.a_data].
    destruct data as [v|dims flat].
    - (* 1-D *)
      xs. usex ali_cuda_run. rewrite ?t_cuda_T1, ?cpu_T1.
      destruct (cu && negb (Model.is_some fx))%bool eqn:E1; [done_exc|].
      cbn [bind then_]. unfold_stmt. exec1. usex ali_long_run. unfold is_long, is_small. rewrite ?t_cuda_T1, ?t_dtype_T1, ?long_T1. cbn [negb andb].
      destruct (negb (Model.dtype_beq dt Model.DI64) && negb (Model.is_some fx && Model.upcastable dt))%bool eqn:E2; [done_exc|].
      cbn [bind then_]. unfold_stmt. exec1. use ali_ndim_run. rewrite ndim_T1. cbn [Nat.eqb].
      cbn [bind then_]. unfold_stmt. exec1. use ali_size_run.
      cbn [bind then_]. unfold_stmt. exec1. usex ali_crop_run. unfold crop_ok. rewrite of_nat_eqb.
      assert (Fin : forall m' t' (wb : bool) Tp' evs',
                exists msg'' Tp'',
                bind (bind (Ok CNormal (stA (VStr "d/ali") (VStr "") m' (enc12 t') (VBool wb) Tp' evs')) (then_ ext s))
                     (then_ ext (seq_drop 3 (if_then iv_ali)))
                = Ok CNormal (stA (VStr "d/ali") (VStr "") msg'' (enc12 t') (VBool false) Tp''
                                  (if wb then evs' ++ [save_ev t' "d/ali"] else evs'))).
      { intros. cbn [bind then_]. unfold_stmt. use ali_save_run. cbn [bind then_ seq_drop if_then iv_ali].
        unfold stA, mkvars. xs. pick. xs. do 2 eexists. reflexivity. }
      destruct (List.length v =? T)%nat eqn:EL; cbn [orb negb].
      + rewrite !orb_false_r. cbn [orb]. apply Fin.
      + destruct fx as [k|]; [destruct ((Z.of_nat T + k >=? Z.of_nat (List.length v))%Z && (Z.of_nat (List.length v) >? Z.of_nat T)%Z)%bool|].
        * rewrite !orb_true_r. cbn [orb]. apply Fin.
        * done_exc.
        * done_exc.
    - (* not 1-D *)
      xs. usex ali_cuda_run. cbn [t_cuda].
      destruct (cu && negb (Model.is_some fx))%bool eqn:E1; [done_exc|].
      cbn [bind then_]. unfold_stmt. exec1. usex ali_long_run. unfold is_long, is_small, cpu. cbn [t_cuda t_dtype negb andb].
      destruct (negb (Model.dtype_beq dt Model.DI64) && negb (Model.is_some fx && Model.upcastable dt))%bool eqn:E2; [done_exc|].
      cbn [bind then_]. unfold_stmt. exec1. use ali_ndim_run. unfold ndim, long. cbn [t_shape].
      destruct (Nat.eqb_spec (List.length dims) 1); [contradiction|]. done_exc.
  Qed.

  Lemma ali_block_none : forall dir_ prefix_ msg wb Tp evs,
    exec ext iv_ali (stA dir_ prefix_ msg VNone wb Tp evs) = Ok CNormal (stA dir_ prefix_ msg VNone wb Tp evs).
  Proof. intros. unfold iv_ali, stA, mkvars. xs. pick. xs. reflexivity. Qed.
End Ali.
