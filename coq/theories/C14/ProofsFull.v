(* C14 - the full loaders: index batches -> items -> collated batches; the LangDataLoader defect *)
From Coq Require Import List Arith Bool ZArith Lia Sorting.Sorted Sorting.Permutation.
From PV Require Import C14.Model C14.Spec C14.ProofsSampler C14.ProofsSpec C14.ProofsParams
  C14.ProofsLoader C14.ProofsCollate.
Import ListNotations.

(* without drop_last the batches of an epoch are a rearrangement of the epoch's indices *)
Theorem loader_batches_perm : forall lens p order out, 1 <= p_bs p -> p_drop p = false ->
  loader_batches lens p order = Ok out -> Permutation (concat out) order.
Proof.
  intros lens p order out Hbs Hdrop H. unfold loader_batches in H.
  destruct (loader_init lens p) as [[[i2b b2s]|]|e] eqn:Hinit; try discriminate.
  - destruct (bucket_iter _ _ _ _) as [o|] eqn:E; [|discriminate]. inversion H; subst.
    apply (Permutation_count_occ Nat.eq_dec). intros x. rewrite Hdrop in E.
    apply (spec_every_index_once (tbl i2b) (tbl b2s)). now apply bucket_iter_spec.
  - inversion H; subst. rewrite Hdrop. rewrite batch_sampler_lossless by lia. reflexivity.
Qed.

(* with drop_last nothing is invented or duplicated *)
Theorem loader_batches_sub : forall lens p order out x, 1 <= p_bs p ->
  loader_batches lens p order = Ok out ->
  count_occ Nat.eq_dec (concat out) x <= count_occ Nat.eq_dec order x.
Proof.
  intros lens p order out x Hbs H. unfold loader_batches in H.
  destruct (loader_init lens p) as [[[i2b b2s]|]|e] eqn:Hinit; try discriminate.
  - destruct (bucket_iter _ _ _ _) as [o|] eqn:E; [|discriminate]. inversion H; subst.
    destruct (spec_every_index_once_or_dropped (tbl i2b) (tbl b2s) _ _ _ (bucket_iter_spec _ _ _ _ _ E) x)
      as (rest & Hc & _). lia.
  - inversion H; subst.
    destruct (batch_sampler_spec (p_bs p) (p_drop p) order ltac:(lia)) as (f & r & Hl & _ & _ & ->).
    rewrite Hl at 1. rewrite concat_app, !count_occ_app.
    destruct (p_drop p); cbn [concat]; [cbn; lia|]. destruct r; cbn [concat]; [cbn; lia|]. rewrite app_nil_r. lia.
Qed.

Lemma b_ids_collate : forall bf sort F W sq,
  Permutation (b_ids (spect_collate bf sort F W sq)) (map u_id sq).
Proof.
  intros. unfold spect_collate. cbn [b_ids]. apply Permutation_map.
  destruct sort; [apply sort_desc_perm|reflexivity].
Qed.

Lemma concat_map_perm : forall {A B} (f : A -> list B) (g : A -> list B) l,
  (forall x, In x l -> Permutation (f x) (g x)) -> Permutation (concat (map f l)) (concat (map g l)).
Proof.
  induction l as [|x t IH]; intros H; [reflexivity|]. cbn [map concat].
  apply Permutation_app; [apply H; now left|apply IH; intros y Hy; apply H; now right].
Qed.

(* "Batching loses nothing": over an epoch of a SpectDataLoader without drop_last, the utterance
   ids delivered in the collated batches are exactly those of the utterances the epoch sampler
   produced, each once *)
Theorem spect_loader_delivers_all : forall ds p bf sort F W order out, 1 <= p_bs p -> p_drop p = false ->
  spect_loader ds p bf sort F W order = Ok out ->
  Permutation (concat (map b_ids out)) (map (fun i => u_id (nth i ds dflt_utt)) order).
Proof.
  intros ds p bf sort F W order out Hbs Hdrop H. unfold spect_loader in H.
  destruct (loader_batches _ p order) as [bs|e] eqn:E; [|discriminate]. inversion H; subst. clear H.
  rewrite map_map.
  transitivity (concat (map (fun b => map (fun i => u_id (nth i ds dflt_utt)) b) bs)).
  - apply concat_map_perm. intros b _. rewrite b_ids_collate. now rewrite map_map.
  - rewrite <- concat_map. apply Permutation_map. eapply loader_batches_perm; eauto.
Qed.

(* every delivered batch is the lossless collation of the items of one index batch *)
Theorem spect_loader_batches : forall ds p bf sort F W order out,
  spect_loader ds p bf sort F W order = Ok out ->
  exists bs, loader_batches (map (fun u => length (u_feat u)) ds) p order = Ok bs /\
             out = map (fun b => spect_collate bf sort F W (map (fun i => nth i ds dflt_utt) b)) bs.
Proof.
  intros ds p bf sort F W order out H. unfold spect_loader in H.
  destruct (loader_batches _ p order) as [bs|e]; [|discriminate]. inversion H. eexists; split; reflexivity.
Qed.

(* ------------------------------------------------------------------------------------ *)
(* LangDataLoader                                                                       *)
(* ------------------------------------------------------------------------------------ *)

(* the LangDataLoader buckets by reference length, with or without utterance ids: every loader
   theorem applies to it with lens = the reference lengths *)
Theorem lang_loader_by_ref_length : forall ds p order,
  lang_loader_batches ds p order = loader_batches (map (fun x => length (fst x)) ds) p order.
Proof. reflexivity. Qed.

Theorem lang_loader_no_mixing : forall (ds : list (list row * nat)) p order out lb b x y,
  1 < p_nb p -> length_bounds (map (fun r => length (fst r)) ds) (p_nb p) = Ok lb ->
  lang_loader_batches ds p order = Ok out -> In b out -> In x b -> In y b ->
  same_class lb (length (fst (nth x ds ([], 0)))) (length (fst (nth y ds ([], 0)))).
Proof.
  intros ds p order out lb b x y Hnb Hlb H Hb Hx Hy.
  pose proof (loader_no_mixing _ _ _ _ _ _ _ _ Hnb Hlb H Hb Hx Hy) as Hs.
  pose proof (map_nth (fun r : list row * nat => length (fst r)) ds ([], 0) x) as Ex.
  pose proof (map_nth (fun r : list row * nat => length (fst r)) ds ([], 0) y) as Ey.
  cbn [fst length] in Ex, Ey. now rewrite Ex, Ey in Hs.
Qed.
