(* C04, second tie, part 2 (what is finished of it): the tensor programs of TieRunB.v on the tensors that encode the
   model's beams.  Proved here: `_to_width` on a beam that already has [width] slots per element (the case of every call
   made from the loop, Refine.to_width_id) returns its arguments = the encoding of Model.to_width's result; the whole
   interpreted forward() on a concrete instance.  NOT proved (see notes/C04_tie_report.md, "Second tie"): that
   [TieIterB.iter_tensor] on the encoding of a model state equals the encoding of Model.step (the algebra of the masks,
   the eos re-allocation, the length decrement, the state re-ordering and the freeze over tabulated tensors). *)
From Coq Require Import ZArith QArith List String Bool Arith Lia.
From PV Require Import MiniPy.Syntax MiniPy.Interp MiniTorch.Ops MiniTorch.Value MiniTorch.OpsC04 MiniTorch.OpsC04B
  Gen.C04Src Gen.C04BSrc.
From PV Require Import C04.Model C04.Proofs C04.SrcRun C04.SrcRunB C04.TieRunB C04.TieIterB.
Import ListNotations.
Local Open Scope string_scope.
Local Open Scope nat_scope.

Lemma tw_tensor_id : forall w y lpp lens S N, vshape y = [S; N; w] ->
  tw_tensor (Z.of_nat w) y lpp lens = TOk (y, lpp, lens).
Proof. intros w y lpp lens S N H. unfold tw_tensor. rewrite H, !Z.ltb_irrefl. reflexivity. Qed.

Lemma to_width_full : forall topk width S slots, List.length slots = width -> to_width topk width S slots = slots.
Proof. intros topk width S slots H. unfold to_width. rewrite H, Nat.ltb_irrefl. reflexivity. Qed.

Lemma map_to_width_full : forall topk width S beams, Forall (fun row => List.length row = width) beams ->
  map (to_width topk width S) beams = beams.
Proof.
  intros topk width S beams H. induction H as [|row beams Hr _ IH]; [reflexivity|].
  cbn [map]. now rewrite to_width_full, IH.
Qed.

(* the arguments of self._to_width(y_prev, log_probs_prev, y_prev_lens) for N beams of [pw] slots of height S *)
Definition tw_vars (V width : nat) (eos : option Z) (fin_all : bool) (pad : Z) (S pw : nat) (beams : list (list slot))
  : list (string * val) :=
  let N := List.length beams in
  [("self", self_val V width eos fin_all pad); ("y_prev", encv (enc_y S N pw beams));
   ("log_probs_prev", encv (enc_lpp N pw beams)); ("y_prev_lens", encv (enc_lens N pw beams))].

Definition enc_beams (S pw : nat) (beams : list (list slot)) : val :=
  let N := List.length beams in
  VTuple [encv (enc_y S N pw beams); encv (enc_lpp N pw beams); encv (enc_lens N pw beams)].

(* BeamSearch._to_width, interpreted, on beams that are [width] wide: the encoding of Model.to_width's beams *)
Theorem to_width_tie_full : forall V width eos fin_all pad S beams,
  Forall (fun row => List.length row = width) beams ->
  exists st, Interp.run ext04 tw_body (tw_vars V width eos fin_all pad S width beams)
             = Interp.Ok (enc_beams S width (map (to_width topk_stable width S) beams)) st.
Proof.
  intros V width eos fin_all pad S beams H. rewrite map_to_width_full by exact H.
  pose proof (run_is_tw V width eos fin_all pad (enc_y S (List.length beams) width beams)
                (enc_lpp (List.length beams) width beams) (enc_lens (List.length beams) width beams)
                S (List.length beams) width eq_refl) as Hs.
  rewrite (tw_tensor_id width (enc_y S (List.length beams) width beams) _ _ S (List.length beams) eq_refl) in Hs.
  unfold tw_vars. destruct (Interp.run ext04 tw_body _) as [v st|n st|m]; cbn in Hs; try contradiction.
  exists st. unfold is3 in Hs. cbn [fst snd] in Hs. now rewrite Hs.
Qed.

(* the epilogue of forward() with batch_size given, on width-wide beams (the state after any iteration of the loop):
   returns (y, y_lens, log_probs) = the tensors that encode Model.search's beams [map (to_width ...) beams] *)
Theorem final_tie_full : forall calc isv miv is0 V width eos fin_all pad ev S beams prev pady rest pw0 z,
  Forall (fun row => List.length row = width) beams ->
  let N := List.length beams in
  let beams' := map (to_width topk_stable width S) beams in
  exists st',
    exec (extB calc) fw_final
      (mkState (live isv (VInt z) miv is0 V width eos fin_all pad N pw0 (enc_y S N width beams) prev (enc_lpp N width beams)
                  (enc_lens N width beams) pady rest) ev)
    = Ok (CReturn (VTuple [encv (enc_y S N width beams'); encv (enc_lens N width beams'); encv (enc_lpp N width beams')])) st'.
Proof.
  intros calc isv miv is0 V width eos fin_all pad ev S beams prev pady rest pw0 z H N beams'.
  unfold beams'. rewrite map_to_width_full by exact H.
  pose proof (final_run calc isv (VInt z) miv is0 V width eos fin_all pad N ev true pw0 (enc_y S N width beams) prev
                (enc_lpp N width beams) (enc_lens N width beams) pady rest S N width z eq_refl eq_refl) as Hs.
  unfold final_tensor in Hs. rewrite (tw_tensor_id width (enc_y S N width beams) _ _ S N eq_refl) in Hs. cbn [tt fst snd] in Hs.
  destruct (exec (extB calc) fw_final _) as [[|v] st'|n st'|m]; cbn [as_normal simc] in Hs; try contradiction.
  unfold returns in Hs. cbn [vars set_var] in Hs. rewrite lookup_update_eq in Hs. injection Hs as ->. now exists st'.
Qed.

(* non-vacuity of the whole second tie: the interpreted forward() (prologue block, hand-written loop over the translated
   blocks, epilogue block) on the stateful LM of c04_nonvacuous - two batch elements finishing at different steps, width 2,
   eos = 1, finish_all_paths, 3 steps - returns exactly the model's search *)
Lemma ex_search_src :
  src_search ex_lm 2 2 (Some 1%Z) true (-100)%Z 3 false true [0%Z; 1%Z]
  = Some (search topk_stable ex_lm 0%Z 2 2 (Some 1%Z) true (-100)%Z 3 [0%Z; 1%Z]).
Proof. vm_compute. reflexivity. Qed.
