(* MiniTorch, unit C12ValSrc — more algebra of OpsC12 on canonical tensors, for the blocks of `_info_and_validate`
   (no new definitions of semantics; no axioms). *)
From Coq Require Import List ZArith Bool Arith Lia String ZifyBool.
From PV Require Import C12.Model MiniTorch.OpsC12 MiniTorch.LemmasC12.
Import ListNotations.
Local Open Scope list_scope.

(* a row (tok, start, end) of a long tensor *)
Lemma get_item_row_1 : forall cu dt a b c, get_item (T1 cu dt [a; b; c]) 1 = Val (inl b). Proof. reflexivity. Qed.
Lemma get_item_row_2 : forall cu dt a b c, get_item (T1 cu dt [a; b; c]) 2 = Val (inl c). Proof. reflexivity. Qed.
Lemma fill_slice_row : forall cu a b c, fill_slice (T1 cu DI64 [a; b; c]) (Some 1%Z) None (-1) = Some (T1 cu DI64 [a; (-1)%Z; (-1)%Z]).
Proof. reflexivity. Qed.
Lemma set_item_row_2 : forall cu a b c v, set_item (T1 cu DI64 [a; b; c]) 2 v = Val (T1 cu DI64 [a; b; v]).
Proof. reflexivity. Qed.

Lemma set_nth_length : forall {A} (l : list A) i v, List.length (set_nth l i v) = List.length l.
Proof. induction l as [|x l IH]; intros [|i] v; cbn; try reflexivity. now rewrite IH. Qed.

Lemma set_nth_Forall : forall (w : nat) (rows : list (list Z)) i r,
  Forall (fun x => List.length x = w) rows -> List.length r = w -> Forall (fun x => List.length x = w) (set_nth rows i r).
Proof.
  intros w rows i r H Hr. revert i. induction H as [|x rows Hx H IH]; intros [|i]; cbn; constructor; auto.
Qed.

Lemma set_row_T2 : forall cu dt w rows i r,
  Forall (fun x => List.length x = w) rows -> List.length r = w -> (i < List.length rows)%nat ->
  set_row (T2 cu dt w rows) (Z.of_nat i) (T1 cu dt r) = Some (T2 cu dt w (set_nth rows i r)).
Proof.
  intros cu dt w rows i r HF Hr Hi. unfold set_row, T2, T1. cbn [t_shape t_data t_cuda t_dtype].
  rewrite Nat2Z.id, (chunks_concat w rows HF), Hr, Nat.eqb_refl, dtype_beq_refl, eqb_reflx.
  replace (0 <=? Z.of_nat i)%Z with true by lia. replace (i <? List.length rows)%nat with true by lia.
  cbn [andb]. now rewrite set_nth_length.
Qed.

Lemma rows_of_T2 : forall cu dt w rows, Forall (fun x => List.length x = w) rows ->
  rows_of (T2 cu dt w rows) = Some (map (T1 cu dt) rows).
Proof.
  intros cu dt w rows HF. unfold rows_of, T2. cbn [t_shape t_data t_cuda t_dtype]. rewrite (chunks_concat w rows HF).
  f_equal. induction HF as [|x rows Hx _ IH]; [reflexivity|]. cbn [map]. rewrite IH. unfold T1. now rewrite Hx.
Qed.

Lemma tolist2_T2 : forall cu dt w rows, Forall (fun x => List.length x = w) rows -> tolist2 (T2 cu dt w rows) = Some rows.
Proof. intros cu dt w rows HF. unfold tolist2, T2. cbn [t_shape t_data]. now rewrite (chunks_concat w rows HF). Qed.

(* a 1-D long reference made (R, 3): ref.unsqueeze(1), then torch.cat([ref, torch.full((R, 2), -1, dtype=torch.long)], 1) *)
Lemma chunks_repeat : forall (n k : nat) (x : Z), chunks n k (repeat x (n * k)) = repeat (repeat x k) n.
Proof.
  induction n as [|n IH]; intros k x; [reflexivity|]. cbn [chunks Nat.mul repeat].
  rewrite repeat_app, firstn_app, repeat_length, Nat.sub_diag, firstn_all2 by (rewrite repeat_length; lia).
  cbn [firstn]. rewrite app_nil_r. rewrite skipn_app, repeat_length, Nat.sub_diag, skipn_all2 by (rewrite repeat_length; lia).
  cbn [skipn app]. now rewrite IH.
Qed.

Lemma cat1_minus_ones : forall (l : list Z),
  cat (T2 false DI64 1 (map (fun x => [x]) l)) (mkT false DI64 [List.length l; 2%nat] (repeat (-1)%Z (numel_of [List.length l; 2%nat]))) 1
  = Val (T2 false DI64 3 (map (fun x => [x; (-1)%Z; (-1)%Z]) l)).
Proof.
  intros l. unfold cat, T2. cbn [t_shape t_data t_cuda t_dtype dtype_beq Bool.eqb andb negb Z.eqb].
  rewrite !map_length, Nat.eqb_refl. cbn [Pos.eqb].
  rewrite concat_singletons, chunks_1.
  replace (numel_of [List.length l; 2%nat]) with (List.length l * 2)%nat by (cbn; lia).
  rewrite chunks_repeat.
  assert (E : List.concat (map (fun p : list Z * list Z => fst p ++ snd p)
                (combine (map (fun x : Z => [x]) l) (repeat (repeat (-1)%Z 2) (List.length l))))
              = List.concat (map (fun x : Z => [x; (-1)%Z; (-1)%Z]) l)).
  { induction l as [|x l IH]; [reflexivity|]. cbn in *. do 3 f_equal. exact IH. }
  now rewrite E.
Qed.
