(* placeholder while the correspondence is being built *)
From Coq Require Import List ZArith.
From PV Require Import C04.Model C04.Spec.
Theorem c04_placeholder : sadd None None = None.
Proof. exact eq_refl. Qed.
Print Assumptions c04_placeholder.
