(* C12 — lemmas, part 4: the report of get-torch-spect-data-dir-info is the recount. *)
From Coq Require Import List ZArith Bool Lia.
From Coq Require Import ZifyBool ZifyNat.
From PV Require Import C12.Model C12.Spec C12.Proofs C12.Proofs2 C12.Proofs3.
Import ListNotations.
Local Open Scope Z_scope.

(* ---------------------------------------------------------------- dictionaries *)

Lemma aget_aset d k v k' dflt :
  aget (aset d k v) k' dflt = if k =? k' then v else aget d k' dflt.
Proof.
  induction d as [|[k0 v0] t IH]; cbn [aset aget].
  - reflexivity.
  - destruct (Z.eqb_spec k0 k) as [->|Hne]; cbn [aget].
    + destruct (Z.eqb_spec k k'); reflexivity.
    + rewrite IH. destruct (Z.eqb_spec k0 k'), (Z.eqb_spec k k'); try reflexivity. lia.
Qed.

(* ---------------------------------------------------------------- sums, maxima, run lengths *)

Lemma zsum_app a b : zsum (a ++ b) = zsum a + zsum b.
Proof. induction a; cbn; lia. Qed.

Lemma zcount_app i a b : zcount i (a ++ b) = zcount i a + zcount i b.
Proof. unfold zcount. rewrite map_app, zsum_app. reflexivity. Qed.

Lemma zmax_list_max a m l : zmax_list (Z.max a m) l = Z.max a (zmax_list m l).
Proof. unfold zmax_list. induction l; cbn; lia. Qed.

Lemma zmax_list_app m a b : zmax_list m (a ++ b) = zmax_list (zmax_list m b) a.
Proof. unfold zmax_list. apply fold_right_app. Qed.

Lemma zmax_list_swap m a b : zmax_list (zmax_list m a) b = zmax_list (zmax_list m b) a.
Proof.
  induction a as [|x a IH]; [reflexivity|].
  change (zmax_list m (x :: a)) with (Z.max x (zmax_list m a)).
  rewrite zmax_list_max, IH. reflexivity.
Qed.

Lemma rle_head x t : exists n r, rle (x :: t) = (x, n) :: r.
Proof.
  revert x. induction t as [|y t IH]; intro x; cbn [rle]; [eauto|].
  destruct (IH y) as (n & r & E). cbn [rle] in E. rewrite E.
  destruct (Z.eqb_spec x y) as [->|]; eauto.
Qed.

Lemma rle_cons2 x y t : exists n r, rle (y :: t) = (y, n) :: r /\
  rle (x :: y :: t) = if x =? y then (y, n + 1) :: r else (x, 1) :: (y, n) :: r.
Proof.
  destruct (rle_head y t) as (n & r & E). exists n, r. split; [assumption|].
  change (rle (x :: y :: t)) with
    (match rle (y :: t) with (y0, n0) :: r0 => if x =? y0 then (y0, n0 + 1) :: r0 else (x, 1) :: (y0, n0) :: r0
                        | [] => [(x, 1)] end).
  rewrite E. reflexivity.
Qed.

Lemma zmax_rle m l : zmax_list m (map fst (rle l)) = zmax_list m l.
Proof.
  induction l as [|x [|y t] IH]; [reflexivity|reflexivity|].
  destruct (rle_cons2 x y t) as (n & r & E1 & E2). rewrite E2. rewrite E1 in IH.
  unfold zmax_list in *. cbn [map fst fold_right] in *.
  destruct (Z.eqb_spec x y); cbn [map fst fold_right]; lia.
Qed.

Lemma count_rle i l :
  zsum (map (fun r : Z * Z => if fst r =? i then snd r else 0) (rle l)) = zcount i l.
Proof.
  unfold zcount. induction l as [|x [|y t] IH]; [reflexivity|cbn; lia|].
  destruct (rle_cons2 x y t) as (n & r & E1 & E2). rewrite E2. rewrite E1 in IH.
  cbn [map zsum fst snd] in *.
  destruct (Z.eqb_spec x y); cbn [map zsum fst snd]; destruct (Z.eqb_spec x i), (Z.eqb_spec y i); lia.
Qed.

Definition nruns (i : Z) (l : list Z) : Z :=
  zsum (map (fun r : Z * Z => if fst r =? i then 1 else 0) (rle l)).

Lemma starts_rle i l : forall p,
  nstarts i p l
  = nruns i l - match l, p with
                | y :: _, Some q => if (q =? i) && (y =? i) then 1 else 0
                | _, _ => 0 end.
Proof.
  unfold nruns. induction l as [|x [|y t] IH]; intro p.
  - cbn. lia.
  - cbn. destruct p as [q|]; destruct (Z.eqb_spec x i); try destruct (Z.eqb_spec q i); cbn; lia.
  - change (nstarts i p (x :: y :: t))
      with ((if (x =? i) && negb (match p with Some q => q =? i | None => false end) then 1 else 0)
            + nstarts i (Some x) (y :: t)).
    rewrite IH. destruct (rle_cons2 x y t) as (n & r & E1 & E2). rewrite E2, E1.
    cbn [map zsum fst].
    destruct (Z.eqb_spec x y); cbn [map zsum fst];
      destruct (Z.eqb_spec x i), (Z.eqb_spec y i); destruct p as [q|]; try destruct (Z.eqb_spec q i);
      cbn [andb negb]; lia.
Qed.

Lemma nruns_starts i l : nruns i l = nstarts i None l.
Proof. rewrite starts_rle. destruct l; lia. Qed.

(* ---------------------------------------------------------------- the fields do not interfere *)

Definition Aeq (a b : iacc) : Prop :=
  i_maxali a = i_maxali b /\ i_counts a = i_counts b /\ i_segs a = i_segs b.
Definition Req (a b : iacc) : Prop :=
  i_maxref a = i_maxref b /\ i_rcounts a = i_rcounts b /\ i_rsegs a = i_rsegs b.

Lemma Aeq_ali_upd a b r : Aeq a b -> Aeq (ali_upd a r) (ali_upd b r).
Proof. destruct r. intros (H1 & H2 & H3). unfold Aeq, ali_upd. cbn. rewrite H1, H2, H3. repeat split. Qed.
Lemma Req_ref_upd a b r : Req a b -> Req (ref_upd a r) (ref_upd b r).
Proof. destruct r as [[tok s] e]. intros (H1 & H3 & H4). unfold Req, ref_upd. cbn. rewrite H1, H3, H4. repeat split. Qed.
Lemma Aeq_ref_upd a r : Aeq (ref_upd a r) a.
Proof. destruct r as [[tok s] e]. repeat split. Qed.
Lemma Req_ali_upd a r : Req (ali_upd a r) a.
Proof. destruct r. repeat split. Qed.

Lemma Aeq_fold_ali runs : forall a b, Aeq a b -> Aeq (fold_left ali_upd runs a) (fold_left ali_upd runs b).
Proof. induction runs; intros; cbn; [assumption|]. apply IHruns, Aeq_ali_upd. assumption. Qed.
Lemma Req_fold_ref rows : forall a b, Req a b -> Req (fold_left ref_upd rows a) (fold_left ref_upd rows b).
Proof. induction rows; intros; cbn; [assumption|]. apply IHrows, Req_ref_upd. assumption. Qed.
Lemma Aeq_fold_ref rows : forall a, Aeq (fold_left ref_upd rows a) a.
Proof.
  induction rows as [|r t IH]; intro a; cbn; [repeat split|].
  destruct (IH (ref_upd a r)) as (H1 & H2 & H3). destruct (Aeq_ref_upd a r) as (G1 & G2 & G3).
  repeat split; congruence.
Qed.
Lemma Req_fold_ali runs : forall a, Req (fold_left ali_upd runs a) a.
Proof.
  induction runs as [|r t IH]; intro a; cbn; [repeat split|].
  destruct (IH (ali_upd a r)) as (H1 & H2 & H3). destruct (Req_ali_upd a r) as (G1 & G2 & G3).
  repeat split; congruence.
Qed.

Definition vals_of (u : utt) : list Z := match u_ali u with Some a => ali_values a | None => [] end.
Definition rows_of (u : utt) : list row := match u_ref u with Some r => ref_rows_of r | None => [] end.

Definition feat_acc (acc : iacc) (u : utt) : iacc :=
  mkAcc (i_frames acc + Z.of_nat (frames (u_feat u))) (Some (nth 1 (f_shape (u_feat u)) 0%nat))
        (i_maxali acc) (i_maxref acc)
        (if is_some (u_ref u) then Z.max 0 (i_ntok acc) else i_ntok acc)
        (i_counts acc) (i_segs acc) (i_rcounts acc) (i_rsegs acc).

Lemma info_upd_form acc u :
  info_upd acc u = fold_left ref_upd (rows_of u) (fold_left ali_upd (rle (vals_of u)) (feat_acc acc u)).
Proof.
  unfold info_upd, vals_of, rows_of, ref_rows_of, feat_acc.
  destruct (u_ali u) as [a|]; destruct (u_ref u) as [r|]; cbn [rle fold_left]; try reflexivity;
    destruct (r_data r) as [t|rows|w [|x rows]|nd]; reflexivity.
Qed.

Lemma ali_lists_cons u t : ali_lists (u :: t) = match u_ali u with Some a => [ali_values a] | None => [] end ++ ali_lists t.
Proof. reflexivity. Qed.
Lemma ref_lists_cons u t : ref_lists (u :: t) = match u_ref u with Some r => [ref_rows_of r] | None => [] end ++ ref_lists t.
Proof. reflexivity. Qed.

Lemma fold_info_Aeq d : forall acc,
  Aeq (fold_left info_upd d acc) (fold_left ali_upd (flat_map rle (ali_lists d)) acc).
Proof.
  induction d as [|u t IH]; intro acc; [repeat split|].
  cbn [fold_left]. rewrite ali_lists_cons.
  assert (E : flat_map rle (match u_ali u with Some a => [ali_values a] | None => [] end ++ ali_lists t)
              = rle (vals_of u) ++ flat_map rle (ali_lists t)).
  { unfold vals_of. destruct (u_ali u); cbn; rewrite ?app_nil_r; reflexivity. }
  rewrite E, fold_left_app.
  destruct (IH (info_upd acc u)) as (H1 & H2 & H3).
  assert (G : Aeq (info_upd acc u) (fold_left ali_upd (rle (vals_of u)) acc)).
  { rewrite info_upd_form.
    destruct (Aeq_fold_ref (rows_of u) (fold_left ali_upd (rle (vals_of u)) (feat_acc acc u))) as (K1 & K2 & K3).
    destruct (Aeq_fold_ali (rle (vals_of u)) (feat_acc acc u) acc) as (L1 & L2 & L3); [repeat split|].
    repeat split; congruence. }
  destruct (Aeq_fold_ali (flat_map rle (ali_lists t)) _ _ G) as (M1 & M2 & M3).
  repeat split; congruence.
Qed.

Lemma fold_info_Req d : forall acc,
  Req (fold_left info_upd d acc) (fold_left ref_upd (concat (ref_lists d)) acc).
Proof.
  induction d as [|u t IH]; intro acc; [repeat split|].
  cbn [fold_left]. rewrite ref_lists_cons.
  assert (E : concat (match u_ref u with Some r => [ref_rows_of r] | None => [] end ++ ref_lists t)
              = rows_of u ++ concat (ref_lists t)).
  { unfold rows_of. destruct (u_ref u); cbn; rewrite ?app_nil_r; reflexivity. }
  rewrite E, fold_left_app.
  destruct (IH (info_upd acc u)) as (H1 & H3 & H4).
  assert (G : Req (info_upd acc u) (fold_left ref_upd (rows_of u) acc)).
  { rewrite info_upd_form. apply Req_fold_ref.
    destruct (Req_fold_ali (rle (vals_of u)) (feat_acc acc u)) as (K1 & K3 & K4).
    repeat split; assumption. }
  destruct (Req_fold_ref (concat (ref_lists t)) _ _ G) as (M1 & M3 & M4).
  repeat split; congruence.
Qed.

(* frames and width *)
Lemma fold_ali_frames runs : forall a, i_frames (fold_left ali_upd runs a) = i_frames a /\ i_nf (fold_left ali_upd runs a) = i_nf a.
Proof. induction runs as [|[c n] t IH]; intro a; cbn [fold_left]; [split; reflexivity|]. rewrite (proj1 (IH _)), (proj2 (IH _)). split; reflexivity. Qed.
Lemma fold_ref_frames rows : forall a, i_frames (fold_left ref_upd rows a) = i_frames a /\ i_nf (fold_left ref_upd rows a) = i_nf a.
Proof. induction rows as [|[[tok s] e] t IH]; intro a; cbn [fold_left]; [split; reflexivity|]. rewrite (proj1 (IH _)), (proj2 (IH _)). split; reflexivity. Qed.

Lemma info_upd_frames acc u :
  i_frames (info_upd acc u) = i_frames acc + Z.of_nat (frames (u_feat u)) /\
  i_nf (info_upd acc u) = Some (nth 1 (f_shape (u_feat u)) 0%nat).
Proof.
  rewrite info_upd_form.
  rewrite (proj1 (fold_ref_frames _ _)), (proj2 (fold_ref_frames _ _)),
          (proj1 (fold_ali_frames _ _)), (proj2 (fold_ali_frames _ _)). split; reflexivity.
Qed.

Lemma fold_info_frames d : forall acc,
  i_frames (fold_left info_upd d acc) = i_frames acc + zsum (map (fun u => Z.of_nat (frames (u_feat u))) d).
Proof.
  induction d as [|u t IH]; intro acc; cbn [fold_left map zsum]; [lia|].
  rewrite IH, (proj1 (info_upd_frames acc u)). lia.
Qed.

Lemma fold_info_nf F d : Forall (fun u => nth 1 (f_shape (u_feat u)) 0%nat = F) d -> forall acc,
  i_nf (fold_left info_upd d acc) = match d with [] => i_nf acc | _ => Some F end.
Proof.
  induction 1 as [|u t Hu Ht IH]; intro acc; [reflexivity|].
  cbn [fold_left]. rewrite IH. destruct t; [|reflexivity]. rewrite (proj2 (info_upd_frames acc u)), Hu. reflexivity.
Qed.

(* ---------------------------------------------------------------- alignment statistics *)

Lemma fold_ali_max runs : forall a,
  i_maxali (fold_left ali_upd runs a) = zmax_list (i_maxali a) (map fst runs).
Proof.
  induction runs as [|[c n] t IH]; intro a; cbn [fold_left map fst]; [reflexivity|].
  rewrite IH. cbn [ali_upd i_maxali]. rewrite zmax_list_max. reflexivity.
Qed.

Lemma fold_ali_counts i runs : forall a,
  aget (i_counts (fold_left ali_upd runs a)) i 0
  = aget (i_counts a) i 0 + zsum (map (fun r : Z * Z => if fst r =? i then snd r else 0) runs) /\
  aget (i_segs (fold_left ali_upd runs a)) i 0
  = aget (i_segs a) i 0 + zsum (map (fun r : Z * Z => if fst r =? i then 1 else 0) runs).
Proof.
  induction runs as [|[c n] t IH]; intro a; cbn [fold_left map zsum fst snd]; [lia|].
  destruct (IH (ali_upd a (c, n))) as [-> ->]. cbn [ali_upd i_counts i_segs]. rewrite !aget_aset.
  destruct (Z.eqb_spec c i) as [->|]; lia.
Qed.

Lemma zmax_flat_rle m ls : zmax_list m (map fst (flat_map rle ls)) = zmax_list m (concat ls).
Proof.
  revert m. induction ls as [|l t IH]; intro m; [reflexivity|].
  cbn [flat_map concat]. rewrite map_app, !zmax_list_app, IH, zmax_rle. reflexivity.
Qed.

Lemma count_flat_rle i ls :
  zsum (map (fun r : Z * Z => if fst r =? i then snd r else 0) (flat_map rle ls)) = zcount i (concat ls).
Proof.
  induction ls as [|l t IH]; [reflexivity|].
  cbn [flat_map concat]. rewrite map_app, zsum_app, zcount_app, IH, count_rle. reflexivity.
Qed.

Lemma starts_flat_rle i ls :
  zsum (map (fun r : Z * Z => if fst r =? i then 1 else 0) (flat_map rle ls)) = zsum (map (nstarts i None) ls).
Proof.
  induction ls as [|l t IH]; [reflexivity|].
  cbn [flat_map map zsum]. rewrite map_app, zsum_app, IH. fold (nruns i l). rewrite nruns_starts. reflexivity.
Qed.

(* ---------------------------------------------------------------- reference statistics *)

Lemma fold_ref_max rows : forall a,
  i_maxref (fold_left ref_upd rows a) = zmax_list (i_maxref a) (map tok_of rows) /\
  (0 <= i_ntok a -> i_ntok (fold_left ref_upd rows a) = i_ntok a + Z.of_nat (length rows)).
Proof.
  induction rows as [|[[tok s] e] t IH]; intro a; cbn [fold_left map tok_of fst length]; [split; [reflexivity|lia]|].
  destruct (IH (ref_upd a (tok, s, e))) as [-> Hn]. cbn [ref_upd i_maxref i_ntok] in *.
  split; [rewrite Z.max_comm, zmax_list_max; reflexivity|]. intro H0. rewrite Hn; lia.
Qed.

Lemma fold_ali_ntok runs : forall a, i_ntok (fold_left ali_upd runs a) = i_ntok a.
Proof. induction runs as [|[c n] t IH]; intro a; cbn [fold_left]; [reflexivity|]. rewrite IH. reflexivity. Qed.

Lemma info_upd_ntok acc u :
  i_ntok (info_upd acc u)
  = match u_ref u with
    | Some r => Z.max 0 (i_ntok acc) + Z.of_nat (length (ref_rows_of r))
    | None => i_ntok acc end.
Proof.
  rewrite info_upd_form. unfold rows_of. destruct (u_ref u) as [r|] eqn:Er.
  - rewrite (proj2 (fold_ref_max _ _)); rewrite fold_ali_ntok; unfold feat_acc; rewrite Er; cbn [is_some i_ntok]; lia.
  - cbn [fold_left]. rewrite fold_ali_ntok. unfold feat_acc. rewrite Er. reflexivity.
Qed.

Lemma fold_info_ntok d : forall acc,
  i_ntok (fold_left info_upd d acc)
  = match ref_lists d with
    | [] => i_ntok acc
    | _ => Z.max 0 (i_ntok acc) + Z.of_nat (length (concat (ref_lists d))) end.
Proof.
  induction d as [|u t IH]; intro acc; [reflexivity|].
  cbn [fold_left]. rewrite IH, info_upd_ntok, ref_lists_cons.
  destruct (u_ref u) as [r|]; cbn [app concat].
  - rewrite app_length. destruct (ref_lists t); cbn [concat length]; lia.
  - reflexivity.
Qed.

Lemma fold_ref_segs i rows : forall a,
  aget (i_rsegs (fold_left ref_upd rows a)) i 0 = aget (i_rsegs a) i 0 + zcount i (map tok_of rows).
Proof.
  unfold zcount. induction rows as [|[[tok s] e] t IH]; intro a; cbn [fold_left map zsum tok_of fst]; [lia|].
  rewrite IH. cbn [ref_upd i_rsegs]. rewrite aget_aset. destruct (Z.eqb_spec tok i) as [->|]; lia.
Qed.

Definition rc_step (rc : Z) (r : row) : Z :=
  let '(_, s, e) := r in if (rc >=? 0) && (e >=? s) && (s >=? 0) then rc + e - s else -1.

Lemma fold_ref_rcounts i rows : forall a dflt,
  aget (i_rcounts (fold_left ref_upd rows a)) i dflt
  = match filter (fun r => tok_of r =? i) rows with
    | [] => aget (i_rcounts a) i dflt
    | mine => fold_left rc_step mine (aget (i_rcounts a) i 0)
    end.
Proof.
  induction rows as [|[[tok s] e] t IH]; intros a dflt; cbn [fold_left filter tok_of fst]; [reflexivity|].
  rewrite IH. cbn [ref_upd i_rcounts]. rewrite !aget_aset.
  destruct (Z.eqb_spec tok i) as [->|Hne].
  - destruct (filter (fun r => tok_of r =? i) t); reflexivity.
  - reflexivity.
Qed.

(* a row of a valid directory: no boundaries, or a (possibly empty) segment *)
Definition row_counted (r : row) : Prop := let '(_, s, e) := r in (s < 0 /\ e < 0) \/ (0 <= s /\ s <= e).

Lemma rc_fold_poison l : fold_left rc_step l (-1) = -1.
Proof. induction l as [|[[tok s] e] t IH]; cbn [fold_left rc_step]; [reflexivity|]. cbn. apply IH. Qed.

Lemma rc_fold l : Forall row_counted l -> forall rc, 0 <= rc ->
  fold_left rc_step l rc
  = if existsb (fun r : row => let '(_, s, e) := r in (s <? 0) || (e <? 0)) l then -1
    else rc + zsum (map (fun r : row => let '(_, s, e) := r in e - s) l).
Proof.
  induction 1 as [|[[tok s] e] t Hr Ht IH]; intros rc Hrc; cbn [fold_left existsb map zsum]; [lia|].
  unfold rc_step at 2. unfold row_counted in Hr.
  destruct (Z.ltb_spec s 0), (Z.ltb_spec e 0); cbn [orb]; try lia.
  - destruct (Z.geb_spec s 0); [lia|]. rewrite andb_false_r. apply rc_fold_poison.
  - destruct (Z.geb_spec rc 0); [|lia]. destruct (Z.geb_spec e s); [|lia]. destruct (Z.geb_spec s 0); [|lia].
    cbn [andb]. rewrite IH by lia. destruct (existsb _ t); lia.
Qed.

Lemma rcount_final i rows : Forall row_counted rows ->
  aget (i_rcounts (fold_left ref_upd rows acc0)) i (-1) = rcount_of i rows.
Proof.
  intro H. rewrite fold_ref_rcounts. unfold rcount_of. cbn [acc0 i_rcounts aget].
  assert (Hm : Forall row_counted (filter (fun r => tok_of r =? i) rows)).
  { apply Forall_forall. intros x Hx. apply filter_In in Hx. rewrite Forall_forall in H. apply H, Hx. }
  destruct (filter (fun r => tok_of r =? i) rows) as [|r0 mine] eqn:E; [reflexivity|].
  rewrite (rc_fold _ Hm 0) by lia. cbn [orb]. reflexivity.
Qed.

(* ---------------------------------------------------------------- assembling the report *)

Lemma wf_widths F dt d2 d : Forall (utt_ok F dt d2) d -> Forall (fun u => nth 1 (f_shape (u_feat u)) 0%nat = F) d.
Proof.
  intro H. eapply Forall_impl; [|exact H]. intros u ((_ & _ & T & Hs) & _). rewrite Hs. reflexivity.
Qed.

Lemma wf_rows_counted d : WellFormed d -> Forall row_counted (concat (ref_lists d)).
Proof.
  intros (F & dt & d2 & H).
  induction H as [|u t Hu Ht IH]; [constructor|].
  rewrite ref_lists_cons in *. destruct (u_ref u) as [r|] eqn:Er; cbn [app concat] in *; [|apply IH; assumption].
  apply Forall_app. split; [|apply IH; assumption].
  destruct Hu as (_ & _ & Hr). specialize (Hr _ Er).
  destruct Hr as (_ & _ & [(_ & tks & E)|(_ & rows & E & HB)]); unfold ref_rows_of in *; rewrite E in *.
  - apply Forall_forall. intros x Hx. apply in_map_iff in Hx. destruct Hx as (tok & <- & _). left. lia.
  - apply Forall_forall. intros [[tok s] e] Hx. rewrite Forall_forall in HB.
    specialize (HB _ Hx). cbn in *. lia.
Qed.

Lemma report_is_recount d : WellFormed d -> finish (length d) (fold_left info_upd d acc0) = recount d.
Proof.
  intros Hw.
  pose proof (wf_rows_counted d Hw) as Hrc.
  destruct Hw as (F & dt & d2 & HF).
  destruct (fold_info_Aeq d acc0) as (A1 & A2 & A3).
  destruct (fold_info_Req d acc0) as (R1 & R3 & R4).
  unfold finish, recount.
  rewrite A1, A2, A3, R1, R3, R4.
  rewrite fold_ali_max, (proj1 (fold_ref_max _ _)), fold_info_ntok.
  rewrite zmax_flat_rle. cbn [acc0 i_maxali i_maxref i_ntok].
  rewrite fold_info_frames, (fold_info_nf F d (wf_widths _ _ _ _ HF)). cbn [acc0 i_frames i_nf].
  f_equal.
  - destruct d as [|u t]; [reflexivity|]. inversion HF as [|? ? ((_ & _ & T & Hs) & _) _]; subst.
    rewrite Hs. reflexivity.
  - apply map_ext. intro i.
    rewrite (proj1 (fold_ali_counts i _ _)), (proj2 (fold_ali_counts i _ _)).
    cbn [acc0 i_counts i_segs aget]. rewrite count_flat_rle, starts_flat_rle. reflexivity.
  - apply map_ext. intro i.
    rewrite rcount_final by assumption. rewrite fold_ref_segs. cbn [acc0 i_rsegs aget]. reflexivity.
Qed.

Lemma step_unvalidated_valid fx st acc u F dt d2 :
  utt_ok F dt d2 u -> utt_tokens_nonneg u ->
  exists st', step_utt false false cfg_plain fx st acc u = (u, inr (st', acc)).
Proof.
  intros ((Hc & Hd & T & Hs) & Ha & Hr) Ht.
  unfold step_utt. cbn [c_suppress_alis cfg_plain].
  unfold feat_part. cbn [andb]. rewrite Hs.
  destruct (u_ref u) as [r|] eqn:Er.
  - rewrite load_plain.
    assert (Hpass : ref_pass st0 (frames (u_feat u)) r).
    { apply ref_pass_ok. specialize (Hr _ eq_refl). split; [rewrite (ref_ok_dim _ _ _ Hr); assumption|].
      intros x Hx. discriminate. }
    destruct (token_loop_pass st0 _ r acc Hpass (Ht _ Er)) as (rows & Hrows & Hloop).
    destruct (s_nf st) as [nf|]; destruct (u_ali u) as [a|] eqn:Ea; cbn [ali_part negb];
      rewrite Hrows, Hloop; rewrite <- ?Ea, <- Er, utt_eta; eauto.
  - destruct (s_nf st) as [nf|]; destruct (u_ali u) as [a|] eqn:Ea; cbn [ali_part negb];
      rewrite <- ?Ea, <- Er, utt_eta; eauto.
Qed.

Lemma run_unvalidated_valid fx F dt d2 d : Forall (utt_ok F dt d2) d -> tokens_nonneg d ->
  forall st acc, run_pass false false cfg_plain fx st acc d = (d, inr acc).
Proof.
  unfold tokens_nonneg. induction 1 as [|u t Hu Ht IH]; intros Htok st acc; cbn [run_pass]; [reflexivity|].
  inversion Htok as [|? ? H1 H2]; subst.
  destruct (step_unvalidated_valid fx st acc u F dt d2 Hu H1) as (st' & ->).
  rewrite (IH H2 st' acc). reflexivity.
Qed.

(* get-torch-spect-data-dir-info on a valid directory: any flags, nothing changes, the report is the recount *)
Lemma cli_report_on_valid strict fx d :
  WellFormed d -> tokens_nonneg d -> classes_nonneg d ->
  cli_info strict fx d = (d, inr (recount d)).
Proof.
  intros Hw Ht Hc.
  destruct (cli_validates strict fx) eqn:Ev.
  - rewrite (cli_like_validate strict fx d Ev Hc).
    assert (Hp : plain_yield cfg_plain) by (split; reflexivity).
    assert (Hs : syms_nonneg cfg_plain) by (split; intros s H; discriminate).
    rewrite (valid_never_touched cfg_plain (fixarg_of fx) d Hp Hs Ht Hw). cbn [fst snd].
    rewrite report_is_recount by assumption. reflexivity.
  - unfold cli_info. rewrite Ev.
    destruct Hw as (F & dt & d2 & HF) eqn:Ew. clear Ew.
    rewrite (run_info false fx d st0 acc0 acc0 d (inr acc0)
               (run_unvalidated_valid fx F dt d2 d HF Ht st0 acc0) (proj1 (classes_nonneg_utts d) Hc)).
    rewrite report_is_recount; [reflexivity|]. exists F, dt, d2. assumption.
Qed.

(* --strict / --fix N (any N) on any directory that the tolerance can repair: the files afterwards are the
   repaired ones and the report is their recount *)
Lemma cli_report_after_fix strict fx d :
  cli_validates strict fx = true -> tokens_nonneg d -> classes_nonneg d ->
  WellFormed (repair fx d) ->
  cli_info strict fx d = (repair fx d, inr (recount (repair fx d))).
Proof.
  intros Ev Ht Hc Hw.
  rewrite (cli_like_validate strict fx d Ev Hc).
  assert (Hp : plain_yield cfg_plain) by (split; reflexivity).
  assert (Hs : syms_nonneg cfg_plain) by (split; intros s H; discriminate).
  assert (Hcw : clean_writes cfg_plain (tolerance (fixarg_of fx))) by (right; split; reflexivity).
  assert (Etol : tolerance (fixarg_of fx) = fx) by (destruct fx; reflexivity).
  pose proof (validate_accepts cfg_plain (fixarg_of fx) d Hp Hcw Hs Ht) as Hv. rewrite Etol in Hv.
  rewrite (Hv Hw). cbn [fst snd].
  assert (length d = length (repair fx d)) as -> by (rewrite repair_map, map_length; reflexivity).
  rewrite report_is_recount by assumption. reflexivity.
Qed.
