(* C06 — build_trie_ok, part 2: the ordering layer.
   Tuple comparison of reversed keys is a strict total order; the insertion sort of
   _build_trie returns a strictly sorted permutation; in a sorted level the entries are
   grouped by parent, the groups come in the order of the parents, and counting parents
   below a position delimits each group. *)
From Coq Require Import List ZArith Bool Arith Lia ZifyBool ZifyNat Permutation Sorted.
From PV Require Import C06.Model C06.Spec C06.Proofs C06.BuildBase.
Import ListNotations.
Local Open Scope Z_scope.

(* ---------- lexicographic comparison ------------------------------------------------------------ *)

Lemma lex_irrefl a : lex_ltb a a = false.
Proof. induction a as [|x a IH]; cbn [lex_ltb]; [reflexivity|]. rewrite IH. lia. Qed.

Lemma lex_trans a : forall b c, lex_ltb a b = true -> lex_ltb b c = true -> lex_ltb a c = true.
Proof.
  induction a as [|x a IH]; intros [|y b] [|z c]; cbn [lex_ltb]; intros H1 H2;
    try discriminate; try reflexivity.
  destruct (Z.ltb_spec x y) as [Hxy|Hxy]; cbn [orb] in H1.
  - destruct (Z.ltb_spec y z) as [Hyz|Hyz]; cbn [orb] in H2.
    + replace (x <? z) with true by lia. reflexivity.
    + apply andb_true_iff in H2 as [E _]. replace (x <? z) with true by lia. reflexivity.
  - apply andb_true_iff in H1 as [E1 H1]. assert (x = y) by lia. subst y.
    destruct (Z.ltb_spec x z) as [Hyz|Hyz]; cbn [orb] in H2 |- *; [reflexivity|].
    apply andb_true_iff in H2 as [E2 H2]. rewrite E2. cbn [andb]. apply (IH b c); assumption.
Qed.

Lemma lex_asym a b : lex_ltb a b = true -> lex_ltb b a = false.
Proof.
  intros H. destruct (lex_ltb b a) eqn:E; [|reflexivity].
  pose proof (lex_trans _ _ _ H E) as H'. rewrite lex_irrefl in H'. discriminate.
Qed.

Lemma lex_total a : forall b, lex_ltb a b = false -> a <> b -> lex_ltb b a = true.
Proof.
  induction a as [|x a IH]; intros [|y b]; cbn [lex_ltb]; intros H Hne;
    try discriminate; try reflexivity; try congruence.
  destruct (Z.ltb_spec x y) as [Hxy|Hxy]; cbn [orb] in H; [discriminate|].
  destruct (Z.ltb_spec y x) as [Hyx|Hyx]; cbn [orb]; [reflexivity|].
  assert (x = y) by lia. subst y. replace (x =? x) with true in * by lia. cbn [andb] in *.
  apply IH; [assumption|congruence].
Qed.

(* same-length keys: compare the prefixes first, the last token second *)
Lemma lex_snoc pa : forall pb x y, length pa = length pb ->
  lex_ltb (pa ++ [x]) (pb ++ [y]) = lex_ltb pa pb || (list_eqb pa pb && (x <? y)).
Proof.
  induction pa as [|u pa IH]; intros [|v pb] x y Hlen; cbn [length] in Hlen; try lia.
  - cbn. lia.
  - cbn [app lex_ltb list_eqb]. rewrite IH by lia.
    destruct (u <? v), (u =? v), (lex_ltb pa pb), (list_eqb pa pb), (x <? y); reflexivity.
Qed.

Lemma list_eqb_refl a : list_eqb a a = true.
Proof. apply list_eqb_eq. reflexivity. Qed.

Lemma list_eqb_neq a b : a <> b -> list_eqb a b = false.
Proof.
  intros H. destruct (list_eqb a b) eqn:E; [|reflexivity]. apply list_eqb_eq in E. congruence.
Qed.

(* ---------- insertion sort ----------------------------------------------------------------------- *)

Section Sort.
  Context {A : Type}.
  Definition klt (a b : list Z * A) : Prop := lex_ltb (fst a) (fst b) = true.

  Lemma insort_perm (e : list Z * A) l : Permutation (insort e l) (e :: l).
  Proof.
    induction l as [|h t IH]; cbn [insort]; [reflexivity|].
    destruct (lex_ltb (fst e) (fst h)); [reflexivity|].
    rewrite IH. apply perm_swap.
  Qed.

  Lemma insort_sorted (e : list Z * A) l : StronglySorted klt l ->
    Forall (fun h => fst h <> fst e) l -> StronglySorted klt (insort e l).
  Proof.
    induction 1 as [|h t Ht IH Hh]; intros Hne; cbn [insort].
    - constructor; constructor.
    - inversion Hne as [|? ? Hhe Hne']; subst.
      destruct (lex_ltb (fst e) (fst h)) eqn:E.
      + constructor; [constructor; assumption|]. constructor; [exact E|].
        rewrite Forall_forall in *. intros z Hz. unfold klt in *.
        apply (lex_trans _ (fst h)); [exact E|apply Hh; assumption].
      + constructor; [apply IH; assumption|].
        assert (Hhe' : klt h e) by (unfold klt; apply lex_total; [assumption|congruence]).
        rewrite Forall_forall in *. intros z Hz.
        apply (Permutation_in _ (insort_perm e t)) in Hz. destruct Hz as [<-|Hz]; [assumption|].
        apply Hh. assumption.
  Qed.

  Lemma fold_insort_perm (l : list (list Z * A)) : Permutation (fold_right insort [] l) l.
  Proof.
    induction l as [|e l IH]; cbn [fold_right]; [reflexivity|].
    rewrite insort_perm. constructor. exact IH.
  Qed.

  Lemma fold_insort_sorted (l : list (list Z * A)) : NoDup (map fst l) ->
    StronglySorted klt (fold_right insort [] l).
  Proof.
    induction l as [|e l IH]; cbn [fold_right map]; intros Hnd; [constructor|].
    inversion Hnd as [|? ? Hnin Hnd']; subst. apply insort_sorted; [apply IH; assumption|].
    rewrite Forall_forall. intros h Hh Heq.
    apply (Permutation_in _ (fold_insort_perm l)) in Hh. apply Hnin. rewrite <- Heq.
    apply in_map. assumption.
  Qed.

  Lemma sorted_nth (l : list (list Z * A)) d : StronglySorted klt l ->
    forall i j, (i < j)%nat -> (j < length l)%nat -> klt (nth i l d) (nth j l d).
  Proof.
    induction 1 as [|h t Ht IH Hh]; intros i j Hij Hj; cbn [length] in Hj; [lia|].
    destruct j as [|j]; [lia|]. destruct i as [|i]; cbn [nth].
    - rewrite Forall_forall in Hh. apply Hh. apply nth_In. lia.
    - apply IH; lia.
  Qed.

  Lemma sorted_NoDup (l : list (list Z * A)) : StronglySorted klt l -> NoDup (map fst l).
  Proof.
    induction 1 as [|h t Ht IH Hh]; cbn [map]; constructor; [|assumption].
    intros Hin. apply in_map_iff in Hin as (z & Hz & Hin). rewrite Forall_forall in Hh.
    specialize (Hh z Hin). unfold klt in Hh. rewrite Hz, lex_irrefl in Hh. discriminate.
  Qed.
End Sort.

Definition rev_entry (e : list Z * (val * val)) : list Z * (val * val) := (rev (fst e), snd e).

Lemma sort_rev_unfold d : sort_rev d = fold_right insort [] (map rev_entry d).
Proof. reflexivity. Qed.

Lemma sort_rev_perm d : Permutation (sort_rev d) (map rev_entry d).
Proof. rewrite sort_rev_unfold. apply fold_insort_perm. Qed.

Lemma rev_inj (a b : list Z) : rev a = rev b -> a = b.
Proof. intros H. rewrite <- (rev_involutive a), <- (rev_involutive b), H. reflexivity. Qed.

Lemma sort_rev_sorted d : NoDup (map fst d) -> StronglySorted klt (sort_rev d).
Proof.
  intros H. rewrite sort_rev_unfold. apply fold_insort_sorted.
  rewrite map_map. cbn [rev_entry fst].
  rewrite <- (map_map fst (@rev Z)). apply FinFun.Injective_map_NoDup; [|assumption].
  intros a b. apply rev_inj.
Qed.

Lemma sort_rev_length d : length (sort_rev d) = length d.
Proof. rewrite (Permutation_length (sort_rev_perm d)). apply map_length. Qed.

Lemma sort_rev_in d rk v : In (rk, v) (sort_rev d) <-> In (rev rk, v) d.
Proof.
  split; intros H.
  - apply (Permutation_in _ (sort_rev_perm d)) in H. apply in_map_iff in H as ([k v'] & E & Hin).
    unfold rev_entry in E. cbn [fst snd] in E. injection E as <- <-. rewrite rev_involutive. assumption.
  - apply (Permutation_in _ (Permutation_sym (sort_rev_perm d))). apply in_map_iff.
    exists (rev rk, v). split; [|assumption]. unfold rev_entry. cbn [fst snd]. rewrite rev_involutive.
    reflexivity.
Qed.

(* ---------- position of a key in a list of keys ----------------------------------------------------- *)

Fixpoint kindex (k : list Z) (l : list (list Z)) : nat :=
  match l with [] => 0%nat | h :: t => if list_eqb h k then 0%nat else S (kindex k t) end.

Lemma kindex_nth k l : In k l -> nth_error l (kindex k l) = Some k.
Proof.
  induction l as [|h t IH]; intros H; [destruct H|]. cbn [kindex].
  destruct (list_eqb h k) eqn:E.
  - apply list_eqb_eq in E. subst. reflexivity.
  - cbn [nth_error]. apply IH. destruct H as [->|H]; [|assumption].
    rewrite list_eqb_refl in E. discriminate.
Qed.

Lemma kindex_lt k l : In k l -> (kindex k l < length l)%nat.
Proof. intros H. apply nth_error_Some. rewrite (kindex_nth k l H). discriminate. Qed.

Lemma kindex_unique l : NoDup l -> forall i k, nth_error l i = Some k -> kindex k l = i.
Proof.
  induction 1 as [|h t Hnin Hnd IH]; intros i k Hi; [destruct i; discriminate|].
  cbn [kindex]. destruct i as [|i]; cbn [nth_error] in Hi.
  - injection Hi as ->. rewrite list_eqb_refl. reflexivity.
  - rewrite list_eqb_neq; [f_equal; apply IH; assumption|].
    intros ->. apply Hnin. eapply nth_error_In. exact Hi.
Qed.

(* ---------- counting parents delimits the groups ------------------------------------------------------ *)

Lemma count_lt_nth ps : nondecr ps -> forall k j, (k < length ps)%nat ->
  (count_lt ps j <= Z.of_nat k <-> j <= nth k ps 0).
Proof.
  induction 1 as [|p r Hge Hnd IH]; intros k j Hk; cbn [length] in Hk; [lia|].
  cbn [count_lt]. destruct (Z.ltb_spec p j) as [Hpj|Hpj].
  - destruct k as [|k]; cbn [nth].
    + pose proof (count_lt_bounds r j). lia.
    + specialize (IH k j ltac:(lia)). lia.
  - assert (Hz : count_lt r j = 0).
    { apply count_lt_none. rewrite Forall_forall in *. intros q Hq. specialize (Hge q Hq). lia. }
    rewrite Hz. destruct k as [|k]; cbn [nth]; [lia|].
    assert (p <= nth k r 0); [|lia].
    rewrite Forall_forall in Hge. apply Hge. apply nth_In. lia.
Qed.

(* entry k belongs to the group of the parent at position j  iff  its parent position is j *)
Lemma group_range ps : nondecr ps -> forall k j, (k < length ps)%nat ->
  (count_lt ps j <= Z.of_nat k < count_lt ps (j + 1) <-> nth k ps 0 = j).
Proof.
  intros Hnd k j Hk. pose proof (count_lt_nth ps Hnd k j Hk). pose proof (count_lt_nth ps Hnd k (j + 1) Hk).
  lia.
Qed.

Lemma nondecr_map {B} (R : B -> B -> Prop) (Q : B -> Prop) (f : B -> Z) (l : list B) :
  StronglySorted R l -> Forall Q l -> (forall a b, Q a -> Q b -> R a b -> f a <= f b) ->
  nondecr (map f l).
Proof.
  intros Hs Hq Hf. induction Hs as [|h t Ht IH Hh]; cbn [map]; [constructor|].
  inversion Hq; subst. constructor; [|apply IH; assumption].
  rewrite Forall_forall in *. intros z Hz. apply in_map_iff in Hz as (b & <- & Hb).
  apply Hf; auto.
Qed.
