"""C15 — TrainingStateController decisions and restarts: correspondence between /repo's
controller (real csv file + state directory in a scratch dir) and PV.C15.Model."""
import csv
import itertools
import json
import math
import os
import shutil
import warnings
from fractions import Fraction

import torch

torch.set_num_threads(1)

from vlib import CoqError, cb, cl, cn, co, cp, cq, cz, coq_eval_bools, coq_eval_print, exc_kind, load_corpus, shrink

IMPORTS = "From PV Require Import C15.Model C15.Spec.\nLocal Open Scope Z_scope.\n"
TOL = "(1 # 1000000000000)%Q"
UNIT = 8  # metrics and thresholds are multiples of 1/8
SHARD = 100  # cases per coqc process (the audit streams have longer runs and larger rationals: keep shards short)
BASE = ["epoch", "es_resume_cd", "es_patience_cd", "rlr_resume_cd", "rlr_patience_cd", "lr", "train_met", "val_met"]
TYPES = {"int": int, "str": str}
THEOREMS = ["c15_trace_follows_rules", "c15_stop_iff_rule", "c15_lr_changes_iff_rule", "c15_lr_written_to_optimizer",
            "c15_reference_epoch_is_last_reset", "c15_restart_equivalent", "c15_restart_only_rate_differs",
            "c15_user_entries_typed"]

# ------------------------------------------------------------------------------------------
# implementation side
# ------------------------------------------------------------------------------------------


# user entry n is called "u<n>"; cases with names == "odd" use legal but unusual names instead: extensions / prefixes of
# the reserved column names, names that are prefixes of each other, names with the csv separator, quotes and blanks
ODD_NAMES = ["lr_", "e", "epoch2", "a,b", 'q"t', "val met", "u1", "u10", "es_resume_cd2", "'"]


def uname(case, n):
    return ODD_NAMES[n % len(ODD_NAMES)] if case.get("names") == "odd" else "u%d" % n


def _params(P, api=None):
    from pydrobert.torch.training import TrainingStateParams

    api = api or {}

    def thr(v):  # thresholds as python ints when integral (api "ints"): 0 rather than 0.0
        return v // UNIT if api.get("ints") and v % UNIT == 0 else v / UNIT

    kw = dict(
        num_epochs=P["num"], log10_learning_rate=P["l10lr"],
        early_stopping_threshold=thr(P["es_thr"]), early_stopping_patience=P["es_pat"],
        early_stopping_burnin=P["es_burn"],
        reduce_lr_threshold=thr(P["rlr_thr"]), reduce_lr_patience=P["rlr_pat"],
        reduce_lr_cooldown=P["rlr_cool"], reduce_lr_burnin=P["rlr_burn"],
        reduce_lr_factor=P["fac"], reduce_lr_log10_epsilon=P["l10eps"])
    if "keep" in P:
        kw["keep_last_and_best_only"] = bool(P["keep"])
    if api.get("setattr"):  # default-constructed, then assigned
        prm = TrainingStateParams()
        for k, v in kw.items():
            setattr(prm, k, v)
        return prm
    return TrainingStateParams(**kw)


class _Session:
    """One controller + model + optimizer built the documented way.  case["api"] (optional) selects among the equivalent
    public ways of doing the same thing: optimizer class / number of parameter groups, keyword or positional construction
    and calls, explicit epoch arguments, self[epoch] or get_info, restart on the same controller object."""

    def __init__(self, case, d):
        from pydrobert.torch.training import TrainingStateController

        api = self.api = case.get("api") or {}
        self.case = case
        prm = _params(case["P"], api)
        csvp, sdir = os.path.join(d, "hist.csv"), os.path.join(d, "states")
        if api.get("kwctor"):
            self.ctl = TrainingStateController(params=prm, state_dir=sdir, state_csv_path=csvp, warn=False)
        else:
            self.ctl = TrainingStateController(prm, csvp, sdir)
        for name, typ in case["decl"]:
            if api.get("kwctor"):
                self.ctl.add_entry(name=uname(case, name), typ=TYPES[typ])
            else:
                self.ctl.add_entry(uname(case, name), TYPES[typ])
        self.fresh()
        self.load()

    def fresh(self):
        self.model = torch.nn.Linear(1, 1)
        # (by default) two parameter groups: the new rate must reach every one of them
        if self.api.get("groups", 2) == 1:
            groups = [self.model.weight, self.model.bias]
        else:
            groups = [{"params": [self.model.weight]}, {"params": [self.model.bias]}]
        cls = torch.optim.Adam if self.api.get("optim") == "adam" else torch.optim.SGD
        self.optim = cls(groups, lr=self.case["dflt"])

    def load(self):
        if self.api.get("expl_load"):
            self.ctl.load_model_and_optimizer_for_epoch(self.model, self.optim, epoch=self.ctl.get_last_epoch())
        else:
            self.ctl.load_model_and_optimizer_for_epoch(self.model, self.optim)

    def soft_restart(self, mode):
        """the same controller object re-reads the history file; model and optimizer are reloaded from the state
        directory, into new objects (mode 1) or into the existing ones (mode 2)"""
        self.ctl.update_cache()
        if mode == 1:
            self.fresh()
        self.load()

    def update(self, st):
        case, api = self.case, self.api
        kw = {uname(case, n): v for n, v in st["kw"]}
        if st.get("ep"):
            kw["epoch"] = self.ctl.get_last_epoch() + 1
        if st.get("bit"):
            kw["best_is_train"] = True
        tr, va = st["train"] / UNIT, st["val"] / UNIT
        if api.get("kwcall"):
            return self.ctl.update_for_epoch(val_met=va, train_met=tr, optimizer=self.optim, model=self.model, **kw)
        return self.ctl.update_for_epoch(self.model, self.optim, tr, va, **kw)


def _info(ctl, epoch, case, getitem=False):
    decl = case["decl"]
    if getitem:
        info = ctl[epoch] if epoch in ctl.cache_hist else None
    else:
        info = ctl.get_info(epoch, None)
    if info is None:
        return None
    keys = set(BASE) | {uname(case, n) for n, _ in decl}
    out = {k: info.get(k) for k in BASE}
    out["extra_keys"] = sorted(set(info) - keys)
    out["user"] = []
    for n, typ in decl:
        v = info.get(uname(case, n))
        out["user"].append([n, type(v).__name__, v])
    return out


def run_impl(chk, case, restarts=True):
    """-> dict(obs=[...], cache=[...], csv=[...]).  obs item: ["ok", cont, continue_training(),
    optimizer lrs, info] or ["err", kind]."""
    d = str(chk.workdir / ("run%d" % os.getpid()))
    shutil.rmtree(d, ignore_errors=True)
    os.makedirs(d)
    api = case.get("api") or {}
    with warnings.catch_warnings():
        warnings.simplefilter("ignore")
        try:
            ses = _Session(case, d)
            obs = []
            for st in case["steps"]:
                if restarts and st["restart"]:
                    try:
                        if api.get("soft"):
                            ses.soft_restart(api["soft"])
                        else:
                            ses = _Session(case, d)
                    except Exception as e:
                        obs.append(["err", exc_kind(e)])
                        continue
                try:
                    cont = ses.update(st)
                except Exception as e:
                    obs.append(["err", exc_kind(e)])
                    continue
                ep = ses.ctl.get_last_epoch()
                ct = ses.ctl.continue_training(ep) if api.get("ct_epoch") else ses.ctl.continue_training()
                obs.append(["ok", bool(cont), bool(ct), [g["lr"] for g in ses.optim.param_groups],
                            _info(ses.ctl, ep, case, api.get("getitem"))])
            cache = [_info(ses.ctl, e, case) for e in sorted(ses.ctl.cache_hist)]
            keys = sorted(ses.ctl.cache_hist)
            # continue_training(e) asked again at the end for every epoch: the answer is a function of the history
            ct_later = []
            for o in obs:
                if o[0] == "ok" and o[4] and isinstance(o[4]["epoch"], int) and o[4]["epoch"] in ses.ctl.cache_hist:
                    try:
                        now = bool(ses.ctl.continue_training(o[4]["epoch"]))
                    except Exception as e:
                        now = exc_kind(e)
                    ct_later.append([o[4]["epoch"], o[2], now])
            rows, header = [], None
            pth = os.path.join(d, "hist.csv")
            if os.path.exists(pth):
                with open(pth, newline="") as f:
                    rd = csv.reader(f)
                    lines = list(rd)
                header, rows = lines[0], lines[1:]
            return {"obs": obs, "cache": cache, "keys": keys, "header": header, "csv": rows, "ct_later": ct_later}
        finally:
            shutil.rmtree(d, ignore_errors=True)


# ------------------------------------------------------------------------------------------
# Coq terms
# ------------------------------------------------------------------------------------------


class Bad(Exception):
    pass


def cstr(s):
    if not all(32 <= ord(ch) < 127 for ch in s):
        raise Bad("non-ascii cell")
    return '"' + s.replace('"', '""') + '"%string'


def _q(x):
    if isinstance(x, bool) or not isinstance(x, (int, float)) or (isinstance(x, float) and not math.isfinite(x)):
        raise Bad("rate is not a finite number: %r" % (x,))
    return cq(Fraction(x))


def _met(x):
    """float metric -> Coq option Z in eighths (inf -> None)"""
    if isinstance(x, float) and math.isinf(x) and x > 0:
        return "None"
    f = Fraction(x) * UNIT
    if f.denominator != 1:
        raise Bad("metric off the grid: %r" % (x,))
    return co(cz(f.numerator))


def _int(x):
    if isinstance(x, bool) or not isinstance(x, int):
        raise Bad("not an int: %r" % (x,))
    return cz(x)


def _uval(typ, v):
    if typ == "int":
        return "(VInt %s)" % _int(v)
    if not isinstance(v, str):
        raise Bad("not a str")
    return "(VStr %s)" % cstr(v)


def c_params(P):
    lr0 = None if P["l10lr"] is None else cq(Fraction(10 ** P["l10lr"]))
    return "(mkParams %s %s %s %s %s %s %s %s %s %s %s)" % (
        co(None if P["num"] is None else cz(P["num"])), co(lr0), cz(P["es_thr"]), cz(P["es_pat"]), cz(P["es_burn"]),
        cz(P["rlr_thr"]), cq(Fraction(P["fac"])), cz(P["rlr_pat"]), cz(P["rlr_cool"]),
        cq(Fraction(10 ** P["l10eps"])), cz(P["rlr_burn"]))


def c_decl(decl):
    return cl([cp(cn(n), "KInt" if t == "int" else "KStr") for n, t in decl])


def c_kw(kw):
    return cl([cp(cn(n), _uval("int" if isinstance(v, int) else "str", v)) for n, v in kw])


def c_steps(steps, restarts=True):
    return cl(["(mkStep %s %s %s %s)" % (cb(restarts and s["restart"]), cz(s["train"]), cz(s["val"]), c_kw(s["kw"]))
               for s in steps])


def c_row(info, decl, row0=False):
    if info is None or info["extra_keys"]:
        raise Bad("missing row / unexpected keys")
    if row0:
        if any(v is not None for _, _, v in info["user"]):
            raise Bad("epoch 0 has user values")
        user = "[]"
    else:
        items = []
        for (n, typ), (n2, tn, v) in zip(decl, info["user"]):
            if tn != typ:
                raise Bad("user entry u%d has type %s, declared %s" % (n, tn, typ))
            items.append(cp(cn(n), _uval(typ, v)))
        user = cl(items)
    lr = "None" if info["lr"] is None else co(_q(info["lr"]))
    return "(mkRow %s %s %s %s %s %s %s %s %s)" % (
        _int(info["epoch"]), _int(info["es_resume_cd"]), _int(info["es_patience_cd"]), _int(info["rlr_resume_cd"]),
        _int(info["rlr_patience_cd"]), lr, _met(info["train_met"]), _met(info["val_met"]), user)


def c_crow(line):
    if len(line) < 8:
        raise Bad("short csv line")
    e, a, b, c, d = [int(x) for x in line[:5]]
    lr = Fraction(line[5])
    tr, va = Fraction(line[6]) * UNIT, Fraction(line[7]) * UNIT
    if tr.denominator != 1 or va.denominator != 1:
        raise Bad("csv metric off the grid")
    return "(mkCrow %s %s %s %s %s %s %s %s %s)" % (cz(e), cz(a), cz(b), cz(c), cz(d), cq(lr), cz(tr), cz(va),
                                                 cl([cstr(x) for x in line[8:]]))


ERR = {"TypeError": "ETypeError", "ValueError": "EValueError", "IOError": "ENoFile"}


def c_obs(o, decl):
    if o[0] == "err":
        if o[1] not in ERR:
            raise Bad("unexpected exception " + o[1])
        return "(OErr %s)" % ERR[o[1]]
    _, cont, ct, lrs, info = o
    if len(set(lrs)) != 1:
        raise Bad("param groups disagree")
    return "(OOk %s %s %s %s)" % (cb(cont), cb(ct), _q(lrs[0]), c_row(info, decl))


def tol_of(case):
    # multiplying by a power of two is exact in binary64, so every rate (also one re-read from the csv: the model rounds
    # the printed decimal to the nearest double, Model.b64) can be compared exactly; other factors to 1e-12
    return "0%Q" if exact_case(case) else TOL


def exact_case(case):
    return case["regime"] == "E" and case["P"]["fac"] in (0.5, 0.25, 0.125)


def near_tie(out):
    """some rate is within 1e-9 (relative to the last printed digit) of a '{:.4e}' rounding tie: with an inexact float
    product the printed digit may then differ from the model's exact product for reasons the model does not cover"""
    rates = [o[4]["lr"] for o in out["obs"] if o[0] == "ok" and o[4]] + [i["lr"] for i in out["cache"] if i]
    for r in rates:
        if not isinstance(r, (int, float)) or isinstance(r, bool) or not r or not math.isfinite(r):
            continue
        m = abs(Fraction(r))
        while m < 10000:
            m *= 10
        while m >= 100000:
            m /= 10
        if abs((m - math.floor(m)) - Fraction(1, 2)) < Fraction(1, 10 ** 9):
            return True
    return False


def model_term(case, out, rnd="fmt5 b64", restarts=True, tol=None):
    decl = case["decl"]
    try:
        if out["keys"] != list(range(len(out["cache"]))):
            raise Bad("cache keys not 0..n")
        names = BASE + [uname(case, n) for n, _ in decl]
        if out["header"] is not None and out["header"] != names:
            raise Bad("csv header")
        if any(then != now for _, then, now in out.get("ct_later", [])):
            raise Bad("continue_training(epoch) asked later differs from continue_training() right after that epoch")
        obs = cl([c_obs(o, decl) for o in out["obs"]])
        cache = cl([c_row(r, decl, i == 0) for i, r in enumerate(out["cache"])])
        rows = cl([c_crow(r) for r in out["csv"]])
    except (Bad, ValueError, ZeroDivisionError):
        return "false"
    return "(check %s %s %s %s %s %s %s %s %s)" % (tol or tol_of(case), rnd, c_params(case["P"]), c_decl(decl),
                                                  cq(Fraction(case["dflt"])), c_steps(case["steps"], restarts),
                                                  obs, cache, rows)


IMPORTS_SRC = "From PV Require Import C15.Model C15.SrcRun.\nLocal Open Scope Z_scope.\n"
SOURCE_THEOREMS = ["c15_source_update_is_model", "c15_source_run_is_model", "c15_source_es_is_model",
                   "c15_source_rlr_is_model", "c15_source_control_is_model", "c15_source_head_is_model",
                   "c15_source_continue_training_is_model", "c15_source_get_last_epoch_is_model",
                   "c15_source_trace_follows_rules"]


def src_term(case, out):
    """bool: the regenerated source terms (PV.Gen.C15Src: the control blocks of update_for_epoch, continue_training,
    get_last_epoch), run by PV.MiniPy.Interp inside Coq on the model's state, give what the implementation gave, epoch by
    epoch: update_for_epoch's return value / exception, continue_training(), the optimizer's rate and self[epoch]."""
    try:
        obs = cl([c_obs(o, case["decl"]) for o in out["obs"]])
    except (Bad, ValueError, ZeroDivisionError):
        return "false"
    return "(src_check %s fmt5 b64 %s %s %s %s %s)" % (tol_of(case), c_params(case["P"]), c_decl(case["decl"]),
                                                     cq(Fraction(case["dflt"])), c_steps(case["steps"]), obs)


def source_tie(chk, cases, outs, res):
    """run the translated source inside Coq on the cases of this run (validates translator + MiniPy semantics + ext15
    against CPython; independent of whether the tie lemmas still compile).  Only cases on which the model itself agrees
    with the implementation are used, so that a disagreement here is the tie's and not the model's."""
    idx = [i for i in range(len(cases)) if res[i]]
    try:
        sres = coq_eval_bools(chk.workdir, IMPORTS_SRC, [src_term(cases[i], outs[i]) for i in idx], shard=SHARD, tag="src")
    except CoqError as e:
        chk.extra["source_tie_run"] = "not evaluated: " + str(e)[-400:]
        return
    bad = [idx[j] for j, ok in enumerate(sres) if not ok]
    chk.extra["source_tie_run"] = {"cases": len(idx), "disagreements": len(bad)}
    chk.count("source_tie_cases", len(idx))
    if bad:
        i = bad[0]
        chk.report({"kind": "source-tie", "case": cases[i], "impl": outs[i],
                    "what": "the Python source as translated to MiniPy and interpreted in Coq (PV.C15.SrcRun.src_run) does not "
                            "reproduce the implementation's output although PV.C15.Model does: translator / interpreter / ext15 "
                            "no longer describe the code",
                    "correspondence": "tie:C15:py2coq+MiniPy.Interp:TrainingStateController.{update_for_epoch control blocks,"
                                      "continue_training,get_last_epoch}",
                    "theorems_at_stake": SOURCE_THEOREMS}, no_failing_input=True)


def spec_term(case, out_plain):
    """the rules applied to an uninterrupted run's outputs (cont, recorded rate, optimizer rate)"""
    try:
        items = []
        for o in out_plain["obs"]:
            if o[0] != "ok" or len(set(o[3])) != 1:
                return "false"
            items.append(cp(cb(o[1]), _q(o[4]["lr"]), _q(o[3][0])))
    except (Bad, TypeError):
        return "false"
    return "(spec_okb %s %s %s %s %s)" % (tol_of(case), c_params(case["P"]), cq(Fraction(case["dflt"])),
                                         cl([cz(s["val"]) for s in case["steps"]]), cl(items))


# ------------------------------------------------------------------------------------------
# restart-vs-uninterrupted relation (the property's own statement) and the K4 signature
# ------------------------------------------------------------------------------------------


def _canon(out):
    """numeric csv cells by value ('1' and '1.0' are the same rate)"""
    def num(x):
        try:
            return str(Fraction(x))
        except (ValueError, ZeroDivisionError):
            return x
    return dict(out, csv=[r[:5] + [num(x) for x in r[5:8]] + r[8:] for r in out["csv"]])


def _strip(out):
    """everything observable except learning rates"""
    def info(i):
        return None if i is None else {k: v for k, v in i.items() if k != "lr"}
    obs = [[o[0], o[1], o[2], info(o[4])] if o[0] == "ok" else o for o in out["obs"]]
    return {"obs": obs, "cache": [info(i) for i in out["cache"]], "csv": [r[:5] + r[6:] for r in out["csv"]],
            "header": out["header"]}


def _rates(out):
    r = [[o[3], o[4]["lr"]] if o[0] == "ok" else None for o in out["obs"]]
    return {"obs": r, "cache": [i["lr"] for i in out["cache"] if i], "csv": [x[5] for x in out["csv"]]}


def _unprintable(out_plain):
    """rates of the uninterrupted run that '{:.4e}' does not reproduce"""
    res = []
    for i in out_plain["cache"]:
        lr = i["lr"] if i else None
        if isinstance(lr, (int, float)) and float("{:.4e}".format(lr)) != lr:
            res.append(lr)
    return res


def k4_signature(entry, rec):
    """exactly the K4 deviation: a rate that the history file's print does not reproduce was
    reached, the restarted run is what the as-coded model (with the print rounding) predicts,
    and nothing except learning rates differs from the uninterrupted run"""
    if entry.get("id") != "K4" or rec.get("kind") != "restart-differs":
        return False
    sig = entry.get("signature", {})
    return (rec["differing"] == sig.get("differing", ["lr"]) and bool(rec["unprintable_rates"])
            and rec["restarted_run_matches_model_as_coded"] is True
            and _strip(rec["impl_restarted"]) == _strip(rec["impl_uninterrupted"]))


# ------------------------------------------------------------------------------------------
# generator
# ------------------------------------------------------------------------------------------

P_DEFAULT = dict(num=None, l10lr=None, es_thr=0, es_pat=1, es_burn=0, rlr_thr=0, rlr_pat=1, rlr_cool=0, rlr_burn=0,
                 fac=0.5, l10eps=-8)


def mk_case(P=None, vals=(), restarts=(), dflt=1.0, decl=(), regime="E", trains=None, kws=None, stream="random"):
    PP = dict(P_DEFAULT)
    PP.update(P or {})
    steps = []
    for i, v in enumerate(vals):
        kw = kws[i] if kws is not None else [[n, (i + n if t == "int" else "s%d" % i)] for n, t in decl]
        steps.append(dict(restart=i in restarts, train=(trains[i] if trains else (3 * i + 1) % 17), val=v, kw=kw))
    return dict(P=PP, dflt=dflt, decl=[list(x) for x in decl], steps=steps, regime=regime, stream=stream)


def deterministic_cases():
    cs = []
    # K4: the default rate 0.0123456789 halves exactly in binary but not in 5 decimal digits
    cs.append(mk_case(dict(rlr_thr=8, rlr_pat=1), [8, 8, 8, 8], {1, 2}, dflt=0.0123456789, stream="k4"))
    cs.append(mk_case(dict(rlr_thr=8, rlr_pat=2, es_thr=4, es_pat=4), [8, 8, 8, 8, 8], {2, 4}, dflt=0.3333333333333333,
                      decl=[(0, "int")], stream="k4"))
    # boundaries: difference equal to the threshold; change equal to epsilon; budget
    cs.append(mk_case(dict(es_thr=4, es_pat=2, rlr_thr=4, rlr_pat=2, num=4), [12, 8, 4, 0, 0, 0], {3}, stream="edge"))
    cs.append(mk_case(dict(es_thr=4, es_pat=2, rlr_thr=4, rlr_pat=2, num=4), [12, 9, 6, 3, 3, 3], {2}, stream="edge"))
    cs.append(mk_case(dict(rlr_thr=8, rlr_pat=1, l10eps=0), [8, 8, 8, 8], set(), dflt=2.0, stream="edge"))
    cs.append(mk_case(dict(rlr_thr=8, rlr_pat=1, l10eps=0), [8, 8, 8, 8], {2}, dflt=4.0, stream="edge"))
    cs.append(mk_case(dict(rlr_thr=8, rlr_pat=1, l10eps=-1, l10lr=0, fac=0.25), [8, 8, 8, 8, 8], {3}, stream="edge"))
    # continuing after early stopping fired (clamped countdown, sliding reference)
    cs.append(mk_case(dict(es_thr=4, es_pat=2), [8, 8, 8, 8, 2, 8, 8, 1, 8], {5}, stream="edge"))
    # user entry errors
    d2 = [(0, "int"), (3, "str")]
    cs.append(mk_case(dict(rlr_thr=4), [8, 8, 8], {2}, decl=d2, stream="kwargs",
                      kws=[[[0, 1], [3, "a"]], [[0, "x"], [3, "a"]], [[3, 'q,"r" '], [0, -7]]]))
    cs.append(mk_case(dict(rlr_thr=4), [8, 8, 8], {1}, decl=d2, stream="kwargs",
                      kws=[[[0, 1]], [[5, 1], [0, "x"], [3, "a"]], [[0, 0], [3, ""]]]))
    cs.append(mk_case(dict(rlr_thr=4), [8, 8], set(), decl=d2, stream="kwargs",
                      kws=[[[0, "x"], [5, 1], [3, "a"]], [[3, "a"], [0, 2], [5, 1]]]))
    return cs


E_RATES = [(1.0, 0.5), (0.0123456789, 0.5), (64.0, 0.25), (3.0, 0.75), (0.375, 0.125), (0.1, 0.5), (1.0, 0.625),
           (2.0, 0.5), (1000.0, 0.25), (0.001, 0.5)]
D_RATES = [(0.01, 0.1), (0.05, 0.3), (1.0, 0.7), (0.002, 0.1), (0.5, 0.9)]


def exhaustive_cases(chk):
    """all metric sequences over a 4-point grid for a parameter lattice, restart after every subset of epochs"""
    thorough = chk.tier == "thorough"
    lattice = []
    for pat, burn, cool in itertools.product([1, 2, 3], [0, 1], [0, 1]):
        lattice.append(dict(es_thr=4, es_pat=pat, es_burn=burn, rlr_thr=4, rlr_pat=max(1, pat - 1), rlr_cool=cool,
                            rlr_burn=1 - burn))
    grid = [0, 4, 8, 10]
    maxlen = 5 if thorough else 4
    cs, k = [], 0
    for L in range(1, maxlen + 1):
        for vals in itertools.product(grid, repeat=L):
            k += 1
            if thorough:
                Ps = [lattice[(k + j) % len(lattice)] for j in range(3)] if L >= 4 else lattice
            else:
                if L == 4 and k % 5:
                    continue
                Ps = [lattice[k % len(lattice)]]
            for j, P in enumerate(Ps):
                if L <= 3 and thorough:
                    subsets = range(2 ** L)
                else:
                    subsets = [(k * 7 + j * 3) % (2 ** L), (2 ** L - 1) if k % 2 else (k // 2) % (2 ** L)]
                for m in sorted(set(subsets)):
                    rs = {i for i in range(L) if m >> i & 1}
                    P2 = dict(P)
                    P2["num"] = None if k % 3 else L - (k % 2)
                    if P2["num"] is not None and P2["num"] < 1:
                        P2["num"] = None
                    cs.append(mk_case(P2, list(vals), rs, stream="exhaustive" if thorough else "exhaustive-slice"))
    chk.extra["exhaustive"] = thorough
    chk.extra["exhaustive_scope"] = ("val metrics in {0,.5,1,1.25}^L, L<=%d, thresholds .5, patience 1..3 x burn-in 0/1 x "
                                     "cool-down 0/1 (18 settings; rotating over them for L>=4), every restart subset for L<=3 "
                                     "(two per sequence for longer ones); the quick tier runs a slice" % maxlen)
    return cs


def random_case(rng, stream="random"):
    regime = "D" if rng.random() < 0.15 else "E"
    dflt, fac = rng.choice(D_RATES if regime == "D" else E_RATES)
    L = rng.choice([1, 2, 3, 4, 5, 6, 6, 7, 8, 10, 12])
    P = dict(es_thr=rng.choice([0, 2, 4, 4, 8]), es_pat=rng.choice([1, 2, 2, 3, 4]), es_burn=rng.choice([0, 0, 1, 2, 3]),
             rlr_thr=rng.choice([0, 2, 4, 4, 8]), rlr_pat=rng.choice([1, 1, 2, 3, 4]), rlr_cool=rng.choice([0, 0, 1, 2, 3]),
             rlr_burn=rng.choice([0, 0, 1, 2, 4]), fac=fac,
             l10eps=rng.choice([-8, -8, -8, -3, -1, 0] if regime == "E" else [-8, -8, -4]),
             num=rng.choice([None, None, L, L - 1, L + 1, max(1, L // 2)]) or None,
             l10lr=rng.choice([None, None, None, 0, 1, -2] if regime == "E" and fac in (0.5, 0.25, 0.125) else [None]))
    if regime == "E" and P["l10lr"] is None and P["l10eps"] == 0:
        dflt = rng.choice([2.0, 4.0, 1.0])  # change equal to / around epsilon = 1
        P["fac"] = 0.5
    step = max(P["es_thr"], P["rlr_thr"], 2) // 2
    vals, v = [], rng.choice([8, 16, 24, 40])
    mode = rng.choice(["plateau", "walk", "descend", "noisy"])
    for _ in range(L):
        if mode == "plateau":
            v = max(0, v + rng.choice([0, 0, 0, -step, step, -2 * step]))
        elif mode == "walk":
            v = max(0, v + rng.choice([-2, -1, 0, 1, 2]) * step)
        elif mode == "descend":
            v = max(0, v - rng.choice([0, step, step, 2 * step, 3 * step]))
        else:
            v = rng.randint(0, 48)
        vals.append(v)
    nd = rng.choice([0, 0, 0, 1, 2, 3])
    decl = [(n, rng.choice(["int", "str"])) for n in rng.sample(range(6), nd)]
    pr = rng.choice([0.0, 0.2, 0.5, 1.0])
    restarts = {i for i in range(L) if rng.random() < pr}
    kws = None
    if decl:
        kws = []
        for i in range(L):
            kw = [[n, (rng.randint(-50, 10 ** rng.randint(0, 12)) if t == "int" else
                       "".join(rng.choice('ab ,"\'0-') for _ in range(rng.randint(0, 5))))] for n, t in decl]
            r = rng.random()
            if r < 0.015:
                kw.pop(rng.randrange(len(kw)))
            elif r < 0.03:
                kw.insert(rng.randrange(len(kw) + 1), [rng.choice([6, 7]), 1])
            elif r < 0.045:
                j = rng.randrange(len(kw))
                kw[j][1] = "zz" if isinstance(kw[j][1], int) else 5
            rng.shuffle(kw)
            kws.append(kw)
    return mk_case(P, vals, restarts, dflt=dflt, decl=decl, regime=regime, kws=kws,
                   trains=[rng.randint(0, 80) for _ in range(L)], stream=stream)


# ---- robustness-audit streams ---------------------------------------------------------------------------
# (notes/AUDIT_GUIDE.md) entry points, call history, falsy / boundary parameters, numeric extremes, unusual names and
# cell contents, optional arguments.  All of them are judged by the same Model.check (and the restart / rules relations).

STR_POOL = ["", "", "", " ", "0", "None", "False", "a,b", '"', "''", "x y", "1e5", "-0", "007", " lead", "trail ", ",",
            '""', "nan", "u1"]
INT_POOL = [0, 0, 0, -1, 1, -0, 7, 255, 256, -32768, 10 ** 18, -10 ** 30, 2 ** 63, 2 ** 64 + 1]


def decorate(rng, case, p=1.0):
    """choose among the equivalent public ways of driving the controller (does not change what the model predicts)"""
    if rng.random() >= p:
        return case
    api = dict(optim=rng.choice(["sgd", "sgd", "adam"]), groups=rng.choice([2, 2, 1]), kwctor=rng.random() < 0.3,
               kwcall=rng.random() < 0.35, getitem=rng.random() < 0.5, ct_epoch=rng.random() < 0.5,
               expl_load=rng.random() < 0.35, soft=rng.choice([0, 0, 0, 1, 2]), ints=rng.random() < 0.5,
               setattr=rng.random() < 0.25)
    pe, pb = rng.choice([0.0, 0.3, 1.0]), rng.choice([0.0, 0.0, 0.5])
    steps = [dict(s, ep=rng.random() < pe, bit=rng.random() < pb) for s in case["steps"]]
    P = dict(case["P"])
    if rng.random() < 0.3:
        P["keep"] = False
    return dict(case, api=api, steps=steps, P=P)


def _metrics(rng, L, step, mode, lo=-48):
    """validation metrics (eighths), negative values included; "stall" sits on a plateau so that countdowns run down"""
    vals, v = [], rng.choice([-40, -8, 0, 8, 24, 60])
    for _ in range(L):
        if mode == "stall":
            v = v + rng.choice([0, 0, 0, 0, step - 1, 1 - step, step // 2, -(step // 2), step, -step])
        elif mode == "descend":
            v = v - rng.choice([0, step - 1, step, step, step + 1, 2 * step])
        elif mode == "walk":
            v = v + rng.choice([-2, -1, 0, 1, 2]) * step
        else:
            v = rng.randint(lo, 96)
        v = max(-790, min(790, v))
        vals.append(v)
    return vals


def _rate_setup(rng, between=False):
    """(regime, default rate, factor, log10 rate, log10 epsilon, first rate): extremes of the numeric options; epsilon
    strictly between the reduced rate and the size of the reduction (a test on the wrong quantity shows), exactly equal
    to the reduction (strict test), larger than every rate, zero"""
    if rng.random() < 0.2 and not between:  # decimal factors close to the ends of (0, 1)
        dflt, fac = rng.choice([(1.0, 0.999), (2.0, 0.001), (0.3, 0.99), (0.5, 0.9), (0.01, 0.1), (1.0, 0.7)])
        return "D", dflt, fac, None, rng.choice([-8, -8, -4, -300, -400]), dflt
    fac = rng.choice([0.25, 0.125, 0.75, 0.625] if between else [0.5, 0.5, 0.25, 0.25, 0.125, 0.75, 0.625])
    pow2 = fac in (0.5, 0.25, 0.125)
    l10lr = rng.choice([None, None, 0, 0, 1, -2, -0.5, -30]) if pow2 else None
    dflt = rng.choice([1.0, 1.0, 2.0, 0.5, 2.0 ** -40, 2.0 ** 40, 1e-30, 1e30, 0.0123456789, 1e-9, 3.0, 1000.0])
    if not pow2:
        dflt = rng.choice([1.0, 3.0, 64.0, 2.0 ** -20])
    k = "between" if between else rng.choice(["std", "std", "between", "between", "equal", "huge", "zero", "tiny"])
    if k == "between" and fac != 0.5:
        g = math.sqrt(fac * (1 - fac))
        if (dflt if l10lr is None else 10 ** l10lr) * g >= 1:
            dflt, l10lr = rng.choice([1.0, 0.5, 2.0 ** -20]), None
        lr = dflt if l10lr is None else 10 ** l10lr
        l10eps = math.log10(lr * fac ** rng.choice([0, 0, 1] if between else [0, 1, 2]) * g)
    elif k == "equal":
        # old - new == epsilon needs a power of ten: rate 2 (or 4) with factor .5 and epsilon 10**0
        l10eps, l10lr, dflt, fac = 0, None, rng.choice([2.0, 4.0, 1.0]), 0.5
    elif k == "huge":
        l10eps = 0
    elif k == "zero":
        l10eps = rng.choice([-400, -330])
    elif k == "tiny":
        l10eps = rng.choice([-300, -30, -12])
    else:
        l10eps = rng.choice([-8, -8, -3, -1])
    return "E", dflt, fac, l10lr, l10eps, (dflt if l10lr is None else 10 ** l10lr)


def _entries(rng, L, heavy=False):
    """declared entries + kwargs per epoch; cells drawn from pools of falsy / separator / number-like contents"""
    nd = rng.choice([1, 1, 2, 3]) if heavy else rng.choice([0, 0, 0, 1, 2])
    decl = [(n, rng.choice(["int", "str", "str"])) for n in rng.sample(range(8), nd)]
    kws = []
    for i in range(L):
        kw = []
        for n, t in decl:
            if t == "int":
                v = rng.choice(INT_POOL) if rng.random() < 0.6 else rng.randint(-50, 10 ** rng.randint(0, 12))
            else:
                v = rng.choice(STR_POOL) if rng.random() < 0.7 else "".join(rng.choice('ab ,"\'0-') for _ in range(rng.randint(0, 5)))
            kw.append([n, v])
        rng.shuffle(kw)
        kws.append(kw)
    return decl, kws


def boundary_case(rng, kind):
    """kind: "boundary" (extreme / falsy values of every numeric option), "cooldown" (cool-down differs from burn-in, metric
    stalls so that the rate is reduced at least once, restarts afterwards), "entries" (user entries with unusual contents
    and names, restarted after every kind of cell)"""
    L = rng.choice([1, 2, 3, 5, 6, 8, 10, 11, 12]) if kind == "boundary" else rng.choice([4, 5, 6, 8, 10, 12])
    if kind == "boundary":
        P = dict(es_thr=rng.choice([0, 0, 1, 4, 8, 800]), es_pat=rng.choice([1, 1, 2, L, L + 1, 10, 12]),
                 es_burn=rng.choice([0, 0, 1, max(0, L - 1), L, 10]),
                 rlr_thr=rng.choice([0, 1, 4, 8, 8, 800]), rlr_pat=rng.choice([1, 1, 2, 3, L, 10]),
                 rlr_cool=rng.choice([0, 0, 1, 2, L, 10, 11]), rlr_burn=rng.choice([0, 0, 1, 3, L, 10]),
                 num=rng.choice([None, None, 1, 2, L, L + 1, 10, 100]))
    elif kind == "cooldown":
        P = dict(es_thr=rng.choice([0, 0, 4, 8]), es_pat=rng.choice([2, 3, 4, 12]), es_burn=rng.choice([0, 1, 2]),
                 rlr_thr=rng.choice([4, 8, 800]), rlr_pat=rng.choice([1, 1, 2]), rlr_burn=rng.choice([0, 0, 1, 2, 3]),
                 num=rng.choice([None, None, L, L + 1]))
        P["rlr_cool"] = rng.choice([c for c in [0, 1, 2, 3, 4] if c != P["rlr_burn"]])
    else:
        P = dict(es_thr=rng.choice([0, 4]), es_pat=rng.choice([1, 2, 3]), es_burn=rng.choice([0, 1]),
                 rlr_thr=rng.choice([0, 4, 8]), rlr_pat=rng.choice([1, 2]), rlr_cool=rng.choice([0, 1]),
                 rlr_burn=rng.choice([0, 1]), num=rng.choice([None, None, L, 10]))
    between = kind == "cooldown" and rng.random() < 0.3
    regime, dflt, fac, l10lr, l10eps, start = _rate_setup(rng, between)
    if kind == "cooldown" and not between and rng.random() < 0.6:  # make sure the reductions are not negligible
        l10eps = -8 if start * (1 - fac) * fac ** 3 > 1e-6 else -400
    if kind == "entries" and rng.random() < 0.7:
        regime, dflt, fac, l10lr, l10eps = "E", 1.0, 0.5, None, -8
    P.update(fac=fac, l10lr=l10lr, l10eps=l10eps)
    step = max(2, min(16, max(P["es_thr"], P["rlr_thr"])))
    mode = "stall" if kind == "cooldown" else rng.choice(["stall", "stall", "descend", "walk", "noisy"])
    vals = _metrics(rng, L, step, mode)
    decl, kws = _entries(rng, L, heavy=kind == "entries")
    pr = rng.choice([0.0, 0.25, 0.5, 1.0]) if kind == "boundary" else rng.choice([0.25, 0.5, 1.0])
    restarts = {i for i in range(L) if rng.random() < pr}
    if kind != "boundary" and L > 1:
        restarts.add(rng.randrange(L // 2, L))  # a restart late enough to re-read what the stream is about
    c = mk_case(P, vals, restarts, dflt=dflt, decl=decl, regime=regime, kws=kws or None,
                trains=[rng.randint(-80, 80) for _ in range(L)], stream=kind)
    if decl and rng.random() < 0.5:
        c["names"] = "odd"
    return decorate(rng, c, 0.75)


def audit_cases(chk, cases):
    """new streams, drawn from a generator derived from the run's seed AFTER the older streams were built (those stay what
    they were); a third of the older random cases are re-driven through the alternative entry points"""
    import random as _random
    rng = _random.Random(chk.rng.getrandbits(64))
    for i, c in enumerate(cases):
        if c["stream"] == "random" and rng.random() < 0.35:
            cases[i] = decorate(rng, c)
    n = {"boundary": 1100, "cooldown": 500, "entries": 500} if chk.tier == "thorough" else \
        {"boundary": 110, "cooldown": 50, "entries": 50}
    for kind in ("boundary", "cooldown", "entries"):
        cases += [boundary_case(rng, kind) for _ in range(n[kind])]
    return cases


def gen_cases(chk):
    cases = deterministic_cases() + exhaustive_cases(chk)
    for c in load_corpus("C15"):
        c = dict(c.get("case", c))
        c["stream"] = "corpus"
        cases.append(c)
    n = 6000 if chk.tier == "thorough" else 700
    cases += [random_case(chk.rng) for _ in range(n)]
    return audit_cases(chk, cases)


def nontrivial(case, out):
    """a restart after at least one epoch and a countdown that was reset after having run down"""
    if not any(s["restart"] for s in case["steps"][1:]):
        return False
    rows = [r for r in out["cache"] if r]
    for a, b in zip(rows, rows[1:]):
        if (a["es_patience_cd"] < case["P"]["es_pat"] <= b["es_patience_cd"]) or \
           (a["rlr_patience_cd"] < case["P"]["rlr_pat"] <= b["rlr_patience_cd"]) or \
           (b["rlr_resume_cd"] > 0 and a["rlr_resume_cd"] == 0 and len(rows) > case["P"]["rlr_burn"]):
            return True
    return False


# ------------------------------------------------------------------------------------------
# driver
# ------------------------------------------------------------------------------------------


def _plain(case):
    c = dict(case)
    c["steps"] = [dict(s, restart=False) for s in case["steps"]]
    return c


def _fails(chk, case):
    out = run_impl(chk, case)
    return not coq_eval_bools(chk.workdir, IMPORTS, [model_term(case, out)], tag="shr")[0]


def _cands(case):
    n = len(case["steps"])
    if n > 1:
        yield dict(case, steps=case["steps"][:-1])
    for i in range(n):
        if case["steps"][i]["restart"]:
            st = [dict(s) for s in case["steps"]]
            st[i]["restart"] = False
            yield dict(case, steps=st)
    if case["decl"]:
        yield dict(case, decl=[], steps=[dict(s, kw=[]) for s in case["steps"]])
    for key, lo in (("es_burn", 0), ("rlr_burn", 0), ("rlr_cool", 0), ("es_pat", 1), ("rlr_pat", 1)):
        if case["P"][key] > lo:
            yield dict(case, P=dict(case["P"], **{key: case["P"][key] - 1}))
    if case["P"]["num"] is not None:
        yield dict(case, P=dict(case["P"], num=None))
    if case.get("api"):
        yield {k: v for k, v in case.items() if k != "api"}
        for k, v in case["api"].items():
            if v not in (False, 0, 2, "sgd"):
                yield dict(case, api=dict(case["api"], **{k: {"groups": 2, "optim": "sgd"}.get(k, 0)}))
    if any(s.get("ep") or s.get("bit") for s in case["steps"]):
        yield dict(case, steps=[{k: v for k, v in s.items() if k not in ("ep", "bit")} for s in case["steps"]])
    if case.get("names"):
        yield {k: v for k, v in case.items() if k != "names"}
    if "keep" in case["P"]:
        yield dict(case, P={k: v for k, v in case["P"].items() if k != "keep"})


def _has_errors(out):
    return any(o[0] == "err" for o in out["obs"])


def run(chk, cases=None):
    chk.rule = ("case = (TrainingStateParams, optimizer default rate, declared user entries, per epoch: restart-before flag, "
                "train metric, val metric, kwargs); the real controller runs on a csv file and a state directory in a scratch "
                "dir, restarted by constructing new controller/model/optimizer + add_entry + load_model_and_optimizer_for_epoch; "
                "update_for_epoch's return value, continue_training(), every param group's lr and self[epoch] after each call, "
                "get_info of every epoch and the parsed csv at the end are compared with PV.C15.Model.run (vm_compute), rates "
                "exactly (regime E: power-of-two factors) or to 1e-12 (regime D: decimal factors); each restarted run is also "
                "compared with the uninterrupted run of the same inputs, and uninterrupted runs are judged by Spec.spec_okb. "
                "non-trivial = a restart after >=1 epoch and a patience countdown that ran down and was reset (or a cool-down)")
    chk.assumptions += ["metrics and thresholds are multiples of 1/8 below 100 (exact in binary64 and in '{:.4e}')",
                        "float multiplication by the factor is exact in regime E; in regime D the model's exact product is "
                        "compared to 1e-12 and no tested rate lies within 1e-12 of a rounding tie or of epsilon",
                        "the csv module's quoting round-trips printable ASCII cells",
                        "history keys are 0..n (update_for_epoch is always called with epoch=None)"]
    replaying = cases is not None
    cases = cases if cases is not None else gen_cases(chk)
    outs, terms, plain_cache, kept, streams = [], [], {}, [], []
    for c in cases:
        stream = c.pop("stream", "random")
        out = run_impl(chk, c)
        if not exact_case(c) and near_tie(out):
            chk.count("dropped: inexact factor and a rate at a print-rounding tie")
            continue
        kept.append(c)
        streams.append(stream)
        outs.append(out)
        terms.append(model_term(c, out))
        chk.note_case(c, nontrivial(c, out), stream)
        P = c["P"]
        chk.count("regime=" + c["regime"])
        chk.count("len=%d" % len(c["steps"]))
        chk.count("restarts=%d" % min(3, sum(s["restart"] for s in c["steps"])))
        chk.count("es_pat=%d" % P["es_pat"])
        chk.count("rlr_pat=%d" % P["rlr_pat"])
        chk.count("es=%s rlr=%s" % ("on" if P["es_thr"] else "off", "on" if P["rlr_thr"] else "off"))
        chk.count("decl=%d" % len(c["decl"]))
        oks = [o for o in out["obs"] if o[0] == "ok"]
        chk.count("outcome=" + ("error" if _has_errors(out) else "stopped" if any(not o[1] for o in oks) else "running"))
        rates = {o[3][0] for o in oks}
        chk.count("rate_changes=%d" % min(3, max(0, len(rates) - 1)))
        # robustness dimensions (notes/AUDIT_GUIDE.md)
        api = c.get("api") or {}
        for k in sorted(api):
            if api[k] not in (False, 0):
                chk.count("api %s=%s" % (k, api[k]))
        chk.count("api: " + ("alternative entry points" if api else "default calls"))
        if any(s.get("ep") for s in c["steps"]):
            chk.count("api explicit epoch argument")
        if any(s.get("bit") for s in c["steps"]):
            chk.count("api best_is_train")
        if c.get("names"):
            chk.count("names=" + c["names"])
        if "keep" in P:
            chk.count("keep_last_and_best_only=%s" % P["keep"])
        last_restart = max([i for i, s in enumerate(c["steps"]) if s["restart"]], default=-1)
        reread = [v for s in c["steps"][:max(last_restart, 0)] for _, v in s["kw"]]
        if "" in reread:
            chk.count("cells re-read after a restart: empty string")
        if any(v == 0 and isinstance(v, int) for v in reread):
            chk.count("cells re-read after a restart: int 0")
        if len(rates) > 1 and P["rlr_cool"] != P["rlr_burn"]:
            chk.count("rate reduced with cool-down != burn-in" + (" and restarted" if last_restart > 0 else ""))
        if len(rates) > 1 and P["l10lr"] is not None and last_restart > 0:
            chk.count("log10_learning_rate set, rate reduced, restarted")
        chk.count("l10eps: " + ("0" if P["l10eps"] == 0 else "<= -300" if P["l10eps"] <= -300 else
                                "non-integer" if P["l10eps"] != int(P["l10eps"]) else "ordinary"))
        chk.count("num_epochs: " + ("None" if P["num"] is None else "1" if P["num"] == 1 else ">= 10" if P["num"] >= 10 else "2..9"))
        if min(s["val"] for s in c["steps"]) < 0:
            chk.count("negative metrics")
        if max(P["es_pat"], P["rlr_pat"], P["es_burn"], P["rlr_burn"], P["rlr_cool"]) >= 10:
            chk.count("two-digit patience / burn-in / cool-down")
    cases = kept
    res = coq_eval_bools(chk.workdir, IMPORTS, terms, shard=SHARD)
    bad = [i for i, ok in enumerate(res) if not ok]
    chk.extra["model_disagreements"] = len(bad)
    if bad:
        by = {}
        for i in bad:
            by[streams[i]] = by.get(streams[i], 0) + 1
        chk.extra["model_disagreements_by_stream"] = by
    source_tie(chk, cases, outs, res)

    # --- the relations the property states, on the implementation alone -------------------
    spec_terms, spec_idx, diffs = [], [], []
    for i, c in enumerate(cases):
        pc = _plain(c)
        key = json.dumps(pc, sort_keys=True)
        if any(s["restart"] for s in c["steps"]):
            if key not in plain_cache:
                plain_cache[key] = run_impl(chk, pc, restarts=False)
            po = plain_cache[key]
            if _canon(po) != _canon(outs[i]):
                diffs.append((i, po))
        else:
            po = outs[i]
            plain_cache[key] = po
        if not _has_errors(po) and key not in {k for k, _ in spec_idx}:
            spec_idx.append((key, i))
            spec_terms.append(spec_term(c, po))
    sres = coq_eval_bools(chk.workdir, IMPORTS, spec_terms, shard=SHARD, tag="spec")
    spec_bad = [spec_idx[j][1] for j, ok in enumerate(sres) if not ok]
    chk.extra["spec_judged_runs"] = len(spec_terms)
    chk.extra["restart_vs_uninterrupted_differences"] = len(diffs)
    if spec_bad:
        by = {}
        for i in spec_bad:
            by[streams[i]] = by.get(streams[i], 0) + 1
        chk.extra["rules_rejections_by_stream"] = by

    concrete = False
    for i in [i for i, o in enumerate(outs) if any(a != b for _, a, b in o.get("ct_later", []))][:2]:
        chk.report({"kind": "continue-training-history", "case": cases[i], "impl": outs[i],
                    "what": "continue_training(epoch), asked at the end of the run, differs from continue_training() right "
                            "after that epoch although the history of that epoch is the same (impl.ct_later = [epoch, then, now])",
                    "theorems_at_stake": ["c15_stop_iff_rule"]})
        concrete = True
    for i in spec_bad[:3]:
        c = cases[i]
        po = plain_cache[json.dumps(_plain(c), sort_keys=True)]
        chk.report({"kind": "rules", "case": _plain(c), "impl": po,
                    "model": coq_eval_print(chk.workdir, IMPORTS, "s_run %s (s_init %s %s) %s" % (
                        c_params(c["P"]), c_params(c["P"]), cq(Fraction(c["dflt"])), cl([cz(s["val"]) for s in c["steps"]]))),
                    "what": "stop decision or learning rate of an uninterrupted run does not follow the stated rules "
                            "(Spec.spec_okb rejects the implementation's output)",
                    "theorems_at_stake": THEOREMS[:4]})
        concrete = True
    reported_other = 0
    for i, po in diffs:
        c = cases[i]
        differing = sorted({"lr"} if _strip(po) == _strip(outs[i]) else {"decisions/countdowns/entries"})
        rec = {"kind": "restart-differs", "case": c, "impl_restarted": outs[i], "impl_uninterrupted": po,
               "differing": differing, "unprintable_rates": _unprintable(po),
               "restarted_run_matches_model_as_coded": bool(res[i]),
               "rates_restarted": _rates(outs[i]), "rates_uninterrupted": _rates(po),
               "what": "a controller rebuilt from the history file and state directory does not reproduce the uninterrupted run",
               "theorems_at_stake": ["c15_restart_equivalent"]}
        if chk.known_match(k4_signature, rec) is None:
            if reported_other >= 3:
                continue
            reported_other += 1
            concrete = True
        chk.report(rec, k4_signature)

    # --- model disagreements ------------------------------------------------------------------
    if bad:
        rep = coq_eval_bools(chk.workdir, IMPORTS, [model_term(cases[i], outs[i], rnd="Qred b64", tol=TOL) for i in bad], tag="rep")
        differs = coq_eval_bools(chk.workdir, IMPORTS,
                                 [model_term(cases[i], outs[i], rnd="Qred b64", tol=TOL) for i in range(len(cases)) if res[i]][:400], tag="rep2")
        chk.extra["agree_with_repaired_model"] = sum(rep)
        if all(rep) and all(differs) and not diffs and not concrete:
            # the implementation now behaves like the model without print rounding on every case
            chk.notes.append("implementation agrees with the repaired model (no print rounding) on all cases")
            chk.extra["matches"] = "Model with rnd = Qred (repaired)"
            return
    if bad and not concrete:
        i = bad[0]
        case = cases[i] if replaying else shrink(cases[i], lambda c: _fails(chk, c), _cands, budget=30)
        out = run_impl(chk, case)
        rec = {"kind": "model", "case": case, "impl": out,
               "model": coq_eval_print(chk.workdir, IMPORTS, "run fmt5 b64 %s %s %s (init_state %s %s) %s" % (
                   c_params(case["P"]), c_decl(case["decl"]), cq(Fraction(case["dflt"])), c_params(case["P"]),
                   cq(Fraction(case["dflt"])), c_steps(case["steps"]))),
               "correspondence": "corr:C15:TrainingStateController.update_for_epoch/update_cache/save_info_to_hist",
               "theorems_at_stake": THEOREMS}
        # user entries: returned with declared type and stored value?
        typed_ok = True
        for st, o in zip(case["steps"], out["obs"]):
            if o[0] == "ok":
                given = {n: v for n, v in st["kw"]}
                for n, tn, v in o[4]["user"]:
                    if given.get(n) != v or tn != dict(map(tuple, case["decl"]))[n]:
                        typed_ok = False
        if not typed_ok:
            rec["what"] = "a user-defined entry is not returned with its declared type / stored value"
            chk.report(rec)
        else:
            rec["what"] = ("implementation differs from the model, but uninterrupted runs follow the rules and restarted "
                           "runs equal uninterrupted ones on every explored input")
            chk.report(rec, no_failing_input=True)


def replay(chk, path):
    rec = json.loads(open(path).read())
    case = rec["case"]
    case.pop("stream", None)
    run(chk, [dict(case)])
