#!/usr/bin/env python3
"""developer tool: refresh the generated regions of DESIGN.md (per-property table 9.2, seeded-change list 9.4)"""
import os
import re
import subprocess
import sys

V = os.path.dirname(os.path.dirname(os.path.abspath(__file__)))


def out(tool):
    return subprocess.run([sys.executable, os.path.join(V, "harness", tool)], capture_output=True, text=True, check=True).stdout.rstrip("\n")


def main():
    p = os.path.join(V, "DESIGN.md")
    text = open(p).read()
    for tag, tool in (("table92", "design_table.py"), ("seedlist", "seed_table.py"), ("findings", "findings_table.py")):
        pat = re.compile(r"(<!-- BEGIN %s[^\n]*-->\n).*?(<!-- END %s -->)" % (tag, tag), re.S)
        assert pat.search(text), tag
        text = pat.sub(lambda m: m.group(1) + out(tool) + "\n" + m.group(2), text)
    open(p, "w").write(text)


main()
