(* C07, second source tie - the translated sources of `ctc_greedy_search`, `random_walk_advance` and
   `_sequence_log_probs_ps` (_decoding.py; PV.Gen.C07BSrc, regenerated from /repo on every run by
   harness/py2coq/translate.py, whole bodies) as executables: the environment [ext07B], the encodings of the
   model's values as MiniPy tensor values, and the correspondence entry points [src_greedy_check],
   [src_adv_check], [src_ps_check].  Definitions only; the lemmas are in TieB*.v.

   [ext07B lsm mn] extends SrcRun.ext07_ops (first tie; reused as it is for every call it already knows) with the
   calls below, whose meaning is defined in PV.MiniTorch.OpsC07B.  What arrives here (see MiniPy.Interp):
     x.size(d) x.transpose(0, 1) x.t() x.T  x.max(2) [float: (values, indices)]  x.max() [long, 0-d]  x.item()
     x.long() x.to(torch.long) x.sum(1) [long] x.prod(1) x.masked_select(m) x.masked_scatter_(m, s) x.exp()
     x.gather(1, i) [2-D] x.scatter(0, i, s)          "$method.<name>", the tensor first
     x != c, x != y, x < y (tensors)                  "compare" ["ne" | "lt"; a; b]
     x[:, a:b]  x[idx]                                "$getitem" [x; key]
     ~m                                               "$invert" [m]
     a + b (float tensors)                            "operator" ["add"; a; b]
     torch.cat([a, b], d), torch.arange(n), torch.index_select(x, d, i), int(z)
     x.log_softmax(2)                                 the ORACLE [lsm] (shape-preserving; last dimension only)
     torch.multinomial(x.exp(), 1, True)              the ORACLE [mn] applied to x: `x.exp()` is an opaque tagged
                                                      value that only torch.multinomial consumes; the draw must
                                                      have shape (N, 1) (what torch.multinomial returns for N rows)
     torch.nn.utils.rnn.pack_padded_sequence / pad_packed_sequence, SpoofPackedSequence
                                                      PackedSequence = a 4-tuple (data, batch_sizes, None, None)
   The decorators `@script` / `@functional_wrapper` are outside the bodies: TorchScript is NOT modelled. *)
From Coq Require Import ZArith QArith List String Bool.
From PV Require Import MiniPy.Syntax MiniPy.Interp MiniTorch.Ops MiniTorch.OpsC07 MiniTorch.OpsC07B Gen.C07BSrc.
From PV Require Import C07.SrcRun.
From PV Require C07.Model.
Import ListNotations.
Local Open Scope string_scope.

Definition exp_tag : string := "$exp".

Definition any_transpose (t : anyt) : option anyt :=
  match t with
  | TB x => option_map TB (transpose01 false x)
  | TI x => option_map TI (transpose01 0%Z x)
  | TF x => option_map TF (transpose01 xzero x)
  end.

Definition any_slice_cols (t : anyt) (lo hi : option Z) : option anyt :=
  match t with
  | TB x => option_map TB (slice_cols false x lo hi)
  | TI x => option_map TI (slice_cols 0%Z x lo hi)
  | TF x => option_map TF (slice_cols xzero x lo hi)
  end.

Definition any_cat2 (a b : anyt) (d : Z) : option anyt :=
  match a, b with
  | TB x, TB y => option_map TB (cat2 false x y d)
  | TI x, TI y => option_map TI (cat2 0%Z x y d)
  | TF x, TF y => option_map TF (cat2 xzero x y d)
  | _, _ => None
  end.

(* a slice bound: None or an int *)
Definition bound (v : val) : option (option Z) :=
  match v with VNone => Some None | VInt z => Some (Some z) | _ => None end.

Definition full_slice (v : val) : bool :=
  match v with VTuple [VStr tg; VNone; VNone; VNone] => is tg "$slice" | _ => false end.

Definition is_rank2 (t : anyt) : bool := Nat.eqb (List.length (any_shape t)) 2.

Section ExtB.
  Variable lsm : tn xq -> tn xq.       (* Tensor.log_softmax(last dim) / F.log_softmax(., -1) *)
  Variable mn : tn xq -> tn Z.         (* torch.multinomial(exp(.), 1, True) *)

  Definition ext07B (f : string) (args : list val) (kw : list (string * val)) (st : state) : outcome val :=
    if is f "$method.size" then
      match args, kw with
      | [t; VInt d], [] =>
          match dec_any t with
          | Some x => match wrap_dim (List.length (any_shape x)) d with
                      | Some k => Ok (VInt (Z.of_nat (nth k (any_shape x) 0%nat))) st
                      | None => oob "size"
                      end
          | None => Stuck "size"
          end
      | _, _ => Stuck "size"
      end
    else if is f "$method.log_softmax" then
      match args, kw with
      | [t; VInt d], [] =>
          match dec_any t with
          | Some (TF x) =>
              match wrap_dim (rank x) d with
              | Some k => if (Nat.eqb (rank x) (S k) && nats_eqb (shp (lsm x)) (shp x))%bool
                          then Ok (enc_f (lsm x)) st else oob "log_softmax"
              | None => oob "log_softmax"
              end
          | _ => Stuck "log_softmax: not a float tensor"
          end
      | _, _ => Stuck "log_softmax"
      end
    else if is f "$method.transpose" then
      match args, kw with
      | [t; VInt 0; VInt 1], [] =>
          match dec_any t with Some x => ret_any "transpose" (any_transpose x) st | None => Stuck "transpose" end
      | _, _ => Stuck "transpose"
      end
    else if (is f "$method.t" || is f "$attr.T")%bool then
      match args, kw with
      | [t], [] =>
          match dec_any t with
          | Some x => if is_rank2 x then ret_any "t" (any_transpose x) st else oob "t: only 2-D"
          | None => Stuck "t"
          end
      | _, _ => Stuck "t"
      end
    else if is f "$method.max" then
      match args, kw with
      | [t; VInt d], [] =>
          match dec_any t with
          | Some (TF x) =>
              match max_last x d with
              | Some (Some (v, i)) => Ok (VTuple [enc_f v; enc_i i]) st
              | Some None => Exc index_error st
              | None => oob "max"
              end
          | _ => ext07_ops lsm f args kw st
          end
      | [t], [] =>
          match dec_any t with
          | Some (TI x) => match max_all x with Some m => Ok (enc_i m) st | None => Exc runtime_error st end
          | _ => Stuck "max()"
          end
      | _, _ => Stuck "max"
      end
    else if is f "$method.item" then
      match args, kw with
      | [t], [] => match dec_any t with
                   | Some (TI x) => match item x with Some z => Ok (VInt z) st | None => oob "item" end
                   | _ => Stuck "item"
                   end
      | _, _ => Stuck "item"
      end
    else if is f "int" then
      match args, kw with [VInt z], [] => Ok (VInt z) st | _, _ => Stuck "int" end
    else if is f "compare" then
      match args, kw with
      | [VStr o; a; b], [] =>
          if is o "ne" then
            match dec_any a, dec_any b, b with
            | Some (TI x), Some (TI y), _ => ret_any "ne" (option_map TB (ne_t x y)) st
            | Some (TI x), None, VInt c => Ok (enc_b (ne_s x c)) st
            | _, _, _ => Stuck "compare ne"
            end
          else if is o "lt" then
            match dec_any a, dec_any b with
            | Some (TI x), Some (TI y) => ret_any "lt" (option_map TB (lt_t x y)) st
            | _, _ => Stuck "compare lt"
            end
          else ext07_ops lsm f args kw st
      | _, _ => Stuck "compare"
      end
    else if is f "$getitem" then
      match args, kw with
      | [t; k], [] =>
          match k with
          | VTuple [s0; VTuple [VStr tg; lo; hi; VNone]] =>
              if (full_slice s0 && is tg "$slice")%bool then
                match dec_any t, bound lo, bound hi with
                | Some x, Some l, Some h => ret_any "x[:, a:b]" (any_slice_cols x l h) st
                | _, _, _ => Stuck "getitem"
                end
              else Stuck "getitem: only x[:, a:b]"
          | _ =>
              match dec_any t, dec_any k with
              | Some (TF x), Some (TI i) => ret_any "x[idx]" (option_map TF (index1 xzero x i)) st
              | _, _ => Stuck "getitem"
              end
          end
      | _, _ => Stuck "getitem"
      end
    else if is f "torch.cat" then
      match args, kw with
      | [VList [a; b]; VInt d], [] =>
          match dec_any a, dec_any b with
          | Some x, Some y => ret_any "cat" (any_cat2 x y d) st
          | _, _ => Stuck "cat"
          end
      | _, _ => Stuck "cat"
      end
    else if is f "$invert" then
      match args, kw with
      | [t], [] => match dec_any t with Some (TB x) => Ok (enc_b (bnot x)) st | _ => Stuck "invert" end
      | _, _ => Stuck "invert"
      end
    else if is f "$method.long" then
      match args, kw with
      | [t], [] => match dec_any t with Some (TB x) => Ok (enc_i (to_long x)) st | _ => Stuck "long" end
      | _, _ => Stuck "long"
      end
    else if is f "$method.to" then
      match args, kw with
      | [t; d], [] => if val_eqb d long_token
                      then match dec_any t with Some (TB x) => Ok (enc_i (to_long x)) st | _ => Stuck "to" end
                      else Stuck "to: dtype"
      | _, _ => Stuck "to"
      end
    else if is f "$method.sum" then
      match args, kw with
      | [t; VInt d], [] =>
          match dec_any t with
          | Some (TI x) => ret_any "sum" (option_map TI (sum_long x d)) st
          | _ => ext07_ops lsm f args kw st
          end
      | _, _ => Stuck "sum"
      end
    else if is f "$method.prod" then
      match args, kw with
      | [t; VInt d], [] =>
          match dec_any t with
          | Some (TF x) => ret_any "prod" (option_map TF (prod_dim x d)) st
          | _ => Stuck "prod"
          end
      | _, _ => Stuck "prod"
      end
    else if is f "$method.masked_select" then
      match args, kw with
      | [t; m], [] =>
          match dec_any t, dec_any m with
          | Some (TI x), Some (TB y) => ret_any "masked_select" (option_map TI (masked_select x y)) st
          | _, _ => Stuck "masked_select"
          end
      | _, _ => Stuck "masked_select"
      end
    else if is f "$method.masked_scatter_" then
      match args, kw with
      | [t; m; s], [] =>
          match dec_any t, dec_any m, dec_any s with
          | Some (TI x), Some (TB y), Some (TI z) => ret_any "masked_scatter_" (option_map TI (masked_scatter x y z)) st
          | _, _, _ => Stuck "masked_scatter_"
          end
      | _, _ => Stuck "masked_scatter_"
      end
    else if is f "$method.exp" then
      match args, kw with
      | [t], [] => match dec_any t with Some (TF _) => Ok (VTuple [VStr exp_tag; t]) st | _ => Stuck "exp" end
      | _, _ => Stuck "exp"
      end
    else if is f "torch.multinomial" then
      match args, kw with
      | [VTuple [VStr tag; t]; VInt 1; VBool true], [] =>
          if is tag exp_tag then
            match dec_any t with
            | Some (TF x) =>
                match shp x with
                | [N; _] => if nats_eqb (shp (mn x)) [N; 1%nat] then Ok (enc_i (mn x)) st else oob "multinomial"
                | _ => oob "multinomial"
                end
            | _ => Stuck "multinomial"
            end
          else Stuck "multinomial"
      | _, _ => Stuck "multinomial"
      end
    else if is f "$method.gather" then
      match args, kw with
      | [t; VInt 1; i], [] =>
          match dec_any t, dec_any i with
          | Some (TF x), Some (TI y) =>
              if (Nat.eqb (rank x) 2 && Nat.eqb (rank y) 2)%bool
              then ret_any "gather" (option_map TF (gather_last x y)) st else oob "gather(1, .): only 2-D"
          | _, _ => Stuck "gather"
          end
      | _, _ => ext07_ops lsm f args kw st
      end
    else if is f "$method.scatter" then
      match args, kw with
      | [t; VInt 0; i; s], [] =>
          match dec_any t, dec_any i, dec_any s with
          | Some (TI x), Some (TI y), Some (TI z) => ret_any "scatter" (option_map TI (scatter0 x y z)) st
          | _, _, _ => Stuck "scatter"
          end
      | _, _ => Stuck "scatter"
      end
    else if is f "operator" then
      match args, kw with
      | [VStr o; a; b], [] =>
          match (if is o "add" then dec_any a else None), dec_any b with
          | Some (TF x), Some (TF y) => ret_any "add" (option_map TF (add_t x y)) st
          | _, _ => ext07_ops lsm f args kw st
          end
      | _, _ => Stuck "operator"
      end
    else if is f "torch.arange" then
      match args, kw with
      | [VInt n], [] => ret_any "arange" (option_map TI (arange n)) st
      | _, _ => ext07_ops lsm f args kw st
      end
    else if is f "torch.index_select" then
      match args, kw with
      | [t; VInt d; i], [] =>
          match dec_any t, dec_any i with
          | Some (TI x), Some (TI y) => ret_any "index_select" (option_map TI (index_select2 0%Z x d y)) st
          | _, _ => Stuck "index_select"
          end
      | _, _ => Stuck "index_select"
      end
    else if is f "torch.nn.utils.rnn.pack_padded_sequence" then
      match args, kw with
      | [t; l], [(k, VBool b)] =>
          if is k "batch_first" then
            match dec_any t, dec_any l with
            | Some (TI x), Some (TI y) =>
                match pack_padded x y b with
                | Some (d, bs) => Ok (VTuple [enc_i d; enc_i bs; VNone; VNone]) st
                | None => oob "pack_padded_sequence"
                end
            | _, _ => Stuck "pack_padded_sequence"
            end
          else Stuck "pack_padded_sequence: keyword"
      | _, _ => Stuck "pack_padded_sequence"
      end
    else if is f "SpoofPackedSequence" then
      match args, kw with [a; b; c; d], [] => Ok (VTuple [a; b; c; d]) st | _, _ => Stuck "SpoofPackedSequence" end
    else if is f "torch.nn.utils.rnn.pad_packed_sequence" then
      match args, kw with
      | [VTuple [v; bs; VNone; VNone]], [(k, VBool true)] =>
          if is k "batch_first" then
            match dec_any v, dec_any bs with
            | Some (TF x), Some (TI y) =>
                match pad_packed x y with
                | Some (p, l) => Ok (VTuple [enc_f p; enc_i l]) st
                | None => oob "pad_packed_sequence"
                end
            | _, _ => Stuck "pad_packed_sequence"
            end
          else Stuck "pad_packed_sequence: keyword"
      | _, _ => Stuck "pad_packed_sequence"
      end
    else ext07_ops lsm f args kw st.
End ExtB.

(* ---- ctc_greedy_search ------------------------------------------------------------------------------------------ *)
Definition opt_tensor_i (o : option (tn Z)) : val := match o with Some t => enc_i t | None => VNone end.

(* the arguments of ctc_greedy_search(logits, in_lens, blank_idx, batch_first, is_probs) *)
Definition greedy_vars (logits : tn xq) (in_lens : option (tn Z)) (blank : Z) (bf ip : bool) : list (string * val) :=
  [("logits", enc_f logits); ("in_lens", opt_tensor_i in_lens); ("blank_idx", VInt blank);
   ("batch_first", VBool bf); ("is_probs", VBool ip)].

Definition run_greedy lsm mn logits in_lens blank bf ip : outcome val :=
  Interp.run (ext07B lsm mn) greedy_body (greedy_vars logits in_lens blank bf ip).

(* the model's batch-first scores lp[n][t][v] as the tensor the function receives: (N, T, V) when batch_first,
   (T, N, V) otherwise *)
Definition lp3 {X} (d : X) (lp : list (list (list X))) (n t v : nat) : X := nth v (nth t (nth n lp []) []) d.

Definition logits3 (bf : bool) (N T V : nat) (f : nat -> nat -> nat -> xq) : tn xq :=
  if bf then mkTn [N; T; V] (tab3 N T V f) else mkTn [T; N; V] (tab3 T N V (fun t n v => f n t v)).

(* the paths (N x T, batch-first in the model) as the tensor the function returns *)
Definition paths2 (bf : bool) (N T : nat) (p : nat -> nat -> Z) : tn Z :=
  if bf then mkTn [N; T] (tab2 N T p) else mkTn [T; N] (tab2 T N (fun t n => p n t)).

Definition in_lens_tensor (in_lens : option (list Z)) : option (tn Z) :=
  option_map (fun ls => mkTn [List.length ls] ls) in_lens.

Definition no_draw (x : tn xq) : tn Z := mkTn [] [].

(* ---- executable entry point: same interface as Model.check_greedy ---------------------------------------------------
   lp: the integers the model receives (is_probs = false: float64 log-softmax values on the 2^-40 grid, the oracle is
   the identity, scores are compared within tol; is_probs = true: probabilities k/one as the integers k, the source
   receives the rationals k/one, its score times one^T is compared exactly).  BOTH layouts are run. *)
Definition greedy_input (ip : bool) (one : Z) (z : Z) : xq :=
  if ip then Fin (Qred (z # Z.to_pos one)) else zq z.

Definition greedy_score_back (ip : bool) (one : Z) (T : nat) (x : xq) : option Z :=
  if ip then match x with
             | Fin q => xq_z (Fin (Qred (q * inject_Z (one ^ Z.of_nat T))))
             | NInf => None
             end
  else xq_z x.

Definition nat_of_z (z : Z) : option nat := if (0 <=? z)%Z then Some (Z.to_nat z) else None.

Definition src_greedy (bf ip : bool) (one : Z) (blank : Z) (N T V : nat) (in_lens : option (list Z))
  (lp : list (list (list Z))) : option (option (list Z * list (list nat) * list nat)) :=
  let L := logits3 bf N T V (fun n t v => greedy_input ip one (lp3 0%Z lp n t v)) in
  match run_greedy (fun x => x) no_draw L (in_lens_tensor in_lens) blank bf ip with
  | Ok (VTuple [s; p; l]) _ =>
      match dec_any s, dec_any p, dec_any l with
      | Some (TF ts), Some (TI tp), Some (TI tl) =>
          if (nats_eqb (shp ts) [N] && nats_eqb (shp tp) (if bf then [N; T] else [T; N]) && nats_eqb (shp tl) [N])%bool
          then
            let pn := if bf then Some tp else transpose01 0%Z tp in
            match all_some (map (greedy_score_back ip one T) (dat ts)), pn, all_some (map nat_of_z (dat tl)) with
            | Some sc, Some tp', Some ls =>
                match all_some (map nat_of_z (dat tp')) with
                | Some ps => Some (Some (sc, chunks N T ps, ls))
                | None => None
                end
            | _, _, _ => None
            end
          else None
      | _, _, _ => None
      end
  | Ok _ _ => None
  | Exc _ _ => Some None
  | Stuck _ => None
  end.

Definition greedy_agree (tol : Z) (r : option (option (list Z * list (list nat) * list nat)))
  (impl : option (list Z * list (list nat) * list nat)) : bool :=
  match r, impl with
  | Some None, None => true
  | Some (Some (sc, paths, lens)), Some (isc, ipaths, ilens) =>
      (C07.Model.list_closeb tol sc isc && C07.Model.nlist_eqb lens ilens &&
       Nat.eqb (List.length paths) (List.length ipaths) &&
       forallb (fun p => C07.Model.nlist_eqb (firstn (snd p) (fst (fst p))) (firstn (snd p) (snd (fst p))))
               (combine (combine paths ipaths) ilens))%bool
  | _, _ => false
  end.

Definition src_greedy_check (tol : Z) (ip : bool) (one V blank : Z) (T : nat) (in_lens : option (list Z))
  (lp : list (list (list Z))) (impl : option (list Z * list (list nat) * list nat)) : bool :=
  let N := List.length lp in
  (greedy_agree tol (src_greedy true ip one blank N T (Z.to_nat V) in_lens lp) impl &&
   greedy_agree tol (src_greedy false ip one blank N T (Z.to_nat V) in_lens lp) impl)%bool.

(* ---- random_walk_advance ---------------------------------------------------------------------------------------------- *)
(* the arguments of random_walk_advance(log_probs_t, log_probs_prev, y_prev, y_prev_lens) *)
Definition adv_vars (lpt prev : tn xq) (y : tn Z) (lens : option (tn Z)) : list (string * val) :=
  [("log_probs_t", enc_f lpt); ("log_probs_prev", enc_f prev); ("y_prev", enc_i y); ("y_prev_lens", opt_tensor_i lens)].

Definition run_adv lsm mn lpt prev y lens : outcome val :=
  Interp.run (ext07B lsm mn) rw_advance_body (adv_vars lpt prev y lens).

(* y (S x N) as nested lists <-> tensor *)
Definition mat_tensor (R C : nat) (m : list (list Z)) : tn Z :=
  mkTn [R; C] (tab2 R C (fun r c => nth c (nth r m []) 0%Z)).

(* executable entry point: y_next and log_probs_next against the implementation's (exact: the harness feeds quarter
   units as integers, None = -inf); the draw yt is handed in as the multinomial oracle *)
Definition zq_opt (o : option Z) : xq := match o with Some z => zq z | None => NInf end.

Definition src_adv (S N V : nat) (y : list (list Z)) (lens : option (list Z)) (yt : list Z)
  (lpt : list (list (option Z))) (prev : list Z) : option (option (list (list Z) * list Z)) :=
  let LPT := mkTn [N; V] (tab2 N V (fun n v => zq_opt (nth v (nth n lpt []) None))) in
  let PREV := mkTn [N] (map zq prev) in
  match run_adv (fun x => x) (fun _ => mkTn [N; 1%nat] yt) LPT PREV (mat_tensor S N y)
                (option_map (fun ls => mkTn [List.length ls] ls) lens) with
  | Ok (VTuple [yn; lpn]) _ =>
      match dec_any yn, dec_any lpn with
      | Some (TI ty), Some (TF tl) =>
          match shp ty, all_some (map xq_z (dat tl)) with
          | [R; C], Some zs => if Nat.eqb C N then Some (Some (chunks R N (dat ty), zs)) else None
          | _, _ => None
          end
      | _, _ => None
      end
  | Ok _ _ => None
  | Exc _ _ => Some None
  | Stuck _ => None
  end.

Definition src_adv_check (S N V : nat) (y : list (list Z)) (lens : option (list Z)) (yt : list Z)
  (lpt : list (list (option Z))) (prev : list Z) (impl : option (list (list Z) * list Z)) : bool :=
  match src_adv S N V y lens yt lpt prev, impl with
  | Some None, None => true
  | Some (Some (yn, lp)), Some (iy, ilp) => (C07.Model.zmat_eqb yn iy && C07.Model.zlist_eqb lp ilp)%bool
  | _, _ => false
  end.

(* ---- _sequence_log_probs_ps ------------------------------------------------------------------------------------------------ *)
Definition opt_idx (o : option (list nat)) : val :=
  match o with Some l => enc_i (mkTn [List.length l] (map Z.of_nat l)) | None => VNone end.

(* the arguments of _sequence_log_probs_ps(logits, hyp, dim); logits = (data, batch_sizes, sorted_indices, unsorted_indices) *)
Definition ps_vars (data : tn xq) (bs : tn Z) (sidx uidx : option (list nat)) (hyp : tn Z) (dim : Z) : list (string * val) :=
  ("logits", VTuple [enc_f data; enc_i bs; opt_idx sidx; opt_idx uidx]) :: ("hyp", enc_i hyp) :: ("dim", VInt dim) :: globals07.

Definition run_ps lsm mn data bs sidx uidx hyp dim : outcome val :=
  Interp.run (ext07B lsm mn) slp_ps_body (ps_vars data bs sidx uidx hyp dim).

(* executable entry point, the interface of Model.check_slp_ps (hyp time-major T x N); the source is run on the
   time-major hyp with dim = 0 and on its transpose with dim = 1 *)
Definition src_ps (tm : bool) (V : Z) (data : list (list Z)) (bs : list nat) (sidx uidx : option (list nat)) (N : nat)
  (hyp : list (list Z)) : option (option (list Z)) :=
  let M := List.length data in
  let Vn := Z.to_nat V in
  let T := List.length hyp in
  let D := mkTn [M; Vn] (tab2 M Vn (fun m v => zq (nth v (nth m data []) 0%Z))) in
  let H := if tm then mat_tensor T N hyp else mkTn [N; T] (tab2 N T (fun n t => nth n (nth t hyp []) 0%Z)) in
  match run_ps (fun x => x) no_draw D (mkTn [List.length bs] (map Z.of_nat bs)) sidx uidx H (if tm then 0 else 1) with
  | Ok v _ => match dec_any v with
              | Some (TF t) => match shp t with [_] => option_map Some (all_some (map xq_z (dat t))) | _ => None end
              | _ => None
              end
  | Exc _ _ => Some None
  | Stuck _ => None
  end.

Definition src_ps_check (tol V : Z) (data : list (list Z)) (bs : list nat) (sidx uidx : option (list nat)) (N : nat)
  (hyp : list (list Z)) (impl : list Z) : bool :=
  match src_ps true V data bs sidx uidx N hyp, src_ps false V data bs sidx uidx N hyp with
  | Some (Some a), Some (Some b) => (C07.Model.list_closeb tol a impl && C07.Model.list_closeb tol b impl)%bool
  | _, _ => false
  end.
