(* C09 — symbolic run of `_get_padding_buffers` (PV.Gen.C09Src.gpb_body), one lemma per mode: on tabulated tensors of any
   sizes the interpreter returns exactly TieSrc.src_gpb. *)
From Coq Require Import ZArith List String Bool Arith Lia ZifyBool ZifyNat.
From PV Require Import MiniPy.Syntax MiniPy.Interp MiniTorch.Ops MiniTorch.OpsC09 MiniTorch.LemmasC09 Gen.C09Src.
From PV Require Import C09.SrcRun C09.TieSrc C09.TieTac.
From PV Require C09.Model.
Import ListNotations.
Local Open Scope string_scope.

Definition lensT N lf : tn Z := mkTn [N] (tab1 N (ZI lf)).

Definition gvars N T F xf lf pf qf (md : Model.mode) :=
  gpb_vars (enc_p (xT N T F xf)) (enc_i (lensT N lf)) (enc_i (lensT N pf)) (enc_i (lensT N qf)) (mode_val md).

Lemma max_all_ZI N f :
  max_all (mkTn [N] (tab1 N (ZI f))) = match N with 0%nat => None | _ => Some (mkTn [] [Z.of_nat (list_max (map f (seq 0 N)))]) end.
Proof. apply max_all_nat. reflexivity. Qed.

Lemma max_all_ZI_pos N f :
  N <> 0%nat -> max_all (mkTn [N] (tab1 N (ZI f))) = Some (mkTn [] [Z.of_nat (list_max (map f (seq 0 N)))]).
Proof. intros H. rewrite max_all_ZI. now destruct N. Qed.

Lemma gpb_constant N T F xf lf pf qf :
  exists st, Interp.run ext09g gpb_body (gvars N T F xf lf pf qf Model.Constant) = out_gpb (src_gpb N T F xf lf pf qf Model.Constant) st.
Proof.
  unfold Interp.run, gpb_body, gvars, gpb_vars, xT, lensT.
  stmt. close_stmt.
  stmt. close_stmt.
  stmt. close_stmt.
  stmt. close_stmt.
  repeat (progress tstep). eexists. reflexivity.
Qed.

Lemma gpb_other N T F xf lf pf qf :
  exists st, Interp.run ext09g gpb_body (gvars N T F xf lf pf qf Model.OtherMode) = out_gpb (src_gpb N T F xf lf pf qf Model.OtherMode) st.
Proof.
  unfold Interp.run, gpb_body, gvars, gpb_vars, xT, lensT.
  stmt. close_stmt.
  stmt. close_stmt.
  stmt. close_stmt.
  stmt. eexists. reflexivity.
Qed.

(* what the reflect branch needs to know once its legality test has passed *)
Definition refl_ok N T (lf pf qf : nat -> nat) : Prop := forall i, (i < N)%nat -> (pf i < lf i /\ qf i < lf i /\ lf i <= T)%nat.

Lemma existsb_false_in {A} (f : A -> bool) l : existsb f l = false -> forall x, List.In x l -> f x = false.
Proof.
  intros H x Hx. destruct (f x) eqn:E; [|reflexivity].
  assert (existsb f l = true) by (apply existsb_exists; eauto). congruence.
Qed.

Lemma list_max_map_le (f : nat -> nat) l b : (forall i, List.In i l -> (f i <= b)%nat) -> (list_max (map f l) <= b)%nat.
Proof.
  intros H. apply list_max_le. apply Forall_forall. intros x Hx. apply in_map_iff in Hx as (i & <- & Hi). now apply H.
Qed.

Lemma gpb_reflect N T F xf lf pf qf :
  (forall i, (i < N)%nat -> (lf i <= T)%nat) ->
  exists st, Interp.run ext09g gpb_body (gvars N T F xf lf pf qf Model.Reflect) = out_gpb (src_gpb N T F xf lf pf qf Model.Reflect) st.
Proof.
  intros HT.
  unfold Interp.run, gpb_body, gvars, gpb_vars, xT, lensT.
  stmt. close_stmt.
  stmt. close_stmt.
  stmt. close_stmt.
  open_seq. open_if. repeat (progress tstep). take_false.
  open_if. repeat (progress tstep). take_true.
  open_seq. open_if. repeat (progress tstep).
  unfold src_gpb, refl_bad.
  destruct (existsb (fun i => (ZI pf i >=? ZI lf i)%Z) (seq 0 N)) eqn:E1.
  { repeat (progress tstep). take_true. repeat (progress tstep). eexists. reflexivity. }
  repeat (progress tstep).
  destruct (existsb (fun i => (ZI qf i >=? ZI lf i)%Z) (seq 0 N)) eqn:E2.
  { repeat (progress tstep). take_true. repeat (progress tstep). eexists. reflexivity. }
  cbn [orb].
  assert (Hok : refl_ok N T lf pf qf).
  { intros i Hi. assert (Hin : List.In i (seq 0 N)) by (apply in_seq; lia).
    pose proof (existsb_false_in _ _ E1 i Hin) as A1. pose proof (existsb_false_in _ _ E2 i Hin) as A2.
    cbv beta in A1, A2. unfold ZI in A1, A2. specialize (HT i Hi). lia. }
  assert (Hl : Nat.min (list_max (map pf (seq 0 N))) T = list_max (map pf (seq 0 N))).
  { apply Nat.min_l. apply list_max_map_le. intros i Hi. apply in_seq in Hi. destruct (Hok i) as (? & ? & ?); lia. }
  assert (Hr : Nat.min (list_max (map qf (seq 0 N))) T = list_max (map qf (seq 0 N))).
  { apply Nat.min_l. apply list_max_map_le. intros i Hi. apply in_seq in Hi. destruct (Hok i) as (? & ? & ?); lia. }
  repeat (progress tstep). take_false. repeat (progress tstep). close_stmt.
  stmt. close_stmt.
  stmt.
  destruct (Nat.eq_dec N 0) as [HN|HN].
  { subst N. rewrite !max_all_ZI. repeat (progress tstep). eexists. reflexivity. }
  rewrite ?max_all_ZI_pos by assumption. repeat (progress tstep). rewrite ?max_all_ZI_pos by assumption. repeat (progress tstep).
  close_stmt.
  stmt. close_stmt.
  stmt. rewrite gather1_tab by (intros i j l Hi Hj Hl0; destruct (Hok i Hi) as (? & ? & ?); unfold ZI; lia). go. close_stmt.
  stmt. close_stmt.
  stmt. close_stmt.
  go. rewrite gather1_tab by (intros i j l Hi Hj Hl0; destruct (Hok i Hi) as (? & ? & ?); unfold ZI; lia). go.
  close_stmt. go. destruct N; [congruence|]. eexists. reflexivity.
Qed.

Definition repl_ok N T (lf : nat -> nat) : Prop := forall i, (i < N)%nat -> (1 <= lf i /\ lf i <= T)%nat.

Lemma gpb_replicate N T F xf lf pf qf :
  (forall i, (i < N)%nat -> (lf i <= T)%nat) ->
  exists st, Interp.run ext09g gpb_body (gvars N T F xf lf pf qf Model.Replicate) = out_gpb (src_gpb N T F xf lf pf qf Model.Replicate) st.
Proof.
  intros HT.
  unfold Interp.run, gpb_body, gvars, gpb_vars, xT, lensT.
  stmt. close_stmt.
  stmt. close_stmt.
  stmt. close_stmt.
  open_seq. open_if. go. take_false.
  open_if. go. take_false.
  open_if. go. take_true.
  open_seq. open_if. go.
  unfold src_gpb, repl_bad.
  destruct (existsb (fun i => (ZI lf i <? 1)%Z) (seq 0 N)) eqn:E1.
  { go. take_true. go. eexists. reflexivity. }
  assert (Hok : repl_ok N T lf).
  { intros i Hi. assert (Hin : List.In i (seq 0 N)) by (apply in_seq; lia).
    pose proof (existsb_false_in _ _ E1 i Hin) as A1. cbv beta in A1. unfold ZI in A1. specialize (HT i Hi). lia. }
  go. take_false. go. close_stmt.
  stmt.
  destruct (Nat.eq_dec N 0) as [HN|HN].
  { subst N. rewrite !max_all_ZI. go. eexists. reflexivity. }
  rewrite ?max_all_ZI_pos by assumption. go. rewrite ?max_all_ZI_pos by assumption. go.
  close_stmt.
  assert (HT1 : Nat.min 1 T = 1%nat).
  { destruct N; [congruence|]. destruct (Hok 0%nat) as [? ?]; lia. }
  set (lmax := list_max (map pf (seq 0 N))) in *. set (rmax := list_max (map qf (seq 0 N))) in *.
  assert (Hl : Nat.min lmax (Nat.max (Nat.max lmax rmax) 1) = lmax) by lia.
  assert (Hr : Nat.min rmax (Nat.max (Nat.max lmax rmax) 1) = rmax) by lia.
  assert (Hrr : Nat.min rmax rmax = rmax) by lia.
  stmt. match goal with |- context [arange ?z] => replace z with (Z.of_nat (Nat.max (Nat.max lmax rmax) 1)) by lia end.
  go. close_stmt.
  stmt. close_stmt.
  stmt. close_stmt.
  stmt. close_stmt.
  go. rewrite gather1_tab by (intros i j l Hi Hj Hl0; destruct (Hok i Hi) as (? & ?); unfold ZI; lia). go.
  close_stmt. go. subst lmax rmax. destruct N; [congruence|]. eexists. reflexivity.
Qed.
