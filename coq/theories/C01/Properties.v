(* C01 — Edit distance is the weighted Levenshtein distance, per pair and per prefix.
   Property theorems only: each is closed by [exact <lemma>] and followed by
   [Print Assumptions].  The harness re-checks this file on every run.

   Reading guide.  [cfg] holds eos / include_eos / norm / batch_first / the three costs /
   padding / exclude_last.  [seq_of bf n m] is sequence n of tensor m in the given layout
   (all of it: padding and post-eos garbage included); [denote eos incl] cuts it at the
   first eos (keeping that eos when it is counted and present).  Results are [Cost v]
   (v cost units), [Ratio v d] (v / d), [Lit z] (padding value; 0/1 convention for an empty
   reference).  No theorem needs the costs to be positive; the property's "positive costs"
   is a special case.  The batch dimension of the model is a map over columns. *)
From Coq Require Import List ZArith Bool Arith.
From PV Require Import C01.Obs C01.Spec C01.Model C01.LevFacts C01.Proofs.
Import ListNotations.
Local Open Scope Z_scope.

(* "the minimum total cost of insertions, deletions and substitutions that turn the
   reference into the hypothesis": [lev] is attained by a script and bounds every script *)
Theorem c01_lev_is_min_edit_cost : forall ci cd cs r h,
  min_edit_cost ci cd cs r h (lev ci cd cs r h).
Proof. exact lev_is_min_edit_cost. Qed.
Print Assumptions c01_lev_is_min_edit_cost.

Theorem c01_min_edit_cost_unique : forall ci cd cs r h v w,
  min_edit_cost ci cd cs r h v -> min_edit_cost ci cd cs r h w -> v = w.
Proof. exact min_edit_cost_unique. Qed.
Print Assumptions c01_min_edit_cost_unique.

(* mechanism 1: the fold through the lower-triangular deletion matrix is the sequential
   sweep  v[i] := min(v[i], v[i-1] + d) *)
Theorem c01_del_fold_is_sweep : forall cd v, del_fold cd v = sweep cd v.
Proof. exact del_fold_is_sweep. Qed.
Print Assumptions c01_del_fold_is_sweep.

(* mechanism 1+2: while a pair is live (hyp_idx <= frozen = hyp_len, or hyp_len - 1 with
   exclude_last) entry i of the row after step j is lev on the prefixes - it depends on
   nothing beyond position i of the reference, which is why garbage is harmless *)
Theorem c01_row_invariant : forall ci cd cs r h hlen excl steps j i,
  (hlen <= length h)%nat -> (j <= steps)%nat -> (j <= frozen hlen excl)%nat ->
  (i <= length r)%nat ->
  nth i (nth j (all_rows ci cd cs r h hlen excl steps) []) 0
  = lev ci cd cs (firstn i r) (firstn j h).
Proof. exact row_invariant. Qed.
Print Assumptions c01_row_invariant.

(* mechanism 2: finished rows are frozen *)
Theorem c01_rows_freeze : forall ci cd cs r h hlen excl steps j,
  (hlen <= length h)%nat -> (j <= steps)%nat -> (frozen hlen excl <= j)%nat ->
  nth j (all_rows ci cd cs r h hlen excl steps) [] = lrow ci cd cs r h (frozen hlen excl).
Proof. exact rows_freeze. Qed.
Print Assumptions c01_rows_freeze.

(* mechanism 2: the length arithmetic (first eos, +1 for include_eos, -1 when there is no
   eos) cuts each column exactly where the property says *)
Theorem c01_eff_len_cuts_at_eos : forall eos incl l,
  firstn (eff_len eos incl l) l = denote eos incl l.
Proof. exact firstn_eff_len. Qed.
Print Assumptions c01_eff_len_cuts_at_eos.

(* mechanism 3: the uniform-cost shortcut *)
Theorem c01_uniform_cost_shortcut : forall c, 0 <= c ->
  forall r h, lev c c c r h = c * lev 1 1 1 r h.
Proof. exact lev_scale. Qed.
Print Assumptions c01_uniform_cost_shortcut.

Theorem c01_shortcut_harmless : forall i d s m a b c r h,
  eff_costs i d s = (m, (a, b, c)) -> lev a b c r h * m = lev i d s r h.
Proof. exact eff_costs_lev. Qed.
Print Assumptions c01_shortcut_harmless.

(* "the edit distance reported for each pair equals the minimum total cost ..." - any
   lengths, any eos placement, either layout, eos counted or not, any costs *)
Theorem c01_edit_distance_correct : forall c N ref hyp n,
  (n < N)%nat -> wf_tensor (c_bf c) N ref -> wf_tensor (c_bf c) N hyp -> c_norm c = false ->
  exists v,
    nth n (edit_distance c N ref hyp) (Lit 0) = Cost v
    /\ v = lev (c_ins c) (c_del c) (c_sub c)
             (denote (c_eos c) (c_incl c) (seq_of (c_bf c) n ref))
             (denote (c_eos c) (c_incl c) (seq_of (c_bf c) n hyp))
    /\ min_edit_cost (c_ins c) (c_del c) (c_sub c)
         (denote (c_eos c) (c_incl c) (seq_of (c_bf c) n ref))
         (denote (c_eos c) (c_incl c) (seq_of (c_bf c) n hyp)) v.
Proof. exact edit_distance_correct. Qed.
Print Assumptions c01_edit_distance_correct.

(* "... divided by the reference length when normalisation is requested" (and the
   documented 0/1 convention when that length is zero) *)
Theorem c01_edit_distance_norm : forall c N ref hyp n,
  (n < N)%nat -> wf_tensor (c_bf c) N ref -> wf_tensor (c_bf c) N hyp -> c_norm c = true ->
  nth n (edit_distance c N ref hyp) (Lit 0)
  = match length (denote (c_eos c) (c_incl c) (seq_of (c_bf c) n ref)) with
    | O => Lit (if (0 <? length (denote (c_eos c) (c_incl c) (seq_of (c_bf c) n hyp)))%nat
                then 1 else 0)
    | S _ => Ratio (lev (c_ins c) (c_del c) (c_sub c)
                      (denote (c_eos c) (c_incl c) (seq_of (c_bf c) n ref))
                      (denote (c_eos c) (c_incl c) (seq_of (c_bf c) n hyp)))
                   (length (denote (c_eos c) (c_incl c) (seq_of (c_bf c) n ref)))
    end.
Proof. exact edit_distance_norm. Qed.
Print Assumptions c01_edit_distance_norm.

(* "The per-prefix variant reports that same quantity for every prefix of the hypothesis
   (the full one omitted on request) and the padding value at positions past the
   hypothesis's own length" - every entry of the table, both layouts, norm or not *)
Theorem c01_prefix_edit_distances_correct : forall c N ref hyp n k,
  (n < N)%nat -> wf_tensor (c_bf c) N ref -> wf_tensor (c_bf c) N hyp ->
  (k < time_len (c_bf c) hyp + (if c_excl c then 0 else 1))%nat ->
  entry (c_bf c) k n (prefix_edit_distances c N ref hyp)
  = if (k <? length (denote (c_eos c) (c_incl c) (seq_of (c_bf c) n hyp))
             + (if c_excl c then 0 else 1))%nat
    then spec_value (c_norm c) (c_ins c) (c_del c) (c_sub c)
           (denote (c_eos c) (c_incl c) (seq_of (c_bf c) n ref))
           (firstn k (denote (c_eos c) (c_incl c) (seq_of (c_bf c) n hyp)))
    else Lit (c_pad c).
Proof. exact prefix_edit_distances_correct. Qed.
Print Assumptions c01_prefix_edit_distances_correct.

Theorem c01_prefix_edit_distances_cost : forall c N ref hyp n k,
  (n < N)%nat -> wf_tensor (c_bf c) N ref -> wf_tensor (c_bf c) N hyp ->
  (k < time_len (c_bf c) hyp + (if c_excl c then 0 else 1))%nat ->
  c_norm c = false ->
  (k < length (denote (c_eos c) (c_incl c) (seq_of (c_bf c) n hyp))
       + (if c_excl c then 0 else 1))%nat ->
  entry (c_bf c) k n (prefix_edit_distances c N ref hyp)
  = Cost (lev (c_ins c) (c_del c) (c_sub c)
            (denote (c_eos c) (c_incl c) (seq_of (c_bf c) n ref))
            (firstn k (denote (c_eos c) (c_incl c) (seq_of (c_bf c) n hyp))))
  /\ min_edit_cost (c_ins c) (c_del c) (c_sub c)
       (denote (c_eos c) (c_incl c) (seq_of (c_bf c) n ref))
       (firstn k (denote (c_eos c) (c_incl c) (seq_of (c_bf c) n hyp)))
       (lev (c_ins c) (c_del c) (c_sub c)
            (denote (c_eos c) (c_incl c) (seq_of (c_bf c) n ref))
            (firstn k (denote (c_eos c) (c_incl c) (seq_of (c_bf c) n hyp)))).
Proof. exact prefix_edit_distances_cost. Qed.
Print Assumptions c01_prefix_edit_distances_cost.

Theorem c01_prefix_edit_distances_padding : forall c N ref hyp n k,
  (n < N)%nat -> wf_tensor (c_bf c) N ref -> wf_tensor (c_bf c) N hyp ->
  (k < time_len (c_bf c) hyp + (if c_excl c then 0 else 1))%nat ->
  (length (denote (c_eos c) (c_incl c) (seq_of (c_bf c) n hyp))
     + (if c_excl c then 0 else 1) <= k)%nat ->
  entry (c_bf c) k n (prefix_edit_distances c N ref hyp) = Lit (c_pad c).
Proof. exact prefix_edit_distances_padding. Qed.
Print Assumptions c01_prefix_edit_distances_padding.

(* "A pair's result never depends on ... tokens after its end-of-sequence" *)
Theorem c01_garbage_is_cut : forall e incl body g, ~ In e body ->
  denote (Some e) incl (body ++ e :: g) = body ++ (if incl then [e] else []).
Proof. exact denote_garbage. Qed.
Print Assumptions c01_garbage_is_cut.

Theorem c01_post_eos_irrelevant : forall c r r' h h',
  denote (c_eos c) (c_incl c) r = denote (c_eos c) (c_incl c) r' ->
  denote (c_eos c) (c_incl c) h = denote (c_eos c) (c_incl c) h' ->
  pair_ed c r h = pair_ed c r' h'.
Proof. exact pair_ed_post_eos. Qed.
Print Assumptions c01_post_eos_irrelevant.

Theorem c01_post_eos_irrelevant_prefix : forall c r r' h h',
  denote (c_eos c) (c_incl c) r = denote (c_eos c) (c_incl c) r' ->
  denote (c_eos c) (c_incl c) h = denote (c_eos c) (c_incl c) h' ->
  length h = length h' ->
  pair_prefix c r h = pair_prefix c r' h'.
Proof. exact pair_prefix_post_eos. Qed.
Print Assumptions c01_post_eos_irrelevant_prefix.

(* "... never depends on the other pairs in the batch" (true of the model by construction:
   its batch is a map over columns; for the vectorised code this is what the
   correspondence and the single-column metamorphic relation check) *)
Theorem c01_batch_pointwise : forall c N ref hyp n N' ref' hyp' n',
  (n < N)%nat -> wf_tensor (c_bf c) N ref -> wf_tensor (c_bf c) N hyp ->
  (n' < N')%nat -> wf_tensor (c_bf c) N' ref' -> wf_tensor (c_bf c) N' hyp' ->
  denote (c_eos c) (c_incl c) (seq_of (c_bf c) n ref)
    = denote (c_eos c) (c_incl c) (seq_of (c_bf c) n' ref') ->
  denote (c_eos c) (c_incl c) (seq_of (c_bf c) n hyp)
    = denote (c_eos c) (c_incl c) (seq_of (c_bf c) n' hyp') ->
  nth n (edit_distance c N ref hyp) (Lit 0) = nth n' (edit_distance c N' ref' hyp') (Lit 0).
Proof. exact batch_pointwise. Qed.
Print Assumptions c01_batch_pointwise.

Theorem c01_batch_pointwise_prefix : forall c N ref hyp n N' ref' hyp' n' k,
  (n < N)%nat -> wf_tensor (c_bf c) N ref -> wf_tensor (c_bf c) N hyp ->
  (n' < N')%nat -> wf_tensor (c_bf c) N' ref' -> wf_tensor (c_bf c) N' hyp' ->
  (k < time_len (c_bf c) hyp + (if c_excl c then 0 else 1))%nat ->
  (k < time_len (c_bf c) hyp' + (if c_excl c then 0 else 1))%nat ->
  denote (c_eos c) (c_incl c) (seq_of (c_bf c) n ref)
    = denote (c_eos c) (c_incl c) (seq_of (c_bf c) n' ref') ->
  denote (c_eos c) (c_incl c) (seq_of (c_bf c) n hyp)
    = denote (c_eos c) (c_incl c) (seq_of (c_bf c) n' hyp') ->
  entry (c_bf c) k n (prefix_edit_distances c N ref hyp)
  = entry (c_bf c) k n' (prefix_edit_distances c N' ref' hyp').
Proof. exact batch_pointwise_prefix. Qed.
Print Assumptions c01_batch_pointwise_prefix.

(* non-vacuity: a ragged batch-first batch of three pairs with eos = 9 - eos at position 0
   (empty reference), garbage after eos, a hypothesis without eos - unequal costs
   (1/2, 1, 3/2 in quarter units), include_eos, exclude_last; the hypotheses of the
   theorems hold and the table is what they say *)
Example c01_nonvacuous :
  let c := mkCfg (Some 9) true false true 2 4 6 (-100) true in
  let ref := [[1; 2; 9; 5]; [9; 1; 1; 9]; [3; 3; 3; 3]] in
  let hyp := [[1; 9; 7]; [2; 2; 2]; [3; 9; 9]] in
  wf_tensor (c_bf c) 3 ref /\ wf_tensor (c_bf c) 3 hyp
  /\ denote (c_eos c) (c_incl c) (seq_of true 0 ref) = [1; 2; 9]
  /\ denote (c_eos c) (c_incl c) (seq_of true 1 ref) = [9]
  /\ denote (c_eos c) (c_incl c) (seq_of true 1 hyp) = [2; 2; 2]
  /\ prefix_edit_distances c 3 ref hyp
     = [[Cost 12; Cost 8; Lit (-100)]; [Cost 4; Cost 6; Cost 8]; [Cost 16; Cost 12; Lit (-100)]]
  /\ edit_distance (mkCfg (Some 9) true true true 2 4 6 0 false) 3 ref hyp
     = [Ratio 4 3; Ratio 10 1; Ratio 14 4].
Proof.
  cbv zeta.
  split; [split; [reflexivity|exists 4%nat; intros row [<-|[<-|[<-|[]]]]; reflexivity]|].
  split; [split; [reflexivity|exists 3%nat; intros row [<-|[<-|[<-|[]]]]; reflexivity]|].
  split; [reflexivity|]. split; [reflexivity|]. split; [reflexivity|].
  split; vm_compute; reflexivity.
Qed.

(* ======================================================================================
   SOURCE TIE (DESIGN.md section 10, notes/C01_tie_report.md).  The statements below are about the
   Python text of `_string_matching` itself: PV.Gen.C01Src.{sm_pre, sm_row0, sm_main, sm_fin,
   sm_loop, sm_lens} are regenerated from /repo by harness/py2coq/translate.py on every run,
   PV.MiniPy.Interp interprets them, the torch calls mean what PV.MiniTorch.OpsC01 / OpsC07 say
   (PV.C01.SrcRun.ext01).  Plain edit-distance configuration (the call made by edit_distance /
   EditDistance: return_mask = return_prf_dsts = return_mistakes = exclude_last = False).  A float
   cost is c / s for integers ci cd cs over any common denominator s; [TieMath.zf s v] is the
   float v / s; [TieLib.runs_to P o]: the run o ends normally in a state satisfying P.
   ====================================================================================== *)
From Coq Require QArith.
From PV Require MiniPy.Syntax MiniPy.Interp MiniTorch.OpsC07 MiniTorch.OpsC01 Gen.C01Src C01.SrcRun C01.TieLib C01.TieMath
  C01.TieLoop C01.TieWhole C01.Tie.

(* priority 1: ONE EXECUTION OF THE LOOP BODY (hyp_idx = k) on ref (R x N), hyp (H x N), hyp_lens (N), del_mat
   ((R+1) x (R+1) x 1) and the current row ((R+1) x N, column n = lf . n) leaves in `row`, for every column n,
   exactly Model.step_row of that column: insertion / substitution candidates, the fold through del_mat,
   freezing by not_done - every batch size, widths, lengths, costs; everything else the loop reads is unchanged *)
Theorem c01_source_loop_body_is_step_row :
  forall (s : positive) (ci cd cs : Z) (R N H : nat) (rf hf : nat -> nat -> Z) (hl : nat -> nat)
         (vrl vmult vnorm vwarn : MiniPy.Syntax.val) (st : MiniPy.Interp.state) (k : nat) (lf : nat -> nat -> Z),
  (1 <= k <= H)%nat ->
  TieLoop.body_pre s ci cd cs R N H rf hf hl vrl vmult vnorm vwarn lf st ->
  TieLib.runs_to
    (TieLoop.body_pre s ci cd cs R N H rf hf hl vrl vmult vnorm vwarn
       (fun i n => nth i (step_row ci cd cs (TieLoop.colf R rf n) (TieLoop.colf H hf n) (hl n) false k
                            (TieLoop.colf (S R) lf n)) 0))
    (Tie.run_loop_body k st).
Proof. exact Tie.loop_body_is_step_row. Qed.
Print Assumptions c01_source_loop_body_is_step_row.

(* the whole `for hyp_idx in range(1, max_hyp_steps + 1)` statement: H iterations of step_row from the row held
   on entry, in every column *)
Theorem c01_source_loop_is_rows :
  forall (s : positive) (ci cd cs : Z) (R N H : nat) (rf hf : nat -> nat -> Z) (hl : nat -> nat)
         (vrl vmult vnorm vwarn : MiniPy.Syntax.val) (st : MiniPy.Interp.state) (lf : nat -> nat -> Z),
  TieLoop.body_pre s ci cd cs R N H rf hf hl vrl vmult vnorm vwarn lf st -> Tie.max_hyp_steps_is H st ->
  TieLib.runs_to
    (TieLoop.body_pre s ci cd cs R N H rf hf hl vrl vmult vnorm vwarn
       (fun i n => nth i (TieMath.iter_rows ci cd cs (TieLoop.colf R rf n) (TieLoop.colf H hf n) (hl n) H 1
                            (TieLoop.colf (S R) lf n)) 0))
    (Tie.run_loop st).
Proof. exact Tie.loop_is_rows. Qed.
Print Assumptions c01_source_loop_is_rows.

(* priorities 2-4: THE WHOLE CALL.  The blocks sm_pre; sm_row0; sm_main; sm_fin, run in sequence on the
   arguments of the call (ref / hyp as handed over: N rows of width R / H when batch_first, else R / H rows of
   width N; any eos, include_eos, norm, batch_first, warn; costs c / s), return the tensor of Model.edit_distance,
   entry for entry: Cost v as the float v / s, Ratio v d as (v / s) / d, Lit z as z.  (With an eos a zero-width
   tensor makes the source raise - torch.max over an empty dimension - hence the hypothesis.) *)
Theorem c01_source_edit_distance_is_model :
  forall (s : positive) (c : cfg) (N R H : nat) (ref hyp : list (list Z)) (w : bool) (pad : Z),
  (0 < N)%nat -> Tie.wf_src (c_bf c) N R ref -> Tie.wf_src (c_bf c) N H hyp ->
  (c_eos c <> None -> R <> 0%nat /\ H <> 0%nat) ->
  exists st', Tie.run_edit_distance s c N ref hyp w pad
              = MiniPy.Interp.Ok
                  (MiniTorch.OpsC01.enc_x
                     (MiniTorch.OpsC07.mkTn [N] (map (TieWhole.val_fx s) (edit_distance c N ref hyp)))) st'.
Proof. exact Tie.edit_distance_is_model. Qed.
Print Assumptions c01_source_edit_distance_is_model.

(* THE WHOLE BODY OF THE FUNCTION AS ONE TERM (Gen.C01Src.sm_body, every statement of _string_matching): the same
   statement.  (sm_body is the block sequence with another name for one tuple-unpacking temporary; its loop body is
   run again in TieBody.v.) *)
Theorem c01_source_string_matching_is_model :
  forall (s : positive) (c : cfg) (N R H : nat) (ref hyp : list (list Z)) (w : bool) (pad : Z),
  (0 < N)%nat -> Tie.wf_src (c_bf c) N R ref -> Tie.wf_src (c_bf c) N H hyp ->
  (c_eos c <> None -> R <> 0%nat /\ H <> 0%nat) ->
  exists st', Tie.run_string_matching s c N ref hyp w pad
              = MiniPy.Interp.Ok
                  (MiniTorch.OpsC01.enc_x
                     (MiniTorch.OpsC07.mkTn [N] (map (TieWhole.val_fx s) (edit_distance c N ref hyp)))) st'.
Proof. exact Tie.string_matching_is_model. Qed.
Print Assumptions c01_source_string_matching_is_model.

Theorem c01_source_string_matching_is_lev :
  forall (s : positive) (c : cfg) (N R H : nat) (ref hyp : list (list Z)) (w : bool) (pad : Z),
  (0 < N)%nat -> Tie.wf_src (c_bf c) N R ref -> Tie.wf_src (c_bf c) N H hyp ->
  (c_eos c <> None -> R <> 0%nat /\ H <> 0%nat) -> c_norm c = false ->
  exists out st',
    Tie.run_string_matching s c N ref hyp w pad
    = MiniPy.Interp.Ok (MiniTorch.OpsC01.enc_x (MiniTorch.OpsC07.mkTn [N] out)) st' /\
    length out = N /\
    forall n, (n < N)%nat ->
      nth n out MiniTorch.OpsC01.FNaN =
      TieMath.zf s (lev (c_ins c) (c_del c) (c_sub c)
                      (denote (c_eos c) (c_incl c) (seq_of (c_bf c) n ref))
                      (denote (c_eos c) (c_incl c) (seq_of (c_bf c) n hyp))).
Proof. exact Tie.string_matching_is_lev. Qed.
Print Assumptions c01_source_string_matching_is_lev.

(* the executable the harness evaluates on the cases of every run IS that run *)
Theorem c01_source_src_ed_is_model :
  forall (c : cfg) (scale : Z) (N R H : nat) (ref hyp : list (list Z)),
  (0 < N)%nat -> Tie.wf_src (c_bf c) N R ref -> Tie.wf_src (c_bf c) N H hyp ->
  (c_eos c <> None -> R <> 0%nat /\ H <> 0%nat) ->
  SrcRun.src_ed SrcRun.sm_blocks c scale N ref hyp
  = Some (Some (map (TieWhole.val_fx (Z.to_pos scale)) (edit_distance c N ref hyp))).
Proof. exact Tie.src_ed_is_model. Qed.
Print Assumptions c01_source_src_ed_is_model.

Theorem c01_source_src_ed_body_is_model :
  forall (c : cfg) (scale : Z) (N R H : nat) (ref hyp : list (list Z)),
  (0 < N)%nat -> Tie.wf_src (c_bf c) N R ref -> Tie.wf_src (c_bf c) N H hyp ->
  (c_eos c <> None -> R <> 0%nat /\ H <> 0%nat) ->
  SrcRun.src_ed Gen.C01Src.sm_body c scale N ref hyp
  = Some (Some (map (TieWhole.val_fx (Z.to_pos scale)) (edit_distance c N ref hyp))).
Proof. exact Tie.src_ed_body_is_model. Qed.
Print Assumptions c01_source_src_ed_body_is_model.

(* composed with c01_edit_distance_correct - a statement purely about the interpreted source: without
   normalisation entry n of the returned tensor is the weighted Levenshtein distance (in units of 1 / s) of
   reference n and hypothesis n, each cut at its first eos (that eos kept when include_eos and it is there) *)
Theorem c01_source_edit_distance_is_lev :
  forall (s : positive) (c : cfg) (N R H : nat) (ref hyp : list (list Z)) (w : bool) (pad : Z),
  (0 < N)%nat -> Tie.wf_src (c_bf c) N R ref -> Tie.wf_src (c_bf c) N H hyp ->
  (c_eos c <> None -> R <> 0%nat /\ H <> 0%nat) -> c_norm c = false ->
  exists out st',
    Tie.run_edit_distance s c N ref hyp w pad
    = MiniPy.Interp.Ok (MiniTorch.OpsC01.enc_x (MiniTorch.OpsC07.mkTn [N] out)) st' /\
    length out = N /\
    forall n, (n < N)%nat ->
      nth n out MiniTorch.OpsC01.FNaN =
      TieMath.zf s (lev (c_ins c) (c_del c) (c_sub c)
                      (denote (c_eos c) (c_incl c) (seq_of (c_bf c) n ref))
                      (denote (c_eos c) (c_incl c) (seq_of (c_bf c) n hyp))).
Proof. exact Tie.edit_distance_is_lev. Qed.
Print Assumptions c01_source_edit_distance_is_lev.

(* non-vacuity: the batch of c01_nonvacuous (batch-first, eos = 9, include_eos, norm, costs 1/2, 1, 3/2) meets the
   hypotheses, and the interpreted source returns 1/3, 5/2, 7/8 = (4/4)/3, (10/4)/1, (14/4)/4 *)
Example c01_source_nonvacuous :
  let c := mkCfg (Some 9) true true true 2 4 6 0 false in
  let ref := [[1; 2; 9; 5]; [9; 1; 1; 9]; [3; 3; 3; 3]] in
  let hyp := [[1; 9; 7]; [2; 2; 2]; [3; 9; 9]] in
  Tie.wf_src (c_bf c) 3 4 ref /\ Tie.wf_src (c_bf c) 3 3 hyp /\
  SrcRun.src_ed SrcRun.sm_blocks c 4 3 ref hyp
  = Some (Some [MiniTorch.OpsC01.Fq (QArith_base.Qmake 1 3); MiniTorch.OpsC01.Fq (QArith_base.Qmake 5 2);
                MiniTorch.OpsC01.Fq (QArith_base.Qmake 7 8)]).
Proof.
  cbv zeta. split; [split; [reflexivity|intros row [<-|[<-|[<-|[]]]]; reflexivity]|].
  split; [split; [reflexivity|intros row [<-|[<-|[<-|[]]]]; reflexivity]|].
  vm_compute. reflexivity.
Qed.

(* ======================================================================================
   SOURCE TIE, second half of the property ("per prefix"; notes/C01_tie_report.md).  The same Python text
   (PV.Gen.C01Src.sm_body = the WHOLE body of `_string_matching`, and the blocks sm_pre; sm_row0; sm_main; sm_fin), run in
   the configuration of prefix_edit_distances / PrefixEditDistances: return_prf_dsts = True, exclude_last and padding as
   given, return_mask = return_mistakes = False.  The torch calls mean what PV.C01.SrcRunP.ext01p g says: SrcRun.ext01
   wherever it answers, plus the vocabulary of this path (PV.MiniTorch.OpsC01P); g is the content of the UNINITIALISED
   table `torch.empty((H', N))` - every statement holds for every g.  H' = [TiePLoop.tsize H exclude_last] =
   H + (0 if exclude_last else 1); [TieP.out_shape] / [TieP.out_pos]: shape of the returned table and row-major position of
   entry (j, n) - (N x H') with (n, j) when batch_first, else (H' x N) with (j, n).
   ====================================================================================== *)
From PV Require MiniTorch.OpsC01P C01.SrcRunP C01.TiePLoop C01.TieP.

(* ONE EXECUTION OF THE LOOP BODY of the function (hyp_idx = k) in this configuration, either exclude_last: `row` gets
   Model.step_row (with that exclude_last) in every column and row k of `prefix_ers` gets that row gathered at ref_lens;
   everything else the loop reads is unchanged *)
Theorem c01_source_prefix_loop_body_is_step_row :
  forall (g : nat -> MiniTorch.OpsC01.fx) (s : positive) (ci cd cs : Z) (R N H : nat) (rf hf : nat -> nat -> Z)
         (rl hl : nat -> nat) (excl : bool) (vmult vnorm vwarn vpad vbf : MiniPy.Syntax.val),
  (forall n, (n < N)%nat -> (rl n <= R)%nat) ->
  forall (st : MiniPy.Interp.state) (k : nat) (lf : nat -> nat -> Z) (pf : nat -> nat -> MiniTorch.OpsC01.fx),
  (1 <= k <= H)%nat -> (k < TiePLoop.tsize H excl)%nat ->
  TiePLoop.body_pre_p s ci cd cs R N H rf hf rl hl excl vmult vnorm vwarn vpad vbf lf pf st ->
  TieLib.runs_to
    (TiePLoop.body_pre_p s ci cd cs R N H rf hf rl hl excl vmult vnorm vwarn vpad vbf
       (fun i n => nth i (step_row ci cd cs (TieLoop.colf R rf n) (TieLoop.colf H hf n) (hl n) excl k
                            (TieLoop.colf (S R) lf n)) 0)
       (fun i n => if (i =? k)%nat
                   then TieMath.zf s (nth (rl n) (step_row ci cd cs (TieLoop.colf R rf n) (TieLoop.colf H hf n) (hl n) excl k
                                                    (TieLoop.colf (S R) lf n)) 0)
                   else pf i n))
    (TieP.run_loop_body_p g k st).
Proof. exact TieP.prefix_loop_body_is_step_row. Qed.
Print Assumptions c01_source_prefix_loop_body_is_step_row.

(* THE WHOLE CALL, on the whole body of the function as one term: the returned tensor is Model.prefix_edit_distances, entry
   for entry (Cost v as the float v / s, Ratio v d as (v / s) / d, Lit z - padding, 0/1 convention - as z), in the layout
   asked for; any eos / include_eos / norm / batch_first / exclude_last / padding / warn, any costs c / s, any batch.
   Hypotheses: the lists really are matrices; with an eos no zero-width tensor (torch.max over an empty dimension raises);
   with exclude_last the hypothesis tensor is not empty (`prefix_ers[0] = ..` on a table without rows raises IndexError -
   the model returns an empty table there: outside the input space of the correspondence, notes/C01_tie_report.md) *)
Theorem c01_source_prefix_is_model :
  forall (g : nat -> MiniTorch.OpsC01.fx) (s : positive) (c : cfg) (N R H : nat) (ref hyp : list (list Z)) (w : bool),
  (0 < N)%nat -> Tie.wf_src (c_bf c) N R ref -> Tie.wf_src (c_bf c) N H hyp ->
  (c_eos c <> None -> R <> 0%nat /\ H <> 0%nat) -> (c_excl c = true -> H <> 0%nat) ->
  let T := TiePLoop.tsize H (c_excl c) in
  exists out st',
    TieP.run_prefix g s c N ref hyp w
    = MiniPy.Interp.Ok (MiniTorch.OpsC01.enc_x (MiniTorch.OpsC07.mkTn (TieP.out_shape (c_bf c) T N) out)) st' /\
    length out = (T * N)%nat /\
    forall j n, (j < T)%nat -> (n < N)%nat ->
      nth (TieP.out_pos (c_bf c) T N j n) out MiniTorch.OpsC01.FNaN =
      TieWhole.val_fx s (entry (c_bf c) j n (prefix_edit_distances c N ref hyp)).
Proof. exact TieP.prefix_is_model. Qed.
Print Assumptions c01_source_prefix_is_model.

(* the same for the block sequence sm_pre; sm_row0; sm_main; sm_fin *)
Theorem c01_source_prefix_blocks_is_model :
  forall (g : nat -> MiniTorch.OpsC01.fx) (s : positive) (c : cfg) (N R H : nat) (ref hyp : list (list Z)) (w : bool),
  (0 < N)%nat -> Tie.wf_src (c_bf c) N R ref -> Tie.wf_src (c_bf c) N H hyp ->
  (c_eos c <> None -> R <> 0%nat /\ H <> 0%nat) -> (c_excl c = true -> H <> 0%nat) ->
  let T := TiePLoop.tsize H (c_excl c) in
  exists out st',
    TieP.run_prefix_blocks g s c N ref hyp w
    = MiniPy.Interp.Ok (MiniTorch.OpsC01.enc_x (MiniTorch.OpsC07.mkTn (TieP.out_shape (c_bf c) T N) out)) st' /\
    length out = (T * N)%nat /\
    forall j n, (j < T)%nat -> (n < N)%nat ->
      nth (TieP.out_pos (c_bf c) T N j n) out MiniTorch.OpsC01.FNaN =
      TieWhole.val_fx s (entry (c_bf c) j n (prefix_edit_distances c N ref hyp)).
Proof. exact TieP.prefix_blocks_is_model. Qed.
Print Assumptions c01_source_prefix_blocks_is_model.

(* composed with c01_prefix_edit_distances_correct - purely about the interpreted source: entry (j, n) of the returned
   table is the value the property names for the length-j prefix of hypothesis n against reference n (each cut at its first
   eos, that eos kept when include_eos and it is there): spec_value = the weighted Levenshtein distance, divided by the
   reference length under norm (0/1 convention for an empty reference) - and the padding value from position
   len(hypothesis n) + (0 if exclude_last else 1) on *)
Theorem c01_source_prefix_is_spec :
  forall (g : nat -> MiniTorch.OpsC01.fx) (s : positive) (c : cfg) (N R H : nat) (ref hyp : list (list Z)) (w : bool),
  (0 < N)%nat -> Tie.wf_src (c_bf c) N R ref -> Tie.wf_src (c_bf c) N H hyp ->
  (c_eos c <> None -> R <> 0%nat /\ H <> 0%nat) -> (c_excl c = true -> H <> 0%nat) ->
  let T := TiePLoop.tsize H (c_excl c) in
  exists out st',
    TieP.run_prefix g s c N ref hyp w
    = MiniPy.Interp.Ok (MiniTorch.OpsC01.enc_x (MiniTorch.OpsC07.mkTn (TieP.out_shape (c_bf c) T N) out)) st' /\
    length out = (T * N)%nat /\
    forall j n, (j < T)%nat -> (n < N)%nat ->
      let rn := denote (c_eos c) (c_incl c) (seq_of (c_bf c) n ref) in
      let hn := denote (c_eos c) (c_incl c) (seq_of (c_bf c) n hyp) in
      nth (TieP.out_pos (c_bf c) T N j n) out MiniTorch.OpsC01.FNaN =
      if (j <? length hn + (if c_excl c then 0 else 1))%nat
      then TieWhole.val_fx s (spec_value (c_norm c) (c_ins c) (c_del c) (c_sub c) rn (firstn j hn))
      else MiniTorch.OpsC01.z2f (c_pad c).
Proof. exact TieP.prefix_is_spec. Qed.
Print Assumptions c01_source_prefix_is_spec.

(* without normalisation: the Levenshtein distance itself, in units of 1 / s *)
Theorem c01_source_prefix_is_lev :
  forall (g : nat -> MiniTorch.OpsC01.fx) (s : positive) (c : cfg) (N R H : nat) (ref hyp : list (list Z)) (w : bool),
  (0 < N)%nat -> Tie.wf_src (c_bf c) N R ref -> Tie.wf_src (c_bf c) N H hyp ->
  (c_eos c <> None -> R <> 0%nat /\ H <> 0%nat) -> (c_excl c = true -> H <> 0%nat) -> c_norm c = false ->
  let T := TiePLoop.tsize H (c_excl c) in
  exists out st',
    TieP.run_prefix g s c N ref hyp w
    = MiniPy.Interp.Ok (MiniTorch.OpsC01.enc_x (MiniTorch.OpsC07.mkTn (TieP.out_shape (c_bf c) T N) out)) st' /\
    length out = (T * N)%nat /\
    forall j n, (j < T)%nat -> (n < N)%nat ->
      let rn := denote (c_eos c) (c_incl c) (seq_of (c_bf c) n ref) in
      let hn := denote (c_eos c) (c_incl c) (seq_of (c_bf c) n hyp) in
      nth (TieP.out_pos (c_bf c) T N j n) out MiniTorch.OpsC01.FNaN =
      if (j <? length hn + (if c_excl c then 0 else 1))%nat
      then TieMath.zf s (lev (c_ins c) (c_del c) (c_sub c) rn (firstn j hn))
      else MiniTorch.OpsC01.z2f (c_pad c).
Proof. exact TieP.prefix_is_lev. Qed.
Print Assumptions c01_source_prefix_is_lev.

(* the executable the harness evaluates on the prefix cases of every run IS that run (uninitialised table := NaN) *)
Theorem c01_source_src_prefix_is_model :
  forall (c : cfg) (scale : Z) (N R H : nat) (ref hyp : list (list Z)),
  (0 < N)%nat -> Tie.wf_src (c_bf c) N R ref -> Tie.wf_src (c_bf c) N H hyp ->
  (c_eos c <> None -> R <> 0%nat /\ H <> 0%nat) -> (c_excl c = true -> H <> 0%nat) ->
  let T := TiePLoop.tsize H (c_excl c) in
  exists out,
    SrcRunP.src_prefix Gen.C01Src.sm_body c scale N ref hyp
    = Some (Some (MiniTorch.OpsC07.mkTn (TieP.out_shape (c_bf c) T N) out)) /\
    length out = (T * N)%nat /\
    forall j n, (j < T)%nat -> (n < N)%nat ->
      nth (TieP.out_pos (c_bf c) T N j n) out MiniTorch.OpsC01.FNaN =
      TieWhole.val_fx (Z.to_pos scale) (entry (c_bf c) j n (prefix_edit_distances c N ref hyp)).
Proof. exact TieP.src_prefix_is_model. Qed.
Print Assumptions c01_source_src_prefix_is_model.

(* non-vacuity: the batch of c01_nonvacuous (batch-first, eos = 9, include_eos, exclude_last, padding -100, costs 1/2, 1, 3/2)
   meets the hypotheses, and the interpreted source returns the table of that example divided by 4 *)
Example c01_source_prefix_nonvacuous :
  let c := mkCfg (Some 9) true false true 2 4 6 (-100) true in
  let ref := [[1; 2; 9; 5]; [9; 1; 1; 9]; [3; 3; 3; 3]] in
  let hyp := [[1; 9; 7]; [2; 2; 2]; [3; 9; 9]] in
  let q := fun a b => MiniTorch.OpsC01.Fq (QArith_base.Qmake a b) in
  Tie.wf_src (c_bf c) 3 4 ref /\ Tie.wf_src (c_bf c) 3 3 hyp /\
  SrcRunP.src_prefix Gen.C01Src.sm_body c 4 3 ref hyp
  = Some (Some (MiniTorch.OpsC07.mkTn [3%nat; 3%nat]
                  [q 3 1%positive; q 2 1%positive; q (-100) 1%positive;
                   q 1 1%positive; q 3 2%positive; q 2 1%positive;
                   q 4 1%positive; q 3 1%positive; q (-100) 1%positive])).
Proof.
  cbv zeta. split; [split; [reflexivity|intros row [<-|[<-|[<-|[]]]]; reflexivity]|].
  split; [split; [reflexivity|intros row [<-|[<-|[<-|[]]]]; reflexivity]|].
  vm_compute. reflexivity.
Qed.

(* ---- the RAISE paths of the whole call (the model has none: these inputs are outside its well-formedness predicate; the
   theorems say what the interpreted source does there).  [TiePre.in_tensor bf T N f]: the (T x N) matrix f handed over in
   the layout asked for. ---- *)
From PV Require MiniTorch.LemmasC01 C01.TiePre C01.TieRaise C01.TiePRaise.

(* `if ref.dim() != 2 or hyp.dim() != 2: raise RuntimeError` - any tensors, any other arguments; edit_distance's call *)
Theorem c01_source_raises_dim :
  forall (x y : MiniTorch.OpsC07.tn Z) (eos : option Z) (incl bf : bool) (qi qd qs : QArith_base.Q) (w nm : bool) (pad : Z),
  (length (MiniTorch.OpsC07.shp x) <> 2 \/ length (MiniTorch.OpsC07.shp y) <> 2)%nat ->
  exists st', MiniPy.Interp.run SrcRun.ext01 Gen.C01Src.sm_body (SrcRun.sm_vars x y eos incl bf qi qd qs w nm pad)
              = MiniPy.Interp.Exc SrcRun.runtime_error st'.
Proof. exact TieRaise.string_matching_raises_dim. Qed.
Print Assumptions c01_source_raises_dim.

(* ... and prefix_edit_distances' call *)
Theorem c01_source_prefix_raises_dim :
  forall (g : nat -> MiniTorch.OpsC01.fx) (x y : MiniTorch.OpsC07.tn Z) (eos : option Z) (incl bf : bool)
         (qi qd qs : QArith_base.Q) (w nm : bool) (pad : Z) (excl : bool),
  (length (MiniTorch.OpsC07.shp x) <> 2 \/ length (MiniTorch.OpsC07.shp y) <> 2)%nat ->
  exists st', MiniPy.Interp.run (SrcRunP.ext01p g) Gen.C01Src.sm_body (SrcRunP.smp_vars x y eos incl bf qi qd qs w nm pad excl)
              = MiniPy.Interp.Exc SrcRun.runtime_error st'.
Proof. exact TiePRaise.prefix_raises_dim. Qed.
Print Assumptions c01_source_prefix_raises_dim.

(* `if batch_size != batch_size_: raise RuntimeError` - ref (R x N), hyp (H x N'), N <> N', either layout *)
Theorem c01_source_raises_batch :
  forall (s : positive) (c : cfg) (R N H N' : nat) (rf hf : nat -> nat -> Z) (w : bool), N <> N' -> forall (pad : Z),
  exists st', MiniPy.Interp.run SrcRun.ext01 Gen.C01Src.sm_body
                (SrcRun.sm_vars (TiePre.in_tensor (c_bf c) R N rf) (TiePre.in_tensor (c_bf c) H N' hf)
                   (c_eos c) (c_incl c) (c_bf c)
                   (MiniTorch.LemmasC01.qz s (c_ins c)) (MiniTorch.LemmasC01.qz s (c_del c)) (MiniTorch.LemmasC01.qz s (c_sub c))
                   w (c_norm c) pad)
              = MiniPy.Interp.Exc SrcRun.runtime_error st'.
Proof. exact TieRaise.string_matching_raises_batch. Qed.
Print Assumptions c01_source_raises_batch.

(* an eos together with a zero-width ref or hyp: IndexError out of `_lens_from_eos` (torch.max over an empty dimension) -
   why c01_source_*_is_model assume non-zero widths when an eos is given *)
Theorem c01_source_raises_zero_width :
  forall (s : positive) (c : cfg) (R N H : nat) (rf hf : nat -> nat -> Z) (w : bool) (e pad : Z),
  c_eos c = Some e -> (R = 0 \/ H = 0)%nat ->
  exists st', MiniPy.Interp.run SrcRun.ext01 Gen.C01Src.sm_body
                (SrcRun.sm_vars (TiePre.in_tensor (c_bf c) R N rf) (TiePre.in_tensor (c_bf c) H N hf)
                   (c_eos c) (c_incl c) (c_bf c)
                   (MiniTorch.LemmasC01.qz s (c_ins c)) (MiniTorch.LemmasC01.qz s (c_del c)) (MiniTorch.LemmasC01.qz s (c_sub c))
                   w (c_norm c) pad)
              = MiniPy.Interp.Exc SrcRun.index_error st'.
Proof. exact TieRaise.string_matching_raises_zero_width. Qed.
Print Assumptions c01_source_raises_zero_width.

(* exclude_last on a hypothesis tensor without time steps (no eos): `prefix_ers = torch.empty((0, N))`, then
   `prefix_ers[0] = ...` raises IndexError - the boundary of the hypothesis `c_excl c = true -> H <> 0` above *)
Theorem c01_source_prefix_raises_empty_hyp :
  forall (g : nat -> MiniTorch.OpsC01.fx) (s : positive) (c : cfg) (N R : nat) (ref hyp : list (list Z)) (w : bool),
  (0 < N)%nat -> Tie.wf_src (c_bf c) N R ref -> Tie.wf_src (c_bf c) N 0 hyp ->
  c_eos c = None -> c_excl c = true ->
  exists st', TieP.run_prefix g s c N ref hyp w = MiniPy.Interp.Exc SrcRun.index_error st'.
Proof. exact TiePRaise.prefix_raises_empty_hyp. Qed.
Print Assumptions c01_source_prefix_raises_empty_hyp.
