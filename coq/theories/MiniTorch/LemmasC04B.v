(* MiniTorch, unit C04B — algebra of OpsC04B.v on tabulated tensors (no new definitions of meaning). *)
From Coq Require Import List ZArith QArith Bool Arith Lia.
From PV Require Import MiniPy.Syntax MiniTorch.Ops MiniTorch.Lemmas MiniTorch.OpsC04 MiniTorch.LemmasC04 MiniTorch.OpsC04B.
Import ListNotations.
Local Open Scope nat_scope.

Lemma permute_tab3 : forall a b c f,
  permute (tabv3 a b c f) [1; 2; 0]%Z = Some (tabv3 b c a (fun j k i => f i j k)).
Proof.
  intros. unfold permute. cbn [tabv3 vshape]. f_equal. fold (tabv3 a b c f).
  apply tabv3_ext. intros j k i Hj Hk Hi. now apply g3_tab3.
Qed.

Lemma squeeze_tab3_2 : forall a b f, squeeze (tabv3 a b 1 f) 2 = Some (tabv2 a b (fun i j => f i j 0)).
Proof.
  intros a b f.
  assert (E : tl3 a b 1 f = tl2 a b (fun i j => f i j 0)).
  { unfold tl3, tl2. apply flat_map_ext_in. intros i _. cbn [seq map]. now rewrite (flat_map_singleton (fun j => f i j 0)). }
  unfold squeeze, OpsC04.dim, tabv3, tabv2. cbn [vshape vdata List.length].
  change (wrap_dim 3 2) with (Some 2). cbn [nth Nat.eqb firstn skipn app]. now rewrite E.
Qed.

Lemma sub_scalar_tab2 : forall n m f c g,
  (forall i j, i < n -> j < m -> el_sub (f i j) c = Some (g i j)) -> sub_scalar (tabv2 n m f) c = Some (tabv2 n m g).
Proof. intros. unfold sub_scalar. now apply tmap_opt_tab2. Qed.

Lemma clamp_min0_tab2 : forall n m (a : nat -> nat -> Z),
  clamp (tabv2 n m (fun i j => VInt (a i j))) (Some 0%Z) None = Some (tabv2 n m (fun i j => VInt (Z.max (a i j) 0))).
Proof. intros. unfold clamp. apply tmap_opt_tab2. intros. reflexivity. Qed.

Lemma eq_scalar_tab2 : forall n m (a : nat -> nat -> Z) c,
  eq_scalar (tabv2 n m (fun i j => VInt (a i j))) c = Some (tabv2 n m (fun i j => VBool (a i j =? c)%Z)).
Proof. intros. unfold eq_scalar. apply tmap_opt_tab2. intros. reflexivity. Qed.

Lemma gt_scalar_tab2 : forall n m (a : nat -> nat -> Z) c,
  gt_scalar (tabv2 n m (fun i j => VInt (a i j))) c = Some (tabv2 n m (fun i j => VBool (c <? a i j)%Z)).
Proof. intros. unfold gt_scalar. apply tmap_opt_tab2. intros. reflexivity. Qed.

Lemma tl3_1 : forall {A} n m (f : nat -> nat -> nat -> A), tl3 1 n m f = tl2 n m (f 0).
Proof. intros. rewrite tl3_unfold. cbn [seq flat_map]. apply app_nil_r. Qed.

(* `&` of two boolean matrices of the same shape *)
Lemma and_tab2 : forall n m (p q : nat -> nat -> bool),
  and_ (tabv2 n m (fun i j => VBool (p i j))) (tabv2 n m (fun i j => VBool (q i j)))
  = Some (tabv2 n m (fun i j => VBool (p i j && q i j))).
Proof.
  intros n m p q. unfold and_, zip3. cbn [tabv2 vshape as3 OpsC04.dim List.length Nat.max Nat.sub skipn].
  rewrite !bdim_same.
  rewrite (sequence_tl3 1 n m _ (fun _ i j => VBool (p i j && q i j))).
  - unfold tabv2. now rewrite tl3_1.
  - intros z i j Hz Hi Hj. assert (z = 0) by lia. subst z. rewrite bidx_1, !bidx_same by assumption.
    unfold g3. cbn [vdata]. replace ((0 * n + i) * m + j) with (i * m + j) by lia. unfold tabv2. cbn [vdata]. rewrite !nth_tl2 by assumption. reflexivity.
Qed.

Lemma all_bool_tab2 : forall n m (p : nat -> nat -> bool), all_bool (tabv2 n m (fun i j => VBool (p i j))) = true.
Proof. intros. unfold all_bool, tabv2. cbn [vdata]. apply forallb_tl2. reflexivity. Qed.

Lemma forallb_ext_in' : forall {A} (f g : A -> bool) l, (forall x, List.In x l -> f x = g x) -> forallb f l = forallb g l.
Proof.
  induction l as [|x l IH]; intros H; [reflexivity|]. cbn [forallb]. rewrite (H x) by now left.
  rewrite IH; [reflexivity|]. intros y Hy. apply H. now right.
Qed.

Lemma all_rows_tab2 : forall n m (p : nat -> nat -> bool),
  all_rows (tabv2 n m (fun i j => VBool (p i j))) = Some (tabv2 n 1 (fun i _ => VBool (forallb (p i) (seq 0 m)))).
Proof.
  intros n m p. unfold all_rows. cbn [tabv2 vshape]. fold (tabv2 n m (fun i j => VBool (p i j))). rewrite all_bool_tab2.
  f_equal. apply tabv2_ext. intros i j Hi _. f_equal.
  apply forallb_ext_in'. intros k Hk. apply in_seq in Hk. rewrite g2_tab2 by lia. reflexivity.
Qed.

Lemma narrow_last_tab2_1 : forall n m f, 1 <= m -> narrow_last (tabv2 n m f) 1 = Some (tabv2 n 1 (fun i _ => f i 0)).
Proof.
  intros n m f Hm. unfold narrow_last. cbn [tabv2 vshape]. fold (tabv2 n m f).
  replace (Nat.min 1 m) with 1 by lia. f_equal. apply tabv2_ext. intros i j Hi Hj. assert (j = 0) by lia. subst j.
  apply g2_tab2; lia.
Qed.
