(* MiniTorch — the algebra of Ops.v / Value.v needed by the ties (no new definitions of meaning). *)
From Coq Require Import List ZArith QArith Bool Arith Lia.
From Coq Require String.
From PV Require Import MiniPy.Syntax MiniPy.Interp MiniTorch.Ops MiniTorch.Value.
Import ListNotations.
Local Open Scope Q_scope.

(* ---- lists ------------------------------------------------------------------------------ *)
Lemma length_flat_map_const : forall {A B} (g : A -> list B) l P,
  (forall a, List.In a l -> length (g a) = P) -> length (flat_map g l) = (length l * P)%nat.
Proof.
  induction l as [|a l IH]; intros P H; cbn [flat_map length]; [reflexivity|].
  rewrite app_length, (H a) by now left. rewrite (IH P) by (intros; apply H; now right). lia.
Qed.

Lemma nth_flat_map_const : forall {A B} (g : A -> list B) l P i r da db,
  (forall a, List.In a l -> length (g a) = P) -> (i < length l)%nat -> (r < P)%nat ->
  nth (i * P + r) (flat_map g l) db = nth r (g (nth i l da)) db.
Proof.
  induction l as [|a l IH]; intros P i r da db H Hi Hr; cbn [flat_map length] in *; [lia|].
  destruct i as [|i].
  - cbn [Nat.mul Nat.add nth]. rewrite app_nth1 by (rewrite (H a) by (now left); lia). reflexivity.
  - rewrite app_nth2 by (rewrite (H a) by (now left); lia).
    rewrite (H a) by now left.
    replace (S i * P + r - P)%nat with (i * P + r)%nat by lia.
    cbn [nth]. apply IH; [intros; apply H; now right|lia|lia].
Qed.

Lemma nth_map_seq : forall {A} (h : nat -> A) n i d, (i < n)%nat -> nth i (map h (seq 0 n)) d = h i.
Proof.
  intros A h n i d Hi. rewrite (nth_indep _ d (h 0%nat)) by now rewrite map_length, seq_length.
  rewrite map_nth, seq_nth by assumption. reflexivity.
Qed.

Lemma flat_map_singleton : forall {A B} (f : A -> B) l, flat_map (fun a => [f a]) l = map f l.
Proof. induction l as [|a l IH]; cbn; [reflexivity|now rewrite IH]. Qed.

Lemma map_flat_map : forall {A B C} (h : B -> C) (g : A -> list B) l,
  map h (flat_map g l) = flat_map (fun a => map h (g a)) l.
Proof. induction l as [|a l IH]; cbn; [reflexivity|]. now rewrite map_app, IH. Qed.

Lemma flat_map_ext_in : forall {A B} (f g : A -> list B) l,
  (forall a, List.In a l -> f a = g a) -> flat_map f l = flat_map g l.
Proof.
  induction l as [|a l IH]; intros H; cbn; [reflexivity|].
  rewrite (H a) by now left. rewrite IH by (intros; apply H; now right). reflexivity.
Qed.

(* ---- tab2 / getm ------------------------------------------------------------------------- *)
Lemma getm_tab2 : forall n m f i j, (i < n)%nat -> (j < m)%nat -> getm m (tab2 n m f) i j = f i j.
Proof.
  intros n m f i j Hi Hj. unfold getm, tab2. cbn [tdata].
  rewrite (nth_flat_map_const _ _ m i j 0%nat 0).
  - rewrite seq_nth by assumption. cbn [Nat.add]. now apply nth_map_seq.
  - intros a _. now rewrite map_length, seq_length.
  - now rewrite seq_length.
  - assumption.
Qed.

Lemma tab2_ext : forall n m f g,
  (forall i j, (i < n)%nat -> (j < m)%nat -> f i j = g i j) -> tab2 n m f = tab2 n m g.
Proof.
  intros n m f g H. unfold tab2. f_equal. apply flat_map_ext_in. intros i Hi. apply in_seq in Hi.
  apply map_ext_in. intros j Hj. apply in_seq in Hj. apply H; lia.
Qed.

Lemma tmap_tab2 : forall h n m f, tmap h (tab2 n m f) = tab2 n m (fun i j => h (f i j)).
Proof.
  intros h n m f. unfold tmap, tab2. cbn [tshape tdata]. f_equal. rewrite map_flat_map.
  apply flat_map_ext_in. intros i _. now rewrite map_map.
Qed.

Lemma in_tab2 : forall n m f q, List.In q (tdata (tab2 n m f)) ->
  exists i j, (i < n)%nat /\ (j < m)%nat /\ q = f i j.
Proof.
  intros n m f q H. unfold tab2 in H. cbn [tdata] in H. apply in_flat_map in H.
  destruct H as [i [Hi H]]. apply in_map_iff in H. destruct H as [j [E Hj]].
  apply in_seq in Hi. apply in_seq in Hj. exists i, j. repeat split; [lia|lia|now symmetry].
Qed.

(* ---- encoding ------------------------------------------------------------------------------ *)
Lemma dec_nats_enc : forall l, dec_nats (map (fun n => VInt (Z.of_nat n)) l) = Some l.
Proof.
  induction l as [|x l IH]; [reflexivity|]. cbn [map dec_nats].
  replace (0 <=? Z.of_nat x)%Z with true by (symmetry; apply Z.leb_le; lia).
  rewrite IH, Nat2Z.id. reflexivity.
Qed.

Lemma dec_qs_enc : forall l, dec_qs (map VQ l) = Some l.
Proof. induction l as [|x l IH]; [reflexivity|]. cbn [map dec_qs]. now rewrite IH. Qed.

Lemma dec_enc : forall t, dec (enc t) = Some t.
Proof.
  intros [sh d]. unfold dec, enc. cbn [tshape tdata]. rewrite String.eqb_refl, dec_nats_enc, dec_qs_enc.
  reflexivity.
Qed.

(* ---- the operations on tabulated arguments --------------------------------------------------- *)
Lemma unsqueeze_tab1_0 : forall n f, unsqueeze (tab1 n f) 0 = Some (tab2 1 n (fun _ j => f j)).
Proof.
  intros n f. unfold unsqueeze, tab1, tab2, dim. cbn [tshape tdata length].
  change (wrap_dim 2 0) with (Some 0%nat). cbn [firstn skipn app seq flat_map].
  now rewrite app_nil_r.
Qed.

Lemma unsqueeze_tab1_1 : forall n f, unsqueeze (tab1 n f) 1 = Some (tab2 n 1 (fun i _ => f i)).
Proof.
  intros n f. unfold unsqueeze, tab1, tab2, dim. cbn [tshape tdata length].
  change (wrap_dim 2 1) with (Some 1%nat). cbn [firstn skipn app seq map].
  now rewrite (flat_map_singleton f).
Qed.

Lemma bidx_lt_l : forall a b n i, bdim a b = Some n -> (i < n)%nat -> (bidx a i < a)%nat.
Proof.
  intros a b n i H Hi. unfold bdim in H. unfold bidx.
  destruct (Nat.eqb_spec a b); [inversion H; subst; destruct (Nat.eqb_spec n 1); lia|].
  destruct (Nat.eqb_spec a 1); [lia|].
  destruct (Nat.eqb_spec b 1); [inversion H; subst; lia|discriminate].
Qed.

Lemma bidx_lt_r : forall a b n i, bdim a b = Some n -> (i < n)%nat -> (bidx b i < b)%nat.
Proof.
  intros a b n i H Hi. unfold bdim in H. unfold bidx.
  destruct (Nat.eqb_spec a b); [inversion H; subst; destruct (Nat.eqb_spec n 1); lia|].
  destruct (Nat.eqb_spec a 1); [inversion H; subst; destruct (Nat.eqb_spec n 1); lia|].
  destruct (Nat.eqb_spec b 1); [lia|discriminate].
Qed.

Lemma broadcast2_tab2 : forall h na ma a nb mb b n m,
  bdim na nb = Some n -> bdim ma mb = Some m ->
  broadcast2 h (tab2 na ma a) (tab2 nb mb b) =
  Some (tab2 n m (fun i j => h (a (bidx na i) (bidx ma j)) (b (bidx nb i) (bidx mb j)))).
Proof.
  intros h na ma a nb mb b n m Hn Hm. unfold broadcast2.
  change (as2 (tab2 na ma a)) with (Some (na, ma)). change (as2 (tab2 nb mb b)) with (Some (nb, mb)).
  cbv beta iota. rewrite Hn, Hm. change (dim (tab2 na ma a)) with 2%nat. change (dim (tab2 nb mb b)) with 2%nat.
  cbn [Nat.max Nat.sub skipn]. f_equal.
  change (mkTens [n; m] (tdata (tab2 n m ?F))) with (tab2 n m F).
  apply tab2_ext. intros i j Hi Hj.
  rewrite !getm_tab2 by eauto using bidx_lt_l, bidx_lt_r. reflexivity.
Qed.

Lemma pow_scalar_tab2 : forall g n m f k,
  (forall i j, (i < n)%nat -> (j < m)%nat -> nat_of_q (f i j) = Some (k i j)) ->
  pow_scalar g (tab2 n m f) = Some (tab2 n m (fun i j => qpow g (k i j))).
Proof.
  intros g n m f k H. unfold pow_scalar.
  replace (forallb is_nat_q (tdata (tab2 n m f))) with true.
  - rewrite tmap_tab2. f_equal. apply tab2_ext. intros i j Hi Hj. now rewrite H.
  - symmetry. apply forallb_forall. intros q Hq. apply in_tab2 in Hq.
    destruct Hq as [i [j [Hi [Hj ->]]]]. unfold is_nat_q. now rewrite H.
Qed.

Lemma triu_tab2 : forall n m f, triu (tab2 n m f) = Some (tab2 n m (fun i j => if (i <=? j)%nat then f i j else 0)).
Proof.
  intros n m f. unfold triu. cbn [tab2 tshape]. f_equal. apply tab2_ext. intros i j Hi Hj.
  fold (tab2 n m f). now rewrite getm_tab2.
Qed.

Lemma tril_tab2 : forall n m f, tril (tab2 n m f) = Some (tab2 n m (fun i j => if (j <=? i)%nat then f i j else 0)).
Proof.
  intros n m f. unfold tril. cbn [tab2 tshape]. f_equal. apply tab2_ext. intros i j Hi Hj.
  fold (tab2 n m f). now rewrite getm_tab2.
Qed.

Lemma matmul_2d : forall a b n k m, tshape a = [n; k] -> tshape b = [k; m] ->
  matmul a b = Some (tab2 n m (fun i j => qsum (map (fun l => getm k a i l * getm m b l j) (seq 0 k)))).
Proof. intros a b n k m Ha Hb. unfold matmul. now rewrite Ha, Hb, Nat.eqb_refl. Qed.

(* ---- numbers ----------------------------------------------------------------------------------- *)
Lemma qsum_ext_in : forall {A} (f g : A -> Q) l, (forall a, List.In a l -> f a == g a) -> qsum (map f l) = qsum (map g l).
Proof.
  induction l as [|a l IH]; intros H; [reflexivity|]. cbn [map qsum fold_right].
  fold (qsum (map f l)). fold (qsum (map g l)).
  rewrite IH by (intros; apply H; now right). apply Qred_complete. rewrite (H a) by now left. reflexivity.
Qed.

Lemma Qred_inject_Z : forall z, Qred (inject_Z z) = inject_Z z.
Proof.
  intros z. unfold Qred, inject_Z.
  pose proof (Z.ggcd_gcd z 1) as Hg. pose proof (Z.ggcd_correct_divisors z 1) as Hd.
  destruct (Z.ggcd z 1) as [g [aa bb]]. cbn [fst snd] in *. rewrite Z.gcd_1_r in Hg. subst g.
  destruct Hd as [Ha Hb]. rewrite Z.mul_1_l in Ha, Hb. subst. reflexivity.
Qed.

Lemma nat_of_q_int : forall q z, q == inject_Z z -> (0 <= z)%Z -> nat_of_q q = Some (Z.to_nat z).
Proof.
  intros q z H Hz. unfold nat_of_q. rewrite (Qred_complete _ _ H), Qred_inject_Z. cbn [Qden Qnum inject_Z].
  replace (0 <=? z)%Z with true by (symmetry; now apply Z.leb_le). reflexivity.
Qed.

(* max(j - i, 0) on the integers arange produces is the truncated subtraction of naturals *)
Lemma nat_of_q_clamped_diff : forall a b,
  nat_of_q (qmax 0 (inject_Z (Z.of_nat a) - inject_Z (Z.of_nat b))) = Some (a - b)%nat.
Proof.
  intros a b.
  assert (E : qmax 0 (inject_Z (Z.of_nat a) - inject_Z (Z.of_nat b)) == inject_Z (Z.of_nat (a - b))).
  { unfold qmax. destruct (Qle_bool 0 (inject_Z (Z.of_nat a) - inject_Z (Z.of_nat b))) eqn:E.
    - apply Qle_bool_iff in E. unfold Qle, Qminus, Qplus, Qopp, inject_Z in E. cbn in E.
      unfold Qeq, Qminus, Qplus, Qopp, inject_Z. cbn. lia.
    - assert (~ 0 <= inject_Z (Z.of_nat a) - inject_Z (Z.of_nat b)) as N
        by (intros N; apply Qle_bool_iff in N; congruence).
      unfold Qle, Qminus, Qplus, Qopp, inject_Z in N. cbn in N.
      replace (a - b)%nat with 0%nat by lia. reflexivity. }
  rewrite (nat_of_q_int _ _ E) by lia. now rewrite Nat2Z.id.
Qed.
