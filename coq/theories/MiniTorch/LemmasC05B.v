(* MiniTorch, unit C05B — algebra of the operations of OpsC05B.v on TABULATED tensors (T1 .. T4 of LemmasC05.v), in
   the ranks and broadcasting patterns the loop body and the epilogue of `CTCPrefixSearch.forward` meet.  No new
   definitions of semantics. *)
From Coq Require Import List ZArith QArith Qcanon Bool Arith Lia ZifyBool ZifyNat.
From PV Require Import MiniTorch.Ops MiniTorch.OpsC05 MiniTorch.LemmasC05 MiniTorch.OpsC05B.
Import ListNotations.
Local Open Scope nat_scope.

#[local] Ltac Zify.zify_post_hook ::= Z.to_euclidean_division_equations.

(* ---- the flat data of a 1-D tabulation ------------------------------------------------------------------- *)
Lemma indices1 a : indices [a] = map (fun i => [i]) (seq 0 a).
Proof.
  change (indices [a]) with (flat_map (fun i => map (cons i) [[]]) (seq 0 a)).
  generalize (seq 0 a). intros l. induction l as [|i l IH]; [reflexivity|]. cbn [flat_map]. rewrite IH. reflexivity.
Qed.

Lemma dat_T1 {X} a (F : nat -> X) : dat (T1 a F) = map F (seq 0 a).
Proof. unfold T1, tab. cbn [dat]. rewrite indices1, map_map. reflexivity. Qed.

Lemma shp_T1 {X} a (F : nat -> X) : shp (T1 a F) = [a]. Proof. reflexivity. Qed.
Lemma shp_T2 {X} a b (F : nat -> nat -> X) : shp (T2 a b F) = [a; b]. Proof. reflexivity. Qed.
Lemma shp_T3 {X} a b c (F : nat -> nat -> nat -> X) : shp (T3 a b c F) = [a; b; c]. Proof. reflexivity. Qed.

Lemma forallb_T1 {X} (p : X -> bool) a F : (forall i, i < a -> p (F i) = true) -> forallb p (dat (T1 a F)) = true.
Proof.
  intros H. rewrite dat_T1. apply forallb_forall. intros x Hx. apply in_map_iff in Hx. destruct Hx as [i [<- Hi]].
  apply in_seq in Hi. apply H. lia.
Qed.

(* ---- x[i] --------------------------------------------------------------------------------------------------- *)
Lemma select0_T3 {X} (d : X) a b c F i : i < a ->
  select0 d (T3 a b c F) (Z.of_nat i) = Some (T2 b c (fun j k => F i j k)).
Proof.
  intros Hi. unfold select0. cbn [shp T3 tab]. unfold zin.
  replace ((0 <=? Z.of_nat i)%Z && (Z.of_nat i <? Z.of_nat a)%Z) with true by lia. rewrite Nat2Z.id. f_equal.
  apply tab2_ext. intros j k Hj Hk. cbn [at_ nth]. fold (T3 a b c F). now rewrite get_T3.
Qed.
Lemma select0_T2 {X} (d : X) a b F i : i < a ->
  select0 d (T2 a b F) (Z.of_nat i) = Some (T1 b (fun j => F i j)).
Proof.
  intros Hi. unfold select0. cbn [shp T2 tab]. unfold zin.
  replace ((0 <=? Z.of_nat i)%Z && (Z.of_nat i <? Z.of_nat a)%Z) with true by lia. rewrite Nat2Z.id. f_equal.
  apply tab1_ext. intros j Hj. cbn [at_ nth]. fold (T2 a b F). now rewrite get_T2.
Qed.

(* ---- expand(-1, -1, w) ---------------------------------------------------------------------------------------- *)
Lemma expand_keep_T3_last {X} (d : X) a b c c' F : exp_ok c c' ->
  expand_keep d (T3 a b c F) [(-1)%Z; (-1)%Z; Z.of_nat c']
  = Some (T3 a b c' (fun i j k => F i j (bidx c k))).
Proof.
  intros Hc. unfold expand_keep. cbn [List.length rank shp T3 tab Nat.eqb zipw].
  change ((-1 =? -1)%Z) with true. cbv iota.
  replace (Z.of_nat c' =? -1)%Z with false by lia.
  fold (T3 a b c F). rewrite expand_T3 by (unfold exp_ok; auto). f_equal. apply T3_ext. intros i j k Hi Hj Hk.
  now rewrite !bidx_lt by assumption.
Qed.

(* ---- views ---------------------------------------------------------------------------------------------------- *)
Lemma view_split_T2 {X} (d : X) a b c F :
  view_split d (T2 (a * b) c F) [Z.of_nat a; Z.of_nat b; Z.of_nat c] = Some (T3 a b c (fun i j k => F (i * b + j) k)).
Proof.
  unfold view_split. cbn [shp T2 tab]. rewrite nat_sizes3. rewrite !Nat.eqb_refl. cbn [andb]. f_equal.
  apply tab3_ext. intros i j k Hi Hj Hk. cbn [at_ nth]. fold (T2 (a * b) c F). rewrite get_T2; [reflexivity| |exact Hk]. nia.
Qed.
Lemma view_split_T1 {X} (d : X) a F :
  view_split d (T1 a F) [Z.of_nat a; 1%Z; 1%Z] = Some (T3 a 1 1 (fun i _ _ => F i)).
Proof.
  unfold view_split. cbn [shp T1 tab]. change [Z.of_nat a; 1%Z; 1%Z] with [Z.of_nat a; Z.of_nat 1; Z.of_nat 1].
  rewrite nat_sizes3. rewrite Nat.eqb_refl. f_equal.
  apply tab3_ext. intros i j k Hi Hj Hk. cbn [at_ nth]. fold (T1 a F). now rewrite get_T1.
Qed.

Lemma flatten2_T2 {X} (d : X) a b F : flatten2 d (T2 a b F) = Some (T1 (a * b) (fun r => F (r / b) (r mod b))).
Proof.
  unfold flatten2. cbn [shp T2 tab]. f_equal. apply tab1_ext. intros r Hr. cbn [at_ nth]. fold (T2 a b F).
  assert (0 < b) by nia. rewrite get_T2; [reflexivity| |].
  - apply Nat.div_lt_upper_bound; lia.
  - apply Nat.mod_upper_bound. lia.
Qed.

Lemma flatten1_3_T3 {X} (d : X) a b c F : 0 < c ->
  flatten1_3 d (T3 a b c F) = Some (T2 a (b * c) (fun i r => F i (r / c) (r mod c))).
Proof. intros Hc. unfold flatten1_3. cbn [shp T3 tab]. fold (T3 a b c F). now apply view_merge_T3. Qed.
(* a hist with no token positions at all *)
Lemma flatten1_3_T3_0 {X} (d : X) b c F G : flatten1_3 d (T3 0 b c F) = Some (T2 0 (b * c) G).
Proof.
  unfold flatten1_3. cbn [shp T3 tab]. unfold view_merge. cbn [shp T3 tab].
  replace (Z.of_nat b * Z.of_nat c)%Z with (Z.of_nat (b * c)) by lia. rewrite nat_sizes2.
  rewrite !Nat.eqb_refl. reflexivity.
Qed.

(* ---- repeat ---------------------------------------------------------------------------------------------------- *)
Lemma repeat_T3 {X} (d : X) a b c ra rb rc F : 0 < a -> 0 < b -> 0 < c ->
  repeat_ d (T3 a b c F) [Z.of_nat ra; Z.of_nat rb; Z.of_nat rc]
  = Some (T3 (a * ra) (b * rb) (c * rc) (fun i j k => F (i mod a) (j mod b) (k mod c))).
Proof.
  intros Ha Hb Hc. unfold repeat_. rewrite nat_sizes3. cbn [List.length rank shp T3 tab Nat.eqb zipw]. f_equal.
  apply tab3_ext. intros i j k Hi Hj Hk. cbn [zipw at_ nth]. fold (T3 a b c F).
  rewrite get_T3; [reflexivity|apply Nat.mod_upper_bound; lia..].
Qed.
Lemma repeat_T3_0 {X} (d : X) b c ra rb rc F G :
  repeat_ d (T3 0 b c F) [Z.of_nat ra; Z.of_nat rb; Z.of_nat rc] = Some (T3 0 (b * rb) (c * rc) G).
Proof. unfold repeat_. rewrite nat_sizes3. cbn [List.length rank shp T3 tab Nat.eqb zipw]. f_equal. Qed.
Lemma repeat_T2 {X} (d : X) a b ra rb F : 0 < a -> 0 < b ->
  repeat_ d (T2 a b F) [Z.of_nat ra; Z.of_nat rb] = Some (T2 (a * ra) (b * rb) (fun i j => F (i mod a) (j mod b))).
Proof.
  intros Ha Hb. unfold repeat_. rewrite nat_sizes2. cbn [List.length rank shp T2 tab Nat.eqb zipw]. f_equal.
  apply tab2_ext. intros i j Hi Hj. cbn [zipw at_ nth]. fold (T2 a b F).
  rewrite get_T2; [reflexivity|apply Nat.mod_upper_bound; lia..].
Qed.

(* ---- arange ------------------------------------------------------------------------------------------------------ *)
Lemma arange3_T1 n k : 0 < k ->
  arange3 0 (Z.of_nat k * Z.of_nat n) (Z.of_nat k) = Some (T1 n (fun i => Z.of_nat (i * k))).
Proof.
  intros Hk. unfold arange3. replace (0 <? Z.of_nat k)%Z with true by lia.
  replace (Z.to_nat ((Z.of_nat k * Z.of_nat n - 0 + Z.of_nat k - 1) / Z.of_nat k)) with n.
  - f_equal. apply tab1_ext. intros i Hi. cbn [at_ nth]. lia.
  - replace (Z.of_nat k * Z.of_nat n - 0 + Z.of_nat k - 1)%Z with (Z.of_nat n * Z.of_nat k + (Z.of_nat k - 1))%Z by lia.
    rewrite Z.div_add_l by lia. rewrite Z.div_small by lia. lia.
Qed.

(* ---- element-wise with a scalar ------------------------------------------------------------------------------ *)
Lemma smul_T3 c a b e F :
  smul c (T3 a b e (fun i j k => M.Fin (F i j k))) = Some (T3 a b e (fun i j k => M.Fin (c * F i j k)%Qc)).
Proof.
  unfold smul. rewrite forallb_T3 by reflexivity. now rewrite tmap_T3.
Qed.
Lemma rsub_s_T3 c a b e F :
  rsub_s c (T3 a b e (fun i j k => M.Fin (F i j k))) = Some (T3 a b e (fun i j k => M.Fin (c - F i j k)%Qc)).
Proof.
  unfold rsub_s. rewrite forallb_T3 by reflexivity. now rewrite tmap_T3.
Qed.

(* ---- where with broadcasting ------------------------------------------------------------------------------------ *)
Lemma where_b_T2 {X} (d : X) a0 b0 a1 b1 a2 b2 a b C F G :
  bdim a1 a2 = Some a -> bdim b1 b2 = Some b -> bdim a0 a = Some a -> bdim b0 b = Some b ->
  where_b d (T2 a0 b0 C) (T2 a1 b1 F) (T2 a2 b2 G)
  = Some (T2 a b (fun i j => if C (bidx a0 i) (bidx b0 j) then F (bidx a1 i) (bidx b1 j) else G (bidx a2 i) (bidx b2 j))).
Proof.
  intros H1 H2 H3 H4. unfold where_b. rewrite (zipb_T2 _ _ _ a1 b1 a2 b2 a b) by assumption.
  rewrite (zipb_T2 _ _ _ a0 b0 a b a b) by assumption. f_equal. apply T2_ext. intros i j Hi Hj.
  rewrite !(bidx_lt a) by assumption. rewrite !(bidx_lt b) by assumption. reflexivity.
Qed.
Lemma where_b_T3 {X} (d : X) a0 b0 c0 a1 b1 c1 a2 b2 c2 a b c C F G :
  bdim a1 a2 = Some a -> bdim b1 b2 = Some b -> bdim c1 c2 = Some c ->
  bdim a0 a = Some a -> bdim b0 b = Some b -> bdim c0 c = Some c ->
  where_b d (T3 a0 b0 c0 C) (T3 a1 b1 c1 F) (T3 a2 b2 c2 G)
  = Some (T3 a b c (fun i j k => if C (bidx a0 i) (bidx b0 j) (bidx c0 k) then F (bidx a1 i) (bidx b1 j) (bidx c1 k)
                                 else G (bidx a2 i) (bidx b2 j) (bidx c2 k))).
Proof.
  intros H1 H2 H3 H4 H5 H6. unfold where_b. rewrite (zipb_T3 _ _ _ a1 b1 c1 a2 b2 c2 a b c) by assumption.
  rewrite (zipb_T3 _ _ _ a0 b0 c0 a b c a b c) by assumption. f_equal. apply T3_ext. intros i j k Hi Hj Hk.
  rewrite !(bidx_lt a) by assumption. rewrite !(bidx_lt b) by assumption. rewrite !(bidx_lt c) by assumption. reflexivity.
Qed.

(* the patterns of the loop body: a (1, 1) / (1, 1, 1) mask over one batch element *)
Lemma where_b_T2_mask {X} (d : X) w w' (m : bool) F G : exp_ok w' w ->
  where_b d (T2 1 1 (fun _ _ => m)) (T2 1 w F) (T2 1 w' G)
  = Some (T2 1 w (fun i j => if m then F i j else G i (bidx w' j))).
Proof.
  intros Hw. assert (Hb : bdim w w' = Some w).
  { destruct Hw as [->| ->]; [apply bdim_refl|apply bdim_1_r]. }
  rewrite (where_b_T2 _ 1 1 1 w 1 w' 1 w) by (try apply bdim_refl; try apply bdim_1_l; assumption).
  f_equal. apply T2_ext. intros i j Hi Hj. rewrite !bidx_1. rewrite (bidx_lt w) by assumption.
  replace i with 0 by lia. reflexivity.
Qed.
Lemma where_b_T3_mask {X} (d : X) s w (m : bool) F G :
  where_b d (T3 1 1 1 (fun _ _ _ => m)) (T3 s 1 w F) (T3 s 1 w G)
  = Some (T3 s 1 w (fun i j k => if m then F i j k else G i j k)).
Proof.
  rewrite (where_b_T3 _ 1 1 1 s 1 w s 1 w s 1 w) by (try apply bdim_refl; try apply bdim_1_l).
  f_equal. apply T3_ext. intros i j k Hi Hj Hk. rewrite !bidx_1. rewrite (bidx_lt s), (bidx_lt w) by assumption.
  replace j with 0 by lia. reflexivity.
Qed.

(* ---- broadcasting patterns of the fusion block --------------------------------------------------------------- *)
Lemma zipb_T3_mid1 {X Y W} (dx : X) (dy : Y) (f : X -> Y -> W) a b c F G :
  zipb dx dy f (T3 a b c F) (T3 a 1 c G) = Some (T3 a b c (fun i j k => f (F i j k) (G i 0 k))).
Proof.
  rewrite (zipb_T3 _ _ _ a b c a 1 c a b c) by (apply bdim_refl || apply bdim_1_r). f_equal. apply T3_ext.
  intros i j k Hi Hj Hk. rewrite ?bidx_1. now rewrite ?bidx_lt by assumption.
Qed.
Lemma zipb_T3_mid1_l {X Y W} (dx : X) (dy : Y) (f : X -> Y -> W) a b c F G :
  zipb dx dy f (T3 a 1 c F) (T3 a b c G) = Some (T3 a b c (fun i j k => f (F i 0 k) (G i j k))).
Proof.
  rewrite (zipb_T3 _ _ _ a 1 c a b c a b c) by (apply bdim_refl || apply bdim_1_l). f_equal. apply T3_ext.
  intros i j k Hi Hj Hk. rewrite ?bidx_1. now rewrite ?bidx_lt by assumption.
Qed.
Lemma zipb_T3_11 {X Y W} (dx : X) (dy : Y) (f : X -> Y -> W) a b c F G :
  zipb dx dy f (T3 a b c F) (T3 a 1 1 G) = Some (T3 a b c (fun i j k => f (F i j k) (G i 0 0))).
Proof.
  rewrite (zipb_T3 _ _ _ a b c a 1 1 a b c) by (apply bdim_refl || apply bdim_1_r). f_equal. apply T3_ext.
  intros i j k Hi Hj Hk. rewrite ?bidx_1. now rewrite ?bidx_lt by assumption.
Qed.
Lemma zipb_T2_row_l {X Y W} (dx : X) (dy : Y) (f : X -> Y -> W) a b F G :
  zipb dx dy f (T2 a 1 F) (T2 a b G) = Some (T2 a b (fun i j => f (F i 0) (G i j))).
Proof.
  rewrite (zipb_T2 _ _ _ a 1 a b a b) by (apply bdim_refl || apply bdim_1_l). f_equal. apply T2_ext.
  intros i j Hi Hj. rewrite ?bidx_1. now rewrite ?bidx_lt by assumption.
Qed.

Lemma full_T2' {X} a b (v : X) : full [Z.of_nat a; Z.of_nat b] v = Some (T2 a b (fun _ _ => v)).
Proof. apply full_T2. Qed.

Lemma unsqueeze_T1_0 {X} (d : X) a F : unsqueeze d (T1 a F) 0 = Some (T2 1 a (fun _ i => F i)).
Proof.
  unfold unsqueeze. unfold T1, T2; cbn [rank shp tab List.length]. change (wrap_dim 2 0) with (Some 0). cbv beta iota. f_equal.
  cbn [insert_at firstn skipn app]. apply tab2_ext. intros i j Hi Hj. cbn [remove_at firstn skipn app at_ nth].
  now rewrite get_tab1.
Qed.
