(* MiniTorch, unit C01Src — the meaning given to the torch operations that occur in the translated
   `_string_matching` (_string.py) on the path of the plain edit distance (return_mask =
   return_prf_dsts = return_mistakes = False), and the encoding of its float tensors as MiniPy values.
   DEFINITIONS ONLY; the algebra is in LemmasC01.v.

   Tensors are PV.MiniTorch.OpsC07.tn: (shape, row-major flat data), any number of dimensions, over
     bool   (torch.bool)    tagged "$tensor.bool"   (OpsC07.enc_b)
     Z      (torch.long; unbounded, no wrap-around)   tagged "$tensor.long"   (OpsC07.enc_i)
     fx     (floating point: an exact rational, +inf, -inf or NaN)   tagged "$tensor"   (enc_x below)
   IEEE rounding, signed zeros, dtypes' ranges, devices, strides and the aliasing of views are NOT
   modelled (DESIGN.md section 3): a float is an exact rational kept in lowest terms.  Every
   operation returns [None] outside the domain stated with it; the unit's [ext] turns [None] into
   [Stuck], so a tie lemma about a run that leaves the domain cannot be proved (fail-closed).

   Each definition quotes the sentence of the torch documentation (2.x) it models.  This file is
   TRUSTED by the C01 tie; it is exercised on every run by the harness-side
   [SrcRun.src_edit_distance_check] (torch vs the interpreted source on the same inputs). *)
From Coq Require Import List ZArith QArith Bool Arith String.
From PV Require Import MiniPy.Syntax MiniTorch.Ops MiniTorch.OpsC07.
Import ListNotations.
Local Open Scope nat_scope.

(* ---- float elements --------------------------------------------------------------------------- *)
Inductive fx := Fq (q : Q) | FPInf | FNInf | FNaN.

Definition qsign (q : Q) : comparison := (Qnum q ?= 0)%Z.     (* Datatypes.Gt: positive, Eq: zero, Lt: negative *)

(* IEEE 754 addition on rationals and the specials: NaN is absorbing, inf + (-inf) = NaN, an
   infinity absorbs every finite operand; finite sums are exact, kept in lowest terms *)
Definition fadd (a b : fx) : fx :=
  match a, b with
  | FNaN, _ | _, FNaN => FNaN
  | FPInf, FNInf | FNInf, FPInf => FNaN
  | FPInf, _ | _, FPInf => FPInf
  | FNInf, _ | _, FNInf => FNInf
  | Fq p, Fq q => Fq (Qred (p + q))
  end.

Definition fneg (a : fx) : fx :=
  match a with Fq p => Fq (Qred (- p)) | FPInf => FNInf | FNInf => FPInf | FNaN => FNaN end.

(* a - b: inf - inf = NaN *)
Definition fsub (a b : fx) : fx :=
  match a, b with
  | FNaN, _ | _, FNaN => FNaN
  | FPInf, FPInf | FNInf, FNInf => FNaN
  | FPInf, _ | _, FNInf => FPInf
  | FNInf, _ | _, FPInf => FNInf
  | Fq p, Fq q => Fq (Qred (p - q))
  end.

Definition finf_signed (s : comparison) : fx :=
  match s with Datatypes.Gt => FPInf | Datatypes.Lt => FNInf | Datatypes.Eq => FNaN end.

Definition csign_mul (a b : comparison) : comparison :=
  match a, b with
  | Datatypes.Eq, _ | _, Datatypes.Eq => Datatypes.Eq
  | Datatypes.Gt, Datatypes.Gt | Datatypes.Lt, Datatypes.Lt => Datatypes.Gt
  | _, _ => Datatypes.Lt
  end.

Definition fsign (a : fx) : comparison :=
  match a with Fq p => qsign p | FPInf => Datatypes.Gt | FNInf => Datatypes.Lt | FNaN => Datatypes.Eq end.

(* a * b: 0 * inf = NaN, otherwise an infinity with the product of the signs *)
Definition fmul (a b : fx) : fx :=
  match a, b with
  | FNaN, _ | _, FNaN => FNaN
  | Fq p, Fq q => Fq (Qred (p * q))
  | _, _ => finf_signed (csign_mul (fsign a) (fsign b))
  end.

(* a / b: x / 0 = +-inf by the sign of x and 0 / 0 = NaN (the zero divisor is read as +0: signed
   zeros are not modelled), finite / inf = 0, inf / inf = NaN *)
Definition fdiv (a b : fx) : fx :=
  match a, b with
  | FNaN, _ | _, FNaN => FNaN
  | Fq p, Fq q => if Qeq_bool q 0 then finf_signed (qsign p) else Fq (Qred (p / q))
  | Fq _, _ => Fq 0
  | _, Fq q => finf_signed (csign_mul (fsign a) (match qsign q with Datatypes.Eq => Datatypes.Gt | s => s end))
  | _, _ => FNaN
  end.

(* torch.min / torch.minimum on two values: the smaller one, NaN if either is NaN ("If one of the
   elements being compared is a NaN, then that element is returned"); for equal finite values the
   first operand (the same rational) *)
Definition fmin (a b : fx) : fx :=
  match a, b with
  | FNaN, _ | _, FNaN => FNaN
  | FNInf, _ | _, FNInf => FNInf
  | FPInf, x | x, FPInf => x
  | Fq p, Fq q => if Qle_bool p q then Fq p else Fq q
  end.

Definition b2f (b : bool) : fx := Fq (if b then 1 else 0)%Q.
Definition z2f (z : Z) : fx := Fq (inject_Z z).

(* ---- element-wise -------------------------------------------------------------------------------- *)
Definition map_t {X Y} (f : X -> Y) (x : tn X) : tn Y := mkTn (shp x) (map f (dat x)).

(* Tensor.float() / Tensor.to(dtype): "Returns a Tensor with the specified dtype": bool -> float
   (True -> 1.0, False -> 0.0), bool -> long (1, 0), long -> float (the same integer; exact while it
   is representable, which is assumed) *)
Definition bool_to_float : tn bool -> tn fx := map_t b2f.
Definition bool_to_long : tn bool -> tn Z := map_t b2z.
Definition long_to_float : tn Z -> tn fx := map_t z2f.

(* a binary operation on two tensors with broadcasting (torch.add / sub / mul / div / minimum / ne /
   lt / ge / eq ...: "The shapes of input and other must be broadcastable"): OpsC07.broadcast *)
Definition bin_f (f : fx -> fx -> fx) (a b : tn fx) : option (tn fx) := broadcast f FNaN FNaN a b.
Definition bin_i (f : Z -> Z -> Z) (a b : tn Z) : option (tn Z) := broadcast f 0%Z 0%Z a b.
Definition cmp_i (f : Z -> Z -> bool) (a b : tn Z) : option (tn bool) := broadcast f 0%Z 0%Z a b.

(* torch.where(condition, input, other): "Return a tensor of elements selected from either input or
   other, depending on condition.  The tensors condition, input, other must be broadcastable."
   out_i = input_i if condition_i else other_i *)
Definition where_f (c : tn bool) (a b : tn fx) : option (tn fx) :=
  match broadcast (fun (ci : bool) (x : fx) => (ci, x)) false FNaN c a with
  | Some ca => broadcast (fun (p : bool * fx) (y : fx) => if fst p then snd p else y) (false, FNaN) FNaN ca b
  | None => None
  end.

(* Tensor.any(): "Tests if any element in input evaluates to True." (the 0-dimensional result is
   only ever used as the condition of an `if`: its truth value) *)
Definition any_b (x : tn bool) : bool := existsb (fun b => b) (dat x).

(* ---- construction --------------------------------------------------------------------------------- *)
(* torch.arange(end, dtype=torch.float), integer end >= 0: "Returns a 1-D tensor of size
   ceil((end - start) / step) with values from the interval [start, end) taken with common
   difference step beginning from start" (start = 0, step = 1).  device= is ignored; the dtype is
   assumed to represent these integers exactly.  None: negative end *)
Definition arange_f (n : Z) : option (tn fx) :=
  if (n <? 0)%Z then None else Some (mkTn [Z.to_nat n] (map (fun i => z2f (Z.of_nat i)) (seq 0 (Z.to_nat n)))).

(* torch.full(size, fill_value): "Creates a tensor of size size filled with fill_value."
   torch.full_like(input, fill_value): "Returns a tensor with the same size as input filled with
   fill_value."  torch.empty(0): a tensor without elements (its uninitialised contents do not exist) *)
Definition full {X} (sh : list nat) (v : X) : tn X := mkTn sh (repeat v (numel sh)).

(* ---- shape-only ------------------------------------------------------------------------------------- *)
(* Tensor.t(): "Expects input to be <= 2-D tensor and transposes dimensions 0 and 1.  0-D and 1-D
   tensors are returned as is."  Modelled for 1-D and 2-D *)
Definition transpose2 {X} (d : X) (x : tn X) : option (tn X) :=
  match shp x with
  | [_] => Some x
  | [n; m] => Some (mkTn [m; n] (tab2 m n (fun j i => nth (i * m + j) (dat x) d)))
  | _ => None
  end.

(* Tensor.expand( *sizes): "Returns a new view of the self tensor with singleton dimensions expanded
   to a larger size. ... Passing -1 as the size for a dimension means not changing the size of that
   dimension."  Modelled for a 2-D tensor expanded to 2 sizes (each equal to the present size, or
   the present size is 1; -1 keeps it).  None otherwise *)
Definition expand_size (have : nat) (want : Z) : option nat :=
  if (want =? -1)%Z then Some have
  else if (want <? 0)%Z then None
  else if Z.to_nat want =? have then Some have
  else if have =? 1 then Some (Z.to_nat want) else None.

Definition expand2 {X} (d : X) (x : tn X) (s0 s1 : Z) : option (tn X) :=
  match shp x with
  | [n; m] =>
      match expand_size n s0, expand_size m s1 with
      | Some n', Some m' => Some (mkTn [n'; m'] (tab2 n' m' (fun i j => nth (bidx n i * m + bidx m j) (dat x) d)))
      | _, _ => None
      end
  | _ => None
  end.

(* Tensor.triu(diagonal) on a matrix: "Returns the upper triangular part of a matrix (2-D tensor)
   ..., the other elements of the result tensor out are set to 0. ... The argument diagonal controls
   which diagonal to consider. ... a positive value excludes just as many diagonals above the main
   diagonal": kept where j - i >= diagonal.  Modelled for 2-D and diagonal >= 0 *)
Definition triu_f (x : tn fx) (k : Z) : option (tn fx) :=
  match shp x with
  | [n; m] => if (k <? 0)%Z then None
              else Some (mkTn [n; m] (tab2 n m (fun i j => if i + Z.to_nat k <=? j then nth (i * m + j) (dat x) FNaN else Fq 0)))
  | _ => None
  end.

(* ---- indexing along the first dimension ----------------------------------------------------------- *)
(* x[i] with an integer: "selects" row i of the first dimension (negative i counts from the end);
   the result has one dimension fewer.  Some None: index out of range (IndexError).  None: 0-d *)
Definition select0 {X} (x : tn X) (i : Z) : option (option (tn X)) :=
  match shp x with
  | n :: rest =>
      let j := if (i <? 0)%Z then (i + Z.of_nat n)%Z else i in
      if ((0 <=? j) && (j <? Z.of_nat n))%Z
      then let w := numel rest in
           Some (Some (mkTn rest (firstn w (skipn (Z.to_nat j * w) (dat x)))))
      else Some None
  | [] => None
  end.

(* Python slice bounds a:b (no step) on a dimension of size n: missing = 0 / n, negative counts from
   the end, then clipped to [0, n]; the slice is empty when the start is not below the stop *)
Definition slice_bound (n : nat) (dflt : nat) (b : option Z) : nat :=
  match b with
  | None => dflt
  | Some z => let z' := if (z <? 0)%Z then (z + Z.of_nat n)%Z else z in
              Nat.min n (Z.to_nat z')
  end.

(* x[a:b]: rows a .. b-1 of the first dimension (a row has [numel rest] entries; numel [] = 1) *)

Definition slice0 {X} (x : tn X) (a b : option Z) : option (tn X) :=
  match shp x with
  | n :: rest =>
      let lo := slice_bound n 0 a in
      let hi := slice_bound n n b in
      let w := numel rest in
      Some (mkTn ((hi - lo) :: rest) (firstn ((hi - lo) * w) (skipn (lo * w) (dat x))))
  | [] => None
  end.

(* x[a:b] = v with v of exactly the shape of x[a:b] (no broadcasting of v): rows a .. b-1 replaced *)
Definition set_slice0 {X} (x : tn X) (a b : option Z) (v : tn X) : option (tn X) :=
  match shp x with
  | n :: rest =>
      let lo := slice_bound n 0 a in
      let hi := slice_bound n n b in
      let w := numel rest in
      if nats_eqb (shp v) ((hi - lo) :: rest) && (List.length (dat v) =? (hi - lo) * w)
      then Some (mkTn (shp x) (firstn (lo * w) (dat x) ++ dat v ++ skipn (Nat.max lo hi * w) (dat x)))
      else None
  | [] => None
  end.

(* Tensor.gather(0, index) on matrices: "out[i][j] = input[index[i][j]][j]  # if dim == 0. ... input
   and index must have the same number of dimensions.  It is also required that index.size(d) <=
   input.size(d) for all dimensions d != dim.  out will have the same shape as index."  Modelled for
   2-D input (n x m) and 2-D index (k x m) with EQUAL trailing size and every index within [0, n)
   (torch raises otherwise: None) *)
Definition gather0 (x : tn fx) (idx : tn Z) : option (tn fx) :=
  match shp x, shp idx with
  | [n; m], [k; m'] =>
      if (m =? m') && forallb (fun j => (0 <=? j)%Z && (j <? Z.of_nat n)%Z) (dat idx)
      then Some (mkTn [k; m] (tab2 k m (fun i j => nth (Z.to_nat (nth (i * m + j) (dat idx) 0%Z) * m + j) (dat x) FNaN)))
      else None
  | _, _ => None
  end.

(* ---- reduction along one dimension ------------------------------------------------------------------ *)
(* Tensor.min(dim): "Returns a namedtuple (values, indices) where values is the minimum value of each
   row of the input tensor in the given dimension dim.  And indices is the index location of each
   minimum value found (argmin). ... dim is squeezed ..., resulting in the output tensors having 1
   fewer dimension than input."; "If there are multiple minimal values in a reduced row then the
   indices of the first minimal value are returned."  (+inf is the unit of [fmin], NaN propagates.)
   None: dim outside [-rank, rank).  Some None: the reduced dimension has size 0 (torch raises
   IndexError "min(): Expected reduction dim to have non-zero size.") *)
Definition fmin_list (l : list fx) : fx := fold_right fmin FPInf l.

Definition fx_same (a b : fx) : bool :=
  match a, b with
  | Fq p, Fq q => Qeq_bool p q
  | FPInf, FPInf | FNInf, FNInf | FNaN, FNaN => true
  | _, _ => false
  end.

Fixpoint first_at (m : fx) (l : list fx) : nat :=
  match l with [] => 0 | x :: r => if fx_same x m then 0 else S (first_at m r) end.

Definition min_dim (x : tn fx) (d : Z) : option (option (tn fx * tn Z)) :=
  match wrap_dim (rank x) d with
  | Some k =>
      let sh := shp x in
      let N := extent sh k in
      let I := inner sh k in
      let O := outer sh k in
      if N =? 0 then Some None else
      Some (Some (mkTn (drop_dim sh k) (tab2 O I (fun o i => fmin_list (fibre FNaN N I (dat x) o i))),
                  mkTn (drop_dim sh k) (tab2 O I (fun o i => let f := fibre FNaN N I (dat x) o i in
                                                             Z.of_nat (first_at (fmin_list f) f)))))
  | None => None
  end.

(* ---- float tensors as MiniPy values ------------------------------------------------------------------ *)
Local Open Scope string_scope.

Definition nan_val : val := VStr "nan".

Definition fx_val (x : fx) : val :=
  match x with Fq q => VQ q | FPInf => VInf true | FNInf => VInf false | FNaN => nan_val end.

Definition val_fx (v : val) : option fx :=
  match v with
  | VQ q => Some (Fq q)
  | VInf true => Some FPInf
  | VInf false => Some FNInf
  | VStr s => if String.eqb s "nan" then Some FNaN else None
  | _ => None
  end.

Definition enc_x (t : tn fx) : val := VTuple [VStr tag_float; enc_shape (shp t); VList (map fx_val (dat t))].

Inductive any01 := AB (t : tn bool) | AI (t : tn Z) | AX (t : tn fx).

Definition dec01 (v : val) : option any01 :=
  match v with
  | VTuple [VStr tag; VList sh; VList d] =>
      match dec_nats sh with
      | Some s =>
          if String.eqb tag tag_bool then option_map (fun l => AB (mkTn s l)) (dec_list val_bool d)
          else if String.eqb tag tag_long then option_map (fun l => AI (mkTn s l)) (dec_list val_int d)
          else if String.eqb tag tag_float then option_map (fun l => AX (mkTn s l)) (dec_list val_fx d)
          else None
      | None => None
      end
  | _ => None
  end.

Definition enc01 (t : any01) : val :=
  match t with AB x => enc_b x | AI x => enc_i x | AX x => enc_x x end.

Definition shape01 (t : any01) : list nat :=
  match t with AB x => shp x | AI x => shp x | AX x => shp x end.

(* a shape-only operation applied to a tensor of any element type *)
Definition map01 (f : forall X, X -> tn X -> option (tn X)) (t : any01) : option any01 :=
  match t with
  | AB x => option_map AB (f bool false x)
  | AI x => option_map AI (f Z 0%Z x)
  | AX x => option_map AX (f fx FNaN x)
  end.
