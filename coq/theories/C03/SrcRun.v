(* C03 — the translated source of `_string_matching` (return_mask = True: the call `optimal_completion` makes) and of
   `optimal_completion` (_string.py) as executables: the environment [ext03], the encoding of the model's inputs as MiniPy
   tensor values, and the correspondence entry points [src_mask_check] / [src_oc_check].  Definitions only; the lemmas are
   in Tie*.v.

   PV.Gen.C03Src.* are regenerated from /repo/src/pydrobert/torch/_string.py on every C03 run by harness/py2coq/translate.py:
     sm3_body   the WHOLE body of _string_matching (every branch)
     sm3_pre    "assert not return_mask ..." .. "if eos is not None: ... else: ..."   (checks, uniform-cost shortcut, layout, lengths)
     sm3_row0   "rrange = torch.arange(..)" .. "row = row.unsqueeze(1).expand(..)"     (row 0 and del_mat)
     sm3_main   "if return_mask:" (before the loop) .. "if return_mask:" (after it)  = first mask row, the `for hyp_idx` loop,
                the exit that stacks the masks and returns (the return_prf_dsts alternatives are inside, not run)
     sm3_loop   the `for hyp_idx in range(..)` statement alone (= 2nd statement of sm3_main)
     sm3_lens   the whole body of `_lens_from_eos`
     oc_body    the WHOLE body of optimal_completion; oc_call / oc_post / oc_fin: its first statement (the call), the
                statements "if not batch_first:" .. "target_mask = ..", and "targets.masked_scatter_(..)" .. "return targets"
   The decorators (@script, @functional_wrapper) are outside the bodies: the tie is about the text as eager CPython runs it.

   [ext03] = the new vocabulary of the mask path and of the post-processing ([ext03_new], meanings in PV.MiniTorch.OpsC03),
   falling back to PV.C01.SrcRun.ext01 (read-only) for everything the plain edit-distance path already uses.  What is new:
     torch.zeros((a, b), device=, dtype=torch.bool)   torch.arange(n, device=)  [long]   torch.stack(list, 0)
     x.masked_fill(mask, float("inf"))                x.min(d, keepdim=True)             x[i] = v  (integer i, bool tensors)
     float > long, float == float, long < long (tensors, broadcasting), long > int           a & b (bool, broadcasting)
     _lens_from_eos(tok, eos, dim) = C07.SrcRun.call_body on THIS unit's sm3_lens
   and, for optimal_completion, see the second half of [ext03_new].
   `_string_matching(...)` called from optimal_completion is the interpretation of sm3_body by [ext03_sm] on fresh
   variables (parameters bound positionally / by keyword, the others to their defaults; `padding` is not read on this path).
   ASSUMPTIONS as in C01.SrcRun: ref / hyp long tensors, costs Python floats (exact rationals), dtypes select conversions
   only, devices ignored, IEEE rounding not modelled. *)
From Coq Require Import ZArith QArith Qabs List String Bool.
From PV Require Import MiniPy.Syntax MiniPy.Interp MiniTorch.Ops MiniTorch.OpsC07 MiniTorch.OpsC01 MiniTorch.OpsC03.
From PV Require Import Gen.C03Src.
From PV Require Import C01.SrcRun.
From PV Require C07.SrcRun C01.Obs C01.Model C03.Model.
Import ListNotations.
Local Open Scope string_scope.

Definition kw1_is (n : string) (t : val) (kw : list (string * val)) : bool :=
  match kw with [(a, v)] => (is a n && val_eqb v t)%bool | _ => false end.

(* a Python list of boolean tensors *)
Fixpoint dec_bools (l : list val) : option (list (tn bool)) :=
  match l with
  | [] => Some []
  | v :: r => match dec01 v, dec_bools r with Some (AB t), Some ts => Some (t :: ts) | _, _ => None end
  end.

(* the calls that are not in ext01's vocabulary (None: not one of them - ext01 is asked) *)
Definition ext03_new (f : string) (args : list val) (kw : list (string * val)) (st : state) : option (outcome val) :=
  if is f "_lens_from_eos" then
    Some match args, kw with
         | [tok; eos; dim], [] =>
             C07.SrcRun.call_body (fun x => x) sm3_lens
               (("tok", tok) :: ("eos", eos) :: ("dim", dim) :: C07.SrcRun.globals07) st
         | _, _ => Stuck "_lens_from_eos: arguments"
         end
  else if is f "torch.zeros" then
    Some match args with
         | [VTuple [VInt a; VInt b]] =>
             if kw2_is "device" device_token "dtype" bool_token kw
             then (if (Z.ltb a 0 || Z.ltb b 0)%bool then oob "zeros" else Ok (enc_b (full [Z.to_nat a; Z.to_nat b] false)) st)
             else Stuck "zeros: keyword"
         | _ => Stuck "zeros"
         end
  else if is f "torch.arange" then
    match args with
    | [VInt n] => if kw1_is "device" device_token kw then Some (ret01 "arange" (option_map AI (arange n)) st) else None
    | _ => None
    end
  else if is f "torch.stack" then
    Some match args, kw with
         | [VList l; VInt 0], [] =>
             match dec_bools l with
             | Some ts => ret01 "stack" (option_map AB (stack0 ts)) st
             | None => Stuck "stack: not a list of boolean tensors"
             end
         | _, _ => Stuck "stack"
         end
  else if is f "$method.min" then
    match kw with
    | [] => None
    | _ :: _ =>
        Some match args with
             | [t; VInt d] =>
                 if kw1_is "keepdim" (VBool true) kw then
                   match dec01 t with
                   | Some (AX x) =>
                       match min_dim_keep x d with
                       | Some (Some (v, i)) => Ok (VTuple [enc_x v; enc_i i]) st
                       | Some None => Exc index_error st
                       | None => oob "min keepdim"
                       end
                   | _ => Stuck "min: not a float tensor"
                   end
                 else Stuck "min: keyword"
             | _ => Stuck "min"
             end
    end
  else if is f "$method.masked_fill" then
    Some match args, kw with
         | [t; m; v], [] =>
             match dec01 t, dec01 m, val_fx v with
             | Some (AX x), Some (AB mk), Some c => ret01 "masked_fill" (option_map AX (masked_fill x mk c)) st
             | _, _, _ => Stuck "masked_fill"
             end
         | _, _ => Stuck "masked_fill"
         end
  else if is f "$setitem" then
    match args, kw with
    | [t; VInt i; v], [] =>
        Some match dec01 t, dec01 v with
             | Some (AB x), Some (AB y) =>
                 match set_row0 x i y with
                 | Some (Some r) => Ok (enc_b r) st
                 | Some None => Exc index_error st
                 | None => oob "setitem row"
                 end
             | _, _ => Stuck "setitem: integer key"
             end
    | _, _ => None
    end
  else if is f "operator" then
    match args, kw with
    | [VStr o; a; b], [] =>
        if is o "and" then
          Some match dec01 a, dec01 b with
               | Some (AB x), Some (AB y) => ret01 "and" (option_map AB (and_bb x y)) st
               | _, _ => Stuck "and"
               end
        else None
    | _, _ => None
    end
  else if is f "compare" then
    match args, kw with
    | [VStr o; a; b], [] =>
        if is o "gt" then
          Some match dec01 a, dec01 b, b with
               | Some (AX x), Some (AI y), _ => ret01 "gt" (option_map AB (gt_xi x y)) st
               | Some (AI x), None, VInt c => Ok (enc_b (cmp_scalar Z.gtb x c)) st
               | _, _, _ => Stuck "compare gt"
               end
        else if is o "eq" then
          match dec01 a, dec01 b with
          | Some (AX x), Some (AX y) => Some (ret01 "eq" (option_map AB (eq_xx x y)) st)
          | _, _ => None
          end
        else if is o "lt" then
          match dec01 a, dec01 b with
          | Some (AI x), Some (AI y) => Some (ret01 "lt" (option_map AB (cmp_i Z.ltb x y)) st)
          | _, _ => None
          end
        else None
    | _, _ => None
    end
  else None.

(* the environment of `_string_matching`'s body *)
Definition ext03_sm (f : string) (args : list val) (kw : list (string * val)) (st : state) : outcome val :=
  match ext03_new f args kw st with
  | Some o => o
  | None => ext01 f args kw st
  end.

Definition ext03 := ext03_sm.

(* ---- optimal_completion: its environment ------------------------------------------------------------------------ *)
(* a call of a translated function of this unit: its body on fresh variables; the caller's state is unchanged *)
Definition call_body3 (body : stmt) (vars0 : list (string * val)) (st : state) : outcome val :=
  match Interp.run ext03_sm body vars0 with
  | Ok v _ => Ok v st
  | Exc n _ => Exc n st
  | Stuck w => Stuck w
  end.

Definition sm3_vars (ref hyp : val) (eos : val) (incl bf : val) (qi qd qs : val) (warn : val) (excl : val)
  : list (string * val) :=
  [("ref", ref); ("hyp", hyp); ("eos", eos); ("include_eos", incl);
   ("batch_first", bf); ("ins_cost", qi); ("del_cost", qd); ("sub_cost", qs);
   ("warn", warn); ("norm", VBool false); ("return_mask", VBool true); ("return_prf_dsts", VBool false);
   ("exclude_last", excl); ("padding", VInt (-100)); ("return_mistakes", VBool false)] ++ globals01.

Definition is_ellipsis (k : val) : bool :=
  match k with VTuple [VStr s] => String.eqb s "$ellipsis" | _ => false end.

Definition is_full_slice (k : val) : bool :=
  match dec_slice k with Some (None, None) => true | _ => false end.

Definition rt_error : string := "RuntimeError".

(* the calls of optimal_completion's body that are not in the vocabulary of the mask path (None: ext03_sm is asked):
     _string_matching(ref, hyp, eos, include_eos, batch_first, ins, del, sub, warn, return_mask=True, exclude_last=e)
     x.transpose(a, b) [3-D]   x.any(d)   x.sort(1) [2-D long]   x.expand_as(y) / x.expand(h, a, b) [2-D -> 3-D]
     x.gather(2, i) [3-D bool]   x[..., a:b] / x[:, a:b]   torch.cat([x, y], 2) [bool, last dimension]
     x.masked_select(m)   x.sum(2) [bool]   x.max() / .item() / int(..)   torch.full((h, n, c), v, dtype=torch.long, device=)
     long == long, long > long (broadcasting)   x.masked_scatter_(m, src) as a statement ("$method!.": the updated x) *)
Definition ext03_oc_new (f : string) (args : list val) (kw : list (string * val)) (st : state) : option (outcome val) :=
  if is f "_string_matching" then
    Some match args, kw with
         | [ref; hyp; eos; incl; bf; qi; qd; qs; warn], [(k1, VBool true); (k2, excl)] =>
             if (is k1 "return_mask" && is k2 "exclude_last")%bool
             then call_body3 sm3_body (sm3_vars ref hyp eos incl bf qi qd qs warn excl) st
             else Stuck "_string_matching: keywords"
         | _, _ => Stuck "_string_matching: arguments"
         end
  else if negb (no_kw kw) then
    (if is f "torch.full" then
       match args with
       | [VTuple [VInt a; VInt b; VInt c]; VInt v] =>
           Some (if kw2_is "dtype" long_token "device" device_token kw
                 then (if (Z.ltb a 0 || Z.ltb b 0 || Z.ltb c 0)%bool then oob "full"
                       else Ok (enc_i (full [Z.to_nat a; Z.to_nat b; Z.to_nat c] v)) st)
                 else Stuck "full: keyword")
       | _ => None
       end
     else None)
  else if is f "int" then
    match args with [VInt z] => Some (Ok (VInt z) st) | _ => Some (Stuck "int") end
  else if is f "$method.transpose" then
    Some match args with
         | [t; VInt a; VInt b] =>
             match dec01 t with
             | Some x => ret01 "transpose" (map01 (fun X d y => transpose3 d y a b) x) st
             | None => Stuck "transpose"
             end
         | _ => Stuck "transpose"
         end
  else if is f "$method.any" then
    match args with
    | [t; VInt d] => Some match dec01 t with
                          | Some (AB x) => ret01 "any(dim)" (option_map AB (any_dim x d)) st
                          | _ => Stuck "any(dim)"
                          end
    | _ => None
    end
  else if is f "$method.sum" then
    Some match args with
         | [t; VInt d] => match dec01 t with
                          | Some (AB x) => ret01 "sum" (option_map AI (sum_dim_b x d)) st
                          | _ => Stuck "sum"
                          end
         | _ => Stuck "sum"
         end
  else if is f "$method.sort" then
    Some match args with
         | [t; VInt d] => match dec01 t with
                          | Some (AI x) => match sort_last2 x d with
                                           | Some (v, i) => Ok (VTuple [enc_i v; enc_i i]) st
                                           | None => oob "sort"
                                           end
                          | _ => Stuck "sort"
                          end
         | _ => Stuck "sort"
         end
  else if is f "$method.expand_as" then
    Some match args with
         | [t; o] => match dec01 t, option_map shape01 (dec01 o) with
                     | Some x, Some [h; a; b] =>
                         ret01 "expand_as" (map01 (fun X d y => expand_lead2 d y (Z.of_nat h) (Z.of_nat a) (Z.of_nat b)) x) st
                     | _, _ => Stuck "expand_as"
                     end
         | _ => Stuck "expand_as"
         end
  else if is f "$method.expand" then
    match args with
    | [t; VInt h; VInt a; VInt b] =>
        Some match dec01 t with
             | Some x => ret01 "expand" (map01 (fun X d y => expand_lead2 d y h a b) x) st
             | None => Stuck "expand"
             end
    | _ => None
    end
  else if is f "$method.gather" then
    match args with
    | [t; VInt 2; i] => match dec01 t, dec01 i with
                        | Some (AB x), Some (AI y) => Some (ret01 "gather(2)" (option_map AB (gather_last3 false x y)) st)
                        | _, _ => None
                        end
    | _ => None
    end
  else if is f "$getitem" then
    match args with
    | [t; VTuple [k1; k2]] =>
        if (is_ellipsis k1 || is_full_slice k1)%bool then
          Some match dec01 t, dec_slice k2 with
               | Some x, Some (a, b) =>
                   if (is_ellipsis k1 || Nat.eqb (List.length (shape01 x)) 2)%bool
                   then ret01 "getitem last" (map01 (fun X d y => slice_last d y a b) x) st
                   else Stuck "getitem: [:, a:b] on another rank"
               | _, _ => Stuck "getitem: tuple key"
               end
        else None
    | _ => None
    end
  else if is f "torch.cat" then
    Some match args with
         | [VList [a; b]; VInt 2] =>
             match dec01 a, dec01 b with
             | Some (AB x), Some (AB y) =>
                 if (Nat.eqb (List.length (shp x)) 3 && Nat.eqb (List.length (shp y)) 3)%bool
                 then ret01 "cat" (option_map AB (cat_last false x y)) st else oob "cat: rank"
             | _, _ => Stuck "cat"
             end
         | _ => Stuck "cat"
         end
  else if is f "$method.masked_select" then
    Some match args with
         | [t; m] => match dec01 t, dec01 m with
                     | Some (AI x), Some (AB mk) => ret01 "masked_select" (option_map AI (masked_select x mk)) st
                     | _, _ => Stuck "masked_select"
                     end
         | _ => Stuck "masked_select"
         end
  else if is f "$method!.masked_scatter_" then
    Some match args with
         | [t; m; src] => match dec01 t, dec01 m, dec01 src with
                          | Some (AI x), Some (AB mk), Some (AI y) =>
                              match masked_scatter x mk y with
                              | Some (Some r) => Ok (enc_i r) st
                              | Some None => Exc rt_error st
                              | None => oob "masked_scatter_"
                              end
                          | _, _, _ => Stuck "masked_scatter_"
                          end
         | _ => Stuck "masked_scatter_"
         end
  else if is f "$method.max" then
    match args with
    | [t] => Some match dec01 t with
                  | Some (AI x) => match max_all x with
                                   | Some m => Ok (enc_i (mkTn [] [m])) st
                                   | None => Exc rt_error st
                                   end
                  | _ => Stuck "max()"
                  end
    | _ => None
    end
  else if is f "$method.item" then
    Some match args with
         | [t] => match dec01 t with
                  | Some (AI x) => match dat x with [m] => Ok (VInt m) st | _ => oob "item" end
                  | _ => Stuck "item"
                  end
         | _ => Stuck "item"
         end
  else if is f "compare" then
    match args with
    | [VStr o; a; b] =>
        match dec01 a, dec01 b with
        | Some (AI x), Some (AI y) =>
            if is o "eq" then Some (ret01 "eq" (option_map AB (cmp_i Z.eqb x y)) st)
            else if is o "gt" then Some (ret01 "gt" (option_map AB (cmp_i Z.gtb x y)) st)
            else None
        | _, _ => None
        end
    | _ => None
    end
  else None.

(* the environment of `optimal_completion`'s body *)
Definition ext03_oc (f : string) (args : list val) (kw : list (string * val)) (st : state) : outcome val :=
  match ext03_oc_new f args kw st with
  | Some o => o
  | None => ext03_sm f args kw st
  end.

(* ---- the arguments ----------------------------------------------------------------------------------- *)
(* _string_matching(ref, hyp, eos, include_eos, batch_first, ins_cost, del_cost, sub_cost, warn, return_mask=True,
   exclude_last=excl): the call made by optimal_completion; norm / return_prf_dsts / return_mistakes have their default
   False, padding its default config.INDEX_PAD_VALUE = -100 (not read on this path) *)
(* the blocks in sequence *)
Definition sm3_blocks : stmt := SSeq sm3_pre (SSeq sm3_row0 sm3_main).

(* ---- executable entry points for the correspondence -------------------------------------------------
   [ref] / [hyp]: the matrix exactly as handed to the implementation, as a list of rows (N rows when batch_first,
   else one row per time step with N entries).  Costs k/scale as exact rationals. *)
Definition cfg3_vars (c : C01.Model.cfg) (scale : Z) (N : nat) (ref hyp : list (list Z)) : list (string * val) :=
  sm3_vars (enc_i (mat_tensor (C01.Model.c_bf c) N ref)) (enc_i (mat_tensor (C01.Model.c_bf c) N hyp))
    (opt_int (C01.Model.c_eos c)) (VBool (C01.Model.c_incl c)) (VBool (C01.Model.c_bf c))
    (VQ (cost_q scale (C01.Model.c_ins c))) (VQ (cost_q scale (C01.Model.c_del c))) (VQ (cost_q scale (C01.Model.c_sub c)))
    (VBool false) (VBool (C01.Model.c_excl c)).

(* outer None: the interpreter got stuck / returned something that is not a boolean tensor; Some None: the source raised *)
Definition src_mask (body : stmt) (c : C01.Model.cfg) (scale : Z) (N : nat) (ref hyp : list (list Z))
  : option (option (tn bool)) :=
  match Interp.run ext03 body (cfg3_vars c scale N ref hyp) with
  | Ok v _ => match dec01 v with
              | Some (AB t) => Some (Some t)
              | _ => None
              end
  | Exc _ _ => Some None
  | Stuck _ => None
  end.

Fixpoint bools_eqb (a b : list bool) : bool :=
  match a, b with
  | [], [] => true
  | x :: a', y :: b' => (Bool.eqb x y && bools_eqb a' b')%bool
  | _, _ => false
  end.

(* [obs]: the (H', R, N) mask the implementation returned, as nested lists; R is passed because an empty H' x R x N
   nesting does not show it *)
Definition src_mask_check1 (body : stmt) (c : C01.Model.cfg) (scale : Z) (N R : nat) (ref hyp : list (list Z))
  (obs : list (list (list bool))) : bool :=
  match src_mask body c scale N ref hyp with
  | Some (Some t) => (nats_eqb (shp t) [List.length obs; R; N] && bools_eqb (dat t) (List.concat (List.concat obs)))%bool
  | _ => false
  end.

(* the blocks run in sequence AND the whole body as one term *)
Definition src_mask_check (c : C01.Model.cfg) (scale : Z) (N R : nat) (ref hyp : list (list Z))
  (obs : list (list (list bool))) : bool :=
  (src_mask_check1 sm3_blocks c scale N R ref hyp obs && src_mask_check1 sm3_body c scale N R ref hyp obs)%bool.

(* ---- optimal_completion(ref, hyp, eos, include_eos, batch_first, ins_cost, del_cost, sub_cost, padding, exclude_last, warn) -- *)
Definition oc_vars (c : C01.Model.cfg) (scale : Z) (N : nat) (ref hyp : list (list Z)) : list (string * val) :=
  [("ref", enc_i (mat_tensor (C01.Model.c_bf c) N ref)); ("hyp", enc_i (mat_tensor (C01.Model.c_bf c) N hyp));
   ("eos", opt_int (C01.Model.c_eos c)); ("include_eos", VBool (C01.Model.c_incl c)); ("batch_first", VBool (C01.Model.c_bf c));
   ("ins_cost", VQ (cost_q scale (C01.Model.c_ins c))); ("del_cost", VQ (cost_q scale (C01.Model.c_del c)));
   ("sub_cost", VQ (cost_q scale (C01.Model.c_sub c))); ("padding", VInt (C01.Model.c_pad c));
   ("exclude_last", VBool (C01.Model.c_excl c)); ("warn", VBool false)] ++ globals01.

Definition src_oc (body : stmt) (c : C01.Model.cfg) (scale : Z) (N : nat) (ref hyp : list (list Z))
  : option (option (tn Z)) :=
  match Interp.run ext03_oc body (oc_vars c scale N ref hyp) with
  | Ok v _ => match dec01 v with
              | Some (AI t) => Some (Some t)
              | _ => None
              end
  | Exc _ _ => Some None
  | Stuck _ => None
  end.

Fixpoint zs_eqb (a b : list Z) : bool :=
  match a, b with
  | [], [] => true
  | x :: a', y :: b' => (Z.eqb x y && zs_eqb a' b')%bool
  | _, _ => false
  end.

(* [sh]: the shape of the tensor the implementation returned, [obs]: its content as nested lists *)
Definition src_oc_check (c : C01.Model.cfg) (scale : Z) (N : nat) (ref hyp : list (list Z)) (sh : list nat)
  (obs : list (list (list Z))) : bool :=
  match src_oc oc_body c scale N ref hyp with
  | Some (Some t) => (nats_eqb (shp t) sh && zs_eqb (dat t) (List.concat (List.concat obs)))%bool
  | _ => false
  end.
