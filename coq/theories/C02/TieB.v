(* C02 - the SECOND source tie: `minimum_error_rate_loss` (src/pydrobert/torch/_string.py), checked by the kernel.
   PV.Gen.C02BSrc.{mer_body, mer_pre, mer_tail} are the MiniPy terms harness/py2coq/translate.py regenerates from /repo
   on every C02 run (unit C02BSrc); PV.MiniPy.Interp is their semantics; the torch calls mean what PV.MiniTorch.OpsC02B
   (repeat, size, mean, sum, the slice of a shape) and the operations of the first tie say (through SrcRunB.extB); the
   call `error_rate(...)` IS the run of the translated `error_rate` / `_string_matching` of unit C02Src, whose tie
   (C02.Tie.error_rate_wrapper_is_model) is used here; softmax(log_probs, 1) is an oracle: its values are the data w.

   Statements, for EVERY batch size N > 0, number of samples M, widths R, H <> 0, token values, eos / include_eos / norm /
   batch_first / warn, costs (integers over any common denominator s), 2-D or 3-D reference, sub_avg, reduction, oracle
   weights w (N rows of M) and contents of log_probs:

     mer_is_model            M >= 2: the whole body returns the tensor of Model.mer_loss ([mres_tensor]: entry q as the float
                             q in lowest terms; mean / sum as a 0-dimensional tensor)
     mer_blocks_is_model     the same for the two blocks mer_pre; mer_tail run in sequence
     mer_raises              M < 2: the whole body raises RuntimeError (Model.mer_loss = MErr)
     mer_loss_entries        composed with ProofsMer.mer_loss_formula / mer_er_allowed (reduction = none): entry (n, m) of the
                             returned tensor = (er[n,m] - mean_m er[n,.]) * w[n,m] (without the mean when sub_avg is off), where
                             er[n,m] is an error rate the property admits for sample m of batch element n against its reference
   The files: TieBLib (what reaches extB, tactics), TieBPre (mer_pre), TieBTail (mer_tail), TieBMath (arithmetic, the model). *)
From Coq Require Import ZArith QArith List String Bool Arith Lia.
From PV Require Import MiniPy.Syntax MiniPy.Interp MiniPy.Lemmas MiniTorch.Ops MiniTorch.Lemmas MiniTorch.OpsC07 MiniTorch.LemmasC07
  MiniTorch.OpsC01 MiniTorch.LemmasC01 MiniTorch.OpsC02 MiniTorch.OpsC02B MiniTorch.LemmasC02B.
From PV Require Import Gen.C02Src Gen.C02BSrc C01.SrcRun C02.SrcRun C02.SrcRunB C02.TieBLib C02.TieBPre C02.TieBTail C02.TieBMath.
From PV Require C01.Obs C01.Spec C01.Model C01.Proofs C02.Spec C02.Model C02.ProofsModel C02.ProofsMer C02.TieWhole C02.Tie.
Import ListNotations.
Local Open Scope string_scope.

#[local] Arguments enc_i : simpl never.
#[local] Arguments enc_x : simpl never.
#[local] Arguments extB : simpl never.
#[local] Arguments Nat.mul : simpl never.
#[local] Arguments tab2 : simpl never.
#[local] Arguments Interp.run : simpl never.

Notation rect := C01.Proofs.rect.

(* ---- the inputs as the harness hands them over ---------------------------------------------------------------- *)
(* a 3-D tensor as nested lists: N lists of M sequences of width T when batch_first, else T planes of N rows of M entries *)
Definition wf3_src (bf : bool) (N M T : nat) (t : list (list (list Z))) : Prop :=
  if bf then List.length t = N /\ (forall row, List.In row t -> List.length row = M /\ rect T row)
  else List.length t = T /\ (forall pl, List.In pl t -> List.length pl = N /\ rect M pl).

Definition wf_ref_src (bf : bool) (N M R : nat) (ref : list (list Z) + list (list (list Z))) : Prop :=
  match ref with inl r2 => C02.Tie.wf_src bf N R r2 | inr r3 => wf3_src bf N M R r3 end.

Definition ten3x (bf : bool) (N M T : nat) (t : list (list (list Z))) : tn Z :=
  mkTn (shape3 bf N M T) (List.concat (List.concat t)).

Definition ref_x (bf : bool) (N M R : nat) (ref : list (list Z) + list (list (list Z))) : tn Z :=
  match ref with inl r2 => mkTn (flat_shape bf N R) (List.concat r2) | inr r3 => ten3x bf N M R r3 end.

(* ---- lists ------------------------------------------------------------------------------------------------------- *)
Lemma wf3_src_model : forall bf N M T t, wf3_src bf N M T t -> C02.ProofsMer.wf3 bf N M t.
Proof.
  intros bf N M T t. unfold wf3_src, C02.ProofsMer.wf3. destruct bf.
  - intros [HN Hr]. split; [exact HN|]. split.
    + intros row Hin. now apply Hr.
    + exists T. intros row Hin s Hs. now apply (Hr row Hin).
  - intros [_ Hp] pl Hin row Hrow. now apply (Hp pl Hin).
Qed.

Lemma wf3_src_flat : forall bf N M T t, wf3_src bf N M T t ->
  C02.Tie.wf_src bf (N * M) T (C02.Model.flatten3 bf t).
Proof.
  intros bf N M T t. unfold wf3_src, C02.Tie.wf_src, C02.Model.flatten3. destruct bf.
  - intros [HN Hr]. split.
    + rewrite (C02.ProofsMer.length_concat_const M) by (intros row Hin; now apply Hr). now rewrite HN.
    + intros s Hs. apply in_concat in Hs as [row [Hin Hs]]. now apply (Hr row Hin).
  - intros [HT Hp]. split; [now rewrite map_length|].
    intros s Hs. apply in_map_iff in Hs as [pl [<- Hin]].
    rewrite (C02.ProofsMer.length_concat_const M) by (intros row Hrow; now apply (Hp pl Hin)).
    now rewrite (proj1 (Hp pl Hin)).
Qed.

(* the flattened tensor of the source is the matrix the first tie speaks about *)
Lemma flat_is_mat : forall bf N M T t, (0 < N * M)%nat -> wf3_src bf N M T t ->
  mkTn (flat_shape bf (N * M) T) (List.concat (List.concat t)) = mat_tensor bf (N * M) (C02.Model.flatten3 bf t).
Proof.
  intros bf N M T t HK Hwf. pose proof (wf3_src_flat bf N M T t Hwf) as Hf.
  unfold mat_tensor, flat_shape, C02.Tie.wf_src, C02.Model.flatten3 in *. destruct bf; destruct Hf as [HL HW].
  - f_equal. f_equal. f_equal.
    destruct (List.concat t) as [|r0 rest]; [cbn in HL; lia|]. cbn [hd]. symmetry. apply HW. now left.
  - rewrite map_length in *. rewrite concat_concat_map. f_equal. f_equal. exact (eq_sym (proj1 Hwf)).
Qed.

Lemma expand_ref_wf_src : forall bf N M R r2, C02.Tie.wf_src bf N R r2 -> wf3_src bf N M R (C02.Model.expand_ref bf M r2).
Proof.
  intros bf N M R r2. unfold C02.Tie.wf_src, wf3_src, C02.Model.expand_ref. destruct bf; intros [HL HW].
  - split; [now rewrite map_length|]. intros row Hin. apply in_map_iff in Hin as [s [<- Hs]]. split; [apply repeat_length|].
    intros s' Hs'. apply repeat_spec in Hs'. subst s'. now apply HW.
  - split; [now rewrite map_length|]. intros pl Hin. apply in_map_iff in Hin as [row [<- Hrow]]. split.
    + rewrite map_length. now apply HW.
    + intros r Hr. apply in_map_iff in Hr as [x [<- _]]. apply repeat_length.
Qed.

Lemma wf_ref_src_model : forall bf N M R ref, wf_ref_src bf N M R ref -> C02.ProofsMer.wf_ref bf N M ref.
Proof.
  intros bf N M R [r2|r3]; cbn [wf_ref_src C02.ProofsMer.wf_ref]; [apply C02.Tie.wf_src_model|apply wf3_src_model].
Qed.

Lemma ref3_wf_src : forall bf N M R ref, wf_ref_src bf N M R ref -> wf3_src bf N M R (C02.Model.ref3_of bf M ref).
Proof. intros bf N M R [r2|r3]; cbn [wf_ref_src C02.Model.ref3_of]; [apply expand_ref_wf_src|auto]. Qed.

(* ---- the whole body is the two blocks -------------------------------------------------------------------------------- *)
Lemma body_split : forall w st, exec (extB w) mer_body st = exec (extB w) (SSeq mer_pre mer_tail) st.
Proof.
  intros w st. unfold mer_body, mer_pre, mer_tail. symmetry. apply execB_seq4.
Qed.

(* ---- the arguments ------------------------------------------------------------------------------------------------------ *)
Definition mer_args (s : positive) (c : C01.Model.cfg) (sub_avg : bool) (red : C02.Model.reduction) (N M R H : nat)
  (lpd : list fx) (ref : list (list Z) + list (list (list Z))) (hyp : list (list (list Z))) (warn : bool) : list (string * val) :=
  mer_vars (mkTn [N; M] lpd) (ref_x (C01.Model.c_bf c) N M R ref) (ten3x (C01.Model.c_bf c) N M H hyp)
    (C01.Model.c_eos c) (C01.Model.c_incl c) sub_avg (C01.Model.c_bf c) (C01.Model.c_norm c)
    (qz s (C01.Model.c_ins c)) (qz s (C01.Model.c_del c)) (qz s (C01.Model.c_sub c)) (red_val red) warn.

Definition run_mer_prog (prog : stmt) (w : list (list Q)) (s : positive) (c : C01.Model.cfg) (sub_avg : bool)
  (red : C02.Model.reduction) (N M R H : nat) (lpd : list fx) (ref : list (list Z) + list (list (list Z)))
  (hyp : list (list (list Z))) (warn : bool) : outcome val :=
  Interp.run (extB w) prog (mer_args s c sub_avg red N M R H lpd ref hyp warn).

Definition run_mer := run_mer_prog mer_body.
Definition run_mer_blocks := run_mer_prog mer_blocks.

(* the block mer_pre on the arguments of a call: the flattened tensors over the data of Model.flatten3 / ref3_of *)
Lemma pre_on_args : forall w s c sub_avg red N M R H lpd ref hyp warn,
  R <> 0%nat -> H <> 0%nat -> wf_ref_src (C01.Model.c_bf c) N M R ref -> wf3_src (C01.Model.c_bf c) N M H hyp ->
  exec (extB w) mer_pre (mkState (mer_args s c sub_avg red N M R H lpd ref hyp warn) []) =
  Ok CNormal
    (mkState (tail_vars N M R H lpd
                (mkTn (flat_shape (C01.Model.c_bf c) (N * M) R) (List.concat (List.concat (C02.Model.ref3_of (C01.Model.c_bf c) M ref))))
                (mkTn (flat_shape (C01.Model.c_bf c) (N * M) H) (List.concat (List.concat hyp)))
                (C01.Model.c_bf c) (C01.Model.c_eos c) (C01.Model.c_incl c) (C01.Model.c_norm c) warn
                (qz s (C01.Model.c_ins c)) (qz s (C01.Model.c_del c)) (qz s (C01.Model.c_sub c)) sub_avg red) []).
Proof.
  intros w s c sub_avg red N M R H lpd ref hyp warn HR HH Href Hhyp.
  unfold mer_args, mer_vars, tail_vars, ref_x, ten3x, wf_ref_src, wf3_src, C02.Tie.wf_src, flat_shape, shape3 in *.
  destruct (C01.Model.c_bf c); destruct ref as [r2|r3]; cbn [C02.Model.ref3_of C02.Model.expand_ref].
  - destruct Href as [HL HW]. exact (pre_bf_2 w N M R H (List.concat (List.concat hyp)) lpd _ _ _ _ _ _ _ _ _ HR HH r2 HL HW).
  - exact (pre_bf_3 w N M R H (List.concat (List.concat hyp)) lpd _ _ _ _ _ _ _ _ _ HR HH _).
  - destruct Href as [HL HW]. exact (pre_tm_2 w N M R H (List.concat (List.concat hyp)) lpd _ _ _ _ _ _ _ _ _ HR HH r2 HL HW).
  - exact (pre_tm_3 w N M R H (List.concat (List.concat hyp)) lpd _ _ _ _ _ _ _ _ _ HR HH _).
Qed.

(* ---- M >= 2: the two blocks in sequence return the tensor of Model.mer_loss ---------------------------------------------- *)
Lemma blocks_return : forall w s c sub_avg red N M R H lpd ref hyp warn,
  (0 < N)%nat -> (2 <= M)%nat -> R <> 0%nat -> H <> 0%nat ->
  wf_ref_src (C01.Model.c_bf c) N M R ref -> wf3_src (C01.Model.c_bf c) N M H hyp -> C02.ProofsMer.wf_w N M w ->
  exists st', exec (extB w) (SSeq mer_pre mer_tail) (mkState (mer_args s c sub_avg red N M R H lpd ref hyp warn) []) =
              Ok (CReturn (enc_x (mres_tensor N M (C02.Model.mer_loss c sub_avg red N M w ref hyp)))) st'.
Proof.
  intros w s c sub_avg red N M R H lpd ref hyp warn HN HM HR HH Href Hhyp Hw.
  cbn [exec]. rewrite (pre_on_args w s c sub_avg red N M R H lpd ref hyp warn HR HH Href Hhyp). cbn [bind].
  assert (HK : (0 < N * M)%nat) by nia.
  pose proof (ref3_wf_src _ N M R ref Href) as Href3.
  rewrite (flat_is_mat _ N M R _ HK Href3), (flat_is_mat _ N M H _ HK Hhyp).
  destruct (C02.Tie.error_rate_wrapper_is_model s c (N * M) R H
              (C02.Model.flatten3 (C01.Model.c_bf c) (C02.Model.ref3_of (C01.Model.c_bf c) M ref))
              (C02.Model.flatten3 (C01.Model.c_bf c) hyp) warn HK
              (wf3_src_flat _ N M R _ Href3) (wf3_src_flat _ N M H _ Hhyp) (fun _ => conj HR HH)) as [st' He].
  unfold C02.Tie.run_error_rate_wrapper, C02.Tie.model_tensor in He.
  rewrite (er_flat c N M ref hyp HM (wf3_src_model _ N M H hyp Hhyp) (wf_ref_src_model _ N M R ref Href)) in He.
  destruct Hw as [HwN HwM].
  destruct (tail_run w N M R H lpd _ _ (C01.Model.c_bf c) (C01.Model.c_eos c) (C01.Model.c_incl c) (C01.Model.c_norm c) warn
              (qz s (C01.Model.c_ins c)) (qz s (C01.Model.c_del c)) (qz s (C01.Model.c_sub c)) HwN HwM sub_avg red
              (e_src c ref hyp) st' HM He) as [st'' Ht].
  rewrite Ht. exists st''. do 3 f_equal.
  exact (loss_t_is_model c sub_avg N M w ref hyp HN HM (wf3_src_model _ N M H hyp Hhyp) (wf_ref_src_model _ N M R ref Href)
           (conj HwN HwM) red).
Qed.

Theorem mer_blocks_is_model : forall w s c sub_avg red N M R H lpd ref hyp warn,
  (0 < N)%nat -> (2 <= M)%nat -> R <> 0%nat -> H <> 0%nat ->
  wf_ref_src (C01.Model.c_bf c) N M R ref -> wf3_src (C01.Model.c_bf c) N M H hyp -> C02.ProofsMer.wf_w N M w ->
  exists st', run_mer_blocks w s c sub_avg red N M R H lpd ref hyp warn =
              Ok (enc_x (mres_tensor N M (C02.Model.mer_loss c sub_avg red N M w ref hyp))) st'.
Proof.
  intros w s c sub_avg red N M R H lpd ref hyp warn HN HM HR HH Href Hhyp Hw.
  destruct (blocks_return w s c sub_avg red N M R H lpd ref hyp warn HN HM HR HH Href Hhyp Hw) as [st' He].
  unfold run_mer_blocks, run_mer_prog, Interp.run, mer_blocks. rewrite He. now exists st'.
Qed.

Theorem mer_is_model : forall w s c sub_avg red N M R H lpd ref hyp warn,
  (0 < N)%nat -> (2 <= M)%nat -> R <> 0%nat -> H <> 0%nat ->
  wf_ref_src (C01.Model.c_bf c) N M R ref -> wf3_src (C01.Model.c_bf c) N M H hyp -> C02.ProofsMer.wf_w N M w ->
  exists st', run_mer w s c sub_avg red N M R H lpd ref hyp warn =
              Ok (enc_x (mres_tensor N M (C02.Model.mer_loss c sub_avg red N M w ref hyp))) st'.
Proof.
  intros w s c sub_avg red N M R H lpd ref hyp warn HN HM HR HH Href Hhyp Hw.
  destruct (blocks_return w s c sub_avg red N M R H lpd ref hyp warn HN HM HR HH Href Hhyp Hw) as [st' He].
  unfold run_mer, run_mer_prog, Interp.run. rewrite body_split, He. now exists st'.
Qed.

(* ---- M < 2: RuntimeError, as Model.mer_loss = MErr ------------------------------------------------------------------------ *)
Theorem mer_raises : forall w s c sub_avg red N M R H lpd ref hyp warn,
  (M < 2)%nat -> R <> 0%nat -> H <> 0%nat ->
  wf_ref_src (C01.Model.c_bf c) N M R ref -> wf3_src (C01.Model.c_bf c) N M H hyp ->
  (exists st', run_mer w s c sub_avg red N M R H lpd ref hyp warn = Exc runtime_error st') /\
  (exists st', run_mer_blocks w s c sub_avg red N M R H lpd ref hyp warn = Exc runtime_error st') /\
  C02.Model.mer_loss c sub_avg red N M w ref hyp = C02.Model.MErr.
Proof.
  intros w s c sub_avg red N M R H lpd ref hyp warn HM HR HH Href Hhyp.
  assert (He : exists st', exec (extB w) (SSeq mer_pre mer_tail) (mkState (mer_args s c sub_avg red N M R H lpd ref hyp warn) []) =
                           Exc runtime_error st').
  { cbn [exec]. rewrite (pre_on_args w s c sub_avg red N M R H lpd ref hyp warn HR HH Href Hhyp). cbn [bind].
    rewrite tail_raises by exact HM. eexists. reflexivity. }
  destruct He as [st' He]. split; [|split].
  - unfold run_mer, run_mer_prog, Interp.run. rewrite body_split, He. now exists st'.
  - unfold run_mer_blocks, run_mer_prog, Interp.run, mer_blocks. rewrite He. now exists st'.
  - now apply C02.ProofsMer.mer_loss_too_few_samples.
Qed.

(* ---- composed with the model's theorems: a statement purely about the interpreted source --------------------------------- *)
(* reduction = "none": entry (n, m) of the tensor `minimum_error_rate_loss` returns is
   (er[n,m] - mean over the M samples of er[n,.]) * w[n,m]   (er[n,m] * w[n,m] when sub_avg is off),
   where er[n,m] is an error rate the property admits (C02.Spec.spec_er_val: the edit count of a minimum-cost alignment,
   normalised with the empty-reference rule when norm is on) for sample m of batch element n against its reference
   (row n of a 2-D ref, entry (n, m) of a 3-D one), each cut at its first eos *)
Theorem mer_loss_entries : forall w s c sub_avg N M R H lpd ref hyp warn,
  (0 < N)%nat -> (2 <= M)%nat -> R <> 0%nat -> H <> 0%nat ->
  wf_ref_src (C01.Model.c_bf c) N M R ref -> wf3_src (C01.Model.c_bf c) N M H hyp -> C02.ProofsMer.wf_w N M w ->
  exists (er : nat -> nat -> Q) out st',
    run_mer w s c sub_avg C02.Model.RNone N M R H lpd ref hyp warn = Ok (enc_x (mkTn [N; M] out)) st' /\
    List.length out = (N * M)%nat /\
    (forall n m, (n < N)%nat -> (m < M)%nat ->
       let mean := (C02.Model.qsum (map (er n) (seq 0 M)) / (Z.of_nat M # 1))%Q in
       nth (n * M + m) out FNaN = qfx ((if sub_avg then er n m - mean else er n m) * nth m (nth n w []) 0)%Q) /\
    (forall n m,
       exists v, er n m = C02.Model.val_q v /\
         C02.Spec.spec_er_val (C01.Model.c_norm c) (C01.Model.c_ins c) (C01.Model.c_del c) (C01.Model.c_sub c)
           (C01.Spec.denote (C01.Model.c_eos c) (C01.Model.c_incl c) (C02.ProofsMer.ref_seq (C01.Model.c_bf c) n m ref))
           (C01.Spec.denote (C01.Model.c_eos c) (C01.Model.c_incl c) (C02.ProofsMer.seq3_of (C01.Model.c_bf c) n m hyp)) v).
Proof.
  intros w s c sub_avg N M R H lpd ref hyp warn HN HM HR HH Href Hhyp Hw.
  destruct (mer_is_model w s c sub_avg C02.Model.RNone N M R H lpd ref hyp warn HN HM HR HH Href Hhyp Hw) as [st' He].
  rewrite (C02.ProofsMer.mer_loss_formula c sub_avg N M w ref hyp HM (wf3_src_model _ N M H hyp Hhyp)
             (wf_ref_src_model _ N M R ref Href) Hw C02.Model.RNone) in He.
  cbn [mres_tensor] in He.
  exists (C02.ProofsMer.er_nm c ref hyp). eexists. exists st'. split; [exact He|]. split; [|split].
  - unfold C02.ProofsMer.loss_mat. rewrite concat_rows_tab2, map_length, tab2_length. reflexivity.
  - intros n m Hn Hm. cbv zeta. unfold C02.ProofsMer.loss_mat. rewrite concat_rows_tab2, map_tab2.
    rewrite nth_tab2 by assumption. reflexivity.
  - intros n m. eexists. split; [reflexivity|]. apply C02.ProofsMer.mer_er_allowed.
Qed.
