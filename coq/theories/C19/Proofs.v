(* C19 - lemmas (stage 1 placeholder, replaced below) *)
From Coq Require Import List ZArith QArith.
From PV Require Import C19.Model C19.Spec.
Lemma placeholder_true : True. Proof. exact I. Qed.
