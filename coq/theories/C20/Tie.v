(* C20 - tie between the Python text of `GlobalSoftAttention.forward` / `check_input`,
   `DotProductSoftAttention.score`, `GeneralizedDotProductSoftAttention.score` (_attn.py) and
   PV.C20.Model, checked by the kernel.  PV.Gen.C20Src.* are the MiniPy terms harness/py2coq/translate.py
   regenerates from /repo on every run; PV.MiniPy.Interp is their semantics; the torch calls mean what
   PV.MiniTorch.OpsC20 says (through SrcRun.ext20); the exponential inside softmax is an oracle. *)
From Coq Require Import ZArith QArith List String Bool Arith Lia ZifyBool ZifyNat.
From PV Require Import MiniPy.Syntax MiniPy.Interp MiniTorch.Ops MiniTorch.OpsC07 MiniTorch.OpsC20 MiniTorch.LemmasC20.
From PV Require Import Gen.C20Src C20.SrcRun C20.TieOps.
From PV Require C20.Model C20.Spec C20.Index C20.Proofs C20.Broadcast MiniTorch.LemmasC07.
Import ListNotations.
Local Open Scope string_scope.

#[local] Arguments enc_b : simpl never.
#[local] Arguments enc_f : simpl never.
#[local] Arguments enc_q : simpl never.
#[local] Arguments dec_b : simpl never.
#[local] Arguments dec_q : simpl never.
#[local] Arguments dec_x : simpl never.
#[local] Arguments mat : simpl never.
#[local] Arguments rd : simpl never.
#[local] Arguments runsq : simpl never.
#[local] Arguments Z.add : simpl never.
#[local] Arguments Z.sub : simpl never.
#[local] Arguments Z.of_nat : simpl never.
#[local] Arguments Z.eqb : simpl never.
#[local] Arguments Z.ltb : simpl never.
#[local] Arguments Z.leb : simpl never.

(* ---- what reaches [ext20_ops], call by call ------------------------------------------------------ *)
Lemma any_shape_q x : any_shape20 (enc_q x) = Some (shp x).
Proof. unfold any_shape20. rewrite dec_x_enc_q. reflexivity. Qed.

Lemma any_shape_b x : any_shape20 (enc_b x) = Some (shp x).
Proof. unfold any_shape20. rewrite dec_x_enc_b, dec_b_enc_b. reflexivity. Qed.

Section ExtLemmas.
  Variable expf : Q -> Q.
  Notation ext := (ext20_ops expf).

  Lemma ext_dim_q x st : ext "$method.dim" [enc_q x] [] st = Ok (VInt (Z.of_nat (List.length (shp x)))) st.
  Proof. unfold ext20_ops. cbn. now rewrite any_shape_q. Qed.

  Lemma ext_shape_q x st : ext "$attr.shape" [enc_q x] [] st = Ok (shape_val (shp x)) st.
  Proof. unfold ext20_ops. cbn. now rewrite any_shape_q. Qed.

  Lemma ext_shape_b x st : ext "$attr.shape" [enc_b x] [] st = Ok (shape_val (shp x)) st.
  Proof. unfold ext20_ops. cbn. now rewrite any_shape_b. Qed.

  Lemma ext_device_q x st : ext "$attr.device" [enc_q x] [] st = Ok device_token st.
  Proof. unfold ext20_ops. cbn. now rewrite any_shape_q. Qed.

  Lemma ext_ones st :
    ext "torch.ones" [VTuple [VInt 1]] [("device", device_token); ("dtype", bool_token)] st = Ok (enc_b (ones_bool [1%nat])) st.
  Proof. reflexivity. Qed.

  Lemma ext_float_inf st : ext "float" [VStr "inf"] [] st = Ok (VInf true) st.
  Proof. reflexivity. Qed.

  Lemma ext_invert m st : ext "$invert" [enc_b m] [] st = Ok (enc_b (invert m)) st.
  Proof. unfold ext20_ops. cbn. now rewrite dec_b_enc_b. Qed.

  Lemma ext_unsqueeze x d st : ext "$method.unsqueeze" [enc_q x; VInt d] [] st = ret_q "unsqueeze" (unsqueeze x d) st.
  Proof. unfold ext20_ops. cbn. now rewrite dec_q_enc_q. Qed.

  Lemma ext_sum x d st : ext "$method.sum" [enc_q x; VInt d] [] st = ret_q "sum" (sum_dim x d) st.
  Proof. unfold ext20_ops. cbn. now rewrite dec_q_enc_q. Qed.

  Lemma ext_masked_fill x m st :
    ext "$method.masked_fill" [enc_q x; enc_b m; VInf false] [] st =
    match masked_fill_ninf x m with Some r => Ok (enc_f r) st | None => oob "masked_fill" end.
  Proof. unfold ext20_ops. cbn. now rewrite dec_q_enc_q, dec_b_enc_b. Qed.

  Lemma ext_mul x y st : ext "operator" [VStr "mul"; enc_q x; enc_q y] [] st = ret_q "mul" (mul x y) st.
  Proof. unfold ext20_ops. cbn. now rewrite !dec_q_enc_q. Qed.

  Lemma ext_mul_s x c st : ext "operator" [VStr "mul"; enc_q x; VQ c] [] st = Ok (enc_q (mul_s x c)) st.
  Proof. unfold ext20_ops. cbn. now rewrite dec_q_enc_q, dec_q_VQ. Qed.

  Lemma ext_tuple_add x y st : ext "operator" [VStr "add"; VTuple x; VTuple y] [] st = Ok (VTuple (x ++ y)) st.
  Proof. reflexivity. Qed.

  Lemma ext_getitem_init l st :
    ext "$getitem" [VTuple l; VTuple [VStr "$slice"; VNone; VInt (-1); VNone]] [] st = Ok (VTuple (removelast l)) st.
  Proof. reflexivity. Qed.

  Lemma ext_softmax_q x d st :
    ext "torch.nn.functional.softmax" [enc_q x; VInt d] [] st =
    ret_q "softmax" (softmax expf (mkTn (shp x) (map Fin (dat x))) d) st.
  Proof. unfold ext20_ops. cbn. now rewrite dec_x_enc_q. Qed.

  Lemma ext_softmax_f x d st :
    ext "torch.nn.functional.softmax" [enc_f x; VInt d] [] st = ret_q "softmax" (softmax expf x d) st.
  Proof. unfold ext20_ops. cbn. now rewrite dec_x_enc_f. Qed.

  Lemma ext_bshapes a b st :
    ext "broadcast_shapes" [shape_val a; shape_val b] [] st =
    match broadcast_shapes a b with Some s => Ok (shape_val s) st | None => Exc runtime_error st end.
  Proof. unfold ext20_ops, shape_val. cbn. now rewrite !LemmasC07.dec_nats_enc. Qed.
  Lemma ext_linear x w bo st :
    ext "torch.nn.functional.linear" [enc_q x; enc_q w; match bo with None => VNone | Some t => enc_q t end] [] st
    = ret_q "linear" (linear x w bo) st.
  Proof.
    pose proof (dec_q_enc_q x) as Hx. pose proof (dec_q_enc_q w) as Hw.
    destruct bo as [t|].
    - pose proof (dec_q_enc_q t) as Ht. unfold ext20_ops. cbn. rewrite Hx, Hw.
      unfold enc_q, enc_f in *. cbn in *. rewrite Ht. reflexivity.
    - unfold ext20_ops. cbn. rewrite Hx, Hw. reflexivity.
  Qed.
End ExtLemmas.

(* ---- tensors inside the interpreter --------------------------------------------------------------- *)
Lemma method_enc_q t m args : method (enc_q t) m args = None.  Proof. reflexivity. Qed.
Lemma method_enc_b t m args : method (enc_b t) m args = None.  Proof. reflexivity. Qed.
Lemma method_enc_f t m args : method (enc_f t) m args = None.  Proof. reflexivity. Qed.
Lemma attribute_enc_q ext t a st : attribute ext (enc_q t) a st = ext ("$attr." ++ a) [enc_q t] [] st.  Proof. reflexivity. Qed.
Lemma attribute_enc_b ext t a st : attribute ext (enc_b t) a st = ext ("$attr." ++ a) [enc_b t] [] st.  Proof. reflexivity. Qed.
Lemma binop_mul_enc t u st : binop_eval Mul (enc_q t) (enc_q u) st = Stuck "mul".  Proof. reflexivity. Qed.
Lemma binop_mul_enc_s t c st : binop_eval Mul (enc_q t) (VQ c) st = Stuck "mul".  Proof. reflexivity. Qed.
Lemma cmp_is_none_b t : cmp_eval Is (enc_b t) VNone = Some false.  Proof. reflexivity. Qed.
Lemma cmp_isnot_none_b t : cmp_eval IsNot (enc_b t) VNone = Some true.  Proof. reflexivity. Qed.

#[local] Arguments ext20_ops : simpl never.

Ltac istep :=
  cbn;
  rewrite ?method_enc_q, ?method_enc_b, ?method_enc_f, ?attribute_enc_q, ?attribute_enc_b,
    ?binop_mul_enc, ?binop_mul_enc_s, ?cmp_is_none_b, ?cmp_isnot_none_b;
  cbn.

(* ---- DotProductSoftAttention.score ------------------------------------------------------------------- *)
Definition score_vars (self : val) (q k : tn Q) : list (string * val) :=
  ("self", self) :: ("query", enc_q q) :: ("key", enc_q k) :: globals20.

Lemma dot_score_run expf d (q k : tn Q) dim sc qu P E :
  dict_get d (VStr "dim") = Some (VInt dim) -> dict_get d (VStr "scale_factor") = Some (VQ sc) ->
  unsqueeze q dim = Some qu -> mul qu k = Some P -> sum_dim P (-1) = Some E ->
  exists st, Interp.run (ext20_ops expf) dot_score (score_vars (VDict d) q k) = Ok (enc_q (mul_s E sc)) st.
Proof.
  intros Hd Hs Hu Hm Hsum. unfold Interp.run, dot_score, score_vars, globals20.
  istep. rewrite Hd. istep. rewrite ext_unsqueeze, Hu. istep.
  rewrite ext_mul, Hm. istep. rewrite ext_sum, Hsum. istep. rewrite Hs. istep.
  rewrite ext_mul_s. istep. eexists. reflexivity.
Qed.

(* ---- GeneralizedDotProductSoftAttention.score -------------------------------------------------------- *)
Definition bias_val (bo : option (tn Q)) : val := match bo with None => VNone | Some t => enc_q t end.

Lemma general_score_run expf d (q k w : tn Q) bo dim qu WK P E :
  dict_get d (VStr "dim") = Some (VInt dim) -> dict_get d (VStr "weight") = Some (enc_q w) ->
  dict_get d (VStr "bias") = Some (bias_val bo) ->
  linear k w bo = Some WK -> unsqueeze q dim = Some qu -> mul qu WK = Some P -> sum_dim P (-1) = Some E ->
  exists st, Interp.run (ext20_ops expf) general_score (score_vars (VDict d) q k) = Ok (enc_q E) st.
Proof.
  intros Hd Hw Hb Hl Hu Hm Hsum. unfold Interp.run, general_score, score_vars, globals20.
  istep. rewrite Hw. istep. rewrite Hb. istep. unfold bias_val. rewrite ext_linear, Hl. istep.
  rewrite Hd. istep. rewrite ext_unsqueeze, Hu. istep.
  rewrite ext_mul, Hm. istep. rewrite ext_sum, Hsum. istep. eexists. reflexivity.
Qed.

(* ---- comparisons of Python ints ------------------------------------------------------------------------ *)
Lemma q_cmp_int op a b :
  q_cmp op (inject_Z a) (inject_Z b) =
  match op with Lt => (a <? b)%Z | LtE => (a <=? b)%Z | Gt => (b <? a)%Z | GtE => (b <=? a)%Z | _ => false end.
Proof.
  unfold q_cmp, Qcompare. cbn [Qnum Qden inject_Z]. rewrite !Z.mul_1_r.
  destruct op; try reflexivity; destruct (Z.compare_spec a b); lia.
Qed.

Lemma cmp_gt_int a b : cmp_eval Gt (VInt a) (VInt b) = Some (b <? a)%Z.
Proof. unfold cmp_eval, as_q. now rewrite q_cmp_int. Qed.
Lemma cmp_lt_int a b : cmp_eval Lt (VInt a) (VInt b) = Some (a <? b)%Z.
Proof. unfold cmp_eval, as_q. now rewrite q_cmp_int. Qed.
Lemma cmp_ge_int a b : cmp_eval GtE (VInt a) (VInt b) = Some (b <=? a)%Z.
Proof. unfold cmp_eval, as_q. now rewrite q_cmp_int. Qed.
Lemma cmp_eq_int a b : cmp_eval Eq (VInt a) (VInt b) = Some (a =? b)%Z.
Proof. reflexivity. Qed.
Lemma cmp_ne_int a b : cmp_eval NotEq (VInt a) (VInt b) = Some (negb (a =? b)%Z).
Proof. reflexivity. Qed.
Lemma cmp_is_none_none : cmp_eval Is VNone VNone = Some true.  Proof. reflexivity. Qed.
Lemma cmp_isnot_none_none : cmp_eval IsNot VNone VNone = Some false.  Proof. reflexivity. Qed.

#[local] Arguments cmp_eval : simpl never.

Ltac cstep :=
  istep;
  rewrite ?cmp_gt_int, ?cmp_lt_int, ?cmp_ge_int, ?cmp_eq_int, ?cmp_ne_int, ?cmp_is_none_none, ?cmp_isnot_none_none,
    ?cmp_is_none_b, ?cmp_isnot_none_b;
  cbn.

(* ---- shapes as Python tuples ---------------------------------------------------------------------------- *)
Lemma removelast_map {A B} (f : A -> B) l : removelast (map f l) = map f (removelast l).
Proof.
  induction l as [|x l IH]; [reflexivity|]. cbn [map removelast].
  destruct l as [|y l]; [reflexivity|]. cbn [map] in *. rewrite IH. reflexivity.
Qed.

Lemma removelast_rev {A} (l : list A) : removelast l = rev (tl (rev l)).
Proof.
  destruct (rev l) as [|x r] eqn:E.
  - apply (f_equal (@rev A)) in E. rewrite rev_involutive in E. subst l. reflexivity.
  - apply (f_equal (@rev A)) in E. rewrite rev_involutive in E. subst l. cbn [rev tl].
    rewrite removelast_last. reflexivity.
Qed.

Lemma shape_val_removelast s : VTuple (removelast (map (fun n => VInt (Z.of_nat n)) s)) = shape_val (removelast s).
Proof. unfold shape_val. now rewrite removelast_map. Qed.

Lemma shape_val_snoc s : VTuple (map (fun n => VInt (Z.of_nat n)) s ++ [VInt 1]) = shape_val (s ++ [1%nat]).
Proof. unfold shape_val. rewrite map_app. reflexivity. Qed.

(* shape[-1] *)
Lemma foreign_item_shape s i : foreign_item (shape_val s) (VInt i) = false.
Proof. destruct s as [|a [|b [|c s]]]; reflexivity. Qed.

Lemma subscript_last s x r st : rev s = x :: r ->
  subscript (shape_val s) (VInt (-1)) st = Ok (VInt (Z.of_nat x)) st.
Proof.
  intros H. unfold subscript. pose proof (foreign_item_shape s (-1)) as Hf. unfold shape_val in *. rewrite Hf. clear Hf.
  apply (f_equal (@rev nat)) in H. rewrite rev_involutive in H. subst s. cbn [rev].
  rewrite map_length, app_length. cbn [List.length].
  replace ((-1 <? 0)%Z) with true by reflexivity.
  set (n := (List.length (rev r) + 1)%nat).
  assert (B : ((0 <=? -1 + Z.of_nat n)%Z && (-1 + Z.of_nat n <? Z.of_nat n)%Z)%bool = true) by lia.
  rewrite B. f_equal.
  replace (Z.to_nat (-1 + Z.of_nat n)) with (List.length (rev r)) by lia.
  rewrite map_app, app_nth2 by (rewrite map_length; lia). rewrite map_length, Nat.sub_diag. reflexivity.
Qed.

Lemma broadcast_shapes_r a b : broadcast_shapes a b = option_map (@rev nat) (Model.bshape (rev a) (rev b)).
Proof. reflexivity. Qed.

Lemma subscript_slice s k st : subscript (shape_val s) (VTuple k) st = Stuck "subscript".
Proof. reflexivity. Qed.

Lemma binop_add_shape s l st : binop_eval Add (shape_val s) (VTuple l) st = Stuck "add".
Proof. reflexivity. Qed.

Lemma ext_shape_init expf s st :
  ext20_ops expf "$getitem" [shape_val s; VTuple [VStr "$slice"; VNone; VInt (-1); VNone]] [] st
  = Ok (shape_val (removelast s)) st.
Proof. unfold shape_val at 1. rewrite ext_getitem_init, shape_val_removelast. reflexivity. Qed.

Lemma ext_shape_snoc expf s st :
  ext20_ops expf "operator" [VStr "add"; shape_val s; VTuple [VInt 1]] [] st = Ok (shape_val (s ++ [1%nat])) st.
Proof. unfold shape_val at 1. rewrite ext_tuple_add, shape_val_snoc. reflexivity. Qed.

Lemma rev_removelast {A} (l : list A) : rev (removelast l) = tl (rev l).
Proof. rewrite removelast_rev. apply rev_involutive. Qed.

Lemma bshapes_init a b x ra y rb es : rev a = x :: ra -> rev b = y :: rb -> Model.bshape ra rb = Some es ->
  broadcast_shapes (removelast a) (removelast b) = Some (rev es).
Proof.
  intros Ha Hb H. rewrite broadcast_shapes_r, !rev_removelast, Ha, Hb. cbn [tl]. rewrite H. reflexivity.
Qed.

Lemma bshapes_rev es b r : Model.bshape es (rev b) = Some r -> broadcast_shapes (rev es) b = Some (rev r).
Proof. intros H. rewrite broadcast_shapes_r, rev_involutive, H. reflexivity. Qed.

Lemma bshapes_snoc es b r : Model.bshape (1%nat :: es) (rev b) = Some r ->
  broadcast_shapes (rev es ++ [1%nat]) b = Some (rev r).
Proof. intros H. rewrite broadcast_shapes_r, rev_app_distr, rev_involutive. cbn [rev app]. rewrite H. reflexivity. Qed.

#[local] Arguments subscript : simpl never.
#[local] Arguments broadcast_shapes : simpl never.
#[local] Arguments shape_val : simpl never.

(* ---- GlobalSoftAttention.check_input ---------------------------------------------------------------------- *)
Definition check_vars (self : val) (q k v : tn Q) (m : tn bool) : list (string * val) :=
  ("self", self) :: ("query", enc_q q) :: ("key", enc_q k) :: ("value", enc_q v) :: ("mask", enc_b m) :: globals20.

Lemma check_input_accepts expf d (q k v : tn Q) (mt : tn bool) dim qs ks sq' sk' qu uq' es ms ps :
  dict_get d (VStr "dim") = Some (VInt dim) ->
  dict_get d (VStr "query_size") = Some (VInt (Z.of_nat qs)) ->
  dict_get d (VStr "key_size") = Some (VInt (Z.of_nat ks)) ->
  S (List.length (shp q)) = List.length (shp k) -> List.length (shp v) = List.length (shp k) ->
  rev (shp q) = qs :: sq' -> rev (shp k) = ks :: sk' ->
  (1 - Z.of_nat (List.length (shp k)) <= dim <= Z.of_nat (List.length (shp k)) - 2)%Z ->
  unsqueeze q dim = Some qu -> rev (shp qu) = qs :: uq' ->
  Model.bshape uq' sk' = Some es ->
  Model.bshape es (rev (shp mt)) = Some ms ->
  Model.bshape (1%nat :: es) (rev (shp v)) = Some ps ->
  exists st, Interp.run (ext20_ops expf) gsa_check_input (check_vars (VDict d) q k v mt) = Ok VNone st.
Proof.
  intros Hd Hq Hk Hrq Hrv Hsq Hsk Hdim Hu Hsu Hes Hms Hps.
  unfold Interp.run, gsa_check_input, check_vars, globals20.
  set (kr := List.length (shp k)) in *.
  assert (B1 : (Z.of_nat (List.length (shp q)) =? Z.of_nat kr - 1)%Z = true) by lia.
  assert (B2 : (Z.of_nat kr =? Z.of_nat (List.length (shp v)))%Z = true) by lia.
  assert (B3 : (Z.of_nat kr - 2 <? dim)%Z = false) by lia.
  assert (B4 : (Z.of_nat kr =? -1)%Z = false) by lia.
  assert (B5 : (dim <? - Z.of_nat kr + 1)%Z = false) by lia.
  cstep. rewrite ext_dim_q. cstep. rewrite ext_dim_q. cstep. fold kr. rewrite B1. cstep.
  rewrite ext_dim_q. cstep. rewrite B2. cstep.
  rewrite ext_shape_q. cstep. rewrite (subscript_last _ _ _ _ Hsq). cstep. rewrite Hq. cstep.
  rewrite Z.eqb_refl. cstep.
  rewrite ext_shape_q. cstep. rewrite (subscript_last _ _ _ _ Hsk). cstep. rewrite Hk. cstep.
  rewrite Z.eqb_refl. cstep.
  rewrite Hd. cstep. rewrite B3. cstep. rewrite B4. cstep. rewrite Hd. cstep. rewrite B5. cstep.
  rewrite Hd. cstep. rewrite ext_unsqueeze, Hu. cstep. rewrite ext_shape_q. cstep. rewrite subscript_slice, ext_shape_init. cstep.
  rewrite ext_shape_q. cstep. rewrite subscript_slice, ext_shape_init. cstep.
  rewrite ext_bshapes, (bshapes_init _ _ _ _ _ _ _ Hsu Hsk Hes). cstep.
  cstep.
  rewrite ext_shape_b. cstep. rewrite ext_bshapes, (bshapes_rev _ _ _ Hms). cstep.
  rewrite binop_add_shape, ext_shape_snoc. cstep. rewrite ext_shape_q. cstep.
  rewrite ext_bshapes, (bshapes_snoc _ _ _ Hps). cstep.
  eexists. reflexivity.
Qed.

(* check_input raises: a query of the wrong rank *)
Lemma check_input_rejects_rank expf d (q k v : tn Q) (mt : tn bool) :
  S (List.length (shp q)) <> List.length (shp k) ->
  exists st, Interp.run (ext20_ops expf) gsa_check_input (check_vars (VDict d) q k v mt) = Exc value_error st.
Proof.
  intros Hrq. unfold Interp.run, gsa_check_input, check_vars, globals20.
  set (kr := List.length (shp k)) in *.
  assert (B1 : (Z.of_nat (List.length (shp q)) =? Z.of_nat kr - 1)%Z = false) by lia.
  cstep. rewrite ext_dim_q. cstep. rewrite ext_dim_q. cstep. fold kr. rewrite B1. cstep.
  eexists. reflexivity.
Qed.

(* check_input raises: dim outside the documented range (ranks and feature sizes in order) *)
Lemma check_input_rejects_dim expf d (q k v : tn Q) (mt : tn bool) dim qs ks sq' sk' :
  dict_get d (VStr "dim") = Some (VInt dim) ->
  dict_get d (VStr "query_size") = Some (VInt (Z.of_nat qs)) ->
  dict_get d (VStr "key_size") = Some (VInt (Z.of_nat ks)) ->
  S (List.length (shp q)) = List.length (shp k) -> List.length (shp v) = List.length (shp k) ->
  rev (shp q) = qs :: sq' -> rev (shp k) = ks :: sk' ->
  (dim > Z.of_nat (List.length (shp k)) - 2 \/ dim < 1 - Z.of_nat (List.length (shp k)))%Z ->
  exists st, Interp.run (ext20_ops expf) gsa_check_input (check_vars (VDict d) q k v mt) = Exc value_error st.
Proof.
  intros Hd Hq Hk Hrq Hrv Hsq Hsk Hdim.
  unfold Interp.run, gsa_check_input, check_vars, globals20.
  set (kr := List.length (shp k)) in *.
  assert (B1 : (Z.of_nat (List.length (shp q)) =? Z.of_nat kr - 1)%Z = true) by lia.
  assert (B2 : (Z.of_nat kr =? Z.of_nat (List.length (shp v)))%Z = true) by lia.
  assert (B4 : (Z.of_nat kr =? -1)%Z = false) by lia.
  cstep. rewrite ext_dim_q. cstep. rewrite ext_dim_q. cstep. fold kr. rewrite B1. cstep.
  rewrite ext_dim_q. cstep. rewrite B2. cstep.
  rewrite ext_shape_q. cstep. rewrite (subscript_last _ _ _ _ Hsq). cstep. rewrite Hq. cstep.
  rewrite Z.eqb_refl. cstep.
  rewrite ext_shape_q. cstep. rewrite (subscript_last _ _ _ _ Hsk). cstep. rewrite Hk. cstep.
  rewrite Z.eqb_refl. cstep.
  rewrite Hd. cstep.
  destruct (Z.of_nat kr - 2 <? dim)%Z eqn:B3.
  - cstep. eexists. reflexivity.
  - assert (B5 : (dim <? - Z.of_nat kr + 1)%Z = true) by lia.
    cstep. rewrite B4. cstep. rewrite Hd. cstep. rewrite B5. cstep. eexists. reflexivity.
Qed.

Lemma bshapes_init_none a b x ra y rb : rev a = x :: ra -> rev b = y :: rb -> Model.bshape ra rb = None ->
  broadcast_shapes (removelast a) (removelast b) = None.
Proof.
  intros Ha Hb H. rewrite broadcast_shapes_r, !rev_removelast, Ha, Hb. cbn [tl]. rewrite H. reflexivity.
Qed.

(* check_input raises: the batch shapes of query and key do not broadcast (torch's RuntimeError) *)
Lemma check_input_rejects_bcast expf d (q k v : tn Q) (mt : tn bool) dim qs ks sq' sk' qu uq' :
  dict_get d (VStr "dim") = Some (VInt dim) ->
  dict_get d (VStr "query_size") = Some (VInt (Z.of_nat qs)) ->
  dict_get d (VStr "key_size") = Some (VInt (Z.of_nat ks)) ->
  S (List.length (shp q)) = List.length (shp k) -> List.length (shp v) = List.length (shp k) ->
  rev (shp q) = qs :: sq' -> rev (shp k) = ks :: sk' ->
  (1 - Z.of_nat (List.length (shp k)) <= dim <= Z.of_nat (List.length (shp k)) - 2)%Z ->
  unsqueeze q dim = Some qu -> rev (shp qu) = qs :: uq' ->
  Model.bshape uq' sk' = None ->
  exists st, Interp.run (ext20_ops expf) gsa_check_input (check_vars (VDict d) q k v mt) = Exc runtime_error st.
Proof.
  intros Hd Hq Hk Hrq Hrv Hsq Hsk Hdim Hu Hsu Hes.
  unfold Interp.run, gsa_check_input, check_vars, globals20.
  set (kr := List.length (shp k)) in *.
  assert (B1 : (Z.of_nat (List.length (shp q)) =? Z.of_nat kr - 1)%Z = true) by lia.
  assert (B2 : (Z.of_nat kr =? Z.of_nat (List.length (shp v)))%Z = true) by lia.
  assert (B3 : (Z.of_nat kr - 2 <? dim)%Z = false) by lia.
  assert (B4 : (Z.of_nat kr =? -1)%Z = false) by lia.
  assert (B5 : (dim <? - Z.of_nat kr + 1)%Z = false) by lia.
  cstep. rewrite ext_dim_q. cstep. rewrite ext_dim_q. cstep. fold kr. rewrite B1. cstep.
  rewrite ext_dim_q. cstep. rewrite B2. cstep.
  rewrite ext_shape_q. cstep. rewrite (subscript_last _ _ _ _ Hsq). cstep. rewrite Hq. cstep.
  rewrite Z.eqb_refl. cstep.
  rewrite ext_shape_q. cstep. rewrite (subscript_last _ _ _ _ Hsk). cstep. rewrite Hk. cstep.
  rewrite Z.eqb_refl. cstep.
  rewrite Hd. cstep. rewrite B3. cstep. rewrite B4. cstep. rewrite Hd. cstep. rewrite B5. cstep.
  rewrite Hd. cstep. rewrite ext_unsqueeze, Hu. cstep. rewrite ext_shape_q. cstep. rewrite subscript_slice, ext_shape_init. cstep.
  rewrite ext_shape_q. cstep. rewrite subscript_slice, ext_shape_init. cstep.
  rewrite ext_bshapes, (bshapes_init_none _ _ _ _ _ _ Hsu Hsk Hes). cstep.
  eexists. reflexivity.
Qed.

(* ---- GlobalSoftAttention.forward ------------------------------------------------------------------------ *)
Lemma call_body_ok expf body vars0 v :
  (exists st', Interp.run (ext20_ops expf) body vars0 = Ok v st') -> forall st, call_body expf body vars0 st = Ok v st.
Proof. intros [st' H] st. unfold call_body. rewrite H. reflexivity. Qed.

Lemma call_body_exc expf body vars0 n :
  (exists st', Interp.run (ext20_ops expf) body vars0 = Exc n st') -> forall st, call_body expf body vars0 st = Exc n st.
Proof. intros [st' H] st. unfold call_body. rewrite H. reflexivity. Qed.

#[local] Arguments call_body : simpl never.

Ltac fstep :=
  cstep;
  rewrite ?ext_device_q, ?ext_ones, ?ext_float_inf;
  cbn.

Section Forward.
  Variables (expf : Q -> Q) (cls : score_class) (d : list (val * val)) (dim : Z) (q k v : tn Q).
  Hypothesis Hd : dict_get d (VStr "dim") = Some (VInt dim).
  Variables (E1 A AU P2 OUT : tn Q).
  Hypothesis Hscore : forall st, call_body expf (score_body cls) (score_vars (VDict d) q k) st = Ok (enc_q E1) st.
  Hypothesis Hau : unsqueeze A (-1) = Some AU.
  Hypothesis Hp2 : mul AU v = Some P2.
  Hypothesis Hout : sum_dim P2 dim = Some OUT.

  Lemma forward_run_nomask :
    (forall st, call_body expf gsa_check_input (check_vars (VDict d) q k v (ones_bool [1%nat])) st = Ok VNone st) ->
    softmax expf (mkTn (shp E1) (map Fin (dat E1))) (if (0 <=? dim)%Z then dim else (dim + 1)%Z) = Some A ->
    exists st, run_forward expf cls (VDict d) q k v None = Ok (enc_q OUT) st.
  Proof.
    intros Hci Hsm. unfold run_forward, Interp.run, gsa_forward, forward_vars, mask_val, globals20.
    fstep. fstep. fstep. fold globals20. fold (check_vars (VDict d) q k v (ones_bool [1%nat])). rewrite Hci. fstep.
    fold (score_vars (VDict d) q k). rewrite Hscore. fstep. fstep. rewrite Hd. fstep.
    destruct (0 <=? dim)%Z; fstep; rewrite ?Hd; fstep; rewrite ext_softmax_q, Hsm; fstep;
      rewrite ext_unsqueeze, Hau; fstep; rewrite ext_mul, Hp2; fstep; rewrite Hd; fstep;
      rewrite ext_sum, Hout; fstep; eexists; reflexivity.
  Qed.
  Lemma forward_run_mask mt E2 :
    (forall st, call_body expf gsa_check_input (check_vars (VDict d) q k v mt) st = Ok VNone st) ->
    masked_fill_ninf E1 (invert mt) = Some E2 ->
    softmax expf E2 (if (0 <=? dim)%Z then dim else (dim + 1)%Z) = Some A ->
    exists st, run_forward expf cls (VDict d) q k v (Some mt) = Ok (enc_q OUT) st.
  Proof.
    intros Hci Hmf Hsm. unfold run_forward, Interp.run, gsa_forward, forward_vars, mask_val, globals20.
    fstep. fstep. fold globals20. fold (check_vars (VDict d) q k v mt). rewrite Hci. fstep.
    fold (score_vars (VDict d) q k). rewrite Hscore. fstep. fstep.
    rewrite ext_invert. fstep. rewrite ext_masked_fill, Hmf. fstep. rewrite Hd. fstep.
    destruct (0 <=? dim)%Z; fstep; rewrite ?Hd; fstep; rewrite ext_softmax_f, Hsm; fstep;
      rewrite ext_unsqueeze, Hau; fstep; rewrite ext_mul, Hp2; fstep; rewrite Hd; fstep;
      rewrite ext_sum, Hout; fstep; eexists; reflexivity.
  Qed.
End Forward.

(* an exception of check_input propagates out of forward (the score method is not reached) *)
Lemma forward_run_exc_nomask expf cls d q k v n :
  (forall st, call_body expf gsa_check_input (check_vars (VDict d) q k v (ones_bool [1%nat])) st = Exc n st) ->
  exists st, run_forward expf cls (VDict d) q k v None = Exc n st.
Proof.
  intros Hci. unfold run_forward, Interp.run, gsa_forward, forward_vars, mask_val, globals20.
  fstep. fstep. fstep. fold globals20. fold (check_vars (VDict d) q k v (ones_bool [1%nat])). rewrite Hci. fstep.
  eexists. reflexivity.
Qed.

Lemma forward_run_exc_mask expf cls d q k v mt n :
  (forall st, call_body expf gsa_check_input (check_vars (VDict d) q k v mt) st = Exc n st) ->
  exists st, run_forward expf cls (VDict d) q k v (Some mt) = Exc n st.
Proof.
  intros Hci. unfold run_forward, Interp.run, gsa_forward, forward_vars, mask_val, globals20.
  fstep. fstep. fold globals20. fold (check_vars (VDict d) q k v mt). rewrite Hci. fstep.
  eexists. reflexivity.
Qed.

Lemma forward_run_exc expf cls d q k v m n :
  (forall mt st, call_body expf gsa_check_input (check_vars (VDict d) q k v mt) st = Exc n st) ->
  exists st, run_forward expf cls (VDict d) q k v m = Exc n st.
Proof.
  intros H. destruct m as [mt|]; [apply forward_run_exc_mask|apply forward_run_exc_nomask]; intros; apply H.
Qed.

(* ---- the tie: forward (dot-product score) = Model.attend ------------------------------------------------ *)
Import C20.Model C20.Spec C20.Index C20.Proofs.
Local Open Scope nat_scope.

Lemma attend_heads expf sc q k v m p qs ks out :
  attend expf sc q k v m p qs ks = Some out -> hd 0 (tshape q) = qs /\ hd 0 (tshape k) = ks.
Proof.
  unfold attend. destruct (legalb q k v p qs ks) eqn:L; [|discriminate]. intros _.
  unfold legalb in L. repeat (apply andb_true_iff in L; destruct L as [L ?]).
  split; apply Nat.eqb_eq; assumption.
Qed.

Lemma axis_pos_range dim kr p : axis_pos dim kr = Some p -> (1 - Z.of_nat kr <= dim <= Z.of_nat kr - 2)%Z.
Proof.
  unfold axis_pos.
  destruct ((1 - Z.of_nat kr <=? dim)%Z && (0 <=? (if (dim <? 0)%Z then (dim + Z.of_nat kr)%Z else dim))%Z
            && ((if (dim <? 0)%Z then (dim + Z.of_nat kr)%Z else dim) <? Z.of_nat kr - 1)%Z) eqn:B; [|discriminate].
  intros _. destruct (dim <? 0)%Z eqn:N; lia.
Qed.

Lemma intob_bshape a : forall b, intob a b = true -> bshape b a = Some b.
Proof.
  induction a as [|x a IH]; intros b H.
  - destruct b; reflexivity.
  - destruct b as [|y b]; [discriminate|]. cbn in H. apply andb_true_iff in H. destruct H as [H1 H2].
    cbn [bshape]. rewrite (IH b H2).
    destruct (Nat.eqb_spec y x); [reflexivity|].
    destruct (Nat.eqb_spec y 1); [destruct (Nat.eqb_spec x y); [congruence|]; destruct (Nat.eqb_spec x 1); [congruence|discriminate]|].
    destruct (Nat.eqb_spec x 1); [reflexivity|].
    destruct (Nat.eqb_spec x y); [congruence|discriminate].
Qed.

Lemma wrap_dim_last n : wrap_dim (S n) (-1) = Some n.
Proof.
  unfold wrap_dim.
  assert (B : ((- Z.of_nat (S n) <=? -1)%Z && (-1 <? Z.of_nat (S n))%Z)%bool = true) by lia.
  rewrite B. f_equal. replace (-1 <? 0)%Z with true by reflexivity. lia.
Qed.

Lemma unsqueeze_last {X} (x : tn X) : unsqueeze x (-1) = Some (runsq 0 x).
Proof.
  rewrite (unsqueeze_runsq x (-1) (rank x)); [rewrite Nat.sub_diag; reflexivity|apply wrap_dim_last|lia].
Qed.

Section Tie.
  Variables (expf : Q -> Q) (q k v : tensor Q) (m : option (tensor bool)) (dim : Z) (p : nat).
  Hypothesis Hax : axis_pos dim (List.length (tshape k)) = Some p.

  Section WithFacts.
    Variables es ps : shape.
    Hypothesis F : attend_facts q k v m p es ps.

    Lemma unsqueeze_query : unsqueeze (flat q) dim = Some (runsq p (mat q)).
    Proof.
      destruct (attend_dims _ _ _ _ _ _ _ _ F Hax) as [_ [_ Hw]].
      pose proof (af_qrank _ _ _ _ _ _ _ F) as Hq. pose proof (af_pk _ _ _ _ _ _ _ F) as Hpk.
      unfold flat.
      rewrite (unsqueeze_runsq (mat q) dim (List.length (tshape k) - 1 - p)).
      - rewrite rank_mat. f_equal. f_equal. lia.
      - rewrite rank_mat, Hq. exact Hw.
      - rewrite rank_mat. lia.
    Qed.

    (* check_input accepts what the model accepts; [mt] = the mask tensor handed over (ones((1,)) without a mask) *)
    Lemma check_input_run d qs ks (mt : tn bool) :
      dict_get d (VStr "dim") = Some (VInt dim) ->
      dict_get d (VStr "query_size") = Some (VInt (Z.of_nat qs)) ->
      dict_get d (VStr "key_size") = Some (VInt (Z.of_nat ks)) ->
      hd 0 (tshape q) = qs -> hd 0 (tshape k) = ks ->
      intob (rev (shp mt)) es = true ->
      forall st, call_body expf gsa_check_input (check_vars (VDict d) (flat q) (flat k) (flat v) mt) st = Ok VNone st.
    Proof.
      intros Hd Hqs Hks Hq Hk Hm. apply call_body_ok.
      destruct (shapes_qk _ _ _ _ _ _ _ F) as [sq' [sk' [Eq [Ek [Hpe Htl]]]]]. rewrite Hq in Eq. rewrite Hk in Ek.
      pose proof (af_es _ _ _ _ _ _ _ F) as Hes. rewrite Htl, Ek in Hes. cbn [tl] in Hes.
      pose proof (f_p _ _ _ _ _ _ _ F) as Hp.
      apply (check_input_accepts expf d (flat q) (flat k) (flat v) mt dim qs ks sq' sk'
               (runsq p (mat q)) (ins (p - 1) 1 sq') es es ps); try assumption.
      - unfold flat. rewrite !shp_mat, !rev_length. apply (af_qrank _ _ _ _ _ _ _ F).
      - unfold flat. rewrite !shp_mat, !rev_length. apply (af_vrank _ _ _ _ _ _ _ F).
      - unfold flat. rewrite rshp_mat. exact Eq.
      - unfold flat. rewrite rshp_mat. exact Ek.
      - unfold flat. rewrite shp_mat, rev_length. apply (axis_pos_range _ _ _ Hax).
      - apply unsqueeze_query.
      - rewrite rshp_runsq, rshp_mat, Eq. rewrite Hp at 1. rewrite ins_S. reflexivity.
      - apply intob_bshape, Hm.
      - unfold flat. rewrite rshp_mat. apply (af_ps _ _ _ _ _ _ _ F).
    Qed.
  End WithFacts.
End Tie.

Lemma es_nonempty q k v m p es ps : attend_facts q k v m p es ps -> intob [1] es = true.
Proof.
  intros F. pose proof (f_pe_es _ _ _ _ _ _ _ F) as H. destruct es as [|x r]; [cbn in H; lia|].
  cbn. rewrite orb_true_r. reflexivity.
Qed.

(* what the forward pass computes once the score method has returned the model's scores *)
Lemma forward_tie_score expf cls d sc q k v m dim p qs ks out :
  axis_pos dim (List.length (tshape k)) = Some p ->
  attend expf sc q k v m p qs ks = Some out ->
  dict_get d (VStr "dim") = Some (VInt dim) ->
  dict_get d (VStr "query_size") = Some (VInt (Z.of_nat qs)) ->
  dict_get d (VStr "key_size") = Some (VInt (Z.of_nat ks)) ->
  (forall es ps, attend_facts q k v m p es ps ->
     forall st, call_body expf (score_body cls) (score_vars (VDict d) (flat q) (flat k)) st
                = Ok (enc_q (mat (mkT es (e_at sc q k p)))) st) ->
  exists st, run_forward expf cls (VDict d) (flat q) (flat k) (flat v) (option_map flat m) = Ok (enc_q (flat out)) st.
Proof.
  intros Hax Hatt Hd Hqs Hks Hscore.
  destruct (attend_heads _ _ _ _ _ _ _ _ _ _ Hatt) as [Hq Hk].
  destruct (attend_inv _ _ _ _ _ _ _ _ _ _ Hatt) as [es [ps [F ->]]].
  destruct (attend_dims _ _ _ _ _ _ _ _ F Hax) as [Hr1 [Hr2 _]].
  set (et := memo None (mkT es (em_at sc q k m p))).
  set (Ta := mkT es (a_at expf p et es)).
  destruct (weighted_sum_ops expf q k v m p es ps F sc dim Hr1) as [P2 [Hp2 Hout]].
  fold et in Hp2, Hout. fold Ta in Hp2, Hout.
  assert (Hflat : flat (memo 0%Q (mkT (del p ps) (out_at v p (memo 0%Q Ta) ps)))
                  = mat (mkT (del p ps) (out_at v p (memo 0%Q Ta) ps))).
  { unfold flat. rewrite mat_memo. reflexivity. }
  rewrite Hflat.
  pose proof (softmax_ops expf q k v m p es ps F sc _ Hr2) as Hsm. fold et in Hsm. fold Ta in Hsm.
  destruct m as [mt|].
  - cbn [option_map].
    apply (forward_run_mask expf cls d dim (flat q) (flat k) (flat v) Hd
             (mat (mkT es (e_at sc q k p))) (mat Ta) (runsq 0 (mat Ta)) P2 _
             (Hscore es ps F) (unsqueeze_last _) Hp2 Hout (flat mt)
             (mat (mkT es (fun i => xo (em_at sc q k (Some mt) p i))))).
    + apply (check_input_run expf q k v (Some mt) dim p Hax es ps F d qs ks); try assumption.
      unfold flat. rewrite rshp_mat. apply (af_mask _ _ _ _ _ _ _ F).
    + apply (mask_ops q k v (Some mt) p es ps F sc mt eq_refl).
    + exact Hsm.
  - cbn [option_map].
    apply (forward_run_nomask expf cls d dim (flat q) (flat k) (flat v) Hd
             (mat (mkT es (e_at sc q k p))) (mat Ta) (runsq 0 (mat Ta)) P2 _
             (Hscore es ps F) (unsqueeze_last _) Hp2 Hout).
    + apply (check_input_run expf q k v None dim p Hax es ps F d qs ks); try assumption.
      apply (es_nonempty _ _ _ _ _ _ _ F).
    + rewrite (no_mask_ops expf q k v None p es ps F sc eq_refl). exact Hsm.
Qed.

(* DotProductSoftAttention: forward = attend with the dot-product score *)
Theorem forward_dot_tie expf tanhf sc dim qs q k v m p out :
  axis_pos dim (List.length (tshape k)) = Some p ->
  attend expf (score tanhf (Dot sc)) q k v m p qs qs = Some out ->
  exists st, run_forward expf DotCls (self_dot dim qs qs sc) (flat q) (flat k) (flat v) (option_map flat m)
             = Ok (enc_q (flat out)) st.
Proof.
  intros Hax Hatt. unfold self_dot.
  apply (forward_tie_score expf DotCls _ (score tanhf (Dot sc)) q k v m dim p qs qs out Hax Hatt);
    try reflexivity.
  intros es ps F. apply call_body_ok.
  destruct (attend_heads _ _ _ _ _ _ _ _ _ _ Hatt) as [Hq Hk].
  destruct (dot_score_ops q k v m p es ps F tanhf sc qs Hq Hk) as [P [E [Hm [Hs He]]]].
  rewrite <- He. cbn [score_body].
  apply (dot_score_run expf _ (flat q) (flat k) dim sc (runsq p (mat q)) P E); try reflexivity; try assumption.
  apply (unsqueeze_query q k v m dim p Hax es ps F).
Qed.

(* ---- composed with the model theorems: statements purely about the interpreted source ------------------ *)
(* the inputs are legal for a module of size qs: ranks, feature sizes, and the three broadcasts of check_input
   (a statement about SHAPES only) *)
Definition legal_input (q k v : tensor Q) (m : option (tensor bool)) (p qs ks : nat) : Prop :=
  exists es ps, attend_facts q k v m p es ps /\ hd 0 (tshape q) = qs /\ hd 0 (tshape k) = ks.

Lemma legal_attend expf sc q k v m p qs ks :
  legal_input q k v m p qs ks -> exists out, attend expf sc q k v m p qs ks = Some out.
Proof.
  intros [es [ps [F [Hq Hk]]]]. unfold attend.
  assert (L : legalb q k v p qs ks = true).
  { unfold legalb. pose proof (af_p _ _ _ _ _ _ _ F). pose proof (af_pk _ _ _ _ _ _ _ F).
    pose proof (af_qrank _ _ _ _ _ _ _ F). pose proof (af_vrank _ _ _ _ _ _ _ F).
    repeat (apply andb_true_iff; split); lia. }
  rewrite L. unfold qu. rewrite (af_es _ _ _ _ _ _ _ F), (af_mask _ _ _ _ _ _ _ F), (af_ps _ _ _ _ _ _ _ F).
  eexists. reflexivity.
Qed.

Lemma attend_legal expf sc q k v m p qs ks out :
  attend expf sc q k v m p qs ks = Some out -> legal_input q k v m p qs ks.
Proof.
  intros H. destruct (attend_inv _ _ _ _ _ _ _ _ _ _ H) as [es [ps [F _]]].
  destruct (attend_heads _ _ _ _ _ _ _ _ _ _ H) as [Hq Hk]. exists es, ps. split; [exact F|split; assumption].
Qed.

(* reading the returned flat tensor at an in-range index *)
Lemma read_flat (out : tensor Q) i : valid (rev (shp (flat out))) i -> tat (rd 0%Q (flat out)) i = tat out i.
Proof. unfold flat. rewrite rshp_mat. apply tat_rd_mat. Qed.

Theorem source_dot_in_kept_range expf sc dim qs q k v m p :
  (forall x, (0 < expf x)%Q) ->
  axis_pos dim (List.length (tshape k)) = Some p -> legal_input q k v m p qs qs -> seq_agree k v p ->
  exists r st,
    run_forward expf DotCls (self_dot dim qs qs sc) (flat q) (flat k) (flat v) (option_map flat m) = Ok (enc_q r) st /\
    forall c j lo hi, valid (rev (shp r)) (c :: j) ->
      (exists t, t < nth p (tshape k) 0 /\ kept_at m (ins (p - 1) t j) = true) ->
      (forall t, t < nth p (tshape k) 0 -> kept_at m (ins (p - 1) t j) = true ->
                 (lo <= bget v (c :: ins (p - 1) t j) <= hi)%Q) ->
      (lo <= tat (rd 0%Q r) (c :: j) <= hi)%Q.
Proof.
  intros Hpos Hax Hleg Hagree.
  destruct (legal_attend expf (score (fun x => x) (Dot sc)) _ _ _ _ _ _ _ Hleg) as [out Hatt].
  destruct (forward_dot_tie expf (fun x => x) sc dim qs q k v m p out Hax Hatt) as [st Hrun].
  exists (flat out), st. split; [exact Hrun|].
  intros c j lo hi Hv Hex Hb. rewrite read_flat by exact Hv.
  unfold flat in Hv. rewrite rshp_mat in Hv.
  exact (attention_in_kept_range expf _ q k v m p qs qs out Hpos Hatt Hagree c j lo hi Hv Hex Hb).
Qed.

Theorem source_dot_blind_to_masked expf sc dim qs q k v k' v' m p :
  axis_pos dim (List.length (tshape k)) = Some p ->
  legal_input q k v m p qs qs -> tshape k' = tshape k -> tshape v' = tshape v ->
  hd 0 (tshape k') = qs -> seq_agree k v p ->
  exists r r' st st',
    run_forward expf DotCls (self_dot dim qs qs sc) (flat q) (flat k) (flat v) (option_map flat m) = Ok (enc_q r) st /\
    run_forward expf DotCls (self_dot dim qs qs sc) (flat q) (flat k') (flat v') (option_map flat m) = Ok (enc_q r') st' /\
    shp r' = shp r /\
    forall c j, valid (rev (shp r)) (c :: j) ->
      (forall t, t < nth p (tshape k) 0 -> kept_at m (ins (p - 1) t j) = true ->
                 brow k' (ins (p - 1) t j) = brow k (ins (p - 1) t j)
                 /\ bget v' (c :: ins (p - 1) t j) = bget v (c :: ins (p - 1) t j)) ->
      (tat (rd 0%Q r') (c :: j) == tat (rd 0%Q r) (c :: j))%Q.
Proof.
  intros Hax Hleg Hk' Hv' Hhd Hagree.
  assert (Hleg' : legal_input q k' v' m p qs qs).
  { destruct Hleg as [es [ps [F [Hq Hk]]]]. exists es, ps. split; [|split; assumption].
    destruct F. constructor; rewrite ?Hk', ?Hv'; assumption. }
  destruct (legal_attend expf (score (fun x => x) (Dot sc)) _ _ _ _ _ _ _ Hleg) as [out Hatt].
  destruct (legal_attend expf (score (fun x => x) (Dot sc)) _ _ _ _ _ _ _ Hleg') as [out' Hatt'].
  assert (Hax' : axis_pos dim (List.length (tshape k')) = Some p) by (rewrite Hk'; exact Hax).
  destruct (forward_dot_tie expf (fun x => x) sc dim qs q k v m p out Hax Hatt) as [st Hrun].
  destruct (forward_dot_tie expf (fun x => x) sc dim qs q k' v' m p out' Hax' Hatt') as [st' Hrun'].
  assert (Hsh : tshape out' = tshape out).
  { destruct (attend_inv _ _ _ _ _ _ _ _ _ _ Hatt) as [es [ps [F ->]]].
    destruct (attend_inv _ _ _ _ _ _ _ _ _ _ Hatt') as [es' [ps' [F' ->]]].
    rewrite !memo_shape. cbn [tshape].
    pose proof (af_es _ _ _ _ _ _ _ F) as E1. pose proof (af_es _ _ _ _ _ _ _ F') as E2.
    rewrite Hk' in E2. rewrite E1 in E2. injection E2 as <-.
    pose proof (af_ps _ _ _ _ _ _ _ F) as P1. pose proof (af_ps _ _ _ _ _ _ _ F') as P2.
    rewrite Hv' in P2. rewrite P1 in P2. injection P2 as <-. reflexivity. }
  exists (flat out), (flat out'), st, st'. split; [exact Hrun|]. split; [exact Hrun'|].
  split; [unfold flat; rewrite !shp_mat, Hsh; reflexivity|].
  intros c j Hv Hsame.
  assert (Hv2 : valid (tshape out) (c :: j)) by (unfold flat in Hv; rewrite rshp_mat in Hv; exact Hv).
  rewrite !read_flat by (unfold flat; rewrite rshp_mat, ?Hsh; exact Hv2).
  exact (attention_blind_to_masked expf _ q k v k' v' m p qs qs out out' Hatt Hatt' Hk' Hv' Hagree c j Hv2 Hsame).
Qed.

(* attribute names, for statements in files that avoid string literals *)
Definition attr_dim : string := "dim".
Definition attr_query_size : string := "query_size".
Definition attr_key_size : string := "key_size".

(* GeneralizedDotProductSoftAttention: forward = attend with the "general" score (weight rows W, optional bias) *)
Theorem forward_general_tie expf tanhf W b dim qs ks q k v m p out :
  axis_pos dim (List.length (tshape k)) = Some p ->
  fl_sizes (General W b) qs ks = true ->
  attend expf (score tanhf (General W b)) q k v m p qs ks = Some out ->
  exists st, run_forward expf GeneralCls (self_general dim qs ks W b) (flat q) (flat k) (flat v) (option_map flat m)
             = Ok (enc_q (flat out)) st.
Proof.
  intros Hax Hfl Hatt. unfold self_general.
  apply (forward_tie_score expf GeneralCls _ (score tanhf (General W b)) q k v m dim p qs ks out Hax Hatt);
    try reflexivity.
  intros es ps F. apply call_body_ok.
  destruct (attend_heads _ _ _ _ _ _ _ _ _ _ Hatt) as [Hq Hk].
  destruct (general_score_ops q k v m p es ps F tanhf W b qs ks Hq Hk Hfl) as [WK [P [Hl [Hm Hs]]]].
  cbn [score_body].
  apply (general_score_run expf _ (flat q) (flat k) (rows_tn ks W) (option_map vec_tn b) dim (runsq p (mat q)) WK P);
    try reflexivity; try assumption.
  - destruct b; reflexivity.
  - apply (unsqueeze_query q k v m dim p Hax es ps F).
Qed.

Theorem source_general_in_kept_range expf W b dim qs ks q k v m p :
  (forall x, (0 < expf x)%Q) ->
  axis_pos dim (List.length (tshape k)) = Some p -> fl_sizes (General W b) qs ks = true ->
  legal_input q k v m p qs ks -> seq_agree k v p ->
  exists r st,
    run_forward expf GeneralCls (self_general dim qs ks W b) (flat q) (flat k) (flat v) (option_map flat m)
    = Ok (enc_q r) st /\
    forall c j lo hi, valid (rev (shp r)) (c :: j) ->
      (exists t, t < nth p (tshape k) 0 /\ kept_at m (ins (p - 1) t j) = true) ->
      (forall t, t < nth p (tshape k) 0 -> kept_at m (ins (p - 1) t j) = true ->
                 (lo <= bget v (c :: ins (p - 1) t j) <= hi)%Q) ->
      (lo <= tat (rd 0%Q r) (c :: j) <= hi)%Q.
Proof.
  intros Hpos Hax Hfl Hleg Hagree.
  destruct (legal_attend expf (score (fun x => x) (General W b)) _ _ _ _ _ _ _ Hleg) as [out Hatt].
  destruct (forward_general_tie expf (fun x => x) W b dim qs ks q k v m p out Hax Hfl Hatt) as [st Hrun].
  exists (flat out), st. split; [exact Hrun|].
  intros c j lo hi Hv Hex Hb. rewrite read_flat by exact Hv.
  unfold flat in Hv. rewrite rshp_mat in Hv.
  exact (attention_in_kept_range expf _ q k v m p qs ks out Hpos Hatt Hagree c j lo hi Hv Hex Hb).
Qed.

(* ---- where the model rejects, the source raises ------------------------------------------------------------ *)
Lemma unsqueeze_query_raw (q k : tensor Q) dim p :
  axis_pos dim (List.length (tshape k)) = Some p -> S (List.length (tshape q)) = List.length (tshape k) ->
  unsqueeze (flat q) dim = Some (runsq p (mat q)).
Proof.
  intros Hax Hq. destruct (axis_pos_inv _ _ _ Hax) as [Hp [_ [Hw _]]]. unfold flat.
  rewrite (unsqueeze_runsq (mat q) dim (List.length (tshape k) - 1 - p)).
  - rewrite rank_mat. f_equal. f_equal. lia.
  - rewrite rank_mat, Hq. exact Hw.
  - rewrite rank_mat. lia.
Qed.

Section Rejects.
  Variables (expf : Q -> Q) (cls : score_class) (d : list (val * val)) (dim : Z) (qs ks : nat).
  Variables (q k v : tensor Q) (m : option (tensor bool)).
  Hypothesis Hd : dict_get d (VStr "dim") = Some (VInt dim).
  Hypothesis Hqs : dict_get d (VStr "query_size") = Some (VInt (Z.of_nat qs)).
  Hypothesis Hks : dict_get d (VStr "key_size") = Some (VInt (Z.of_nat ks)).

  Notation fwd := (run_forward expf cls (VDict d) (flat q) (flat k) (flat v) (option_map flat m)).

  (* query must have one fewer dimension than key *)
  Theorem forward_rejects_rank :
    S (List.length (tshape q)) <> List.length (tshape k) -> exists st, fwd = Exc value_error st.
  Proof.
    intros H. apply forward_run_exc. intros mt st. apply call_body_exc.
    apply check_input_rejects_rank. unfold flat. rewrite !shp_mat, !rev_length. exact H.
  Qed.

  (* dim outside [-rank + 1, rank - 2] (the model: axis_pos = None; -1 apart, which check_input does not test) *)
  Theorem forward_rejects_dim sq' sk' :
    S (List.length (tshape q)) = List.length (tshape k) -> List.length (tshape v) = List.length (tshape k) ->
    tshape q = qs :: sq' -> tshape k = ks :: sk' ->
    axis_pos dim (List.length (tshape k)) = None -> dim <> (-1)%Z ->
    exists st, fwd = Exc value_error st.
  Proof.
    intros Hrq Hrv Eq Ek Hax Hm1. apply forward_run_exc. intros mt st. apply call_body_exc.
    apply (check_input_rejects_dim expf d (flat q) (flat k) (flat v) mt dim qs ks sq' sk'); try assumption;
      unfold flat; rewrite ?rshp_mat, ?shp_mat, ?rev_length; try assumption.
    unfold axis_pos in Hax.
    destruct ((1 - Z.of_nat (List.length (tshape k)) <=? dim)%Z
              && (0 <=? (if (dim <? 0)%Z then (dim + Z.of_nat (List.length (tshape k)))%Z else dim))%Z
              && ((if (dim <? 0)%Z then (dim + Z.of_nat (List.length (tshape k)))%Z else dim)
                  <? Z.of_nat (List.length (tshape k)) - 1)%Z) eqn:B; [discriminate|].
    revert B. destruct (dim <? 0)%Z eqn:N; intros B; lia.
  Qed.

  (* the batch shapes of query.unsqueeze(dim) and key do not broadcast *)
  Theorem forward_rejects_bcast p sq' sk' :
    S (List.length (tshape q)) = List.length (tshape k) -> List.length (tshape v) = List.length (tshape k) ->
    tshape q = qs :: sq' -> tshape k = ks :: sk' ->
    axis_pos dim (List.length (tshape k)) = Some p ->
    bshape (tl (tshape (unsq p q))) (tl (tshape k)) = None ->
    exists st, fwd = Exc runtime_error st.
  Proof.
    intros Hrq Hrv Eq Ek Hax Hb. apply forward_run_exc. intros mt st. apply call_body_exc.
    destruct (axis_pos_inv _ _ _ Hax) as [Hp _].
    rewrite unsq_shape, Eq, Ek in Hb. replace p with (S (p - 1)) in Hb by lia. rewrite ins_S in Hb. cbn [tl] in Hb.
    apply (check_input_rejects_bcast expf d (flat q) (flat k) (flat v) mt dim qs ks sq' sk'
             (runsq p (mat q)) (ins (p - 1) 1 sq')); try assumption;
      unfold flat; rewrite ?rshp_mat, ?shp_mat, ?rev_length; try assumption.
    - apply (axis_pos_range _ _ _ Hax).
    - apply (unsqueeze_query_raw q k dim p Hax Hrq).
    - rewrite rshp_runsq, rshp_mat, Eq. replace p with (S (p - 1)) at 1 by lia. rewrite ins_S. reflexivity.
  Qed.
End Rejects.
