(* C12 — tie, list level: what the index arithmetic of `_write_hyp` (torch.nonzero of an equality mask, the last / first
   hit, Python slicing) computes IS PV.C12.Model.strip_hyp.  Lists only; no interpreter, no axioms. *)
From Coq Require Import ZArith List Bool Arith Lia ZifyBool.
From PV Require Import MiniTorch.OpsC12 MiniTorch.LemmasC12.
From PV Require C12.Model.
Import ListNotations.
Local Open Scope Z_scope.

(* the indices torch.nonzero(keys.eq(s)) lists *)
Definition hits (s : Z) (keys : list Z) : list Z :=
  nonzero_idx 0 (map (fun x => if x =? s then 1 else 0) keys).

(* hyp[sos_idx + 1:] with sos_idx the last hit, if any *)
Definition cut_sos {A} (sos : option Z) (keys : list Z) (l : list A) : list A :=
  match sos with
  | None => l
  | Some s => match hits s keys with
              | [] => l
              | i :: idx => skipn (Z.to_nat (last (i :: idx) 0 + 1)) l
              end
  end.

(* hyp[:eos_idx] with eos_idx the first hit, if any *)
Definition cut_eos {A} (eos : option Z) (keys : list Z) (l : list A) : list A :=
  match eos with
  | None => l
  | Some e => match hits e keys with
              | [] => l
              | j :: _ => firstn (Z.to_nat j) l
              end
  end.

Section Key.
  Context {A : Type} (key : A -> Z) (s : Z).
  Let f := fun x : Z => if x =? s then 1 else 0.

  Lemma before_first_idx : forall (l : list A) k,
    match nonzero_idx k (map f (map key l)) with
    | [] => Model.before_first key s l = l
    | i :: _ => k <= i /\ Model.before_first key s l = firstn (Z.to_nat (i - k)) l
    end.
  Proof.
    induction l as [|x t IH]; intros k; [reflexivity|].
    cbn [map nonzero_idx Model.before_first]. unfold f at 1.
    destruct (key x =? s) eqn:E.
    - cbn. split; [lia|]. now rewrite Z.sub_diag.
    - cbn. specialize (IH (k + 1)).
      destruct (nonzero_idx (k + 1) (map f (map key t))) as [|i idx].
      + now rewrite IH.
      + destruct IH as [Hk IH]. split; [lia|]. rewrite IH.
        replace (Z.to_nat (i - k)) with (S (Z.to_nat (i - (k + 1)))) by lia. reflexivity.
  Qed.

  Lemma last_cons2 : forall (a b : Z) l d, last (a :: b :: l) d = last (b :: l) d.
  Proof. reflexivity. Qed.

  Lemma after_last_idx : forall (l : list A) k,
    match nonzero_idx k (map f (map key l)) with
    | [] => Model.after_last key s l = None
    | i :: idx => k <= last (i :: idx) 0
                  /\ Model.after_last key s l = Some (skipn (Z.to_nat (last (i :: idx) 0 - k) + 1) l)
    end.
  Proof.
    induction l as [|x t IH]; intros k; [reflexivity|].
    cbn [map nonzero_idx Model.after_last]. unfold f at 1. specialize (IH (k + 1)).
    destruct (key x =? s) eqn:E; cbn [Z.eqb].
    - replace (1 =? 0) with false by reflexivity.
      destruct (nonzero_idx (k + 1) (map f (map key t))) as [|i idx].
      + rewrite IH. cbn [last]. split; [lia|]. now rewrite Z.sub_diag.
      + destruct IH as [Hk IH]. rewrite last_cons2. split; [lia|]. rewrite IH. f_equal.
        replace (Z.to_nat (last (i :: idx) 0 - k)) with (S (Z.to_nat (last (i :: idx) 0 - (k + 1)))) by lia. reflexivity.
    - replace (0 =? 0) with true by reflexivity.
      destruct (nonzero_idx (k + 1) (map f (map key t))) as [|i idx].
      + now rewrite IH.
      + destruct IH as [Hk IH]. split; [lia|]. rewrite IH. f_equal.
        replace (Z.to_nat (last (i :: idx) 0 - k)) with (S (Z.to_nat (last (i :: idx) 0 - (k + 1)))) by lia. reflexivity.
  Qed.
End Key.

Lemma hits_nonneg_last : forall s keys i idx, hits s keys = i :: idx -> 0 <= last (i :: idx) 0.
Proof.
  intros s keys i idx H. pose proof (after_last_idx (fun x : Z => x) s keys 0) as P. cbv zeta in P.
  rewrite map_id in P. unfold hits in H. rewrite H in P. now destruct P.
Qed.

Lemma hits_nonneg_first : forall s keys i idx, hits s keys = i :: idx -> 0 <= i.
Proof.
  intros s keys i idx H. pose proof (before_first_idx (fun x : Z => x) s keys 0) as P. cbv zeta in P.
  rewrite map_id in P. unfold hits in H. rewrite H in P. now destruct P.
Qed.

(* the two cuts, one after the other, are the model's strip_hyp *)
Theorem cuts_are_strip : forall {A} (key : A -> Z) sos eos (l : list A),
  cut_eos eos (map key (cut_sos sos (map key l) l)) (cut_sos sos (map key l) l) = Model.strip_hyp key sos eos l.
Proof.
  intros A key sos eos l. unfold Model.strip_hyp.
  assert (E1 : cut_sos sos (map key l) l
               = match sos with
                 | Some s => match Model.after_last key s l with Some r => r | None => l end
                 | None => l
                 end).
  { destruct sos as [s|]; [|reflexivity]. unfold cut_sos, hits.
    pose proof (after_last_idx key s l 0) as P. cbv zeta in P.
    destruct (nonzero_idx 0 _) as [|i idx].
    - now rewrite P.
    - destruct P as [Hk P]. rewrite P. f_equal. rewrite Z.sub_0_r. lia. }
  rewrite E1. set (l1 := match sos with Some s => _ | None => l end).
  destruct eos as [e|]; [|reflexivity]. unfold cut_eos, hits.
  pose proof (before_first_idx key e l1 0) as P. cbv zeta in P.
  destruct (nonzero_idx 0 _) as [|j idx].
  - now rewrite P.
  - destruct P as [Hk P]. rewrite P. now rewrite Z.sub_0_r.
Qed.
