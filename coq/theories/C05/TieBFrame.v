(* C05, second tie, part 3: the loop body's program [TieBRun.frame_prog] (= the interpreted body of
   `for t in range(len_max):`, TieBRun.frame_is_prog) evaluated on the tensors that encode a beam of the model, for a
   module that does NOT fuse a language model (`self.lm is None or not self.beta`: CTCPrefixSearch(width), or beta = 0):
   the carried variables afterwards encode Model.sstep's beam - the plain path (t < len_min), the masked path with the
   element still running (len_min <= t < len) and the frozen element (len <= t), with the first widening from one slot
   to `width`.  ONE batch element (N = 1).  The fused configurations are tied to the tensor program only (part 1). *)
From Coq Require Import ZArith QArith Qcanon List String Bool Arith Lia ZifyBool ZifyNat.
From PV Require Import MiniPy.Syntax MiniPy.Interp MiniTorch.Ops MiniTorch.OpsC05 MiniTorch.LemmasC05 MiniTorch.OpsC05B
  MiniTorch.LemmasC05B Gen.C05Src Gen.C05BSrc.
From PV Require Import C05.Model C05.ModelB C05.ProofsModel C05.ProofsSearch C05.SrcRun C05.SrcRunB C05.TieRun C05.Tie
  C05.TieBRun.
Import ListNotations.
Local Open Scope nat_scope.

#[local] Ltac Zify.zify_post_hook ::= Z.to_euclidean_division_equations.

Tactic Notation "bstep" uconstr(L) := rewrite L; cbn [bo].

(* the carried variables of a beam, as tensors *)
Definition carT_of (bm : beam) (pv : val) : carT :=
  mkCarT (Z.of_nat (Kp bm)) (enc_nb bm) (enc_bb bm) (enc_y bm) (enc_last bm) (enc_lens bm) (enc_isp bm) pv.

Lemma carT_eq a a' b b' c c' d d' e e' f f' g g' h h' :
  a = a' -> b = b' -> c = c' -> d = d' -> e = e' -> f = f' -> g = g' -> h = h' ->
  Some (mkCarT a b c d e f g h) = Some (mkCarT a' b' c' d' e' f' g' h').
Proof. now intros -> -> -> -> -> -> -> ->. Qed.

Lemma enc_carT_of bm pv : enc_carT (carT_of bm pv) = enc_car bm pv. Proof. reflexivity. Qed.

Section Frame.
Variables (V width : nat) (has_lm : bool) (beta : Q) (vm : bool) (lmS : list nat -> list Qc).
Variable lm : list nat -> list Qc.
Variables (len_min len : nat) (fs : list (list Qc * Qc)) (t : nat) (bm : beam) (choice : list nat) (pv : val).
Hypothesis Hfus : fused beta has_lm = false.
Hypothesis Vpos : 1 <= V.
Hypothesis Wpos : 1 <= width.
Hypothesis W : wf bm.
Hypothesis HK : Kp bm = 1 \/ Kp bm = width.
Hypothesis Clen : List.length choice = Kout V bm width.
Hypothesis Crange : forall i, List.In i choice -> i < ncand V bm.
Hypothesis Ht : t < List.length fs.
Hypothesis Hmin : len_min <= len.

Notation K' := (Kp bm).
Notation S := (b_t bm).
Let nonext := fst (nth t fs ([], 0%Qc)).
Let blank := snd (nth t fs ([], 0%Qc)).
Let fr := mk_frame NoLM lm nonext blank bm.
Let nx := fst (advance V fr bm width choice).
Let frozen := Nat.leb len t.

Lemma Kp_pos : 1 <= K'. Proof. apply (wf_pos bm W). Qed.
Lemma nxK : Kp nx = width. Proof. apply (nx_Kp V width fr bm choice Vpos Wpos Clen). Qed.
Lemma nxT : b_t nx = S + 1. Proof. unfold nx. rewrite (nx_t V width fr bm choice). lia. Qed.
Lemma expK : exp_ok K' width. Proof. unfold exp_ok. destruct HK; auto. Qed.

(* the frame's tensors *)
Lemma sel_nonext : select0 NegInf (enc_frames_nonext V fs) (Z.of_nat t) = Some (enc_nonext V fr).
Proof.
  unfold enc_frames_nonext. change (tab [List.length fs; 1; V] _)
    with (T3 (List.length fs) 1 V (fun s _ v => Fin (nth v (fst (nth s fs ([], 0%Qc))) 0%Qc))).
  rewrite select0_T3 by exact Ht. reflexivity.
Qed.
Lemma sel_blank : select0 NegInf (enc_frames_blank fs) (Z.of_nat t) = Some (enc_blank fr).
Proof.
  unfold enc_frames_blank. change (tab [List.length fs; 1] _)
    with (T2 (List.length fs) 1 (fun s _ => Fin (snd (nth s fs ([], 0%Qc))))).
  rewrite select0_T2 by exact Ht. reflexivity.
Qed.

Lemma fuse_nolm St :
  prog_fuse lmS beta V V has_lm vm 1 V (Z.of_nat K') (enc_y bm) (enc_lens bm) St (enc_nonext V fr) (enc_blank fr)
  = Some (enc_ext V fr bm, []).
Proof.
  unfold prog_fuse. rewrite Hfus.
  change (enc_nonext V fr) with (T2 1 V (fun _ v => Fin (nth v nonext 0%Qc))).
  bstep unsqueeze_T2_1. bstep expand_T3_mid. do 2 f_equal.
  change (enc_ext V fr bm) with (T3 1 K' V (fun _ k v => Fin (extp fr k v))).
  apply T3_ext. intros i k v _ Hk _. unfold extp, fr, mk_frame. cbn [f_ext].
  rewrite nth_map_seq by exact Hk. reflexivity.
Qed.

(* the call of the step function: the first tie *)
Lemma adv_call_model :
  adv_call (sel_given choice)
    [VTuple [enc_f (enc_ext V fr bm); enc_f (enc_nonext V fr); enc_f (enc_blank fr)]; VInt (Z.of_nat width);
     VTuple [enc_f (enc_nb bm); enc_f (enc_bb bm)]; enc_i (enc_y bm); enc_i (enc_last bm); enc_i (enc_lens bm);
     enc_b (enc_isp bm)]
  = Some (mkO7 (enc_y nx) (enc_last nx) (enc_lens nx) (enc_nb nx) (enc_bb nx) (enc_isp nx)
               (tab [1; List.length (b_nb nx)] (fun ix => Z.of_nat (nth (at_ ix 1) (fst (snd (advance V fr bm width choice))) 0)))
               (tab [1; List.length (b_nb nx)] (fun ix => nth (at_ ix 1) (snd (snd (advance V fr bm width choice))) false))).
Proof.
  unfold adv_call, call_vars.
  destruct (advance_tie_sel (sel_given choice) V width fr bm choice eq_refl Vpos Wpos W Clen Crange) as [st Hst].
  unfold advance_vars, vars_of in Hst. rewrite Hst. unfold enc_out, nx.
  destruct (advance V fr bm width choice) as [nx0 [src non]]. cbn [fst snd]. unfold dec_outs7.
  now rewrite !dec_enc_i, !dec_enc_f, !dec_enc_b.
Qed.

(* ---- the beam after the frame --------------------------------------------------------------------------- *)
Let bm' := sstep V width NoLM lm frozen nonext blank choice bm.

Lemma widen_nth {A} (l : list A) d k : k < width -> List.length l = K' ->
  nth k (widen K' width l d) d = nth (bidx K' k) l d.
Proof.
  intros Hk Hl. unfold widen. destruct HK as [E|E].
  - rewrite E. destruct (Nat.ltb_spec 1 width).
    + rewrite nth_repeat_if. replace (k <? width) with true by lia. reflexivity.
    + assert (width = 1) by lia. subst width. replace k with 0 by lia. reflexivity.
  - rewrite E. replace (width <? width) with false by lia. rewrite bidx_lt by lia. reflexivity.
Qed.
Lemma widen_len {A} (l : list A) d : List.length l = K' -> List.length (widen K' width l d) = width.
Proof.
  intros Hl. unfold widen. destruct (Nat.ltb_spec K' width); [apply repeat_length|]. destruct HK; lia.
Qed.
Lemma pad_len l : List.length l = K' -> List.length (pad_inf K' width l) = width.
Proof.
  intros Hl. unfold pad_inf. destruct (Nat.ltb_spec K' width); [rewrite app_length, repeat_length; lia|]. destruct HK; lia.
Qed.
Lemma pad_nth l k : List.length l = K' ->
  nth k (pad_inf K' width l) NegInf = if k <? K' then nth k l NegInf else NegInf.
Proof.
  intros Hl. unfold pad_inf. destruct (Nat.ltb_spec K' width).
  - destruct (Nat.ltb_spec k K').
    + now rewrite app_nth1 by lia.
    + rewrite app_nth2 by lia. rewrite nth_repeat_if. destruct (_ <? _); reflexivity.
  - destruct (Nat.ltb_spec k K'); [reflexivity|]. apply nth_overflow. lia.
Qed.

Lemma frame_nolm St :
  frame_prog (sel_given choice) lmS beta V V has_lm vm width 1 V (Z.of_nat t) (Z.of_nat len_min) (enc_len len)
    (enc_frames_nonext V fs) (enc_frames_blank fs) (enc_pad width) (carT_of bm pv) St
  = Some (carT_of bm' pv).
Proof.
  unfold frame_prog, carT_of. cbn [k_pw k_nb k_b k_y k_last k_lens k_isp k_prev]. rewrite Hfus.
  rewrite sel_nonext, sel_blank.
  assert (Evm : (if (Z.of_nat t <? Z.of_nat len_min)%Z then Some None
                 else option_map Some (unsqueeze false (ilt_rs (Z.of_nat t) (enc_len len)) 1))
                = Some (if t <? len_min then None else Some (T2 1 1 (fun _ _ => t <? len)))).
  { destruct (Nat.ltb_spec t len_min).
    - now replace (Z.of_nat t <? Z.of_nat len_min)%Z with true by lia.
    - replace (Z.of_nat t <? Z.of_nat len_min)%Z with false by lia.
      change (enc_len len) with (T1 1 (fun _ => Z.of_nat len)). unfold ilt_rs. rewrite tmap_T1.
      rewrite unsqueeze_T1_1. cbn [option_map]. do 2 f_equal. apply T2_ext. intros. lia. }
  rewrite Evm. cbn [bo]. bstep fuse_nolm. cbn [fst snd]. bstep adv_call_model.
  cbn [o7_y o7_last o7_lens o7_nb o7_b o7_isp o7_src o7_ne].
  pose proof nxK as EK. pose proof nxT as ET. pose proof Kp_pos as HKp. pose proof expK as HE.
  unfold bm', sstep. fold fr. fold nx. unfold frozen.
  destruct (Nat.ltb_spec t len_min) as [Hlt|Hge].
  - (* the plain path *)
    replace (len <=? t) with false by lia. unfold prog_mask. cbn [bo fst snd]. rewrite <- EK. reflexivity.
  - unfold prog_mask. cbn [k_pw k_nb k_b k_y k_last k_lens k_isp k_prev o7_y o7_last o7_lens o7_nb o7_b o7_isp o7_src o7_ne].
    change (enc_y bm) with (T3 S 1 K' (fun s _ k => Z.of_nat (ycell bm k s))).
    bstep (expand_keep_T3_last 0%Z S 1 K' width _ HE).
    change (enc_pad width) with (T3 1 1 width (fun _ _ _ => 0%Z)). bstep cat2_T3_0.
    bstep unsqueeze_T2_0.
    change (enc_y nx) with (T3 (b_t nx) 1 (Kp nx) (fun s _ k => Z.of_nat (ycell nx k s))). rewrite ET, EK.
    bstep where_b_T3_mask.
    change (enc_lens nx) with (T2 1 (Kp nx) (fun _ k => Z.of_nat (lens nx k))). rewrite EK.
    change (enc_lens bm) with (T2 1 K' (fun _ k => Z.of_nat (lens bm k))).
    bstep (where_b_T2_mask 0%Z width K' (t <? len) _ _ HE).
    change (enc_nb nx) with (T2 1 (Kp nx) (fun _ k => nth k (b_nb nx) NegInf)).
    change (enc_bb nx) with (T2 1 (Kp nx) (fun _ k => nth k (b_b nx) NegInf)). rewrite EK.
    change (enc_nb bm) with (T2 1 K' (fun _ k => nth k (b_nb bm) NegInf)).
    change (enc_bb bm) with (T2 1 K' (fun _ k => nth k (b_b bm) NegInf)).
    assert (Enbb : (if (Z.of_nat K' <? Z.of_nat width)%Z
                    then if (Z.of_nat K' =? 1)%Z
                         then do ninf <- full [Z.of_nat 1; (Z.of_nat width - Z.of_nat K')%Z] NegInf;
                              do a <- cat2 NegInf (T2 1 K' (fun _ k => nth k (b_nb bm) NegInf)) ninf 1;
                              do b <- cat2 NegInf (T2 1 K' (fun _ k => nth k (b_b bm) NegInf)) ninf 1; Some (a, b)
                         else None
                    else Some (T2 1 K' (fun _ k => nth k (b_nb bm) NegInf), T2 1 K' (fun _ k => nth k (b_b bm) NegInf)))
                   = Some (T2 1 width (fun _ k => if k <? K' then nth k (b_nb bm) NegInf else NegInf),
                           T2 1 width (fun _ k => if k <? K' then nth k (b_b bm) NegInf else NegInf))).
    { destruct HK as [E|E].
      - destruct (Nat.ltb_spec K' width).
        + replace (Z.of_nat K' <? Z.of_nat width)%Z with true by lia. replace (Z.of_nat K' =? 1)%Z with true by lia.
          replace (Z.of_nat width - Z.of_nat K')%Z with (Z.of_nat (width - K')) by lia.
          bstep full_T2. bstep cat2_T2_1. bstep cat2_T2_1. replace (K' + (width - K')) with width by lia. reflexivity.
        + replace (Z.of_nat K' <? Z.of_nat width)%Z with false by lia. assert (width = K') by lia.
          do 2 f_equal; rewrite H0; apply T2_ext; intros i k _ Hk; now replace (k <? K') with true by lia.
      - replace (Z.of_nat K' <? Z.of_nat width)%Z with false by lia.
        do 2 f_equal; rewrite <- E; apply T2_ext; intros i k _ Hk; now replace (k <? K') with true by lia. }
    rewrite Enbb. cbn [bo fst snd].
    bstep (where_b_T2_mask NegInf width width (t <? len)). 2:{ left; reflexivity. }
    bstep (where_b_T2_mask NegInf width width (t <? len)). 2:{ left; reflexivity. }
    (* the two cases: still running, frozen *)
    destruct (Nat.ltb_spec t len) as [Hrun|Hfro].
    + replace (len <=? t) with false by lia. cbn [fst snd]. rewrite <- EK, <- ET. reflexivity.
    + replace (len <=? t) with true by lia.
      cbn [fst snd]. unfold Kp. cbn [b_nb b_b b_t b_y b_last b_lens b_isp].
      assert (Lnb : List.length (pad_inf (List.length (b_nb bm)) width (b_nb bm)) = width) by (apply pad_len; reflexivity).
      apply carT_eq.
      * now rewrite Lnb.
      * unfold enc_nb. cbn [b_nb]. rewrite Lnb. apply tab2_ext. intros i k _ Hk. cbn [at_ nth].
        rewrite pad_nth by reflexivity. rewrite (bidx_lt width k Hk). reflexivity.
      * unfold enc_bb. cbn [b_nb b_b]. rewrite Lnb. apply tab2_ext. intros i k _ Hk. cbn [at_ nth].
        rewrite pad_nth by (apply (wf_b bm W)). rewrite (bidx_lt width k Hk). reflexivity.
      * unfold enc_y. cbn [b_nb b_t b_y]. rewrite Lnb. try rewrite ET. try replace (Datatypes.S (b_t bm)) with (b_t bm + 1) by lia. apply tab3_ext. intros s i k Hs _ Hk. cbn [at_ nth].
        rewrite (nth_indep _ [] ((fun c => c ++ [0]) [])) by (rewrite map_length, widen_len; [exact Hk|apply (wf_y bm W)]).
        rewrite (map_nth (fun c => c ++ [0])). rewrite widen_nth by (try exact Hk; apply (wf_y bm W)).
        assert (Hb : bidx K' k < K') by (destruct HK as [E|E]; [rewrite E; cbn; lia|rewrite bidx_lt by lia; lia]).
        pose proof (wf_col bm W _ Hb) as Hc. unfold col in Hc. unfold ycell. destruct (Nat.ltb_spec s S).
        -- rewrite app_nth1 by lia. reflexivity.
        -- rewrite app_nth2 by lia. rewrite Hc. replace (s - S) with 0 by lia. reflexivity.
      * unfold enc_last. cbn [b_nb b_last]. rewrite Lnb. fold (Kp nx). rewrite EK. reflexivity.
      * unfold enc_lens. cbn [b_nb b_lens]. rewrite Lnb. apply tab2_ext. intros i k _ Hk. cbn [at_ nth].
        rewrite widen_nth by (try exact Hk; apply (wf_lens bm W)). reflexivity.
      * unfold enc_isp. cbn [b_nb b_isp]. rewrite Lnb. fold (Kp nx). rewrite EK. reflexivity.
      * reflexivity.
Qed.
End Frame.

(* ---- the tie of one frame (no fused language model) --------------------------------------------------------- *)
Theorem frame_tie_nolm : forall V width has_lm beta vm lmS lm len_min len fs t bm choice pv,
  fused beta has_lm = false -> 1 <= V -> 1 <= width -> wf bm -> (Kp bm = 1 \/ Kp bm = width) ->
  List.length choice = Kout V bm width -> (forall i, List.In i choice -> i < ncand V bm) ->
  t < List.length fs -> len_min <= len ->
  src_frame V width has_lm beta vm lmS len_min len fs choice t (enc_car bm pv)
  = Some (enc_car (sstep V width NoLM lm (Nat.leb len t) (fst (nth t fs ([], 0%Qc))) (snd (nth t fs ([], 0%Qc))) choice bm) pv).
Proof.
  intros V width has_lm beta vm lmS lm len_min len fs t bm choice pv Hf Vpos Wpos W HK Clen Crange Ht Hmin.
  unfold src_frame, run_frame, the_self.
  pose proof (frame_is_prog (sel_given choice) lmS beta V V has_lm vm width 1 V (Kp bm) (Z.of_nat t) (Z.of_nat len_min)
                (enc_len len) (enc_frames_nonext V fs) (enc_frames_blank fs) (enc_pad width) (enc_nb bm) (enc_bb bm)
                (enc_y bm) (enc_last bm) (enc_lens bm) (enc_isp bm) [] pv) as Hsim.
  cbv zeta in Hsim. rewrite Hf in Hsim.
  change (mkCarT (Z.of_nat (Kp bm)) (enc_nb bm) (enc_bb bm) (enc_y bm) (enc_last bm) (enc_lens bm) (enc_isp bm) pv)
    with (carT_of bm pv) in Hsim.
  rewrite (frame_nolm V width has_lm beta vm lmS lm len_min len fs t bm choice pv Hf Vpos Wpos W HK Clen Crange Ht Hmin []) in Hsim.
  rewrite enc_carT_of in Hsim. unfold vnat. unfold simF in Hsim.
  destruct (Interp.run _ fwd_frame _) as [v st|n st|w]; try contradiction.
  destruct Hsim as [-> Hr]. rewrite Hr. now rewrite enc_carT_of.
Qed.

(* ---- the beam stays well-formed and has `width` slots after any frame ------------------------------------------- *)
Lemma sstep_wf : forall V width fus lm frozen nonext blank choice bm,
  1 <= V -> 1 <= width -> wf bm -> (Kp bm = 1 \/ Kp bm = width) ->
  List.length choice = Kout V bm width -> (forall i, List.In i choice -> i < ncand V bm) ->
  wf (sstep V width fus lm frozen nonext blank choice bm) /\ Kp (sstep V width fus lm frozen nonext blank choice bm) = width.
Proof.
  intros V width fus lm frozen nonext blank choice bm Vpos Wpos W HK Clen Crange. unfold sstep.
  set (fr := mk_frame fus lm nonext blank bm). set (nx := fst (advance V fr bm width choice)).
  pose proof (nx_wf V width fr bm choice Vpos Wpos W Clen Crange) as Wn. fold nx in Wn.
  pose proof (nx_Kp V width fr bm choice Vpos Wpos Clen) as Kn. fold nx in Kn.
  destruct frozen; [|split; assumption].
  fold (Kp bm).
  assert (Lw : forall {A} (l : list A) d, List.length l = Kp bm -> List.length (widen (Kp bm) width l d) = width).
  { intros A l d Hl. unfold widen. destruct (Nat.ltb_spec (Kp bm) width); [apply repeat_length|]. destruct HK; lia. }
  assert (Lp : forall l, List.length l = Kp bm -> List.length (pad_inf (Kp bm) width l) = width).
  { intros l Hl. unfold pad_inf. destruct (Nat.ltb_spec (Kp bm) width); [rewrite app_length, repeat_length; lia|]. destruct HK; lia. }
  assert (Nw : forall {A} (l : list A) d k, k < width -> List.length l = Kp bm ->
               exists j, j < Kp bm /\ nth k (widen (Kp bm) width l d) d = nth j l d).
  { intros A l d k Hk Hl. unfold widen. pose proof (wf_pos bm W). destruct (Nat.ltb_spec (Kp bm) width).
    - exists 0. split; [lia|]. rewrite nth_repeat_if. now replace (k <? width) with true by lia.
    - exists k. split; [destruct HK; lia|reflexivity]. }
  assert (KP : Kp (mkBeam (b_t nx) (map (fun c => c ++ [0]) (widen (Kp bm) width (b_y bm) [])) (b_last nx)
                     (widen (Kp bm) width (b_lens bm) 0) (pad_inf (Kp bm) width (b_nb bm))
                     (pad_inf (Kp bm) width (b_b bm)) (b_isp nx)) = width).
  { unfold Kp. cbn [b_nb]. apply Lp. reflexivity. }
  split; [|exact KP]. constructor; rewrite ?KP; cbn [b_b b_y b_last b_lens b_isp b_t].
  - exact Wpos.
  - apply Lp. apply (wf_b bm W).
  - rewrite map_length. apply Lw. apply (wf_y bm W).
  - rewrite (wf_last nx Wn). exact Kn.
  - apply Lw. apply (wf_lens bm W).
  - rewrite (wf_isp nx Wn). exact Kn.
  - intros k Hk. unfold col. cbn [b_y].
    rewrite (nth_indep _ [] ((fun c => c ++ [0]) [])) by (rewrite map_length, Lw; [exact Hk|apply (wf_y bm W)]).
    rewrite (map_nth (fun c => c ++ [0])). destruct (Nw _ (b_y bm) [] k Hk (wf_y bm W)) as [j [Hj ->]].
    rewrite app_length. pose proof (wf_col bm W j Hj) as Hc. unfold col in Hc. rewrite Hc.
    unfold nx. rewrite (nx_t V width fr bm choice). cbn [List.length]. lia.
  - intros k. unfold lens. cbn [b_lens]. unfold nx. rewrite (nx_t V width fr bm choice).
    destruct (Nat.ltb_spec k width) as [Hk|Hk].
    + destruct (Nw _ (b_lens bm) 0 k Hk (wf_lens bm W)) as [j [Hj ->]]. pose proof (wf_len bm W j). unfold lens in H. lia.
    + rewrite nth_overflow; [lia|]. rewrite Lw; [exact Hk|apply (wf_lens bm W)].
Qed.

(* ---- all frames: the hand-written glue [SrcRunB.src_frames] around the interpreted body -------------------------- *)
Lemma skipn_nth {A} (l : list A) t d : t < List.length l -> skipn t l = nth t l d :: skipn (Datatypes.S t) l.
Proof.
  revert t. induction l as [|x l IH]; intros t Ht; cbn [List.length] in Ht; [lia|].
  destruct t; [reflexivity|]. cbn [skipn nth]. apply IH. lia.
Qed.

Lemma src_frames_nolm : forall V width has_lm beta vm lmS lm len_min len fs pv,
  fused beta has_lm = false -> 1 <= V -> 1 <= width -> len_min <= len ->
  forall n t choices bm, t + n = List.length fs -> wf bm -> (Kp bm = 1 \/ Kp bm = width) ->
  choices_wf V width NoLM lm len t (skipn t fs) choices bm ->
  src_frames V width has_lm beta vm lmS len_min len fs n t choices (enc_car bm pv)
  = Some (enc_car (sloop V width NoLM lm len t (skipn t fs) choices bm) pv)
  /\ wf (sloop V width NoLM lm len t (skipn t fs) choices bm).
Proof.
  intros V width has_lm beta vm lmS lm len_min len fs pv Hf Vpos Wpos Hmin.
  induction n as [|n IH]; intros t choices bm Hn W HK Hc.
  - rewrite skipn_all2 by lia. split; [reflexivity|exact W].
  - assert (Ht : t < List.length fs) by lia.
    rewrite (skipn_nth fs t ([], 0%Qc) Ht) in Hc |- *. destruct (nth t fs ([], 0%Qc)) as [nonext blank] eqn:En.
    cbn [choices_wf] in Hc. destruct Hc as [[Clen Crange] Hc']. cbn [src_frames sloop].
    rewrite (frame_tie_nolm V width has_lm beta vm lmS lm len_min len fs t bm (hd [] choices) pv Hf Vpos Wpos W HK Clen Crange Ht Hmin).
    rewrite En. cbn [fst snd].
    destruct (sstep_wf V width NoLM lm (len <=? t) nonext blank (hd [] choices) bm Vpos Wpos W HK Clen Crange) as [W' K'].
    apply IH; [lia|exact W'|right; exact K'|exact Hc'].
Qed.
