(* C02 - the `for hyp_idx` loop of `_string_matching` (PV.Gen.C02Src.er_loop) on the path the uniform-cost shortcut
   takes: `if ins_cost == del_cost == sub_cost > 0` resets the costs to 1.0 and CLEARS return_mistakes, so the loop
   runs its cost-only branch (`torch.min`, the fold through del_mat) - the configuration C01 is about.  Same
   statement and script as C01.TieLoop (body = C01.Model.step_row in every column), re-run here on this unit's term
   with ext02, so that the C02 tie depends on no lemma about another unit's translated term.  The arithmetic
   (C01.TieMath.step_entry_src, iter_rows) is C01's, imported. *)
From Coq Require Import ZArith QArith List String Bool Arith Lia ZifyBool ZifyNat.
From PV Require Import MiniPy.Syntax MiniPy.Interp MiniPy.Lemmas MiniTorch.Ops MiniTorch.Lemmas MiniTorch.OpsC07 MiniTorch.LemmasC07
  MiniTorch.OpsC01 MiniTorch.LemmasC01 MiniTorch.OpsC02 MiniTorch.LemmasC02.
From PV Require Import Gen.C02Src C01.SrcRun C01.TieLib C01.TieMath C02.SrcRun C02.TieLib C02.TieMath C02.TieInner C02.TieLoop.
From PV Require C01.Model C01.Proofs C02.Model.
Import ListNotations.
Local Open Scope string_scope.

#[local] Arguments dec01 : simpl never.
#[local] Arguments enc_b : simpl never.
#[local] Arguments enc_i : simpl never.
#[local] Arguments enc_x : simpl never.
#[local] Arguments tab2 : simpl never.
#[local] Arguments tab3 : simpl never.
#[local] Arguments qz : simpl never.
#[local] Arguments Z.add : simpl never.
#[local] Arguments Z.sub : simpl never.
#[local] Arguments Z.of_nat : simpl never.
#[local] Arguments select0 : simpl never.
#[local] Arguments set_select0 : simpl never.
#[local] Arguments slice0 : simpl never.
#[local] Arguments set_slice0 : simpl never.
#[local] Arguments broadcast : simpl never.
#[local] Arguments where_f : simpl never.
#[local] Arguments min_dim : simpl never.
#[local] Arguments gather0 : simpl never.
#[local] Arguments unsqueeze : simpl never.
#[local] Arguments squeeze_dim : simpl never.
#[local] Arguments expand2 : simpl never.
#[local] Arguments triu_f : simpl never.
#[local] Arguments transpose2 : simpl never.
#[local] Arguments arange_f : simpl never.
#[local] Arguments full : simpl never.
#[local] Arguments fadd : simpl never.
#[local] Arguments fsub : simpl never.
#[local] Arguments fmul : simpl never.
#[local] Arguments fdiv : simpl never.
#[local] Arguments fmin : simpl never.
#[local] Arguments fge : simpl never.
#[local] Arguments b2f : simpl never.
#[local] Arguments z2f : simpl never.
#[local] Arguments ext01 : simpl never.
#[local] Arguments ext02 : simpl never.
#[local] Arguments zf : simpl never.
#[local] Arguments ofx : simpl never.
#[local] Arguments argmin_3 : simpl never.
#[local] Arguments seq : simpl never.
#[local] Arguments fmin_list : simpl never.
#[local] Arguments zrange : simpl never.
#[local] Arguments sw : simpl never.
#[local] Arguments swp : simpl never.

(* what the loop reads and preserves on this path (C01.TieLoop.body_pre) *)
Definition body_preU (s : positive) (ci cd cs : Z) (R N H : nat) (rf hf : nat -> nat -> Z) (hl : nat -> nat)
  (vrl vmult vnorm vwarn : val) (lf : nat -> nat -> Z) (st : state) : Prop :=
  lookup "exclude_last" (vars st) = Some (VBool false) /\
  lookup "return_mistakes" (vars st) = Some (VBool false) /\
  lookup "return_mask" (vars st) = Some (VBool false) /\
  lookup "return_prf_dsts" (vars st) = Some (VBool false) /\
  lookup "hyp_lens" (vars st) = Some (enc_i (mkTn [N] (map (fun n => Z.of_nat (hl n)) (seq 0 N)))) /\
  lookup "ref" (vars st) = Some (enc_i (mkTn [R; N] (tab2 R N rf))) /\
  lookup "hyp" (vars st) = Some (enc_i (mkTn [H; N] (tab2 H N hf))) /\
  lookup "ins_cost" (vars st) = Some (VQ (qz s ci)) /\
  lookup "sub_cost" (vars st) = Some (VQ (qz s cs)) /\
  lookup "del_mat" (vars st) =
    Some (enc_x (mkTn [S R; S R; 1%nat] (tab2 (S R) (S R) (fun i j => ofx s (C01.Model.del_entry cd i j))))) /\
  lookup "ref_lens" (vars st) = Some vrl /\
  lookup "mult" (vars st) = Some vmult /\
  lookup "norm" (vars st) = Some vnorm /\
  lookup "warn" (vars st) = Some vwarn /\
  lookup "row" (vars st) = Some (enc_x (mkTn [S R; N] (tab2 (S R) N (fun i n => zf s (lf i n))))).

Lemma body_preU_ext s ci cd cs R N H rf hf hl vrl vmult vnorm vwarn lf lf' st :
  (forall i n, (i < S R)%nat -> (n < N)%nat -> lf i n = lf' i n) ->
  body_preU s ci cd cs R N H rf hf hl vrl vmult vnorm vwarn lf st ->
  body_preU s ci cd cs R N H rf hf hl vrl vmult vnorm vwarn lf' st.
Proof.
  intros E P. unfold body_preU in *.
  destruct P as (H1 & H2 & H3 & H4 & H5 & H6 & H7 & H8 & H9 & H10 & H11 & H12 & H13 & H14 & P).
  repeat (split; [assumption|]).
  rewrite P. do 3 f_equal. apply tab2_ext. intros i n Hi Hn. now rewrite E.
Qed.

Ltac body_scriptU k Hk :=
    push_state;
    asg; asg; asg;
    assign ltac:(ev; replace (Z.of_nat k - 1)%Z with (Z.of_nat (k - 1)) by lia; rewrite select0_mat by lia; evn; reflexivity);
    asg; asg;
    ifstep; rewrite exec_seq_assoc;
    setitem; rewrite !exec_seq_assoc;
    assign ltac:(evn; rewrite min_dim_3 by lia; reflexivity);
    rewrite !exec_seq_assoc; asg; asg; asg; ifstep; ifstep;
    apply runs_to_ok; unfold body_preU; repeat (split; [assumption|]);
    match goal with L : lookup "row" _ = _ |- _ => rewrite L end;
    do 3 f_equal; apply tab2_ext; intros ? ? ? ?;
    replace (Z.of_nat k - 1)%Z with (Z.of_nat (k - 1)) by lia;
    match goal with
    | Hi0 : (?i0 < S ?R0)%nat
      |- context [zf ?s0 (nth ?i0 (C01.Model.step_row ?ci0 ?cd0 ?cs0 (colf ?R0 ?rf0 ?n0) (colf ?H0 ?hf0 ?n0) (?hl0 ?n0) false k
                                    (colf _ ?lf0 ?n0)) _)] =>
        apply (step_entry_src ci0 cd0 cs0 R0 H0 (fun j => rf0 j n0) (fun t => hf0 t n0) (fun i1 => lf0 i1 n0) (hl0 n0) k Hk s0 i0 Hi0)
    end.

Section BodyU.
  Variables (s : positive) (ci cd cs : Z) (R N H : nat) (rf hf : nat -> nat -> Z) (hl : nat -> nat).
  Variables (vrl vmult vnorm vwarn : val).

  Notation pre := (body_preU s ci cd cs R N H rf hf hl vrl vmult vnorm vwarn).

  Definition step_colU (k : nat) (lf : nat -> nat -> Z) (n : nat) : list Z :=
    C01.Model.step_row ci cd cs (colf R rf n) (colf H hf n) (hl n) false k (colf (S R) lf n).

  Theorem body_runU : forall st k lf, (1 <= k <= H)%nat -> pre lf st ->
    runs_to (pre (fun i n => nth i (step_colU k lf n) 0%Z))
            (exec ext02 loop_body (set_var "hyp_idx" (VInt (Z.of_nat k)) st)).
  Proof.
    intros st k lf Hk (Hexcl & Hmist & Hmask & Hprf & Hhl & Href & Hhyp & Hci & Hcs & Hdm & Hrl & Hmu & Hno & Hwa & Hrow).
    unfold loop_body, er_loop. cbv iota. unfold step_colU. body_scriptU k Hk.
  Qed.

  Definition iter_colU (m a : nat) (lf : nat -> nat -> Z) (n : nat) : list Z :=
    iter_rows ci cd cs (colf R rf n) (colf H hf n) (hl n) m (S a) (colf (S R) lf n).

  Lemma step_colU_length k lf n : (1 <= k <= H)%nat -> List.length (step_colU k lf n) = S R.
  Proof. intros Hk. unfold step_colU, colf. now apply step_row_length. Qed.

  Section AnyBody.
    Variable bd : stmt.
    Hypothesis Hbd : forall st k lf, (1 <= k <= H)%nat -> pre lf st ->
      runs_to (pre (fun i n => nth i (step_colU k lf n) 0%Z))
              (exec ext02 bd (set_var "hyp_idx" (VInt (Z.of_nat k)) st)).

    Lemma loop_run_genU : forall m a lf st, (a + m <= H)%nat -> pre lf st ->
      runs_to (pre (fun i n => nth i (iter_colU m a lf n) 0%Z))
              (for_loop ext02 "hyp_idx" bd (map (fun i => VInt (1 + Z.of_nat i)) (seq a m)) st).
    Proof.
      induction m as [|m IH]; intros a lf st Ham P.
      - apply runs_to_ok. eapply body_preU_ext; [|exact P].
        intros i n Hi Hn. cbv beta. unfold iter_colU, iter_rows, colf. rewrite Proofs.nth_map_seq by exact Hi. reflexivity.
      - rewrite <- cons_seq. cbn [map for_loop].
        replace (1 + Z.of_nat a)%Z with (Z.of_nat (S a)) by lia.
        destruct (Hbd st (S a) lf ltac:(lia) P) as [st1 [He P1]]. rewrite He. cbn [bind].
        destruct (IH (S a) _ st1 ltac:(lia) P1) as [st2 [He2 P2]]. exists st2. split; [exact He2|].
        eapply body_preU_ext; [|exact P2].
        intros i n Hi Hn. cbv beta. f_equal. unfold iter_colU. cbn [iter_rows]. f_equal.
        transitivity (map (fun i0 => nth i0 (step_colU (S a) lf n) 0%Z) (seq 0 (List.length (step_colU (S a) lf n)))).
        { rewrite step_colU_length by lia. reflexivity. }
        apply Proofs.map_nth_seq.
    Qed.

    Theorem loop_tie_genU : forall st lf, pre lf st -> lookup "max_hyp_steps" (vars st) = Some (VInt (Z.of_nat H)) ->
      runs_to (pre (fun i n => nth i (iter_colU H 0 lf n) 0%Z)) (exec ext02 (SFor "hyp_idx" loop_iter bd) st).
    Proof.
      intros st lf P Hmax. rewrite exec_for.
      assert (Hexcl : lookup "exclude_last" (vars st) = Some (VBool false)) by apply P.
      assert (Hit : eval ext02 loop_iter st = Ok (VList (zrange 1 (Z.of_nat H + 1))) st).
      { unfold loop_iter, er_loop. cbv iota. ev. reflexivity. }
      rewrite Hit. cbn [bind iter_items container_items]. rewrite zrange_1.
      apply loop_run_genU; [lia|exact P].
    Qed.
  End AnyBody.

  Theorem loop_tieU : forall st lf, pre lf st -> lookup "max_hyp_steps" (vars st) = Some (VInt (Z.of_nat H)) ->
    runs_to (pre (fun i n => nth i (iter_colU H 0 lf n) 0%Z)) (exec ext02 er_loop st).
  Proof. rewrite er_loop_eq. exact (loop_tie_genU loop_body body_runU). Qed.
End BodyU.
