(* C03 - infrastructure of the source tie of `optimal_completion`'s body: what reaches SrcRun.ext03_oc call by call (its own
   vocabulary, and the calls it passes on to ext03), and the tactics of the symbolic run for that environment. *)
From Coq Require Import ZArith QArith List String Bool Arith Lia ZifyBool ZifyNat.
From PV Require Import MiniPy.Syntax MiniPy.Interp MiniPy.Lemmas MiniTorch.Ops MiniTorch.Lemmas MiniTorch.OpsC07 MiniTorch.LemmasC07
  MiniTorch.OpsC01 MiniTorch.LemmasC01 MiniTorch.OpsC03 MiniTorch.LemmasC03.
From PV Require Import Gen.C03Src C01.SrcRun C01.TieLib C03.SrcRun C03.TieLib.
Import ListNotations.
Local Open Scope string_scope.

#[local] Arguments dec01 : simpl never.
#[local] Arguments ext01 : simpl never.
#[local] Arguments ext03 : simpl never.
#[local] Arguments ext03_sm : simpl never.
#[local] Arguments enc_b : simpl never.
#[local] Arguments enc_i : simpl never.
#[local] Arguments enc_x : simpl never.

Section ExtLemmas.
  Notation ext := ext03_oc.
  Ltac bridge := unfold ext03_oc, ext03_oc_new; cbn; rewrite ?dec01_enc_i, ?dec01_enc_x, ?dec01_enc_b, ?dec01_int; cbn.

  (* passed on to ext03 *)
  Lemma exto_t_i x st : ext "$method.t" [enc_i x] [] st = ret01 "t" (option_map AI (transpose2 0%Z x)) st.
  Proof. bridge. apply ext3_t_i. Qed.
  Lemma exto_shape_b x st : ext "$attr.shape" [enc_b x] [] st = Ok (VTuple (map (fun n => VInt (Z.of_nat n)) (shp x))) st.
  Proof. bridge. unfold ext03_sm, ext03_new. cbn. unfold ext01, ext01_ops. cbn. now rewrite dec01_enc_b. Qed.
  Lemma exto_device_i x st : ext "$attr.device" [enc_i x] [] st = Ok device_token st.
  Proof. bridge. apply ext3_device_i. Qed.
  Lemma exto_unsqueeze_b x d st : ext "$method.unsqueeze" [enc_b x; VInt d] [] st = ret01 "unsqueeze" (option_map AB (unsqueeze x d)) st.
  Proof. bridge. apply ext3_unsqueeze_b. Qed.
  Lemma exto_unsqueeze_i x d st : ext "$method.unsqueeze" [enc_i x; VInt d] [] st = ret01 "unsqueeze" (option_map AI (unsqueeze x d)) st.
  Proof. bridge. apply ext3_unsqueeze_i. Qed.
  Lemma exto_and x y st : ext "operator" [VStr "and"; enc_b x; enc_b y] [] st = ret01 "and" (option_map AB (and_bb x y)) st.
  Proof. bridge. apply ext3_and. Qed.
  Lemma exto_cmp_ne x y st : ext "compare" [VStr "ne"; enc_i x; enc_i y] [] st =
    ret01 "ne" (option_map AB (cmp_i (fun u v => negb (Z.eqb u v)) x y)) st.
  Proof. bridge. apply ext3_cmp_ne. Qed.
  Lemma exto_arange_i n st : ext "torch.arange" [VInt n] [("device", device_token)] st = ret01 "arange" (option_map AI (arange n)) st.
  Proof. reflexivity. Qed.

  (* its own vocabulary *)
  Lemma exto_transpose_b x a b st : ext "$method.transpose" [enc_b x; VInt a; VInt b] [] st =
    ret01 "transpose" (option_map AB (transpose3 false x a b)) st.
  Proof. bridge. reflexivity. Qed.
  Lemma exto_transpose_i x a b st : ext "$method.transpose" [enc_i x; VInt a; VInt b] [] st =
    ret01 "transpose" (option_map AI (transpose3 0%Z x a b)) st.
  Proof. bridge. reflexivity. Qed.
  Lemma exto_cmp_eq_ii x y st : ext "compare" [VStr "eq"; enc_i x; enc_i y] [] st = ret01 "eq" (option_map AB (cmp_i Z.eqb x y)) st.
  Proof. bridge. reflexivity. Qed.
  Lemma exto_cmp_gt_ii x y st : ext "compare" [VStr "gt"; enc_i x; enc_i y] [] st = ret01 "gt" (option_map AB (cmp_i Z.gtb x y)) st.
  Proof. bridge. reflexivity. Qed.
  Lemma exto_any_dim x d st : ext "$method.any" [enc_b x; VInt d] [] st = ret01 "any(dim)" (option_map AB (any_dim x d)) st.
  Proof. bridge. reflexivity. Qed.
  Lemma exto_sum x d st : ext "$method.sum" [enc_b x; VInt d] [] st = ret01 "sum" (option_map AI (sum_dim_b x d)) st.
  Proof. bridge. reflexivity. Qed.
  Lemma exto_sort x d st : ext "$method.sort" [enc_i x; VInt d] [] st =
    match sort_last2 x d with Some (v, i) => Ok (VTuple [enc_i v; enc_i i]) st | None => oob "sort" end.
  Proof. bridge. reflexivity. Qed.
  Lemma exto_expand_as_i x y st : ext "$method.expand_as" [enc_i x; enc_b y] [] st =
    match shp y with
    | [h; a; b] => ret01 "expand_as" (option_map AI (expand_lead2 0%Z x (Z.of_nat h) (Z.of_nat a) (Z.of_nat b))) st
    | _ => Stuck "expand_as"
    end.
  Proof. bridge. destruct (shp y) as [|h [|a [|b [|? ?]]]]; reflexivity. Qed.
  Lemma exto_expand3_b x h a b st : ext "$method.expand" [enc_b x; VInt h; VInt a; VInt b] [] st =
    ret01 "expand" (option_map AB (expand_lead2 false x h a b)) st.
  Proof. bridge. reflexivity. Qed.
  Lemma exto_gather2 x y st : ext "$method.gather" [enc_b x; VInt 2; enc_i y] [] st =
    ret01 "gather(2)" (option_map AB (gather_last3 false x y)) st.
  Proof. bridge. reflexivity. Qed.
  Lemma exto_getitem_ell_b x a b st :
    ext "$getitem" [enc_b x; VTuple [VTuple [VStr "$ellipsis"]; VTuple [VStr "$slice"; a; b; VNone]]] [] st =
    match dec_bound a, dec_bound b with
    | Some a', Some b' => ret01 "getitem last" (option_map AB (slice_last false x a' b')) st
    | _, _ => Stuck "getitem: tuple key"
    end.
  Proof. bridge. destruct (dec_bound a), (dec_bound b); reflexivity. Qed.
  Lemma exto_getitem_col_i x a b st : List.length (shp x) = 2%nat ->
    ext "$getitem" [enc_i x; VTuple [VTuple [VStr "$slice"; VNone; VNone; VNone]; VTuple [VStr "$slice"; a; b; VNone]]] [] st =
    match dec_bound a, dec_bound b with
    | Some a', Some b' => ret01 "getitem last" (option_map AI (slice_last 0%Z x a' b')) st
    | _, _ => Stuck "getitem: tuple key"
    end.
  Proof. intros Hr. bridge. destruct (dec_bound a), (dec_bound b); try reflexivity. cbn. rewrite Hr. reflexivity. Qed.
  Lemma exto_cat x y st : List.length (shp x) = 3%nat -> List.length (shp y) = 3%nat ->
    ext "torch.cat" [VList [enc_b x; enc_b y]; VInt 2] [] st = ret01 "cat" (option_map AB (cat_last false x y)) st.
  Proof. intros Hx Hy. bridge. rewrite Hx, Hy. reflexivity. Qed.
  Lemma exto_masked_select x m st : ext "$method.masked_select" [enc_i x; enc_b m] [] st =
    ret01 "masked_select" (option_map AI (masked_select x m)) st.
  Proof. bridge. reflexivity. Qed.
  Lemma exto_max_all x st : ext "$method.max" [enc_i x] [] st =
    match max_all x with Some m => Ok (enc_i (mkTn [] [m])) st | None => Exc rt_error st end.
  Proof. bridge. reflexivity. Qed.
  Lemma exto_item m st : ext "$method.item" [enc_i (mkTn [] [m])] [] st = Ok (VInt m) st.
  Proof. bridge. reflexivity. Qed.
  Lemma exto_int z st : ext "int" [VInt z] [] st = Ok (VInt z) st.
  Proof. reflexivity. Qed.
  Lemma exto_full3 a b c v st :
    ext "torch.full" [VTuple [VInt a; VInt b; VInt c]; VInt v] [("dtype", long_token); ("device", device_token)] st =
    if (Z.ltb a 0 || Z.ltb b 0 || Z.ltb c 0)%bool then oob "full" else Ok (enc_i (full [Z.to_nat a; Z.to_nat b; Z.to_nat c] v)) st.
  Proof. reflexivity. Qed.
  Lemma exto_masked_scatter x m y st : ext "$method!.masked_scatter_" [enc_i x; enc_b m; enc_i y] [] st =
    match masked_scatter x m y with
    | Some (Some r) => Ok (enc_i r) st
    | Some None => Exc rt_error st
    | None => oob "masked_scatter_"
    end.
  Proof. bridge. reflexivity. Qed.
  Lemma exto_string_matching ref hyp eos incl bf qi qd qs warn excl st :
    ext "_string_matching" [ref; hyp; eos; incl; bf; qi; qd; qs; warn] [("return_mask", VBool true); ("exclude_last", excl)] st =
    call_body3 sm3_body (sm3_vars ref hyp eos incl bf qi qd qs warn excl) st.
  Proof. reflexivity. Qed.
End ExtLemmas.

#[local] Arguments ext03_oc : simpl never.

Lemma subscript_enc_b_tuple t k st : subscript (enc_b t) (VTuple k) st = Stuck "subscript".
Proof. reflexivity. Qed.
Lemma subscript_enc_i_tuple t k st : subscript (enc_i t) (VTuple k) st = Stuck "subscript".
Proof. reflexivity. Qed.
Lemma attribute_enc_b ext t a st : attribute ext (enc_b t) a st = ext ("$attr." ++ a) [enc_b t] [] st.
Proof. reflexivity. Qed.
Lemma binop_and_b_b t u st : binop_eval BitAnd (enc_b t) (enc_b u) st = Stuck "and".
Proof. reflexivity. Qed.

Create HintDb c03o discriminated.
#[export] Hint Rewrite lookup_update foreign_enc_i foreign_enc_b foreign_enc_x method_enc_i method_enc_b method_enc_x
  attribute_enc_i attribute_enc_x attribute_enc_b subscript_enc_b_tuple subscript_enc_i_tuple binop_and_b_b
  exto_t_i exto_shape_b exto_device_i exto_unsqueeze_b exto_unsqueeze_i exto_and exto_cmp_ne exto_arange_i
  exto_transpose_b exto_transpose_i exto_cmp_eq_ii exto_cmp_gt_ii exto_any_dim exto_sum exto_sort exto_expand_as_i exto_expand3_b
  exto_gather2 exto_getitem_ell_b exto_masked_select exto_max_all exto_item exto_int exto_full3 exto_masked_scatter
  exto_string_matching : c03o.

Ltac evo := repeat (progress (cbn; autorewrite with c03o; look)).
Ltac normo :=
  unfold bin_i, cmp_i, map_t, and_bb; cbn [shp dat];
  rewrite ?nats_eqb_refl, ?map_map, ?map_tab2;
  rewrite ?broadcast_same2, ?broadcast_same3, ?broadcast_row_col3, ?broadcast_4_3, ?broadcast_col3_row,
    ?transpose3_12, ?transpose3_01, ?transpose2_mat, ?unsqueeze_3_2, ?unsqueeze_2_1, ?unsqueeze_2_2, ?unsqueeze_2_m1,
    ?any_dim_4, ?sum_dim_b_3, ?sort_last2_tab, ?expand_lead2_as, ?expand_lead2_keep,
    ?slice_last3_init, ?slice_last3_last, ?slice_last2_init, ?slice_last2_tail, ?cat_last3_tab, ?full_3;
  cbn [option_map ret01 enc01].
Ltac evno := repeat (progress (evo; normo)).
Ltac asgo := assign3x ltac:(evno; reflexivity).
Ltac ifstepo := ifstep3_t ltac:(evno; reflexivity).

(* x.m(a1, a2) as a statement with a method that is not a container method: the "$method!." protocol of Interp.exec - the
   unit's ext returns the updated receiver, which is written back to x *)
Lemma xexec_seq_mutmeth2 ext x m a1 a2 b st tv v1 v2 nv :
  lookup x (vars st) = Some tv -> lookup a1 (vars st) = Some v1 -> lookup a2 (vars st) = Some v2 ->
  method tv m [v1; v2] = None -> ext ("$method!." ++ m) [tv; v1; v2] [] st = Ok nv st ->
  exec ext (SSeq (SExpr (EMeth (EName x) m [EName a1; EName a2] [])) b) st = exec ext b (set_var x nv st).
Proof.
  intros Hx H1 H2 Hm He. cbn [exec eval]. rewrite Hx. cbn [bind]. rewrite H1. cbn [bind]. rewrite H2. cbn [bind].
  rewrite Hm, He. cbn [bind store]. reflexivity.
Qed.
