(* MiniTorch, unit C18B — the meaning given to the torch operations that occur in the translated text of
   `mean_var_norm`, `MeanVarianceNormalization.forward / accumulate / store`, `_feat_delta_filters` and `feat_deltas`
   (src/pydrobert/torch/_feats.py).  DEFINITIONS ONLY; the algebra is in LemmasC18B.v, the dispatch from call names in
   C18/SrcRunB.v.

   Tensors are PV.C18.Model.tensor = (shape, row-major flat data) over exact rationals, ANY number of dimensions
   (the multi-index library [indices], [ravel], [get], [tabulate], [swapl] of that file is reused: out[ix] = ... is
   written [tabulate sh (fun ix => ...)]).  IEEE rounding, dtypes (`.double()`, `.to(..)` are the identity), devices,
   strides / aliasing of views are not modelled; +-inf and NaN are NOT representable: an operation whose torch result
   would contain one (mean / std over an empty dimension, a division by zero) is outside the domain.

   Three-way result: [ROk v] | [RRaise name] (torch raises that exception: the raise paths of the model are tied too) |
   [RUndef] (outside the modelled domain: the unit's [ext] turns it into [Stuck], so a tie lemma about such a run
   cannot be proved - fail-closed).  Each definition quotes the sentence of the torch documentation (2.x) it models.
   This file is TRUSTED by the second C18 tie; it is exercised against torch on every run (harness/props/c18_tie.py).

   sqrt is an ORACLE [sq : Q -> Q] handed in as data, as in the model (DESIGN.md regime T): `Tensor.sqrt_()` and
   `Tensor.std(1, False)` apply it to the exact variances. *)
From Coq Require Import List ZArith QArith Bool Arith String.
From PV Require Import MiniTorch.Ops.
From PV Require C18.Model.
Import ListNotations.

Module M := PV.C18.Model.
Notation tensor := M.tensor.
Notation mkT := M.mkT.
Notation shape := M.shape.
Notation data := M.data.

Inductive res (A : Type) := ROk (a : A) | RRaise (exc : string) | RUndef.
Arguments ROk {A} a.
Arguments RRaise {A} exc.
Arguments RUndef {A}.

Definition index_error : string := "IndexError".
Definition runtime_error : string := "RuntimeError".

Definition rbind {A B} (r : res A) (f : A -> res B) : res B :=
  match r with ROk a => f a | RRaise e => RRaise e | RUndef => RUndef end.

Definition ndim (x : tensor) : nat := List.length (shape x).
Definition numel (x : tensor) : nat := M.prodn (shape x).

Fixpoint nats_eqb (a b : list nat) : bool :=
  match a, b with
  | [], [] => true
  | x :: a', y :: b' => (x =? y)%nat && nats_eqb a' b'
  | _, _ => false
  end.

(* ---- shapes ------------------------------------------------------------------------------------------------- *)
(* Tensor.ndim: "Alias for dim()": "Returns the number of dimensions of self tensor." = [ndim] *)

(* Tensor.size(dim): "If dim is specified, returns an int holding the size of that dimension."  dim in [-D, D)
   ([Ops.wrap_dim]); outside it - and for every dim on a 0-d tensor - torch raises IndexError. *)
Definition size (x : tensor) (d : Z) : res nat :=
  match wrap_dim (ndim x) d with
  | Some k => ROk (nth k (shape x) 0%nat)
  | None => RRaise index_error
  end.

(* dimension arguments of a 0-d tensor: torch accepts -1 and 0 ("expected to be in range of [-1, 0]") *)
Definition dim0_ok (d : Z) : bool := ((d =? 0) || (d =? -1))%Z.

(* Tensor.transpose(dim0, dim1): "Returns a tensor that is a transposed version of input.  The given dimensions dim0
   and dim1 are swapped."   out[ix] = x[ix with components a and b swapped]  (= Model.transpose).  A dimension out
   of range raises IndexError; a 0-d tensor is returned as it is (for dims in [-1, 0]). *)
Definition transpose (x : tensor) (d0 d1 : Z) : res tensor :=
  match ndim x with
  | O => if (dim0_ok d0 && dim0_ok d1)%bool then ROk x else RRaise index_error
  | _ => match wrap_dim (ndim x) d0, wrap_dim (ndim x) d1 with
         | Some a, Some b => ROk (M.transpose x a b)
         | _, _ => RRaise index_error
         end
  end.

(* Tensor.unsqueeze(dim): "Returns a new tensor with a dimension of size one inserted at the specified position. ...
   A dim value within the range [-input.dim() - 1, input.dim() + 1) can be used."  The row-major data are unchanged.
   Outside the range: IndexError. *)
Definition unsqueeze (x : tensor) (d : Z) : res tensor :=
  match wrap_dim (S (ndim x)) d with
  | Some k => ROk (mkT (firstn k (shape x) ++ 1%nat :: skipn k (shape x)) (data x))
  | None => RRaise index_error
  end.

(* Tensor.flatten(start_dim=0, end_dim=-1): "Flattens input by reshaping it into a one-dimensional tensor.  If
   start_dim or end_dim are passed, only dimensions starting with start_dim and ending with end_dim are flattened.
   The order of elements in input is unchanged."  A 0-d tensor becomes a one-element 1-d tensor.  Dimension out of
   range: IndexError; start after end: RuntimeError ("start_dim cannot come after end_dim"). *)
Definition flatten (x : tensor) (s e : Z) : res tensor :=
  match ndim x with
  | O => if (dim0_ok s && dim0_ok e)%bool then ROk (mkT [1%nat] (data x)) else RRaise index_error
  | _ => match wrap_dim (ndim x) s, wrap_dim (ndim x) e with
         | Some a, Some b =>
             if (a <=? b)%nat
             then ROk (mkT (firstn a (shape x) ++ M.prodn (firstn (b - a + 1) (skipn a (shape x))) :: skipn (S b) (shape x))
                           (data x))
             else RRaise runtime_error
         | _, _ => RRaise index_error
         end
  end.

(* Tensor.view( *shape): "Returns a new tensor with the same data as the self tensor but of a different shape. ...
   the size -1 is inferred from other dimensions".  Sizes: non-negative, at most one -1 (inferred: numel / product of
   the others, which must divide it and be non-zero), product = numel; otherwise RuntimeError ("shape ... is invalid
   for input of size ...").  Every tensor is row-major here: view's contiguity condition is not modelled. *)
Definition zprod (l : list Z) : Z := fold_right Z.mul 1%Z l.
Definition view (x : tensor) (sizes : list Z) : res tensor :=
  let n := Z.of_nat (List.length (data x)) in
  if forallb (fun z => (-1 <=? z)%Z) sizes then
    match filter (fun z => (z =? -1)%Z) sizes with
    | [] => if (zprod sizes =? n)%Z then ROk (mkT (map Z.to_nat sizes) (data x)) else RRaise runtime_error
    | [_] =>
        let p := zprod (filter (fun z => negb (z =? -1)%Z) sizes) in
        if (p =? 0)%Z then RRaise runtime_error
        else if (n mod p =? 0)%Z
             then ROk (mkT (map (fun z => if (z =? -1)%Z then Z.to_nat (n / p) else Z.to_nat z) sizes) (data x))
             else RRaise runtime_error
    | _ => RRaise runtime_error
    end
  else RRaise runtime_error.

(* ---- creation ----------------------------------------------------------------------------------------------- *)
(* torch.zeros(n): "Returns a tensor filled with the scalar value 0, with the shape defined by the variable argument
   size."  (one non-negative size; dtype= / device= do not change values and are ignored; negative: RuntimeError) *)
Definition zeros (n : Z) : res tensor :=
  if (n <? 0)%Z then RRaise runtime_error else ROk (mkT [Z.to_nat n] (repeat 0%Q (Z.to_nat n))).

(* ---- element-wise ------------------------------------------------------------------------------------------- *)
Definition tmap (f : Q -> Q) (x : tensor) : tensor := mkT (shape x) (map f (data x)).

(* Tensor.square(): "Returns a new tensor with the square of the elements of input." *)
Definition square (x : tensor) : tensor := tmap M.qsq x.

(* Tensor.clamp_min(min) / clamp_min_(min) = clamp(min=min): "Clamps all elements in input into the range [min, max]":
   y_i = max(x_i, min)   (Model.qmax x_i min: x_i when min < x_i, else min) *)
Definition clamp_min (x : tensor) (c : Q) : tensor := tmap (fun v => M.qmax v c) x.

(* Tensor.sqrt_(): "Returns a new tensor with the square-root of the elements of input" (in place): the ORACLE *)
Definition sqrt_ (sq : Q -> Q) (x : tensor) : tensor := tmap sq x.

(* tensor + number, tensor - number: "Adds other, scaled by alpha, to input" / "Subtracts other" with a Python
   number: every element *)
Definition add_scalar (x : tensor) (c : Q) : tensor := tmap (fun v => (v + c)%Q) x.
Definition sub_scalar (x : tensor) (c : Q) : tensor := tmap (fun v => (v - c)%Q) x.

(* Broadcasting semantics: "Two tensors are broadcastable if ... when iterating over the dimension sizes, starting at
   the trailing dimension, the dimension sizes must either be equal, one of them is 1, or one of them does not exist."
   Modelled in the two forms the unit uses:
     (b) the right operand is a 0-d tensor (one element, no dimension): it is combined with every element of the left
         operand, whose shape the result has;
     (c) equal numbers of dimensions, sizes pairwise equal or 1 (the result size is the one that is not 1):
         out[ix] = f a[ix_a] b[ix_b] with 0 at an operand's singleton dimensions ([Ops.bidx]).
   Sizes that cannot be broadcast: RuntimeError ("The size of tensor a must match the size of tensor b at
   non-singleton dimension"); different numbers of dimensions otherwise: not modelled. *)
Fixpoint bshape (sa sb : list nat) : option (list nat) :=
  match sa, sb with
  | [], [] => Some []
  | a :: sa', b :: sb' =>
      match bdim a b, bshape sa' sb' with
      | Some n, Some r => Some (n :: r)
      | _, _ => None
      end
  | _, _ => None
  end.

Definition scalar0 (b : tensor) : option Q :=
  match shape b, data b with [], [v] => Some v | _, _ => None end.

Definition ew2 (f : Q -> Q -> Q) (a b : tensor) : res tensor :=
  match scalar0 b with
  | Some v => ROk (tmap (fun u => f u v) a)
  | None =>
      if (ndim a =? ndim b)%nat then
        match bshape (shape a) (shape b) with
        | Some sh => ROk (M.tabulate sh (fun ix => f (M.get a (M.zipw bidx (shape a) ix))
                                                    (M.get b (M.zipw bidx (shape b) ix))))
        | None => RRaise runtime_error
        end
      else RUndef
  end.

(* a - b: torch.sub "Subtracts other ... from input" *)
Definition sub (a b : tensor) : res tensor := ew2 Qminus a b.
(* a / b: torch.div / true_divide "Divides each element of the input input by the corresponding element of other";
   a zero divisor anywhere in b gives inf / NaN: outside the domain *)
Definition div (a b : tensor) : res tensor :=
  if existsb (fun v => Qeq_bool v 0) (data b) then RUndef else ew2 Qdiv a b.

Definition one_elt (b : tensor) : option Q :=
  match data b with
  | [v] => if forallb (fun n => (n =? 1)%nat) (shape b) then Some v else None
  | _ => None
  end.

(* a += b, a *= b on tensors (Tensor.add_ / mul_, in place): b must be broadcastable to the shape of a, which does
   not change: equal shapes (element by element), or b holds exactly ONE element and has no more dimensions than a (it is
   combined with every element); any other pair of ONE-dimensional tensors raises RuntimeError ("output with
   shape [..] doesn't match the broadcast shape [..]" / "The size of tensor a must match ..."); other shapes: not
   modelled.  (MiniPy hands `x += y` and `x + y` to [ext] under the same name: the unit's only tensor + tensor and
   tensor * tensor are the augmented ones of accumulate / store, see SrcRunB.v.) *)
Definition iop2 (f : Q -> Q -> Q) (a b : tensor) : res tensor :=
  if nats_eqb (shape a) (shape b) then ROk (mkT (shape a) (M.zipw f (data a) (data b)))
  else match one_elt b with
       | Some v => if (ndim b <=? ndim a)%nat then ROk (tmap (fun u => f u v) a) else RRaise runtime_error
       | None => if ((ndim a =? 1) && (ndim b =? 1))%nat then RRaise runtime_error else RUndef
       end.
Definition iadd (a b : tensor) : res tensor := iop2 Qplus a b.
Definition imul (a b : tensor) : res tensor := iop2 Qmult a b.

(* `t < c` used as the test of an `if`: the comparison gives a bool tensor, `if` takes its truth value: "Boolean
   value of Tensor with more than one value is ambiguous" (RuntimeError) unless the tensor has exactly one element,
   whose value it is.  Returned as that Python bool (as the C01 / C04 ties do for `x.any()`). *)
Definition lt_scalar_truth (x : tensor) (c : Q) : res bool :=
  match data x with
  | [v] => ROk (negb (Qle_bool c v))
  | _ => RRaise runtime_error
  end.

(* ---- reductions of a matrix along dim 1 -------------------------------------------------------------------------- *)
(* the rows of an (n, m) matrix *)
Definition rows (n m : nat) (d : list Q) : list (list Q) := map (fun i => M.chunk m i d) (seq 0 n).

(* Tensor.sum(dim): "Returns the sum of each row of the input tensor in the given dimension dim ... the output tensor
   is of the same size as input except in the dimension(s) dim where it is [removed]".  Modelled: dim = 1 of a 2-d
   tensor (sums kept in lowest terms, Model.qsum). *)
Definition sum1 (x : tensor) : res tensor :=
  match shape x with
  | [n; m] => ROk (mkT [n] (map M.qsum (rows n m (data x))))
  | _ => RUndef
  end.

(* Tensor.mean(dim): "Returns the mean value of each row of the input tensor in the given dimension dim."  dim = 1 of
   a 2-d tensor with at least one column (the mean of an empty row is NaN: outside the domain). *)
Definition mean1 (x : tensor) : res tensor :=
  match shape x with
  | [n; m] => if (m =? 0)%nat then RUndef else ROk (mkT [n] (map M.row_mean (rows n m (data x))))
  | _ => RUndef
  end.

(* Tensor.std(dim, unbiased=False): "Calculates the standard deviation over the dimensions specified by dim ... If
   unbiased is False, the standard deviation is calculated via the biased estimator": sqrt of
   (1/m) sum_j (x_ij - mean_i)^2 - the ORACLE applied to Model.row_var.  dim = 1, 2-d, at least one column. *)
Definition std1 (sq : Q -> Q) (x : tensor) : res tensor :=
  match shape x with
  | [n; m] => if (m =? 0)%nat then RUndef else ROk (mkT [n] (map (fun r => sq (M.row_var r)) (rows n m (data x))))
  | _ => RUndef
  end.

(* ================================================================================================================ *)
(* operations of `_feat_delta_filters` / `feat_deltas`                                                             *)
(* ================================================================================================================ *)
(* Tensor.shape: "Returns the size of the self tensor" - the tuple of sizes = [shape] *)

Fixpoint set_at (l : list Q) (k : nat) (v : Q) : list Q :=
  match l, k with
  | [], _ => []
  | _ :: t, O => v :: t
  | h :: t, S k' => h :: set_at t k' v
  end.

(* x[k] = v on a 1-d tensor with an integer k and a number v: element k (negative: from the end) is replaced;
   out of range: IndexError *)
Definition setitem1 (x : tensor) (k : Z) (v : Q) : res tensor :=
  match shape x with
  | [n] => match wrap_dim n k with
           | Some i => ROk (mkT [n] (set_at (data x) i v))
           | None => RRaise index_error
           end
  | _ => RUndef
  end.

(* torch.arange(start, end, step): "Returns a 1-D tensor of size ceil((end - start) / step) with values from the
   interval [start, end) taken with common difference step beginning from start."  Integer arguments, step <> 0
   (dtype= does not change these values: ignored); an empty interval gives an empty tensor ... torch raises when the
   sign of step contradicts the bounds ("upper bound and larger bound inconsistent with step sign"): RuntimeError. *)
Definition arange3 (a b s : Z) : res tensor :=
  if (s =? 0)%Z then RRaise runtime_error
  else if ((0 <? s) && (b <? a) || (s <? 0) && (a <? b))%Z then RRaise runtime_error
  else let n := Z.to_nat (if (0 <? s)%Z then (b - a + s - 1) / s else (a - b + (- s) - 1) / (- s))%Z in
       ROk (mkT [n] (map (fun i => inject_Z (a + Z.of_nat i * s)) (seq 0 n))).

(* Tensor.sum(): "Returns the sum of all elements in the input tensor." - a 0-d tensor *)
Definition sum_all (x : tensor) : tensor := mkT [] [M.qsum (data x)].

(* torch.nn.functional.conv1d(input, weight, padding=p): "Applies a 1D convolution over an input signal composed of
   several input planes": input (N, C_in, T), weight (C_out, C_in, L), output (N, C_out, T + 2p - L + 1),
   out[n, c, :] = sum_k weight[c, k] * input[n, k]  with * the valid cross-correlation (Model.conv1d) and "padding
   ... implicit paddings on both sides of the input" p zeros.  Modelled for C_in = 1 (no bias, stride 1, dilation 1).
   A kernel longer than the padded input: RuntimeError ("Kernel size can't be greater than actual input size"). *)
Definition conv1d (x w : tensor) (p : nat) : res tensor :=
  match shape x, shape w with
  | [N; 1%nat; T], [C; 1%nat; L] =>
      if (T + 2 * p <? L)%nat then RRaise runtime_error
      else ROk (mkT [N; C; (T + 2 * p + 1 - L)%nat]
                    (List.concat (map (fun line => List.concat (map (M.conv1d (repeat 0%Q p ++ line ++ repeat 0%Q p))
                                                                     (rows C L (data w))))
                                      (rows N T (data x)))))
  | _, _ => RUndef
  end.

(* torch.nn.functional.pad(input, (p, p), mode, value): "Pads tensor ... pad: m-elements tuple ... to pad the last
   dimension of the input tensor ... (padding_left, padding_right); mode: 'constant', 'reflect', 'replicate' or
   'circular'; value: fill value for 'constant' padding."  Modelled: a 3-d (N, 1, T) input, equal non-negative
   paddings; every line is extended by Model.pad (constant: the fill value; replicate: the edge values; reflect:
   mirrored without repeating the edge; circular: wrapped around).  torch raises RuntimeError for a fill value with a
   mode other than constant ("Padding mode doesn't take in value argument"), replicate / reflect on an empty line,
   reflect with p >= T ("Padding size should be less than the corresponding input dimension"), circular with p > T
   ("Padding value causes wrapping around more than once"). *)
Definition pad_mode_of (s : string) : option M.padmode :=
  if String.eqb s "replicate" then Some M.Replicate
  else if String.eqb s "constant" then Some M.Constant
  else if String.eqb s "reflect" then Some M.Reflect
  else if String.eqb s "circular" then Some M.Circular
  else None.

Definition pad_last (x : tensor) (l r : Z) (mode : string) (v : Q) : res tensor :=
  match shape x, pad_mode_of mode with
  | [N; 1%nat; T], Some m =>
      if (negb (l =? r) || (l <? 0))%Z then RUndef
      else let p := Z.to_nat l in
           if negb (match m with M.Constant => true | _ => Qeq_bool v 0 end) then RRaise runtime_error
           else if (match m with M.Replicate => (T =? 0)%nat | _ => false end) then RRaise runtime_error
           else if negb (M.pad_ok m p T) then RRaise runtime_error
           else ROk (mkT [N; 1%nat; (T + 2 * p)%nat] (List.concat (map (M.pad m v p) (rows N T (data x)))))
  | _, _ => RUndef
  end.

(* torch.stack(tensors): "Concatenates a sequence of tensors along a new dimension.  All tensors need to be of the
   same size."  dim = 0, a non-empty list of 1-d tensors of one length (else RuntimeError) *)
Definition stack1 (ts : list tensor) : res tensor :=
  match ts with
  | [] => RRaise runtime_error
  | t0 :: _ =>
      match shape t0 with
      | [L] => if forallb (fun t => nats_eqb (shape t) [L]) ts
               then ROk (mkT [List.length ts; L] (List.concat (map data ts)))
               else RRaise runtime_error
      | _ => RUndef
      end
  end.

(* torch.movedim(input, source, destination): "Moves the dimension(s) of input at the position(s) in source to the
   position(s) in destination.  Other dimensions of input that are not explicitly moved remain in their original
   order and appear at the positions not specified in destination."  One source, one destination:
   out[ix] = x[ix with its component at [destination] taken out and put back at [source]].  Moving a dimension onto
   itself returns the input.  Out of range: IndexError. *)
Definition remove_at {A} (k : nat) (l : list A) : list A := firstn k l ++ skipn (S k) l.
Definition insert_at {A} (k : nat) (x : A) (l : list A) : list A := firstn k l ++ x :: skipn k l.

Definition movedim (x : tensor) (s t : Z) : res tensor :=
  match wrap_dim (ndim x) s, wrap_dim (ndim x) t with
  | Some a, Some b =>
      if (a =? b)%nat then ROk x
      else ROk (M.tabulate (insert_at b (nth a (shape x) 0%nat) (remove_at a (shape x)))
                           (fun ix => M.get x (insert_at a (nth b ix 0%nat) (remove_at b ix))))
  | _, _ => RRaise index_error
  end.

(* tuple[lo:hi] with missing or integer bounds, step 1 (Python's slice.indices: negative bounds count from the end,
   both are clipped to [0, len]) *)
Definition clip_bound (n : nat) (dflt : nat) (b : option Z) : nat :=
  match b with
  | None => dflt
  | Some z => let z' := if (z <? 0)%Z then (z + Z.of_nat n)%Z else z in
              Nat.min n (Z.to_nat z')
  end.
Definition slice_list {A} (l : list A) (lo hi : option Z) : list A :=
  let n := List.length l in
  let a := clip_bound n 0%nat lo in
  let b := clip_bound n n hi in
  firstn (b - a) (skipn a l).
