(* C10 - list lemmas shared by the proofs. *)
From Coq Require Import List ZArith Bool Arith Lia Sorted.
From PV Require Import C10.Model C10.Spec.
Import ListNotations.

Definition enum_from {A} (s : nat) (l : list A) : list (nat * A) := combine (seq s (length l)) l.

Lemma enumerate_enum_from : forall A (l : list A), enumerate l = enum_from 0 l.
Proof. reflexivity. Qed.

Lemma enum_from_cons : forall A s (x : A) l, enum_from s (x :: l) = (s, x) :: enum_from (S s) l.
Proof. reflexivity. Qed.

Lemma enum_from_length : forall A s (l : list A), length (enum_from s l) = length l.
Proof. intros. unfold enum_from. rewrite combine_length, seq_length. lia. Qed.

Lemma map_snd_enum_from : forall A s (l : list A), map snd (enum_from s l) = l.
Proof.
  intros A s l; revert s; induction l as [|x l IH]; intros s; [reflexivity|].
  rewrite enum_from_cons; cbn [map snd]. now rewrite IH.
Qed.

Lemma map_fst_enum_from : forall A s (l : list A), map fst (enum_from s l) = seq s (length l).
Proof.
  intros A s l; revert s; induction l as [|x l IH]; intros s; [reflexivity|].
  rewrite enum_from_cons; cbn [map fst length seq]. now rewrite IH.
Qed.

Lemma nth_enum_from : forall A s (l : list A) i d, (i < length l)%nat ->
  nth i (enum_from s l) (0%nat, d) = ((s + i)%nat, nth i l d).
Proof.
  intros A s l; revert s; induction l as [|x l IH]; intros s i d Hi; [cbn in Hi; lia|].
  rewrite enum_from_cons. destruct i as [|i]; cbn [nth].
  - f_equal; lia.
  - cbn in Hi. rewrite IH by lia. f_equal; lia.
Qed.

(* ---- extensionality ---- *)
Lemma nth_ext_eq : forall A (a b : list A) d, length a = length b ->
  (forall i, (i < length a)%nat -> nth i a d = nth i b d) -> a = b.
Proof.
  intros A a; induction a as [|x a IH]; intros [|y b] d Hl H; cbn in Hl; try lia; [reflexivity|].
  f_equal.
  - apply (H 0%nat); cbn; lia.
  - apply (IH b d); [lia|]. intros i Hi. apply (H (S i)); cbn; lia.
Qed.

(* ---- map2 ---- *)
Lemma map2_map_map : forall A B C E (f : B -> C -> E) (g : A -> B) (h : A -> C) (l : list A),
  map2 f (map g l) (map h l) = map (fun a => f (g a) (h a)) l.
Proof.
  intros. unfold map2. induction l as [|a l IH]; [reflexivity|]. cbn. now rewrite IH.
Qed.

Lemma map2_length : forall A B C (f : A -> B -> C) a b, length (map2 f a b) = Nat.min (length a) (length b).
Proof. intros. unfold map2. now rewrite map_length, combine_length. Qed.

Lemma combine_map_map : forall A B C (g : A -> B) (h : A -> C) (l : list A),
  combine (map g l) (map h l) = map (fun a => (g a, h a)) l.
Proof. intros. induction l as [|a l IH]; [reflexivity|]. cbn. now rewrite IH. Qed.

Lemma map_fst_combine : forall A B (a : list A) (b : list B), length a = length b -> map fst (combine a b) = a.
Proof.
  intros A B a; induction a as [|x a IH]; intros [|y b] H; cbn in *; try lia; [reflexivity|].
  f_equal. apply IH. lia.
Qed.
Lemma map_snd_combine : forall A B (a : list A) (b : list B), length a = length b -> map snd (combine a b) = b.
Proof.
  intros A B a; induction a as [|x a IH]; intros [|y b] H; cbn in *; try lia; [reflexivity|].
  f_equal. apply IH. lia.
Qed.

(* selecting with a mask computed from the elements *)
Lemma mask_select_filter : forall A B (f : A -> B) (p : A -> bool) (l : list A),
  map fst (filter snd (combine (map f l) (map p l))) = map f (filter p l).
Proof.
  intros. induction l as [|a l IH]; [reflexivity|]. cbn.
  destruct (p a); cbn; now rewrite IH.
Qed.

Lemma count_true_filter : forall A (p : A -> bool) (l : list A),
  length (filter (fun b : bool => b) (map p l)) = length (filter p l).
Proof.
  intros. induction l as [|a l IH]; [reflexivity|]. cbn. destruct (p a); cbn; now rewrite IH.
Qed.

(* ---- sorted index lists ---- *)
Lemma sorted_lt_ext : forall a b : list nat,
  StronglySorted lt a -> StronglySorted lt b -> (forall t, In t a <-> In t b) -> a = b.
Proof.
  induction a as [|x a IH]; intros b Ha Hb H.
  - destruct b as [|y b]; [reflexivity|]. exfalso. apply (proj2 (H y)). now left.
  - destruct b as [|y b]; [exfalso; apply (proj1 (H x)); now left|].
    apply StronglySorted_inv in Ha as [Ha Hxa]. apply StronglySorted_inv in Hb as [Hb Hyb].
    rewrite Forall_forall in Hxa, Hyb.
    assert (x = y).
    { destruct (proj1 (H x) (or_introl eq_refl)) as [E|I]; [now symmetry|].
      destruct (proj2 (H y) (or_introl eq_refl)) as [E|I']; [assumption|].
      specialize (Hxa _ I'). specialize (Hyb _ I). lia. }
    subst y. f_equal. apply IH; try assumption.
    intros t; split; intros I.
    + destruct (proj1 (H t) (or_intror I)) as [E|I']; [|assumption].
      subst t. specialize (Hxa _ I). lia.
    + destruct (proj2 (H t) (or_intror I)) as [E|I']; [|assumption].
      subst t. specialize (Hyb _ I). lia.
Qed.

Lemma selects_unique : forall A B (P : nat -> A -> Prop) (f : A -> B) d l o1 o2,
  selects P f d l o1 -> selects P f d l o2 -> o1 = o2.
Proof.
  intros A B P f d l o1 o2 (i1 & S1 & M1 & E1) (i2 & S2 & M2 & E2).
  assert (i1 = i2) by (apply sorted_lt_ext; try assumption; intros t; rewrite M1, M2; tauto).
  subst. reflexivity.
Qed.

(* a filter over the enumerated list selects *)
Lemma filter_enum_from_spec : forall A (pb : nat -> A -> bool) d (l : list A) s,
  let idx := map fst (filter (fun tx => pb (fst tx) (snd tx)) (enum_from s l)) in
  StronglySorted lt idx
  /\ (forall t, In t idx <-> (s <= t < s + length l)%nat /\ pb t (nth (t - s) l d) = true)
  /\ map snd (filter (fun tx => pb (fst tx) (snd tx)) (enum_from s l)) = map (fun t => nth (t - s) l d) idx.
Proof.
  intros A pb d l; induction l as [|x l IH]; intros s idx.
  - subst idx; cbn. split; [constructor|]. split; [|reflexivity]. intros t; split; [tauto|lia].
  - subst idx. rewrite enum_from_cons. cbn [filter fst snd].
    destruct (IH (S s)) as (S1 & M1 & E1).
    destruct (pb s x) eqn:Hp; cbn [map fst snd].
    + split; [|split].
      * constructor; [assumption|]. rewrite Forall_forall. intros t Ht. apply M1 in Ht. lia.
      * intros t; cbn [In length]. rewrite M1. split.
        -- intros [E|[H1 H2]].
           ++ subst t. split; [lia|]. now rewrite Nat.sub_diag.
           ++ split; [lia|]. replace (t - s)%nat with (S (t - S s)) by lia. exact H2.
        -- intros [H1 H2]. destruct (Nat.eq_dec s t) as [E|NE]; [now left|right].
           split; [lia|]. replace (t - s)%nat with (S (t - S s)) in H2 by lia. exact H2.
      * rewrite Nat.sub_diag. cbn [nth]. f_equal. rewrite E1. apply map_ext_in.
        intros t Ht. apply M1 in Ht. replace (t - s)%nat with (S (t - S s)) by lia. reflexivity.
    + split; [assumption|split].
      * intros t; cbn [length]. rewrite M1. split.
        -- intros [H1 H2]. split; [lia|]. replace (t - s)%nat with (S (t - S s)) by lia. exact H2.
        -- intros [H1 H2]. destruct (Nat.eq_dec s t) as [E|NE].
           ++ subst t. rewrite Nat.sub_diag in H2. cbn in H2. congruence.
           ++ split; [lia|]. replace (t - s)%nat with (S (t - S s)) in H2 by lia. exact H2.
      * rewrite E1. apply map_ext_in.
        intros t Ht. apply M1 in Ht. replace (t - s)%nat with (S (t - S s)) by lia. reflexivity.
Qed.

Lemma selects_filter : forall A B (P : nat -> A -> Prop) (pb : nat -> A -> bool) (f : A -> B) d l,
  (forall t x, pb t x = true <-> P t x) ->
  selects P f d l (map (fun tx => f (snd tx)) (filter (fun tx => pb (fst tx) (snd tx)) (enumerate l))).
Proof.
  intros A B P pb f d l H. rewrite enumerate_enum_from.
  destruct (filter_enum_from_spec A pb d l 0) as (S1 & M1 & E1).
  exists (map fst (filter (fun tx => pb (fst tx) (snd tx)) (enum_from 0 l))). split; [assumption|]. split.
  - intros t. rewrite M1, Nat.sub_0_r, H. split; intros [H1 H2]; (split; [lia|assumption]).
  - rewrite <- (map_map snd f), E1, map_map. apply map_ext. intros t. now rewrite Nat.sub_0_r.
Qed.

(* ---- subsequences ---- *)
Lemma subseq_filter_enum : forall A (p : nat * A -> bool) s (l : list A),
  subseq (map snd (filter p (enum_from s l))) l.
Proof.
  intros A p s l; revert s; induction l as [|x l IH]; intros s; [constructor|].
  rewrite enum_from_cons. cbn [filter]. destruct (p (s, x)); cbn [map snd].
  - apply subseq_take, IH.
  - apply subseq_skip, IH.
Qed.

Lemma subseq_map : forall A B (f : A -> B) s l, subseq s l -> subseq (map f s) (map f l).
Proof. intros A B f s l H; induction H; cbn; now constructor. Qed.

(* ---- firstn / skipn / app / repeat ---- *)
Lemma firstn_app_exact : forall A (a b : list A), firstn (length a) (a ++ b) = a.
Proof. intros. rewrite firstn_app, Nat.sub_diag, firstn_all. cbn. apply app_nil_r. Qed.

Lemma flat_map_map : forall A B C (f : A -> B) (g : B -> list C) l, flat_map g (map f l) = flat_map (fun a => g (f a)) l.
Proof. intros. induction l as [|a l IH]; [reflexivity|]. cbn. now rewrite IH. Qed.

Lemma flat_map_ext_in : forall A B (f g : A -> list B) l, (forall a, In a l -> f a = g a) -> flat_map f l = flat_map g l.
Proof.
  intros A B f g l; induction l as [|a l IH]; intros H; [reflexivity|]. cbn.
  rewrite (H a) by now left. rewrite IH; [reflexivity|]. intros; apply H; now right.
Qed.

Lemma flat_map_nil : forall A B (f : A -> list B) l, (forall a, In a l -> f a = []) -> flat_map f l = [].
Proof.
  intros A B f l; induction l as [|a l IH]; intros H; [reflexivity|]. cbn.
  rewrite (H a) by now left. apply IH. intros; apply H; now right.
Qed.

Lemma flat_map_singleton : forall A B (f : A -> B) l, flat_map (fun a => [f a]) l = map f l.
Proof. intros. induction l as [|a l IH]; [reflexivity|]. cbn. now rewrite IH. Qed.

Lemma filter_len_le : forall A (p : A -> bool) l, (length (filter p l) <= length l)%nat.
Proof. intros. induction l as [|a l IH]; [cbn; lia|]. cbn. destruct (p a); cbn; lia. Qed.

Lemma labelled_ext : forall per per' N, (forall n, (n < N)%nat -> per n = per' n) -> labelled per N = labelled per' N.
Proof.
  intros per per' N H. unfold labelled. apply flat_map_ext_in. intros n Hn. apply in_seq in Hn.
  rewrite H by lia. reflexivity.
Qed.

Lemma in_labelled : forall per N w (n : nat), In (w, Z.of_nat n) (labelled per N) -> (n < N)%nat /\ In w (per n).
Proof.
  intros per N w n Hin. unfold labelled in Hin.
  apply in_flat_map in Hin as (m & Hm & Hin). apply in_seq in Hm.
  apply in_map_iff in Hin as (w' & Heq & Hin). inversion Heq; subst w'.
  apply Nat2Z.inj in H1. subst m. split; [lia|assumption].
Qed.

Lemma flat_map_enum_seq : forall A B (f : nat * A -> list B) d (l : list A) s,
  flat_map f (enum_from s l) = flat_map (fun n => f (n, nth (n - s) l d)) (seq s (length l)).
Proof.
  intros A B f d l; induction l as [|x l IH]; intros s; [reflexivity|].
  rewrite enum_from_cons. cbn [flat_map length seq]. rewrite Nat.sub_diag. cbn [nth]. f_equal.
  rewrite IH. apply flat_map_ext_in. intros n Hn. apply in_seq in Hn.
  replace (n - s)%nat with (S (n - S s)) by lia. reflexivity.
Qed.

(* ---- lists as maps over seq ---- *)
Lemma list_as_map : forall A (l : list A) d, l = map (fun j => nth j l d) (seq 0 (length l)).
Proof.
  intros A l d. apply (nth_ext_eq _ _ _ d).
  - now rewrite map_length, seq_length.
  - intros i Hi. rewrite (nth_indep (map (fun j => nth j l d) (seq 0 (length l))) d (nth 0 l d))
      by (rewrite map_length, seq_length; lia).
    rewrite (map_nth (fun j => nth j l d) (seq 0 (length l)) 0%nat i), seq_nth by lia. reflexivity.
Qed.

Lemma map_seq_shift : forall A (f : nat -> A) s k n, map f (seq (s + k) n) = map (fun i => f (i + k)%nat) (seq s n).
Proof.
  intros A f s k n; revert s; induction n as [|n IH]; intros s; [reflexivity|].
  cbn [seq map]. f_equal. apply (IH (S s)).
Qed.

Lemma firstn_seq' : forall k s n, firstn k (seq s n) = seq s (Nat.min k n).
Proof.
  induction k as [|k IH]; intros s n; [reflexivity|]. destruct n as [|n]; [reflexivity|].
  cbn [seq firstn Nat.min]. f_equal. apply IH.
Qed.
Lemma skipn_seq' : forall k s n, skipn k (seq s n) = seq (s + k) (n - k).
Proof.
  induction k as [|k IH]; intros s n.
  - cbn [skipn]. f_equal; lia.
  - destruct n as [|n]; [reflexivity|]. cbn [seq skipn]. rewrite IH. f_equal; lia.
Qed.

Lemma firstn_map_seq0 : forall A (f : nat -> A) k n, firstn k (map f (seq 0 n)) = map f (seq 0 (Nat.min k n)).
Proof. intros. now rewrite firstn_map, firstn_seq'. Qed.

Lemma skipn_map_seq0 : forall A (f : nat -> A) k n,
  skipn k (map f (seq 0 n)) = map (fun i => f (i + k)%nat) (seq 0 (n - k)).
Proof. intros. rewrite skipn_map, skipn_seq', <- map_seq_shift. reflexivity. Qed.

Lemma seq_split : forall k n, (k <= n)%nat -> seq 0 n = seq 0 k ++ seq k (n - k).
Proof. intros k n H. rewrite <- seq_app. f_equal. lia. Qed.

Lemma sorted_seq : forall n s, StronglySorted lt (seq s n).
Proof.
  induction n as [|n IH]; intros s; cbn; constructor; [apply IH|].
  rewrite Forall_forall. intros t Ht. apply in_seq in Ht. lia.
Qed.

Lemma sorted_filter : forall (p : nat -> bool) l, StronglySorted lt l -> StronglySorted lt (filter p l).
Proof.
  intros p l H; induction H as [|x l H IH Hx]; cbn; [constructor|].
  destruct (p x); [|assumption]. constructor; [assumption|].
  rewrite Forall_forall in *. intros t Ht. apply filter_In in Ht as [Ht _]. now apply Hx.
Qed.

Lemma filter_flat_map : forall A B (p : B -> bool) (f : A -> list B) l,
  filter p (flat_map f l) = flat_map (fun a => filter p (f a)) l.
Proof. intros. induction l as [|a l IH]; [reflexivity|]. cbn. now rewrite filter_app, IH. Qed.

Lemma filter_map_comm : forall A B (p : B -> bool) (f : A -> B) l, filter p (map f l) = map f (filter (fun a => p (f a)) l).
Proof. intros. induction l as [|a l IH]; [reflexivity|]. cbn. destruct (p (f a)); cbn; now rewrite IH. Qed.

Lemma map_flat_map : forall A B C (g : B -> C) (f : A -> list B) l,
  map g (flat_map f l) = flat_map (fun a => map g (f a)) l.
Proof. intros. induction l as [|a l IH]; [reflexivity|]. cbn. now rewrite map_app, IH. Qed.

Lemma filter_ext_in : forall A (p q : A -> bool) l, (forall a, In a l -> p a = q a) -> filter p l = filter q l.
Proof.
  intros A p q l; induction l as [|a l IH]; intros H; [reflexivity|]. cbn.
  rewrite (H a) by now left. rewrite IH; [reflexivity|]. intros; apply H; now right.
Qed.

(* ---- block-structured concatenations ---- *)
Definition base {A} (ls : list (list A)) (n : nat) : nat := length (concat (firstn n ls)).

Lemma base_0 : forall A (ls : list (list A)), base ls 0 = 0%nat.
Proof. reflexivity. Qed.

Lemma base_cons_S : forall A (x : list A) ls n, base (x :: ls) (S n) = (length x + base ls n)%nat.
Proof. intros. unfold base. cbn. now rewrite app_length. Qed.

Lemma base_S : forall A (ls : list (list A)) n, (n < length ls)%nat ->
  base ls (S n) = (base ls n + length (nth n ls []))%nat.
Proof.
  intros A ls; induction ls as [|x ls IH]; intros n Hn; [cbn in Hn; lia|].
  destruct n as [|n].
  - rewrite base_cons_S, !base_0. cbn. lia.
  - cbn in Hn. rewrite !base_cons_S, IH by lia. cbn [nth]. lia.
Qed.

Lemma base_all : forall A (ls : list (list A)), base ls (length ls) = length (concat ls).
Proof. intros. unfold base. now rewrite firstn_all. Qed.

Lemma base_mono : forall A (ls : list (list A)) m n, (m <= n)%nat -> (base ls m <= base ls n)%nat.
Proof.
  intros A ls; induction ls as [|x ls IH]; intros m n H.
  - unfold base. rewrite !firstn_nil. lia.
  - destruct m as [|m]; [rewrite base_0; lia|]. destruct n as [|n]; [lia|].
    rewrite !base_cons_S. specialize (IH m n). lia.
Qed.

Lemma base_le_all : forall A (ls : list (list A)) n, (base ls n <= length (concat ls))%nat.
Proof.
  intros. destruct (Nat.le_gt_cases n (length ls)).
  - rewrite <- base_all. now apply base_mono.
  - unfold base. rewrite firstn_all2 by lia. lia.
Qed.

Lemma nth_concat : forall A (ls : list (list A)) n i d, (n < length ls)%nat -> (i < length (nth n ls []))%nat ->
  nth (base ls n + i) (concat ls) d = nth i (nth n ls []) d.
Proof.
  intros A ls; induction ls as [|x ls IH]; intros n i d Hn Hi; [cbn in Hn; lia|].
  destruct n as [|n]; cbn [concat nth length] in *.
  - rewrite base_0. cbn. now rewrite app_nth1.
  - rewrite base_cons_S, app_nth2 by lia. replace (length x + base ls n + i - length x)%nat with (base ls n + i)%nat by lia.
    apply IH; lia.
Qed.

Lemma seq_add_map : forall n k, seq k n = map (Nat.add k) (seq 0 n).
Proof.
  induction n as [|n IH]; intros k; [reflexivity|].
  cbn [seq map]. f_equal; [lia|]. rewrite <- (seq_shift n 0), map_map, (IH (S k)).
  apply map_ext. intros; lia.
Qed.

Lemma seq_concat : forall A (ls : list (list A)),
  seq 0 (length (concat ls))
  = flat_map (fun n => map (Nat.add (base ls n)) (seq 0 (length (nth n ls [])))) (seq 0 (length ls)).
Proof.
  intros A ls; induction ls as [|x ls IH]; [reflexivity|].
  cbn [concat length]. rewrite app_length, seq_app. cbn [seq flat_map nth Nat.add].
  rewrite base_0. f_equal.
  - cbn. now rewrite map_id.
  - rewrite <- seq_shift, flat_map_map.
    replace (seq (length x) (length (concat ls))) with (map (Nat.add (length x)) (seq 0 (length (concat ls)))).
    + rewrite IH, map_flat_map. apply flat_map_ext_in. intros n _. cbn [nth]. rewrite map_map, base_cons_S.
      apply map_ext. intros; lia.
    + symmetry. apply seq_add_map.
Qed.

Lemma locate : forall A (ls : list (list A)) q, (q < length (concat ls))%nat ->
  exists n i, (n < length ls)%nat /\ (i < length (nth n ls []))%nat /\ q = (base ls n + i)%nat.
Proof.
  intros A ls q Hq. assert (Hin : In q (seq 0 (length (concat ls)))) by (apply in_seq; lia).
  rewrite seq_concat in Hin. apply in_flat_map in Hin as (n & Hn & Hin). apply in_seq in Hn.
  apply in_map_iff in Hin as (i & Hq' & Hi). apply in_seq in Hi.
  exists n, i. repeat split; lia.
Qed.

Lemma nth_map_seq0 : forall A (f : nat -> A) n i d, (i < n)%nat -> nth i (map f (seq 0 n)) d = f i.
Proof.
  intros A f n i d Hi. rewrite (nth_indep _ d (f 0%nat)) by (rewrite map_length, seq_length; lia).
  rewrite (map_nth f (seq 0 n) 0%nat i), seq_nth by lia. reflexivity.
Qed.
