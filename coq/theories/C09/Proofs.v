(* C09 — central lemmas: flat masked_select / masked_scatter over a batch are row-wise
   operations as soon as the per-row counts agree; interval masks; the padding buffers. *)
From Coq Require Import List Arith Bool Lia ZArith ZifyBool ZifyNat.
From PV Require Import C09.Model C09.Spec.
Import ListNotations.
Local Open Scope nat_scope.

(* ---------- small list facts --------------------------------------------------------- *)
Section Lists.
  Context {A : Type}.

  Lemma firstn_app_exact (l1 l2 : list A) n : n = length l1 -> firstn n (l1 ++ l2) = l1.
  Proof.
    intros ->. rewrite firstn_app, Nat.sub_diag, firstn_all. cbn. apply app_nil_r.
  Qed.

  Lemma skipn_app_exact (l1 l2 : list A) n : n = length l1 -> skipn n (l1 ++ l2) = l2.
  Proof.
    intros ->. rewrite skipn_app, Nat.sub_diag, skipn_all. reflexivity.
  Qed.

  Lemma repeat_add (v : A) a b : repeat v (a + b) = repeat v a ++ repeat v b.
  Proof. apply repeat_app. Qed.

  Lemma firstn_repeat (v : A) n k : firstn n (repeat v k) = repeat v (Nat.min n k).
  Proof.
    revert k; induction n as [|n IH]; intros [|k]; cbn; try reflexivity. now rewrite IH.
  Qed.

  Lemma skipn_repeat (v : A) n k : skipn n (repeat v k) = repeat v (k - n).
  Proof.
    revert k; induction n as [|n IH]; intros [|k]; cbn; try reflexivity. apply IH.
  Qed.

  Lemma map_const_in {B} (f : B -> A) (c : A) (l : list B) :
    (forall x, In x l -> f x = c) -> map f l = repeat c (length l).
  Proof.
    induction l as [|x l IH]; intros H; cbn; [reflexivity|].
    rewrite H by (left; reflexivity). rewrite IH; [reflexivity|]. intros; apply H; now right.
  Qed.

  Lemma repeat_map_const {B} (c : A) (l : list B) : repeat c (length l) = map (fun _ => c) l.
  Proof. induction l; cbn; congruence. Qed.

  Lemma concat_map_nil {B} (l : list B) : concat (map (fun _ => @nil A) l) = [].
  Proof. induction l; cbn; auto. Qed.
End Lists.

(* ---------- flat select / scatter ------------------------------------------------------ *)
Section FlatLemmas.
  Context {A : Type}.

  (* what masked_scatter writes when the source is long enough (total version) *)
  Fixpoint place (m : list bool) (dst src : list A) : list A :=
    match m, dst with
    | b :: m', d :: dst' =>
        if b then match src with
                  | s :: src' => s :: place m' dst' src'
                  | [] => d :: place m' dst' []
                  end
        else d :: place m' dst' src
    | _, _ => []
    end.

  Lemma count_true_cons b m : count_true (b :: m) = (if b then 1 else 0) + count_true m.
  Proof. unfold count_true; destruct b; reflexivity. Qed.

  Lemma count_true_app m1 m2 : count_true (m1 ++ m2) = count_true m1 + count_true m2.
  Proof. unfold count_true. now rewrite filter_app, app_length. Qed.

  Lemma count_true_repeat b n : count_true (repeat b n) = if b then n else 0.
  Proof.
    induction n as [|n IH]; [destruct b; reflexivity|].
    cbn [repeat]. rewrite count_true_cons, IH. destruct b; lia.
  Qed.

  Lemma mselect_app m1 m2 (x1 x2 : list A) :
    length m1 = length x1 -> mselect (m1 ++ m2) (x1 ++ x2) = mselect m1 x1 ++ mselect m2 x2.
  Proof.
    revert x1; induction m1 as [|b m1 IH]; intros [|a x1] H; try discriminate; [reflexivity|].
    cbn in H |- *. destruct b; cbn; rewrite IH by lia; reflexivity.
  Qed.

  Lemma mselect_length m (x : list A) : length m = length x -> length (mselect m x) = count_true m.
  Proof.
    revert x; induction m as [|b m IH]; intros [|a x] H; try discriminate; [reflexivity|].
    rewrite count_true_cons. cbn in H |- *. destruct b; cbn; rewrite IH by lia; reflexivity.
  Qed.

  Lemma mselect_false n (x : list A) : mselect (repeat false n) x = [].
  Proof. revert x; induction n; intros [|a x]; cbn; auto. Qed.

  Lemma mselect_true n (x : list A) : length x = n -> mselect (repeat true n) x = x.
  Proof.
    revert x; induction n as [|n IH]; intros [|a x] H; try discriminate; [reflexivity|].
    cbn. rewrite IH by (cbn in H; lia). reflexivity.
  Qed.

  Lemma mscatter_app_exact m1 m2 (d1 d2 s1 s2 : list A) :
    length m1 = length d1 -> count_true m1 = length s1 ->
    mscatter (m1 ++ m2) (d1 ++ d2) (s1 ++ s2)
    = option_map (app (place m1 d1 s1)) (mscatter m2 d2 s2).
  Proof.
    revert d1 s1; induction m1 as [|b m1 IH]; intros [|d d1] s1 Hl Hc; try discriminate.
    - destruct s1; [|discriminate]. cbn. destruct (mscatter m2 d2 s2); reflexivity.
    - rewrite count_true_cons in Hc. cbn in Hl. destruct b.
      + destruct s1 as [|s s1]; [discriminate|]. cbn in Hc |- *.
        rewrite IH by lia. destruct (mscatter m2 d2 s2); reflexivity.
      + cbn in Hc |- *. rewrite IH by lia. destruct (mscatter m2 d2 s2); reflexivity.
  Qed.

  Lemma place_app m1 m2 (d1 d2 s1 s2 : list A) :
    length m1 = length d1 -> count_true m1 = length s1 ->
    place (m1 ++ m2) (d1 ++ d2) (s1 ++ s2) = place m1 d1 s1 ++ place m2 d2 s2.
  Proof.
    revert d1 s1; induction m1 as [|b m1 IH]; intros [|d d1] s1 Hl Hc; try discriminate.
    - destruct s1; [|discriminate]. reflexivity.
    - rewrite count_true_cons in Hc. cbn in Hl. destruct b.
      + destruct s1 as [|s s1]; [discriminate|]. cbn in Hc |- *. rewrite IH by lia. reflexivity.
      + cbn in Hc |- *. rewrite IH by lia. reflexivity.
  Qed.

  Lemma place_false n (d s : list A) : length d = n -> place (repeat false n) d s = d.
  Proof.
    revert d; induction n as [|n IH]; intros [|a d] H; try discriminate; [reflexivity|].
    cbn. rewrite IH by (cbn in H; lia). reflexivity.
  Qed.

  Lemma place_true n (d s : list A) : length d = n -> length s = n -> place (repeat true n) d s = s.
  Proof.
    revert d s; induction n as [|n IH]; intros [|a d] [|b s] H1 H2; try discriminate; [reflexivity|].
    cbn. rewrite IH by (cbn in H1, H2; lia). reflexivity.
  Qed.

  Lemma place_length m (d s : list A) : length m = length d -> length (place m d s) = length d.
  Proof.
    revert d s; induction m as [|b m IH]; intros [|a d] s H; try discriminate; [reflexivity|].
    cbn in H |- *. destruct b; [destruct s|]; cbn; rewrite IH by lia; reflexivity.
  Qed.

  (* ----- the central lemma: a flat select / scatter over the whole batch is row-wise
           whenever, in every row, the source holds as many cells as the mask selects ----- *)
  Lemma mselect_rows {R} (rows : list R) (mk : R -> list bool) (c : R -> list A) :
    (forall r, In r rows -> length (mk r) = length (c r)) ->
    select2 (map mk rows) (map c rows) = concat (map (fun r => mselect (mk r) (c r)) rows).
  Proof.
    unfold select2. induction rows as [|r rows IH]; intros H; [reflexivity|].
    cbn [map concat]. rewrite mselect_app by (apply H; now left).
    rewrite IH by (intros; apply H; now right). reflexivity.
  Qed.

  Lemma mscatter_rows {R} (rows : list R) (mk : R -> list bool) (dst buf : R -> list A) :
    (forall r, In r rows -> length (mk r) = length (dst r) /\ count_true (mk r) = length (buf r)) ->
    mscatter (concat (map mk rows)) (concat (map dst rows)) (concat (map buf rows))
    = Some (concat (map (fun r => place (mk r) (dst r) (buf r)) rows)).
  Proof.
    induction rows as [|r rows IH]; intros H; [reflexivity|].
    cbn [map concat]. destruct (H r (or_introl eq_refl)) as [H1 H2].
    rewrite mscatter_app_exact by assumption.
    rewrite IH by (intros; apply H; now right). reflexivity.
  Qed.

  Lemma unflatten_rows {R} (rows : list R) (g : R -> list A) W :
    (forall r, In r rows -> length (g r) = W) ->
    unflatten (length rows) W (concat (map g rows)) = map g rows.
  Proof.
    induction rows as [|r rows IH]; intros H; [reflexivity|].
    cbn [map concat length unflatten].
    rewrite firstn_app_exact, skipn_app_exact by (symmetry; apply H; now left).
    rewrite IH by (intros; apply H; now right). reflexivity.
  Qed.

  Lemma scatter2_rows {R} (rows : list R) W (mk : R -> list bool) (dst buf : R -> list A) :
    (forall r, In r rows -> length (mk r) = W /\ length (dst r) = W
                            /\ count_true (mk r) = length (buf r)) ->
    scatter2 (length rows) W (map mk rows) (map dst rows) (concat (map buf rows))
    = Ok (map (fun r => place (mk r) (dst r) (buf r)) rows).
  Proof.
    intros H. unfold scatter2. rewrite mscatter_rows.
    - rewrite unflatten_rows; [reflexivity|].
      intros r Hr. destruct (H r Hr) as (H1 & H2 & _). rewrite place_length; lia.
    - intros r Hr. destruct (H r Hr) as (H1 & H2 & H3). split; lia.
  Qed.

  (* ----- interval masks ----- *)
  Lemma interval_mask (phi : nat -> bool) a n W :
    a + n <= W ->
    (forall t, t < W -> phi t = (a <=? t) && (t <? a + n)) ->
    map phi (seq 0 W) = repeat false a ++ repeat true n ++ repeat false (W - (a + n)).
  Proof.
    intros Hle H.
    replace W with (a + (n + (W - (a + n)))) at 1 by lia.
    rewrite !seq_app, !map_app. cbn [plus].
    f_equal; [|f_equal].
    - rewrite (map_const_in phi false); [now rewrite seq_length|].
      intros t Ht. apply in_seq in Ht. rewrite H by lia. lia.
    - rewrite (map_const_in phi true); [now rewrite seq_length|].
      intros t Ht. apply in_seq in Ht. rewrite H by lia. lia.
    - rewrite (map_const_in phi false); [now rewrite seq_length|].
      intros t Ht. apply in_seq in Ht. rewrite H by lia. lia.
  Qed.

  (* the row is P ++ M ++ Q and the mask is true exactly on M's positions *)
  Definition seg_mask (phi : nat -> bool) (P M : list A) (W : nat) : Prop :=
    forall t, t < W -> phi t = (length P <=? t) && (t <? length P + length M).

  Lemma place_seg phi (P M Q buf : list A) W :
    length P + length M + length Q = W -> length buf = length M -> seg_mask phi P M W ->
    place (map phi (seq 0 W)) (P ++ M ++ Q) buf = P ++ buf ++ Q
    /\ count_true (map phi (seq 0 W)) = length buf
    /\ mselect (map phi (seq 0 W)) (P ++ M ++ Q) = M.
  Proof.
    intros HW Hb Hm.
    rewrite (interval_mask phi (length P) (length M) W) by (try lia; exact Hm).
    replace (W - (length P + length M)) with (length Q) by lia.
    repeat split.
    - replace buf with ([] ++ buf ++ []) at 1 by (cbn; apply app_nil_r).
      rewrite place_app by (rewrite ?repeat_length, ?count_true_repeat; reflexivity).
      rewrite place_app by (rewrite ?repeat_length, ?count_true_repeat; lia).
      rewrite !place_false, place_true by lia. reflexivity.
    - rewrite !count_true_app, !count_true_repeat. lia.
    - rewrite !mselect_app by (rewrite repeat_length; reflexivity).
      rewrite !mselect_false, mselect_true by reflexivity. cbn. apply app_nil_r.
  Qed.

  Lemma scatter2_seg {R} (rows : list R) (phi : R -> nat -> bool) W (P M Q buf : R -> list A) :
    (forall r, In r rows -> length (P r) + length (M r) + length (Q r) = W
                            /\ length (buf r) = length (M r) /\ seg_mask (phi r) (P r) (M r) W) ->
    scatter2 (length rows) W (map (fun r => map (phi r) (seq 0 W)) rows)
             (map (fun r => P r ++ M r ++ Q r) rows) (concat (map buf rows))
    = Ok (map (fun r => P r ++ buf r ++ Q r) rows).
  Proof.
    intros H.
    rewrite (scatter2_rows rows W (fun r => map (phi r) (seq 0 W)) (fun r => P r ++ M r ++ Q r) buf).
    - f_equal. apply map_ext_in. intros r Hr. destruct (H r Hr) as (H1 & H2 & H3).
      apply (place_seg (phi r) (P r) (M r) (Q r) (buf r) W H1 H2 H3).
    - intros r Hr. destruct (H r Hr) as (H1 & H2 & H3).
      rewrite map_length, seq_length, !app_length. split; [reflexivity|]. split; [lia|].
      apply (place_seg (phi r) (P r) (M r) (Q r) (buf r) W H1 H2 H3).
  Qed.

  Lemma select2_seg {R} (rows : list R) (phi : R -> nat -> bool) W (P M Q : R -> list A) :
    (forall r, In r rows -> length (P r) + length (M r) + length (Q r) = W
                            /\ seg_mask (phi r) (P r) (M r) W) ->
    select2 (map (fun r => map (phi r) (seq 0 W)) rows) (map (fun r => P r ++ M r ++ Q r) rows)
    = concat (map M rows).
  Proof.
    intros H. rewrite mselect_rows.
    - f_equal. apply map_ext_in. intros r Hr. destruct (H r Hr) as (H1 & H3).
      apply (place_seg (phi r) (P r) (M r) (Q r) (M r) W H1 eq_refl H3).
    - intros r Hr. destruct (H r Hr) as (H1 & _).
      rewrite map_length, seq_length, !app_length. lia.
  Qed.
End FlatLemmas.
