(* C16 — the history file under crashes: it is always a prefix of the uninterrupted one, and
   continuing ends with the uninterrupted one.  Every retention mode, every format. *)
From Coq Require Import List Arith Bool ZArith Lia.
From PV Require Import C16.Model C16.Spec C16.Proofs.
Import ListNotations.

(* ---------- one update appends exactly one row ---------------------------- *)

Lemma flat_map_appended_removes l : flat_map appended (map Remove l) = [].
Proof. induction l; cbn; auto. Qed.

Lemma flat_map_appended_save P cn e v : flat_map appended (save_ops P cn e v) = [].
Proof. reflexivity. Qed.

Lemma some_pair_inv {A B} (a x : A) (b y : B) : Some (a, b) = Some (x, y) -> a = x /\ b = y.
Proof. intros H; injection H; auto. Qed.

Lemma update_ops_appends P d c tr va cn v ro ops r :
  update_ops P d c tr va cn v ro = Some (ops, r) ->
  r = mkRow (S (last_epoch c)) tr va v /\ flat_map appended ops = [r].
Proof.
  unfold update_ops. cbv zeta. intros H.
  destruct (klb P).
  - destruct (negb _ && _); [discriminate|].
    destruct (Nat.eqb _ (S (last_epoch c) - 1)).
    + apply some_pair_inv in H as [<- <-]. split; [reflexivity|].
      rewrite flat_map_app, flat_map_appended_save. reflexivity.
    + apply some_pair_inv in H as [<- <-]. split; [reflexivity|].
      rewrite !flat_map_app, flat_map_appended_save, flat_map_appended_removes.
      destruct (mem _ _ || mem _ _); reflexivity.
  - apply some_pair_inv in H as [<- <-]. split; [reflexivity|].
    rewrite !flat_map_app, flat_map_appended_save.
    destruct (exists_b _ _ || exists_b _ _); reflexivity.
Qed.

Lemma prefix_appends ops (r : row) k :
  flat_map appended ops = [r] ->
  flat_map appended (firstn k ops) = [] \/ flat_map appended (firstn k ops) = [r].
Proof.
  intros H. rewrite <- (firstn_skipn k ops), flat_map_app in H.
  destruct (flat_map appended (firstn k ops)) as [|x [|y t]]; [left; reflexivity| |].
  - right. cbn in H. injection H as -> _. reflexivity.
  - cbn in H. injection H as _ H. discriminate.
Qed.

Lemma firstn_all2 {A} (l : list A) k : length l <= k -> firstn k l = l.
Proof. apply firstn_all2. Qed.

(* ---------- the history table ---------------------------------------------- *)

Lemma hist_from_fst e l n : n <= length l -> map fst (firstn n (hist_from e l)) = seq e n.
Proof.
  revert e l; induction n as [|n IH]; intros e [|m t] H; cbn in *; try reflexivity; try lia.
  f_equal. apply IH. lia.
Qed.

Lemma hist_from_step e l n x rest :
  skipn n l = x :: rest ->
  firstn (S n) (hist_from e l) = firstn n (hist_from e l) ++ [(e + n, x)].
Proof.
  revert e l; induction n as [|n IH]; intros e [|m t] H; cbn [skipn] in H; try discriminate.
  - injection H as -> ->. cbn. rewrite Nat.add_0_r. reflexivity.
  - cbn [hist_from]. rewrite !firstn_cons, (IH (S e) t H). cbn [app].
    replace (S e + n) with (e + S n) by lia. reflexivity.
Qed.

Lemma skipn_cons_length {A} n (l : list A) x rest : skipn n l = x :: rest -> n < length l.
Proof.
  revert l; induction n as [|n IH]; intros [|y t] H; cbn in *; try discriminate; try lia.
  apply IH in H. lia.
Qed.

Lemma skipn_cons_S {A} n (l : list A) x rest : skipn n l = x :: rest -> skipn (S n) l = rest.
Proof.
  revert l; induction n as [|n IH]; intros [|y t] H; cbn [skipn] in *; try discriminate.
  - injection H as _ ->. reflexivity.
  - apply IH in H. exact H.
Qed.

(* the recorded history is the first n rows of the table *)
Definition wfh (E : env) (d : disk) (n : nat) : Prop :=
  n <= length (ms E) /\ map hrow (csv d) = firstn n (hist_from 1 (ms E)).

Lemma wfh_epochs E d n : wfh E d n -> map r_epoch (csv d) = seq 1 n.
Proof.
  intros [Hn H]. rewrite <- (hist_from_fst 1 (ms E) n Hn), <- H, map_map. reflexivity.
Qed.

Lemma wfh_cache E d n : wfh E d n -> read_cache (csv d) = csv d /\ last_epoch (csv d) = n.
Proof.
  intros H. pose proof (wfh_epochs E d n H) as He. split.
  - apply read_cache_nodup. rewrite He. apply seq_NoDup.
  - apply last_epoch_seq; exact He.
Qed.

Lemma wfh_attempt P E d n cn ops r :
  wfh E d n -> attempt P E d cn = Some (Some (ops, r)) ->
  exists tr va rest, skipn n (ms E) = (tr, va) :: rest /\
    update_ops P d (csv d) tr va cn (pv E cn) (ro E cn) = Some (ops, r).
Proof.
  intros Hw H. unfold attempt in H. destruct (wfh_cache E d n Hw) as [Hc Hl].
  rewrite Hc, Hl in H. destruct (skipn n (ms E)) as [|[tr va] rest] eqn:Es; [discriminate|].
  injection H as H. exists tr, va, rest. split; [reflexivity|exact H].
Qed.

Lemma wfh_step P E d n cn ops r k :
  wfh E d n -> attempt P E d cn = Some (Some (ops, r)) ->
  let d' := apply_ops d (firstn k ops) in
  (csv d' = csv d /\ wfh E d' n) \/ (csv d' = csv d ++ [r] /\ wfh E d' (S n) /\ r_epoch r = S n).
Proof.
  intros Hw Ha d'. destruct (wfh_attempt P E d n cn ops r Hw Ha) as (tr & va & rest & Es & Hu).
  destruct (wfh_cache E d n Hw) as [Hc Hl].
  apply update_ops_appends in Hu as [Hr Happ]. rewrite Hl in Hr.
  unfold d'. destruct (prefix_appends ops r k Happ) as [H0|H1].
  - left. rewrite apply_ops_csv, H0, app_nil_r. split; [reflexivity|].
    destruct Hw as [Hn Hh]. split; [exact Hn|]. rewrite apply_ops_csv, H0, app_nil_r. exact Hh.
  - right. rewrite apply_ops_csv, H1. split; [reflexivity|]. split; [|subst r; reflexivity].
    destruct Hw as [Hn Hh]. split.
    + apply skipn_cons_length in Es. lia.
    + rewrite apply_ops_csv, H1, map_app, Hh, (hist_from_step 1 (ms E) n (tr, va) rest Es).
      subst r. reflexivity.
Qed.

Lemma reach_wfh P E d cn : reach P E d cn -> exists n, wfh E d n.
Proof.
  induction 1 as [|d cn ops r k _ [n Hw] Ha].
  - exists 0. split; [lia|reflexivity].
  - destruct (wfh_step P E d n cn ops r k Hw Ha) as [[_ H]|[_ [H _]]]; eauto.
Qed.

(* ---------- decisions depend on epochs and metrics only --------------------- *)

Lemma last_epoch_hrow c1 c2 : map hrow c1 = map hrow c2 -> last_epoch c1 = last_epoch c2.
Proof.
  intros H. apply hrow_epochs in H. unfold last_epoch. generalize 0.
  revert c2 H; induction c1 as [|x t IH]; intros [|y u] H m; try discriminate; [reflexivity|].
  cbn [map] in H. injection H as Hxy Ht. cbn [fold_left]. rewrite Hxy. apply IH; exact Ht.
Qed.

Lemma cache_set_hrow r1 r2 c1 c2 :
  hrow r1 = hrow r2 -> map hrow c1 = map hrow c2 ->
  map hrow (cache_set r1 c1) = map hrow (cache_set r2 c2).
Proof.
  intros Hr. assert (Er : r_epoch r1 = r_epoch r2) by (unfold hrow in Hr; injection Hr; auto).
  revert c2; induction c1 as [|x t IH]; intros [|y u] H; try discriminate; cbn [cache_set map].
  - rewrite Hr; reflexivity.
  - cbn [map] in H.
    pose proof (f_equal (@hd _ (hrow x)) H) as Hxy. pose proof (f_equal (@tl _) H) as Ht.
    cbn [hd tl] in Hxy, Ht.
    assert (Ex : r_epoch x = r_epoch y) by (unfold hrow in Hxy; injection Hxy; auto).
    rewrite Ex, Er. destruct (Nat.eqb (r_epoch y) (r_epoch r2)); cbn [map].
    + rewrite Hr, Ht; reflexivity.
    + rewrite Hxy, (IH u Ht); reflexivity.
Qed.

Lemma update_ops_none_hrow P d1 d2 c1 c2 tr va cn1 cn2 v1 v2 ro1 ro2 :
  map hrow c1 = map hrow c2 ->
  (update_ops P d1 c1 tr va cn1 v1 ro1 = None <-> update_ops P d2 c2 tr va cn2 v2 ro2 = None).
Proof.
  intros H. unfold update_ops. cbv zeta.
  rewrite (last_epoch_hrow c1 c2 H).
  set (e := S (last_epoch c2)).
  assert (Hb : best_epoch (bt P) (cache_set (mkRow e tr va v1) c1) =
               best_epoch (bt P) (cache_set (mkRow e tr va v2) c2)).
  { apply best_epoch_hrow, cache_set_hrow; [reflexivity|exact H]. }
  rewrite Hb.
  destruct (klb P); [|split; discriminate].
  destruct (negb _ && _); [tauto|].
  destruct (Nat.eqb _ (e - 1)); split; discriminate.
Qed.

(* ---------- continuing gives the uninterrupted history ---------------------- *)

Definition disk_of (x : disk * nat * outcome * list logent) : disk := fst (fst (fst x)).

Lemma seg_cons_none P E tr va rest d c cn :
  update_ops P d c tr va cn (pv E cn) (ro E cn) = None ->
  disk_of (seg P E ((tr, va) :: rest) d c cn None) = d.
Proof. intros H. cbn [seg]. rewrite H. reflexivity. Qed.

Lemma seg_cons_some P E tr va rest d c cn ops r :
  update_ops P d c tr va cn (pv E cn) (ro E cn) = Some (ops, r) ->
  disk_of (seg P E ((tr, va) :: rest) d c cn None) =
  disk_of (seg P E rest (apply_ops d ops) (cache_set r c) (S cn) None).
Proof.
  intros H. cbn [seg]. rewrite H.
  destruct (seg P E rest (apply_ops d ops) (cache_set r c) (S cn) None) as [[[d'' cn'] oc] lg].
  reflexivity.
Qed.

Lemma seg_congr P E rest : forall d1 d2 c1 c2 cn1 cn2,
  map hrow c1 = map hrow c2 -> map hrow (csv d1) = map hrow (csv d2) ->
  map hrow (csv (disk_of (seg P E rest d1 c1 cn1 None))) =
  map hrow (csv (disk_of (seg P E rest d2 c2 cn2 None))).
Proof.
  induction rest as [|[tr va] rest IH]; intros d1 d2 c1 c2 cn1 cn2 Hc Hd; [exact Hd|].
  destruct (update_ops P d1 c1 tr va cn1 (pv E cn1) (ro E cn1)) as [[ops1 r1]|] eqn:U1.
  - destruct (update_ops P d2 c2 tr va cn2 (pv E cn2) (ro E cn2)) as [[ops2 r2]|] eqn:U2.
    + rewrite (seg_cons_some P E tr va rest d1 c1 cn1 ops1 r1 U1),
              (seg_cons_some P E tr va rest d2 c2 cn2 ops2 r2 U2).
      apply update_ops_appends in U1 as [R1 A1]. apply update_ops_appends in U2 as [R2 A2].
      assert (Hr : hrow r1 = hrow r2).
      { subst r1 r2. unfold hrow; cbn. rewrite (last_epoch_hrow c1 c2 Hc). reflexivity. }
      apply IH.
      * apply cache_set_hrow; assumption.
      * rewrite !apply_ops_csv, A1, A2, !map_app, Hd. cbn [map]. rewrite Hr. reflexivity.
    + exfalso. apply (update_ops_none_hrow P d1 d2 c1 c2 tr va cn1 cn2 (pv E cn1) (pv E cn2) (ro E cn1) (ro E cn2) Hc) in U2. congruence.
  - destruct (update_ops P d2 c2 tr va cn2 (pv E cn2) (ro E cn2)) as [[ops2 r2]|] eqn:U2.
    + exfalso. apply (update_ops_none_hrow P d1 d2 c1 c2 tr va cn1 cn2 (pv E cn1) (pv E cn2) (ro E cn1) (ro E cn2) Hc) in U1. congruence.
    + rewrite (seg_cons_none P E tr va rest d1 c1 cn1 U1), (seg_cons_none P E tr va rest d2 c2 cn2 U2).
      exact Hd.
Qed.

Lemma final_unfold P E d cn :
  final P E d cn = disk_of (seg P E (skipn (last_epoch (read_cache (csv d))) (ms E)) d (read_cache (csv d)) cn None).
Proof. reflexivity. Qed.

Lemma continue_same_history P E d cn :
  reach P E d cn ->
  map hrow (csv (final P E d cn)) = map hrow (csv (final P E empty_disk 0)).
Proof.
  induction 1 as [|d cn ops r k Hre IH Ha]; [reflexivity|].
  destruct (reach_wfh P E d cn Hre) as [n Hw].
  destruct (wfh_attempt P E d n cn ops r Hw Ha) as (tr & va & rest & Es & Hu).
  destruct (wfh_cache E d n Hw) as [Hc Hl].
  rewrite <- IH. rewrite (final_unfold P E d cn), Hc, Hl, Es.
  rewrite (seg_cons_some P E tr va rest d (csv d) cn ops r Hu).
  pose proof (update_ops_appends _ _ _ _ _ _ _ _ _ _ Hu) as [Hr Happ].
  destruct (wfh_step P E d n cn ops r k Hw Ha) as [[Hcsv Hw']|[Hcsv [Hw' He]]].
  - (* the row was not yet appended: the retry redoes the same update *)
    destruct (wfh_cache E _ n Hw') as [Hc' Hl'].
    rewrite final_unfold, Hc', Hl', Es, Hcsv.
    destruct (update_ops P (apply_ops d (firstn k ops)) (csv d) tr va (S cn) (pv E (S cn)) (ro E (S cn)))
      as [[ops2 r2]|] eqn:U2.
    + rewrite (seg_cons_some P E tr va rest _ (csv d) (S cn) ops2 r2 U2).
      pose proof (update_ops_appends _ _ _ _ _ _ _ _ _ _ U2) as [Hr2 Happ2].
      assert (Hrr : hrow r2 = hrow r) by (subst r r2; reflexivity).
      apply seg_congr.
      * apply cache_set_hrow; [exact Hrr|reflexivity].
      * rewrite (apply_ops_csv ops2), (apply_ops_csv ops), Happ, Happ2, Hcsv, !map_app. cbn [map]. rewrite Hrr. reflexivity.
    + exfalso. apply (update_ops_none_hrow P (apply_ops d (firstn k ops)) d (csv d) (csv d) tr va (S cn) cn
                         (pv E (S cn)) (pv E cn) (ro E (S cn)) (ro E cn) eq_refl) in U2.
      congruence.
  - (* the row is there: the new process starts at the next epoch *)
    destruct (wfh_cache E _ (S n) Hw') as [Hc' Hl'].
    rewrite final_unfold, Hc', Hl', (skipn_cons_S n (ms E) (tr, va) rest Es).
    apply seg_congr.
    + rewrite Hcsv. rewrite cache_set_fresh; [reflexivity|].
      rewrite (wfh_epochs E d n Hw), He. intros Hin. apply in_seq in Hin. lia.
    + rewrite Hcsv, apply_ops_csv, Happ. reflexivity.
Qed.

(* the history only grows *)
Lemma seg_grows P E rest : forall d c cn, exists l, csv (disk_of (seg P E rest d c cn None)) = csv d ++ l.
Proof.
  induction rest as [|[tr va] rest IH]; intros d c cn.
  - exists []. cbn. rewrite app_nil_r. reflexivity.
  - destruct (update_ops P d c tr va cn (pv E cn) (ro E cn)) as [[ops r]|] eqn:U.
    + rewrite (seg_cons_some P E tr va rest d c cn ops r U).
      destruct (IH (apply_ops d ops) (cache_set r c) (S cn)) as [l Hl].
      rewrite Hl, apply_ops_csv, <- app_assoc. eexists; reflexivity.
    + rewrite (seg_cons_none P E tr va rest d c cn U). exists []. rewrite app_nil_r. reflexivity.
Qed.

Lemma crash_history_is_prefix P E d cn :
  reach P E d cn ->
  map hrow (csv d) = firstn (length (csv d)) (map hrow (csv (final P E empty_disk 0))).
Proof.
  intros H. rewrite <- (continue_same_history P E d cn H).
  destruct (seg_grows P E (skipn (last_epoch (read_cache (csv d))) (ms E)) d (read_cache (csv d)) cn) as [l Hl].
  rewrite final_unfold, Hl, map_app.
  rewrite <- (map_length hrow (csv d)), firstn_app, Nat.sub_diag, firstn_all. cbn. rewrite app_nil_r. reflexivity.
Qed.
