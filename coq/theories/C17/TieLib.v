(* C17 - source tie, common part: the encodings are inverted by the decoders, how the interpreter's
   generic clauses treat an encoded tensor, and the stepping tactics.  No statement about the source yet. *)
From Coq Require Import ZArith QArith List String Bool Arith Lia ZifyBool ZifyNat.
From PV Require Import C11.Model C17.Model.
From PV Require Import MiniPy.Syntax MiniPy.Interp MiniTorch.OpsC17 MiniTorch.ValueC17 C17.SrcRun.
Import ListNotations.
Local Open Scope string_scope.

Lemma dec_ints_enc : forall v, dec_ints (map VInt v) = Some v.
Proof. induction v as [|z v IH]; [reflexivity|]. cbn [map dec_ints]. now rewrite IH. Qed.

Lemma dec_bools_enc : forall v, dec_bools (map VBool v) = Some v.
Proof. induction v as [|z v IH]; [reflexivity|]. cbn [map dec_bools]. now rewrite IH. Qed.

Lemma dec_rows_ints : forall rows, dec_rows dec_ints (map enc_ints rows) = Some rows.
Proof.
  induction rows as [|r rows IH]; [reflexivity|]. cbn [map dec_rows enc_ints]. now rewrite dec_ints_enc, IH.
Qed.

Lemma dec_rows_bools : forall rows, dec_rows dec_bools (map enc_bools rows) = Some rows.
Proof.
  induction rows as [|r rows IH]; [reflexivity|]. cbn [map dec_rows enc_bools]. now rewrite dec_bools_enc, IH.
Qed.

Lemma dec17_enc17 : forall t, dec17 (enc17 t) = Some t.
Proof.
  intros [v|w rows|v|w rows]; unfold dec17, enc17, enc_ints, enc_bools, long_tag, bool_tag.
  - cbn. now rewrite dec_ints_enc.
  - replace (Z.of_nat w <? 0)%Z with false by lia. cbn. fold (enc_ints). rewrite dec_rows_ints, Nat2Z.id. reflexivity.
  - cbn. now rewrite dec_bools_enc.
  - replace (Z.of_nat w <? 0)%Z with false by lia. cbn. rewrite dec_rows_bools, Nat2Z.id. reflexivity.
Qed.

Lemma operand_enc17 : forall t, operand (enc17 t) = Some (OT t).
Proof. intros t. unfold operand. rewrite dec17_enc17. destruct t; reflexivity. Qed.

Lemma on1_enc : forall why t k st, on1 why (enc17 t) k st = ret17 why (k t) st.
Proof. intros. unfold on1. now rewrite dec17_enc17. Qed.

Lemma on2_enc : forall why t u k st, on2 why (enc17 t) (enc17 u) k st = ret17 why (k t u) st.
Proof. intros. unfold on2. now rewrite !dec17_enc17. Qed.

Lemma on1v_enc : forall why t k st,
  on1v why (enc17 t) k st
  = match k t with Some r => Ok r st | None => Stuck ("MiniTorch(C17): outside the modelled domain: " ++ why) end.
Proof. intros. unfold on1v. now rewrite dec17_enc17. Qed.

Lemma dec_tensor_enc : forall t, dec_tensor (enc_tensor t) = Some t.
Proof. intros t. unfold dec_tensor, enc_tensor. rewrite dec17_enc17. destruct t; reflexivity. Qed.

(* ---- the interpreter's own clauses on an encoded tensor ---- *)
Lemma method_enc17 : forall t m args, method (enc17 t) m args = None.
Proof. intros [| | |]; reflexivity. Qed.
Lemma foreign_enc17 : forall t, foreign (enc17 t) = true.
Proof. intros [| | |]; reflexivity. Qed.
Lemma subscript_enc17 : forall t k st, subscript (enc17 t) (VTuple k) st = Stuck "subscript".
Proof. intros [| | |]; reflexivity. Qed.
Lemma attribute_enc17 : forall ext t a st, attribute ext (enc17 t) a st = ext ("$attr." ++ a) [enc17 t] [] st.
Proof. intros ext [| | |]; reflexivity. Qed.
Lemma binop_sub_enc17 : forall t u st, binop_eval Sub (enc17 t) (enc17 u) st = Stuck "sub".
Proof. intros [| | |] [| | |]; reflexivity. Qed.
Lemma binop_and_enc17 : forall t u st, binop_eval BitAnd (enc17 t) (enc17 u) st = Stuck "and".
Proof. intros [| | |] [| | |]; reflexivity. Qed.
Lemma dec_ix_enc17 : forall t, dec_ix (enc17 t) = None.
Proof. intros [| | |]; reflexivity. Qed.
Lemma getitem_mask : forall x m, getitem x (enc17 m) = option_map enc17 (masked x m).
Proof.
  intros x m. unfold getitem. rewrite dec_ix_enc17, dec17_enc17.
  destruct m; reflexivity.
Qed.
Lemma truthy_enc17 : forall t, truthy (enc17 t) = true.
Proof. intros [| | |]; reflexivity. Qed.
Lemma is_none_enc17 : forall t, cmp_eval IsNot (enc17 t) VNone = Some true.
Proof. intros [| | |]; reflexivity. Qed.

Lemma run_of_exec : forall ext body vars0 st,
  exec ext body (mkState vars0 []) = Ok CNormal st -> Interp.run ext body vars0 = Ok VNone st.
Proof. intros ext body vars0 st H. unfold Interp.run. now rewrite H. Qed.

Lemma run_of_exec_ret : forall ext body vars0 v st,
  exec ext body (mkState vars0 []) = Ok (CReturn v) st -> Interp.run ext body vars0 = Ok v st.
Proof. intros ext body vars0 v st H. unfold Interp.run. now rewrite H. Qed.

Lemma run_of_exec_exc : forall ext body vars0 n st,
  exec ext body (mkState vars0 []) = Exc n st -> Interp.run ext body vars0 = Exc n st.
Proof. intros ext body vars0 n st H. unfold Interp.run. now rewrite H. Qed.

(* ---- running a body one statement at a time (the statements that follow are hidden behind a variable) ---- *)
Definition then_ (ext : string -> list val -> list (string * val) -> state -> outcome val) (b : stmt)
  : ctl -> state -> outcome ctl :=
  fun c st1 => match c with CNormal => exec ext b st1 | CReturn v => Ok c st1 end.
Lemma exec_seq' : forall ext a b st, exec ext (SSeq a b) st = bind (exec ext a st) (then_ ext b).
Proof. reflexivity. Qed.
Lemma then_normal : forall ext b st, then_ ext b CNormal st = exec ext b st.
Proof. reflexivity. Qed.
Lemma then_return : forall ext b v st, then_ ext b (CReturn v) st = Ok (CReturn v) st.
Proof. reflexivity. Qed.

Ltac open_seq :=
  rewrite exec_seq'; match goal with |- context [then_ _ ?b] => let r := fresh "rest" in remember b as r end.
Ltac norm_state := unfold set_var; cbn [update vars events String.eqb Ascii.eqb Bool.eqb].
Ltac close_stmt :=
  norm_state; rewrite then_normal; match goal with H : ?r = _ |- context [exec _ ?r _] => subst r end.

(* what is observed of a run: how it ended (normally / the exception's name) and the events it emitted *)
Definition obs (o : outcome ctl) : option (option string * list event) :=
  match o with
  | Ok CNormal st => Some (None, events st)
  | Exc n st => Some (Some n, events st)
  | _ => None
  end.

(* the observation a worker run must give for a model outcome [m] and an output path [p] *)
Definition exp_of (m : out tensor) (p : val) : option string * list event :=
  match m with
  | Done a => (None, [save_event (enc_tensor a) p])
  | Fail e => (Some (name_of_err e), [])
  end.

(* the same as a statement about Interp.run *)
Definition worker_outcome (o : outcome val) (p : val) (m : out tensor) : Prop :=
  match m with
  | Done a => exists st, o = Ok VNone st /\ events st = [save_event (enc_tensor a) p]
  | Fail e => exists st, o = Exc (name_of_err e) st /\ events st = []
  end.

Lemma worker_of_obs : forall ext body vars0 m p,
  obs (exec ext body (mkState vars0 [])) = Some (exp_of m p) -> worker_outcome (Interp.run ext body vars0) p m.
Proof.
  intros ext body vars0 m p H. unfold Interp.run, worker_outcome.
  destruct (exec ext body (mkState vars0 [])) as [[|v] st|n st|w]; cbn [obs] in H; try discriminate;
    destruct m as [a|e]; cbn [exp_of] in H; inversion H; subst; eexists; split; reflexivity || eassumption.
Qed.

Lemma exec_if' : forall ext c t f st,
  exec ext (SIf c t f) st = bind (eval ext c st) (fun cv st1 => if truthy cv then exec ext t st1 else exec ext f st1).
Proof. reflexivity. Qed.

(* evaluate the test of an `if` statement with both branches hidden behind variables *)
Ltac open_if :=
  match goal with
  | |- context [exec ?e (SIf ?c ?t ?f) ?st] =>
      let bt := fresh "bt" in let bf := fresh "bf" in
      remember t as bt; remember f as bf; rewrite (exec_if' e c bt bf st)
  end.

Lemma subscript_enc17_t : forall t k st, subscript (enc17 t) (enc17 k) st = Stuck "subscript".
Proof. intros [| | |] [| | |]; reflexivity. Qed.
