(* C08 - lemmas about the draws in exact arithmetic (all variates in [0,1) over Q). *)
From Coq Require Import List ZArith QArith Qround Qabs Bool Lia Lqa.
From PV Require Import C08.Model C08.Spec.
Import ListNotations.
Local Open Scope Q_scope.

(* ---- qmin / qmax ---------------------------------------------------------------- *)
Lemma qmin_l : forall x y, qmin x y <= x.
Proof.
  intros x y; unfold qmin; destruct (Qle_bool x y) eqn:E; [apply Qle_refl|].
  apply Qlt_le_weak, Qnot_le_lt; intro H; apply Qle_bool_iff in H; congruence.
Qed.
Lemma qmin_r : forall x y, qmin x y <= y.
Proof.
  intros x y; unfold qmin; destruct (Qle_bool x y) eqn:E; [now apply Qle_bool_iff|apply Qle_refl].
Qed.
Lemma qmin_glb : forall x y z, z <= x -> z <= y -> z <= qmin x y.
Proof. intros x y z; unfold qmin; destruct (Qle_bool x y); auto. Qed.
Lemma qmax_l : forall x y, x <= qmax x y.
Proof.
  intros x y; unfold qmax; destruct (Qle_bool x y) eqn:E; [now apply Qle_bool_iff|apply Qle_refl].
Qed.
Lemma qmax_r : forall x y, y <= qmax x y.
Proof.
  intros x y; unfold qmax; destruct (Qle_bool x y) eqn:E; [apply Qle_refl|].
  apply Qlt_le_weak, Qnot_le_lt; intro H; apply Qle_bool_iff in H; congruence.
Qed.
Lemma qmax_lub : forall x y z, x <= z -> y <= z -> qmax x y <= z.
Proof. intros x y z; unfold qmax; destruct (Qle_bool x y); auto. Qed.

(* ---- floor / trunc ---------------------------------------------------------------- *)
Lemma z2q_nonneg : forall M, (0 <= M)%Z -> 0 <= z2q M.
Proof. intros M H. unfold z2q. change 0 with (inject_Z 0). rewrite <- Zle_Qle. exact H. Qed.
Lemma z2q_le : forall x y, (x <= y)%Z -> z2q x <= z2q y.
Proof. intros x y H. unfold z2q. rewrite <- Zle_Qle. exact H. Qed.
Lemma z2q_le_inv : forall x y, z2q x <= z2q y -> (x <= y)%Z.
Proof. intros x y H. unfold z2q in H. rewrite <- Zle_Qle in H. exact H. Qed.
Lemma z2q_plus1 : forall M, z2q (M + 1) == z2q M + 1.
Proof. intros; unfold z2q; rewrite inject_Z_plus; reflexivity. Qed.

Lemma floor_lt_Z : forall x M, x < z2q (M + 1) -> (Qfloor x <= M)%Z.
Proof.
  intros x M H. assert (L : inject_Z (Qfloor x) < inject_Z (M + 1)).
  { eapply Qle_lt_trans; [apply Qfloor_le|exact H]. }
  rewrite <- Zlt_Qlt in L. lia.
Qed.

Lemma floor_nonneg : forall x, 0 <= x -> (0 <= Qfloor x)%Z.
Proof. intros x H. change 0%Z with (Qfloor (inject_Z 0)). apply Qfloor_resp_le. exact H. Qed.

Lemma floor_le_self : forall x, z2q (Qfloor x) <= x.
Proof. intro; apply Qfloor_le. Qed.

Lemma qtrunc_nonneg : forall x, 0 <= x -> qtrunc x = Qfloor x.
Proof. intros x H; unfold qtrunc. apply Qle_bool_iff in H. now rewrite H. Qed.

Lemma qtrunc_comp : forall x y, x == y -> qtrunc x = qtrunc y.
Proof.
  intros x y H. unfold qtrunc.
  assert (B : Qle_bool 0 x = Qle_bool 0 y) by (apply Qleb_comp; [reflexivity|exact H]).
  rewrite B, (Qfloor_comp x y H), (Qfloor_comp (- x) (- y)) by (rewrite H; reflexivity).
  reflexivity.
Qed.

(* the epsilon trick over Q: floor (u * (M + 1 - eps)) is in 0..M *)
Lemma trunc_scaled : forall u eps (M : Z),
  0 <= u -> u < 1 -> 0 < eps -> eps <= 1 -> (0 <= M)%Z ->
  (0 <= qtrunc (u * (z2q M + (1 - eps))) <= M)%Z.
Proof.
  intros u eps M Hu0 Hu1 He0 He1 HM.
  assert (HMq : 0 <= z2q M) by (apply z2q_nonneg; exact HM).
  assert (Hx0 : 0 <= u * (z2q M + (1 - eps))) by nra.
  rewrite (qtrunc_nonneg _ Hx0). split; [apply floor_nonneg; exact Hx0|].
  apply floor_lt_Z. rewrite z2q_plus1. nra.
Qed.

(* ---- unit-interval variates ------------------------------------------------------- *)
Definition unit_u (u : Q) : Prop := 0 <= u /\ u < 1.

Lemma unit_nth : forall us m, Forall unit_u us -> unit_u (nth m us 0%Q).
Proof.
  intros us m H. destruct (Nat.lt_ge_cases m (length us)) as [L|L].
  - rewrite Forall_forall in H. apply H, nth_In, L.
  - rewrite nth_overflow by exact L. split; [apply Qle_refl|reflexivity].
Qed.

(* ---- the caps ---------------------------------------------------------------------- *)
Lemma cap_exact_bounds : forall len p M,
  (0 <= len)%Z -> 0 <= p -> (0 <= M)%Z ->
  (0 <= cap exact len p M <= M)%Z /\ z2q (cap exact len p M) <= z2q len * p.
Proof.
  intros len p M Hl Hp HM. unfold cap, lenq; cbn [r32 exact].
  assert (Hlq : 0 <= z2q len) by (apply z2q_nonneg; exact Hl).
  assert (HMq : 0 <= z2q M) by (apply z2q_nonneg; exact HM).
  split; [split|].
  - apply floor_nonneg, qmin_glb; [nra|exact HMq].
  - etransitivity; [apply Qfloor_resp_le, qmin_r|]. unfold z2q. rewrite Qfloor_Z. lia.
  - eapply Qle_trans; [apply floor_le_self|apply qmin_l].
Qed.

Section TimeMasks.
  Variables (eps : Q) (c : cfg) (len : Z) (us us0 : list Q).
  Hypothesis eps_pos : 0 < eps.
  Hypothesis eps_le1 : eps <= 1.
  Hypothesis len_nonneg : (0 <= len)%Z.
  Hypothesis Mt_nonneg : (0 <= c_Mt c)%Z.
  Hypothesis pt_range : 0 <= c_pt c /\ c_pt c <= 1.
  Hypothesis npt_nonneg : 0 <= c_npt c.
  Hypothesis us_unit : Forall unit_u us.
  Hypothesis us0_unit : Forall unit_u us0.

  Let max_ := cap exact len (c_pt c) (c_Mt c).
  Let nums := cap exact len (c_npt c) (Z.of_nat (c_nt c)).

  Lemma tm_t_bounds : forall m, (0 <= tm_t exact eps max_ nums m (nth m us 0%Q) <= max_)%Z.
  Proof.
    intro m. unfold tm_t. cbn [omeps r32 r64 exact].
    destruct (cap_exact_bounds len (c_pt c) (c_Mt c) len_nonneg (proj1 pt_range) Mt_nonneg) as [[H0 _] _].
    fold max_ in H0.
    destruct (nums <=? Z.of_nat m)%Z; [lia|].
    destruct (unit_nth us m us_unit). apply trunc_scaled; assumption.
  Qed.

  Lemma max_le_len : (max_ <= len)%Z.
  Proof.
    destruct (cap_exact_bounds len (c_pt c) (c_Mt c) len_nonneg (proj1 pt_range) Mt_nonneg) as [_ H].
    fold max_ in H. apply z2q_le_inv.
    eapply Qle_trans; [exact H|].
    pose proof (z2q_nonneg len len_nonneg). destruct pt_range. nra.
  Qed.

  Lemma time_mask_entry : forall b, In b (time_masks exact eps c len us us0) ->
    exists m, (m < c_nt c)%nat /\
      snd b = tm_t exact eps max_ nums m (nth m us 0%Q) /\
      fst b = tm_t0 exact eps len (snd b) (nth m us0 0%Q).
  Proof.
    intros b H. unfold time_masks in H. apply in_map_iff in H. destruct H as [m [E I]].
    apply in_seq in I. exists m. subst b. cbn [fst snd]. split; [lia|split; reflexivity].
  Qed.

  (* every time mask: 0 <= t <= Mt, t <= len * pt, 0 <= t_0, t_0 + t <= len *)
  Lemma time_masks_each : Forall (tmask_ok 0 c len) (time_masks exact eps c len us us0).
  Proof.
    apply Forall_forall. intros b Hb. destruct (time_mask_entry b Hb) as [m [_ [Et Et0]]].
    pose proof (tm_t_bounds m) as [Ht0 Htm]. rewrite <- Et in Ht0, Htm.
    destruct (cap_exact_bounds len (c_pt c) (c_Mt c) len_nonneg (proj1 pt_range) Mt_nonneg) as [[_ HM] Hp].
    fold max_ in HM, Hp. pose proof max_le_len as Hml.
    assert (Ht0b : (0 <= fst b <= len - snd b)%Z).
    { rewrite Et0. unfold tm_t0, lenq. cbn [omeps r32 r64 exact].
      destruct (unit_nth us0 m us0_unit).
      assert (E : z2q len - z2q (snd b) == z2q (len - snd b)).
      { unfold z2q, Zminus. rewrite inject_Z_plus, inject_Z_opp. reflexivity. }
      assert (Q : qtrunc (nth m us0 0%Q * (z2q len - z2q (snd b) + (1 - eps)))
                  = qtrunc (nth m us0 0%Q * (z2q (len - snd b) + (1 - eps)))).
      { apply qtrunc_comp. rewrite E. reflexivity. }
      rewrite Q. apply trunc_scaled; try assumption. lia. }
    unfold tmask_ok. repeat split; try lia.
    eapply Qle_trans; [|assert (X : z2q len * c_pt c * (1 + 0) == z2q len * c_pt c) by ring;
                        rewrite X; exact Hp].
    apply z2q_le. exact Htm.
  Qed.

  Lemma time_masks_length : length (time_masks exact eps c len us us0) = c_nt c.
  Proof. unfold time_masks. now rewrite map_length, seq_length. Qed.

  (* at most [nums] masks have a non-zero width *)
  Lemma count_nonzero_le_nums :
    (count_nonzero (time_masks exact eps c len us us0) <= Z.max 0 nums)%Z.
  Proof.
    unfold count_nonzero, time_masks.
    set (f := fun m : nat => (tm_t0 exact eps len (tm_t exact eps max_ nums m (nth m us 0%Q)) (nth m us0 0%Q),
                             tm_t exact eps max_ nums m (nth m us 0%Q))).
    assert (G : forall n s, (Z.of_nat (length (filter (fun b : Z * Z => negb (snd b =? 0)%Z) (map f (seq s n))))
                             <= Z.max 0 (nums - Z.of_nat s))%Z).
    { induction n as [|n IH]; intro s; [cbn; lia|].
      cbn [seq map filter]. specialize (IH (S s)).
      destruct (negb (snd (f s) =? 0)%Z) eqn:E.
      - cbn [length]. unfold f in E. cbn [snd] in E. unfold tm_t in E.
        destruct (nums <=? Z.of_nat s)%Z eqn:L; [cbn in E; discriminate|].
        apply Z.leb_gt in L. lia.
      - lia. }
    specialize (G (c_nt c) 0%nat). cbn [Z.of_nat] in G. rewrite Z.sub_0_r in G. exact G.
  Qed.

  Lemma time_masks_ok : tmasks_ok 0 c len (time_masks exact eps c len us us0).
  Proof.
    unfold tmasks_ok. split; [apply time_masks_length|]. split; [apply time_masks_each|].
    pose proof count_nonzero_le_nums as Hc.
    destruct (cap_exact_bounds len (c_npt c) (Z.of_nat (c_nt c)) len_nonneg npt_nonneg (Nat2Z.is_nonneg _))
      as [[Hn0 HnM] Hnp]. fold nums in Hn0, HnM, Hnp.
    split; [lia|].
    assert (X : z2q len * c_npt c * (1 + 0) == z2q len * c_npt c) by ring. rewrite X.
    eapply Qle_trans; [|exact Hnp]. apply z2q_le. lia.
  Qed.
End TimeMasks.

Section FreqMasks.
  Variables (eps : Q) (c : cfg) (F : Z) (us us0 : list Q).
  Hypothesis eps_pos : 0 < eps.
  Hypothesis eps_le1 : eps <= 1.
  Hypothesis F_nonneg : (0 <= F)%Z.
  Hypothesis Mf_nonneg : (0 <= c_Mf c)%Z.
  Hypothesis us_unit : Forall unit_u us.
  Hypothesis us0_unit : Forall unit_u us0.

  Lemma freq_masks_ok : fmasks_ok c F (freq_masks exact eps c F us us0).
  Proof.
    unfold fmasks_ok, freq_masks. split; [now rewrite map_length, seq_length|].
    apply Forall_forall. intros b Hb. apply in_map_iff in Hb. destruct Hb as [m [E _]]. subst b.
    unfold fmask_ok. cbn [fst snd].
    assert (Hf : (0 <= fm_f exact eps (Z.min (c_Mf c) F) (nth m us 0%Q) <= Z.min (c_Mf c) F)%Z).
    { unfold fm_f. cbn [r32 r64 exact]. destruct (unit_nth us m us_unit).
      apply trunc_scaled; try assumption. lia. }
    set (f := fm_f exact eps (Z.min (c_Mf c) F) (nth m us 0%Q)) in *.
    assert (Hf0 : (0 <= fm_f0 exact eps F f (nth m us0 0%Q) <= F - f)%Z).
    { unfold fm_f0. cbn [omeps r32 r64 exact]. destruct (unit_nth us0 m us0_unit).
      apply trunc_scaled; try assumption. lia. }
    lia.
  Qed.
End FreqMasks.

(* ---- warp windows ---------------------------------------------------------------- *)
(* W = clamp(len/2 - eps, 0, Wmax), centre = u (len - 2W) + W, shift = u' 2W - W *)
Lemma time_warp_window : forall eps Wmax len u u',
  0 < eps -> 0 <= Wmax -> (0 <= len)%Z -> unit_u u -> unit_u u' ->
  let W := tw_W exact eps Wmax len in
  0 <= W /\ W <= Wmax /\ 2 * W <= z2q len /\ qmin Wmax (z2q len / 2) - eps <= W
  /\ W <= tw_w0 exact W len u /\ tw_w0 exact W len u <= z2q len - W
  /\ - W <= tw_w exact W u' /\ tw_w exact W u' <= W.
Proof.
  intros eps Wmax len u u' He HW Hl [Hu0 Hu1] [Hv0 Hv1]. cbv zeta.
  unfold tw_W, tw_w0, tw_w, lenq. cbn [r32 r64 exact].
  set (L := z2q len).
  assert (HL : 0 <= L) by (apply z2q_nonneg; exact Hl).
  set (W := qmin (qmax (L / 2 - eps) 0) Wmax).
  assert (W0 : 0 <= W) by (apply qmin_glb; [apply qmax_r|exact HW]).
  assert (W1 : W <= Wmax) by apply qmin_r.
  assert (Hhalf : L / 2 == L * (1 # 2)) by (unfold Qdiv; reflexivity).
  assert (W2 : W <= qmax (L / 2 - eps) 0) by apply qmin_l.
  assert (W3 : qmax (L / 2 - eps) 0 <= L / 2).
  { apply qmax_lub; lra. }
  assert (W4 : 2 * W <= L) by lra.
  assert (W5 : qmin Wmax (L / 2) - eps <= W).
  { apply qmin_glb.
    - eapply Qle_trans; [|apply qmax_l]. pose proof (qmin_r Wmax (L / 2)). lra.
    - pose proof (qmin_l Wmax (L / 2)). lra. }
  repeat split; try assumption; nra.
Qed.

Lemma freq_warp_window : forall eps Wmax F u u',
  0 < eps -> 0 <= Wmax -> (0 <= F)%Z -> unit_u u -> unit_u u' ->
  let V := fw_V exact eps Wmax F in
  0 <= V /\ V <= Wmax /\ 2 * V <= z2q F /\ qmin Wmax (z2q F / 2) - eps <= V
  /\ V <= fw_v0 exact V F u /\ fw_v0 exact V F u <= z2q F - V
  /\ - V <= fw_v exact V u' /\ fw_v exact V u' <= V.
Proof.
  intros eps Wmax F u u' He HW Hl [Hu0 Hu1] [Hv0 Hv1]. cbv zeta.
  unfold fw_V, fw_v0, fw_v. cbn [r32 r64 exact].
  set (L := z2q F).
  assert (HL : 0 <= L) by (apply z2q_nonneg; exact Hl).
  set (W := qmin (qmax (L / 2 - eps) 0) Wmax).
  assert (W0 : 0 <= W) by (apply qmin_glb; [apply qmax_r|exact HW]).
  assert (W1 : W <= Wmax) by apply qmin_r.
  assert (Hhalf : L / 2 == L * (1 # 2)) by (unfold Qdiv; reflexivity).
  assert (W2 : W <= qmax (L / 2 - eps) 0) by apply qmin_l.
  assert (W3 : qmax (L / 2 - eps) 0 <= L / 2).
  { apply qmax_lub; lra. }
  assert (W4 : 2 * W <= L) by lra.
  assert (W5 : qmin Wmax (L / 2) - eps <= W).
  { apply qmin_glb.
    - eapply Qle_trans; [|apply qmax_l]. pose proof (qmin_r Wmax (L / 2)). lra.
    - pose proof (qmin_l Wmax (L / 2)). lra. }
  repeat split; try assumption; nra.
Qed.

(* ---- all clauses together: the declarative spec holds of every draw -------------- *)
Definition uv_unit (u : uv) : Prop :=
  unit_u (u_w0 u) /\ unit_u (u_w u) /\ unit_u (u_v0 u) /\ unit_u (u_v u)
  /\ Forall unit_u (u_t u) /\ Forall unit_u (u_t0 u) /\ Forall unit_u (u_f u) /\ Forall unit_u (u_f0 u).

Definition cfg_valid (c : cfg) : Prop :=
  0 <= c_Wt c /\ 0 <= c_Wf c /\ (0 <= c_Mt c)%Z /\ (0 <= c_Mf c)%Z
  /\ 0 <= c_pt c /\ c_pt c <= 1 /\ 0 <= c_npt c /\ c_npt c <= 1.

Lemma warp_ok_of_window : forall eps Wmax len W x0 x,
  0 < eps -> W <= Wmax -> 2 * W <= z2q len -> qmin Wmax (z2q len / 2) - eps <= W ->
  W <= x0 -> x0 <= z2q len - W -> - W <= x -> x <= W ->
  warp_ok eps Wmax len (x0, x).
Proof.
  intros eps Wmax len W x0 x He H1 H2 H3 H4 H5 H6 H7. unfold warp_ok. cbn [fst snd].
  assert (E : z2q len / 2 == z2q len * (1 # 2)) by (unfold Qdiv; reflexivity).
  set (W' := qmin Wmax (z2q len / 2)) in *.
  assert (HW : W <= W').
  { apply qmin_glb; [exact H1|]. lra. }
  repeat split; lra.
Qed.

Lemma draw_exact_ok : forall eps c F len u,
  0 < eps -> eps <= 1 -> cfg_valid c -> (0 <= F)%Z -> (0 <= len)%Z -> uv_unit u ->
  draw_ok eps 0 c F len (draw exact eps c F len u).
Proof.
  intros eps c F len u He0 He1 [C1 [C2 [C3 [C4 [C5 [C6 [C7 C8]]]]]]] HF Hl
         [U1 [U2 [U3 [U4 [U5 [U6 [U7 U8]]]]]]].
  unfold draw_ok, draw. cbn [p_tw p_fw p_tm p_fm]. repeat split.
  - destruct (nonzero (c_Wt c)); [|exact I]. cbn [opt_ok].
    destruct (time_warp_window eps (c_Wt c) len (u_w0 u) (u_w u) He0 C1 Hl U1 U2)
      as [W0 [W1 [W2 [W3 [W4 [W5 [W6 W7]]]]]]].
    eapply warp_ok_of_window; eassumption.
  - destruct (nonzero (c_Wf c)); [|exact I]. cbn [opt_ok].
    destruct (freq_warp_window eps (c_Wf c) F (u_v0 u) (u_v u) He0 C2 HF U3 U4)
      as [W0 [W1 [W2 [W3 [W4 [W5 [W6 W7]]]]]]].
    eapply warp_ok_of_window; eassumption.
  - destruct (negb (c_Mt c =? 0)%Z && nonzero (c_pt c) && negb (Nat.eqb (c_nt c) 0) && nonzero (c_npt c));
      [|exact I].
    cbn [opt_ok]. apply time_masks_ok; auto.
  - destruct (negb (c_Mf c =? 0)%Z && negb (Nat.eqb (c_nf c) 0)); [|exact I].
    cbn [opt_ok]. apply freq_masks_ok; auto.
Qed.

(* ---- the boolean checker used by the harness is the declarative spec ------------- *)
Lemma tmask_okb_iff : forall s c len b, tmask_okb s c len b = true <-> tmask_ok s c len b.
Proof.
  intros. unfold tmask_okb, tmask_ok. rewrite !andb_true_iff, !Z.leb_le, Qle_bool_iff. tauto.
Qed.

Lemma fmask_okb_iff : forall c F b, fmask_okb c F b = true <-> fmask_ok c F b.
Proof. intros. unfold fmask_okb, fmask_ok. rewrite !andb_true_iff, !Z.leb_le. tauto. Qed.

Lemma forallb_iff : forall {A} (f : A -> bool) (P : A -> Prop) l,
  (forall x, f x = true <-> P x) -> (forallb f l = true <-> Forall P l).
Proof.
  intros A f P l H. rewrite forallb_forall, Forall_forall. split; intros G x Hx; apply H, G, Hx.
Qed.

Lemma draw_okb_iff : forall ws ps c F len p,
  draw_okb ws ps c F len p = true <-> draw_ok ws ps c F len p.
Proof.
  intros. unfold draw_okb, draw_ok. rewrite !andb_true_iff.
  assert (Hw : forall Wmax l o, opt_okb (warp_okb ws Wmax l) o = true <-> opt_ok (warp_ok ws Wmax l) o).
  { intros Wmax l [q|]; cbn [opt_okb opt_ok]; [|tauto].
    unfold warp_okb, warp_ok. rewrite !andb_true_iff, !Qle_bool_iff. tauto. }
  assert (Ht : opt_okb (tmasks_okb ps c len) (p_tm p) = true <-> opt_ok (tmasks_ok ps c len) (p_tm p)).
  { destruct (p_tm p) as [l|]; cbn [opt_okb opt_ok]; [|tauto].
    unfold tmasks_okb, tmasks_ok. rewrite !andb_true_iff, Nat.eqb_eq, Z.leb_le, Qle_bool_iff.
    rewrite (forallb_iff _ _ l (tmask_okb_iff ps c len)). tauto. }
  assert (Hf : opt_okb (fmasks_okb c F) (p_fm p) = true <-> opt_ok (fmasks_ok c F) (p_fm p)).
  { destruct (p_fm p) as [l|]; cbn [opt_okb opt_ok]; [|tauto].
    unfold fmasks_okb, fmasks_ok. rewrite !andb_true_iff, Nat.eqb_eq.
    rewrite (forallb_iff _ _ l (fmask_okb_iff c F)). tauto. }
  rewrite (Hw (c_Wt c) len), (Hw (c_Wf c) F), Ht, Hf. tauto.
Qed.
