(* MiniTorch, unit C06Src — the meaning given to the torch operations that occur in
   `_lookup_calc_idx_log_probs` (src/pydrobert/torch/_lm.py).  DEFINITIONS ONLY; the algebra is in
   LemmasC06.v, the encoding of these tensors as MiniPy values in C06/SrcRun.v.

   A tensor is (shape, row-major flat data over [cell]):
     CI z          element of an integer tensor (uint8 / int16 / int32 / int64 alike: integers are
                   UNBOUNDED, wrap-around is not modelled; dtypes are not part of a value)
     CB b          element of a torch.bool tensor
     CF (FQ q)     finite float, an exact rational (IEEE rounding is not modelled: the C06 grid k/8
                   makes every float32 sum the function forms exact)
     CF FNInf      -inf
     CF FNaN       nan (the trie builder writes nan into the dummy node of every level)
   +inf is not representable (a -inf + +inf would be the only other source of nan).  Devices, strides
   and contiguity are not modelled: a tensor is its logical row-major content; `view`, `.T`, `expand`
   build that content anew.

   Operations are defined on the dimensionalities the function uses (stated with each) and return
   [None] outside that domain; the unit's [ext] turns [None] into [Stuck], so a tie lemma about a run
   that leaves the domain cannot be proved (fail-closed).  In particular INDEXING OUT OF RANGE
   (torch: IndexError) and NEGATIVE element indices (torch: counted from the end) are outside the
   domain of [index1].

   Each definition quotes the sentence of the torch documentation (2.x) it models.  This file is
   TRUSTED by the C06 source tie; it is exercised on every run by the harness-side
   `src_lookup_check` (CPython/torch vs the interpreted source on the same inputs). *)
From Coq Require Import List ZArith QArith Bool Arith.
Import ListNotations.

Inductive fl := FQ (q : Q) | FNInf | FNaN.
Inductive cell := CI (z : Z) | CB (b : bool) | CF (f : fl).

Record tens6 := T6 { sh6 : list nat; dt6 : list cell }.

(* ---- helpers on lists ------------------------------------------------------------------------- *)
Fixpoint sequence {A} (l : list (option A)) : option (list A) :=
  match l with
  | [] => Some []
  | Some x :: r => option_map (cons x) (sequence r)
  | None :: _ => None
  end.

Definition prodn (s : list nat) : nat := fold_right Nat.mul 1%nat s.

Fixpoint shape_eqb (a b : list nat) : bool :=
  match a, b with
  | [], [] => true
  | x :: a', y :: b' => (x =? y)%nat && shape_eqb a' b'
  | _, _ => false
  end.

(* the data cut into [cnt] consecutive rows of length [k] *)
Fixpoint chunk6 {A} (cnt k : nat) (d : list A) : list (list A) :=
  match cnt with O => [] | S c => firstn k d :: chunk6 c k (skipn k d) end.

(* sizes given as Python ints: all must be non-negative (-1 = "infer" is not modelled) *)
Fixpoint nats_of (l : list Z) : option (list nat) :=
  match l with
  | [] => Some []
  | z :: r => if (0 <=? z)%Z then option_map (cons (Z.to_nat z)) (nats_of r) else None
  end.

(* a dimension index d in [-D, D) *)
Definition norm_dim (D : nat) (d : Z) : option nat :=
  if ((- Z.of_nat D <=? d) && (d <? 0))%Z%bool then Some (Z.to_nat (Z.of_nat D + d))
  else if ((0 <=? d) && (d <? Z.of_nat D))%Z%bool then Some (Z.to_nat d) else None.

(* well-formed: as many elements as the shape says *)
Definition wf6 (t : tens6) : bool := (length (dt6 t) =? prodn (sh6 t))%nat.

(* ---- shape queries ---------------------------------------------------------------------------- *)
(* Tensor.numel(): "Returns the total number of elements in the input tensor." *)
Definition numel (t : tens6) : nat := prodn (sh6 t).

(* Tensor.size(dim): "If dim is specified, returns an int holding the size of that dimension."
   None: dimension out of range (torch: IndexError).  Tensor.shape is [sh6] itself. *)
Definition size (t : tens6) (d : Z) : option nat :=
  match norm_dim (length (sh6 t)) d with Some k => nth_error (sh6 t) k | None => None end.

(* ---- creation ---------------------------------------------------------------------------------- *)
(* torch.arange(end): "Returns a 1-D tensor of size ceil((end - start) / step) with values from the interval
   [start, end) taken with common difference step beginning from start" (start 0, step 1, integer end >= 0;
   device= / dtype=torch.long ignored: the values are the integers 0 .. end-1) *)
Definition arange (n : Z) : option tens6 :=
  if (0 <=? n)%Z then Some (T6 [Z.to_nat n] (map (fun i => CI (Z.of_nat i)) (seq 0 (Z.to_nat n)))) else None.

(* torch.full(size, fill_value): "Creates a tensor of size size filled with fill_value." *)
Definition full (sizes : list Z) (c : cell) : option tens6 :=
  option_map (fun s => T6 s (repeat c (prodn s))) (nats_of sizes).

(* torch.ones(n, dtype=torch.bool): "Returns a tensor filled with the scalar value 1, with the shape defined by
   the variable argument size" - in dtype bool the value 1 is True *)
Definition ones_bool (n : Z) : option tens6 := full [n] (CB true).

(* torch.zeros_like(input): "Returns a tensor filled with the scalar value 0, with the same size as input" (and
   the same dtype: the zero of the element's kind) *)
Definition zero_of (c : cell) : cell :=
  match c with CI _ => CI 0 | CB _ => CB false | CF _ => CF (FQ 0) end.
Definition zeros_like (t : tens6) : tens6 := T6 (sh6 t) (map zero_of (dt6 t)).

(* ---- views / reshaping --------------------------------------------------------------------------- *)
(* Tensor.unsqueeze(dim): "Returns a new tensor with a dimension of size one inserted at the specified position
   ... A dim value within the range [-input.dim() - 1, input.dim() + 1) can be used." *)
Definition unsqueeze (t : tens6) (d : Z) : option tens6 :=
  let D := Z.of_nat (length (sh6 t)) in
  if ((- D - 1 <=? d) && (d <=? D))%Z%bool then
    let k := Z.to_nat (if (d <? 0)%Z then d + D + 1 else d)%Z in
    Some (T6 (firstn k (sh6 t) ++ 1%nat :: skipn k (sh6 t)) (dt6 t))
  else None.

(* Tensor.view( *shape ): "Returns a new tensor with the same data as the self tensor but of a different shape"
   (same number of elements, else RuntimeError -> None; -1 not modelled; stride conditions not modelled) *)
Definition view (t : tens6) (sizes : list Z) : option tens6 :=
  match nats_of sizes with
  | Some s => if (prodn s =? numel t)%nat then Some (T6 s (dt6 t)) else None
  | None => None
  end.

(* Tensor.T: "Returns a view of this tensor with its dimensions reversed."  (2-D only: the transpose) *)
Definition transpose (t : tens6) : option tens6 :=
  match sh6 t with
  | [r; c] => Some (T6 [c; r] (flat_map (fun j => map (fun row => nth j row (CI 0)) (chunk6 r c (dt6 t))) (seq 0 c)))
  | _ => None
  end.

(* Tensor.expand( *sizes ): "Returns a new view of the self tensor with singleton dimensions expanded to a larger
   size. ... Tensor can be also expanded to a larger number of dimensions, and the new ones will be appended at
   the front."  Modelled: () or (1,) -> (B,);  (n,) -> (n,);  (n,) -> (B, n).  (-1 not modelled) *)
Definition expand (t : tens6) (sizes : list Z) : option tens6 :=
  match nats_of sizes, sh6 t, dt6 t with
  | Some [B], [], [x] => Some (T6 [B] (repeat x B))
  | Some [B], [n], d =>
      if (n =? B)%nat then Some t
      else match n, d with 1%nat, [x] => Some (T6 [B] (repeat x B)) | _, _ => None end
  | Some [B; n'], [n], d => if (n =? n')%nat then Some (T6 [B; n] (concat (repeat d B))) else None
  | _, _, _ => None
  end.

(* Tensor.repeat( *sizes ): "Repeats this tensor along the specified dimensions. Unlike expand(), this function
   copies the tensor's data."  (1-D tensor, one repeat count) *)
Definition repeat1 (t : tens6) (k : Z) : option tens6 :=
  match sh6 t with
  | [n] => if (0 <=? k)%Z then Some (T6 [(Z.to_nat k * n)%nat] (concat (repeat (dt6 t) (Z.to_nat k)))) else None
  | _ => None
  end.

(* Tensor.repeat_interleave(repeats): "Repeat elements of a tensor. ... repeats is broadcasted to fit the shape
   of the given axis. ... By default (dim=None), use the flattened input array, and return a flat output array."
   (1-D tensor, one integer count: every element repeated that many times, in place) *)
Definition repeat_interleave (t : tens6) (k : Z) : option tens6 :=
  match sh6 t with
  | [n] => if (0 <=? k)%Z then Some (T6 [(n * Z.to_nat k)%nat] (flat_map (fun x => repeat x (Z.to_nat k)) (dt6 t)))
           else None
  | _ => None
  end.

(* torch.cat(tensors, dim=0): "Concatenates the given sequence of tensors in tensors in the given dimension. All
   tensors must either have the same shape (except in the concatenating dimension) or be a 1-D empty tensor with
   size (0,)."  (dim 0, every tensor at least 1-D with the same trailing sizes; the (0,) exception and a size
   mismatch - RuntimeError in torch - are None) *)
Fixpoint cat_rows (rest : list nat) (ts : list tens6) : option (nat * list cell) :=
  match ts with
  | [] => Some (0%nat, [])
  | t :: r =>
      match sh6 t with
      | n :: rest' =>
          if shape_eqb rest rest'
          then option_map (fun p => ((n + fst p)%nat, dt6 t ++ snd p)) (cat_rows rest r) else None
      | [] => None
      end
  end.

Definition cat0 (ts : list tens6) : option tens6 :=
  match ts with
  | [] => None
  | t :: _ => match sh6 t with
              | _ :: rest => option_map (fun p => T6 (fst p :: rest) (snd p)) (cat_rows rest ts)
              | [] => None
              end
  end.

(* ---- indexing ------------------------------------------------------------------------------------ *)
(* Python's slice.indices for step 1: a missing bound is the default, a negative one counts from the end, both are
   clipped to [0, n] *)
Definition clip (n : Z) (v : option Z) (dflt : Z) : Z :=
  match v with
  | None => dflt
  | Some z => let z' := if (z <? 0)%Z then (z + n)%Z else z in Z.max 0 (Z.min n z')
  end.

(* x[lo:hi] (basic slicing of the first dimension, step 1; x at least 1-D): rows clip(lo) .. clip(hi)-1 *)
Definition slice0 (t : tens6) (lo hi : option Z) : option tens6 :=
  match sh6 t with
  | n :: rest =>
      let inner := prodn rest in
      let a := clip (Z.of_nat n) lo 0 in
      let b := clip (Z.of_nat n) hi (Z.of_nat n) in
      let len := Z.to_nat (b - a) in
      Some (T6 (len :: rest) (firstn (len * inner) (skipn (Z.to_nat a * inner) (dt6 t))))
  | [] => None
  end.

(* x[i] with a Python int (x at least 1-D): "the first dimension is indexed"; i in [-n, n) else IndexError (None) *)
Definition select0 (t : tens6) (i : Z) : option tens6 :=
  match sh6 t with
  | n :: rest =>
      let j := if (i <? 0)%Z then (i + Z.of_nat n)%Z else i in
      if ((0 <=? j) && (j <? Z.of_nat n))%Z%bool then
        let inner := prodn rest in
        Some (T6 rest (firstn inner (skipn (Z.to_nat j * inner) (dt6 t))))
      else None
  | [] => None
  end.

(* x[idx] with x 1-D and idx an integer tensor of any shape (advanced indexing): the result has idx's shape and
   holds x[idx[...]].  Every index must lie in [0, n): an index >= n is IndexError in torch, a negative one counts
   from the end - neither is modelled (None). *)
Definition pick (d : list cell) (c : cell) : option cell :=
  match c with
  | CI i => if ((0 <=? i) && (i <? Z.of_nat (length d)))%Z%bool then nth_error d (Z.to_nat i) else None
  | _ => None
  end.

Definition index1 (x idx : tens6) : option tens6 :=
  match sh6 x with
  | [_] => option_map (T6 (sh6 idx)) (sequence (map (pick (dt6 x)) (dt6 idx)))
  | _ => None
  end.

(* Tensor.masked_select(mask): "Returns a new 1-D tensor which indexes the input tensor according to the boolean
   mask mask which is a BoolTensor."  (mask of exactly the input's shape: broadcasting not modelled) *)
Fixpoint msel (d m : list cell) : option (list cell) :=
  match d, m with
  | [], [] => Some []
  | x :: d', CB b :: m' => option_map (fun r => if b then x :: r else r) (msel d' m')
  | _, _ => None
  end.

Definition masked_select (t m : tens6) : option tens6 :=
  if shape_eqb (sh6 t) (sh6 m)
  then option_map (fun d => T6 [length d] d) (msel (dt6 t) (dt6 m)) else None.

(* ---- reductions ------------------------------------------------------------------------------------ *)
Definition int_of (c : cell) : option Z := match c with CI z => Some z | _ => None end.
Definition bool_of (c : cell) : option bool := match c with CB b => Some b | _ => None end.

(* Tensor.min(): "Returns the minimum value of all elements in the input tensor."  (integer tensor with at least
   one element - torch raises on an empty one; the result is 0-dimensional) *)
Definition tmin (t : tens6) : option tens6 :=
  match sequence (map int_of (dt6 t)) with
  | Some (z :: r) => Some (T6 [] [CI (fold_right Z.min z r)])
  | _ => None
  end.

(* Tensor.item(): "Returns the value of this tensor as a standard Python number. This only works for tensors with
   one element." *)
Definition item (t : tens6) : option cell :=
  match dt6 t with [c] => if (numel t =? 1)%nat then Some c else None | _ => None end.

(* one value per row of an (n, m) tensor *)
Fixpoint rows_red {A} (g : list cell -> A) (m n : nat) (d : list cell) : list A :=
  match n with O => [] | S n' => g (firstn m d) :: rows_red g m n' (skipn m d) end.

(* Tensor.any(dim): "For each row of input in the given dimension dim, returns True if any element in the row
   evaluate to True and False otherwise."  (2-D bool tensor, dim = 1 or -1) *)
Definition any_row (r : list cell) : option cell :=
  option_map (fun bs => CB (existsb (fun b => b) bs)) (sequence (map bool_of r)).

Definition any1 (t : tens6) (d : Z) : option tens6 :=
  match sh6 t with
  | [n; m] => if ((d =? 1) || (d =? -1))%Z%bool
              then option_map (T6 [n]) (sequence (rows_red any_row m n (dt6 t))) else None
  | _ => None
  end.

(* Tensor.sum(dim): "Returns the sum of each row of the input tensor in the given dimension dim."  (2-D integer
   tensor, dim = 1 or -1) *)
Definition sum_row (r : list cell) : option cell :=
  option_map (fun zs => CI (fold_right Z.add 0%Z zs)) (sequence (map int_of r)).

Definition sum1 (t : tens6) (d : Z) : option tens6 :=
  match sh6 t with
  | [n; m] => if ((d =? 1) || (d =? -1))%Z%bool
              then option_map (T6 [n]) (sequence (rows_red sum_row m n (dt6 t))) else None
  | _ => None
  end.

(* ---- element-wise, tensor with Python number -------------------------------------------------------- *)
Definition map_cells (f : cell -> option cell) (t : tens6) : option tens6 :=
  option_map (T6 (sh6 t)) (sequence (map f (dt6 t))).

(* tensor + int, tensor - int (integer tensor) *)
Definition add_s (t : tens6) (c : Z) : option tens6 :=
  map_cells (fun x => match x with CI z => Some (CI (z + c)) | _ => None end) t.
Definition sub_s (t : tens6) (c : Z) : option tens6 :=
  map_cells (fun x => match x with CI z => Some (CI (z - c)) | _ => None end) t.

(* Tensor.clamp_max(max): "Clamps all elements in input to be smaller or equal max" (integer tensor, integer max) *)
Definition clamp_max (t : tens6) (c : Z) : option tens6 :=
  map_cells (fun x => match x with CI z => Some (CI (Z.min z c)) | _ => None end) t.

(* Tensor.eq(other) with a number: "Computes element-wise equality" *)
Definition eq_s (t : tens6) (c : Z) : option tens6 :=
  map_cells (fun x => match x with CI z => Some (CB (z =? c)%Z) | _ => None end) t.

(* tensor >= int: "Computes input >= other element-wise." *)
Definition ge_s (t : tens6) (c : Z) : option tens6 :=
  map_cells (fun x => match x with CI z => Some (CB (c <=? z)%Z) | _ => None end) t.

(* ~mask: "Computes the bitwise NOT of the given input tensor. ... For bool tensors, it computes the logical NOT."
   (bool tensors only) *)
Definition invert (t : tens6) : option tens6 :=
  map_cells (fun x => match x with CB b => Some (CB (negb b)) | _ => None end) t.

(* torch.isfinite(input): "Returns a new tensor with boolean elements representing if each element is finite or
   not.  Real values are finite when they are not NaN, negative infinity, or infinity." *)
Definition isfinite (t : tens6) : option tens6 :=
  map_cells (fun x => match x with
                      | CF (FQ _) => Some (CB true) | CF _ => Some (CB false)
                      | CI _ => Some (CB true) | CB _ => None end) t.

(* ---- element-wise, two tensors (broadcasting) --------------------------------------------------------- *)
(* "Two tensors are broadcastable if ... iterating over the dimension sizes, starting at the trailing dimension,
   the dimension sizes must either be equal, one of them is 1, or one of them does not exist."  Modelled pairs of
   shapes: equal;  (n, 1) with (m,) -> (n, m);  (n, 1) with (n, m) -> (n, m). *)
Definition zipc (f : cell -> cell -> option cell) (a b : list cell) : list (option cell) :=
  map (fun p => f (fst p) (snd p)) (combine a b).

Definition outer (f : cell -> cell -> option cell) (a b : list cell) : list (option cell) :=
  flat_map (fun x => map (f x) b) a.

Fixpoint rowwise (f : cell -> cell -> option cell) (a : list cell) (m : nat) (b : list cell) : list (option cell) :=
  match a with
  | [] => []
  | x :: a' => map (f x) (firstn m b) ++ rowwise f a' m (skipn m b)
  end.

Definition bc2 (f : cell -> cell -> option cell) (a b : tens6) : option tens6 :=
  if shape_eqb (sh6 a) (sh6 b) then option_map (T6 (sh6 a)) (sequence (zipc f (dt6 a) (dt6 b)))
  else match sh6 a, sh6 b with
       | [n; 1%nat], [m] => option_map (T6 [n; m]) (sequence (outer f (dt6 a) (dt6 b)))
       | [n; 1%nat], [n'; m] =>
           if (n =? n')%nat then option_map (T6 [n; m]) (sequence (rowwise f (dt6 a) m (dt6 b))) else None
       | _, _ => None
       end.

(* float addition: nan is absorbing, then -inf (there is no +inf), finite sums are exact and kept in lowest terms *)
Definition fadd (a b : fl) : fl :=
  match a, b with
  | FNaN, _ | _, FNaN => FNaN
  | FNInf, _ | _, FNInf => FNInf
  | FQ x, FQ y => FQ (Qred (x + y))
  end.

(* a + b: integers with integers, floats with floats (type promotion is not modelled) *)
Definition addc (x y : cell) : option cell :=
  match x, y with
  | CI a, CI b => Some (CI (a + b))
  | CF a, CF b => Some (CF (fadd a b))
  | _, _ => None
  end.
Definition add (a b : tens6) : option tens6 := bc2 addc a b.

(* a < b, a > b, a == b on integer tensors: "Computes input < other element-wise" etc.; the result is a bool tensor *)
Definition cmpc (r : Z -> Z -> bool) (x y : cell) : option cell :=
  match x, y with CI a, CI b => Some (CB (r a b)) | _, _ => None end.
Definition lt (a b : tens6) : option tens6 := bc2 (cmpc Z.ltb) a b.
Definition gt (a b : tens6) : option tens6 := bc2 (cmpc Z.gtb) a b.
Definition eq (a b : tens6) : option tens6 := bc2 (cmpc Z.eqb) a b.

(* a & b on bool tensors: "Computes the bitwise AND of input and other. ... for bool tensors, it computes the
   logical AND." *)
Definition andc (x y : cell) : option cell :=
  match x, y with CB a, CB b => Some (CB (a && b)) | _, _ => None end.
Definition band (a b : tens6) : option tens6 := bc2 andc a b.

(* Tensor.masked_fill(mask, value): "Fills elements of self tensor with value where mask is True."  (mask of
   exactly self's shape; value a Python number of the kind of self's elements) *)
Definition fillc (v : cell) (x m : cell) : option cell :=
  match m with CB b => Some (if b then v else x) | _ => None end.
Definition masked_fill (t m : tens6) (v : cell) : option tens6 :=
  if shape_eqb (sh6 t) (sh6 m) then option_map (T6 (sh6 t)) (sequence (zipc (fillc v) (dt6 t) (dt6 m))) else None.

(* torch.where(condition, input, other): "Return a tensor of elements selected from either input or other,
   depending on condition."  (three tensors of one shape) *)
Definition twhere (c a b : tens6) : option tens6 :=
  if (shape_eqb (sh6 c) (sh6 a) && shape_eqb (sh6 c) (sh6 b))%bool then
    option_map (T6 (sh6 c))
      (sequence (map (fun p => match fst p with CB true => Some (fst (snd p)) | CB false => Some (snd (snd p)) | _ => None end)
                     (combine (dt6 c) (combine (dt6 a) (dt6 b)))))
  else None.
