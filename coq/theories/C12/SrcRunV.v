(* C12 — the translated blocks of `_info_and_validate` (PV.Gen.C12ValSrc.iv_feat / iv_ali / iv_ref) as an executable:
   the world [env_ds] of the data-set object, the GLUE that runs the blocks in the order of the source, and the
   correspondence entry point [src_check_validate] (same interface as Model.check_op for validate_spect_data_set).
   Definitions only; the lemmas are in TieValidate*.v.

   What is translated, and what is glue (NOT translated - this tie is `_partial`):
     iv_feat   the loop body from `fn = ...` to the `if info:` after the feature checks   (translated)
     `del feat`                                                                            (glue: dropped)
     iv_ali    the statement `if ali is not None: ...`                                     (translated)
     `del ali`                                                                             (glue: dropped)
     `if ref is not None:`                                                                 (glue: [step_src] tests the slot)
     iv_ref    its body from `dir_ = ...` to the loop `for tok, start, end in ref.tolist()` (translated)
     `del ref`                                                                             (glue: dropped)
     `num_filts = ref_is_2d = feat_dtype = None`, `for idx in range(len(data_set))`        (glue: [init_vars], [pass_src])
     `if info:` blocks before / after the loop                                             (info = False here: not run)
     validate_spect_data_set's `fix = 1 if fix else None`                                  (glue: Model.norm_fix)
   The blocks run on ONE variable store that is handed from block to block and from iteration to iteration
   unchanged ([step_src], [pass_src] only set `idx`); every local of the function has a slot in it from the start
   (holding None: the tied text never reads a local before assigning it - Python would raise UnboundLocalError).

   [env_ds c d]: `data_set.get_utterance_tuple(idx)` returns (feat, ali, ref) of utterance idx of the directory d as
   it was when the pass started (every iteration writes only the files of its own utterance), the reference through
   Model.load_ref c - the function that TieLoad ties to the text of `_load_ref`; `os.path.join(a, b)` = a + "/" + b.
   The data-set object is {file_prefix: "", file_suffix: ".pt", utt_ids: [...], data_dir: "d", feat_subdir: "feat",
   ali_subdir: "ali", ref_subdir: "ref"} with distinct utterance ids. *)
From Coq Require Import ZArith List String Ascii Bool.
From PV Require Import MiniPy.Syntax MiniPy.Interp MiniTorch.OpsC12 Gen.C12ValSrc C12.SrcRun.
From PV Require C12.Model.
Import ListNotations.
Local Open Scope string_scope.

(* ---- stored tensors <-> model ---- *)
Definition feat_tens (f : Model.feat) : tens := mkT (Model.f_cuda f) (Model.f_dtype f) (Model.f_shape f) [].
Definition feat_of_tens (t : tens) : Model.feat := Model.mkFeat (t_cuda t) (t_dtype t) (t_shape t).

Definition ali_tens (a : Model.ali) : tens :=
  match Model.a_data a with
  | Model.A1 v => T1 (Model.a_cuda a) (Model.a_dtype a) v
  | Model.AN dims flat => mkT (Model.a_cuda a) (Model.a_dtype a) dims flat
  end.
Definition ali_of_tens (t : tens) : Model.ali :=
  Model.mkAli (t_cuda t) (t_dtype t)
    (match t_shape t with [_] => Model.A1 (t_data t) | s => Model.AN s (t_data t) end).

Definition opt_tens (o : option tens) : val := match o with Some t => enc12 t | None => VNone end.

(* ---- the data-set object ---- *)
Fixpoint uid (i : nat) : string := match i with O => "" | S k => String "u"%char (uid k) end.

Definition ds_obj (ids : list string) : val :=
  VDict [(VStr "file_prefix", VStr ""); (VStr "file_suffix", VStr ".pt"); (VStr "utt_ids", VList (map VStr ids));
         (VStr "data_dir", VStr "d"); (VStr "feat_subdir", VStr "feat"); (VStr "ali_subdir", VStr "ali");
         (VStr "ref_subdir", VStr "ref")].

Definition path_of (sub id : string) : string := (("d" ++ "/" ++ sub) ++ "/" ++ ("" ++ id) ++ ".pt").

(* what get_utterance_tuple(idx) returns / raises *)
Definition utt_tuple (c : Model.cfg) (u : Model.utt) (st : state) : outcome val :=
  match (match Model.u_ref u with
         | None => inr None
         | Some r => match Model.load_ref c r with inl e => inl e | inr lr => inr (Some (tens_of_ref lr)) end
         end) with
  | inl e => Exc (name_of_exn e) st
  | inr lref =>
      let f := enc12 (feat_tens (Model.u_feat u)) in
      let a := opt_tens (option_map ali_tens (Model.u_ali u)) in
      if Model.c_suppress_alis c then Ok (VTuple [f; opt_tens lref]) st
      else Ok (VTuple [f; a; opt_tens lref]) st
  end.

Definition env_ds (c : Model.cfg) (d : Model.dir) (f : string) (args : list val) (kw : list (string * val)) (st : state)
  : outcome val :=
  if is f "$method.get_utterance_tuple" then
    match args, kw with
    | [_; VInt i], [] =>
        if Z.ltb i 0 then Stuck "get_utterance_tuple: negative index"
        else match nth_error d (Z.to_nat i) with
             | Some u => utt_tuple c u st
             | None => Exc "IndexError" st
             end
    | _, _ => Stuck "get_utterance_tuple"
    end
  else if is f "os.path.join" then
    match args, kw with
    | [VStr a; VStr b], [] => Ok (VStr (a ++ "/" ++ b)) st
    | _, _ => Stuck "os.path.join"
    end
  else Stuck ("ext12: " ++ f).

(* ---- the glue ---- *)
Definition slot_names : list string :=
  ["fn"; "$t1"; "feat"; "ali"; "ref"; "write_back"; "prefix"; "dir_"; "prefix_"; "msg"; "$t2"; "T"; "F"; "Tp";
   "idx2"; "r"; "tok"; "start"; "end"].

(* parameters (info = False, validate = True), the global torch, the loop variable, the three state variables, the slots *)
Definition init_vars (ids : list string) (fx : option Z) : list (string * val) :=
  [("data_set", ds_obj ids); ("info", VBool false); ("validate", VBool true); ("fix", oz fx);
   ("torch", torch_module); ("idx", VNone);
   ("num_filts", VNone); ("ref_is_2d", VNone); ("feat_dtype", VNone)]
  ++ map (fun x => (x, VNone)) slot_names.

Definition ext_t : Type := string -> list val -> list (string * val) -> state -> outcome val.

Definition step_src (ext : ext_t) (st : state) : outcome ctl :=
  bind (exec ext iv_feat st) (fun _ st1 =>
  bind (exec ext iv_ali st1) (fun _ st2 =>
  match lookup "ref" (vars st2) with
  | Some VNone => Ok CNormal st2
  | Some _ => exec ext iv_ref st2
  | None => Stuck "ref"
  end)).

Fixpoint pass_src (ext : ext_t) (idxs : list nat) (st : state) : outcome ctl :=
  match idxs with
  | [] => Ok CNormal st
  | i :: r => bind (step_src ext (set_var "idx" (VInt (Z.of_nat i)) st)) (fun _ st' => pass_src ext r st')
  end.

Definition run_pass_src (c : Model.cfg) (fx : option Z) (d : Model.dir) : outcome ctl :=
  let n := List.length d in
  pass_src (ext12 (env_ds c d)) (seq 0 n) (mkState (init_vars (map uid (seq 0 n)) fx) []).

(* ---- the directory afterwards: every file the run saved replaces the stored one ---- *)
Definition last_save (evs : list event) (p : string) : option tens :=
  fold_left (fun acc ev =>
               match ev with
               | (name, [t; VStr q]) =>
                   if (String.eqb name "torch.save" && String.eqb q p)%bool
                   then match dec12 t with Some x => Some x | None => acc end
                   else acc
               | _ => acc
               end) evs None.

Definition post_utt (evs : list event) (i : nat) (u : Model.utt) : Model.utt :=
  Model.mkUtt
    (match last_save evs (path_of "feat" (uid i)) with Some t => feat_of_tens t | None => Model.u_feat u end)
    (match Model.u_ali u with
     | None => None
     | Some a => Some (match last_save evs (path_of "ali" (uid i)) with Some t => ali_of_tens t | None => a end)
     end)
    (match Model.u_ref u with
     | None => None
     | Some r => Some (match last_save evs (path_of "ref" (uid i)) with Some t => ref_of_tens t | None => r end)
     end).

Fixpoint post_from (evs : list event) (i : nat) (d : Model.dir) : Model.dir :=
  match d with [] => [] | u :: r => post_utt evs i u :: post_from evs (S i) r end.

(* validate_spect_data_set(data_set, fix): (directory afterwards, None | the exception); outer None = stuck *)
Definition src_validate (c : Model.cfg) (fa : Model.fixarg) (d : Model.dir) : option (Model.dir * option Model.exn) :=
  match run_pass_src c (Model.norm_fix fa) d with
  | Ok _ st => Some (post_from (events st) 0 d, None)
  | Exc n st => Some (post_from (events st) 0 d, Some (exn_of_name n))
  | Stuck _ => None
  end.

(* same interface as Model.check_op for OpValidate; [evaluated; agrees] *)
Definition src_check_validate (c : Model.cfg) (fa : Model.fixarg) (pre post : Model.dir) (out : option Model.exn) : list bool :=
  match src_validate c fa pre with
  | Some (d', r) => [true; (Model.dir_beq d' post && Model.opt_beq Model.exn_beq r out)%bool]
  | None => [false; false]
  end.
